(* Lemmas about the font index wire format (Model/Index.v, Spec/Index.v). *)
From TV Require Import Model.Index Spec.Index.

Ltac Zify.zify_post_hook ::= Z.div_mod_to_equations.

Ltac b2p := repeat match goal with
  | H : _ && _ = true |- _ => apply andb_true_iff in H; destruct H
  | H : (_ <=? _) = true |- _ => apply Z.leb_le in H
  | H : (_ <? _) = true |- _ => apply Z.ltb_lt in H
  | H : (_ =? _) = true |- _ => apply Z.eqb_eq in H
  | H : (_ <=? _) = false |- _ => apply Z.leb_gt in H
  | H : (_ <? _) = false |- _ => apply Z.ltb_ge in H
  | H : (_ =? _) = false |- _ => apply Z.eqb_neq in H
  end.
Ltac p2b := repeat match goal with
  | |- _ && _ = true => apply andb_true_iff; split
  | |- (_ <=? _) = true => apply Z.leb_le
  | |- (_ <? _) = true => apply Z.ltb_lt
  | |- (_ =? _) = true => apply Z.eqb_eq
  end.

(* ---- bytes ------------------------------------------------------------------------------------ *)
Lemma bytes_okb_ok l : bytes_okb l = true <-> bytes_ok l.
Proof.
  unfold bytes_okb, bytes_ok. rewrite forallb_forall, Forall_forall.
  split; intros H x Hx; specialize (H x Hx); unfold byte_okb, byte_ok in *.
  - b2p; lia.
  - p2b; lia.
Qed.
Lemma bytes_ok_app a b : bytes_ok (a ++ b) <-> bytes_ok a /\ bytes_ok b.
Proof. unfold bytes_ok. apply Forall_app. Qed.
Lemma bytes_ok_skipn n l : bytes_ok l -> bytes_ok (zskipn n l).
Proof.
  unfold bytes_ok, zskipn. intros H. rewrite <- (firstn_skipn (Z.to_nat n) l) in H.
  apply Forall_app in H. tauto.
Qed.
Lemma bytes_ok_firstn n l : bytes_ok l -> bytes_ok (zfirstn n l).
Proof.
  unfold bytes_ok, zfirstn. intros H. rewrite <- (firstn_skipn (Z.to_nat n) l) in H.
  apply Forall_app in H. tauto.
Qed.
Lemma forallb_u8b_bytes_ok s : forallb u8b s = true <-> bytes_ok s.
Proof.
  unfold bytes_ok. rewrite forallb_forall, Forall_forall.
  split; intros H x Hx; specialize (H x Hx); unfold u8b, byte_ok in *.
  - b2p; lia.
  - p2b; lia.
Qed.

Lemma zlen_length {A} (l : list A) n : zlen l = Z.of_nat n -> length l = n.
Proof. unfold zlen. lia. Qed.

(* ---- big-endian reads --------------------------------------------------------------------------- *)
Lemma be16_put16 x r : 0 <= x < 65536 -> be16 (put16 x ++ r) = Ok x.
Proof. intros. pose proof (get16_put16 x H) as G. unfold get16, put16 in G. unfold be16, put16. simpl. f_equal. exact G. Qed.
Lemma be32_put32 x r : 0 <= x < 4294967296 -> be32 (put32 x ++ r) = Ok x.
Proof. intros. pose proof (get32_put32 x H) as G. unfold get32, put32 in G. unfold be32, put32. simpl. f_equal. exact G. Qed.
Lemma be64_put64 x r : 0 <= x < 18446744073709551616 -> be64 (put64 x ++ r) = Ok x.
Proof.
  intros. unfold put64.
  assert (H1 : 0 <= x / 4294967296 < 4294967296)
    by (split; [apply Z.div_pos; lia | apply Z.div_lt_upper_bound; lia]).
  pose proof (get32_put32 _ H1) as G1.
  assert (H2 : 0 <= x mod 4294967296 < 4294967296) by (apply Z.mod_pos_bound; lia).
  pose proof (get32_put32 _ H2) as G2.
  unfold get32, put32 in G1, G2. unfold be64, put32. cbn [app].
  rewrite G1, G2. f_equal. pose proof (Z.div_mod x 4294967296). lia.
Qed.

(* reads of well-formed bytes stay in range *)
Lemma be16_total d : bytes_ok d -> 2 <= zlen d -> exists v, be16 d = Ok v /\ 0 <= v < 65536.
Proof.
  intros B L. destruct d as [|a [|b r]]; try (cbn in L; unfold zlen in L; simpl in L; lia).
  inversion B as [|? ? Ha T1]; inversion T1 as [|? ? Hb _]. unfold byte_ok in *.
  eexists; split; [reflexivity|lia].
Qed.
Lemma be32_total d : bytes_ok d -> 4 <= zlen d -> exists v, be32 d = Ok v /\ 0 <= v < 4294967296.
Proof.
  intros B L. destruct d as [|a [|b [|c [|e r]]]]; try (unfold zlen in L; simpl in L; lia).
  inversion B as [|? ? Ha T1]; inversion T1 as [|? ? Hb T2]; inversion T2 as [|? ? Hc T3]; inversion T3 as [|? ? He _].
  unfold byte_ok in *. eexists; split; [reflexivity|lia].
Qed.
Lemma be64_total d : bytes_ok d -> 8 <= zlen d -> exists v, be64 d = Ok v /\ 0 <= v < 18446744073709551616.
Proof.
  intros B L. destruct d as [|a [|b [|c [|e [|f [|g [|h [|i r]]]]]]]]; try (unfold zlen in L; simpl in L; lia).
  inversion B as [|? ? Ha T1]; inversion T1 as [|? ? Hb T2]; inversion T2 as [|? ? Hc T3]; inversion T3 as [|? ? He T4].
  inversion T4 as [|? ? Hf T5]; inversion T5 as [|? ? Hg T6]; inversion T6 as [|? ? Hh T7]; inversion T7 as [|? ? Hi _].
  unfold byte_ok in *. eexists; split; [reflexivity|lia].
Qed.
Lemma zlen_put64 x : zlen (put64 x) = 8. Proof. reflexivity. Qed.

(* ---- slices and cursors ------------------------------------------------------------------------- *)
Lemma slice_from_ok d n : 0 <= n <= zlen d -> slice_from d n = Ok (zskipn n d).
Proof.
  intros. unfold slice_from.
  replace (0 <=? n) with true by (symmetry; apply Z.leb_le; lia).
  replace (n <=? zlen d) with true by (symmetry; apply Z.leb_le; lia). reflexivity.
Qed.
Lemma slice_from_total d n : match slice_from d n with Ok s => 0 <= n <= zlen d /\ s = zskipn n d | Panic _ => ~ (0 <= n <= zlen d) | _ => False end.
Proof.
  unfold slice_from. destruct (0 <=? n) eqn:E1; destruct (n <=? zlen d) eqn:E2; simpl; b2p; try lia. split; [lia|reflexivity].
Qed.

(* data = pre ++ post with |pre| = n *)
Definition at_cursor (data : list Z) (n : Z) (post : list Z) : Prop := exists pre, data = pre ++ post /\ zlen pre = n.
Lemma cursor_0 data : at_cursor data 0 data.
Proof. exists []. split; reflexivity. Qed.
Lemma cursor_adv data n a post : at_cursor data n (a ++ post) -> at_cursor data (n + zlen a) post.
Proof. intros (pre & E & L). exists (pre ++ a). split; [rewrite <- app_assoc; exact E | rewrite zlen_app; lia]. Qed.
Lemma cursor_adv' data n a post m : at_cursor data n (a ++ post) -> m = n + zlen a -> at_cursor data m post.
Proof. intros H ->. apply cursor_adv; exact H. Qed.
Lemma cursor_slice data n post : at_cursor data n post -> slice_from data n = Ok post.
Proof.
  intros (pre & E & L). subst. rewrite slice_from_ok.
  - rewrite zskipn_app_exact. reflexivity.
  - rewrite zlen_app. pose proof (zlen_nonneg pre). pose proof (zlen_nonneg post). lia.
Qed.
Lemma cursor_len data n post : at_cursor data n post -> zlen data = n + zlen post.
Proof. intros (pre & E & L). subst. apply zlen_app. Qed.
Lemma cursor_nonneg data n post : at_cursor data n post -> 0 <= n.
Proof. intros (pre & E & L). subst. apply zlen_nonneg. Qed.

Lemma zlen_zskipn' {A} n (l : list A) : 0 <= n <= zlen l -> zlen (zskipn n l) = zlen l - n.
Proof. apply zlen_zskipn. Qed.
Lemma zskipn_zskipn {A} a b (l : list A) : 0 <= a -> 0 <= b -> zskipn b (zskipn a l) = zskipn (a + b) l.
Proof.
  intros. unfold zskipn. replace (Z.to_nat (a + b)) with (Z.to_nat a + Z.to_nat b)%nat by lia.
  generalize (Z.to_nat a) as x. generalize (Z.to_nat b) as y. intros y x. revert l.
  induction x; intros l; simpl; [reflexivity|]. destruct l; [destruct y; reflexivity|]. apply IHx.
Qed.

Lemma slice_range_ok d a b : 0 <= a <= b -> b <= zlen d -> slice_range d a b = Ok (zfirstn (b - a) (zskipn a d)).
Proof.
  intros. unfold slice_range.
  replace (0 <=? a) with true by (symmetry; apply Z.leb_le; lia).
  replace (a <=? b) with true by (symmetry; apply Z.leb_le; lia).
  replace (b <=? zlen d) with true by (symmetry; apply Z.leb_le; lia). reflexivity.
Qed.

(* ---- strings ------------------------------------------------------------------------------------ *)
Lemma serialize_string_wf s : wf_string s = true -> serialize_string s = put16 (zlen s) ++ s.
Proof.
  unfold wf_string, serialize_string. intros H. b2p.
  replace (65535 <? zlen s) with false by (symmetry; apply Z.ltb_ge; lia).
  f_equal. unfold zfirstn, zlen. rewrite Nat2Z.id. apply firstn_all.
Qed.
Lemma zlen_serialize_string s : wf_string s = true -> zlen (serialize_string s) = 2 + zlen s.
Proof. intros H. rewrite serialize_string_wf by exact H. rewrite zlen_app. reflexivity. Qed.

Lemma string_rt s rest : wf_string s = true ->
  deserialize_string (serialize_string s ++ rest) = Ok (s, zlen (serialize_string s)).
Proof.
  intros H. rewrite zlen_serialize_string by exact H. rewrite serialize_string_wf by exact H.
  unfold wf_string in H. b2p. pose proof (zlen_nonneg s). pose proof (zlen_nonneg rest).
  unfold deserialize_string. rewrite <- app_assoc.
  rewrite !zlen_app, zlen_put16.
  replace (2 + (zlen s + zlen rest) <? 2) with false by (symmetry; apply Z.ltb_ge; lia).
  rewrite be16_put16 by lia. cbn [bind].
  replace (2 + (zlen s + zlen rest) <? 2 + zlen s) with false by (symmetry; apply Z.ltb_ge; lia).
  rewrite slice_range_ok by (rewrite ?zlen_app, ?zlen_put16; lia). cbn [bind].
  replace (2 + zlen s - 2) with (zlen s) by lia.
  change 2 with (zlen (put16 (zlen s))) at 1. rewrite zskipn_app_exact, zfirstn_app_exact. reflexivity.
Qed.

Lemma string_total d : bytes_ok d ->
  match deserialize_string d with
  | Ok (s, n) => wf_string s = true /\ zlen (serialize_string s) = n /\ 0 <= n <= zlen d
  | Err _ => True | _ => False end.
Proof.
  intros B. unfold deserialize_string. destruct (zlen d <? 2) eqn:E; [exact I|]. b2p.
  destruct (be16_total d B E) as (L & -> & HL). cbn [bind].
  destruct (zlen d <? 2 + L) eqn:E2; [exact I|]. b2p.
  rewrite slice_range_ok by lia. cbn [bind].
  replace (2 + L - 2) with L by lia.
  assert (Hl : zlen (zfirstn L (zskipn 2 d)) = L).
  { apply zlen_zfirstn. rewrite zlen_zskipn by lia. lia. }
  assert (W : wf_string (zfirstn L (zskipn 2 d)) = true).
  { unfold wf_string. p2b; [|lia]. apply forallb_u8b_bytes_ok. apply bytes_ok_firstn, bytes_ok_skipn, B. }
  split; [exact W|]. split; [|lia]. rewrite zlen_serialize_string by exact W. lia.
Qed.

(* ---- fixed-size arrays of words ------------------------------------------------------------------- *)
Lemma zlen_concat_put32 ws : zlen (concat (map put32 ws)) = 4 * zlen ws.
Proof. induction ws; [reflexivity|]. cbn [map concat]. rewrite zlen_app, zlen_cons, IHws, zlen_put32. lia. Qed.
Lemma zlen_concat_put64 ws : zlen (concat (map put64 ws)) = 8 * zlen ws.
Proof. induction ws; [reflexivity|]. cbn [map concat]. rewrite zlen_app, zlen_cons, IHws, zlen_put64. lia. Qed.

Lemma read_words_rt ws : forall sl j r, at_cursor sl (4 * j) (concat (map put32 ws) ++ r) -> forallb u32b ws = true ->
  read_words (length ws) sl j = Ok ws.
Proof.
  induction ws as [|w ws IH]; intros sl j r C W; [reflexivity|].
  cbn [map concat] in C. rewrite <- app_assoc in C. cbn [forallb] in W. unfold u32b in W at 1. b2p.
  cbn [length read_words]. rewrite (cursor_slice _ _ _ C). cbn [bind].
  rewrite be32_put32 by lia. cbn [bind].
  rewrite (IH sl (j + 1) r); [reflexivity| |assumption].
  eapply cursor_adv'; [exact C|rewrite zlen_put32; lia].
Qed.
Lemma read_words_total n : forall sl j, bytes_ok sl -> 0 <= j -> 4 * (j + Z.of_nat n) <= zlen sl ->
  exists ws, read_words n sl j = Ok ws /\ length ws = n /\ forallb u32b ws = true.
Proof.
  induction n as [|n IH]; intros sl j B J L; [exists []; repeat split|].
  cbn [read_words]. rewrite slice_from_ok by lia. cbn [bind].
  destruct (be32_total (zskipn (4 * j) sl)) as (w & -> & Hw); [apply bytes_ok_skipn, B|rewrite zlen_zskipn; lia|].
  cbn [bind]. destruct (IH sl (j + 1) B) as (ws & -> & Hl & Hu); [lia|lia|].
  cbn [bind]. exists (w :: ws). split; [reflexivity|]. split; [simpl; lia|].
  cbn [forallb]. rewrite Hu. unfold u32b. p2b; try lia; try reflexivity.
Qed.

Lemma read_scripts_rt ws : forall sl j r, at_cursor sl (1 + script_size * j) (concat (map put32 ws) ++ r) -> forallb u32b ws = true ->
  read_scripts (length ws) sl j = Ok ws.
Proof.
  unfold script_size.
  induction ws as [|w ws IH]; intros sl j r C W; [reflexivity|].
  cbn [map concat] in C. rewrite <- app_assoc in C. cbn [forallb] in W. unfold u32b in W at 1. b2p.
  cbn [length read_scripts]. unfold script_size. rewrite (cursor_slice _ _ _ C). cbn [bind].
  rewrite be32_put32 by lia. cbn [bind].
  rewrite (IH sl (j + 1) r); [reflexivity| |assumption].
  eapply cursor_adv'; [exact C|rewrite zlen_put32; lia].
Qed.
Lemma read_scripts_total n : forall sl j, bytes_ok sl -> 0 <= j -> 1 + 4 * (j + Z.of_nat n) <= zlen sl ->
  exists ws, read_scripts n sl j = Ok ws /\ length ws = n /\ forallb u32b ws = true.
Proof.
  induction n as [|n IH]; intros sl j B J L; [exists []; repeat split|].
  cbn [read_scripts]. unfold script_size. rewrite slice_from_ok by lia. cbn [bind].
  destruct (be32_total (zskipn (1 + 4 * j) sl)) as (w & -> & Hw); [apply bytes_ok_skipn, B|rewrite zlen_zskipn; lia|].
  cbn [bind]. destruct (IH sl (j + 1) B) as (ws & -> & Hl & Hu); [lia|lia|].
  cbn [bind]. exists (w :: ws). split; [reflexivity|]. split; [simpl; lia|].
  cbn [forallb]. rewrite Hu. unfold u32b. p2b; try lia; try reflexivity.
Qed.

Lemma read_langs_rt ws : forall sl j r, at_cursor sl (j * 8) (concat (map put64 ws) ++ r) -> forallb u64b ws = true ->
  read_langs (length ws) sl j = Ok ws.
Proof.
  induction ws as [|w ws IH]; intros sl j r C W; [reflexivity|].
  cbn [map concat] in C. rewrite <- app_assoc in C. cbn [forallb] in W. unfold u64b in W at 1. b2p.
  cbn [length read_langs]. rewrite (cursor_slice _ _ _ C). cbn [bind].
  rewrite be64_put64 by lia. cbn [bind].
  rewrite (IH sl (j + 1) r); [reflexivity| |assumption].
  eapply cursor_adv'; [exact C|rewrite zlen_put64; lia].
Qed.
Lemma read_langs_total n : forall sl j, bytes_ok sl -> 0 <= j -> 8 * (j + Z.of_nat n) <= zlen sl ->
  exists ws, read_langs n sl j = Ok ws /\ length ws = n /\ forallb u64b ws = true.
Proof.
  induction n as [|n IH]; intros sl j B J L; [exists []; repeat split|].
  cbn [read_langs]. rewrite slice_from_ok by lia. cbn [bind].
  destruct (be64_total (zskipn (j * 8) sl)) as (w & -> & Hw); [apply bytes_ok_skipn, B|rewrite zlen_zskipn; lia|].
  cbn [bind]. destruct (IH sl (j + 1) B) as (ws & -> & Hl & Hu); [lia|lia|].
  cbn [bind]. exists (w :: ws). split; [reflexivity|]. split; [simpl; lia|].
  cbn [forallb]. rewrite Hu. unfold u64b. p2b; try lia; try reflexivity.
Qed.

(* ---- LangSet ---------------------------------------------------------------------------------------- *)
Lemma langs_rt ls rest : zlen ls = 8 -> forallb u64b ls = true ->
  deserialize_langs (serialize_langs ls ++ rest) = Ok (ls, zlen (serialize_langs ls)).
Proof.
  intros L W. unfold deserialize_langs, serialize_langs, lang_set_size.
  rewrite zlen_app, !zlen_concat_put64, L. pose proof (zlen_nonneg rest).
  replace (8 * 8 + zlen rest <? 64) with false by (symmetry; apply Z.ltb_ge; lia).
  replace 8%nat with (length ls) by (apply zlen_length; exact L).
  rewrite (read_langs_rt ls _ 0 rest); [reflexivity| |exact W]. apply cursor_0.
Qed.
Lemma langs_total d : bytes_ok d ->
  match deserialize_langs d with
  | Ok (ls, n) => zlen ls = 8 /\ forallb u64b ls = true /\ n = 64 /\ 64 <= zlen d
  | Err _ => True | _ => False end.
Proof.
  intros B. unfold deserialize_langs, lang_set_size. destruct (zlen d <? 64) eqn:E; [exact I|]. b2p.
  destruct (read_langs_total 8 d 0 B) as (ls & -> & Hl & Hu); [lia|simpl; lia|].
  cbn [bind]. unfold zlen in *. rewrite Hl. repeat split; try assumption; try lia.
Qed.

(* ---- ScriptSet -------------------------------------------------------------------------------------- *)
Lemma index_at_cons a r : index_at (a :: r) 0 = Ok a.
Proof. unfold index_at. rewrite zlen_cons. pose proof (zlen_nonneg r). replace (0 <? 1 + zlen r) with true by (symmetry; apply Z.ltb_lt; lia). reflexivity. Qed.
Lemma index_at_total d : bytes_ok d -> 1 <= zlen d -> exists v, index_at d 0 = Ok v /\ 0 <= v < 256.
Proof.
  intros B L. destruct d as [|a r]; [unfold zlen in L; simpl in L; lia|].
  rewrite index_at_cons. inversion B as [|? ? Ha _]. exists a. split; [reflexivity|exact Ha].
Qed.

Lemma scripts_rt ss rest : zlen ss <= 255 -> forallb u32b ss = true ->
  deserialize_scripts (serialize_scripts ss ++ rest) = Ok (ss, zlen (serialize_scripts ss)).
Proof.
  intros L W. unfold deserialize_scripts, serialize_scripts, script_size. pose proof (zlen_nonneg ss). pose proof (zlen_nonneg rest).
  unfold wrap8. rewrite Z.mod_small by lia.
  rewrite !zlen_app, zlen_concat_put32. cbn [app]. rewrite !zlen_cons, zlen_nil, index_at_cons.
  replace (1 + 0 + 4 * zlen ss + zlen rest <? 1) with false by (symmetry; apply Z.ltb_ge; lia).
  cbn [bind].
  replace (1 + 0 + 4 * zlen ss + zlen rest <? 1 + 4 * zlen ss) with false by (symmetry; apply Z.ltb_ge; lia).
  unfold zlen at 1. rewrite Nat2Z.id.
  rewrite (read_scripts_rt ss _ 0 rest); [cbn [bind]; repeat f_equal; lia| |exact W].
  exists [zlen ss]. split; [reflexivity|reflexivity].
Qed.
Lemma scripts_total d : bytes_ok d ->
  match deserialize_scripts d with
  | Ok (ss, n) => zlen ss <= 255 /\ forallb u32b ss = true /\ n = zlen (serialize_scripts ss) /\ 0 <= n <= zlen d
  | Err _ => True | _ => False end.
Proof.
  intros B. unfold deserialize_scripts, script_size. destruct (zlen d <? 1) eqn:E; [exact I|]. b2p.
  destruct (index_at_total d B) as (L & -> & HL); [lia|]. cbn [bind].
  destruct (zlen d <? 1 + 4 * L) eqn:E2; [exact I|]. b2p.
  destruct (read_scripts_total (Z.to_nat L) d 0 B) as (ss & -> & Hl & Hu); [lia|lia|].
  cbn [bind]. assert (zlen ss = L) by (unfold zlen; lia).
  split; [lia|]. split; [exact Hu|]. unfold serialize_scripts. rewrite zlen_app, zlen_concat_put32, zlen_cons, zlen_nil. split; lia.
Qed.

(* ---- RuneSet ---------------------------------------------------------------------------------------- *)
Lemma zlen_serialize_page p : wf_page p = true -> zlen (serialize_page p) = 34.
Proof. unfold wf_page, serialize_page. intros H. b2p. rewrite zlen_app, zlen_concat_put32, zlen_put16. lia. Qed.
Lemma zlen_serialize_pages ps : forallb wf_page ps = true -> zlen (concat (map serialize_page ps)) = 34 * zlen ps.
Proof.
  induction ps; intros H; [reflexivity|]. cbn [forallb] in H. apply andb_true_iff in H as [H1 H2].
  cbn [map concat]. rewrite zlen_app, zlen_cons, IHps, zlen_serialize_page by assumption. lia.
Qed.

Lemma read_pages_rt ps : forall data i r, at_cursor data (2 + rune_page_size * i) (concat (map serialize_page ps) ++ r) ->
  forallb wf_page ps = true -> read_pages (length ps) data i = Ok ps.
Proof.
  unfold rune_page_size.
  induction ps as [|p ps IH]; intros data i r C W; [reflexivity|].
  cbn [forallb] in W. apply andb_true_iff in W as [Wp W]. pose proof Wp as Wp'. unfold wf_page in Wp. unfold u16b in Wp. b2p.
  destruct p as [ref set]. cbn [pg_ref pg_set] in *.
  cbn [map concat] in C. unfold serialize_page in C at 1. cbn [pg_ref pg_set] in C. rewrite <- !app_assoc in C.
  cbn [length read_pages]. unfold rune_page_size. rewrite (cursor_slice _ _ _ C). cbn [bind].
  rewrite be16_put16 by lia. cbn [bind].
  assert (C2 : at_cursor data (2 + 34 * i + 2) (concat (map put32 set) ++ concat (map serialize_page ps) ++ r)).
  { eapply cursor_adv'; [exact C|rewrite zlen_put16; lia]. }
  rewrite (cursor_slice _ _ _ C2). cbn [bind].
  replace 8%nat with (length set) by (apply zlen_length; assumption).
  rewrite (read_words_rt set _ 0 (concat (map serialize_page ps) ++ r)); [|apply cursor_0|assumption].
  cbn [bind]. rewrite (IH data (i + 1) r); [reflexivity| |assumption].
  eapply cursor_adv'; [exact C2|rewrite zlen_concat_put32; lia].
Qed.
Lemma read_pages_total n : forall data i, bytes_ok data -> 0 <= i -> 2 + 34 * (i + Z.of_nat n) <= zlen data ->
  exists ps, read_pages n data i = Ok ps /\ length ps = n /\ forallb wf_page ps = true.
Proof.
  induction n as [|n IH]; intros data i B J L; [exists []; repeat split|].
  cbn [read_pages]. unfold rune_page_size. rewrite slice_from_ok by lia. cbn [bind].
  destruct (be16_total (zskipn (2 + 34 * i) data)) as (ref & -> & Hr); [apply bytes_ok_skipn, B|rewrite zlen_zskipn; lia|].
  cbn [bind]. rewrite slice_from_ok by lia. cbn [bind].
  destruct (read_words_total 8 (zskipn (2 + 34 * i + 2) data) 0) as (ws & -> & Hl & Hu);
    [apply bytes_ok_skipn, B|lia|rewrite zlen_zskipn by lia; change (Z.of_nat 8) with 8; lia|].
  cbn [bind]. destruct (IH data (i + 1) B) as (ps & -> & Hpl & Hpu); [lia|lia|].
  cbn [bind]. exists (mkPage ref ws :: ps). split; [reflexivity|]. split; [simpl; lia|].
  cbn [forallb]. rewrite Hpu. unfold wf_page, u16b. cbn [pg_ref pg_set]. rewrite Hu. unfold zlen. rewrite Hl.
  p2b; try lia; try reflexivity.
Qed.

Lemma runes_rt rs rest : zlen rs <= 65535 -> forallb wf_page rs = true ->
  deserialize_runes (serialize_runes rs ++ rest) = Ok (rs, zlen (serialize_runes rs)).
Proof.
  intros L W. unfold deserialize_runes, serialize_runes, rune_page_size. pose proof (zlen_nonneg rs). pose proof (zlen_nonneg rest).
  rewrite wrap16_small by lia. rewrite <- app_assoc.
  rewrite !zlen_app, zlen_serialize_pages, zlen_put16 by assumption.
  replace (2 + (34 * zlen rs + zlen rest) <? 2) with false by (symmetry; apply Z.ltb_ge; lia).
  rewrite be16_put16 by lia. cbn [bind].
  replace (2 + (34 * zlen rs + zlen rest) <? 2 + 34 * zlen rs) with false by (symmetry; apply Z.ltb_ge; lia).
  unfold zlen at 1. rewrite Nat2Z.id.
  rewrite (read_pages_rt rs _ 0 rest); [cbn [bind]; reflexivity| |exact W].
  exists (put16 (zlen rs)). split; [reflexivity|reflexivity].
Qed.
Lemma runes_total d : bytes_ok d ->
  match deserialize_runes d with
  | Ok (rs, n) => zlen rs <= 65535 /\ forallb wf_page rs = true /\ n = zlen (serialize_runes rs) /\ 0 <= n <= zlen d
  | Err _ => True | _ => False end.
Proof.
  intros B. unfold deserialize_runes, rune_page_size. destruct (zlen d <? 2) eqn:E; [exact I|]. b2p.
  destruct (be16_total d B) as (L & -> & HL); [lia|]. cbn [bind].
  destruct (zlen d <? 2 + 34 * L) eqn:E2; [exact I|]. b2p.
  destruct (read_pages_total (Z.to_nat L) d 0 B) as (rs & -> & Hl & Hu); [lia|lia|].
  cbn [bind]. assert (zlen rs = L) by (unfold zlen; lia).
  split; [lia|]. split; [exact Hu|]. unfold serialize_runes. rewrite zlen_app, zlen_serialize_pages, zlen_put16 by assumption. split; lia.
Qed.

(* ---- Aspect ------------------------------------------------------------------------------------------ *)
Definition aspect_raw (a : aspect) : bool := u8b (as_style a) && u32b (as_weight a) && u32b (as_stretch a).
Lemma wf_aspect_raw a : wf_aspect a = true -> aspect_raw a = true.
Proof.
  unfold wf_aspect, aspect_raw, aspect_valid, u8b, u32b, style_normal, style_italic. intros H. b2p.
  assert (0 <= as_style a < 256).
  { match goal with H : _ || _ = true |- _ => apply orb_true_iff in H as [H|H]; b2p; lia end. }
  p2b; lia.
Qed.
Lemma aspect_rt a rest : aspect_raw a = true ->
  deserialize_aspect (serialize_aspect a ++ rest) = Ok (a, zlen (serialize_aspect a)).
Proof.
  unfold aspect_raw, u8b, u32b. intros H. b2p. destruct a as [st w s]. cbn [as_style as_weight as_stretch] in *.
  unfold deserialize_aspect, serialize_aspect, aspect_size. cbn [as_style as_weight as_stretch].
  unfold wrap8. rewrite Z.mod_small by lia. pose proof (zlen_nonneg rest).
  rewrite <- !app_assoc. cbn [app]. rewrite ?zlen_cons, ?zlen_app, ?zlen_put32, ?zlen_nil.
  match goal with |- context [?x <? 9] => replace (x <? 9) with false by (symmetry; apply Z.ltb_ge; lia) end.
  rewrite index_at_cons. cbn [bind].
  assert (C1 : at_cursor (st :: put32 w ++ put32 s ++ rest) 1 (put32 w ++ put32 s ++ rest)) by (exists [st]; split; reflexivity).
  rewrite (cursor_slice _ _ _ C1). cbn [bind]. rewrite be32_put32 by lia. cbn [bind].
  assert (C5 : at_cursor (st :: put32 w ++ put32 s ++ rest) 5 (put32 s ++ rest)) by (eapply cursor_adv'; [exact C1|reflexivity]).
  rewrite (cursor_slice _ _ _ C5). cbn [bind]. rewrite be32_put32 by lia. cbn [bind]. reflexivity.
Qed.
Lemma aspect_total d : bytes_ok d ->
  match deserialize_aspect d with
  | Ok (a, n) => aspect_raw a = true /\ n = 9 /\ zlen (serialize_aspect a) = 9 /\ 9 <= zlen d
  | Err _ => True | _ => False end.
Proof.
  intros B. unfold deserialize_aspect, aspect_size. destruct (zlen d <? 9) eqn:E; [exact I|]. b2p.
  destruct (index_at_total d B) as (st & -> & Hs); [lia|]. cbn [bind].
  rewrite slice_from_ok by lia. cbn [bind].
  destruct (be32_total (zskipn 1 d)) as (w & -> & Hw); [apply bytes_ok_skipn, B|rewrite zlen_zskipn; lia|]. cbn [bind].
  rewrite slice_from_ok by lia. cbn [bind].
  destruct (be32_total (zskipn 5 d)) as (s & -> & Hs'); [apply bytes_ok_skipn, B|rewrite zlen_zskipn; lia|]. cbn [bind].
  unfold aspect_raw, u8b, u32b. cbn [as_style as_weight as_stretch]. repeat split; try lia; p2b; lia.
Qed.

(* ---- Footprint ---------------------------------------------------------------------------------------- *)
Definition fp_raw (fp : footprint) : bool :=
  wf_string (fp_file fp) && u16b (fp_index fp) && u16b (fp_instance fp) && wf_string (fp_family fp)
  && forallb wf_page (fp_runes fp) && (zlen (fp_runes fp) <=? 65535)
  && forallb u32b (fp_scripts fp) && (zlen (fp_scripts fp) <=? 255)
  && (zlen (fp_langs fp) =? 8) && forallb u64b (fp_langs fp)
  && aspect_raw (fp_aspect fp).
Lemma wf_aspect_iff a : wf_aspect a = true <-> aspect_raw a = true /\ aspect_valid a = true.
Proof.
  split.
  - intros H. split; [apply wf_aspect_raw; exact H|]. unfold wf_aspect in H. rewrite !andb_true_iff in H. tauto.
  - intros [R V]. unfold wf_aspect, aspect_raw in *. rewrite !andb_true_iff in *. tauto.
Qed.
Lemma wf_footprint_raw fp : wf_footprint fp = true <-> fp_raw fp = true /\ aspect_valid (fp_aspect fp) = true.
Proof. unfold wf_footprint, fp_raw. rewrite !andb_true_iff. rewrite wf_aspect_iff. tauto. Qed.

Ltac step := cbn [bind]; cbv zeta.

Lemma footprint_rt fp rest : fp_raw fp = true ->
  deserialize_footprint (serialize_footprint fp ++ rest) = Ok (fp, zlen (serialize_footprint fp)).
Proof.
  intros H. unfold fp_raw in H. rewrite !andb_true_iff in H.
  destruct H as ((((((((((H1 & H2) & H3) & H4) & H5) & H6) & H7) & H8) & H9) & H10) & H11).
  destruct fp as [file idx inst family runes scripts langs asp].
  cbn [fp_file fp_index fp_instance fp_family fp_runes fp_scripts fp_langs fp_aspect] in *.
  unfold u16b in *. b2p.
  unfold serialize_footprint. cbn [fp_file fp_index fp_instance fp_family fp_runes fp_scripts fp_langs fp_aspect].
  set (S1 := serialize_string file). set (S2 := serialize_string family). set (R := serialize_runes runes).
  set (SC := serialize_scripts scripts). set (L := serialize_langs langs). set (A := serialize_aspect asp).
  assert (Elen : zlen (S1 ++ (put16 idx ++ put16 inst) ++ S2 ++ R ++ SC ++ L ++ A)
                 = zlen S1 + 4 + zlen S2 + zlen R + zlen SC + zlen L + zlen A)
    by (rewrite !zlen_app, !zlen_put16; lia).
  rewrite Elen. rewrite <- !app_assoc.
  remember (S1 ++ put16 idx ++ put16 inst ++ S2 ++ R ++ SC ++ L ++ A ++ rest) as data eqn:Ed.
  assert (C0 : at_cursor data 0 (S1 ++ put16 idx ++ put16 inst ++ S2 ++ R ++ SC ++ L ++ A ++ rest)) by (rewrite Ed; apply cursor_0).
  assert (C1 : at_cursor data (zlen S1) (put16 idx ++ put16 inst ++ S2 ++ R ++ SC ++ L ++ A ++ rest))
    by (eapply cursor_adv'; [exact C0|lia]).
  assert (C2 : at_cursor data (zlen S1 + 2) (put16 inst ++ S2 ++ R ++ SC ++ L ++ A ++ rest))
    by (eapply cursor_adv'; [exact C1|rewrite zlen_put16; lia]).
  assert (C3 : at_cursor data (zlen S1 + 4) (S2 ++ R ++ SC ++ L ++ A ++ rest))
    by (eapply cursor_adv'; [exact C2|rewrite zlen_put16; lia]).
  assert (C4 : at_cursor data (zlen S1 + 4 + zlen S2) (R ++ SC ++ L ++ A ++ rest))
    by (eapply cursor_adv'; [exact C3|lia]).
  assert (C5 : at_cursor data (zlen S1 + 4 + zlen S2 + zlen R) (SC ++ L ++ A ++ rest))
    by (eapply cursor_adv'; [exact C4|lia]).
  assert (C6 : at_cursor data (zlen S1 + 4 + zlen S2 + zlen R + zlen SC) (L ++ A ++ rest))
    by (eapply cursor_adv'; [exact C5|lia]).
  assert (C7 : at_cursor data (zlen S1 + 4 + zlen S2 + zlen R + zlen SC + zlen L) (A ++ rest))
    by (eapply cursor_adv'; [exact C6|lia]).
  pose proof (cursor_len _ _ _ C3) as L3. pose proof (zlen_nonneg (S2 ++ R ++ SC ++ L ++ A ++ rest)).
  unfold deserialize_footprint. rewrite Ed at 1. unfold S1 at 1. rewrite string_rt by assumption. step. fold S1.
  replace (zlen data <? zlen S1 + 4) with false by (symmetry; apply Z.ltb_ge; lia).
  rewrite (cursor_slice _ _ _ C1). step. rewrite be16_put16 by lia. step.
  rewrite (cursor_slice _ _ _ C2). step. rewrite be16_put16 by lia. step.
  rewrite (cursor_slice _ _ _ C3). step. unfold S2 at 1. rewrite string_rt by assumption. step. fold S2.
  rewrite (cursor_slice _ _ _ C4). step. unfold R at 1. rewrite runes_rt by assumption. step. fold R.
  rewrite (cursor_slice _ _ _ C5). step. unfold SC at 1. rewrite scripts_rt by assumption. step. fold SC.
  rewrite (cursor_slice _ _ _ C6). step. unfold L at 1. rewrite langs_rt by assumption. step. fold L.
  rewrite (cursor_slice _ _ _ C7). step. unfold A at 1. rewrite aspect_rt by assumption. step. fold A.
  reflexivity.
Qed.

Lemma zlen_serialize_aspect a : zlen (serialize_aspect a) = 9.
Proof. reflexivity. Qed.
Lemma zlen_serialize_langs ls : zlen ls = 8 -> zlen (serialize_langs ls) = 64.
Proof. intros H. unfold serialize_langs. rewrite zlen_concat_put64. lia. Qed.

Lemma footprint_total d : bytes_ok d ->
  match deserialize_footprint d with
  | Ok (fp, n) => fp_raw fp = true /\ n = zlen (serialize_footprint fp) /\ 1 <= n <= zlen d
  | Err _ => True | _ => False end.
Proof.
  intros B. unfold deserialize_footprint.
  pose proof (string_total d B) as T. destruct (deserialize_string d) as [[file n]|e|p|]; try exact I; try contradiction.
  destruct T as (Wf & Lf & Bf). step.
  destruct (zlen d <? n + 4) eqn:E; [exact I|]. b2p.
  rewrite slice_from_ok by lia. step.
  destruct (be16_total (zskipn n d)) as (idx & -> & Hidx); [apply bytes_ok_skipn, B|rewrite zlen_zskipn; lia|]. step.
  rewrite slice_from_ok by lia. step.
  destruct (be16_total (zskipn (n + 2) d)) as (inst & -> & Hinst); [apply bytes_ok_skipn, B|rewrite zlen_zskipn; lia|]. step.
  rewrite slice_from_ok by lia. step.
  pose proof (string_total (zskipn (n + 4) d) (bytes_ok_skipn _ _ B)) as T.
  destruct (deserialize_string (zskipn (n + 4) d)) as [[family r1]|e|p|]; try exact I; try contradiction.
  destruct T as (Wfa & Lfa & Bfa). rewrite zlen_zskipn in Bfa by lia. step.
  rewrite slice_from_ok by lia. step.
  pose proof (runes_total (zskipn (n + 4 + r1) d) (bytes_ok_skipn _ _ B)) as T.
  destruct (deserialize_runes (zskipn (n + 4 + r1) d)) as [[runes r2]|e|p|]; try exact I; try contradiction.
  destruct T as (Lr & Wr & Er & Br). rewrite zlen_zskipn in Br by lia. step.
  rewrite slice_from_ok by lia. step.
  pose proof (scripts_total (zskipn (n + 4 + r1 + r2) d) (bytes_ok_skipn _ _ B)) as T.
  destruct (deserialize_scripts (zskipn (n + 4 + r1 + r2) d)) as [[scripts r3]|e|p|]; try exact I; try contradiction.
  destruct T as (Ls & Ws & Es & Bs). rewrite zlen_zskipn in Bs by lia. step.
  rewrite slice_from_ok by lia. step.
  pose proof (langs_total (zskipn (n + 4 + r1 + r2 + r3) d) (bytes_ok_skipn _ _ B)) as T.
  destruct (deserialize_langs (zskipn (n + 4 + r1 + r2 + r3) d)) as [[langs r4]|e|p|]; try exact I; try contradiction.
  destruct T as (Ll & Wl & El & Bl). rewrite zlen_zskipn in Bl by lia. step.
  rewrite slice_from_ok by lia. step.
  pose proof (aspect_total (zskipn (n + 4 + r1 + r2 + r3 + r4) d) (bytes_ok_skipn _ _ B)) as T.
  destruct (deserialize_aspect (zskipn (n + 4 + r1 + r2 + r3 + r4) d)) as [[asp r5]|e|p|]; try exact I; try contradiction.
  destruct T as (Wa & Ea & Eal & Ba). rewrite zlen_zskipn in Ba by lia. step.
  split; [|split].
  - unfold fp_raw. cbn [fp_file fp_index fp_instance fp_family fp_runes fp_scripts fp_langs fp_aspect].
    rewrite Wf, Wfa, Wr, Ws, Wl, Wa. unfold u16b. rewrite !andb_true_r, !andb_true_l. p2b; lia.
  - unfold serialize_footprint. cbn [fp_file fp_index fp_instance fp_family fp_runes fp_scripts fp_langs fp_aspect].
    rewrite !zlen_app, !zlen_put16, zlen_serialize_aspect, zlen_serialize_langs by assumption. lia.
  - lia.
Qed.

(* ---- footprint lists ----------------------------------------------------------------------------------- *)
Lemma serialize_footprints_snoc acc fp : serialize_footprints (acc ++ [fp]) = serialize_footprints acc ++ serialize_footprint fp.
Proof. unfold serialize_footprints. rewrite map_app, concat_app. cbn [map concat]. rewrite app_nil_r. reflexivity. Qed.
Lemma zlen_serialize_footprint_pos fp : 9 <= zlen (serialize_footprint fp).
Proof.
  unfold serialize_footprint. rewrite !zlen_app, zlen_serialize_aspect.
  pose proof (zlen_nonneg (serialize_string (fp_file fp))). pose proof (zlen_nonneg (serialize_string (fp_family fp))).
  pose proof (zlen_nonneg (serialize_runes (fp_runes fp))). pose proof (zlen_nonneg (serialize_scripts (fp_scripts fp))).
  pose proof (zlen_nonneg (serialize_langs (fp_langs fp))). rewrite !zlen_put16. lia.
Qed.

Lemma fps_loop_rt fps : forall fuel src total acc, at_cursor src total (serialize_footprints fps) ->
  forallb fp_raw fps = true -> zlen src - total <= Z.of_nat fuel ->
  deserialize_footprints_loop fuel src total acc = Ok (acc ++ fps).
Proof.
  induction fps as [|fp fps IH]; intros fuel src total acc C W F.
  - pose proof (cursor_len _ _ _ C) as L. change (zlen (serialize_footprints [])) with 0 in L.
    destruct fuel; cbn [deserialize_footprints_loop];
      (replace (total <? zlen src) with false by (symmetry; apply Z.ltb_ge; lia)); rewrite app_nil_r; reflexivity.
  - cbn [forallb] in W. apply andb_true_iff in W as [Wf W].
    unfold serialize_footprints in C. cbn [map concat] in C. fold (serialize_footprints fps) in C.
    pose proof (cursor_len _ _ _ C) as L. rewrite zlen_app in L.
    pose proof (zlen_serialize_footprint_pos fp). pose proof (zlen_nonneg (serialize_footprints fps)).
    destruct fuel as [|f]; [lia|]. cbn [deserialize_footprints_loop].
    replace (total <? zlen src) with true by (symmetry; apply Z.ltb_lt; lia).
    rewrite (cursor_slice _ _ _ C). step. rewrite footprint_rt by assumption. step.
    rewrite (IH f src (total + zlen (serialize_footprint fp)) (acc ++ [fp])); [rewrite <- app_assoc; reflexivity| |assumption|lia].
    apply cursor_adv. exact C.
Qed.

Lemma fps_loop_total fuel : forall src total acc, bytes_ok src -> 0 <= total <= zlen src -> zlen src - total <= Z.of_nat fuel ->
  forallb fp_raw acc = true -> zlen (serialize_footprints acc) = total ->
  match deserialize_footprints_loop fuel src total acc with
  | Ok fps => forallb fp_raw fps = true /\ zlen (serialize_footprints fps) = zlen src
  | Err _ => True | _ => False end.
Proof.
  induction fuel as [|f IH]; intros src total acc B T F W L.
  - cbn [deserialize_footprints_loop]. replace (total <? zlen src) with false by (symmetry; apply Z.ltb_ge; lia).
    split; [assumption|lia].
  - cbn [deserialize_footprints_loop]. destruct (total <? zlen src) eqn:E; [|b2p; split; [assumption|lia]]. b2p.
    rewrite slice_from_ok by lia. step.
    pose proof (footprint_total (zskipn total src) (bytes_ok_skipn _ _ B)) as FT.
    destruct (deserialize_footprint (zskipn total src)) as [[fp n]|e|p|]; try exact I; try contradiction.
    destruct FT as (Wf & En & Bn). rewrite zlen_zskipn in Bn by lia. step.
    apply IH; try assumption; try lia.
    + rewrite forallb_app, W. cbn [forallb]. rewrite Wf. reflexivity.
    + rewrite serialize_footprints_snoc, zlen_app. lia.
Qed.

(* ---- fileFootprints ------------------------------------------------------------------------------------ *)
Lemma sint64_wrap64 t : -9223372036854775808 <= t < 9223372036854775808 -> sint64 (wrap64 t) = t.
Proof.
  intros H. unfold sint64, wrap64. rewrite Z.mod_mod by lia.
  destruct (t mod 18446744073709551616 <? 9223372036854775808) eqn:E; b2p; lia.
Qed.
Lemma sint64_range x : -9223372036854775808 <= sint64 x < 9223372036854775808.
Proof.
  unfold sint64, wrap64. pose proof (Z.mod_pos_bound x 18446744073709551616 ltac:(lia)).
  destruct (x mod 18446744073709551616 <? 9223372036854775808) eqn:E; b2p; lia.
Qed.
Lemma wrap64_sint64 x : 0 <= x < 18446744073709551616 -> wrap64 (sint64 x) = x.
Proof.
  intros H. unfold sint64, wrap64. rewrite (Z.mod_small x) by lia.
  destruct (x <? 9223372036854775808) eqn:E; b2p; lia.
Qed.
Lemma wrap64_range x : 0 <= wrap64 x < 18446744073709551616.
Proof. unfold wrap64. apply Z.mod_pos_bound. lia. Qed.

Lemma forallb_wf_footprint fps : forallb wf_footprint fps = true <->
  forallb fp_raw fps = true /\ forallb (fun fp => aspect_valid (fp_aspect fp)) fps = true.
Proof.
  induction fps as [|fp fps IH]; [simpl; tauto|]. cbn [forallb]. rewrite !andb_true_iff, IH, wf_footprint_raw. tauto.
Qed.

Lemma ff_rt ff : wf_ff ff = true -> deserialize_ff (serialize_ff ff) = Ok ff.
Proof.
  unfold wf_ff. rewrite !andb_true_iff. intros (((Wp & Wt) & Wf) & Ws).
  apply forallb_wf_footprint in Wf as [Wr Wv]. unfold i64b in Wt. b2p.
  destruct ff as [path mt fps]. cbn [ff_path ff_modtime ff_fps] in *.
  unfold serialize_ff. cbn [ff_path ff_modtime ff_fps].
  remember (serialize_string path ++ put64 (wrap64 mt) ++ serialize_footprints fps) as src eqn:Es.
  assert (C0 : at_cursor src 0 (serialize_string path ++ put64 (wrap64 mt) ++ serialize_footprints fps)) by (rewrite Es; apply cursor_0).
  assert (C1 : at_cursor src (zlen (serialize_string path)) (put64 (wrap64 mt) ++ serialize_footprints fps))
    by (eapply cursor_adv'; [exact C0|lia]).
  assert (C2 : at_cursor src (zlen (serialize_string path) + 8) (serialize_footprints fps))
    by (eapply cursor_adv'; [exact C1|rewrite zlen_put64; lia]).
  pose proof (cursor_len _ _ _ C2) as L2. pose proof (zlen_nonneg (serialize_footprints fps)).
  unfold deserialize_ff. rewrite Es at 1. rewrite string_rt by assumption. step.
  replace (zlen src <? zlen (serialize_string path) + 8) with false by (symmetry; apply Z.ltb_ge; lia).
  rewrite (cursor_slice _ _ _ C1). step. rewrite be64_put64 by apply wrap64_range. step.
  rewrite (cursor_slice _ _ _ C2). step.
  unfold deserialize_footprints. rewrite (fps_loop_rt fps); [|apply cursor_0|assumption|unfold zlen; lia].
  step. cbn [app]. rewrite Wv. rewrite sint64_wrap64 by lia. reflexivity.
Qed.

Lemma ff_total src : bytes_ok src ->
  match deserialize_ff src with
  | Ok ff => wf_string (ff_path ff) = true /\ i64b (ff_modtime ff) = true /\ forallb wf_footprint (ff_fps ff) = true
             /\ zlen (serialize_ff ff) = zlen src
  | Err _ => True | _ => False end.
Proof.
  intros B. unfold deserialize_ff.
  pose proof (string_total src B) as T. destruct (deserialize_string src) as [[path n]|e|p|]; try exact I; try contradiction.
  destruct T as (Wp & Lp & Bp). step.
  destruct (zlen src <? n + 8) eqn:E; [exact I|]. b2p.
  rewrite slice_from_ok by lia. step.
  destruct (be64_total (zskipn n src)) as (mt & -> & Hmt); [apply bytes_ok_skipn, B|rewrite zlen_zskipn; lia|]. step.
  rewrite slice_from_ok by lia. step.
  unfold deserialize_footprints.
  pose proof (fps_loop_total (length (zskipn (n + 8) src)) (zskipn (n + 8) src) 0 [] (bytes_ok_skipn _ _ B)) as FT.
  destruct (deserialize_footprints_loop (length (zskipn (n + 8) src)) (zskipn (n + 8) src) 0 []) as [fps|e|p|].
  - destruct FT as (Wr & Lr); [pose proof (zlen_nonneg (zskipn (n + 8) src)); lia|unfold zlen; lia|reflexivity|reflexivity|].
    step. destruct (forallb (fun fp => aspect_valid (fp_aspect fp)) fps) eqn:V; [|exact I].
    cbn [ff_path ff_modtime ff_fps]. split; [assumption|]. split.
    { pose proof (sint64_range mt). unfold i64b. p2b; lia. }
    split; [apply forallb_wf_footprint; split; assumption|].
    unfold serialize_ff. cbn [ff_path ff_modtime ff_fps]. rewrite !zlen_app, zlen_put64, Lr, zlen_zskipn by lia. lia.
  - exact I.
  - apply FT; [pose proof (zlen_nonneg (zskipn (n + 8) src)); lia|unfold zlen; lia|reflexivity|reflexivity].
  - apply FT; [pose proof (zlen_nonneg (zskipn (n + 8) src)); lia|unfold zlen; lia|reflexivity|reflexivity].
Qed.

(* ---- index --------------------------------------------------------------------------------------------- *)
Lemma zfirstn_app_ge {A} k (a b : list A) : zlen a <= k -> zfirstn k (a ++ b) = a ++ zfirstn (k - zlen a) b.
Proof.
  intros H. unfold zfirstn, zlen in *. rewrite firstn_app. rewrite firstn_all2 by lia. f_equal. f_equal. lia.
Qed.
Lemma zlen_zfirstn_le {A} k (l : list A) : 0 <= k <= zlen l -> zlen (zfirstn k l) = k.
Proof. apply zlen_zfirstn. Qed.

Lemma read_exact_app a b n e : zlen a = n -> read_exact (a ++ b) n e = Ok (a, b).
Proof.
  intros <-. unfold read_exact. rewrite zlen_app. pose proof (zlen_nonneg b).
  replace (zlen a + zlen b <? zlen a) with false by (symmetry; apply Z.ltb_ge; lia).
  rewrite zfirstn_app_exact, zskipn_app_exact. reflexivity.
Qed.
Lemma read_exact_short s n e : zlen s < n -> read_exact s n e = Err e.
Proof. intros. unfold read_exact. replace (zlen s <? n) with true by (symmetry; apply Z.ltb_lt; lia). reflexivity. Qed.

Lemma zlen_serialize_entry ff : zlen (serialize_entry ff) = 4 + zlen (serialize_ff ff).
Proof. unfold serialize_entry. rewrite zlen_app, zlen_put32. reflexivity. Qed.

Lemma wf_ff_size ff : wf_ff ff = true -> 0 <= zlen (serialize_ff ff) < 4294967296.
Proof. unfold wf_ff. rewrite !andb_true_iff. intros (_ & H). b2p. pose proof (zlen_nonneg (serialize_ff ff)). lia. Qed.

Lemma entries_rt ixs : forall fuel tail acc, forallb wf_ff ixs = true ->
  zlen (concat (map serialize_entry ixs) ++ tail) < Z.of_nat fuel ->
  deserialize_entries fuel (zlen ixs) (concat (map serialize_entry ixs) ++ tail) acc = Ok (acc ++ ixs).
Proof.
  induction ixs as [|ff ixs IH]; intros fuel tail acc W F.
  - destruct fuel; cbn [deserialize_entries]; change (zlen (@nil file_fps) <=? 0) with true; cbn; rewrite app_nil_r; reflexivity.
  - cbn [forallb] in W. apply andb_true_iff in W as [Wf W]. pose proof (wf_ff_size _ Wf) as Sz.
    cbn [map concat] in *. unfold serialize_entry in F at 1. unfold serialize_entry at 1.
    rewrite <- !app_assoc in *. rewrite !zlen_app, zlen_put32 in F.
    pose proof (zlen_nonneg (concat (map serialize_entry ixs) ++ tail)).
    rewrite zlen_cons. pose proof (zlen_nonneg ixs).
    destruct fuel as [|f]; [rewrite zlen_app in *; lia|]. cbn [deserialize_entries].
    replace (1 + zlen ixs <=? 0) with false by (symmetry; apply Z.leb_gt; lia).
    rewrite read_exact_app by apply zlen_put32. step.
    rewrite <- (app_nil_r (put32 _)). rewrite be32_put32 by (rewrite wrap32_small; lia). step.
    rewrite wrap32_small by lia. rewrite read_exact_app by reflexivity. step.
    rewrite ff_rt by assumption. step.
    replace (1 + zlen ixs - 1) with (zlen ixs) by lia.
    rewrite IH; [rewrite <- app_assoc; reflexivity|assumption|rewrite zlen_app; lia].
Qed.

(* a strict prefix of the entries is rejected *)
Lemma entries_prefix ixs : forall fuel k acc, forallb wf_ff ixs = true ->
  0 <= k < zlen (concat (map serialize_entry ixs)) -> k < Z.of_nat fuel ->
  exists e, deserialize_entries fuel (zlen ixs) (zfirstn k (concat (map serialize_entry ixs))) acc = Err e.
Proof.
  induction ixs as [|ff ixs IH]; intros fuel k acc W K F.
  - cbn in K. lia.
  - cbn [forallb] in W. apply andb_true_iff in W as [Wf W]. pose proof (wf_ff_size _ Wf) as Sz.
    cbn [map concat] in *. unfold serialize_entry in K at 1. unfold serialize_entry at 1.
    rewrite <- !app_assoc in *. rewrite !zlen_app, zlen_put32 in K.
    rewrite zlen_cons. pose proof (zlen_nonneg ixs). pose proof (zlen_nonneg (concat (map serialize_entry ixs))).
    destruct fuel as [|f]; [lia|]. cbn [deserialize_entries].
    replace (1 + zlen ixs <=? 0) with false by (symmetry; apply Z.leb_gt; lia).
    set (sz := put32 (wrap32 (zlen (serialize_ff ff)))). set (b := serialize_ff ff). set (R := concat (map serialize_entry ixs)).
    assert (Sb : 0 <= zlen b < 4294967296) by exact Sz. fold b in K. fold R in K.
    destruct (Z_lt_ge_dec k 4) as [K4|K4].
    + rewrite read_exact_short; [step; eexists; reflexivity|].
      rewrite zlen_zfirstn; [lia|]. rewrite !zlen_app. unfold sz. rewrite zlen_put32. lia.
    + rewrite zfirstn_app_ge by (unfold sz; rewrite zlen_put32; lia).
      rewrite read_exact_app by reflexivity. step.
      unfold sz at 1. rewrite <- (app_nil_r (put32 _)). rewrite be32_put32 by (rewrite wrap32_small; lia). step.
      rewrite wrap32_small by lia. unfold sz. rewrite zlen_put32. fold b.
      destruct (Z_lt_ge_dec (k - 4) (zlen b)) as [Kb|Kb].
      * rewrite read_exact_short; [step; eexists; reflexivity|].
        rewrite zlen_zfirstn; [lia|]. rewrite zlen_app. lia.
      * rewrite zfirstn_app_ge by lia. rewrite read_exact_app by reflexivity. step.
        subst b. subst R. rewrite ff_rt by assumption. step.
        replace (1 + zlen ixs - 1) with (zlen ixs) by lia.
        apply IH; [assumption|lia|lia].
Qed.

Lemma entries_total fuel : forall remaining stream acc, bytes_ok stream -> zlen stream < Z.of_nat fuel ->
  forallb wf_ff acc = true -> 0 <= remaining ->
  match deserialize_entries fuel remaining stream acc with
  | Ok ix => forallb wf_ff ix = true /\ zlen ix = zlen acc + remaining
  | Err _ => True | _ => False end.
Proof.
  induction fuel as [|f IH]; intros remaining stream acc B F W R.
  - pose proof (zlen_nonneg stream). lia.
  - cbn [deserialize_entries]. destruct (remaining <=? 0) eqn:E; b2p; [split; [assumption|lia]|].
    unfold read_exact at 1. destruct (zlen stream <? 4) eqn:E4; [exact I|]. b2p. step.
    destruct (be32_total (zfirstn 4 stream)) as (size & -> & Hs); [apply bytes_ok_firstn, B|rewrite zlen_zfirstn; lia|]. step.
    unfold read_exact. destruct (zlen (zskipn 4 stream) <? size) eqn:E5; [exact I|]. b2p. step.
    rewrite zlen_zskipn in E5 by lia.
    pose proof (ff_total (zfirstn size (zskipn 4 stream))) as FT.
    destruct (deserialize_ff (zfirstn size (zskipn 4 stream))) as [ff|e|p|]; try exact I;
      try (apply FT; apply bytes_ok_firstn, bytes_ok_skipn, B).
    destruct FT as (Wp & Wt & Wf & Ls); [apply bytes_ok_firstn, bytes_ok_skipn, B|].
    rewrite zlen_zfirstn in Ls by (rewrite zlen_zskipn; lia).
    assert (Wff : wf_ff ff = true) by (unfold wf_ff; rewrite Wp, Wt, Wf; p2b; try reflexivity; lia).
    step. specialize (IH (remaining - 1) (zskipn size (zskipn 4 stream)) (acc ++ [ff])).
    destruct (deserialize_entries f (remaining - 1) (zskipn size (zskipn 4 stream)) (acc ++ [ff])) as [ix|e|p|];
      try exact I.
    + destruct IH as (Wi & Li); [apply bytes_ok_skipn, bytes_ok_skipn, B|rewrite !zlen_zskipn; rewrite ?zlen_zskipn; lia
                                 |rewrite forallb_app, W; cbn [forallb]; rewrite Wff; reflexivity|lia|].
      split; [assumption|]. rewrite zlen_app, zlen_cons, zlen_nil in Li. lia.
    + apply IH; [apply bytes_ok_skipn, bytes_ok_skipn, B|rewrite !zlen_zskipn; rewrite ?zlen_zskipn; lia
                 |rewrite forallb_app, W; cbn [forallb]; rewrite Wff; reflexivity|lia].
    + apply IH; [apply bytes_ok_skipn, bytes_ok_skipn, B|rewrite !zlen_zskipn; rewrite ?zlen_zskipn; lia
                 |rewrite forallb_app, W; cbn [forallb]; rewrite Wff; reflexivity|lia].
Qed.

(* ---- top level ------------------------------------------------------------------------------------------- *)
Lemma wf_index_parts ix : wf_index ix = true -> forallb wf_ff ix = true /\ 0 <= zlen ix < 4294967296.
Proof. unfold wf_index. rewrite andb_true_iff. intros [H1 H2]. b2p. pose proof (zlen_nonneg ix). split; [assumption|lia]. Qed.

Definition header (n : Z) : list Z := put16 cache_format_version ++ put32 (wrap32 n).
Lemma serialize_index_eq ix : serialize_index ix = header (zlen ix) ++ concat (map serialize_entry ix).
Proof. unfold serialize_index, header. rewrite <- app_assoc. reflexivity. Qed.

Lemma header_decode n stream : 0 <= n < 4294967296 ->
  deserialize_index (header n ++ stream) = deserialize_entries (S (length stream)) n stream [].
Proof.
  intros H. unfold deserialize_index. rewrite read_exact_app by reflexivity. step.
  unfold header at 1. rewrite be16_put16 by (unfold cache_format_version; lia). step.
  change (cache_format_version =? cache_format_version) with true. cbn [negb].
  assert (C : at_cursor (header n) 2 (put32 (wrap32 n) ++ [])) by (exists (put16 cache_format_version); split; [unfold header; rewrite app_nil_r; reflexivity|reflexivity]).
  rewrite (cursor_slice _ _ _ C). step. rewrite be32_put32 by (rewrite wrap32_small; lia). step.
  rewrite wrap32_small by lia. reflexivity.
Qed.

Lemma index_roundtrip_lemma : roundtrip_spec serialize_index deserialize_index.
Proof.
  intros ix W. apply wf_index_parts in W as [W L].
  rewrite serialize_index_eq, header_decode by assumption.
  rewrite <- (app_nil_r (concat (map serialize_entry ix))).
  rewrite entries_rt; [reflexivity|assumption|unfold zlen; lia].
Qed.

Lemma index_prefix_lemma : prefix_spec serialize_index deserialize_index.
Proof.
  intros ix n W K. apply wf_index_parts in W as [W L].
  rewrite serialize_index_eq in *. rewrite zlen_app in K. change (zlen (header (zlen ix))) with 6 in K.
  destruct (Z_lt_ge_dec n 6) as [K6|K6].
  - unfold deserialize_index. rewrite read_exact_short; [eexists; reflexivity|].
    rewrite zlen_zfirstn; [lia|]. rewrite zlen_app. change (zlen (header (zlen ix))) with 6. lia.
  - rewrite zfirstn_app_ge by (change (zlen (header (zlen ix))) with 6; lia).
    rewrite header_decode by assumption. change (zlen (header (zlen ix))) with 6.
    apply entries_prefix; [assumption|lia|].
    assert (zlen (zfirstn (n - 6) (concat (map serialize_entry ix))) = n - 6) by (apply zlen_zfirstn; lia).
    unfold zlen in *. lia.
Qed.

Lemma index_robust_lemma : robust_spec deserialize_index.
Proof.
  intros d B. apply bytes_okb_ok in B. unfold deserialize_index.
  unfold read_exact. destruct (zlen d <? 6) eqn:E; [exact I|]. b2p. step.
  destruct (be16_total (zfirstn 6 d)) as (v & -> & Hv); [apply bytes_ok_firstn, B|rewrite zlen_zfirstn; lia|]. step.
  destruct (negb (v =? cache_format_version)); [exact I|].
  rewrite slice_from_ok by (rewrite zlen_zfirstn; lia). step.
  destruct (be32_total (zskipn 2 (zfirstn 6 d))) as (L & -> & HL);
    [apply bytes_ok_skipn, bytes_ok_firstn, B|rewrite zlen_zskipn; rewrite zlen_zfirstn; lia|]. step.
  pose proof (entries_total (S (length (zskipn 6 d))) L (zskipn 6 d) [] (bytes_ok_skipn _ _ B)) as T.
  destruct (deserialize_entries (S (length (zskipn 6 d))) L (zskipn 6 d) []) as [ix|e|p|]; try exact I.
  - destruct T as (W & Lx); [unfold zlen; lia|reflexivity|lia|]. change (zlen (@nil file_fps)) with 0 in Lx.
    unfold wf_index. rewrite W. p2b; [reflexivity|lia].
  - apply T; [unfold zlen; lia|reflexivity|lia].
  - apply T; [unfold zlen; lia|reflexivity|lia].
Qed.

(* the parts of robust_spec, separately *)
Lemma decode_total_lemma : forall d, bytes_okb d = true -> total (deserialize_index d).
Proof. intros d B. pose proof (index_robust_lemma d B). unfold total. destruct (deserialize_index d); tauto. Qed.
Lemma decode_wf_lemma : forall d ix, bytes_okb d = true -> deserialize_index d = Ok ix -> wf_index ix = true.
Proof. intros d ix B E. pose proof (index_robust_lemma d B) as H. rewrite E in H. exact H. Qed.

(* an accepted index is usable by the matching functions as far as the aspect goes: style in {normal, italic},
   weight and stretch in the ranges a scan produces *)
Lemma decode_aspects_lemma : forall d ix ff fp, bytes_okb d = true -> deserialize_index d = Ok ix ->
  In ff ix -> In fp (ff_fps ff) -> aspect_valid (fp_aspect fp) = true.
Proof.
  intros d ix ff fp B E Hf Hp. pose proof (decode_wf_lemma d ix B E) as W.
  unfold wf_index in W. apply andb_true_iff in W as [W _]. rewrite forallb_forall in W. specialize (W ff Hf).
  unfold wf_ff in W. rewrite !andb_true_iff in W. destruct W as (((_ & _) & W) & _).
  rewrite forallb_forall in W. specialize (W fp Hp). apply wf_footprint_raw in W. tauto.
Qed.

(* re-encoding an accepted index gives a payload that decodes to the same index (idempotence of the cache) *)
Lemma decode_reencode_lemma : forall d ix, bytes_okb d = true -> deserialize_index d = Ok ix ->
  deserialize_index (serialize_index ix) = Ok ix.
Proof. intros d ix B E. apply index_roundtrip_lemma. eapply decode_wf_lemma; eassumption. Qed.

(* the file level, gzip abstract *)
Section FileLevel.
  Variable gzip : list Z -> list Z.
  Variable gunzip : list Z -> res (list Z).
  Hypothesis gunzip_gzip : forall x, gunzip (gzip x) = Ok x.
  Lemma file_roundtrip_lemma : forall ix, wf_index ix = true ->
    deserialize_file gunzip (serialize_file gzip ix) = Ok ix.
  Proof. intros ix W. unfold deserialize_file, serialize_file. rewrite gunzip_gzip. apply index_roundtrip_lemma, W. Qed.
End FileLevel.
