(* Backward window rules (C18).  A rule that, at the glyph x under the cursor, looks BACK over the glyphs already passed,
   picks one of them (index b of `done`), rewrites x into x' (same cluster, flag kept, glyphProps kept), flags the window
   [b, cursor] with unsafeToBreak and advances by one — and otherwise advances without a change — meets the contract of
   Spec/LocalEngine.v in either buffer direction, provided its decision is LOCAL (plan_prefix): what the rule finds on
   the piece that starts at a cut it finds, at the same place and with the same result, on the whole text; what it does
   not find on the piece it either does not find on the whole text or finds BEFORE the cut (and then the flagged window
   crosses the cut).  Instances: GPOS mark-to-mark attachment (Proofs/MarkMark.v); mark-to-base attachment has the same
   shape (Proofs/MarkBaseDir.v, with its own invariant). *)
From TV Require Import Model.EngineItem Spec.LocalEngine Proofs.LocalEngine Proofs.EngineItem Proofs.KernMachine.
From TV Require Import Proofs.Direction Proofs.ForwardRule.

Section BackwardRule.
Variable plan : list item -> item -> option (nat * item).

Hypothesis plan_shape : forall d x b x', plan d x = Some (b, x') -> (b < length d)%nat /\ keeps x x'.
Hypothesis plan_prefix : forall d1 d2 x,
  match plan d2 x with
  | Some (b, x') => plan (d1 ++ d2) x = Some ((length d1 + b)%nat, x')
  | None => plan (d1 ++ d2) x = None \/ exists b x', plan (d1 ++ d2) x = Some (b, x') /\ (b < length d1)%nat
  end.

Definition br_step (d t : list item) : list item * list item :=
  match t with
  | [] => (d, [])
  | x :: rest =>
    match plan d x with
    | None => (d ++ [x], rest)
    | Some (b, x') => (firstn b d ++ flag_window (skipn b d ++ [x']), rest)
    end
  end.

Definition br_pass : @pass item unit := mkPass (fun _ _ => br_step) (fun _ => tt) (fun _ => tt).

Lemma br_refines d x rest : refines (d ++ x :: rest) (fst (br_step d (x :: rest)) ++ snd (br_step d (x :: rest))).
Proof.
  cbn [br_step]. destruct (plan d x) as [[b x']|] eqn:E; cbn [fst snd].
  - destruct (plan_shape _ _ _ _ E) as (Lb & (Ec & Eu & _)).
    rewrite <- (firstn_skipn b d) at 1. rewrite <- !app_assoc.
    change (skipn b d ++ x :: rest) with (skipn b d ++ [x] ++ rest). rewrite (app_assoc (skipn b d) [x] rest).
    apply window_refines. apply refines_app; [apply refines_refl|]. constructor; [|constructor]. split; [exact Ec|exact Eu].
  - rewrite <- app_assoc. apply refines_refl.
Qed.

Lemma br_gp d x rest y : In y (fst (br_step d (x :: rest)) ++ snd (br_step d (x :: rest))) ->
  exists z, In z (d ++ x :: rest) /\ gp (ig y) = gp (ig z).
Proof.
  cbn [br_step]. destruct (plan d x) as [[b x']|] eqn:E; cbn [fst snd].
  - destruct (plan_shape _ _ _ _ E) as (Lb & (_ & _ & Eg)). intros H.
    apply in_app_or in H. destruct H as [H|H]; [|exists y; split; [apply in_or_app; right; right; exact H|reflexivity]].
    apply in_app_or in H. destruct H as [H|H].
    + exists y. split; [apply in_or_app; left; eapply in_firstn; exact H|reflexivity].
    + apply flag_window_gp in H. destruct H as (z & Hz & Ez). apply in_app_or in Hz. destruct Hz as [Hz|[<-|[]]].
      * exists z. split; [apply in_or_app; left; eapply in_skipn; exact Hz|exact Ez].
      * exists x. split; [apply in_or_app; right; left; reflexivity|congruence].
  - rewrite <- app_assoc. intros H. exists y. auto.
Qed.

Theorem br_step_ok_dir side srt (D : dir_ok side srt) : step_ok icl iutb side srt br_pass.
Proof.
  constructor; cbn [pstep br_pass].
  - intros L R d t Hne. destruct t as [|x rest]; [contradiction|]. cbn [br_step]. destruct (plan d x) as [[b x']|]; cbn; lia.
  - intros L R d t Hne HS. destruct t as [|x rest]; [contradiction|].
    eapply (d_same _ _ D); [|exact HS]. symmetry. apply refines_icls. apply br_refines.
  - intros L R d t y Hne HI Hy. destruct t as [|x rest]; [contradiction|]. apply (refines_cls _ _ (br_refines d x rest) y Hy).
  - intros L R d t c Hne HI F. destruct t as [|x rest]; [contradiction|]. apply (refines_fog c _ _ (br_refines d x rest) F).
  - (* cut ahead: the rule never looks ahead *)
    intros L R R' d t1 t2 c Hne HI HI1 HC _. cbv zeta. right. destruct t1 as [|x r1]; [contradiction|].
    cbn [app br_step]. destruct (plan d x) as [[b x']|]; reflexivity.
  - (* cut behind *)
    intros L L' R d1 d2 t c Hne HS HS2 HC _. cbv zeta.
    destruct t as [|x rest]; [contradiction|]. cbn [br_step].
    apply (cutv_spec icl side) in HC. destruct HC as [C1 C2].
    pose proof (plan_prefix d1 d2 x) as Hp.
    destruct (plan d2 x) as [[b x']|] eqn:E2.
    + right. rewrite Hp. cbn [fst snd]. f_equal.
      rewrite firstn_app, skipn_app. rewrite firstn_all2, skipn_all2 by lia.
      replace (length d1 + b - length d1)%nat with b by lia. cbn [app]. rewrite <- app_assoc. reflexivity.
    + destruct Hp as [Hp|(b & x' & Hp & Lb)]; rewrite Hp.
      * right. cbn [fst snd]. rewrite <- app_assoc. reflexivity.
      * left. cbn [fst snd].
        destruct (plan_shape _ _ _ _ Hp) as (_ & (Ec & Eu & _)).
        rewrite <- app_assoc. apply (d_flagged _ _ D).
        -- eapply (d_same _ _ D); [|exact HS]. symmetry.
           transitivity (icls (firstn b (d1 ++ d2) ++ (skipn b (d1 ++ d2) ++ [x]) ++ rest)).
           ++ apply refines_icls. apply refines_app; [apply refines_refl|]. apply refines_app; [|apply refines_refl].
              apply refines_app; [apply refines_refl|]. constructor; [|constructor]. split; [exact Ec|exact Eu].
           ++ rewrite <- !app_assoc. rewrite (app_assoc (firstn b (d1 ++ d2))). rewrite firstn_skipn. rewrite <- app_assoc. reflexivity.
        -- intros y Hy. apply C1. rewrite firstn_app in Hy. replace (b - length d1)%nat with O in Hy by lia.
           cbn [firstn] in Hy. rewrite app_nil_r in Hy. eapply in_firstn. exact Hy.
        -- intros y Hy. apply C2. apply in_or_app. right. right. exact Hy.
        -- exists (nth b d1 i0). split.
           ++ apply in_or_app. left. rewrite skipn_app. apply in_or_app. left. apply nth_in_skipn. exact Lb.
           ++ apply C1. apply nth_In. exact Lb.
        -- exists x'. split; [apply in_or_app; right; left; reflexivity|]. rewrite <- Ec. apply C2. apply in_or_app. right. left. reflexivity.
Qed.

(* the same under an invariant that adds a property of the glyphProps *)
Theorem br_step_ok_gp_dir side srt (D : dir_ok side srt) (Q : item -> Prop) : (forall a b, gp (ig a) = gp (ig b) -> Q b -> Q a) ->
  step_ok icl iutb side (fun l => srt l /\ Forall Q l) br_pass.
Proof.
  intros HQ. apply (step_ok_strengthen icl iutb side srt (Forall Q) br_pass (br_step_ok_dir side srt D)).
  intros L R d t Hne _ HN. cbn [pstep br_pass]. destruct t as [|x rest]; [contradiction|].
  apply Forall_forall. intros y Hy. destruct (br_gp d x rest y Hy) as (z & Hz & E).
  rewrite Forall_forall in HN. apply (HQ y z E). apply HN. exact Hz.
Qed.

End BackwardRule.
