(* C04 truncation clause, "exactly when": with TruncateAfterLines = k >= 1 the call that returns the k-th line reports done,
   Truncated = n - NextLine, and the truncator run is appended - as the last run, the only run with the truncator's glyph
   array, Runes = (NextLine, Truncated) - exactly when Truncated > 0 or TextContinues is set; every other call (an earlier
   line, or truncation disabled) reports Truncated = 0 and returns no truncator.
   postProcessLine is the only place that decides it (pp_tail_when); the text runs of the returned line are pieces of the
   input runs (XI: piece_ok), whose glyph arrays precede the truncator's (hypothesis zlen runs <= source of the truncator);
   the countdown is followed through any sequence of calls (calls_count). *)
From TV Require Import Model.Wrap Spec.Wrap Spec.WrapGreedyAll Proofs.Wrap Proofs.WrapLines Proofs.WrapStore Proofs.WrapMand2
  Proofs.WrapTrunc Proofs.WrapWidth Proofs.WrapValid.

(* postProcessLine, second half *)
Lemma pp_tail_when : forall cfg w line done w' wl d', pp_tail cfg w line done = (w', wl, d') ->
  let n := b_n (w_br w) in
  wl_next wl = w_start w
  /\ (w_truncating w = true -> c_trunc cfg - 1 = 0 ->
        d' = true /\ wl_truncated wl = n - w_start w
        /\ ((0 < n - w_start w \/ c_cont cfg = true) ->
              exists l, wl_line wl = Some l
                /\ map rng l = map rng (match line with Some x => x | None => [] end) ++ [(w_start w, n - w_start w, o_src (c_truncator cfg))])
        /\ (~ (0 < n - w_start w \/ c_cont cfg = true) -> wl_line wl = line))
  /\ ((w_truncating w = false \/ c_trunc cfg - 1 <> 0) -> wl_truncated wl = 0 /\ wl_line wl = line).
Proof.
  intros cfg w line done w' wl d' H. unfold pp_tail in H. cbv zeta.
  destruct (w_truncating w) eqn:T.
  - destruct (c_trunc cfg - 1 =? 0) eqn:K.
    + apply Z.eqb_eq in K.
      replace (w_start (set_cfg w (mkCfg (c_dir cfg) (c_trunc cfg - 1) (c_truncator cfg) (c_cont cfg) (c_policy cfg) (c_notrim cfg)))) with (w_start w) in H by (destruct w; reflexivity).
      destruct ((0 <? b_n (w_br w) - w_start w) || c_cont cfg) eqn:E.
      * injection H as <- <- <-. cbn. split; [destruct w; reflexivity|]. split.
        -- intros _ _. split; [reflexivity|]. split; [reflexivity|]. split.
           ++ intros _. eexists. split; [reflexivity|]. rewrite bidi_rng, map_app. reflexivity.
           ++ intros Q. exfalso. apply Q. apply orb_prop in E. destruct E as [E|E]; [left; apply Z.ltb_lt in E; exact E|right; exact E].
        -- intros [Q|Q]; [discriminate|lia].
      * injection H as <- <- <-. cbn. split; [destruct w; reflexivity|]. split.
        -- intros _ _. split; [reflexivity|]. split; [reflexivity|]. split; [|reflexivity].
           intros Q. exfalso. apply orb_false_elim in E. destruct E as [E1 E2]. apply Z.ltb_ge in E1. destruct Q as [Q|Q]; [lia|congruence].
        -- intros [Q|Q]; [discriminate|lia].
    + apply Z.eqb_neq in K. destruct (done || _); injection H as <- <- <-; cbn;
        (split; [destruct w; reflexivity|]; split; [intros _ Q; lia|intros _; split; reflexivity]).
  - destruct (done || _); injection H as <- <- <-; cbn;
      (split; [destruct w; reflexivity|]; split; [intros Q; discriminate|intros _; split; reflexivity]).
Qed.

(* a line whose runs all come from other arrays than the truncator's *)
Lemma no_truncator_rng : forall tsrc l l', map rng l' = map rng l -> Forall (fun r => o_src r <> tsrc) l -> has_truncator tsrc l' = false.
Proof.
  intros tsrc l l'. revert l. induction l' as [|x l' IH]; intros l R F; destruct l as [|y l]; try discriminate; [reflexivity|].
  cbn [map] in R. inversion R as [[R1 R2 R3 R4]]. inversion F; subst. unfold has_truncator in *. cbn [existsb].
  rewrite R3. rewrite (proj2 (Z.eqb_neq _ _) H1). cbn. eapply IH; eauto.
Qed.

Lemma ends_rng : forall tsrc off cnt l body, map rng l = map rng body ++ [(off, cnt, tsrc)] ->
  Forall (fun r => o_src r <> tsrc) body -> ends_with_truncator tsrc off cnt l.
Proof.
  intros tsrc off cnt l body R F.
  assert (Hne : l <> []) by (intros ->; destruct (map rng body); discriminate).
  destruct (exists_last Hne) as (b0 & t & ->).
  rewrite map_app in R. cbn [map] in R. apply app_inj_tail in R. destruct R as [R1 R2].
  exists b0, t. split; [reflexivity|]. unfold rng in R2. inversion R2 as [[A B C]]. split; [reflexivity|]. split; [reflexivity|]. split; [reflexivity|].
  eapply no_truncator_rng; [exact R1|]. rewrite C. exact F.
Qed.

Lemma wnl_when : forall n attrs w mw w' wl d,
  CI n attrs w -> XB n w -> w_more w = true -> zlen (w_runs w) <= o_src (c_truncator (w_cfg w)) ->
  wrap_next_line w mw = Ok (w', wl, d) ->
  trunc_when n (o_src (c_truncator (w_cfg w))) (c_trunc (w_cfg w)) (c_cont (w_cfg w)) wl d.
Proof.
  intros n attrs w mw w' wl d HC HB Hm Hts H. unfold wrap_next_line in H. rewrite Hm in H. cbn [negb] in H.
  destruct (CI_peek n attrs w HC) as (ci & run & PK). rewrite PK in H. cbn [negb] in H.
  destruct (CI_start_line n attrs w HC) as (T0 & O0 & A0 & N0 & Acc0).
  pose proof (XI_start_line n w HB) as X0.
  set (lc := mkLC _ _ _) in H.
  pose proof (outer_safe n (loop_fuel (start_line w)) (start_line w) lc T0 O0 X0) as OS.
  destruct (outer_loop _ (start_line w) lc) as [[w2 d2]| | |] eqn:OL; cbn [bind] in H; try discriminate.
  destruct OS as [X2 S2].
  destruct (outer_loop_ok n _ _ _ _ _ (proj1 (proj1 T0)) OL) as [I2 O2].
  destruct (outer_loop_J n (phi n (w_br w)) attrs _ _ _ _ _ T0 O0 (N0 lc) A0 (fun _ => Acc0) OL) as (P2 & _).
  destruct O2 as (Oc & Ot & Os & Om & Or & On & Oa).
  replace (w_cfg (start_line w)) with (w_cfg w) in * by (destruct w; reflexivity).
  replace (w_runs (start_line w)) with (w_runs w) in * by (destruct w; reflexivity).
  replace (w_truncating (start_line w)) with (w_truncating w) in * by (destruct w; reflexivity).
  replace (w_br (start_line w)) with (w_br w) in * by (destruct w; reflexivity).
  cbv beta iota zeta in H. injection H as PP. rewrite post_process_split in PP.
  destruct (pp_first w2 (s_best (w_sc w2))) as [w1 l1] eqn:PF.
  assert (HL : forall l, s_best (w_sc w2) = Some l -> chain (w_start w2) l (lend (w_start w2) l)).
  { intros l Hl. destruct I2 as (_ & _ & _ & _ & HBo). destruct (HBo l Hl) as [e He]. rewrite (lend_chain _ _ _ He). exact He. }
  destruct (pp_first_spec _ _ _ _ HL PF) as (F1 & F2 & _ & F4 & _ & _ & _ & F8 & F9 & F10).
  fold (best_end w2) in F9.
  destruct (pp_tail_when _ _ _ _ _ _ _ PP) as (Nx & Wf & Wn).
  pose proof HC as (_ & _ & _ & _ & HBk & _ & _ & HT & _). pose proof (proj1 HBk) as Hbn.
  pose proof P2 as (_ & _ & _ & _ & _ & _ & BN2).
  rewrite F8, On, Hbn, F2, Ot, Oc in *.
  set (tsrc := o_src (c_truncator (w_cfg w))) in *.
  (* the runs of the best line are pieces of the input runs *)
  assert (Hsrc : forall l, s_best (w_sc w2) = Some l -> Forall (fun r => o_src r <> tsrc) l).
  { intros l EB. destruct X2 as (_ & _ & _ & XBest). destruct (XBest l EB) as [FPO _].
    eapply Forall_impl; [|exact FPO]. intros r Hr. apply PO_src in Hr. rewrite Or in Hr. lia. }
  assert (NoT : forall line, l1 = Some line -> has_truncator tsrc line = false).
  { intros line ->. destruct (s_best (w_sc w2)) as [l|] eqn:EB; [|discriminate].
    destruct F10 as (l' & E & R). injection E as ->. eapply no_truncator_rng; [exact R|]. apply Hsrc. reflexivity. }
  assert (Body : exists body, map rng (match l1 with Some x => x | None => [] end) = map rng body /\ Forall (fun r => o_src r <> tsrc) body).
  { destruct (s_best (w_sc w2)) as [l|] eqn:EB.
    - destruct F10 as (l' & -> & R). exists l. split; [exact R|]. apply Hsrc. reflexivity.
    - subst l1. exists []. split; [reflexivity|constructor]. }
  assert (Tr : w_truncating w = true <-> 1 <= c_trunc (w_cfg w)) by (rewrite HT; rewrite Z.ltb_lt; lia).
  assert (T0' : 0 <= wl_truncated wl).
  { destruct (w_truncating w) eqn:TW.
    - destruct (Z.eq_dec (c_trunc (w_cfg w) - 1) 0) as [E|E].
      + destruct (Wf eq_refl E) as (_ & Q & _). rewrite Q, F9. lia.
      + destruct (Wn (or_intror E)) as [Q _]. lia.
    - destruct (Wn (or_introl eq_refl)) as [Q _]. lia. }
  unfold trunc_when. rewrite Nx. split; [exact T0'|]. split.
  - intros K1. destruct (Wf ltac:(apply Tr; lia) ltac:(lia)) as (W1 & W2 & W3 & W4).
    split; [exact W1|]. split; [exact W2|]. rewrite W2. split.
    + intros Q. destruct (W3 Q) as (l & E1 & E2). exists l. split; [exact E1|].
      destruct Body as (body & Bd1 & Bd2). rewrite Bd1 in E2. eapply ends_rng; eauto.
    + intros Q line E. rewrite (W4 Q) in E. apply NoT. exact E.
  - intros K1. assert (Q : w_truncating w = false \/ c_trunc (w_cfg w) - 1 <> 0).
    { destruct (w_truncating w) eqn:TW; [right; lia|left; reflexivity]. }
    destruct (Wn Q) as [W1 W2]. split; [exact W1|]. intros line E. rewrite W2 in E. apply NoT. exact E.
Qed.

(* ---- the countdown over any sequence of calls ------------------------------------------------------------------------ *)

(* WrapNextLine only counts TruncateAfterLines down *)
Lemma pp_tail_cfg : forall cfg w line done w' wl d', pp_tail cfg w line done = (w', wl, d') ->
  (w_cfg w' = w_cfg w \/ (c_truncator (w_cfg w') = c_truncator cfg /\ c_cont (w_cfg w') = c_cont cfg)).
Proof.
  intros cfg w line done w' wl d' H. unfold pp_tail in H.
  destruct (w_truncating w).
  - destruct (c_trunc cfg - 1 =? 0).
    + destruct (_ || c_cont cfg); injection H as <- _ _; right; destruct w; cbn; split; reflexivity.
    + destruct (done || _); injection H as <- _ _; right; destruct w; cbn; split; reflexivity.
  - destruct (done || _); injection H as <- _ _; left; destruct w; reflexivity.
Qed.

Lemma wnl_cfg : forall n attrs w mw w' wl d, CI n attrs w -> w_more w = true ->
  wrap_next_line w mw = Ok (w', wl, d) ->
  c_truncator (w_cfg w') = c_truncator (w_cfg w) /\ c_cont (w_cfg w') = c_cont (w_cfg w).
Proof.
  intros n attrs w mw w' wl d HC Hm H. unfold wrap_next_line in H. rewrite Hm in H. cbn [negb] in H.
  destruct (CI_peek n attrs w HC) as (ci & run & PK). rewrite PK in H. cbn [negb] in H.
  destruct (CI_start_line n attrs w HC) as (T0 & _).
  set (lc := mkLC _ _ _) in H.
  destruct (outer_loop _ (start_line w) lc) as [[w2 d2]| | |] eqn:OL; cbn [bind] in H; try discriminate.
  destruct (outer_loop_ok n _ _ _ _ _ (proj1 (proj1 T0)) OL) as [I2 O2].
  destruct O2 as (Oc & _).
  replace (w_cfg (start_line w)) with (w_cfg w) in Oc by (destruct w; reflexivity).
  cbv beta iota zeta in H. injection H as PP. rewrite post_process_split in PP.
  destruct (pp_first w2 (s_best (w_sc w2))) as [w1 l1] eqn:PF.
  assert (HL : forall l, s_best (w_sc w2) = Some l -> chain (w_start w2) l (lend (w_start w2) l)).
  { intros l Hl. destruct I2 as (_ & _ & _ & _ & HBo). destruct (HBo l Hl) as [e He]. rewrite (lend_chain _ _ _ He). exact He. }
  destruct (pp_first_spec _ _ _ _ HL PF) as (F1 & _).
  destruct (pp_tail_cfg _ _ _ _ _ _ _ PP) as [Q|[Q1 Q2]].
  - rewrite Q, F1, Oc. split; reflexivity.
  - rewrite Q1, Q2, Oc. split; reflexivity.
Qed.

(* after j calls that left the wrapper live: every one of them returned a line, TruncateAfterLines = k >= 1 has been counted
   down to k - j, the truncator and TextContinues are those of the configuration *)
Lemma calls_count : forall n attrs widths w wk rs,
  CI n attrs w -> w_more w = true -> XB n w ->
  run_calls w widths = Ok (wk, rs) -> w_more wk = true ->
  c_truncator (w_cfg wk) = c_truncator (w_cfg w) /\ c_cont (w_cfg wk) = c_cont (w_cfg w)
  /\ (1 <= c_trunc (w_cfg w) -> c_trunc (w_cfg wk) = c_trunc (w_cfg w) - zlen rs)
  /\ (c_trunc (w_cfg w) <= 0 -> c_trunc (w_cfg wk) = c_trunc (w_cfg w))
  /\ forallb (fun x => negb (snd x)) rs = true.
Proof.
  intros n attrs. induction widths as [|mw rest IH]; intros w wk rs HC Hm HB H Hk; cbn [run_calls] in H.
  { inversion H; subst. rewrite zlen_nil. repeat split; auto; lia. }
  pose proof (wrap_next_line_safe n attrs w mw HC HB) as SF.
  destruct (wrap_next_line w mw) as [[[w1 wl] d]| | |] eqn:WN; cbn [bind] in H; try discriminate.
  destruct (run_calls w1 rest) as [[w2 r2]| | |] eqn:R; cbn [bind fst snd] in H; try discriminate.
  injection H as <- <-. destruct SF as (XB1 & _).
  destruct (wrap_next_line_J n attrs w mw w1 wl d HC Hm WN) as (_ & _ & _ & Jf & Jt).
  destruct (wnl_trunc n attrs w mw w1 wl d HC Hm WN) as (T1 & T2 & T3).
  destruct (wnl_cfg n attrs w mw w1 wl d HC Hm WN) as (C1 & C2).
  pose proof HC as (_ & _ & _ & _ & _ & _ & _ & HT & _).
  destruct d.
  - destruct (Jt eq_refl) as [M1 _]. pose proof (run_calls_dead _ _ _ _ M1 R). congruence.
  - destruct (Jf eq_refl) as (CI1 & M1 & _).
    destruct (IH w1 w2 r2 CI1 M1 XB1 R Hk) as (I1 & I2 & I3 & I4 & I5).
    rewrite I1, I2, C1, C2. split; [reflexivity|]. split; [reflexivity|]. rewrite zlen_cons. cbn [forallb snd negb andb].
    rewrite HT in T2. split; [|split; [|exact I5]].
    + intros K. replace (0 <? c_trunc (w_cfg w)) with true in T2 by (symmetry; apply Z.ltb_lt; lia).
      assert (K1 : 1 <= c_trunc (w_cfg w1)).
      { destruct (Z.eq_dec (c_trunc (w_cfg w)) 1) as [E|E]; [|lia]. rewrite HT in T3.
        assert (Q : false = true) by (apply T3; [apply Z.ltb_lt; lia|exact E]). discriminate Q. }
      rewrite (I3 K1), T2. lia.
    + intros K. replace (0 <? c_trunc (w_cfg w)) with false in T2 by (symmetry; apply Z.ltb_ge; lia).
      rewrite (I4 ltac:(lia)), T2. reflexivity.
Qed.

(* truncation "exactly when", over calls *)
Lemma truncation_when_calls : forall n w cfg attrs runs widths wk rs mw w' wl d,
  wf_runs (w_st w) runs n = true -> zlen attrs - 1 = n -> 1 <= n ->
  run_calls (prepare w cfg attrs runs 0 0) widths = Ok (wk, rs) -> w_more wk = true ->
  zlen runs <= o_src (c_truncator cfg) ->
  wrap_next_line wk mw = Ok (w', wl, d) ->
  forallb has_line rs = true
  /\ trunc_when n (o_src (c_truncator cfg)) (if 1 <=? c_trunc cfg then c_trunc cfg - zlen rs else 0) (c_cont cfg) wl d.
Proof.
  intros n w cfg attrs runs widths wk rs mw w' wl d HW Ha Hn RC Hk Hts WN.
  pose proof (CI_prepare n w cfg attrs runs (wf_runs_ok _ _ _ HW) Ha Hn) as C0.
  pose proof (XB_prepare n w cfg attrs runs HW) as B0.
  destruct (run_calls_reach n attrs widths _ wk rs C0 eq_refl B0 RC Hk) as (C & B & R).
  destruct (calls_count n attrs widths _ wk rs C0 eq_refl B0 RC Hk) as (K1 & K2 & K3 & K4 & K5).
  change (w_cfg (prepare w cfg attrs runs 0 0)) with cfg in *. change (w_runs (prepare w cfg attrs runs 0 0)) with runs in R.
  split.
  - destruct (calls_valid n w cfg attrs runs widths wk rs HW Ha Hn RC) as [NL _].
    unfold no_live_nil in NL. rewrite forallb_forall in *. intros x Hx. specialize (NL x Hx). specialize (K5 x Hx).
    unfold has_line. destruct (wl_line (fst x)); [reflexivity|]. rewrite NL in K5. discriminate K5.
  - pose proof (wnl_when n attrs wk mw w' wl d C B Hk ltac:(rewrite R, K1; exact Hts) WN) as Q. rewrite K1, K2 in Q.
    destruct (1 <=? c_trunc cfg) eqn:E.
    + apply Z.leb_le in E. rewrite (K3 E) in Q. exact Q.
    + apply Z.leb_gt in E. rewrite (K4 ltac:(lia)) in Q.
      unfold trunc_when in *. destruct Q as (Q0 & Q1 & Q2). split; [exact Q0|]. split; [intros; lia|]. intros _. apply Q2. lia.
Qed.
