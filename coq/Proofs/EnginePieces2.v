(* C18: the engine pieces put together, second part.  GPOS pair positioning and mark-to-mark attachment join the pieces of Proofs/EnginePieces.v
   (legacy kerning, GSUB single / ligature substitution, GPOS mark-to-base attachment): every engine built from them — any
   number, any order — is cut-safe; the cut statement for the model of one PairPos lookup as the code runs it. *)
From TV Require Import Model.KernMachine Model.MarkBase Model.GsubLig Model.PairPos Model.MarkMark Spec.LocalEngine.
From TV Require Import Proofs.LocalEngine Proofs.EngineItem Proofs.KernMachine Proofs.MarkBase Proofs.GsubLig.
From TV Require Import Proofs.EnginePieces Proofs.Direction Proofs.ForwardRule Proofs.PairPos Proofs.MarkMark.

Inductive xpiece := XBase (p : piece) | XPair (P : ppparams) | XMarkMark (P : mbparams).
Definition xpiece_pass (p : xpiece) : @pass item unit :=
  match p with XBase q => piece_pass q | XPair P => pp_pass P | XMarkMark P => mm_pass P end.

Theorem xpiece_step_ok p : step_ok icl iutb sideL inv_mb (xpiece_pass p).
Proof. destruct p as [q|P|P]; [apply piece_step_ok|exact (pp_step_ok_mb P)|exact (mm_step_ok_mb_dir sideL sorted dirL P)]. Qed.

Theorem xpieces_cut_safe (ps : list xpiece) : cut_safe icl iutb sideL inv_mb (map xpiece_pass ps).
Proof.
  apply wf_engine_cut_safe. apply wf_engine_unit. apply Forall_forall. intros q Hq.
  apply in_map_iff in Hq. destruct Hq as (p & <- & _). apply xpiece_step_ok.
Qed.

(* one PairPos lookup as the code runs it *)
Theorem pairpos_lookup_cut_safe P pre suf c rec : (pp_mask P =? 0) = false ->
  sorted (pre ++ suf) -> cutv icl sideL c pre suf = true -> pp_left_okb P (pre ++ suf) = true ->
  let W := fst (pp_lookup (pre ++ suf, rec) P) in
  fog icl iutb c W = false ->
  W = fst (pp_lookup (pre, rec) P) ++ fst (pp_lookup (suf, rec) P).
Proof.
  intros M HS HC HL W HF. subst W.
  apply pp_left_okb_plok in HL. pose proof HL as HL'. apply Forall_app in HL'. destruct HL' as [HLp HLs].
  rewrite (pp_lookup_is_pass P [] [] (pre ++ suf) rec M HL) in *.
  rewrite (pp_lookup_is_pass P [] (suf ++ []) pre rec M HLp). rewrite (pp_lookup_is_pass P ([] ++ pre) [] suf rec M HLs).
  pose proof HS as HS'. apply sorted_app in HS'. destruct HS' as (Sp & Ss & _).
  assert (Wf : wf_engine icl iutb sideL sorted [pp_pass P]).
  { apply wf_engine_unit. constructor; [apply pp_step_ok|constructor]. }
  exact (wf_engine_cut_safe icl iutb sideL sorted [pp_pass P] Wf [] [] pre suf c HS Sp Ss HC HF).
Qed.
