(* The whole default pipeline of shaperOpentype.shape as far as clusters are concerned:
     AddRunes -> setUnicodeProps -> insertDottedCircle -> formClusters -> ensureNativeDirection -> otShapeNormalize
     -> (any sequence of the 30 modelled Buffer operations standing for GSUB / GPOS application)
     -> hideDefaultIgnorables -> ensureMonotoneClusters (when the shaper asks for it)
   preserves the C01 invariant, for every text, item range, direction, script direction, flags, cluster level
   (MonotoneGraphemes, MonotoneCharacters), font cmap, decomposition / composition tables, normalization mode. *)
From TV Require Import Model.Buffer Spec.Buffer Proofs.ShapeGlue Proofs.Buffer Proofs.BufferOps Proofs.BufferNewOps Proofs.BufferAll.
From TV Require Import Model.Engine Proofs.Engine Proofs.EngineForm Proofs.EngineProps Proofs.EnginePre.
From TV Require Import Proofs.EngineDecompose Proofs.EngineNormalize Proofs.EngineHide.

(* Buffer.AddRunes with its context runes *)
Lemma e_add_runes_wf lo hi e t off len0 k : EWF lo hi e ->
  pre (OAddRunes t off len0 k) (eb e) = true -> op_rng lo hi (OAddRunes t off len0 k) = true ->
  exists e', e_add_runes e t off len0 k = Ok e' /\ EWF lo hi e' /\ idx (eb e') = idx (eb e) /\ level (eb e') = level (eb e) /\ dir e' = dir e.
Proof.
  intros (Hw & Hl & Hh) Hp Hr. unfold e_add_runes. cbv zeta.
  destruct (add_runes_wf lo hi (eb e) t off len0 k Hl Hw Hp Hr) as (b' & E & W & L).
  pose proof Hp as Hp'. cbn [pre] in Hp'. cbv zeta in Hp'. pre_split Hp'. rewrite Hp', Hp'3, Hp'2. cbn [andb negb].
  rewrite E. cbn [bind]. eexists. split; [reflexivity|]. unfold EWF. cbn [eb with_eb with_ctx dir].
  assert (F : have_out b' = have_out (eb e) /\ idx b' = idx (eb e)).
  { unfold add_runes in E. cbv zeta in E. rewrite Hp', Hp'3, Hp'2 in E. cbn [andb] in E. inversion E. split; reflexivity. }
  destruct F as [F1 F2]. repeat split; auto; try congruence.
Qed.

Section Pipeline.
  Variable ugc : Z -> Z.
  Variable udi : Z -> bool.
  Variable umcc : Z -> Z.
  Variable uextpict : Z -> bool.
  Variable uspace : Z -> Z.
  Variable nominal : Z -> Z * bool.
  Variable variation : Z -> Z -> Z * bool.
  Variable sdecomp : Z -> option (Z * Z).
  Variable scomp : Z -> Z -> option Z.
  Variable smode : Z.
  Variable sreorder : Z.
  Variable is_mcm : Z -> bool.
  Variable dfuel : nat.

  (* everything before substitution: pre_normalize then otShapeNormalize (Model/Engine.v pre_gsub) *)
  Lemma pre_gsub_wf lo hi horiz e : (forall u, 0 <= ugc u < 32) -> decomp_wf sdecomp dfuel ->
    EWF lo hi e -> idx (eb e) = 0 -> level (eb e) = 0 \/ level (eb e) = 1 ->
    exists e', pre_gsub ugc udi umcc uextpict uspace nominal variation sdecomp scomp smode sreorder is_mcm dfuel horiz e = Ok e'
      /\ EWF lo hi e' /\ idx (eb e') = 0 /\ level (eb e') = level (eb e).
  Proof.
    intros Hgc Hd He Hi Hlv. unfold pre_gsub.
    destruct (pre_normalize_full ugc udi umcc uextpict nominal lo hi horiz e Hgc He Hi Hlv) as (e4 & E4 & H4 & I4 & L4).
    rewrite E4. cbn [bind].
    destruct (normalize_total ugc udi umcc uspace nominal variation sdecomp scomp smode sreorder is_mcm dfuel lo hi e4 Hd H4)
      as (e5 & E5 & H5 & L5 & I5 & _).
    exists e5. split; [exact E5|]. split; [exact H5|]. split; [exact I5|congruence].
  Qed.

  (* the application of the lookups: an arbitrary sequence of buffer operations used under their preconditions that
     leaves the buffer between passes (no output in progress, cursor at 0) *)
  Definition ops_ok (lo hi : Z) (os : list op) (b : buffer) : Prop :=
    pres_hold os b /\ ops_rng lo hi os /\ forall b', run_ops os b = Ok b' -> have_out b' = false /\ idx b' = 0.

  Definition default_pipeline (horiz : Z) (text : list Z) (off len0 newcap : Z) (os : list op) (emc : option bool) (e0 : ebuf) : res ebuf :=
    do e1 <- e_add_runes e0 text off len0 newcap;
    do e2 <- pre_gsub ugc udi umcc uextpict uspace nominal variation sdecomp scomp smode sreorder is_mcm dfuel horiz e1;
    do b3 <- run_ops os (eb e2);
    do e4 <- hide_default_ignorables nominal (with_eb e2 b3);
    match emc with
    | Some asc => lift e4 (ensure_monotone_clusters asc (eb e4))
    | None => Ok e4
    end.

  Lemma default_pipeline_wf lo hi horiz text off len0 newcap os emc e0 :
    (forall u, 0 <= ugc u < 32) -> decomp_wf sdecomp dfuel ->
    EWF lo hi e0 -> idx (eb e0) = 0 -> level (eb e0) = 0 \/ level (eb e0) = 1 ->
    pre (OAddRunes text off len0 newcap) (eb e0) = true -> op_rng lo hi (OAddRunes text off len0 newcap) = true ->
    (forall e1 e2, e_add_runes e0 text off len0 newcap = Ok e1 ->
       pre_gsub ugc udi umcc uextpict uspace nominal variation sdecomp scomp smode sreorder is_mcm dfuel horiz e1 = Ok e2 ->
       ops_ok lo hi os (eb e2)) ->
    exists e', default_pipeline horiz text off len0 newcap os emc e0 = Ok e' /\ EWF lo hi e'.
  Proof.
    intros Hgc Hd He Hi Hlv Hp Hr Hops. unfold default_pipeline.
    destruct (e_add_runes_wf lo hi e0 text off len0 newcap He Hp Hr) as (e1 & E1 & H1 & I1 & L1 & _).
    rewrite E1. cbn [bind].
    destruct (pre_gsub_wf lo hi horiz e1 Hgc Hd H1 ltac:(congruence) ltac:(rewrite L1; exact Hlv)) as (e2 & E2 & H2 & I2 & L2).
    rewrite E2. cbn [bind].
    destruct (Hops e1 e2 E1 E2) as (Hpres & Hrng & Hend).
    destruct H2 as (Hw2 & Hl2 & Hh2).
    destruct (buffer_ops_preserve_wf_lemma lo hi os (eb e2) Hl2 Hw2 Hpres Hrng) as (b3 & E3 & W3).
    rewrite E3. cbn [bind].
    destruct (Hend b3 E3) as (Hh3 & I3).
    assert (Hl3 : (level b3 =? 2) = false).
    { (* every operation keeps "level is not Characters" *)
      clear Hend W3 Hh3 I3. revert E3. generalize (eb e2) Hl2 Hw2 Hpres Hrng. clear. induction os as [|o r IH]; intros b Hl Hw Hp Hr E.
      - inversion E; subst. exact Hl.
      - destruct Hp as [Hpo Hpr]. inversion Hr as [|? ? Hro Hrr]; subst.
        destruct (op_step lo hi o b Hl Hw Hpo Hro) as (b1 & E1 & W1 & L1).
        rewrite (run_ops_cons o r b b1 E1) in E. exact (IH b1 L1 W1 (Hpr b1 E1) Hrr E). }
    destruct (hide_default_ignorables_wf nominal lo hi (with_eb e2 b3)) as (e4 & E4 & H4 & _ & I4 & _).
    { unfold EWF. cbn [eb with_eb]. auto. }
    { exact I3. }
    rewrite E4. cbn [bind].
    destruct emc as [asc|]; [|exists e4; auto].
    destruct H4 as (Hw4 & Hl4 & Hh4).
    destruct (ensure_monotone_clusters_wf lo hi asc (eb e4) Hl4 Hw4 Hh4) as (b5 & E5 & W5 & Hh5 & L5 & _).
    rewrite E5. cbn [lift bind]. eexists. split; [reflexivity|]. unfold EWF. cbn [eb with_eb].
    repeat split; auto. rewrite L5. exact Hl4.
  Qed.
End Pipeline.
