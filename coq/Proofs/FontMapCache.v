(* C14: the answers of ResolveFace do not depend on the rune cache at all - neither on the SetRuneCacheSize calls
   made (how many, where, which size) nor on the hash function of the cache keys (seed, collisions) - and not on
   the earlier ResolveFace calls either.  Consequences of the refinement theorem: the specification ignores all
   three. *)
From TV Require Import Model.FontMap Spec.Resolve Proofs.FontMap.
Open Scope Z_scope.

Definition not_cache_op (o : op) : bool := match o with OpCacheSize _ => false | _ => true end.
(* the operations that configure the map: everything but cache sizing and lookups *)
Definition config_op (o : op) : bool := match o with OpCacheSize _ | OpResolve _ => false | _ => true end.

Section Cache.
  Variable norm : Z -> Z.
  Variable is_generic : Z -> bool.
  Variable subst : list Z -> Z -> list (Z * (Z * bool)).
  Variable script_lang : Z -> Z.
  Variable empty_fam : Z.
  Local Notation specR := (spec_run norm is_generic subst script_lang empty_fam).
  Local Notation specA := (spec_answer norm is_generic subst script_lang).
  Local Notation astepE := (astep empty_fam).

  Lemma spec_run_filter_cache ops : forall a, specR a ops = specR a (filter not_cache_op ops).
  Proof.
    induction ops as [|o ops IH]; intros a; [reflexivity|].
    destruct o; cbn [filter not_cache_op spec_run]; try apply IH.
    rewrite IH. reflexivity.
  Qed.

  (* the abstract state after a prefix only depends on its configuring operations *)
  Lemma spec_run_app_last pre r : forall a ans,
    specR a (pre ++ [OpResolve r]) = Ok ans ->
    exists front x, ans = front ++ [x] /\ specA (fold_left astepE (filter config_op pre) a) r = Ok x.
  Proof.
    induction pre as [|o pre IH]; intros a ans H.
    - cbn in H. destruct (specA a r) as [x| | |] eqn:E; cbn in H; try discriminate.
      inversion H; subst. exists [], x. split; [reflexivity|exact E].
    - destruct o; cbn [app spec_run filter config_op fold_left] in *;
        try (apply IH in H; exact H).
      destruct (specA a r0) as [x0| | |] eqn:E0; cbn in H; try discriminate.
      destruct (specR a (pre ++ [OpResolve r])) as [y| | |] eqn:E1; cbn in H; try discriminate.
      inversion H; subst. apply IH in E1. destruct E1 as (front & x & -> & Hx).
      exists (x0 :: front), x. split; [reflexivity|exact Hx].
  Qed.
End Cache.

Section CacheRun.
  Variable hash hash' : Z -> list Z -> Z.
  Variable norm : Z -> Z.
  Variable is_generic : Z -> bool.
  Variable subst : list Z -> Z -> list (Z * (Z * bool)).
  Variable script_lang : Z -> Z.
  Variable empty_fam : Z.

  Theorem answers_independent_of_cache_lemma ops ops' fm fm' ans ans' :
    filter not_cache_op ops = filter not_cache_op ops' ->
    run hash norm is_generic subst script_lang empty_fam new_fontmap ops = Ok (fm, ans) ->
    run hash' norm is_generic subst script_lang empty_fam new_fontmap ops' = Ok (fm', ans') ->
    ans = ans'.
  Proof.
    intros F H H'.
    apply resolve_refines_spec_lemma in H. apply resolve_refines_spec_lemma in H'.
    rewrite spec_run_filter_cache in H. rewrite spec_run_filter_cache in H'.
    rewrite F in H. rewrite H in H'. inversion H'. reflexivity.
  Qed.

  Theorem last_answer_history_free_lemma pre pre' r fm fm' ans ans' :
    filter config_op pre = filter config_op pre' ->
    run hash norm is_generic subst script_lang empty_fam new_fontmap (pre ++ [OpResolve r]) = Ok (fm, ans) ->
    run hash' norm is_generic subst script_lang empty_fam new_fontmap (pre' ++ [OpResolve r]) = Ok (fm', ans') ->
    exists x, last ans None = x /\ last ans' None = x /\ ans <> [] /\ ans' <> [].
  Proof.
    intros F H H'.
    apply resolve_refines_spec_lemma in H. apply resolve_refines_spec_lemma in H'.
    apply spec_run_app_last in H. apply spec_run_app_last in H'.
    destruct H as (f1 & x1 & -> & E1). destruct H' as (f2 & x2 & -> & E2).
    rewrite F in E1. rewrite E1 in E2. inversion E2; subst.
    exists x2. rewrite !last_last. repeat split; intros C; apply app_eq_nil in C; destruct C; discriminate.
  Qed.
End CacheRun.
