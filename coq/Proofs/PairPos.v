(* GPOS pair positioning as a window-local rule (C18): the pass pp_pass meets the contract of Spec/LocalEngine.v on
   sorted buffers (it is a forward window rule, Proofs/ForwardRule.v); the loop that follows the code (cursor jumping to
   the second glyph of a pair without second value record) computes the same when no glyph the iterator skips can be the
   first glyph of a pair (Proofs/JumpPass.v). *)
From TV Require Import Model.PairPos Spec.LocalEngine Proofs.LocalEngine Proofs.EngineItem Proofs.KernMachine.
From TV Require Import Proofs.Direction Proofs.ForwardRule Proofs.JumpPass.

(* ---- what a step may change of a glyph: its position and its flags ---- *)
Definition ksame (a b : item) : Prop :=
  rest (ig a) = rest (ig b) /\ gp (ig a) = gp (ig b) /\ up (ig a) = up (ig b) /\ gid (ig a) = gid (ig b).
Definition pk (a b : item) : Prop := keeps a b /\ ksame a b.

Lemma pk_refl a : pk a a.
Proof. split; [apply keeps_refl|repeat split]. Qed.
Lemma pk_trans a b c : pk a b -> pk b c -> pk a c.
Proof.
  intros [K1 (A1 & A2 & A3 & A4)] [K2 (B1 & B2 & B3 & B4)]. split; [eapply keeps_trans; eauto|]. repeat split; congruence.
Qed.
Lemma pk_with_p x p : pk x (with_p x p).
Proof. split; repeat split; auto. Qed.
Lemma pk_flag_item m x : pk x (flag_item m x).
Proof. split; [apply keeps_flag_item|repeat split]. Qed.

Lemma pk_all_refl l : Forall2 pk l l.
Proof. induction l; constructor; auto using pk_refl. Qed.
Lemma pk_all_trans a b c : Forall2 pk a b -> Forall2 pk b c -> Forall2 pk a c.
Proof.
  intros H. revert c. induction H as [|x y a b K _ IH]; intros c H2; inversion H2; subst; constructor.
  - eapply pk_trans; eauto.
  - apply IH. assumption.
Qed.
Lemma pk_all_keeps a b : Forall2 pk a b -> Forall2 keeps a b.
Proof. induction 1 as [|x y a b [K _] _ IH]; constructor; auto. Qed.
Lemma pk_in_r a b y : Forall2 pk a b -> In y b -> exists x, In x a /\ pk x y.
Proof.
  induction 1 as [|u v a b K _ IH]; intros H; [contradiction|]. destruct H as [<-|H].
  - exists u. split; [left; reflexivity|exact K].
  - destruct (IH H) as (x & Hx & Kx). exists x. split; [right; exact Hx|exact Kx].
Qed.

Lemma pk_flag_window m w : Forall2 pk w (flag_window_m m w).
Proof.
  unfold flag_window_m. destruct w as [|a [|b r]]; try apply pk_all_refl.
  set (c := lminz _). generalize (a :: b :: r). intros l. induction l as [|x l IH]; cbn [map]; constructor; [|exact IH].
  destruct (icl x =? c); [apply pk_refl|apply pk_flag_item].
Qed.

Lemma ksame_match P a b : ksame a b -> pp_match P a = pp_match P b /\ pp_first P a = pp_first P b.
Proof.
  intros (E1 & E2 & E3 & E4).
  unfold pp_match, pp_first, match_plain, may_skip, check_prop, is_di_nh, is_subst, is_zwnj, is_zwj, is_format, has_mask, bit_and, igid.
  rewrite E1, E2, E3, E4. split; reflexivity.
Qed.

(* ---- applyGPOSValueRecord without effect ---- *)
Lemma addp_0 a : addp a 0 = a.
Proof. reflexivity. Qed.

Lemma and_neg_false (b : bool) v : b && negb (v =? 0) = false -> b = true -> v = 0.
Proof. intros H ->. cbn in H. apply negb_false_iff in H. apply Z.eqb_eq in H. exact H. Qed.

Lemma apply_vr_noop P f v p : snd (apply_vr P f v p) = false -> fst (apply_vr P f v p) = p.
Proof.
  unfold apply_vr. destruct (f =? 0); [reflexivity|].
  destruct p as [xa0 ya0 xo0 yo0 ac at0]. cbn [xa ya xo yo ach aty].
  set (b1 := fbit f 1). set (b2 := fbit f 2). set (b4 := fbit f 4 && pp_horiz P). set (b8 := fbit f 8 && negb (pp_horiz P)).
  assert (X1 : forall a, b1 && negb (v_xpl v =? 0) = false -> (if b1 then addp a (v_xpl v) else a) = a).
  { intros a H. destruct b1 eqn:B; [|reflexivity]. rewrite (and_neg_false _ _ H eq_refl). reflexivity. }
  assert (X2 : forall a, b2 && negb (v_ypl v =? 0) = false -> (if b2 then addp a (v_ypl v) else a) = a).
  { intros a H. destruct b2 eqn:B; [|reflexivity]. rewrite (and_neg_false _ _ H eq_refl). reflexivity. }
  assert (X4 : forall a, b4 && negb (v_xad v =? 0) = false -> (if b4 then addp a (v_xad v) else a) = a).
  { intros a H. destruct b4 eqn:B; [|reflexivity]. rewrite (and_neg_false _ _ H eq_refl). reflexivity. }
  assert (X8 : forall a, b8 && negb (v_yad v =? 0) = false -> (if b8 then addp a (- v_yad v) else a) = a).
  { intros a H. destruct b8 eqn:B; [|reflexivity]. rewrite (and_neg_false _ _ H eq_refl). reflexivity. }
  destruct ((Z.land f 240 =? 0) || negb (pp_usedev P)); cbn [fst snd]; intros H.
  - apply orb_false_iff in H. destruct H as [H H8]. apply orb_false_iff in H. destruct H as [H H4].
    apply orb_false_iff in H. destruct H as [H1 H2].
    rewrite X1, X2, X4, X8 by assumption. reflexivity.
  - apply orb_false_iff in H. destruct H as [H Hd]. apply orb_false_iff in H. destruct H as [H H8].
    apply orb_false_iff in H. destruct H as [H H4]. apply orb_false_iff in H. destruct H as [H1 H2].
    rewrite Hd. rewrite X1, X2, X4, X8 by assumption. reflexivity.
Qed.

Lemma with_p_id x : with_p x (ip x) = x.
Proof. destruct x. reflexivity. Qed.

(* ---- the pair ---- *)
Lemma pp_pair_pk P x y x' y' ap : pp_pair P x y = Some (x', y', ap) -> pk x x' /\ pk y y'.
Proof.
  unfold pp_pair. destruct (pp_record P (igid x) (igid y)) as [[v1 v2]|]; [|discriminate].
  destruct (apply_vr P (pp_vf1 P) v1 (ip x)) as [p1 a1]. destruct (apply_vr P (pp_vf2 P) v2 (ip y)) as [p2 a2].
  intros H. injection H as <- <- _. split; apply pk_with_p.
Qed.

Lemma pp_pair_noop P x y x' y' : pp_pair P x y = Some (x', y', false) -> x' = x /\ y' = y.
Proof.
  unfold pp_pair. destruct (pp_record P (igid x) (igid y)) as [[v1 v2]|]; [|discriminate].
  pose proof (apply_vr_noop P (pp_vf1 P) v1 (ip x)) as N1. pose proof (apply_vr_noop P (pp_vf2 P) v2 (ip y)) as N2.
  destruct (apply_vr P (pp_vf1 P) v1 (ip x)) as [p1 a1]. destruct (apply_vr P (pp_vf2 P) v2 (ip y)) as [p2 a2].
  cbn [fst snd] in *. intros H. injection H as <- <- H. apply orb_false_iff in H. destruct H as [-> ->].
  rewrite N1, N2 by reflexivity. split; apply with_p_id.
Qed.

Lemma pp_find_some P x rest k x' y' ap : pp_find P x rest = Some (k, x', y', ap) ->
  pp_first P x = true /\ snext (pp_match P) rest = Some k /\ pp_pair P x (nth k rest i0) = Some (x', y', ap).
Proof.
  unfold pp_find. destruct (pp_first P x); cbn [negb]; [|discriminate].
  destruct (snext (pp_match P) rest) as [k0|]; [|discriminate].
  destruct (pp_pair P x (nth k0 rest i0)) as [[[a b] c]|] eqn:E; [|discriminate].
  intros H. injection H as <- <- <- <-. auto.
Qed.

(* locality of the search *)
Lemma pp_find_app P x r1 t2 q : pp_find P x r1 = Some q -> pp_find P x (r1 ++ t2) = Some q.
Proof.
  destruct q as [[[k x'] y'] ap]. intros H. pose proof H as H'. apply pp_find_some in H'. destruct H' as (F & S & E).
  pose proof (snext_some _ _ _ S) as (Lk & _ & _).
  unfold pp_find. rewrite F. cbn [negb]. rewrite (snext_app_some _ r1 t2 k S). rewrite app_nth1 by exact Lk. rewrite E. reflexivity.
Qed.

Lemma pp_find_inside P x r1 t2 k x' y' ap : pp_find P x (r1 ++ t2) = Some (k, x', y', ap) -> (k < length r1)%nat ->
  pp_find P x r1 = Some (k, x', y', ap).
Proof.
  intros H Lk. apply pp_find_some in H. destruct H as (F & S & E).
  destruct (snext_app_inv _ r1 t2 k S) as [[_ S1]|[Lk' _]]; [|lia].
  unfold pp_find. rewrite F. cbn [negb]. rewrite S1. rewrite app_nth1 in E by exact Lk. rewrite E. reflexivity.
Qed.

(* ---- list facts ---- *)
Lemma firstn_S_nth (l : list item) k : (k < length l)%nat -> firstn (S k) l = firstn k l ++ [nth k l i0].
Proof.
  revert l. induction k as [|k IH]; intros [|a l] H; cbn in H; try lia; [reflexivity|].
  cbn [firstn nth app]. f_equal. apply IH. lia.
Qed.

Lemma firstn_1_len (l : list item) : firstn (length (firstn 1 l)) l = firstn 1 l.
Proof. destruct l; reflexivity. Qed.

Lemma firstn_plus (l : list item) a b : firstn (a + b) l = firstn a l ++ firstn b (skipn a l).
Proof.
  revert l. induction a as [|a IH]; intros l; [reflexivity|]. destruct l as [|x l]; [cbn; destruct b; reflexivity|].
  cbn [plus firstn skipn app]. f_equal. apply IH.
Qed.

Lemma skipn_plus (l : list item) a b : skipn (a + b) l = skipn b (skipn a l).
Proof.
  revert l. induction a as [|a IH]; intros l; [reflexivity|]. destruct l as [|x l]; [cbn; destruct b; reflexivity|].
  cbn [plus skipn]. apply IH.
Qed.

Lemma skipn_1_len (l : list item) : skipn (length (firstn 1 l)) l = skipn 1 l.
Proof. destruct l; reflexivity. Qed.

(* ---- the plan is a forward window rule ---- *)
Lemma pp_window_pk x x' y y' rest k ap : pk x x' -> pk y y' ->
  Forall2 pk (x :: firstn k rest ++ [y]) (pp_window x' y' rest k ap).
Proof.
  intros Kx Ky. unfold pp_window.
  assert (B : Forall2 pk (x :: firstn k rest ++ [y]) (x' :: firstn k rest ++ [y'])).
  { constructor; [exact Kx|]. apply Forall2_app; [apply pk_all_refl|constructor; [exact Ky|constructor]]. }
  destruct ap; [|exact B]. eapply pk_all_trans; [exact B|apply pk_flag_window].
Qed.

Lemma pp_plan_pk P x rest m W n : pp_plan P x rest = Some (m, W, n) ->
  (1 <= m <= length rest)%nat /\ Forall2 pk (x :: firstn m rest) W /\ (1 <= n <= S m)%nat.
Proof.
  unfold pp_plan. destruct (pp_find P x rest) as [[[[k x'] y'] ap]|] eqn:E; [|discriminate].
  apply pp_find_some in E. destruct E as (_ & S & E). apply snext_some in S. destruct S as (Lk & _ & _).
  destruct (pp_pair_pk _ _ _ _ _ _ E) as [Kx Ky].
  destruct (pp_vf2 P =? 0).
  - destruct ap; [|discriminate]. intros H. injection H as <- <- <-. split; [lia|]. split; [|lia].
    rewrite (firstn_S_nth rest k Lk). constructor; [exact Kx|].
    apply Forall2_app; [apply pk_all_refl|constructor; [exact Ky|constructor]].
  - cbv zeta. remember (firstn 1 (skipn (S k) rest)) as z eqn:Ez. intros H. injection H as <- <- <-.
    assert (Lz : (length z <= length rest - S k)%nat).
    { rewrite Ez, firstn_length, skipn_length. lia. }
    split; [lia|]. split; [|lia].
    assert (Fz : firstn (length z) (skipn (S k) rest) = z) by (rewrite Ez; apply firstn_1_len).
    change (S (k + length z)) with (S k + length z)%nat.
    rewrite firstn_plus, Fz, (firstn_S_nth rest k Lk).
    change (x :: (firstn k rest ++ [nth k rest i0]) ++ z) with ((x :: firstn k rest ++ [nth k rest i0]) ++ z).
    apply Forall2_app; [apply pp_window_pk; assumption|apply pk_all_refl].
Qed.

Lemma pp_plan_shape P x rest m W n : pp_plan P x rest = Some (m, W, n) ->
  (1 <= m <= length rest)%nat /\ Forall2 keeps (x :: firstn m rest) W /\ (1 <= n <= S m)%nat.
Proof. intros H. destruct (pp_plan_pk _ _ _ _ _ _ H) as (A & B & C). split; [exact A|]. split; [apply pk_all_keeps; exact B|exact C]. Qed.

Lemma pp_plan_inside P x r1 t2 m W n : pp_plan P x (r1 ++ t2) = Some (m, W, n) -> (m <= length r1)%nat ->
  pp_plan P x r1 = Some (m, W, n).
Proof.
  destruct t2 as [|z t2']; [rewrite app_nil_r; auto|].
  unfold pp_plan. destruct (pp_find P x (r1 ++ z :: t2')) as [[[[k x'] y'] ap]|] eqn:E; [|discriminate].
  destruct (pp_vf2 P =? 0) eqn:V2.
  - destruct ap; [|discriminate]. intros H Hm. injection H as <- <- <-.
    rewrite (pp_find_inside _ _ _ _ _ _ _ _ E) by lia.
    rewrite firstn_app. replace (k - length r1)%nat with O by lia. cbn [firstn]. rewrite app_nil_r. reflexivity.
  - cbv zeta. intros H Hm.
    assert (Hm' : (S k + length (firstn 1 (skipn (S k) (r1 ++ z :: t2'))) <= length r1)%nat).
    { injection H as <- _ _. exact Hm. }
    assert (Lk2 : (S k < length r1)%nat).
    { destruct (le_lt_dec (length r1) (S k)) as [Hle|]; [|assumption]. exfalso.
      rewrite skipn_app in Hm'. rewrite (skipn_all2 r1) in Hm' by lia.
      replace (S k - length r1)%nat with O in Hm' by lia. cbn in Hm'. lia. }
    assert (Ez : firstn 1 (skipn (S k) (r1 ++ z :: t2')) = firstn 1 (skipn (S k) r1)).
    { rewrite skipn_app. replace (S k - length r1)%nat with O by lia.
      destruct (skipn (S k) r1) as [|u l] eqn:Es; [|reflexivity].
      apply (f_equal (@length item)) in Es. rewrite skipn_length in Es. cbn in Es. lia. }
    rewrite Ez in H. unfold pp_window in H. rewrite firstn_app in H. replace (k - length r1)%nat with O in H by lia.
    cbn [firstn] in H. rewrite app_nil_r in H.
    rewrite (pp_find_inside _ _ _ _ _ _ _ _ E) by lia. exact H.
Qed.

Lemma pp_plan_none P x r1 t2 : pp_plan P x (r1 ++ t2) = None -> pp_plan P x r1 = None.
Proof.
  unfold pp_plan. destruct (pp_find P x r1) as [[[[k x'] y'] ap]|] eqn:E1; [|reflexivity].
  rewrite (pp_find_app _ _ _ t2 _ E1). destruct (pp_vf2 P =? 0); [|discriminate]. destruct ap; [discriminate|reflexivity].
Qed.

(* ---- the pass is that rule ---- *)
Definition ustep (P : ppparams) (d t : list item) : list item * list item :=
  let '(d', t', _) := pp_step_u P d t in (d', t').

Lemma ustep_fr P d t : ustep P d t = fr_step (pp_plan P) d t.
Proof.
  unfold ustep, pp_step_u, fr_step. destruct t as [|x rest]; [reflexivity|].
  destruct (pp_plan P x rest) as [[[m W] n]|]; reflexivity.
Qed.

Lemma step_ok_ext {C} (side : Z -> Z -> bool) (Inv : list item -> Prop) (p q : @pass item C) :
  (forall L R d t, pstep p L R d t = pstep q L R d t) -> (forall l, psumL p l = psumL q l) -> (forall l, psumR p l = psumR q l) ->
  step_ok icl iutb side Inv q -> step_ok icl iutb side Inv p.
Proof.
  intros E EL ER [H1 H2 H3 H4 H5 H6]. constructor.
  - intros. rewrite E. auto.
  - intros. rewrite E. auto.
  - intros L R d t x Hne HI Hx. rewrite E in Hx. eauto.
  - intros. rewrite E. auto.
  - intros L R R' d t1 t2 c Hne HI HI1 HC HS. cbv zeta. rewrite !E. rewrite !ER in HS. apply H5; assumption.
  - intros L L' R d1 d2 t c Hne HI HI2 HC HS. cbv zeta. rewrite !E. rewrite !EL in HS. apply H6; assumption.
Qed.

(* for either buffer direction *)
Theorem pp_step_ok_dir side srt (D : dir_ok side srt) P : step_ok icl iutb side srt (pp_pass P).
Proof.
  apply (step_ok_ext side srt (pp_pass P) (fr_pass (pp_plan P))).
  - intros L R d t. cbn [pstep pp_pass fr_pass]. apply ustep_fr.
  - reflexivity.
  - reflexivity.
  - apply fr_step_ok_dir; [apply pp_plan_shape|apply pp_plan_inside|apply pp_plan_none|exact D].
Qed.

Theorem pp_step_ok P : step_ok icl iutb sideL sorted (pp_pass P).
Proof. exact (pp_step_ok_dir sideL sorted dirL P). Qed.

(* under the invariant of the engine pieces *)
Theorem pp_step_ok_mb_dir side srt (D : dir_ok side srt) P :
  step_ok icl iutb side (fun l => srt l /\ Forall (fun x => is_multiplied x = false) l) (pp_pass P).
Proof.
  apply (step_ok_ext side _ (pp_pass P) (fr_pass (pp_plan P))).
  - intros L R d t. cbn [pstep pp_pass fr_pass]. apply ustep_fr.
  - reflexivity.
  - reflexivity.
  - apply (fr_step_ok_gp_dir (pp_plan P) (pp_plan_shape P) (pp_plan_inside P) (pp_plan_none P) side srt D
             (fun x => is_multiplied x = false)).
    intros a b E H. unfold is_multiplied in *. rewrite E. exact H.
Qed.

Theorem pp_step_ok_mb P :
  step_ok icl iutb sideL (fun l => sorted l /\ Forall (fun x => is_multiplied x = false) l) (pp_pass P).
Proof. exact (pp_step_ok_mb_dir sideL sorted dirL P). Qed.

(* ---- the loop that follows the code computes what the pass computes ---- *)

(* z cannot be the first glyph of a pair when the iterator skips it *)
Definition plok (P : ppparams) (z : item) : Prop := pp_match P z = MSkip -> pp_first P z = false.
Definition pp_left_okb (P : ppparams) (l : list item) : bool :=
  forallb (fun z => match pp_match P z with MSkip => negb (pp_first P z) | _ => true end) l.

Lemma pp_left_okb_plok P l : pp_left_okb P l = true -> Forall (plok P) l.
Proof.
  unfold pp_left_okb. rewrite forallb_forall. intros H. apply Forall_forall. intros z Hz Hs.
  specialize (H z Hz). rewrite Hs in H. apply negb_true_iff in H. exact H.
Qed.

Lemma plok_pk P a b : pk a b -> plok P a -> plok P b.
Proof. intros [_ K] H. destruct (ksame_match P a b K) as [E1 E2]. unfold plok. rewrite <- E1, <- E2. exact H. Qed.

Definition fstep (P : ppparams) (d t : list item) : list item * list item :=
  let '(d', t', _) := pp_step_f P d t in (d', t').
Definition pinert (P : ppparams) (z : item) : Prop := pp_match P z = MSkip /\ pp_first P z = false.

Lemma ustep_progress P d t : t <> [] -> (length (snd (ustep P d t)) < length t)%nat.
Proof. intros H. exact (so_progress _ _ _ _ _ (pp_step_ok P) [] [] d t H). Qed.

Lemma ustep_inert P z d t : pinert P z -> ustep P d (z :: t) = (d ++ [z], t).
Proof.
  intros [_ F]. unfold ustep, pp_step_u, pp_plan, pp_find. rewrite F. reflexivity.
Qed.

Lemma wflag_pk c z : pk z (wflag c z).
Proof. unfold wflag. destruct (icl z =? c); [apply pk_refl|apply pk_flag_item]. Qed.

Lemma window_shape (a : item) (mid : list item) (b : item) : exists c,
  flag_window (a :: mid ++ [b]) = wflag c a :: map (wflag c) mid ++ [wflag c b].
Proof.
  unfold flag_window, flag_window_m. destruct mid as [|z l]; cbn [app].
  - eexists. cbn [map]. reflexivity.
  - eexists. cbn [map]. rewrite map_app. reflexivity.
Qed.

Lemma pp_rel P d t : t <> [] -> Forall (plok P) t ->
  exists du sk tf, ustep P d t = (du, sk ++ tf) /\ fstep P d t = (du ++ sk, tf) /\ Forall (pinert P) sk /\ Forall (plok P) (sk ++ tf).
Proof.
  destruct t as [|x rest]; [contradiction|]. intros _ HQ. inversion HQ as [|? ? Lx Lr]; subst.
  unfold ustep, fstep, pp_step_u, pp_step_f, pp_plan.
  destruct (pp_find P x rest) as [[[[k x'] y'] ap]|] eqn:E.
  2:{ exists (d ++ [x]), [], rest. cbn [app]. rewrite app_nil_r. repeat split; [constructor|exact Lr]. }
  pose proof E as E'. apply pp_find_some in E'. destruct E' as (_ & S & Ep). apply snext_some in S. destruct S as (Lk & _ & Sk).
  destruct (pp_pair_pk _ _ _ _ _ _ Ep) as [Kx Ky].
  assert (Lmid : Forall (pinert P) (firstn k rest)).
  { apply Forall_forall. intros z Hz. rewrite Forall_forall in Sk, Lr. split; [apply Sk; exact Hz|].
    apply Lr; [eapply in_firstn; exact Hz|apply Sk; exact Hz]. }
  assert (Ltail : Forall (plok P) (skipn (S k) rest)).
  { apply Forall_forall. intros z Hz. rewrite Forall_forall in Lr. apply Lr. eapply in_skipn. exact Hz. }
  assert (Ly : plok P (nth k rest i0)) by (rewrite Forall_forall in Lr; apply Lr; apply nth_In; exact Lk).
  destruct (pp_vf2 P =? 0) eqn:V2.
  - destruct ap.
    + (* the pair is applied: the code jumps to the second glyph over the flagged skipped glyphs *)
      unfold pp_window. destruct (window_shape x' (firstn k rest) y') as (c & Wc). rewrite Wc.
      set (a := wflag c x'). set (mid := map (wflag c) (firstn k rest)). set (b := wflag c y').
      assert (RL : removelast (a :: mid ++ [b]) = a :: mid).
      { change (a :: mid ++ [b]) with ((a :: mid) ++ [b]). apply removelast_last. }
      assert (LA : last (a :: mid ++ [b]) i0 = b).
      { change (a :: mid ++ [b]) with ((a :: mid) ++ [b]). apply last_last. }
      rewrite RL, LA. cbn [firstn skipn].
      exists (d ++ [a]), mid, (b :: skipn (S k) rest). split; [rewrite <- app_assoc; reflexivity|].
      split; [rewrite <- app_assoc; reflexivity|].
      assert (Hmid : Forall (pinert P) mid).
      { unfold mid. apply Forall_forall. intros z Hz. apply in_map_iff in Hz. destruct Hz as (z0 & <- & Hz0).
        rewrite Forall_forall in Lmid. destruct (Lmid z0 Hz0) as [M F].
        destruct (ksame_match P z0 (wflag c z0) (proj2 (wflag_pk c z0))) as [E1 E2]. split; congruence. }
      split; [exact Hmid|]. apply Forall_app. split.
      * apply Forall_forall. intros z Hz. rewrite Forall_forall in Hmid. destruct (Hmid z Hz) as [_ F]. intros _. exact F.
      * constructor; [|exact Ltail]. unfold b. eapply plok_pk; [apply wflag_pk|]. eapply plok_pk; [exact Ky|exact Ly].
    + (* a pair without effect: the code jumps over the skipped glyphs *)
      destruct (pp_pair_noop _ _ _ _ _ Ep) as [-> ->]. unfold pp_window.
      assert (RL : removelast (x :: firstn k rest ++ [nth k rest i0]) = x :: firstn k rest).
      { change (x :: firstn k rest ++ [nth k rest i0]) with ((x :: firstn k rest) ++ [nth k rest i0]). apply removelast_last. }
      assert (LA : last (x :: firstn k rest ++ [nth k rest i0]) i0 = nth k rest i0).
      { change (x :: firstn k rest ++ [nth k rest i0]) with ((x :: firstn k rest) ++ [nth k rest i0]). apply last_last. }
      rewrite RL, LA.
      exists (d ++ [x]), (firstn k rest), (nth k rest i0 :: skipn (S k) rest).
      rewrite <- (split_nth rest k Lk). split; [reflexivity|]. split; [rewrite <- app_assoc; reflexivity|].
      split; [exact Lmid|exact Lr].
  - (* second value record: the code and the pass do the same *)
    set (w := pp_window2 x' y' rest k ap).
    exists (d ++ firstn (S (S k)) w), [], (skipn (S (S k)) w ++ skipn (S (S k)) rest). cbn [app]. rewrite app_nil_r.
    assert (Es : skipn (S k + length (firstn 1 (skipn (S k) rest))) rest = skipn (S (S k)) rest).
    { rewrite skipn_plus, skipn_1_len. rewrite <- skipn_plus. f_equal. lia. }
    split; [unfold w, pp_window2; rewrite Es; reflexivity|]. split; [reflexivity|]. split; [constructor|].
    apply Forall_app. split.
    + (* the glyphs of the flagged window keep what the first-glyph test reads *)
      assert (Kw : Forall2 pk (x :: firstn (S k + length (firstn 1 (skipn (S k) rest))) rest) w).
      { destruct (pp_plan_pk P x rest (S k + length (firstn 1 (skipn (S k) rest)))%nat
                    (pp_window x' y' rest k ap ++ firstn 1 (skipn (S k) rest)) (S (S k))) as (_ & K & _).
        - unfold pp_plan. rewrite E, V2. reflexivity.
        - eapply pk_all_trans; [exact K|]. unfold w, pp_window2. apply pk_flag_window. }
      apply Forall_forall. intros z Hz. apply in_skipn in Hz. destruct (pk_in_r _ _ z Kw Hz) as (z0 & Hz0 & Kz).
      eapply plok_pk; [exact Kz|]. destruct Hz0 as [<-|Hz0]; [exact Lx|].
      rewrite Forall_forall in Lr. apply Lr. eapply in_firstn. exact Hz0.
    + apply Forall_forall. intros z Hz. rewrite Forall_forall in Lr. apply Lr. eapply in_skipn. exact Hz.
Qed.

(* the loops *)
Lemma pp_loop_zloop step : forall f d t rec,
  fst (pp_loop step f d t rec) = zloop (fun d t => let '(d', t', _) := step d t in (d', t')) f d t.
Proof.
  induction f as [|f IH]; intros d t rec; [reflexivity|]. destruct t as [|x rest]; [reflexivity|].
  cbn [pp_loop zloop]. destruct (step d (x :: rest)) as [[d' t'] r]. cbn [fst snd]. apply IH.
Qed.

Lemma zloop_ploop P L R : forall f d t, zloop (ustep P) f d t = ploop (pp_pass P) f L R d t.
Proof. induction f as [|f IH]; intros d t; [reflexivity|]. destruct t as [|x rest]; [reflexivity|]. cbn [zloop ploop]. apply IH. Qed.

(* one PairPos lookup as the code runs it IS one run of the pass *)
Theorem pp_lookup_is_pass P L R l rec : (pp_mask P =? 0) = false -> Forall (plok P) l ->
  fst (pp_lookup (l, rec) P) = prun (pp_pass P) L R l.
Proof.
  intros M HL. unfold pp_lookup, prun. rewrite M. rewrite pp_loop_zloop.
  change (fun d t => let '(d', t', _) := pp_step_f P d t in (d', t')) with (fstep P).
  rewrite <- (zloop_ploop P L R).
  apply (jump_eq (ustep P) (fstep P) (pinert P) (Forall (plok P))) with (n := length l); auto.
  - apply ustep_progress.
  - intros z d t Hz. apply ustep_inert. exact Hz.
  - intros z t H. inversion H. assumption.
  - intros d t Hne HQ. apply pp_rel; assumption.
Qed.
