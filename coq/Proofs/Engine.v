(* The cluster bookkeeping glue of the shaping engine (Model/Engine.v) preserves the C01 invariant WF, for ALL buffers and
   ALL Unicode data / fonts / shapers (the Section variables of the model are universally quantified here). *)
From TV Require Import Model.Buffer Spec.Buffer Proofs.ShapeGlue Proofs.Buffer Proofs.BufferOps Proofs.BufferNewOps Proofs.BufferAll.
From TV Require Import Model.Engine.

(* the invariant at the level of the engine buffer *)
Definition EWF (lo hi : Z) (e : ebuf) : Prop :=
  WF lo hi (eb e) = true /\ (level (eb e) =? 2) = false /\ have_out (eb e) = false.

Lemma lift_ok e r b : r = Ok b -> lift e r = Ok (with_eb e b).
Proof. intros ->. reflexivity. Qed.

Lemma eb_or_scratch e f : eb (or_scratch e f) = eb e.
Proof. destruct f as [[a d] c]. reflexivity. Qed.

(* an edit of Info that keeps every cluster value *)
Lemma WF_edit_info lo hi b l : (level b =? 2) = false -> WF lo hi b = true -> have_out b = false -> cls l = cls (info b) ->
  WF lo hi (with_info b l) = true.
Proof.
  intros Hl Hw Hh Ec. apply (WF_same_info lo hi b); cbn [level have_out idx info with_info]; auto.
  exact (cls_eq_zlen _ _ Ec).
Qed.

Lemma swap_from_start b : have_out b = true -> idx b = 0 ->
  swap_buffers b = Ok (mkB (out b ++ info b) (info b) 0 false (pos_len b) (pos_cap b) (level b) (fl_concat b) (fl_tatweel b) (has_gf b)).
Proof.
  intros Hh Hi. unfold swap_buffers, next_glyphs. rewrite Hh, Hi. rewrite Z.sub_0_r, Z.add_0_l, Z.leb_refl.
  pose proof (zlen_nonneg (info b)) as Hn. destruct (Z.leb_spec 0 (zlen (info b))); [|lia]. cbn [Z.leb andb bind].
  rewrite slice_whole, Z.leb_refl. cbn [bind].
  cbn [out info idx have_out pos_len pos_cap level fl_concat fl_tatweel has_gf with_idx with_out]. reflexivity.
Qed.

Section EngineProofs.
  Variable ugc : Z -> Z.
  Variable udi : Z -> bool.
  Variable umcc : Z -> Z.
  Variable uextpict : Z -> bool.
  Variable uspace : Z -> Z.
  Variable nominal : Z -> Z * bool.
  Variable variation : Z -> Z -> Z * bool.
  Variable sdecomp : Z -> option (Z * Z).
  Variable scomp : Z -> Z -> option Z.
  Variable smode : Z.
  Variable sreorder : Z.
  Variable is_mcm : Z -> bool.
  Variable dfuel : nat.

  (* ---------- setUnicodeProps: no cluster value, no glyph, no cursor changes ---------- *)

  Lemma sup_loop_cls : forall n l first prev fl, (length l <= n)%nat ->
    cls (fst (sup_loop ugc udi umcc uextpict first prev l fl)) = cls l.
  Proof.
    induction n as [|n IH]; intros l first prev fl Hn.
    - destruct l; [reflexivity|cbn in Hn; lia].
    - destruct l as [|g r]; [reflexivity|]. cbn [length] in Hn. cbn [sup_loop].
      destruct (compute_props ugc udi umcc (cp g)) as [p f].
      assert (R : forall first' prev' fl' g', cl g' = cl g ->
                cls (fst (let '(t, fl2) := sup_loop ugc udi umcc uextpict first' prev' r fl' in (g' :: t, fl2))) = cls (g :: r)).
      { intros first' prev' fl' g' Eg. pose proof (IH r first' prev' fl' ltac:(lia)) as H.
        destruct (sup_loop ugc udi umcc uextpict first' prev' r fl') as [t fl2]. cbn [fst] in *. cbn [cls map]. rewrite Eg. f_equal. exact H. }
      destruct (_ && in_rng 127995 127999 (cp g)); [apply R; reflexivity|].
      destruct (negb first && is_ri (cp g)).
      { destruct (_ && _); apply R; reflexivity. }
      destruct (is_zwj _).
      { destruct r as [|h r']; [reflexivity|].
        destruct (uextpict (cp h)); [|apply R; reflexivity].
        destruct (compute_props ugc udi umcc (cp h)) as [p' f'].
        cbn [length] in Hn. pose proof (IH r' false (set_cont (set_up h p')) (let '(a1, a2, a3) := (let '(a1, a2, a3) := fl in let '(b1, b2, b3) := f in (a1 || b1, a2 || b2, a3 || b3)) in let '(b1, b2, b3) := f' in (a1 || b1, a2 || b2, a3 || b3)) ltac:(lia)) as H.
        destruct (sup_loop ugc udi umcc uextpict false _ r' _) as [t fl2]. cbn [fst] in *. cbn [cls map]. f_equal. f_equal. exact H. }
      destruct (_ || _); apply R; reflexivity.
  Qed.

  Lemma set_unicode_props_spec e :
    let e' := set_unicode_props ugc udi umcc uextpict e in
    cls (info (eb e')) = cls (info (eb e)) /\ out (eb e') = out (eb e) /\ idx (eb e') = idx (eb e)
    /\ have_out (eb e') = have_out (eb e) /\ level (eb e') = level (eb e) /\ dir e' = dir e.
  Proof.
    unfold set_unicode_props.
    pose proof (sup_loop_cls (length (info (eb e))) (info (eb e)) true g0 (false, false, false) (le_n _)) as H.
    destruct (sup_loop ugc udi umcc uextpict true g0 (info (eb e)) (false, false, false)) as [l f]. cbn [fst] in H.
    cbv zeta. rewrite !eb_or_scratch. destruct f as [[a d] c]. cbn [or_scratch eb with_eb info with_info out idx have_out level dir].
    repeat split; auto.
  Qed.

  Lemma set_unicode_props_wf lo hi e : EWF lo hi e -> EWF lo hi (set_unicode_props ugc udi umcc uextpict e).
  Proof.
    intros (Hw & Hl & Hh). destruct (set_unicode_props_spec e) as (Ec & Eo & Ei & Ehv & Elv & _).
    set (e' := set_unicode_props ugc udi umcc uextpict e) in *.
    split; [|split; congruence].
    apply (WF_same_info lo hi (eb e)); auto; try congruence. exact (cls_eq_zlen _ _ Ec).
  Qed.

  (* ---------- insertDottedCircle ---------- *)

  Lemma insert_dotted_circle_wf lo hi e : EWF lo hi e -> idx (eb e) = 0 ->
    exists e', insert_dotted_circle ugc udi umcc nominal e = Ok e' /\ EWF lo hi e' /\ idx (eb e') = 0 /\ dir e' = dir e
      /\ level (eb e') = level (eb e).
  Proof.
    intros (Hw & Hl & Hh) Hi. unfold insert_dotted_circle.
    destruct (f_no_dc e); [exists e; repeat split; auto|].
    destruct (_ || _ || (zlen (info (eb e)) =? 0) || _) eqn:Hc; [exists e; repeat split; auto|].
    destruct (negb (snd (nominal 9676))); [exists e; repeat split; auto|].
    apply orb_false_elim in Hc. destruct Hc as [Hc _]. apply orb_false_elim in Hc. destruct Hc as [_ Hz].
    apply Z.eqb_neq in Hz. pose proof (zlen_nonneg (info (eb e))) as Hn.
    destruct (compute_props ugc udi umcc 9676) as [p f].
    unfold clear_output. cbn [bind]. cbn [info with_idx with_out with_have].
    rewrite getg_ok by lia. cbn [bind].
    rewrite swap_from_start by reflexivity. cbn [bind].
    eexists. split; [reflexivity|]. unfold EWF.
    destruct f as [[fa fd] fc]. cbn [or_scratch with_eb dir eb level have_out idx out info with_idx with_out with_have pos_len pos_cap fl_concat fl_tatweel has_gf].
    cbn [app].
    destruct (WF_parts lo hi (eb e) Hl Hw) as (_ & _ & Hm & Hr). rewrite (bseq_nohave _ Hh) in Hm, Hr.
    destruct (info (eb e)) as [|g r] eqn:Ei; [rewrite zlen_nil in Hz; lia|].
    change (nth (Z.to_nat 0) (g :: r) g0) with g.
    repeat split; auto.
    apply WF_intro; cbn [level idx info have_out out]; auto; try lia.
    - unfold bseq. cbn [have_out info]. cbn [cls map cl]. apply (monotone_dup [] (cl g) (cls r)). exact Hm.
    - unfold bseq. cbn [have_out info]. cbn [cls map cl]. apply (in_range_dup lo hi [] (cl g) (cls r)). exact Hr.
  Qed.

  (* ---------- formClusters ---------- *)

  Lemma run_while_bound {A} (p : A -> bool) l : 0 <= run_while p l <= zlen l.
  Proof.
    induction l as [|x l IH]; cbn [run_while]; unfold zlen in *; cbn [length]; [lia|].
    destruct (p x); lia.
  Qed.

  Lemma grapheme_end_bound inf start : 0 <= start -> start < zlen inf -> start < grapheme_end inf start <= zlen inf.
  Proof.
    intros H0 H1. unfold grapheme_end. pose proof (run_while_bound is_cont (zskipn (start + 1) inf)) as B.
    rewrite zlen_zskipn in B by lia. lia.
  Qed.

  (* a step function that keeps WF, the length and the stable fields, given a range inside the buffer *)
  Definition range_step (lo hi : Z) (f : buffer -> Z -> Z -> res buffer) : Prop :=
    forall b s e, (level b =? 2) = false -> WF lo hi b = true -> have_out b = false -> 0 <= s -> s <= e -> e <= zlen (info b) ->
      exists b', f b s e = Ok b' /\ stable lo hi b b' /\ idx b' = idx b.

  Lemma merge_range_step lo hi : range_step lo hi merge_clusters.
  Proof.
    intros b s e Hl Hw Hh H0 H1 H2.
    destruct (merge_full lo hi b s e Hl Hw) as (b' & E & W & L & I & Hh' & Z1 & _).
    { cbn [pre]. rewrite Hh. cbn [negb orb]. rewrite andb_true_r.
      apply andb_true_intro. split; [apply andb_true_intro; split|]; apply Z.leb_le; lia. }
    exists b'. split; [exact E|]. split; [|exact I]. repeat split; congruence.
  Qed.

  Lemma utb_range_step lo hi : range_step lo hi unsafe_to_break.
  Proof.
    intros b s e Hl Hw Hh H0 H1 H2. destruct (WF_parts lo hi b Hl Hw) as (I0 & I1 & _).
    assert (Hp : pre (OUnsafeBreak s e) b = true) by (cbn [pre]; apply Z.leb_le; exact H0).
    pose proof (flag_ops_same_cl (OUnsafeBreak s e) b Hl I0 I1 Hp) as FS. cbn [run_op] in FS.
    destruct FS as (b' & E & SC).
    exists b'. split; [exact E|]. pose proof SC as (S1 & S2 & S3 & S4 & S5).
    split; [|congruence]. repeat split; try congruence.
    - apply (WF_same_cl lo hi b b' Hl Hw SC).
    - apply cls_eq_zlen. exact S1.
  Qed.

  Lemma fc_loop_ok lo hi f b0 : range_step lo hi f -> (level b0 =? 2) = false ->
    forall fuel b start, stable lo hi b0 b -> 0 <= start -> start <= zlen (info b0) -> (Z.to_nat (zlen (info b0) - start) <= fuel)%nat ->
      exists b', fc_loop fuel f (zlen (info b0)) b start = Ok b' /\ stable lo hi b0 b'.
  Proof.
    intros Hf Hl0. induction fuel as [|k IH]; intros b start Sb H0 H1 Hfu.
    - cbn [fc_loop]. destruct (Z.leb_spec (zlen (info b0)) start); [|lia]. exists b. auto.
    - cbn [fc_loop]. destruct (Z.leb_spec (zlen (info b0)) start); [exists b; auto|].
      destruct Sb as (Hw & Hh & Elv & El).
      assert (Hlb : (level b =? 2) = false) by (rewrite Elv; exact Hl0).
      pose proof (grapheme_end_bound (info b) start H0 ltac:(lia)) as B.
      destruct (Hf b start (grapheme_end (info b) start) Hlb Hw Hh H0 ltac:(lia) ltac:(lia)) as (b1 & E1 & (W1 & Hh1 & L1 & Z1) & I1).
      rewrite E1. cbn [bind].
      apply IH; try lia.
      + repeat split; congruence.
  Qed.

  Lemma form_clusters_wf lo hi e : EWF lo hi e ->
    exists e', form_clusters e = Ok e' /\ EWF lo hi e' /\ idx (eb e') = idx (eb e) /\ dir e' = dir e /\ level (eb e') = level (eb e).
  Proof.
    intros (Hw & Hl & Hh). unfold form_clusters. destruct (negb (sf_nonascii e)); [exists e; repeat split; auto|].
    pose proof (zlen_nonneg (info (eb e))) as Hn.
    assert (Hstep : range_step lo hi (if level (eb e) =? 0 then merge_clusters else unsafe_to_break))
      by (destruct (level (eb e) =? 0); [apply merge_range_step|apply utb_range_step]).
    destruct (fc_loop_ok lo hi _ (eb e) Hstep Hl (Z.to_nat (zlen (info (eb e)))) (eb e) 0) as (b' & E & W' & Hh' & L' & Z');
      try lia; [apply stable_refl; auto|].
    rewrite E. cbn [lift bind]. eexists. split; [reflexivity|]. unfold EWF. cbn [eb with_eb dir].
    assert (Hidx : idx b' = idx (eb e)).
    { (* the cursor: every step keeps it *)
      clear W' Hh' L' Z'. revert E. generalize (Z.to_nat (zlen (info (eb e)))). intros fuel.
      assert (G : forall fuel b start, stable lo hi (eb e) b -> idx b = idx (eb e) -> 0 <= start ->
                  forall b'', fc_loop fuel (if level (eb e) =? 0 then merge_clusters else unsafe_to_break) (zlen (info (eb e))) b start = Ok b'' -> idx b'' = idx (eb e)).
      { clear fuel. induction fuel as [|k IH]; intros b start Sb Ib H0 b'' E''; cbn [fc_loop] in E''.
        - destruct (zlen (info (eb e)) <=? start); [inversion E''; subst; exact Ib|discriminate].
        - destruct (Z.leb_spec (zlen (info (eb e))) start); [inversion E''; subst; exact Ib|].
          destruct Sb as (Hwb & Hhb & Elb & Zb).
          assert (Hlb : (level b =? 2) = false) by (rewrite Elb; exact Hl).
          pose proof (grapheme_end_bound (info b) start H0 ltac:(lia)) as B.
          destruct (Hstep b start (grapheme_end (info b) start) Hlb Hwb Hhb H0 ltac:(lia) ltac:(lia)) as (b1 & E1 & (W1 & Hh1 & L1 & Z1) & I1).
          rewrite E1 in E''. cbn [bind] in E''. apply (IH b1 (grapheme_end (info b) start)); auto; try lia; try congruence.
          repeat split; congruence. }
      intros E. apply (G fuel (eb e) 0); auto; try lia. apply stable_refl; auto. }
    split; [split; [exact W'|split; [rewrite L'; exact Hl|exact Hh']]|].
    split; [exact Hidx|]. split; [reflexivity|exact L'].
  Qed.

  (* ---------- ensureNativeDirection ---------- *)

  Lemma ensure_native_direction_wf lo hi horiz e : EWF lo hi e ->
    (level (eb e) =? 1) || groups_uniform (info (eb e)) = true ->
    exists e', ensure_native_direction horiz e = Ok e' /\ EWF lo hi e' /\ level (eb e') = level (eb e) /\ idx (eb e') = idx (eb e).
  Proof.
    intros (Hw & Hl & Hh) Hg. unfold ensure_native_direction. cbv zeta.
    match goal with |- context [if ?c then _ else Ok e] => destruct c eqn:Hc end; [|exists e; repeat split; auto].
    destruct (reverse_graphemes_wf lo hi (level (eb e) =? 1) (eb e) Hl Hw) as (b' & E & W' & L').
    { cbn [pre]. rewrite Hh. cbn [negb andb]. exact Hg. }
    rewrite E. cbn [bind]. eexists. split; [reflexivity|]. unfold EWF. cbn [eb with_eb with_dir].
    assert (Hx : have_out b' = false /\ idx b' = idx (eb e)).
    { unfold reverse_graphemes in E. destruct (level (eb e) =? 1).
      - (* merging variant: every step keeps have_out and idx *)
        unfold reverse_groups in E. destruct (Z.eqb_spec (zlen (info (eb e))) 0) as [Z0|NZ]; [inversion E; subst; auto|].
        clear W' L' Hg Hc.
        (* replay with the stable invariant extended by idx *)
        pose proof (zlen_nonneg (info (eb e))) as Hn. set (n := zlen (info (eb e))) in *.
        destruct (fold_inv_zseq (rgg_step (fun _ g2 => is_cont g2) true)
                    (fun j (st : buffer * Z) => (stable lo hi (eb e) (fst st) /\ idx (fst st) = idx (eb e)) /\ 0 <= snd st <= j + 1) (fun i => i + 1) (n - 1) (eb e, 0)) as ([b1 st] & E1 & (S1 & I1) & R1); try lia.
        + intros j [bb ss] Hj ((Sb & Ib) & Rb). cbn [fst snd] in *.
          destruct Sb as (Hwb & Hhb & Elb & Zb).
          assert (Hlb : (level bb =? 2) = false) by (rewrite Elb; exact Hl).
          unfold rgg_step. cbn [bind]. destruct (is_cont _).
          { eexists. split; [reflexivity|]. cbn [fst snd]. repeat split; auto; lia. }
          destruct (merge_full lo hi bb ss (j + 1) Hlb Hwb) as (b2 & E2 & W2 & L2 & I2 & Hh2 & Z2 & _ & _ & _ & U2).
          { cbn [pre]. rewrite Hhb. cbn [negb orb]. rewrite andb_true_r.
            apply andb_true_intro. split; [apply andb_true_intro; split|]; apply Z.leb_le; lia. }
          rewrite E2. cbn [bind].
          destruct (reverse_range_const b2 ss (j + 1) (cl (nth (Z.to_nat ss) (info b2) g0))) as (b3 & E3 & Ec3 & El3 & _ & Ei3 & Eh3 & Elv3); try lia; [exact U2|].
          rewrite E3. cbn [bind]. eexists. split; [reflexivity|]. cbn [fst snd].
          assert (Hlb2 : (level b2 =? 2) = false) by (rewrite L2; exact Hlb).
          repeat split; try congruence; try lia.
          apply (WF_same_info lo hi b2); auto; congruence.
        + cbn [fst snd]. repeat split; auto; lia.
        + rewrite E1 in E. cbn [bind fst snd] in *. destruct S1 as (W1 & Hh1 & L1 & Z1).
          assert (Hlb1 : (level b1 =? 2) = false) by (rewrite L1; exact Hl).
          destruct (merge_full lo hi b1 st n Hlb1 W1) as (b2 & E2 & W2 & L2 & I2 & Hh2 & Z2 & _ & _ & _ & U2).
          { cbn [pre]. rewrite Hh1. cbn [negb orb]. rewrite andb_true_r.
            apply andb_true_intro. split; [apply andb_true_intro; split|]; apply Z.leb_le; lia. }
          rewrite E2 in E. cbn [bind] in E.
          destruct (reverse_range_const b2 st n (cl (nth (Z.to_nat st) (info b2) g0))) as (b3 & E3 & Ec3 & El3 & _ & Ei3 & Eh3 & Elv3); try lia; [exact U2|].
          rewrite E3 in E. cbn [bind] in E.
          destruct (reverse_whole b3) as (b4 & E4 & _ & _ & _ & Ei4 & Eh4 & _).
          rewrite E4 in E. inversion E; subst b4. split; congruence.
      - cbn [orb] in Hg.
        destruct (reverse_groups_nomerge_spec is_cont (eb e)) as (b'' & E'' & _ & _ & _ & Ei & Eh & _).
        { intros i H0 H1 Hc'. rewrite !nth_cls. apply groups_uniform_nth; auto. }
        rewrite E'' in E. inversion E; subst b''. split; congruence. }
    destruct Hx as [Hx1 Hx2]. repeat split; auto. rewrite L'. exact Hl.
  Qed.

  (* ---------- ensureMonotoneClusters: a sequence of mergeClusters calls inside the buffer ---------- *)

  Lemma emc_back_bound asc inf ci k : 0 <= emc_back asc inf ci k <= Z.of_nat k.
  Proof.
    induction k as [|k IH]; cbn [emc_back]; [lia|].
    destruct (_ || _); lia.
  Qed.

  Lemma ensure_monotone_clusters_wf lo hi asc b : (level b =? 2) = false -> WF lo hi b = true -> have_out b = false ->
    exists b', ensure_monotone_clusters asc b = Ok b' /\ stable lo hi b b'.
  Proof.
    intros Hl Hw Hh. unfold ensure_monotone_clusters. rewrite Hl. cbn [orb].
    destruct (Z.ltb_spec (zlen (info b)) 2); [exists b; split; [reflexivity|apply stable_refl; auto]|].
    destruct (fold_inv_zseq (emc_step asc) (fun _ x => stable lo hi b x) (fun i => i + 1) (zlen (info b) - 1) b) as (b' & E & S'); try lia.
    - intros j st Hj (Hws & Hhs & Ls & Zs). unfold emc_step. cbn [bind].
      destruct (_ || _); [exists st; split; [reflexivity|repeat split; auto]|].
      assert (Hls : (level st =? 2) = false) by (rewrite Ls; exact Hl).
      pose proof (emc_back_bound asc (info st) (cl (ginfo st (j + 1))) (Z.to_nat (j + 1 - 1))) as B.
      destruct (merge_range_step lo hi st (emc_back asc (info st) (cl (ginfo st (j + 1))) (Z.to_nat (j + 1 - 1))) (j + 1 + 1) Hls Hws Hhs)
        as (b1 & E1 & (W1 & Hh1 & L1 & Z1) & _); try lia.
      exists b1. split; [exact E1|]. repeat split; congruence.
    - apply stable_refl; auto.
    - exists b'. split; [exact E|exact S'].
  Qed.

  (* ---------- the stages of shape() before normalisation, composed ---------- *)

  Lemma pre_normalize_wf lo hi horiz e : EWF lo hi e -> idx (eb e) = 0 ->
    (* MonotoneCharacters, or (MonotoneGraphemes) formClusters leaves every continuation glyph in the cluster of its base *)
    (level (eb e) = 1 \/ forall e2 e3, level (eb e2) = level (eb e) -> form_clusters e2 = Ok e3 -> groups_uniform (info (eb e3)) = true) ->
    exists e', pre_normalize ugc udi umcc uextpict nominal horiz e = Ok e' /\ EWF lo hi e' /\ idx (eb e') = 0 /\ level (eb e') = level (eb e).
  Proof.
    intros He Hi Hlv. unfold pre_normalize. cbv zeta.
    pose proof (set_unicode_props_wf lo hi e He) as H1.
    destruct (set_unicode_props_spec e) as (_ & _ & I1 & _ & L1 & _).
    set (e1 := set_unicode_props ugc udi umcc uextpict e) in *.
    destruct (insert_dotted_circle_wf lo hi e1 H1 ltac:(congruence)) as (e2 & E2 & H2 & I2 & _ & L2).
    rewrite E2. cbn [bind].
    destruct (form_clusters_wf lo hi e2 H2) as (e3 & E3 & H3 & I3 & _ & L3).
    rewrite E3. cbn [bind].
    destruct (ensure_native_direction_wf lo hi horiz e3 H3) as (e4 & E4 & H4 & L4 & I4).
    - destruct Hlv as [Hone|Hg].
      + replace (level (eb e3)) with 1 by congruence. reflexivity.
      + rewrite (Hg e2 e3 ltac:(congruence) E3). apply orb_true_r.
    - exists e4. split; [exact E4|]. split; [exact H4|]. split; congruence.
  Qed.
End EngineProofs.
