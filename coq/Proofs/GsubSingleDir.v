(* GSUB single substitution meets the contract in EITHER buffer direction (C18): a rule that rewrites the glyph under the
   cursor alone (same cluster, flags kept, `multiplied` bit kept) and reads nothing else is local whatever the order of
   the buffer. *)
From TV Require Import Model.GsubLig Spec.LocalEngine Proofs.LocalEngine Proofs.EngineItem Proofs.KernMachine Proofs.MarkBase.
From TV Require Import Proofs.GsubLig Proofs.Direction.

(* what a single substitution lookup does to the glyph under the cursor *)
Definition gs_point (P : gsparams) (x : item) : item :=
  if negb (has_mask (gs_mask P) x && check_prop (gs_flag P) x) then x
  else match find (fun e => fst e =? igid x) (gs_singles P) with
       | Some e => replace_with x (snd e)
       | None => x
       end.

Lemma gs_single_step P d x rest : gs_lig P = false -> gs_step P d (x :: rest) = (d ++ [gs_point P x], rest).
Proof.
  intros E. unfold gs_step, gs_point. rewrite E. destruct (negb _); [reflexivity|].
  destruct (find _ (gs_singles P)); reflexivity.
Qed.

Lemma gs_point_props P x : icl (gs_point P x) = icl x /\ (iutb x = true -> iutb (gs_point P x) = true)
  /\ is_multiplied (gs_point P x) = is_multiplied x.
Proof.
  unfold gs_point. destruct (negb _); [auto|]. destruct (find _ (gs_singles P)) as [e|]; [|auto]. apply replace_with_props.
Qed.

Lemma gs_point_refines P d x rest : refines (d ++ x :: rest) ((d ++ [gs_point P x]) ++ rest).
Proof.
  rewrite <- app_assoc. apply refines_app; [apply refines_refl|]. destruct (gs_point_props P x) as (A & B & _).
  constructor; [split; [symmetry; exact A|exact B]|apply refines_refl].
Qed.

Theorem gs_single_step_ok_dir side srt (D : dir_ok side srt) P : gs_lig P = false ->
  step_ok icl iutb side (fun l => srt l /\ nomult l) (gs_pass P).
Proof.
  intros EL. constructor.
  - intros L R d t Hne. rewrite gs_pass_step. destruct t as [|x rest]; [contradiction|]. rewrite (gs_single_step P d x rest EL). cbn. lia.
  - intros L R d t Hne [HS HN]. rewrite gs_pass_step. destruct t as [|x rest]; [contradiction|]. rewrite (gs_single_step P d x rest EL).
    cbn [fst snd]. split.
    + eapply (d_same _ _ D); [|exact HS]. symmetry. apply refines_icls. apply gs_point_refines.
    + apply nomult_app in HN. destruct HN as [HNd HNt]. inversion HNt as [|? ? Hx Hr]; subst.
      apply nomult_app. split; [apply nomult_app; split; [exact HNd|]|exact Hr].
      constructor; [|constructor]. destruct (gs_point_props P x) as (_ & _ & M). rewrite M. exact Hx.
  - intros L R d t y Hne HI Hy. rewrite gs_pass_step in Hy. destruct t as [|x rest]; [contradiction|].
    rewrite (gs_single_step P d x rest EL) in Hy. apply (refines_cls _ _ (gs_point_refines P d x rest) y Hy).
  - intros L R d t c Hne HI F. rewrite gs_pass_step. destruct t as [|x rest]; [contradiction|].
    rewrite (gs_single_step P d x rest EL). apply (refines_fog c _ _ (gs_point_refines P d x rest) F).
  - intros L R R' d t1 t2 c Hne HI HI1 HC _. cbv zeta. rewrite !gs_pass_step. right.
    destruct t1 as [|x r1]; [contradiction|]. cbn [app]. rewrite !(gs_single_step P _ _ _ EL). reflexivity.
  - intros L L' R d1 d2 t c Hne HI HI2 HC _. cbv zeta. rewrite !gs_pass_step. right.
    destruct t as [|x rest]; [contradiction|]. rewrite !(gs_single_step P _ _ _ EL). cbn [fst snd]. rewrite app_assoc. reflexivity.
Qed.
