(* The second (reorder) round of otShapeNormalize and the CGJ pass (Model/Engine.v: round2, cgj_step, cgj_pass) keep the
   buffer invariant, never panic, and the fuel of round2 suffices, for every buffer without output in progress. *)
From TV Require Import Model.Buffer Spec.Buffer Proofs.ShapeGlue Proofs.Buffer Proofs.BufferOps Proofs.BufferNewOps Proofs.BufferAll.
From TV Require Import Model.Engine Proofs.Engine.
From TV Require Import Proofs.EngineReorder.

(* ---------- sort: the cursor is kept too ---------- *)

Lemma sort_step_ok_idx lo hi b0 cmp s b i : (level b0 =? 2) = false -> stable lo hi b0 b /\ idx b = idx b0 ->
  0 <= s -> s < i -> i < zlen (info b0) ->
  exists b', sort_step cmp s (Ok b) i = Ok b' /\ stable lo hi b0 b' /\ idx b' = idx b0.
Proof.
  intros Hl ((Hw & Hh & Elv & El) & Ei) H0 H1 H2. unfold sort_step. cbn [bind].
  assert (Hlb : (level b =? 2) = false) by (rewrite Elv; exact Hl).
  destruct (Z.leb_spec 0 s); [|lia]. destruct (Z.ltb_spec i (zlen (info b))); [|lia]. cbn [andb negb].
  set (j := sort_find cmp (info b) (nth (Z.to_nat i) (info b) g0) s (Z.to_nat (i - s))).
  pose proof (sort_find_bound cmp (info b) (nth (Z.to_nat i) (info b) g0) s (Z.to_nat (i - s))) as Hj. fold j in Hj.
  destruct (Z.eqb_spec j i) as [Eji|Nji].
  - exists b. split; [reflexivity|]. repeat split; auto.
  - destruct (merge_full lo hi b j (i + 1) Hlb Hw) as (b1 & E1 & W1 & L1 & I1 & Hh1 & Z1 & _ & _ & _ & U1).
    { apply pre_merge_nohave; auto; lia. }
    rewrite E1. cbn [bind]. eexists. split; [reflexivity|].
    assert (Hlb1 : (level b1 =? 2) = false) by (rewrite L1; exact Hlb).
    assert (Ec : cls (zfirstn j (info b1) ++ [nth (Z.to_nat i) (info b1) g0] ++ slice j i (info b1) ++ zskipn (i + 1) (info b1)) = cls (info b1)).
    { apply rotate_const_cls; try lia. exact U1. }
    repeat split; cbn [have_out level info idx with_info]; try congruence.
    + apply (WF_same_info lo hi b1); cbn [have_out level info idx with_info]; auto; try congruence. exact (cls_eq_zlen _ _ Ec).
    + rewrite (cls_eq_zlen _ _ Ec). congruence.
Qed.

Lemma sort_range_stable_idx lo hi cmp b s e : (level b =? 2) = false -> WF lo hi b = true -> have_out b = false ->
  0 <= s -> e <= zlen (info b) ->
  exists b', sort_range cmp b s e = Ok b' /\ stable lo hi b b' /\ idx b' = idx b.
Proof.
  intros Hl Hw Hh H0 H1. unfold sort_range.
  destruct (Z_lt_le_dec (e - s - 1) 0) as [Hneg|Hpos].
  - unfold zseq. replace (Z.to_nat (e - s - 1)) with 0%nat by lia. cbn [seq map fold_left]. exists b. split; [reflexivity|].
    split; [apply stable_refl; auto|reflexivity].
  - destruct (fold_inv_zseq (sort_step cmp s) (fun _ x => stable lo hi b x /\ idx x = idx b) (fun k => s + 1 + k) (e - s - 1) b Hpos)
      as (b' & E & S').
    + intros j st Hj Hst. apply (sort_step_ok_idx lo hi b cmp s st (s + 1 + j)); auto; lia.
    + split; [apply stable_refl; auto|reflexivity].
    + exists b'. split; [exact E|exact S'].
Qed.

Lemma sort_range_step lo hi cmp : range_step lo hi (sort_range cmp).
Proof. intros b s e Hl Hw Hh H0 H1 H2. apply sort_range_stable_idx; auto. Qed.

(* ---------- the second round ---------- *)

Lemma round2_ok sreorder is_mcm lo hi : forall fuel count b i,
  (level b =? 2) = false -> WF lo hi b = true -> have_out b = false -> count = zlen (info b) -> 0 <= i ->
  (Z.to_nat (count - i) <= fuel)%nat ->
  exists b', round2 sreorder is_mcm fuel count b i = Ok b' /\ stable lo hi b b' /\ idx b' = idx b.
Proof.
  induction fuel as [|f IH]; intros count b i Hl Hw Hh Hc Hi Hf.
  - cbn [round2]. destruct (Z.leb_spec count i); [|lia].
    exists b. split; [reflexivity|]. split; [apply stable_refl; auto|reflexivity].
  - cbn [round2]. destruct (Z.leb_spec count i).
    { exists b. split; [reflexivity|]. split; [apply stable_refl; auto|reflexivity]. }
    destruct (mcc (ginfo b i) =? 0).
    { apply IH; auto; lia. }
    pose proof (run_while_bound (fun g => negb (mcc g =? 0)) (slice (i + 1) count (info b))) as B.
    rewrite zlen_slice in B by lia.
    set (en := i + 1 + run_while (fun g => negb (mcc g =? 0)) (slice (i + 1) count (info b))) in *.
    cbv zeta.
    destruct (32 <? en - i).
    { apply IH; auto; lia. }
    destruct (sort_range_stable_idx lo hi cmp_ccc b i en Hl Hw Hh) as (b1 & E1 & S1 & I1); try lia.
    rewrite E1. cbn [bind].
    pose proof S1 as (W1 & Hh1 & L1 & Z1).
    assert (Hlb1 : (level b1 =? 2) = false) by (rewrite L1; exact Hl).
    destruct (reorder_marks_stable sreorder is_mcm lo hi b1 i en Hlb1 W1 Hh1) as (b2 & E2 & S2 & I2); try lia.
    rewrite E2. cbn [bind].
    pose proof S2 as (W2 & Hh2 & L2 & Z2).
    assert (Hlb2 : (level b2 =? 2) = false) by (rewrite L2; exact Hlb1).
    destruct (IH count b2 (en + 1) Hlb2 W2 Hh2) as (b3 & E3 & S3 & I3); try lia.
    exists b3. split; [exact E3|]. split; [|congruence].
    exact (stable_trans _ _ _ _ _ (stable_trans _ _ _ _ _ S1 S2) S3).
Qed.

(* the call of otShapeNormalize: fuel len + 1 from 0 *)
Lemma round2_call_ok sreorder is_mcm lo hi b :
  (level b =? 2) = false -> WF lo hi b = true -> have_out b = false ->
  exists b', round2 sreorder is_mcm (Z.to_nat (zlen (info b)) + 1) (zlen (info b)) b 0 = Ok b' /\ stable lo hi b b' /\ idx b' = idx b.
Proof. intros Hl Hw Hh. apply round2_ok; auto; lia. Qed.

(* ---------- the CGJ pass ---------- *)

Lemma cgj_step_ok lo hi b i : (level b =? 2) = false -> WF lo hi b = true -> have_out b = false ->
  1 <= i -> i + 2 <= zlen (info b) ->
  exists b', cgj_step (Ok b) i = Ok b' /\ stable lo hi b b' /\ idx b' = idx b.
Proof.
  intros Hl Hw Hh H1 H2. unfold cgj_step. cbn [bind]. cbv zeta.
  destruct (_ && _).
  - set (g' := set_up (ginfo b i) (Z.land (up (ginfo b i)) (Z.lnot 64))).
    assert (Ec : cls (info (set_info b i g')) = cls (info b)).
    { unfold set_info. cbn [info with_info]. apply set_one_cls; try lia. reflexivity. }
    assert (El : zlen (info (set_info b i g')) = zlen (info b)) by (exact (cls_eq_zlen _ _ Ec)).
    assert (W1 : WF lo hi (set_info b i g') = true).
    { apply (WF_same_info lo hi b); auto. }
    destruct (utb_range_step lo hi (set_info b i g') (i - 1) (i + 2)) as (b' & E & S' & I'); auto; try lia.
    exists b'. split; [exact E|]. destruct S' as (W' & Hh' & L' & Z').
    split; [|exact I']. repeat split; auto; congruence.
  - exists b. split; [reflexivity|]. split; [apply stable_refl; auto|reflexivity].
Qed.

Lemma cgj_pass_ok lo hi b : (level b =? 2) = false -> WF lo hi b = true -> have_out b = false ->
  exists b', cgj_pass b = Ok b' /\ stable lo hi b b' /\ idx b' = idx b.
Proof.
  intros Hl Hw Hh. unfold cgj_pass.
  destruct (Z_lt_le_dec (zlen (info b) - 2) 0) as [Hneg|Hpos].
  - unfold zseq. replace (Z.to_nat (zlen (info b) - 2)) with 0%nat by lia. cbn [seq map fold_left].
    exists b. split; [reflexivity|]. split; [apply stable_refl; auto|reflexivity].
  - destruct (fold_inv_zseq cgj_step (fun _ x => stable lo hi b x /\ idx x = idx b) (fun i => i + 1) (zlen (info b) - 2) b Hpos)
      as (b' & E & S').
    + intros j st Hj ((Ws & Hhs & Ls & Zs) & Is).
      assert (Hls : (level st =? 2) = false) by (rewrite Ls; exact Hl).
      destruct (cgj_step_ok lo hi st (j + 1) Hls Ws Hhs) as (b1 & E1 & (W1 & Hh1 & L1 & Z1) & I1); try lia.
      exists b1. split; [exact E1|]. repeat split; congruence.
    + split; [apply stable_refl; auto|reflexivity].
    + exists b'. split; [exact E|exact S'].
Qed.

Print Assumptions round2_ok.
Print Assumptions cgj_pass_ok.
