(* Word boundaries, finite part: on every consistent finite context (1) the model's word_decision, which decides
   without look-ahead, equals the UAX #29 rule table evaluated with "no significant rune follows", and its
   write-back request equals the condition under which WB6 / WB7b / WB12 apply to the pending position;
   (2) in the rule table the look-ahead class matters exactly through that condition.
   Both by kernel computation over the finite domain of contexts, lifted to all contexts. *)
From TV Require Import Model.Segmenter Spec.UAX29.
Open Scope Z_scope.

Definition all_wbc : list wbc :=
  [WB_None; WB_ALetter; WB_Double_Quote; WB_ExtendFormat; WB_ExtendNumLet; WB_Hebrew_Letter; WB_Katakana;
   WB_MidLetter; WB_MidNum; WB_MidNumLet; WB_NewlineCRLF; WB_Numeric; WB_RI; WB_Single_Quote; WB_WSegSpace].
Lemma all_wbc_complete c : In c all_wbc.
Proof. destruct c; cbn; tauto. Qed.
Definition all_bool := [true; false].
Lemma all_bool_complete b : In b all_bool.
Proof. destruct b; cbn; tauto. Qed.

(* WB6 / WB7b / WB12 seen from the position they amend: pp p c are the classes before, at and after the
   MidLetter / quote / MidNum rune (Extend|Format|ZWJ skipped) *)
Definition rcond (pp p c : wbc) : bool :=
  (w_ahletter pp && w_midletterq p && w_ahletter c)
  || (w_is WB_Hebrew_Letter pp && w_is WB_Double_Quote p && w_is WB_Hebrew_Letter c)
  || (w_is WB_Numeric pp && w_midnumq p && w_is WB_Numeric c).

(* consistent context: aef = the rune before is Extend|Format|ZWJ; otherwise its class is the previous significant class *)
Definition mkctx (aef : bool) (acr azwj blf bpic : bool) (c p pp n : wbc) (ri : bool) : wctx :=
  mkW acr azwj (if aef then WB_ExtendFormat else p) blf bpic c p pp n ri.

Definition fobs_w (cr zwj lf : bool) : obs :=
  mkObs LB_XX false false false false false GB_None WB_None lf cr zwj false false.

Definition model_w (aef acr azwj blf bpic : bool) (c p pp : wbc) (ri : bool) : bool * bool :=
  word_decision (fobs_w acr azwj false) (fobs_w false false blf) pp p c (negb aef) bpic (snd (update_word_ri ri c)).

(* consistency: p, pp are significant classes; the table facts of obs_wf_w: CR and LF are NewlineCRLF, U+200D is
   ExtendFormat *)
Definition ok_ctx (aef acr azwj blf : bool) (c p pp : wbc) : bool :=
  negb (wbc_beq p WB_ExtendFormat) && negb (wbc_beq pp WB_ExtendFormat)
  && (negb acr || (negb aef && wbc_beq p WB_NewlineCRLF))
  && (negb azwj || aef)
  && (negb blf || wbc_beq c WB_NewlineCRLF).

Definition c1_check (aef acr azwj blf bpic : bool) (c p pp : wbc) (ri : bool) : bool :=
  negb (ok_ctx aef acr azwj blf c p pp) ||
  (Bool.eqb (fst (model_w aef acr azwj blf bpic c p pp ri)) (wb_core (mkctx aef acr azwj blf bpic c p pp WB_None ri))
   && Bool.eqb (snd (model_w aef acr azwj blf bpic c p pp ri)) (rcond pp p c)).

Definition c2_check (aef acr azwj blf bpic : bool) (c p pp n : wbc) (ri : bool) : bool :=
  negb (ok_ctx aef acr azwj blf c p pp) ||
  Bool.eqb (wb_core (mkctx aef acr azwj blf bpic c p pp n ri))
           (wb_core (mkctx aef acr azwj blf bpic c p pp WB_None ri) && negb (rcond p c n)).

Definition forall_b (f : bool -> bool) : bool := forallb f all_bool.
Definition forall_w (f : wbc -> bool) : bool := forallb f all_wbc.

Lemma forall_b_spec f : forall_b f = true -> forall b, f b = true.
Proof. intros H b. unfold forall_b in H. rewrite forallb_forall in H. apply H, all_bool_complete. Qed.
Lemma forall_w_spec f : forall_w f = true -> forall c, f c = true.
Proof. intros H c. unfold forall_w in H. rewrite forallb_forall in H. apply H, all_wbc_complete. Qed.

Lemma c1_all :
  forall_b (fun aef => forall_b (fun acr => forall_b (fun azwj => forall_b (fun blf => forall_b (fun bpic =>
  forall_w (fun c => forall_w (fun p => forall_w (fun pp => forall_b (fun ri =>
    c1_check aef acr azwj blf bpic c p pp ri))))))))) = true.
Proof. vm_compute. reflexivity. Qed.

Lemma c2_all :
  forall_b (fun aef => forall_b (fun acr => forall_b (fun azwj => forall_b (fun blf => forall_b (fun bpic =>
  forall_w (fun c => forall_w (fun p => forall_w (fun pp => forall_w (fun n => forall_b (fun ri =>
    c2_check aef acr azwj blf bpic c p pp n ri)))))))))) = true.
Proof. vm_compute. reflexivity. Qed.

Lemma c1 aef acr azwj blf bpic c p pp ri :
  ok_ctx aef acr azwj blf c p pp = true ->
  fst (model_w aef acr azwj blf bpic c p pp ri) = wb_core (mkctx aef acr azwj blf bpic c p pp WB_None ri)
  /\ snd (model_w aef acr azwj blf bpic c p pp ri) = rcond pp p c.
Proof.
  intros Hok.
  pose proof (forall_b_spec _ (forall_w_spec _ (forall_w_spec _ (forall_w_spec _ (forall_b_spec _ (forall_b_spec _
              (forall_b_spec _ (forall_b_spec _ (forall_b_spec _ c1_all aef) acr) azwj) blf) bpic) c) p) pp) ri) as H.
  unfold c1_check in H. rewrite Hok in H. cbn [negb orb] in H.
  apply andb_true_iff in H as [H1 H2]. apply eqb_prop in H1, H2. auto.
Qed.

Lemma c2 aef acr azwj blf bpic c p pp n ri :
  ok_ctx aef acr azwj blf c p pp = true ->
  wb_core (mkctx aef acr azwj blf bpic c p pp n ri)
  = wb_core (mkctx aef acr azwj blf bpic c p pp WB_None ri) && negb (rcond p c n).
Proof.
  intros Hok.
  pose proof (forall_b_spec _ (forall_w_spec _ (forall_w_spec _ (forall_w_spec _ (forall_w_spec _ (forall_b_spec _ (forall_b_spec _
              (forall_b_spec _ (forall_b_spec _ (forall_b_spec _ c2_all aef) acr) azwj) blf) bpic) c) p) pp) n) ri) as H.
  unfold c2_check in H. rewrite Hok in H. cbn [negb orb] in H. apply eqb_prop in H. exact H.
Qed.
