(* Lemmas about the Type 2 charstring interpreter model (Model/Charstring.v). *)
From Coq Require Import Lia.
From TV Require Import Model.Charstring.
Open Scope Z_scope.

Definition no_panic {A} (r : res A) : Prop := match r with Panic _ => False | _ => True end.

Lemma no_panic_bind {A B} (r : res A) (f : A -> res B) :
  no_panic r -> (forall a, r = Ok a -> no_panic (f a)) -> no_panic (bind r f).
Proof. destruct r; simpl; auto. Qed.

(* ------------------------------------------------------------------------------------------------ *)
(* machine invariant: argument stack and call stack stay within their fixed sizes                       *)

Definition m_inv (m : machine) : Prop :=
  Z.of_nat (length (m_args m)) <= ARG_STACK_SIZE /\ Z.of_nat (length (m_calls m)) <= CALL_STACK_SIZE.

Lemma call_subr_inv m args subrs i m' :
  Z.of_nat (length args) <= ARG_STACK_SIZE -> Z.of_nat (length (m_calls m)) <= CALL_STACK_SIZE ->
  call_subr m args subrs i = Ok m' -> m_inv m'.
Proof.
  unfold call_subr. intros Ha Hc.
  destruct ((_ <? 0) || _); [discriminate|].
  destruct (Z.of_nat (length (m_calls m)) =? CALL_STACK_SIZE) eqn:E; [discriminate|].
  intros H; inversion H; subst. unfold m_inv. cbn [m_args m_calls length].
  apply Z.eqb_neq in E. split; [exact Ha|lia].
Qed.

Ltac op_cases H :=
  repeat match type of H with
         | context [if ?c then _ else _] => destruct c
         end.

Lemma apply_op_inv l g m r esc op m' r' : m_inv m ->
  apply_op l g m r esc op = Ok (Continue m' r') -> m_inv m'.
Proof.
  intros [Ha Hc]. unfold apply_op.
  assert (Hclr : m_inv (cleared m)) by (unfold m_inv, cleared; cbn; unfold ARG_STACK_SIZE; split; [lia|exact Hc]).
  destruct (negb esc).
  - destruct (op =? 11).
    { destruct (m_calls m) as [|c cs] eqn:E; [discriminate|]. intros H; inversion H; subst.
      unfold m_inv. cbn. split; [exact Ha|]. try rewrite E in Hc. cbn [length] in Hc. lia. }
    destruct (op =? 14); [discriminate|].
    destruct ((op =? 10) || (op =? 29)).
    { destruct (rev (m_args m)) as [|v rest] eqn:E; [discriminate|].
      destruct (call_subr m (rev rest) _ _) as [m1| | |] eqn:Ec; cbn [bind]; try discriminate.
      intros H; inversion H; subst. eapply call_subr_inv; [| |exact Ec]; [|exact Hc].
      rewrite rev_length. assert (length (m_args m) = S (length rest)) by (rewrite <- (rev_length (m_args m)), E; reflexivity). lia. }
    destruct (op =? 21).
    { destruct (rev (m_args m)) as [|y [|x t]]; try discriminate. intros H; inversion H; subst; exact Hclr. }
    destruct (op =? 22).
    { destruct (rev (m_args m)) as [|x t]; try discriminate. intros H; inversion H; subst; exact Hclr. }
    destruct (op =? 4).
    { destruct (rev (m_args m)) as [|x t]; try discriminate. intros H; inversion H; subst; exact Hclr. }
    destruct ((op =? 1) || (op =? 18)); [intros H; inversion H; subst; exact Hclr|].
    destruct ((op =? 3) || (op =? 23)); [intros H; inversion H; subst; exact Hclr|].
    destruct ((op =? 19) || (op =? 20)).
    { destruct (Z.of_nat (length (m_instr m)) <=? _); intros H; inversion H; subst.
      - split; assumption.
      - unfold m_inv. cbn. unfold ARG_STACK_SIZE. split; [lia|exact Hc]. }
    intros H. op_cases H; try discriminate; inversion H; subst; exact Hclr.
  - intros H.
    destruct (op =? 34); [destruct (op_hflex r (m_args m)); try discriminate; inversion H; subst; exact Hclr|].
    destruct (op =? 35); [destruct (op_flex r (m_args m)); try discriminate; inversion H; subst; exact Hclr|].
    destruct (op =? 36); [destruct (op_hflex1 r (m_args m)); try discriminate; inversion H; subst; exact Hclr|].
    destruct (op =? 37); [destruct (op_flex1 r (m_args m)); try discriminate; inversion H; subst; exact Hclr|].
    discriminate.
Qed.

Lemma step_inv l g m r m' r' : m_inv m -> step l g m r = Ok (Continue m' r') -> m_inv m'.
Proof.
  intros Hi. unfold step.
  destruct (parse_number (m_instr m)) as [[[v rest]| | |]|].
  - destruct (top m =? ARG_STACK_SIZE) eqn:E; [discriminate|].
    intros H; inversion H; subst. destruct Hi as [Ha Hc]. unfold m_inv. cbn.
    rewrite app_length. cbn [length]. apply Z.eqb_neq in E. unfold top in E. split; [lia|exact Hc].
  - discriminate.
  - discriminate.
  - discriminate.
  - destruct (m_instr m) as [|b rest]; [discriminate|].
    destruct (b =? 12).
    + destruct rest as [|b2 rest2]; [discriminate|]. apply apply_op_inv. exact Hi.
    + apply apply_op_inv. exact Hi.
Qed.

(* ------------------------------------------------------------------------------------------------ *)
(* no panic: the interpreter never indexes outside its stacks or its instruction stream                *)

Lemma op_res_no_panic (x : res reader) : (forall c, x <> Panic c) ->
  forall m, no_panic (match x with Ok r' => Ok (Continue (cleared m) r') | Err c => Err c | Panic c => Panic c | OutOfFuel => OutOfFuel end).
Proof. intros H m. destruct x; try exact I. exfalso. eapply H; reflexivity. Qed.

Lemma flex_ops_no_panic r l :
  (forall c, op_hflex r l <> Panic c) /\ (forall c, op_flex r l <> Panic c)
  /\ (forall c, op_hflex1 r l <> Panic c) /\ (forall c, op_flex1 r l <> Panic c).
Proof.
  unfold op_hflex, op_flex, op_hflex1, op_flex1.
  repeat split; intros c;
    repeat (destruct l as [|? l]; try discriminate).
Qed.

Lemma apply_op_no_panic l g m r esc op : no_panic (apply_op l g m r esc op).
Proof.
  unfold apply_op.
  destruct (flex_ops_no_panic r (m_args m)) as (F1 & F2 & F3 & F4).
  destruct (negb esc).
  - destruct (op =? 11); [destruct (m_calls m); exact I|].
    destruct (op =? 14); [exact I|].
    destruct ((op =? 10) || (op =? 29)).
    { destruct (rev (m_args m)); [exact I|].
      apply no_panic_bind; [|intros; exact I].
      unfold call_subr. repeat match goal with |- context [if ?c then _ else _] => destruct c end; exact I. }
    destruct (op =? 21); [destruct (rev (m_args m)) as [|? [|? ?]]; exact I|].
    destruct (op =? 22); [destruct (rev (m_args m)); exact I|].
    destruct (op =? 4); [destruct (rev (m_args m)); exact I|].
    repeat match goal with |- context [if ?c then _ else _] => destruct c end; exact I.
  - destruct (op =? 34); [apply op_res_no_panic; exact F1|].
    destruct (op =? 35); [apply op_res_no_panic; exact F2|].
    destruct (op =? 36); [apply op_res_no_panic; exact F3|].
    destruct (op =? 37); [apply op_res_no_panic; exact F4|].
    exact I.
Qed.

Lemma parse_number_no_panic instr : match parse_number instr with Some (Panic _) | Some OutOfFuel => False | _ => True end.
Proof.
  unfold parse_number. destruct instr as [|b t]; [exact I|].
  destruct (b =? 28); [destruct t as [|? [|? ?]]; exact I|].
  destruct (b <? 32); [exact I|].
  destruct (b <? 247); [exact I|].
  destruct (b <? 251); [destruct t; exact I|].
  destruct (b <? 255); [destruct t; exact I|].
  destruct t as [|? [|? [|? [|? ?]]]]; exact I.
Qed.

Lemma step_no_panic l g m r : no_panic (step l g m r).
Proof.
  unfold step. pose proof (parse_number_no_panic (m_instr m)) as Hp.
  destruct (parse_number (m_instr m)) as [[[v rest]| | |]|]; try exact I; try contradiction.
  - destruct (top m =? ARG_STACK_SIZE); exact I.
  - destruct (m_instr m) as [|b rest]; [exact I|].
    destruct (b =? 12); [destruct rest; [exact I|]|]; apply apply_op_no_panic.
Qed.

Lemma run_loop_no_panic fuel l g : forall m r, no_panic (run_loop fuel l g m r).
Proof.
  induction fuel as [|k IH]; intros m r; [exact I|].
  cbn [run_loop]. destruct (m_instr m); [destruct (m_calls m); [exact I|apply IH]|].
  apply no_panic_bind; [apply step_no_panic|].
  intros [m' r'|r'] _; [apply IH|exact I].
Qed.

Lemma load_glyph_no_panic_lemma fuel cs l g : no_panic (load_glyph fuel cs l g).
Proof. unfold load_glyph. apply no_panic_bind; [apply run_loop_no_panic|intros; exact I]. Qed.

(* the stack bounds hold in every state the run goes through *)
Inductive reaches (l g : list (list Z)) : machine -> reader -> machine -> reader -> Prop :=
| reach_refl m r : reaches l g m r m r
| reach_step m r m1 r1 m2 r2 : m_instr m <> [] -> step l g m r = Ok (Continue m1 r1) -> reaches l g m1 r1 m2 r2 ->
    reaches l g m r m2 r2
| reach_return m r c cs m2 r2 : m_instr m = [] -> m_calls m = c :: cs -> reaches l g (mkM c cs (m_args m)) r m2 r2 ->
    reaches l g m r m2 r2.

Lemma reaches_inv l g m r m' r' : reaches l g m r m' r' -> m_inv m -> m_inv m'.
Proof.
  induction 1; intros Hi; [exact Hi| |].
  - apply IHreaches. eapply step_inv; eauto.
  - apply IHreaches. destruct Hi as [Ha Hc]. unfold m_inv. cbn. rewrite H0 in Hc. cbn [length] in Hc. split; [exact Ha|lia].
Qed.

Lemma stack_bounds_lemma l g cs m r :
  reaches l g (mkM cs [] []) rd_init m r ->
  Z.of_nat (length (m_args m)) <= 513 /\ Z.of_nat (length (m_calls m)) <= 10.
Proof.
  intros H. apply (reaches_inv _ _ _ _ _ _ H). unfold m_inv, ARG_STACK_SIZE, CALL_STACK_SIZE. cbn. lia.
Qed.

(* ------------------------------------------------------------------------------------------------ *)
(* path well-formedness                                                                                *)

Definition seg_end (s : cseg) : pt := match s with CMove p => p | CLine p => p | CCube _ _ p => p end.

(* [wf_rev l] for the REVERSED segment list: every contour but the last ends where it started (the segments before the
   first MoveTo form a contour starting at the origin); returns the start of the last contour and the end of the path *)
Fixpoint wf_rev (l : list cseg) : option (pt * pt) :=
  match l with
  | [] => Some ((0, 0), (0, 0))
  | CMove p :: t => match wf_rev t with
                    | Some (f, c) => if pt_eqb f c then Some (p, p) else None
                    | None => None
                    end
  | s :: t => match wf_rev t with Some (f, _) => Some (f, seg_end s) | None => None end
  end.

Definition path_inv (r : reader) : Prop := wf_rev (r_segs r) = Some (r_first r, r_cur r).
Definition all_closed (l : list cseg) : Prop := exists f, wf_rev l = Some (f, f).

Lemma pt_eqb_refl p : pt_eqb p p = true.
Proof. unfold pt_eqb. rewrite !Z.eqb_refl. reflexivity. Qed.
Lemma pt_eqb_eq a b : pt_eqb a b = true -> a = b.
Proof. unfold pt_eqb. destruct a, b. cbn. intros H. apply andb_prop in H. destruct H as [A B]. apply Z.eqb_eq in A, B. subst. reflexivity. Qed.

Lemma update_bounds_path r p : r_segs (update_bounds r p) = r_segs r /\ r_first (update_bounds r p) = r_first r /\ r_cur (update_bounds r p) = r_cur r.
Proof. unfold update_bounds. cbn. auto. Qed.
Lemma open_path_path r : r_segs (open_path r) = r_segs r /\ r_first (open_path r) = r_first r /\ r_cur (open_path r) = r_cur r.
Proof. unfold open_path. destruct (r_open r); cbn; auto. Qed.

Lemma rd_line_inv r p : path_inv r -> path_inv (rd_line r p).
Proof.
  unfold path_inv, rd_line. intros H. destruct (open_path_path r) as (A & B & C).
  cbn [set_segs set_cur update_bounds r_segs r_first r_cur wf_rev]. rewrite A, B, H. reflexivity.
Qed.
Lemma rd_curve_inv r a b c : path_inv r -> path_inv (rd_curve r a b c).
Proof.
  unfold path_inv, rd_curve. intros H. destruct (open_path_path r) as (A & B & C).
  cbn [set_segs set_cur update_bounds r_segs r_first r_cur wf_rev]. rewrite A, B, H. reflexivity.
Qed.

Lemma ensure_close_closed r : path_inv r ->
  wf_rev (r_segs (ensure_close r)) = Some (r_first r, r_first r)
  /\ r_first (ensure_close r) = r_first r /\ r_cur (ensure_close r) = r_cur r.
Proof.
  unfold path_inv, ensure_close. intros H.
  destruct (pt_eqb (r_first r) (r_cur r)) eqn:E.
  - apply pt_eqb_eq in E. rewrite H, <- E. auto.
  - cbn [set_segs r_segs r_first r_cur wf_rev]. rewrite H. auto.
Qed.

Lemma rd_move_inv r dx dy : path_inv r -> path_inv (rd_move r dx dy).
Proof.
  intros H. destruct (ensure_close_closed r H) as (A & B & C).
  unfold path_inv, rd_move. cbn [r_segs r_first r_cur wf_rev]. rewrite A, pt_eqb_refl. reflexivity.
Qed.

Lemma close_path_closed r : path_inv r -> all_closed (r_segs (close_path r)).
Proof.
  intros H. destruct (ensure_close_closed r H) as (A & _).
  unfold all_closed, close_path. cbn [r_segs]. eexists; exact A.
Qed.

Lemma op_rlineto_inv l : forall r, path_inv r -> path_inv (op_rlineto r l).
Proof.
  induction l as [l IH] using (well_founded_induction (Wf_nat.well_founded_ltof _ (@length Z))); intros r H.
  destruct l as [|dx [|dy t]]; try exact H.
  cbn [op_rlineto]. apply IH; [unfold Wf_nat.ltof; cbn; lia|apply rd_line_inv; exact H].
Qed.

Lemma op_hvlineto_inv l : forall hz r, path_inv r -> path_inv (op_hvlineto hz r l).
Proof.
  induction l as [l IH] using (well_founded_induction (Wf_nat.well_founded_ltof _ (@length Z))); intros hz r H.
  destruct l as [|x [|y t]]; [exact H|cbn; apply rd_line_inv; exact H|].
  cbn [op_hvlineto]. apply IH; [unfold Wf_nat.ltof; cbn; lia|]. repeat apply rd_line_inv. exact H.
Qed.

Lemma rel_curve_inv r a b c d e f : path_inv r -> path_inv (rel_curve r a b c d e f).
Proof. intros H. unfold rel_curve. apply rd_curve_inv. exact H. Qed.

Lemma op_rrcurveto_inv l : forall r, path_inv r -> path_inv (op_rrcurveto r l).
Proof.
  induction l as [l IH] using (well_founded_induction (Wf_nat.well_founded_ltof _ (@length Z))); intros r H.
  destruct l as [|a [|b [|c [|d [|e [|f t]]]]]]; try exact H.
  cbn [op_rrcurveto]. apply IH; [unfold Wf_nat.ltof; cbn; lia|apply rel_curve_inv; exact H].
Qed.

Lemma op_hhvv_loop_inv l : forall hz r p1, path_inv r -> path_inv (op_hhvv_loop hz r p1 l).
Proof.
  induction l as [l IH] using (well_founded_induction (Wf_nat.well_founded_ltof _ (@length Z))); intros hz r p1 H.
  destruct l as [|a [|b [|c [|d t]]]]; try exact H.
  cbn [op_hhvv_loop]. apply IH; [unfold Wf_nat.ltof; cbn; lia|apply rd_curve_inv; exact H].
Qed.
Lemma op_hhvv_inv hz r l : path_inv r -> path_inv (op_hhvv hz r l).
Proof.
  intros H. unfold op_hhvv. destruct (Z.odd _); [destruct l; [exact H|]|]; apply op_hhvv_loop_inv; exact H.
Qed.

Lemma hv_first_loop_inv ah l : forall r p1 p2 p3, path_inv r -> path_inv (hv_first_loop ah r p1 p2 p3 l).
Proof.
  induction l as [l IH] using (well_founded_induction (Wf_nat.well_founded_ltof _ (@length Z))); intros r p1 p2 p3 H.
  destruct l as [|a [|b [|c [|d [|e [|f [|g [|h t]]]]]]]]; cbn [hv_first_loop]; try (apply rd_curve_inv; exact H).
  apply IH; [unfold Wf_nat.ltof; cbn; lia|]. repeat apply rd_curve_inv. exact H.
Qed.
Lemma hv_second_loop_inv ah odd l : forall r, path_inv r -> path_inv (hv_second_loop ah odd r l).
Proof.
  induction l as [l IH] using (well_founded_induction (Wf_nat.well_founded_ltof _ (@length Z))); intros r H.
  destruct l as [|a [|b [|c [|d [|e [|f [|g [|h t]]]]]]]]; try exact H.
  cbn [hv_second_loop]. apply IH; [unfold Wf_nat.ltof; cbn; lia|]. repeat apply rd_curve_inv. exact H.
Qed.
Lemma op_hv_inv ah r l : path_inv r -> path_inv (op_hv ah r l).
Proof.
  intros H. unfold op_hv. destruct (4 <=? _).
  - destruct l as [|a [|b [|c [|d t]]]]; try exact H. apply hv_first_loop_inv; exact H.
  - apply hv_second_loop_inv; exact H.
Qed.

Lemma op_rcurveline_eq r a b c d e f g h t :
  op_rcurveline_loop r (a :: b :: c :: d :: e :: f :: g :: h :: t) = op_rcurveline_loop (rel_curve r a b c d e f) (g :: h :: t).
Proof. reflexivity. Qed.
Lemma op_rcurveline_inv l : forall r, path_inv r -> path_inv (op_rcurveline_loop r l).
Proof.
  induction l as [l IH] using (well_founded_induction (Wf_nat.well_founded_ltof _ (@length Z))); intros r H.
  destruct l as [|a [|b [|c [|d [|e [|f [|g [|h t]]]]]]]]; try exact H; try (apply rd_line_inv; exact H).
  rewrite op_rcurveline_eq. apply IH; [unfold Wf_nat.ltof; cbn; lia|apply rel_curve_inv; exact H].
Qed.
Lemma op_rlinecurve_eq r a b c d e f g h t :
  op_rlinecurve_loop r (a :: b :: c :: d :: e :: f :: g :: h :: t)
  = op_rlinecurve_loop (rd_line r (padd (r_cur r) a b)) (c :: d :: e :: f :: g :: h :: t).
Proof. reflexivity. Qed.
Lemma op_rlinecurve_inv l : forall r, path_inv r -> path_inv (op_rlinecurve_loop r l).
Proof.
  induction l as [l IH] using (well_founded_induction (Wf_nat.well_founded_ltof _ (@length Z))); intros r H.
  destruct l as [|a [|b [|c [|d [|e [|f [|g [|h t]]]]]]]]; try exact H; try (apply rel_curve_inv; exact H).
  rewrite op_rlinecurve_eq. apply IH; [unfold Wf_nat.ltof; cbn; lia|apply rd_line_inv; exact H].
Qed.

Lemma double_curve_inv r p1 p2 p3 p4 p5 p6 : path_inv r -> path_inv (double_curve r p1 p2 p3 p4 p5 p6).
Proof. intros H. unfold double_curve. repeat apply rd_curve_inv. exact H. Qed.

Lemma flex_ops_inv r l r' : path_inv r ->
  (op_hflex r l = Ok r' \/ op_flex r l = Ok r' \/ op_hflex1 r l = Ok r' \/ op_flex1 r l = Ok r') -> path_inv r'.
Proof.
  intros H. unfold op_hflex, op_flex, op_hflex1, op_flex1.
  intros [E|[E|[E|E]]];
    repeat (destruct l as [|? l]; try discriminate);
    inversion E; subst; apply double_curve_inv; exact H.
Qed.

Definition stems_only (r r' : reader) : Prop := r_segs r' = r_segs r /\ r_first r' = r_first r /\ r_cur r' = r_cur r.

(* every operator keeps the path invariant; endchar leaves a path whose contours are all closed *)
Lemma apply_op_path l g m r esc op : path_inv r ->
  match apply_op l g m r esc op with
  | Ok (Continue _ r') => path_inv r'
  | Ok (Stop r') => all_closed (r_segs r')
  | _ => True
  end.
Proof.
  intros H. unfold apply_op.
  destruct (negb esc).
  - destruct (op =? 11); [destruct (m_calls m); [exact I|exact H]|].
    destruct (op =? 14); [apply close_path_closed; exact H|].
    destruct ((op =? 10) || (op =? 29)).
    { destruct (rev (m_args m)); [exact I|]. destruct (call_subr _ _ _ _); cbn [bind]; try exact I. exact H. }
    destruct (op =? 21); [destruct (rev (m_args m)) as [|? [|? ?]]; try exact I; apply rd_move_inv; exact H|].
    destruct (op =? 22); [destruct (rev (m_args m)); try exact I; apply rd_move_inv; exact H|].
    destruct (op =? 4); [destruct (rev (m_args m)); try exact I; apply rd_move_inv; exact H|].
    destruct ((op =? 1) || (op =? 18)); [exact H|].
    destruct ((op =? 3) || (op =? 23)); [exact H|].
    destruct ((op =? 19) || (op =? 20)).
    { destruct (r_seen_hm r); destruct (_ <=? _); exact H. }
    destruct (op =? 5); [apply op_rlineto_inv; exact H|].
    destruct (op =? 6); [apply op_hvlineto_inv; exact H|].
    destruct (op =? 7); [apply op_hvlineto_inv; exact H|].
    destruct (op =? 8); [apply op_rrcurveto_inv; exact H|].
    destruct (op =? 24); [destruct (top m <? 8); [exact I|apply op_rcurveline_inv; exact H]|].
    destruct (op =? 25); [destruct (top m <? 8); [exact I|apply op_rlinecurve_inv; exact H]|].
    destruct (op =? 26); [apply op_hhvv_inv; exact H|].
    destruct (op =? 27); [apply op_hhvv_inv; exact H|].
    destruct (op =? 30); [apply op_hv_inv; exact H|].
    destruct (op =? 31); [apply op_hv_inv; exact H|].
    exact I.
  - destruct (op =? 34); [destruct (op_hflex r (m_args m)) eqn:E; try exact I; eapply flex_ops_inv; eauto|].
    destruct (op =? 35); [destruct (op_flex r (m_args m)) eqn:E; try exact I; eapply flex_ops_inv; eauto|].
    destruct (op =? 36); [destruct (op_hflex1 r (m_args m)) eqn:E; try exact I; eapply flex_ops_inv; eauto|].
    destruct (op =? 37); [destruct (op_flex1 r (m_args m)) eqn:E; try exact I; eapply flex_ops_inv; eauto 6|].
    exact I.
Qed.

Definition path_ok (r : reader) : Prop := exists f c, wf_rev (r_segs r) = Some (f, c).

Lemma step_path l g m r : path_inv r ->
  match step l g m r with
  | Ok (Continue _ r') => path_inv r'
  | Ok (Stop r') => path_ok r'
  | _ => True
  end.
Proof.
  intros H. unfold step.
  destruct (parse_number (m_instr m)) as [[[v rest]| | |]|]; try exact I.
  - destruct (top m =? ARG_STACK_SIZE); [exact I|exact H].
  - destruct (m_instr m) as [|b rest]; [eexists; eexists; exact H|].
    destruct (b =? 12).
    + destruct rest as [|b2 rest2]; [exact I|].
      pose proof (apply_op_path l g (mkM rest2 (m_calls m) (m_args m)) r true b2 H) as P.
      destruct (apply_op _ _ _ _ _ _) as [[m' r'|r']| | |]; try exact I; [exact P|].
      destruct P as [f P]. exists f, f. exact P.
    + pose proof (apply_op_path l g (mkM rest (m_calls m) (m_args m)) r false b H) as P.
      destruct (apply_op _ _ _ _ _ _) as [[m' r'|r']| | |]; try exact I; [exact P|].
      destruct P as [f P]. exists f, f. exact P.
Qed.

Lemma run_loop_path fuel l g : forall m r r', path_inv r -> run_loop fuel l g m r = Ok r' -> path_ok r'.
Proof.
  induction fuel as [|k IH]; intros m r r' H; [discriminate|].
  cbn [run_loop]. destruct (m_instr m) eqn:Ei.
  - destruct (m_calls m); [intros E; inversion E; subst; eexists; eexists; exact H|apply IH; exact H].
  - pose proof (step_path l g m r H) as P.
    destruct (step l g m r) as [[m1 r1|r1]| | |]; cbn [bind]; try discriminate.
    + apply IH; exact P.
    + intros E; inversion E; subst. exact P.
Qed.

Lemma load_glyph_path_lemma fuel cs l g segs b :
  load_glyph fuel cs l g = Ok (segs, b) -> exists f c, wf_rev (rev segs) = Some (f, c).
Proof.
  unfold load_glyph. destruct (run_loop fuel l g (mkM cs [] []) rd_init) as [r| | |] eqn:E; cbn [bind]; try discriminate.
  intros H; inversion H; subst. rewrite rev_involutive.
  eapply run_loop_path; [|exact E]. reflexivity.
Qed.
