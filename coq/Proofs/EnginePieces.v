(* C18: the engine pieces put together.  Every engine built from the modelled passes (legacy kerning, GSUB single /
   ligature substitution, GPOS mark-to-base attachment; any number, any order) is cut-safe; the link between "cluster c is
   not flagged" and the flags propagateFlags leaves; the link between the models' window flagging and unsafeToBreak of
   Model/Buffer.v; the cut statement for the model of otApplyFallbackKern itself, in both buffer directions. *)
From TV Require Import Model.KernMachine Model.MarkBase Model.GsubLig Spec.LocalEngine Spec.Buffer.
From TV Require Import Proofs.LocalEngine Proofs.EngineItem Proofs.KernMachine Proofs.MarkBase Proofs.GsubLig.
From TV Require Proofs.Buffer Proofs.BufferOps.

(* ---- kerning under the common invariant ---- *)
Theorem kern_step_ok_mb P : step_ok icl iutb sideL inv_mb (kern_pass P).
Proof.
  apply (step_ok_strengthen icl iutb sideL sorted nomult (kern_pass P) (kern_step_ok P)).
  intros L R d t Hne _ HN. rewrite kern_pass_step. destruct t as [|x rest]; [contradiction|].
  apply (refines_nomult (d ++ x :: rest)); [|exact HN]. intros y Hy. apply (kstep_gp P d x rest y Hy).
Qed.

(* ---- engines made of the modelled pieces ---- *)
Inductive piece := PKern (P : kparams) | PMark (P : mbparams) | PGsub (P : gsparams).
Definition piece_pass (p : piece) : @pass item unit :=
  match p with PKern P => kern_pass P | PMark P => mb_pass P | PGsub P => gs_pass P end.

Theorem piece_step_ok p : step_ok icl iutb sideL inv_mb (piece_pass p).
Proof. destruct p; [apply kern_step_ok_mb|apply mb_step_ok|apply gs_step_ok]. Qed.

Theorem pieces_cut_safe (ps : list piece) : cut_safe icl iutb sideL inv_mb (map piece_pass ps).
Proof.
  apply wf_engine_cut_safe. apply wf_engine_unit. apply Forall_forall. intros q Hq.
  apply in_map_iff in Hq. destruct Hq as (p & <- & _). apply piece_step_ok.
Qed.

(* ---- "not flagged after propagateFlags" ---- *)
Lemma sortedZ_mono l : sortedZ l -> mono false l = true.
Proof.
  induction l as [|a [|b r] IH]; intros H; try reflexivity.
  cbn [sortedZ] in H. destruct H as [H1 H2]. rewrite Proofs.Buffer.mono_cons2. apply andb_true_iff. split.
  - apply Z.leb_le. apply H1. left. reflexivity.
  - apply IH. exact H2.
Qed.

Lemma cls_map_ig l : cls (map ig l) = icls l.
Proof. unfold cls, icls. rewrite map_map. reflexivity. Qed.

(* W is what the engine produced; b the buffer holding its glyphs, with a flag write recorded.  If after propagateFlags
   some glyph of cluster c is not flagged unsafe-to-break, then c is neither flagged nor merged away in W. *)
Theorem unflagged_after_propagate W lv c pl pc fc ft : (lv =? 2) = false -> sorted W ->
  forall b', propagate_flags (mkB (map ig W) [] 0 false pl pc lv fc ft true) = Ok b' ->
  (exists h, In h (info b') /\ cl h = c /\ utb (gf h) = false) ->
  fog icl iutb c W = false.
Proof.
  intros Hl HS b' Ep (h & Hh & Ec & Eu).
  set (b := mkB (map ig W) [] 0 false pl pc lv fc ft true) in *.
  assert (Hm : monotone (cls (info b)) = true).
  { unfold monotone. cbn [info b]. rewrite cls_map_ig. rewrite (sortedZ_mono _ HS). reflexivity. }
  destruct (Proofs.Buffer.propagate_flags_uniform b) as (b2 & E2 & Ecls & _); [cbn; rewrite Hl; reflexivity|exact Hm|].
  rewrite Ep in E2. injection E2 as <-.
  destruct (fog icl iutb c W) eqn:F; [exfalso|reflexivity].
  apply fog_spec in F. destruct F as [F|(x & Hx & Ex & Ux)].
  - assert (In c (cls (info b'))) by (rewrite <- Ec; apply in_map; exact Hh).
    rewrite Ecls in H. cbn [info b] in H. rewrite cls_map_ig in H. apply in_icls_inv in H. destruct H as (x & Hx & Ex).
    exact (F x Hx Ex).
  - assert (U : utb (gf h) = true).
    { apply (Proofs.BufferOps.propagate_keeps_unsafe b b' Hl Hm eq_refl Ep (ig x)); [apply in_map; exact Hx|exact Ux|exact Hh|].
      rewrite Ec. symmetry. exact Ex. }
    congruence.
Qed.

(* ---- the models' window flagging is unsafeToBreak of Model/Buffer.v ---- *)
Lemma map_ig_flag_window w :
  map ig (flag_window w)
  = match w with
    | _ :: _ :: _ => map (fun g => if cl g =? lmin (cls (map ig w)) then g else or_flags m_break g) (map ig w)
    | _ => map ig w
    end.
Proof.
  unfold flag_window, flag_window_m. destruct w as [|a [|b r]]; try reflexivity.
  rewrite !map_map. rewrite cls_map_ig. apply map_ext. intros x. unfold icl.
  change (lmin (icls (a :: b :: r))) with (lminz (icls (a :: b :: r))).
  destruct (cl (ig x) =? _); reflexivity.
Qed.

Theorem flag_window_is_unsafe_to_break lv a w b0 pl pc fc ft hg : (lv =? 2) = false -> sorted (a ++ w ++ b0) ->
  Forall (fun x => icl x <= max_int) (a ++ w ++ b0) ->
  exists b', unsafe_to_break (mkB (map ig (a ++ w ++ b0)) [] 0 false pl pc lv fc ft hg) (zlen a) (zlen a + zlen w) = Ok b'
    /\ info b' = map ig (a ++ flag_window w ++ b0).
Proof.
  intros Hl HS Hmax.
  set (B := mkB (map ig (a ++ w ++ b0)) [] 0 false pl pc lv fc ft hg).
  assert (Hm : monotone (cls (info B)) = true).
  { unfold monotone. cbn [info B]. rewrite cls_map_ig. rewrite (sortedZ_mono _ HS). reflexivity. }
  destruct (Proofs.Buffer.unsafe_marks_interior_lemma B (zlen a) (zlen a + zlen w)) as (b' & E & Ei & _).
  - exact Hl.
  - unfold zlen. lia.
  - exact Hm.
  - cbn [info B]. apply Forall_forall. intros g Hg. apply in_map_iff in Hg. destruct Hg as (x & <- & Hx).
    rewrite Forall_forall in Hmax. apply (Hmax x Hx).
  - exists b'. split; [exact E|]. rewrite Ei. cbn [info B]. unfold marks_interior.
    rewrite !map_app. set (A1 := map ig a). set (W1 := map ig w). set (B1 := map ig b0).
    assert (La : zlen a = zlen A1) by (unfold A1; rewrite Proofs.Buffer.zlen_map; reflexivity).
    assert (Lw : zlen w = zlen W1) by (unfold W1; rewrite Proofs.Buffer.zlen_map; reflexivity).
    assert (Emin : Z.min (zlen a + zlen w) (zlen (A1 ++ W1 ++ B1)) = zlen A1 + zlen W1).
    { rewrite !zlen_app. rewrite La, Lw. pose proof (zlen_nonneg B1). lia. }
    rewrite Emin. rewrite La.
    replace (zlen A1 + zlen W1 - zlen A1) with (zlen W1) by lia.
    destruct (Z.ltb_spec (zlen W1) 2) as [Hs|Hb].
    + assert (map ig (flag_window w) = W1) as ->; [|reflexivity].
      rewrite map_ig_flag_window. destruct w as [|u [|v r]]; try reflexivity.
      unfold W1, zlen in Hs. cbn in Hs. lia.
    + rewrite Proofs.Buffer.slice_app_mid.
      destruct (Proofs.Buffer.map_range_view (fun g => if cl g =? lmin (cls W1) then g else or_flags m_break g)
                  (zlen A1) (zlen A1 + zlen W1) (A1 ++ W1 ++ B1)) as (l1 & l2 & l3 & E1 & L1 & L2 & S2 & MR).
      * apply zlen_nonneg.
      * pose proof (zlen_nonneg W1). lia.
      * rewrite !zlen_app. pose proof (zlen_nonneg B1). lia.
      * rewrite MR. rewrite Proofs.Buffer.slice_app_mid in S2. subst l2.
        destruct (Proofs.Buffer.app_eq_len _ _ _ _ E1 (eq_sym L1)) as [<- E3].
        apply app_inv_head in E3. subst l3.
        f_equal. f_equal. rewrite map_ig_flag_window. destruct w as [|u [|v r]]; try reflexivity;
          unfold W1, zlen in Hb; cbn in Hb; lia.
Qed.

(* ---- the model of otApplyFallbackKern ---- *)
Lemma lok_split P a b : Forall (lok P) (a ++ b) -> Forall (lok P) a /\ Forall (lok P) b.
Proof. apply Forall_app. Qed.

Theorem fallback_kern_cut_safe P pre suf c rec : sorted (pre ++ suf) -> cutv icl sideL c pre suf = true ->
  left_okb P (pre ++ suf) = true ->
  let W := fst (fallback_kern_f P false false (pre ++ suf) rec) in
  fog icl iutb c W = false ->
  W = fst (fallback_kern_f P false false pre rec) ++ fst (fallback_kern_f P false false suf rec).
Proof.
  intros HS HC HL W HF. subst W. unfold fallback_kern_f in *.
  apply left_okb_lok in HL. destruct (lok_split P pre suf HL) as [HLp HLs].
  rewrite (kern_f_is_pass P [] [] (pre ++ suf) rec HL) in *.
  rewrite (kern_f_is_pass P [] (suf ++ []) pre rec HLp). rewrite (kern_f_is_pass P ([] ++ pre) [] suf rec HLs).
  pose proof HS as HS'. apply sorted_app in HS'. destruct HS' as (Sp & Ss & _).
  assert (W : wf_engine icl iutb sideL sorted [kern_pass P]).
  { apply wf_engine_unit. constructor; [apply kern_step_ok|constructor]. }
  exact (wf_engine_cut_safe icl iutb sideL sorted [kern_pass P] W [] [] pre suf c HS Sp Ss HC HF).
Qed.

Lemma fog_rev c (l : list item) : fog icl iutb c (rev l) = fog icl iutb c l.
Proof.
  destruct (fog icl iutb c l) eqn:F.
  - apply fog_spec in F. apply fog_spec. destruct F as [F|(x & Hx & R)].
    + left. intros x Hx. apply F. apply in_rev. exact Hx.
    + right. exists x. split; [apply in_rev; rewrite rev_involutive; exact Hx|exact R].
  - destruct (fog icl iutb c (rev l)) eqn:F'; [|reflexivity]. apply fog_spec in F'.
    assert (fog icl iutb c l = true); [|congruence]. apply fog_spec. destruct F' as [F'|(x & Hx & R)].
    + left. intros x Hx. apply F'. apply in_rev. rewrite rev_involutive. exact Hx.
    + right. exists x. split; [apply in_rev; exact Hx|exact R].
Qed.

Lemma fst_fallback_backward P l rec : fst (fallback_kern_f P false true l rec) = rev (fst (kern_f P false (rev l) rec)).
Proof. unfold fallback_kern_f. destruct (kern_f P false (rev l) rec). reflexivity. Qed.

(* a backward buffer (right-to-left run): hi holds the later text (clusters >= c) and comes first *)
Theorem fallback_kern_cut_safe_backward P hi lo c rec : sorted (rev (hi ++ lo)) -> cutv icl sideL c (rev lo) (rev hi) = true ->
  left_okb P (rev (hi ++ lo)) = true ->
  let W := fst (fallback_kern_f P false true (hi ++ lo) rec) in
  fog icl iutb c W = false ->
  W = fst (fallback_kern_f P false true hi rec) ++ fst (fallback_kern_f P false true lo rec).
Proof.
  intros HS HC HL W HF. subst W. rewrite !fst_fallback_backward in *. rewrite fog_rev in HF.
  rewrite rev_app_distr in *.
  pose proof (fallback_kern_cut_safe P (rev lo) (rev hi) c rec HS HC HL) as H. cbv zeta in H.
  unfold fallback_kern_f in H. rewrite (H HF). rewrite rev_app_distr. reflexivity.
Qed.
