(* Proofs about Model/LangSet.v (fontscan/langset.go): the [8]uint64 bit set is a set of LangIDs modulo 512, and
   newLangsetFromCoverage records exactly the languages whose exemplar rune set is included in the coverage. *)
From TV Require Import Lib.GoNum Lib.Res Lib.Bytes Model.RuneSet Spec.RuneSet Model.LangSet Spec.LangSet
  Proofs.RuneSet Proofs.RuneSetIncl.
From Coq Require Import ZifyBool.

Local Ltac zdm := Z.div_mod_to_equations.

(* ------------------------------------------------------------------ 1. reflection of the boolean invariant *)
Lemma sorted_fromb_sorted lo rs : sorted_fromb lo rs = true -> sorted_from lo rs.
Proof.
  revert lo; induction rs as [|p t IH]; intros lo H; simpl in *; auto.
  apply andb_true_iff in H as [H1 H2]. split; [lia|apply IH; auto].
Qed.
Lemma page_okb_ok p : page_okb p = true -> page_ok p.
Proof.
  unfold page_okb, page_ok. intros H.
  apply andb_true_iff in H as [H H3]. apply andb_true_iff in H as [H1 H2].
  split; [lia|]. split; [apply Nat.eqb_eq; auto|].
  rewrite forallb_forall in H3. apply Forall_forall. intros w Hw. specialize (H3 w Hw). unfold word_ok. lia.
Qed.
Lemma invb_inv : forall rs, invb rs = true -> inv rs.
Proof.
  intros rs H. unfold invb in H. apply andb_true_iff in H as [H1 H2]. split.
  - apply sorted_fromb_sorted; auto.
  - rewrite forallb_forall in H2. apply Forall_forall. intros p Hp. apply page_okb_ok; auto.
Qed.
Lemma forallb_invb_inv tab : forallb invb tab = true -> Forall inv tab.
Proof.
  rewrite forallb_forall. intros H. apply Forall_forall. intros r Hr. apply invb_inv; auto.
Qed.

(* ------------------------------------------------------------------ 2. bit-set algebra *)
Definition w64_ok (w : Z) : Prop := 0 <= w < 18446744073709551616.
Definition ls_ok (ls : LangSet) : Prop := length ls = 8%nat /\ Forall (fun w => 0 <= w < 18446744073709551616) ls.

Lemma ls_page_eq l : ls_page l = (l mod 512) / 64.
Proof.
  unfold ls_page. change 511 with (Z.ones 9). rewrite Z.land_ones by lia.
  rewrite Z.shiftr_div_pow2 by lia. reflexivity.
Qed.
Lemma ls_bitpos_eq l : ls_bitpos l = l mod 64.
Proof. unfold ls_bitpos. change 63 with (Z.ones 6). rewrite Z.land_ones by lia. reflexivity. Qed.
Lemma ls_page_range l : 0 <= ls_page l < 8.
Proof. rewrite ls_page_eq. split; zdm; lia. Qed.
Lemma ls_bitpos_range l : 0 <= ls_bitpos l < 64.
Proof. rewrite ls_bitpos_eq. split; zdm; lia. Qed.

Lemma bit64_ok b : 0 <= b < 64 -> w64_ok (Z.shiftl 1 b).
Proof.
  intros H. unfold w64_ok. rewrite Z.shiftl_1_l. split; [apply Z.pow_nonneg; lia|].
  change 18446744073709551616 with (2 ^ 64). apply Z.pow_lt_mono_r; lia.
Qed.
Lemma wrap64_bit b : 0 <= b < 64 -> wrap64 (Z.shiftl 1 b) = Z.shiftl 1 b.
Proof. intros H. unfold wrap64. apply Z.mod_small. apply (bit64_ok b H). Qed.

Lemma w64_ok_lor a b : w64_ok a -> w64_ok b -> w64_ok (Z.lor a b).
Proof.
  unfold w64_ok. intros [Ha1 Ha2] [Hb1 Hb2]. split; [apply Z.lor_nonneg; auto|].
  destruct (Z.eq_dec (Z.lor a b) 0) as [->|Hn]; [lia|].
  apply Z.log2_lt_cancel. rewrite Z.log2_lor by lia. change (Z.log2 18446744073709551616) with 64.
  destruct (Z.eq_dec a 0) as [->|]; destruct (Z.eq_dec b 0) as [->|]; simpl Z.log2; try lia.
  - assert (Z.log2 b < 64) by (apply Z.log2_lt_pow2; lia). lia.
  - assert (Z.log2 a < 64) by (apply Z.log2_lt_pow2; lia). lia.
  - assert (Z.log2 a < 64) by (apply Z.log2_lt_pow2; lia).
    assert (Z.log2 b < 64) by (apply Z.log2_lt_pow2; lia). lia.
Qed.

(* Contains reads one bit *)
Lemma ls_contains_testbit ls x : ls_contains ls x = Z.testbit (znth 0 ls (ls_page x)) (ls_bitpos x).
Proof.
  unfold ls_contains. pose proof (ls_bitpos_range x). rewrite wrap64_bit by lia. apply contains_bit. lia.
Qed.

(* two LangIDs hit the same bit iff they agree modulo 512 *)
Lemma same_slot x l : (x mod 512 =? l mod 512) = (ls_page x =? ls_page l) && (ls_bitpos l =? ls_bitpos x).
Proof.
  rewrite !ls_page_eq, !ls_bitpos_eq.
  destruct (x mod 512 =? l mod 512) eqn:E.
  - apply Z.eqb_eq in E. symmetry. apply andb_true_iff. split; apply Z.eqb_eq; [rewrite E; reflexivity|].
    zdm. lia.
  - apply Z.eqb_neq in E. symmetry. apply not_true_is_false. intros H.
    apply andb_true_iff in H as [H1 H2]. apply Z.eqb_eq in H1, H2. apply E. zdm. lia.
Qed.

Lemma ls_add_ok ls l : ls_ok ls -> ls_ok (ls_add ls l).
Proof.
  intros [L W]. unfold ls_add. split; [rewrite zupd_length; auto|].
  apply Forall_zupd; auto. intros w Hw. pose proof (ls_bitpos_range l).
  rewrite wrap64_bit by lia. apply w64_ok_lor; [exact Hw|apply bit64_ok; lia].
Qed.
Lemma ls_add_contains ls l x : length ls = 8%nat ->
  ls_contains (ls_add ls l) x = ((x mod 512 =? l mod 512) || ls_contains ls x).
Proof.
  intros L. rewrite !ls_contains_testbit, same_slot. unfold ls_add.
  pose proof (ls_page_range l). pose proof (ls_page_range x).
  pose proof (ls_bitpos_range l). pose proof (ls_bitpos_range x).
  rewrite znth_zupd by (unfold zlen; lia). rewrite wrap64_bit by lia.
  destruct (ls_page x =? ls_page l) eqn:E.
  - apply Z.eqb_eq in E. rewrite add_bit by lia. rewrite E. simpl. apply orb_comm.
  - reflexivity.
Qed.

Lemma ls_add_spec : forall ls l x, ls_ok ls -> 0 <= l -> 0 <= x ->
  ls_ok (ls_add ls l) /\ ls_contains (ls_add ls l) x = ((x mod 512 =? l mod 512) || ls_contains ls x).
Proof.
  intros ls l x H _ _. split; [apply ls_add_ok; auto|apply ls_add_contains; apply H].
Qed.

Lemma ls_empty_spec : ls_ok ls_empty /\ forall x, ls_contains ls_empty x = false.
Proof.
  split.
  - split; [reflexivity|]. unfold ls_empty. repeat constructor; lia.
  - intros x. rewrite ls_contains_testbit. pose proof (ls_page_range x) as H.
    assert (E : znth 0 ls_empty (ls_page x) = 0).
    { unfold znth. destruct (ls_page x <? 0) eqn:E0; [reflexivity|].
      assert (Hn : (Z.to_nat (ls_page x) < 8)%nat) by lia. revert Hn. generalize (Z.to_nat (ls_page x)) as n.
      intros n Hn. do 8 (destruct n as [|n]; [reflexivity|]). lia. }
    rewrite E. apply Z.bits_0.
Qed.

(* ------------------------------------------------------------------ 3. newLangsetFromCoverage *)
Lemma langset_loop_spec rs : inv rs ->
  forall tab id out, Forall inv tab -> 0 <= id -> id + zlen tab <= 512 -> ls_ok out ->
  exists ls, langset_loop rs tab id out = Ok ls /\ ls_ok ls /\
    forall x, 0 <= x < 512 ->
      (ls_contains ls x = true <->
       ls_contains out x = true \/ (id <= x < id + zlen tab /\ subset_of rs (nth (Z.to_nat (x - id)) tab []))).
Proof.
  intros Irs. induction tab as [|runes t IH]; intros id out Ft Hid Hb Ho.
  - exists out. split; [reflexivity|]. split; auto. intros x Hx. rewrite zlen_nil. split; [auto|].
    intros [H|[H _]]; [auto|lia].
  - inversion Ft as [|? ? Ir Ft']; subst. rewrite zlen_cons in Hb. pose proof (zlen_nonneg t) as Hz.
    cbn [langset_loop]. destruct (includes_total rs runes Irs Ir) as [v Ev]. rewrite Ev. cbn [bind].
    pose proof (includes_iff rs runes Irs Ir) as Iff. rewrite Ev in Iff.
    set (out' := if v then ls_add out (wrap16 id) else out).
    assert (Ho' : ls_ok out') by (unfold out'; destruct v; auto; apply ls_add_ok; auto).
    destruct (IH (id + 1) out' Ft' ltac:(lia) ltac:(lia) Ho') as [ls [E [Ok' C]]].
    exists ls. split; auto. split; auto. intros x Hx. rewrite (C x Hx). rewrite zlen_cons.
    assert (Hnth : id < x -> nth (Z.to_nat (x - id)) (runes :: t) [] = nth (Z.to_nat (x - (id + 1))) t []).
    { intros Hlt. replace (Z.to_nat (x - id)) with (S (Z.to_nat (x - (id + 1)))) by lia. reflexivity. }
    assert (Hc : ls_contains out' x = if v then (x =? id) || ls_contains out x else ls_contains out x).
    { unfold out'. destruct v; auto. rewrite ls_add_contains by apply Ho.
      rewrite wrap16_small by lia. rewrite !Z.mod_small by lia. reflexivity. }
    rewrite Hc. split.
    + intros [H|[H1 H2]].
      * destruct v; [|left; auto]. apply orb_true_iff in H as [H|H]; [|left; auto].
        apply Z.eqb_eq in H. subst x. right. split; [lia|].
        replace (id - id) with 0 by lia. simpl. apply Iff. reflexivity.
      * right. split; [lia|]. rewrite Hnth by lia. exact H2.
    + intros [H|[H1 H2]].
      * left. destruct v; auto. rewrite H. apply orb_true_r.
      * destruct (Z.eq_dec x id) as [->|Hne].
        -- left. replace (id - id) with 0 in H2 by lia. simpl in H2. apply Iff in H2.
           injection H2 as ->. rewrite Z.eqb_refl. reflexivity.
        -- right. split; [lia|]. rewrite <- Hnth by lia. exact H2.
Qed.

Lemma langset_exact : forall tab rs, inv rs -> Forall inv tab -> zlen tab <= 512 ->
  exists ls, new_langset tab rs = Ok ls /\ ls_ok ls /\
    (forall id, 0 <= id < zlen tab ->
       (ls_contains ls id = true <-> subset_of rs (nth (Z.to_nat id) tab []))) /\
    (forall id, zlen tab <= id < 512 -> ls_contains ls id = false).
Proof.
  intros tab rs Irs Ft Hb. destruct ls_empty_spec as [Oe Ce]. pose proof (zlen_nonneg tab) as Hz.
  destruct (langset_loop_spec rs Irs tab 0 ls_empty Ft ltac:(lia) ltac:(lia) Oe) as [ls [E [Ok' C]]].
  exists ls. split; [exact E|]. split; auto. split.
  - intros id Hid. rewrite (C id ltac:(lia)). rewrite Ce. replace (id - 0) with id by lia. split.
    + intros [H|[_ H]]; [discriminate|exact H].
    + intros H. right. split; [lia|exact H].
  - intros id Hid. apply not_true_is_false. intros H. apply (C id ltac:(lia)) in H.
    destruct H as [H|[H _]]; [rewrite Ce in H; discriminate|lia].
Qed.

(* ------------------------------------------------------------------ 4. with the boolean table check *)
Lemma langset_exact_b : forall tab rs, inv rs -> forallb invb tab = true -> zlen tab <= 512 ->
  exists ls, new_langset tab rs = Ok ls /\ ls_ok ls /\
    (forall id, 0 <= id < zlen tab ->
       (ls_contains ls id = true <-> subset_of rs (nth (Z.to_nat id) tab []))) /\
    (forall id, zlen tab <= id < 512 -> ls_contains ls id = false).
Proof. intros tab rs Irs Ft Hb. apply langset_exact; auto. apply forallb_invb_inv; auto. Qed.
