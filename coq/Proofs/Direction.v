(* Buffer directions (C18).  The contract of Spec/LocalEngine.v is parametric in `side` (which cluster values lie on the
   text-later side of a cut) and in the invariant.  A buffer in logical order has non-decreasing clusters (sideL, sorted);
   the buffer of a right-to-left run is in visual order: non-increasing clusters (sideR, rsorted), the GSUB / GPOS lookups
   run forward over it as they do over a left-to-right one.  What the proofs of the instances use of a direction is
   collected in dir_ok:
     d_same     the invariant only depends on the cluster values;
     d_flagged  a flagged window that crosses a cut flags the cut (the cluster value c of the cut is then not the minimal
                cluster of the window, whichever way the buffer runs: the minimal cluster is the text-earliest one). *)
From TV Require Import Model.EngineItem Spec.LocalEngine Proofs.LocalEngine Proofs.EngineItem Proofs.KernMachine.

Definition sideR (c v : Z) : bool := v <? c.
Definition rsorted (l : list item) : Prop := sorted (rev l).

Record dir_ok (side : Z -> Z -> bool) (srt : list item -> Prop) : Prop := mkDir {
  d_same : forall l l', icls l = icls l' -> srt l -> srt l';
  d_flagged : forall a w b c, srt (a ++ w ++ b) ->
     (forall y, In y a -> side c (icl y) = false) -> (forall y, In y b -> side c (icl y) = true) ->
     (exists x, In x w /\ side c (icl x) = false) -> (exists z, In z w /\ side c (icl z) = true) ->
     fog icl iutb c (a ++ flag_window w ++ b) = true
}.

Theorem dirL : dir_ok sideL sorted.
Proof.
  constructor.
  - intros l l' E. apply sorted_same. exact E.
  - intros a w b c S Ha Hb (x & Hx & Lx) (z & Hz & Lz). unfold sideL in *. apply fog_flag_window.
    + exact S.
    + intros y Hy. specialize (Ha y Hy). apply Z.leb_gt in Ha. exact Ha.
    + intros y Hy. specialize (Hb y Hy). apply Z.leb_le in Hb. exact Hb.
    + exists x. split; [exact Hx|]. apply Z.leb_gt in Lx. exact Lx.
    + exists z. split; [exact Hz|]. apply Z.leb_le in Lz. exact Lz.
Qed.

Lemma icls_rev l : icls (rev l) = rev (icls l).
Proof. unfold icls. apply map_rev. Qed.

Lemma rsorted_app a b : rsorted (a ++ b) -> rsorted a /\ rsorted b /\ (forall x y, In x a -> In y b -> icl y <= icl x).
Proof.
  unfold rsorted. rewrite rev_app_distr. intros H. apply sorted_app in H. destruct H as (Sb & Sa & H).
  split; [exact Sa|]. split; [exact Sb|]. intros x y Hx Hy. apply H; apply in_rev; rewrite rev_involutive; assumption.
Qed.

Theorem dirR : dir_ok sideR rsorted.
Proof.
  constructor.
  - intros l l' E. unfold rsorted. apply sorted_same. rewrite !icls_rev, E. reflexivity.
  - intros a w b c S Ha Hb (x & Hx & Lx) (z & Hz & Lz). unfold sideR in *.
    apply Z.ltb_ge in Lx. apply Z.ltb_lt in Lz.
    apply fog_spec.
    destruct (has_clI c (a ++ w ++ b)) eqn:E.
    + right. apply has_cl_spec in E. destruct E as (y & Hy & Ey).
      assert (L2 : (2 <= length w)%nat).
      { destruct w as [|u [|v r]]; [destruct Hx|destruct Hx as [<-|[]]; destruct Hz as [<-|[]]; lia|cbn; lia]. }
      assert (Lmin : lminz (icls w) < c) by (pose proof (lminz_le (icls w) (icl z) (in_icls z w Hz)); lia).
      assert (exists u, In u w /\ icl u = c) as (u & Hu & Eu).
      { apply rsorted_app in S. destruct S as (_ & _ & Saw).
        apply in_app_or in Hy. destruct Hy as [Hy|Hy].
        - exists x. split; [exact Hx|]. specialize (Saw y x Hy (in_or_app _ _ _ (or_introl Hx))). lia.
        - apply in_app_or in Hy. destruct Hy as [Hy|Hy]; [exists y; auto|].
          specialize (Hb y Hy). apply Z.ltb_lt in Hb. lia. }
      destruct (flag_window_flags w u L2 Hu ltac:(lia)) as (u' & Hu' & E' & U').
      exists u'. split; [apply in_or_app; right; apply in_or_app; left; exact Hu'|split; [congruence|exact U']].
    + left. intros y Hy Ey.
      assert (exists y0, In y0 (a ++ w ++ b) /\ icl y0 = c) as (y0 & H0 & E0).
      { assert (R : refines (a ++ w ++ b) (a ++ flag_window w ++ b)).
        { apply refines_app; [apply refines_refl|]. apply refines_app; [apply flag_window_refines|apply refines_refl]. }
        destruct (refines_cls _ _ R y Hy) as (y0 & H0 & E0). exists y0. split; [exact H0|congruence]. }
      assert (has_clI c (a ++ w ++ b) = true) by (apply has_cl_spec; exists y0; auto). congruence.
Qed.

(* fog does not depend on the order *)
Lemma fog_rev_item c (l : list item) : fog icl iutb c (rev l) = fog icl iutb c l.
Proof.
  destruct (fog icl iutb c l) eqn:F.
  - apply fog_spec in F. apply fog_spec. destruct F as [F|(x & Hx & R)].
    + left. intros x Hx. apply F. apply in_rev. exact Hx.
    + right. exists x. split; [apply in_rev; rewrite rev_involutive; exact Hx|exact R].
  - destruct (fog icl iutb c (rev l)) eqn:F'; [|reflexivity]. apply fog_spec in F'.
    assert (fog icl iutb c l = true); [|congruence]. apply fog_spec. destruct F' as [F'|(x & Hx & R)].
    + left. intros x Hx. apply F'. apply in_rev. rewrite rev_involutive. exact Hx.
    + right. exists x. split; [apply in_rev; exact Hx|exact R].
Qed.
