(* WordIterator: the words it yields are exactly the UAX #29 word segments whose first rune is in the Word table. *)
From TV Require Import Model.Segmenter Spec.UAX29 Proofs.SegCommon Proofs.SegIter Proofs.SegW.
Open Scope Z_scope.

Definition wflags (s : segmenter) : list bool := map a_word (sg_attrs s).

(* positions whose flag is false are passed over without any effect *)
Lemma spec_words_skip : forall k tx fl q start inw,
  (k <= length fl)%nat -> (forall j, (j < k)%nat -> nth j fl true = false) ->
  (k <= length tx)%nat ->
  spec_words tx fl q start inw = spec_words (skipn k tx) (skipn k fl) (q + Z.of_nat k) start inw.
Proof.
  induction k as [|k IH]; intros tx fl q start inw Hk Hf Ht.
  - cbn [skipn]. replace (q + Z.of_nat 0) with q by lia. reflexivity.
  - destruct fl as [|b fl']; [cbn in Hk; lia|]. destruct tx as [|o tx']; [cbn in Ht; lia|].
    assert (Hb : b = false) by (apply (Hf 0%nat); lia). subst b.
    cbn [spec_words andb skipn app]. 
    rewrite (IH tx' fl' (q + 1) start inw); [| cbn in Hk; lia | intros j Hj; apply (Hf (S j)); lia | cbn in Ht; lia].
    f_equal. lia.
Qed.

Lemma scan_word_flags : forall l p q, scan F_word l p = Some q ->
  (forall j, (j < Z.to_nat (q - p))%nat -> nth j (map a_word l) true = false)
  /\ nth (Z.to_nat (q - p)) (map a_word l) false = true /\ p <= q < p + Z.of_nat (length l).
Proof.
  induction l as [|a r IH]; intros p q H; [discriminate|].
  cbn [scan has_flag] in H. destruct (a_word a) eqn:Ha.
  - inversion H; subst. replace (q - q) with 0 by lia. cbn [Z.to_nat map nth length]. split; [intros j Hj; lia|]. split; [exact Ha | lia].
  - apply IH in H as (H1 & H2 & H3). cbn [length].
    replace (Z.to_nat (q - p)) with (S (Z.to_nat (q - (p + 1)))) by lia.
    split; [|split; [exact H2 | lia]].
    intros [|j] Hj; [exact Ha|]. cbn [map nth]. apply H1. lia.
Qed.

Lemma scan_word_none : forall l p, scan F_word l p = None -> forall j, (j < length l)%nat -> nth j (map a_word l) true = false.
Proof.
  induction l as [|a r IH]; intros p H j Hj; [cbn in Hj; lia|].
  cbn [scan has_flag] in H. destruct (a_word a) eqn:Ha; [discriminate|].
  destruct j as [|j]; [exact Ha|]. cbn [map nth]. eapply IH; [exact H | cbn in Hj; lia].
Qed.

Lemma nth_skipn_gen {A} (l : list A) k j d : nth j (skipn k l) d = nth (k + j) l d.
Proof.
  revert k; induction l as [|x r IH]; intros k.
  - rewrite skipn_nil. destruct j, k; reflexivity.
  - destruct k as [|k]; [reflexivity|]. cbn [skipn plus nth]. apply IH.
Qed.

Lemma skipn_skipn_add {A} (x y : nat) (l : list A) : skipn x (skipn y l) = skipn (y + x) l.
Proof.
  revert l. induction y as [|y IH]; intros l; [reflexivity|].
  destruct l as [|a l]; [rewrite !skipn_nil; reflexivity|]. cbn [skipn plus]. apply IH.
Qed.

Lemma spec_words_all_false : forall tx fl q start inw,
  (forall j, (j < length fl)%nat -> nth j fl true = false) -> spec_words tx fl q start inw = [].
Proof.
  induction tx as [|o tx IH]; intros fl q start inw Hf.
  - destruct fl as [|b fl']; [reflexivity|]. assert (b = false) by (apply (Hf 0%nat); cbn; lia). subst. reflexivity.
  - destruct fl as [|b fl']; [reflexivity|]. assert (b = false) by (apply (Hf 0%nat); cbn; lia). subst.
    cbn [spec_words andb app]. apply IH. intros j Hj. apply (Hf (S j)). cbn; lia.
Qed.

(* the iterator from position pos, knowing whether a word starts there *)
Lemma words_spec s : attrs_wf s ->
  forall fuel pos inw,
    0 <= pos <= Z.of_nat (length (sg_text s)) ->
    (Z.to_nat (Z.of_nat (length (sg_text s)) - pos) < fuel)%nat ->
    words s fuel pos inw
    = spec_words (skipn (Z.to_nat (pos + 1)) (sg_text s)) (skipn (Z.to_nat (pos + 1)) (wflags s)) (pos + 1) pos inw.
Proof.
  intros (Hlen & Hlast). set (n := Z.of_nat (length (sg_text s))).
  assert (Hfl : length (wflags s) = S (length (sg_text s))) by (unfold wflags; rewrite map_length; exact Hlen).
  induction fuel as [|fuel IH]; intros pos inw Hpos Hfuel; [lia|].
  cbn [words]. unfold iter_next.
  destruct (scan F_word (skipn (Z.to_nat (pos + 1)) (sg_attrs s)) (pos + 1)) as [p|] eqn:Hs.
  - apply scan_word_flags in Hs as (Hfalse & Htrue & Hp).
    rewrite skipn_length, Hlen in Hp.
    rewrite <- skipn_map in Hfalse, Htrue. fold (wflags s) in Hfalse, Htrue.
    set (k := Z.to_nat (p - (pos + 1))) in *.
    (* pass over the unflagged positions *)
    assert (Hpz : pos + 1 <= p <= n) by (unfold n; lia).
    assert (Hk1 : (k <= length (skipn (Z.to_nat (pos + 1)) (wflags s)))%nat).
    { rewrite skipn_length, Hfl. unfold k. fold n in Hpz. unfold n in Hpz. lia. }
    assert (Hk2 : (k <= length (skipn (Z.to_nat (pos + 1)) (sg_text s)))%nat).
    { rewrite skipn_length. unfold k. unfold n in Hpz. lia. }
    rewrite (spec_words_skip k _ _ _ _ _ Hk1 Hfalse Hk2).
    rewrite !skipn_skipn_add.
    replace (pos + 1 + Z.of_nat k) with p by lia.
    replace (Z.to_nat (pos + 1) + k)%nat with (Z.to_nat p) by lia.
    (* position p is flagged *)
    assert (Hflag : nth (Z.to_nat p) (wflags s) false = true).
    { rewrite nth_skipn_gen in Htrue. replace (Z.to_nat (pos + 1) + k)%nat with (Z.to_nat p) in Htrue by lia. exact Htrue. }
    destruct (skipn (Z.to_nat p) (wflags s)) as [|b fl'] eqn:Efl.
    { exfalso. apply (f_equal (@length bool)) in Efl. rewrite skipn_length, Hfl in Efl. cbn [length] in Efl. unfold n in Hpz. lia. }
    assert (Hb : b = true).
    { rewrite <- Hflag. rewrite <- (Nat.add_0_r (Z.to_nat p)), <- nth_skipn_gen, Efl. reflexivity. }
    subst b.
    assert (Hfl' : fl' = skipn (Z.to_nat (p + 1)) (wflags s)).
    { replace (Z.to_nat (p + 1)) with (Z.to_nat p + 1)%nat by lia. rewrite <- skipn_skipn_add, Efl. reflexivity. }
    cbn [spec_words andb].
    assert (Hlt : (pos <? p) = true) by (apply Z.ltb_lt; lia).
    destruct (skipn (Z.to_nat p) (sg_text s)) as [|o tx'] eqn:Etx.
    + (* p = n: the end of the text *)
      assert (Hpn : p = n).
      { apply (f_equal (@length obs)) in Etx. rewrite skipn_length in Etx. cbn [length] in Etx. unfold n in *. lia. }
      assert (Hw : is_word_at s p = false).
      { unfold is_word_at. rewrite (proj2 (nth_error_None _ _)); [reflexivity|]. lia. }
      cbn [spec_words andb]. rewrite Hlt, Hw.
      assert (Hnil : words s fuel p false = []).
      { destruct fuel as [|f]; [reflexivity|]. cbn [words]. unfold iter_next.
        rewrite skipn_all2 by (rewrite Hlen; lia). reflexivity. }
      destruct inw; rewrite Hnil; reflexivity.
    + assert (Ho : is_word_at s p = o_word o).
      { unfold is_word_at. rewrite <- (Nat.add_0_r (Z.to_nat p)).
        pose proof (nth_error_nth' (skipn (Z.to_nat p) (sg_text s)) obs_nul (n := 0)) as Hn.
        rewrite Etx in Hn. cbn [length nth] in Hn.
        assert (E : nth_error (sg_text s) (Z.to_nat p + 0) = nth_error (skipn (Z.to_nat p) (sg_text s)) 0).
        { clear. revert p. generalize (sg_text s). intros l p. revert l. generalize (Z.to_nat p). induction n as [|m IHm]; intros l.
          - reflexivity.
          - destruct l; [reflexivity|]. cbn [skipn plus nth_error]. apply IHm. }
        rewrite E, Etx. reflexivity. }
      assert (Htx' : tx' = skipn (Z.to_nat (p + 1)) (sg_text s)).
      { replace (Z.to_nat (p + 1)) with (Z.to_nat p + 1)%nat by lia. rewrite <- skipn_skipn_add, Etx. reflexivity. }
      cbn [spec_words andb]. rewrite Hlt, Ho.
      assert (Hp' : p < n).
      { apply (f_equal (@length obs)) in Etx. rewrite skipn_length in Etx. cbn [length] in Etx. unfold n in *. lia. }
      rewrite (IH p (o_word o)) by (fold n; lia).
      rewrite <- Htx', <- Hfl'.
      destruct inw; reflexivity.
  - (* no flagged position after pos: only possible at the end *)
    assert (Hpn : pos = n).
    { destruct (Z.eq_dec pos n) as [E|NE]; [exact E|]. exfalso.
      assert (Hk : (Z.to_nat (pos + 1) < length (sg_attrs s))%nat) by (rewrite Hlen; lia).
      pose proof (scan_none F_word _ _ Hs (last (skipn (Z.to_nat (pos + 1)) (sg_attrs s)) zero_attr)) as Hn.
      rewrite last_skipn in Hn by exact Hk. specialize (Hlast F_word). rewrite Hlast in Hn.
      assert (true = false); [|discriminate]. apply Hn.
      rewrite <- (last_skipn (sg_attrs s) (Z.to_nat (pos + 1)) zero_attr Hk). apply last_In.
      intros E. apply (f_equal (@length attr)) in E. rewrite skipn_length in E. cbn in E. lia. }
    symmetry. apply spec_words_all_false. intros j Hj.
    rewrite skipn_length, Hfl in Hj. lia.
Qed.

Lemma word_iterator_lemma s0 text s :
  forallb obs_wf_w text = true ->
  seg_init s0 text = Ok s -> word_segments s = uax29_words text.
Proof.
  intros Hwf Hinit.
  destruct (seg_init_wf s0 text s Hinit) as (Hawf & Htext).
  assert (Hflags : wflags s = wb_spec text).
  { unfold seg_init in Hinit. cbn [firstn app] in Hinit.
    destruct (word_lemma text Hwf) as (attrs & E & Hw). rewrite E in Hinit. cbn [bind] in Hinit.
    inversion Hinit; subst. exact Hw. }
  unfold word_segments, uax29_words.
  rewrite (words_spec s Hawf) by lia.
  rewrite Htext, Hflags. change (Z.to_nat (0 + 1)) with 1%nat. change (0 + 1) with 1.
  destruct text as [|o text'].
  - cbn. reflexivity.
  - unfold wb_spec. cbn [positions skipn spec_words wb_boundary]. 
    destruct (positions wb_boundary [o] text') eqn:Ep; [destruct text'; discriminate|].
    cbn [andb app]. reflexivity.
Qed.
