(* The third (recompose) round of otShapeNormalize (Model/Engine.v round3) preserves WF while output is in progress, never
   panics and terminates within the fuel count - idx, for every buffer, compose function, cmap and Unicode data. *)
From TV Require Import Model.Buffer Spec.Buffer Proofs.ShapeGlue Proofs.Buffer Proofs.BufferOps Proofs.BufferNewOps Proofs.BufferAll.
From TV Require Import Model.Engine Proofs.Engine.

(* ---------- frame facts ---------- *)

Lemma next_glyph_frame b : have_out b = true -> 0 <= idx b -> idx b < zlen (info b) ->
  next_glyph b = Ok (with_idx (with_out b (out b ++ [nth (Z.to_nat (idx b)) (info b) g0])) (idx b + 1)).
Proof.
  intros Hh H0 H1. unfold next_glyph. rewrite Hh, getg_ok by lia. reflexivity.
Qed.

Lemma merge_out_frame b s e b' : 0 <= idx b -> idx b <= zlen (info b) -> 0 <= s -> s <= e -> e <= zlen (out b) ->
  merge_out_clusters b s e = Ok b' ->
  idx b' = idx b /\ have_out b' = have_out b /\ level b' = level b /\ zlen (info b') = zlen (info b) /\ zlen (out b') = zlen (out b).
Proof.
  intros I0 I1 H0 H1 H2. unfold merge_out_clusters.
  destruct (level b =? 2); [intros E; inversion E; subst; auto 10|].
  destruct (Z.ltb_spec (e - s) 2); [intros E; inversion E; subst; auto 10|].
  destruct (Z.leb_spec 0 s); [|lia]. destruct (Z.leb_spec e (zlen (out b))); [|lia]. cbn [andb negb].
  set (o := out b) in *.
  set (c := min_cl (cl (nth (Z.to_nat s) o g0)) (slice (s + 1) e o)).
  set (s' := s - run_eq (cl (nth (Z.to_nat s) o g0)) (rev (zfirstn s o))).
  set (e' := e + run_eq (cl (nth (Z.to_nat (e - 1)) o g0)) (zskipn e o)).
  assert (Hs' : 0 <= s' /\ s' <= s).
  { pose proof (run_eq_bound (cl (nth (Z.to_nat s) o g0)) (rev (zfirstn s o))) as B. rewrite zlen_rev, zlen_zfirstn in B by lia. subst s'. lia. }
  assert (He' : e <= e' /\ e' <= zlen o).
  { pose proof (run_eq_bound (cl (nth (Z.to_nat (e - 1)) o g0)) (zskipn e o)) as B. rewrite zlen_zskipn in B by lia. subst e'. lia. }
  destruct (Z.eqb_spec e' (zlen o)) as [Eend|Nend].
  - destruct (Z.ltb_spec (idx b) 0); [lia|].
    set (endC := cl (nth (Z.to_nat (e' - 1)) o g0)).
    pose proof (run_eq_bound endC (zskipn (idx b) (info b))) as Bk. rewrite zlen_zskipn in Bk by lia.
    set (k := run_eq endC (zskipn (idx b) (info b))) in *.
    intros E; inversion E; subst b'. cbn [idx info out with_info with_out level have_out].
    rewrite !zlen_map_range by lia. auto 10.
  - intros E; inversion E; subst b'. cbn [idx info out with_info with_out level have_out].
    rewrite !zlen_map_range by lia. auto 10.
Qed.

Lemma dir_or_scratch e f : dir (or_scratch e f) = dir e.
Proof. destruct f as [[a d] c]. reflexivity. Qed.

(* replacing one glyph by a glyph of the same cluster *)
Lemma cls_replace_nth (o : list glyph) i g : 0 <= i -> i < zlen o -> cl g = cl (nth (Z.to_nat i) o g0) ->
  cls (zfirstn i o ++ [g] ++ zskipn (i + 1) o) = cls o.
Proof.
  intros H0 H1 Ec. rewrite <- (zfirstn_zskipn i o) at 3. rewrite (zskipn_cons o i) by lia.
  rewrite !cls_app. cbn [cls map app]. rewrite Ec. reflexivity.
Qed.

Lemma zlen_replace_nth {A} (o : list A) i g : 0 <= i -> i < zlen o ->
  zlen (zfirstn i o ++ [g] ++ zskipn (i + 1) o) = zlen o.
Proof.
  intros H0 H1. rewrite !zlen_app, zlen_zfirstn, zlen_zskipn by lia. rewrite zlen_cons, zlen_nil. lia.
Qed.

Section Recompose.
  Variable ugc : Z -> Z.
  Variable udi : Z -> bool.
  Variable umcc : Z -> Z.
  Variable nominal : Z -> Z * bool.
  Variable scomp : Z -> Z -> option Z.

  Lemma round3_ok_count lo hi : forall fuel count starter e,
    (level (eb e) =? 2) = false -> WF lo hi (eb e) = true -> have_out (eb e) = true ->
    count = zlen (info (eb e)) -> 0 <= starter -> starter < zlen (out (eb e)) ->
    (Z.to_nat (count - idx (eb e)) <= fuel)%nat ->
    exists e', round3 ugc udi umcc nominal scomp fuel count starter e = Ok e'
      /\ WF lo hi (eb e') = true /\ level (eb e') = level (eb e) /\ have_out (eb e') = true
      /\ zlen (info (eb e')) = zlen (info (eb e)) /\ idx (eb e') = count /\ dir e' = dir e.
  Proof.
    induction fuel as [|f IH]; intros count starter e Hl Hw Hh Hc S0 S1 Hfu;
      destruct (WF_parts lo hi (eb e) Hl Hw) as (I0 & I1 & _).
    - cbn [round3]. destruct (Z.leb_spec count (idx (eb e))); [|lia].
      exists e. repeat split; auto; lia.
    - cbn [round3]. destruct (Z.leb_spec count (idx (eb e))); [exists e; repeat split; auto; lia|].
      set (b := eb e) in *.
      rewrite getg_ok by lia. cbn [bind].
      set (cur := nth (Z.to_nat (idx b)) (info b) g0).
      destruct (Z.leb_spec 0 starter); [|lia]. destruct (Z.ltb_spec starter (zlen (out b))); [|lia].
      cbn [andb negb]. rewrite andb_false_r. cbn [andb].
      (* nextGlyph *)
      destruct (op_step lo hi ONext b Hl Hw) as (b1 & E1 & W1 & L1); [cbn [pre]; apply Z.ltb_lt; lia|reflexivity|].
      cbn [run_op] in E1. pose proof E1 as E1'. rewrite next_glyph_frame in E1' by (auto; lia).
      inversion E1' as [B1]. clear E1'.
      assert (O1 : out b1 = out b ++ [cur]) by (rewrite <- B1; reflexivity).
      assert (X1 : idx b1 = idx b + 1) by (rewrite <- B1; reflexivity).
      assert (N1 : info b1 = info b) by (rewrite <- B1; reflexivity).
      assert (Hh1 : have_out b1 = true) by (rewrite <- B1; exact Hh).
      assert (Lv1 : level b1 = level b) by (rewrite <- B1; reflexivity).
      assert (ZO1 : zlen (out b1) = zlen (out b) + 1) by (rewrite O1, zlen_app, zlen_cons, zlen_nil; lia).
      match goal with |- exists e', match ?CC with Some _ => _ | None => _ end = _ /\ _ => destruct CC as [[c g]|] eqn:Ecomp end.
      + rewrite E1. cbn [bind].
        destruct (op_step lo hi (OMergeOut starter (zlen (out b1))) b1 L1 W1) as (b2 & E2 & W2 & L2); [|reflexivity|].
        { cbn [pre]. rewrite Hh1. cbn [andb].
          destruct (Z.leb_spec 0 starter); [|lia]. destruct (Z.leb_spec starter (zlen (out b1))); [|lia].
          rewrite Z.leb_refl. reflexivity. }
        cbn [run_op] in E2. rewrite E2. cbn [bind].
        destruct (merge_out_frame b1 starter (zlen (out b1)) b2) as (X2 & Hh2 & Lv2 & ZN2 & ZO2); auto; try (rewrite ?X1, ?N1; lia).
        rewrite N1 in ZN2. rewrite Hh1 in Hh2.
        set (o := zfirstn (zlen (out b2) - 1) (out b2)).
        assert (ZO : zlen o = zlen (out b)) by (unfold o; rewrite zlen_zfirstn; lia).
        rewrite getg_ok by lia. cbn [bind].
        destruct (compute_props ugc udi umcc c) as [p fl].
        set (s' := set_up (set_gid (set_cp (nth (Z.to_nat starter) o g0) c) g) p).
        set (b3 := with_out b2 (zfirstn starter o ++ [s'] ++ zskipn (starter + 1) o)).
        assert (W3 : WF lo hi b3 = true).
        { apply (WF_ss lo hi b2); auto; unfold b3; cbn [level idx info with_out]; try lia.
          rewrite (bseq_have b2 Hh2), (bseq_have (with_out b2 _)) by (cbn [have_out with_out]; exact Hh2).
          cbn [out idx info with_out].
          rewrite <- (zfirstn_zskipn (zlen (out b2) - 1) (out b2)) at 1. fold o.
          rewrite !cls_app. rewrite <- !cls_app, (cls_app (_ ++ _ ++ _)), cls_replace_nth by (auto; lia).
          rewrite <- app_assoc. rewrite !cls_app. apply ss_remove. }
        destruct (IH count starter (or_scratch (with_eb e b3) fl)) as (e' & E' & W' & L' & Hh' & ZN' & X' & D');
          rewrite ?eb_or_scratch; cbn [eb with_eb]; unfold b3; cbn [level have_out info out idx with_out]; auto; try congruence.
        * rewrite zlen_replace_nth by lia. lia.
        * lia.
        * exists e'. split; [exact E'|]. rewrite eb_or_scratch in *. cbn [eb with_eb] in *. unfold b3 in *.
          cbn [level have_out info out idx with_out] in *. rewrite dir_or_scratch in D'. cbn [dir with_eb] in D'.
          repeat split; auto; congruence.
      + rewrite E1. cbn [bind].
        set (starter' := if mcc (lastg (out b1)) =? 0 then zlen (out b1) - 1 else starter).
        destruct (IH count starter' (with_eb e b1)) as (e' & E' & W' & L' & Hh' & ZN' & X' & D'); cbn [eb with_eb]; auto; try congruence.
        * unfold starter'. destruct (_ =? 0); lia.
        * unfold starter'. destruct (_ =? 0); lia.
        * lia.
        * exists e'. split; [exact E'|]. cbn [eb with_eb dir] in *. repeat split; auto; congruence.
  Qed.

  Lemma round3_ok lo hi : forall fuel count starter e,
    (level (eb e) =? 2) = false -> WF lo hi (eb e) = true -> have_out (eb e) = true ->
    count = zlen (info (eb e)) -> 0 <= starter -> starter < zlen (out (eb e)) ->
    (Z.to_nat (count - idx (eb e)) <= fuel)%nat ->
    exists e', round3 ugc udi umcc nominal scomp fuel count starter e = Ok e'
      /\ WF lo hi (eb e') = true /\ level (eb e') = level (eb e) /\ have_out (eb e') = true
      /\ zlen (info (eb e')) = zlen (info (eb e)) /\ idx (eb e') = Z.max (idx (eb e)) count /\ dir e' = dir e.
  Proof.
    intros fuel count starter e Hl Hw Hh Hc S0 S1 Hfu.
    destruct (WF_parts lo hi (eb e) Hl Hw) as (I0 & I1 & _).
    destruct (round3_ok_count lo hi fuel count starter e Hl Hw Hh Hc S0 S1 Hfu) as (e' & E & W & L & H & ZN & X & D).
    exists e'. repeat split; auto. lia.
  Qed.

  (* the cursor is at the end afterwards: the precondition of swapBuffers' nextGlyphs(len - idx) *)
  Lemma round3_ok_end lo hi fuel count starter e :
    (level (eb e) =? 2) = false -> WF lo hi (eb e) = true -> have_out (eb e) = true ->
    count = zlen (info (eb e)) -> 0 <= starter -> starter < zlen (out (eb e)) ->
    (Z.to_nat (count - idx (eb e)) <= fuel)%nat ->
    exists e', round3 ugc udi umcc nominal scomp fuel count starter e = Ok e'
      /\ WF lo hi (eb e') = true /\ (level (eb e') =? 2) = false /\ have_out (eb e') = true
      /\ idx (eb e') = zlen (info (eb e')) /\ dir e' = dir e.
  Proof.
    intros Hl Hw Hh Hc S0 S1 Hfu.
    destruct (round3_ok_count lo hi fuel count starter e Hl Hw Hh Hc S0 S1 Hfu) as (e' & E & W & L & H & ZN & X & D).
    exists e'. repeat split; auto; congruence.
  Qed.
End Recompose.
