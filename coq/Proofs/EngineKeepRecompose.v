(* The third (recompose) round of otShapeNormalize keeps `bkeeps`: no cluster value invented, smallest cluster value kept.
   "Recompose: mergeOutClusters on the recomposed pair, then the mark is dropped." *)
From TV Require Import Model.Buffer Spec.Buffer Proofs.ShapeGlue Proofs.Buffer Proofs.BufferOps Proofs.BufferNewOps Proofs.BufferAll.
From TV Require Import Model.Engine Proofs.Engine.
From TV Require Import Proofs.EngineKeep Proofs.EngineKeepMerge Proofs.EngineForm Proofs.EngineRecompose.

(* after mergeOutClusters(s, e) (a real merge: e - s >= 2) all glyphs of out[s, e) carry one cluster *)
Lemma merge_out_uniform b s e b' : (level b =? 2) = false -> 0 <= idx b -> idx b <= zlen (info b) ->
  0 <= s -> s + 2 <= e -> e <= zlen (out b) ->
  merge_out_clusters b s e = Ok b' ->
  forall i, s <= i -> i < e -> cl (gat (out b') i) = cl (gat (out b') s).
Proof.
  intros Hl I0 I1 H0 H1 H2. unfold merge_out_clusters. rewrite Hl.
  destruct (Z.ltb_spec (e - s) 2); [lia|].
  destruct (Z.leb_spec 0 s); [|lia]. destruct (Z.leb_spec e (zlen (out b))); [|lia]. cbn [andb negb].
  set (o := out b) in *.
  set (c := min_cl (cl (nth (Z.to_nat s) o g0)) (slice (s + 1) e o)).
  set (s' := s - run_eq (cl (nth (Z.to_nat s) o g0)) (rev (zfirstn s o))).
  set (e' := e + run_eq (cl (nth (Z.to_nat (e - 1)) o g0)) (zskipn e o)).
  assert (Hs' : 0 <= s' /\ s' <= s).
  { pose proof (run_eq_bound (cl (nth (Z.to_nat s) o g0)) (rev (zfirstn s o))) as B. rewrite zlen_rev, zlen_zfirstn in B by lia. subst s'. lia. }
  assert (He' : e <= e' /\ e' <= zlen o).
  { pose proof (run_eq_bound (cl (nth (Z.to_nat (e - 1)) o g0)) (zskipn e o)) as B. rewrite zlen_zskipn in B by lia. subst e'. lia. }
  assert (Hcl : forall i, s <= i -> i < e -> cl (gat (map_range (set_cluster c fl0) s' e' o) i) = c).
  { intros i A B. rewrite gat_map_range by lia.
    destruct (Z.leb_spec s' i); [|lia]. destruct (Z.ltb_spec i e'); [|lia]. cbn [andb]. apply cl_set_cluster. }
  assert (Fin : forall b0, out b0 = map_range (set_cluster c fl0) s' e' o ->
                forall i, s <= i -> i < e -> cl (gat (out b0) i) = cl (gat (out b0) s)).
  { intros b0 -> i A B. rewrite !Hcl by lia. reflexivity. }
  destruct (Z.eqb_spec e' (zlen o)) as [Eend|Nend].
  - destruct (Z.ltb_spec (idx b) 0); [lia|].
    intros E; inversion E; subst b'. apply Fin. reflexivity.
  - intros E; inversion E; subst b'. apply Fin. reflexivity.
Qed.

(* dropping the last glyph of out when it carries the cluster of out[starter] (which remains), and rewriting out[starter]
   without touching its cluster, keeps the set of cluster values *)
Lemma drop_last_keeps (o2 rest : list glyph) starter g :
  0 <= starter -> starter < zlen o2 - 1 ->
  cl (gat o2 (zlen o2 - 1)) = cl (gat o2 starter) ->
  cl g = cl (gat o2 starter) ->
  lkeeps (cls (o2 ++ rest))
         (cls ((zfirstn starter (zfirstn (zlen o2 - 1) o2) ++ [g] ++ zskipn (starter + 1) (zfirstn (zlen o2 - 1) o2)) ++ rest)).
Proof.
  intros S0 S1 Hlast Hg.
  set (n := zlen o2 - 1) in *. set (o := zfirstn n o2).
  assert (ZO : zlen o = n) by (unfold o; rewrite zlen_zfirstn; lia).
  assert (EO : o2 = o ++ [gat o2 n]).
  { rewrite <- (zfirstn_zskipn n o2) at 1. fold o. f_equal. rewrite (zskipn_cons o2 n) by lia.
    rewrite zskipn_all by lia. reflexivity. }
  assert (Gs : gat o starter = gat o2 starter).
  { transitivity (gat (o ++ [gat o2 n]) starter); [rewrite gat_app1 by lia; reflexivity|rewrite <- EO; reflexivity]. }
  rewrite (cls_app (_ ++ _ ++ _)), cls_replace_nth by (try lia; fold (gat o starter); congruence).
  rewrite EO at 1. rewrite !cls_app. cbn [cls map].
  apply lkeeps_same_set. intros x. rewrite !in_app_iff. cbn [In].
  split; [|tauto].
  intros [[H|[H|[]]]|H]; auto.
  left. rewrite <- H, Hlast, <- Gs. apply in_cls. unfold gat. apply nth_In. unfold zlen in *. lia.
Qed.

Section RecomposeKeep.
  Variable ugc : Z -> Z.
  Variable udi : Z -> bool.
  Variable umcc : Z -> Z.
  Variable nominal : Z -> Z * bool.
  Variable scomp : Z -> Z -> option Z.

  Lemma round3_keeps lo hi : forall fuel count starter e e',
    (level (eb e) =? 2) = false -> WF lo hi (eb e) = true -> have_out (eb e) = true ->
    count = zlen (info (eb e)) -> 0 <= starter -> starter < zlen (out (eb e)) ->
    (Z.to_nat (count - idx (eb e)) <= fuel)%nat ->
    round3 ugc udi umcc nominal scomp fuel count starter e = Ok e' -> bkeeps (eb e) (eb e').
  Proof.
    induction fuel as [|f IH]; intros count starter e e' Hl Hw Hh Hc S0 S1 Hfu;
      destruct (WF_parts lo hi (eb e) Hl Hw) as (I0 & I1 & _).
    - cbn [round3]. destruct (Z.leb_spec count (idx (eb e))); [|lia].
      intros E; inversion E; apply bkeeps_refl.
    - cbn [round3]. destruct (Z.leb_spec count (idx (eb e))); [intros E; inversion E; apply bkeeps_refl|].
      set (b := eb e) in *.
      rewrite getg_ok by lia. cbn [bind].
      set (cur := nth (Z.to_nat (idx b)) (info b) g0).
      destruct (Z.leb_spec 0 starter); [|lia]. destruct (Z.ltb_spec starter (zlen (out b))); [|lia].
      cbn [andb negb]. rewrite andb_false_r. cbn [andb].
      (* nextGlyph *)
      destruct (op_step lo hi ONext b Hl Hw) as (b1 & E1 & W1 & L1); [cbn [pre]; apply Z.ltb_lt; lia|reflexivity|].
      cbn [run_op] in E1. pose proof E1 as E1'. rewrite next_glyph_frame in E1' by (auto; lia).
      inversion E1' as [B1]. clear E1'.
      assert (O1 : out b1 = out b ++ [cur]) by (rewrite <- B1; reflexivity).
      assert (X1 : idx b1 = idx b + 1) by (rewrite <- B1; reflexivity).
      assert (N1 : info b1 = info b) by (rewrite <- B1; reflexivity).
      assert (Hh1 : have_out b1 = true) by (rewrite <- B1; exact Hh).
      assert (Lv1 : level b1 = level b) by (rewrite <- B1; reflexivity).
      assert (ZO1 : zlen (out b1) = zlen (out b) + 1) by (rewrite O1, zlen_app, zlen_cons, zlen_nil; lia).
      assert (K1 : bkeeps b b1).
      { apply lkeeps_eq. rewrite (bseq_have b Hh), (bseq_have b1 Hh1), O1, X1, N1.
        rewrite (zskipn_cons (info b) (idx b)) by lia. fold cur. rewrite <- app_assoc. reflexivity. }
      match goal with |- match ?CC with Some _ => _ | None => _ end = _ -> _ => destruct CC as [[c g]|] eqn:Ecomp end.
      + rewrite E1. cbn [bind].
        destruct (op_step lo hi (OMergeOut starter (zlen (out b1))) b1 L1 W1) as (b2 & E2 & W2 & L2); [|reflexivity|].
        { cbn [pre]. rewrite Hh1. cbn [andb].
          destruct (Z.leb_spec 0 starter); [|lia]. destruct (Z.leb_spec starter (zlen (out b1))); [|lia].
          rewrite Z.leb_refl. reflexivity. }
        cbn [run_op] in E2. rewrite E2. cbn [bind].
        destruct (merge_out_frame b1 starter (zlen (out b1)) b2) as (X2 & Hh2 & Lv2 & ZN2 & ZO2); auto; try (rewrite ?X1, ?N1; lia).
        rewrite N1 in ZN2. rewrite Hh1 in Hh2.
        assert (K2 : bkeeps b1 b2).
        { apply (merge_out_clusters_keeps b1 starter (zlen (out b1)) b2); auto; rewrite ?X1, ?N1; lia. }
        pose proof (merge_out_uniform b1 starter (zlen (out b1)) b2 L1 ltac:(lia) ltac:(rewrite X1, N1; lia) ltac:(lia)
                      ltac:(lia) ltac:(lia) E2) as U2.
        set (o := zfirstn (zlen (out b2) - 1) (out b2)).
        assert (ZO : zlen o = zlen (out b)) by (unfold o; rewrite zlen_zfirstn; lia).
        rewrite getg_ok by lia. cbn [bind].
        destruct (compute_props ugc udi umcc c) as [p fl].
        set (s' := set_up (set_gid (set_cp (nth (Z.to_nat starter) o g0) c) g) p).
        set (b3 := with_out b2 (zfirstn starter o ++ [s'] ++ zskipn (starter + 1) o)).
        assert (Gs : gat o starter = gat (out b2) starter).
        { transitivity (gat (o ++ zskipn (zlen (out b2) - 1) (out b2)) starter);
            [rewrite gat_app1 by lia; reflexivity|unfold o; rewrite zfirstn_zskipn; reflexivity]. }
        assert (K3 : bkeeps b2 b3).
        { unfold bkeeps. rewrite (bseq_have b2 Hh2), (bseq_have b3) by (unfold b3; cbn [have_out with_out]; exact Hh2).
          unfold b3. cbn [out idx info with_out]. unfold o.
          apply drop_last_keeps; try lia.
          - rewrite ZO2. apply U2; lia.
          - unfold s'. fold (gat o starter). rewrite Gs. reflexivity. }
        assert (W3 : WF lo hi b3 = true).
        { apply (WF_ss lo hi b2); auto; unfold b3; cbn [level idx info with_out]; try lia.
          rewrite (bseq_have b2 Hh2), (bseq_have (with_out b2 _)) by (cbn [have_out with_out]; exact Hh2).
          cbn [out idx info with_out].
          rewrite <- (zfirstn_zskipn (zlen (out b2) - 1) (out b2)) at 1. fold o.
          rewrite !cls_app. rewrite <- !cls_app, (cls_app (_ ++ _ ++ _)), cls_replace_nth by (auto; lia).
          rewrite <- app_assoc. rewrite !cls_app. apply ss_remove. }
        intros E.
        apply (bkeeps_trans b b1); [exact K1|]. apply (bkeeps_trans b1 b2); [exact K2|]. apply (bkeeps_trans b2 b3); [exact K3|].
        replace b3 with (eb (or_scratch (with_eb e b3) fl)) by (rewrite eb_or_scratch; reflexivity).
        apply (IH count starter (or_scratch (with_eb e b3) fl) e'); [..|exact E];
          rewrite ?eb_or_scratch; cbn [eb with_eb]; unfold b3; cbn [level have_out info out idx with_out]; auto; try congruence.
        * rewrite zlen_replace_nth by lia. lia.
        * lia.
      + rewrite E1. cbn [bind].
        set (starter' := if mcc (lastg (out b1)) =? 0 then zlen (out b1) - 1 else starter).
        intros E. apply (bkeeps_trans b b1); [exact K1|].
        change b1 with (eb (with_eb e b1)).
        apply (IH count starter' (with_eb e b1) e'); [..|exact E]; cbn [eb with_eb]; auto; try congruence.
        * unfold starter'. destruct (_ =? 0); lia.
        * unfold starter'. destruct (_ =? 0); lia.
        * lia.
  Qed.
End RecomposeKeep.
