(* C18: engines that mix GSUB multiple substitution with GSUB single / ligature substitution, the contextual lookups of
   format 3 and the legacy kerning.  The
   common invariant is inv_gm of Proofs/GsubMulti.v (logical order, first cluster not flagged); the window flagging of
   unsafeToBreak never flags the first cluster of a sorted buffer, so the kern pass and the contextual pass preserve it. *)
From TV Require Import Model.KernMachine Model.GsubMulti Model.Context3 Spec.LocalEngine.
From TV Require Import Proofs.LocalEngine Proofs.EngineItem Proofs.KernMachine Proofs.MarkBase Proofs.GsubLig Proofs.GsubMulti Proofs.Context3 Proofs.GsubLigHead.

(* same clusters and same unsafe-to-break flags, glyph by glyph *)
Definition same (s s' : list item) : Prop := Forall2 (fun a b => icl a = icl b /\ iutb a = iutb b) s s'.

Lemma same_refl s : same s s.
Proof. induction s; constructor; auto. Qed.
Lemma same_app a a' b b' : same a a' -> same b b' -> same (a ++ b) (a' ++ b').
Proof. apply Forall2_app. Qed.
Lemma same_in_r s s' y : same s s' -> In y s' -> exists x, In x s /\ icl x = icl y /\ iutb x = iutb y.
Proof.
  induction 1 as [|a b s s' [E F] _ IH]; intros H; [destruct H|].
  destruct H as [<-|H]; [exists a; split; [left; reflexivity|auto]|].
  destruct (IH H) as (x & Hx & R). exists x. split; [right; exact Hx|exact R].
Qed.
Lemma same_in_l s s' x : same s s' -> In x s -> exists y, In y s' /\ icl x = icl y /\ iutb x = iutb y.
Proof.
  induction 1 as [|a b s s' [E F] _ IH]; intros H; [destruct H|].
  destruct H as [<-|H]; [exists b; split; [left; reflexivity|auto]|].
  destruct (IH H) as (y & Hy & R). exists y. split; [right; exact Hy|exact R].
Qed.
Lemma same_hd s s' : same s s' -> match s, s' with h :: _, h' :: _ => icl h = icl h' | [], [] => True | _, _ => False end.
Proof. destruct 1 as [|a b s s' [E _] _]; auto. Qed.

(* every flagged glyph of S' comes from a glyph of S of the same cluster that was flagged or is not in the minimal cluster *)
Definition back (S S' : list item) : Prop :=
  forall y', In y' S' -> iutb y' = true ->
    exists y, In y S /\ icl y = icl y' /\ (iutb y = true \/ exists u, In u S /\ icl u < icl y).

Lemma fold_min_in a r : fold_right Z.min a r = a \/ In (fold_right Z.min a r) r.
Proof.
  induction r as [|b r IH]; cbn [fold_right]; [left; reflexivity|].
  destruct (Z.min_spec b (fold_right Z.min a r)) as [[_ E]|[_ E]]; rewrite E; [right; left; reflexivity|].
  destruct IH as [IH|IH]; [left; exact IH|right; right; exact IH].
Qed.

Lemma lminz_in l : l <> [] -> In (lminz l) l.
Proof. destruct l as [|a r]; [contradiction|]. intros _. cbn [lminz]. destruct (fold_min_in a r) as [E|H]; [left; symmetry; exact E|right; exact H]. Qed.

Lemma back_window a w b : back (a ++ w ++ b) (a ++ flag_window w ++ b).
Proof.
  intros y' Hy' Uy'. apply in_app_or in Hy'. destruct Hy' as [Hy'|Hy'].
  { exists y'. split; [apply in_or_app; left; exact Hy'|split; [reflexivity|left; exact Uy']]. }
  apply in_app_or in Hy'. destruct Hy' as [Hy'|Hy'].
  2:{ exists y'. split; [apply in_or_app; right; apply in_or_app; right; exact Hy'|split; [reflexivity|left; exact Uy']]. }
  assert (Hin : forall z, In z w -> In z (a ++ w ++ b)) by (intros z Hz; apply in_or_app; right; apply in_or_app; left; exact Hz).
  unfold flag_window, flag_window_m in Hy'. destruct w as [|w1 [|w2 wr]].
  - destruct Hy'.
  - exists y'. split; [apply Hin; exact Hy'|split; [reflexivity|left; exact Uy']].
  - set (W := w1 :: w2 :: wr) in *. apply in_map_iff in Hy'. destruct Hy' as (y0 & E & Hy0).
    destruct (Z.eqb_spec (icl y0) (lminz (icls W))) as [Em|Nm].
    + subst y'. exists y0. split; [apply Hin; exact Hy0|split; [reflexivity|left; exact Uy']].
    + subst y'. exists y0. split; [apply Hin; exact Hy0|]. split; [reflexivity|]. right.
      assert (Hm : In (lminz (icls W)) (icls W)) by (apply lminz_in; discriminate).
      apply in_icls_inv in Hm. destruct Hm as (u & Hu & Eu). exists u. split; [apply Hin; exact Hu|].
      pose proof (lminz_le (icls W) (icl y0) (in_icls y0 W Hy0)). lia.
Qed.

Lemma back_same_r S S1 S' : back S S1 -> same S1 S' -> back S S'.
Proof.
  intros B Sm y' Hy' Uy'. destruct (same_in_r S1 S' y' Sm Hy') as (y1 & Hy1 & E1 & U1).
  destruct (B y1 Hy1 ltac:(congruence)) as (y & Hy & Ey & R). exists y. split; [exact Hy|]. split; [congruence|exact R].
Qed.

Lemma back_same_l S S0 S' : same S S0 -> back S0 S' -> back S S'.
Proof.
  intros Sm B y' Hy' Uy'. destruct (B y' Hy' Uy') as (y0 & Hy0 & Ey0 & R).
  destruct (same_in_r S S0 y0 Sm Hy0) as (y & Hy & Ey & Uy). exists y. split; [exact Hy|]. split; [congruence|].
  destruct R as [R|(u0 & Hu0 & Lu0)]; [left; congruence|right].
  destruct (same_in_r S S0 u0 Sm Hu0) as (u & Hu & Eu & _). exists u. split; [exact Hu|lia].
Qed.

(* the first cluster of a sorted buffer stays unflagged *)
Lemma head_clear_back S S' : sorted S -> refines S S' -> back S S' -> head_clear S -> head_clear S'.
Proof.
  intros HS R B HC. destruct R as [|h h' r r' [Eh _] R]; [exact I|]. cbn [head_clear] in *.
  intros y' Hy' Ey'. destruct (iutb y') eqn:U; [exfalso|reflexivity].
  assert (Hy'' : In y' (h' :: r')) by exact Hy'.
  destruct (B y' Hy'' U) as (y & Hy & Ey & [Uy|(u & Hu & Lu)]).
  - rewrite (HC y Hy ltac:(congruence)) in Uy. discriminate.
  - apply sorted_cons in HS. destruct HS as [HS _]. destruct Hu as [<-|Hu]; [lia|]. specialize (HS u Hu). lia.
Qed.

(* ---- the kern pass ---- *)
Lemma kwin_same P kv x rest k : same (x :: firstn k rest ++ [nth k rest i0]) (kwin P kv x rest k).
Proof.
  unfold kwin. constructor; [split; reflexivity|]. apply same_app; [apply same_refl|]. constructor; [split; reflexivity|constructor].
Qed.

Lemma kstep_head_clear P d x rest : sorted (d ++ x :: rest) -> head_clear (d ++ x :: rest) ->
  head_clear (fst (kstep P d (x :: rest)) ++ snd (kstep P d (x :: rest))).
Proof.
  intros HS HC. apply (head_clear_back (d ++ x :: rest)); [exact HS|apply kstep_refines| |exact HC].
  destruct (kstep_cases P d x rest) as [[E _]|(k & kv & F & N & Lk & E)]; rewrite E; cbn [fst snd].
  - rewrite <- app_assoc. intros y' Hy' Uy'. exists y'. split; [exact Hy'|split; [reflexivity|left; exact Uy']].
  - rewrite kstep_fire_seq by exact Lk.
    apply (back_same_l _ (d ++ kwin P kv x rest k ++ skipn (S k) rest)); [|apply back_window].
    rewrite (split_nth rest k Lk) at 1.
    replace (x :: firstn k rest ++ nth k rest i0 :: skipn (S k) rest)
      with ((x :: firstn k rest ++ [nth k rest i0]) ++ skipn (S k) rest) by (cbn; rewrite <- app_assoc; reflexivity).
    apply same_app; [apply same_refl|]. apply same_app; [apply kwin_same|apply same_refl].
Qed.

Theorem kern_step_ok_gm P : step_ok icl iutb sideL inv_gm (kern_pass P).
Proof.
  apply (step_ok_strengthen icl iutb sideL sorted head_clear (kern_pass P) (kern_step_ok P)).
  intros L R d t Hne HS HC. rewrite kern_pass_step. destruct t as [|x rest]; [contradiction|]. apply kstep_head_clear; assumption.
Qed.

(* ---- the contextual pass ---- *)
Lemma map_at_same s : forall p l, same l (map_at (subst_single s) p l).
Proof.
  induction p as [|p IH]; intros [|x r]; cbn [map_at]; try apply same_refl.
  - constructor; [|apply same_refl]. destruct (subst_single_same s x) as [E U]. split; symmetry; assumption.
  - constructor; [split; reflexivity|apply IH].
Qed.

Lemma same_trans a b c : same a b -> same b c -> same a c.
Proof.
  intros H. revert c. induction H as [|x y a b [E F] _ IH]; intros c H2; inversion H2 as [|y' z b' c' [E' F'] H3]; subst; constructor.
  - split; congruence.
  - apply IH. exact H3.
Qed.

Lemma apply_recs_same pos recs : forall t, same t (apply_recs pos recs t).
Proof.
  unfold apply_recs. induction recs as [|r recs IH]; intros t; cbn [fold_left]; [apply same_refl|].
  eapply same_trans; [|apply IH]. destruct (fst r <? length pos)%nat; [apply map_at_same|apply same_refl].
Qed.

Lemma cx_head_clear P d x rest : sorted (d ++ x :: rest) -> head_clear (d ++ x :: rest) ->
  head_clear (fst (cx_step P d (x :: rest)) ++ snd (cx_step P d (x :: rest))).
Proof.
  intros HS HC. apply (head_clear_back (d ++ x :: rest)); [exact HS|apply cx_refines| |exact HC].
  rewrite cx_step_plan. destruct (cx_plan P d x rest) as [[[[k n] e] ps]|] eqn:E.
  - destruct (plan_bounds P d x rest k n e ps E) as (Hk & Hn1 & Hn & He & _ & _).
    destruct (fire_seq P d (x :: rest) k n e ps Hk Hn He) as (E1 & _ & _). rewrite E1.
    set (a := firstn (length d - k) d). set (w := skipn (length d - k) d ++ firstn e (x :: rest)). set (b := skipn e (x :: rest)).
    apply (back_same_r _ (a ++ flag_window w ++ b)); [apply back_window|].
    unfold cx_fire. cbv zeta. fold a. fold w. fold b. cbn [fst snd].
    set (W := flag_window w). rewrite <- !app_assoc. rewrite firstn_skipn.
    apply same_app; [apply same_refl|]. rewrite <- (firstn_skipn k W) at 1. rewrite <- app_assoc.
    apply same_app; [apply same_refl|]. apply apply_recs_same.
  - cbn [fst snd]. rewrite <- app_assoc. intros y' Hy' Uy'. exists y'. split; [exact Hy'|split; [reflexivity|left; exact Uy']].
Qed.

Theorem cx_step_ok_gm P : step_ok icl iutb sideL inv_gm (cx_pass P).
Proof.
  apply (step_ok_strengthen icl iutb sideL sorted head_clear (cx_pass P) (cx_step_ok P)).
  intros L R d t Hne HS HC. rewrite cx_pass_step. destruct t as [|x rest]; [contradiction|]. apply cx_head_clear; assumption.
Qed.

(* ---- engines made of the four kinds of passes ---- *)
Inductive mpiece := MMulti (P : gmparams) | MCtx (P : cxparams) | MKern (P : kparams) | MGsub (P : gsparams).
Definition mpiece_pass (p : mpiece) : @pass item unit :=
  match p with MMulti P => gm_pass P | MCtx P => cx_pass P | MKern P => kern_pass P | MGsub P => gs_pass P end.

Theorem mpiece_step_ok p : step_ok icl iutb sideL inv_gm (mpiece_pass p).
Proof. destruct p; [apply gm_step_ok|apply cx_step_ok_gm|apply kern_step_ok_gm|apply gs_step_ok_gm]. Qed.

Theorem mpieces_cut_safe (ps : list mpiece) : cut_safe icl iutb sideL inv_gm (map mpiece_pass ps).
Proof.
  apply wf_engine_cut_safe. apply wf_engine_unit. apply Forall_forall. intros q Hq.
  apply in_map_iff in Hq. destruct Hq as (p & <- & _). apply mpiece_step_ok.
Qed.

(* the hypotheses about the pieces follow from those about the whole run: only "the first cluster of the run is not
   flagged" is asked beyond logical order *)
Lemma head_clear_of_unflagged (suf : list item) c : sorted suf -> (forall y, In y suf -> c <= icl y) ->
  (forall y, In y suf -> icl y = c -> iutb y = false) -> (exists y, In y suf /\ icl y = c) -> head_clear suf.
Proof.
  intros HS Hge Hun (y0 & Hy0 & Ey0). destruct suf as [|h r]; [exact I|]. cbn [head_clear].
  assert (Eh : icl h = c).
  { pose proof (Hge h (or_introl eq_refl)). apply sorted_cons in HS. destruct HS as [HS _].
    destruct Hy0 as [<-|Hy0]; [exact Ey0|]. specialize (HS y0 Hy0). lia. }
  intros y Hy Ey. apply Hun; [exact Hy|congruence].
Qed.

Theorem mpieces_cut_safe_whole (ps : list mpiece) L R pre suf c :
  sorted (pre ++ suf) -> head_clear (pre ++ suf) -> pre <> [] -> cutv icl sideL c pre suf = true ->
  fog icl iutb c (erun (map mpiece_pass ps) L R (pre ++ suf)) = false ->
  erun (map mpiece_pass ps) L R (pre ++ suf)
  = erun (map mpiece_pass ps) L (suf ++ R) pre ++ erun (map mpiece_pass ps) (L ++ pre) R suf.
Proof.
  intros HS HC Hne HCut HF.
  assert (W : wf_engine icl iutb sideL inv_gm (map mpiece_pass ps)).
  { apply wf_engine_unit. apply Forall_forall. intros q Hq. apply in_map_iff in Hq. destruct Hq as (p & <- & _). apply mpiece_step_ok. }
  pose proof HS as HS'. apply sorted_app in HS'. destruct HS' as (Sp & Ss & _).
  pose proof HCut as HCut'. apply cutvL_spec in HCut'. destruct HCut' as [C1 C2].
  (* cluster c is present and unflagged in the input: flags persist *)
  assert (F0 : fog icl iutb c (pre ++ suf) = false).
  { destruct (fog icl iutb c (pre ++ suf)) eqn:F; [|reflexivity].
    rewrite (erun_persist icl iutb sideL inv_gm (map mpiece_pass ps) W L R (pre ++ suf) c (conj HS HC) F) in HF. discriminate. }
  apply (wf_engine_cut_safe icl iutb sideL inv_gm (map mpiece_pass ps) W L R pre suf c); try assumption.
  - split; [exact HS|exact HC].
  - split; [exact Sp|]. destruct pre as [|h r]; [contradiction|]. cbn [app head_clear] in *.
    intros y Hy Ey. apply HC; [|exact Ey]. destruct Hy as [Hy|Hy]; [left; exact Hy|right; apply in_or_app; left; exact Hy].
  - split; [exact Ss|]. apply (head_clear_of_unflagged suf c Ss C2).
    + intros y Hy Ey. destruct (iutb y) eqn:U; [exfalso|reflexivity].
      assert (fog icl iutb c (pre ++ suf) = true); [|congruence].
      apply fog_spec. right. exists y. split; [apply in_or_app; right; exact Hy|auto].
    + destruct (has_cl icl c (pre ++ suf)) eqn:Hc.
      * apply has_cl_spec in Hc. destruct Hc as (y & Hy & Ey). apply in_app_or in Hy. destruct Hy as [Hy|Hy]; [specialize (C1 y Hy); lia|].
        exists y. auto.
      * exfalso. unfold fog in F0. rewrite Hc in F0. discriminate.
Qed.
