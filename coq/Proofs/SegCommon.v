(* Structure of the main loop of the segmenter model: totality, length, and the way the attribute
   list is built (so that each rule family can be studied as its own automaton). *)
From TV Require Import Model.Segmenter.
Open Scope Z_scope.

Lemma clear_word_length attrs k : length (clear_word attrs k) = length attrs.
Proof. revert k; induction attrs as [|a r IH]; intros [|k]; cbn; auto. Qed.

Lemma clear_word_map {B} (f : attr -> B) :
  (forall a, f (mkAttr (a_line a) (a_mandatory a) (a_grapheme a) false) = f a) ->
  forall attrs k, map f (clear_word attrs k) = map f attrs.
Proof.
  intros Hf. induction attrs as [|a r IH]; intros [|k]; cbn; auto.
  - rewrite Hf. reflexivity.
  - rewrite IH. reflexivity.
Qed.

(* word-side invariant that makes the write-back index valid *)
Definition wne_ok (cr : cursor) (i : Z) : Prop :=
  -1 <= c_prevWordNoExtend cr < i /\
  (c_prevWordNoExtend cr = -1 -> c_prevWord cr = WB_None /\ c_prevPrevWord cr = WB_None) /\
  (i = 0 -> c_word cr = WB_None).

Lemma step_fields cr i r next aft :
  let cr' := fst (fst (step cr i r next aft)) in
  c_prevWordNoExtend cr' = (if negb (wbq (c_word cr) WB_ExtendFormat) then i - 1 else c_prevWordNoExtend cr)
  /\ c_prevWord cr' = (if negb (wbq (c_word cr) WB_ExtendFormat) then c_word cr else c_prevWord cr)
  /\ c_prevPrevWord cr' = (if negb (wbq (c_word cr) WB_ExtendFormat) then c_prevWord cr else c_prevPrevWord cr)
  /\ c_word cr' = o_wb r.
Proof.
  unfold step. cbv zeta.
  destruct (update_picto _ _ _) as [picto gb11].
  destruct (update_grapheme_ri _ _) as [gri gb1213].
  destruct (update_word_ri _ _) as [wri wb1516].
  destruct (word_decision _ _ _ _ _ _ _ _) as [isW remove].
  destruct (update_num_sequence _ _) as [ns trigger].
  destruct (line_decision _ _ _ _ _ _ _ _ _ _); cbn; auto.
Qed.

Lemma step_remove cr i r next aft k :
  snd (step cr i r next aft) = Some k ->
  k = c_prevWordNoExtend (fst (fst (step cr i r next aft)))
  /\ c_prevPrevWord (fst (fst (step cr i r next aft))) <> WB_None.
Proof.
  unfold step. cbv zeta.
  destruct (update_picto _ _ _) as [picto gb11].
  destruct (update_grapheme_ri _ _) as [gri gb1213].
  destruct (update_word_ri _ _) as [wri wb1516].
  set (cr1 := start_iteration cr i r next).
  destruct (word_decision _ _ _ _ _ _ _ _) as [isW remove] eqn:Hwd.
  destruct (update_num_sequence _ _) as [ns trigger].
  assert (Hpp : remove = true -> c_prevPrevWord cr1 <> WB_None).
  { intros ->. unfold word_decision in Hwd.
    repeat match type of Hwd with
           | (if ?c then _ else _) = _ => destruct c eqn:?; try discriminate
           end;
    intros E; rewrite E in *; cbn in *; try discriminate. }
  destruct (line_decision _ _ _ _ _ _ _ _ _ _); cbn; destruct remove; try discriminate;
    intros H; inversion H; subst; (split; [reflexivity | apply Hpp; reflexivity]).
Qed.

Lemma wne_ok_step cr i r next aft : 0 <= i -> wne_ok cr i -> wne_ok (fst (fst (step cr i r next aft))) (i + 1).
Proof.
  intros Hi (Hr & Hn & H0).
  destruct (step_fields cr i r next aft) as (E1 & E2 & E3 & E4).
  unfold wne_ok. rewrite E1, E2, E3, E4.
  destruct (wbq (c_word cr) WB_ExtendFormat) eqn:Hef; cbn iota beta delta [negb].
  - split; [lia|]. split; [exact Hn |]. intros Hc. exfalso. lia.
  - split; [lia|]. split; [|lia].
    intros Hm. assert (i = 0) by lia. subst i. split; [apply H0; reflexivity|].
    apply Hn. lia.
Qed.

Lemma step_remove_range cr i r next aft k :
  0 <= i -> wne_ok cr i -> snd (step cr i r next aft) = Some k -> 0 <= k < i.
Proof.
  intros Hi Hok Hs.
  destruct (step_remove cr i r next aft k Hs) as (Hk & Hpp).
  destruct (wne_ok_step cr i r next aft Hi Hok) as (Hr & Hn & _).
  destruct (step_fields cr i r next aft) as (E1 & _).
  destruct Hok as (Hr0 & _).
  rewrite <- Hk in *.
  assert (k <> -1). { intros E. destruct (Hn E) as (_ & Hx). contradiction. }
  destruct (negb (wbq (c_word cr) WB_ExtendFormat)); lia.
Qed.

(* the loop never panics and produces len(done) + len(rest) + 1 attributes *)
Lemma loop_total : forall rest cr i done,
  0 <= i -> wne_ok cr i ->
  exists attrs, loop cr i rest done = Ok attrs /\ length attrs = (length done + length rest + 1)%nat.
Proof.
  induction rest as [|r rest IH]; intros cr i done Hi Hok.
  - cbn [loop]. destruct (step cr i obs_psep obs_nul (o_lb obs_nul)) as [[cr' a] rm] eqn:Hs.
    destruct rm as [k|].
    + assert (Hk : 0 <= k < i) by (apply (step_remove_range cr i obs_psep obs_nul (o_lb obs_nul)); [assumption..| rewrite Hs; reflexivity]).
      destruct (Z.ltb_spec k 0); [lia|]. destruct (Z.leb_spec i k); [lia|]. cbn [orb].
      eexists; split; [reflexivity|]. rewrite app_length, clear_word_length. cbn. lia.
    + eexists; split; [reflexivity|]. rewrite app_length. cbn. lia.
  - cbn [loop].
    set (next := match rest with [] => obs_psep | n :: _ => n end).
    destruct (step cr i r next (after_marks r rest)) as [[cr' a] rm] eqn:Hs.
    assert (Hok' : wne_ok cr' (i + 1)).
    { pose proof (wne_ok_step cr i r next (after_marks r rest) Hi Hok) as H. rewrite Hs in H. exact H. }
    destruct rm as [k|].
    + assert (Hk : 0 <= k < i) by (apply (step_remove_range cr i r next (after_marks r rest)); [assumption..| rewrite Hs; reflexivity]).
      destruct (Z.ltb_spec k 0); [lia|]. destruct (Z.leb_spec i k); [lia|]. cbn [orb].
      destruct (IH cr' (i + 1) (clear_word done (Z.to_nat k) ++ [a]) ltac:(lia) Hok') as (attrs & E & L).
      exists attrs. split; [exact E|]. rewrite L, app_length, clear_word_length. cbn. lia.
    + destruct (IH cr' (i + 1) (done ++ [a]) ltac:(lia) Hok') as (attrs & E & L).
      exists attrs. split; [exact E|]. rewrite L, app_length. cbn. lia.
Qed.

Lemma wne_ok_new text : wne_ok (new_cursor text) 0.
Proof. unfold wne_ok, new_cursor; cbn. repeat split; auto; lia. Qed.

Lemma fixups_length attrs : length (fixups attrs) = length attrs.
Proof.
  unfold fixups. destruct attrs as [|a r]; [reflexivity|].
  assert (H : forall (l : list attr), length (map_last fix_last l) = length l).
  { induction l as [|x [|y l'] IHl]; cbn in *; auto. }
  rewrite H. reflexivity.
Qed.

Lemma compute_attrs_total_lemma text :
  exists attrs, compute_attrs text = Ok attrs /\ length attrs = S (length text).
Proof.
  unfold compute_attrs.
  destruct (loop_total text (new_cursor text) 0 [] ltac:(lia) (wne_ok_new text)) as (attrs & E & L).
  rewrite E. cbn [bind]. eexists; split; [reflexivity|].
  rewrite fixups_length, L. cbn. lia.
Qed.

(* ---- the attribute list as a trace: a family that does not depend on the write-back ---- *)
Section Trace.
  Context {S B : Type} (proj : cursor -> S) (sstep : S -> obs -> obs -> lbc -> S * B) (f : attr -> B).
  Variable Inv : cursor -> Z -> Prop.
  Hypothesis f_clear : forall a, f (mkAttr (a_line a) (a_mandatory a) (a_grapheme a) false) = f a.
  Hypothesis inv_step : forall cr i r next aft, 0 <= i -> Inv cr i -> Inv (fst (fst (step cr i r next aft))) (i + 1).
  Hypothesis step_proj : forall cr i r next aft, 0 <= i -> Inv cr i ->
      proj (fst (fst (step cr i r next aft))) = fst (sstep (proj cr) r next aft)
      /\ f (snd (fst (step cr i r next aft))) = snd (sstep (proj cr) r next aft).

  Fixpoint srun (s : S) (rest : list obs) : list B :=
    match rest with
    | [] => [snd (sstep s obs_psep obs_nul (o_lb obs_nul))]
    | r :: rest' =>
        let next := match rest' with [] => obs_psep | n :: _ => n end in
        snd (sstep s r next (after_marks r rest')) :: srun (fst (sstep s r next (after_marks r rest'))) rest'
    end.

  Lemma loop_trace : forall rest cr i done attrs,
    0 <= i -> Inv cr i ->
    loop cr i rest done = Ok attrs -> map f attrs = map f done ++ srun (proj cr) rest.
  Proof.
    induction rest as [|r rest IH]; intros cr i done attrs Hi HI.
    - cbn [loop srun]. pose proof (step_proj cr i obs_psep obs_nul (o_lb obs_nul) Hi HI) as (_ & Hf).
      destruct (step cr i obs_psep obs_nul (o_lb obs_nul)) as [[cr' a] rm]. cbn [fst snd] in Hf.
      destruct rm as [k|].
      + destruct (_ || _); [discriminate|]. intros H; inversion H; subst.
        rewrite map_app, (clear_word_map f f_clear). cbn. rewrite Hf. reflexivity.
      + intros H; inversion H; subst. rewrite map_app. cbn. rewrite Hf. reflexivity.
    - cbn [loop srun].
      set (next := match rest with [] => obs_psep | n :: _ => n end).
      pose proof (step_proj cr i r next (after_marks r rest) Hi HI) as (Hp & Hf).
      pose proof (inv_step cr i r next (after_marks r rest) Hi HI) as HI'.
      destruct (step cr i r next (after_marks r rest)) as [[cr' a] rm]. cbn [fst snd] in Hp, Hf, HI'.
      destruct rm as [k|].
      + destruct (_ || _); [discriminate|]. intros H. apply IH in H; [|lia|exact HI'].
        rewrite H, map_app, (clear_word_map f f_clear), Hp, <- app_assoc. cbn. rewrite Hf. reflexivity.
      + intros H. apply IH in H; [|lia|exact HI'].
        rewrite H, map_app, Hp, <- app_assoc. cbn. rewrite Hf. reflexivity.
  Qed.
End Trace.

(* ---- first / last fix-ups on a projected flag ---- *)
Lemma map_map_last {B} (g : attr -> B) (v : B) :
  (forall a, g (fix_last a) = v) ->
  forall l, l <> [] -> map g (map_last fix_last l) = removelast (map g l) ++ [v].
Proof.
  intros Hg. induction l as [|x [|y l'] IH]; intros Hne; [contradiction| |].
  - cbn. rewrite Hg. reflexivity.
  - change (map_last fix_last (x :: y :: l')) with (x :: map_last fix_last (y :: l')).
    cbn [map]. rewrite IH by discriminate. reflexivity.
Qed.

Lemma removelast_cons {A} (x : A) l : l <> [] -> removelast (x :: l) = x :: removelast l.
Proof. destruct l; [contradiction | reflexivity]. Qed.

Lemma app_removelast_last' {A} (l : list A) d : l <> [] -> l = removelast l ++ [last l d].
Proof. apply app_removelast_last. Qed.

Lemma map_removelast {A B} (f : A -> B) (l : list A) : map f (removelast l) = removelast (map f l).
Proof. induction l as [|x [|y r] IH]; [reflexivity | reflexivity |]. cbn [removelast map] in *. rewrite IH. reflexivity. Qed.
