(* C11, character maps: the sanitizers (sanitizeCmap4, sanitizeCmapGroups) turn every value of the Go types into a
   well-formed table and leave well-formed tables unchanged; newCmap4 only builds values satisfying the type
   invariant; the legacy remapers (symbol, arabic PUA) enumerate exactly the non-negative runes they map. *)
From Coq Require Import ZifyBool.
From TV Require Import Lib.GoNum Lib.Res Lib.Bytes Model.RuneSet Model.Cmap Spec.RuneSet Spec.Cmap Spec.CmapRemap.

(* ---------------------------------- local helpers ---------------------------------- *)
Lemma In_zrange : forall n lo x, In x (zrange lo n) <-> lo <= x < lo + Z.of_nat n.
Proof.
  induction n as [|n IH]; intros lo x; cbn [zrange In].
  - lia.
  - rewrite IH. lia.
Qed.

Lemma NoDup_zrange : forall n lo, NoDup (zrange lo n).
Proof.
  induction n as [|n IH]; intros lo; cbn [zrange].
  - constructor.
  - constructor; [rewrite In_zrange; lia | apply IH].
Qed.

Lemma NoDup_app_iff_local : forall (a b : list Z),
  NoDup a -> NoDup b -> (forall x, In x a -> In x b -> False) -> NoDup (a ++ b).
Proof.
  induction a as [|x a IH]; intros b Ha Hb Hd; cbn [app].
  - exact Hb.
  - inversion Ha; subst. constructor.
    + rewrite in_app_iff. intros [H|H]; [contradiction|]. apply (Hd x); [left; reflexivity | exact H].
    + apply IH; try assumption. intros y Hy. apply Hd. right; exact Hy.
Qed.

Lemma length_zrange : forall n lo, length (zrange lo n) = n.
Proof. induction n as [|n IH]; intros lo; cbn [zrange length]; [reflexivity | rewrite IH; reflexivity]. Qed.

(* ---------------------------------- 1. sanitize4 makes well-formed ---------------------------------- *)
Lemma ty_seg4_wf_seg4 : forall e, ty_seg4 e = true -> s4_start e <= s4_end e -> wf_seg4 e = true.
Proof.
  intros e H Hle. unfold ty_seg4, wf_seg4, u16b in *.
  destruct (s4_idx e) as [ix|].
  - repeat (apply andb_true_iff in H; destruct H as [H ?]).
    repeat (apply andb_true_iff; split); try lia; assumption.
  - lia.
Qed.

Lemma sanitize4_from_wf : forall s last lo,
  forallb ty_seg4 s = true ->
  match last with Some l => lo <= l + 1 | None => lo <= 0 end ->
  wf_cmap4_from lo (sanitize4_from last s) = true.
Proof.
  induction s as [|e r IH]; intros last lo Hty Hlo; cbn [sanitize4_from wf_cmap4_from].
  - reflexivity.
  - cbn [forallb] in Hty. apply andb_true_iff in Hty as [He Hr].
    destruct ((s4_end e <? s4_start e) || match last with Some l => s4_start e <=? l | None => false end) eqn:C.
    + apply IH; assumption.
    + cbn [wf_cmap4_from].
      apply orb_false_iff in C as [C1 C2].
      assert (Hse : s4_start e <= s4_end e) by lia.
      assert (H0 : 0 <= s4_start e) by (unfold ty_seg4, u16b in He; destruct (s4_idx e); lia).
      rewrite (ty_seg4_wf_seg4 e He Hse).
      rewrite (IH (Some (s4_end e)) (s4_end e + 1) Hr) by lia.
      destruct last as [l|]; lia.
Qed.

Lemma sanitize4_wf : forall s, forallb ty_seg4 s = true -> wf_cmap4 (sanitize4 s) = true.
Proof. intros s H. unfold wf_cmap4, sanitize4. apply sanitize4_from_wf; [assumption | lia]. Qed.

(* ---------------------------------- 3. sanitize12 makes well-formed ---------------------------------- *)
Lemma sanitize12_from_wf : forall is13 s last lo,
  forallb ty_grp s = true ->
  match last with Some l => lo <= l + 1 | None => lo <= 0 end ->
  wf_cmap12_from is13 lo (sanitize12_from last s) = true /\
  Forall (fun e => g_end e < 16777216) (sanitize12_from last s).
Proof.
  intros is13. induction s as [|e r IH]; intros last lo Hty Hlo; cbn [sanitize12_from wf_cmap12_from].
  - split; [reflexivity | constructor].
  - cbn [forallb] in Hty. apply andb_true_iff in Hty as [He Hr].
    destruct ((g_end e <? g_start e) || (max_rune <? g_start e)
              || match last with Some l => g_start e <=? l | None => false end) eqn:C.
    + apply IH; assumption.
    + apply orb_false_iff in C as [C C3]. apply orb_false_iff in C as [C1 C2].
      unfold ty_grp, u32b in He. unfold max_rune in *.
      set (e2 := if 1114111 <? g_end e then 1114111 else g_end e) in *.
      assert (He2 : g_start e <= e2 <= 1114111) by (unfold e2; destruct (1114111 <? g_end e) eqn:D; lia).
      cbn [wf_cmap12_from g_start g_end g_gid].
      destruct (IH (Some e2) (e2 + 1) Hr ltac:(lia)) as [IH1 IH2].
      split.
      * rewrite IH1. unfold wf_grp. cbn [g_start g_end g_gid].
        destruct last as [l|]; lia.
      * constructor; [cbn [g_end]; lia | exact IH2].
Qed.

Lemma sanitize12_wf : forall is13 s, forallb ty_grp s = true ->
  wf_cmap12_from is13 0 (sanitize12 s) = true /\ Forall (fun e => g_end e < 16777216) (sanitize12 s).
Proof. intros is13 s H. unfold sanitize12. apply sanitize12_from_wf; [assumption | lia]. Qed.

(* ---------------------------------- 6. the generic remaper iterator ---------------------------------- *)
Section Remap.
Variables (wrapped remaper : Z -> res (Z * bool)) (inner : list (Z * Z)) (last : Z).
Hypothesis Htw : total_lookup wrapped.
Hypothesis Htr : total_lookup remaper.
Hypothesis Hin : iter_agrees_nn inner wrapped.
Hypothesis Hext : forall r g, wrapped r = Ok (g, true) -> remaper r = Ok (g, true).
Hypothesis Hdom : forall r g, rune_nn r -> remaper r = Ok (g, true) ->
  (exists g', wrapped r = Ok (g', true)) \/ 0 <= r <= last.
Hypothesis Hlast : 0 <= last < 2147483648.

Lemma remap_extra_spec : forall rs, exists x,
  remap_extra wrapped remaper rs = Ok x /\
  (forall r g, In (r, g) x <->
     In r rs /\ (exists g', wrapped r = Ok (g', false)) /\ remaper r = Ok (g, true)) /\
  (NoDup rs -> NoDup (map fst x)).
Proof.
  induction rs as [|r0 t IH]; cbn [remap_extra].
  - exists []. split; [reflexivity|]. split; [|intros; constructor].
    intros r g; cbn [In]; tauto.
  - destruct IH as (x & Ex & Hx & Hnd).
    assert (Hfst : forall r, In r (map fst x) -> In r t).
    { intros r Hr. apply in_map_iff in Hr as ([r' g'] & E & Hi). cbn [fst] in E; subst r'.
      apply Hx in Hi. tauto. }
    destruct (Htw r0) as [[g0 b0] E0]. rewrite E0. cbn [bind snd].
    destruct b0.
    + exists x. split; [exact Ex|]. split.
      * intros r g. rewrite Hx. cbn [In]. split.
        -- tauto.
        -- intros [[->|Hi] [[g' Hw] Hr]]; [congruence|]. split; [assumption|]. split; [exists g'|]; assumption.
      * intros Hn. inversion Hn; subst. auto.
    + destruct (Htr r0) as [[g1 b1] E1]. rewrite E1, Ex. cbn [bind snd fst].
      destruct b1.
      * exists ((r0, g1) :: x). split; [reflexivity|]. split.
        -- intros r g. cbn [In]. rewrite Hx. split.
           ++ intros [E|H].
              ** inversion E; subst. split; [left; reflexivity|]. split; [exists g0|]; assumption.
              ** tauto.
           ++ intros [[->|Hi] [[g' Hw] Hr]].
              ** left. congruence.
              ** right. split; [assumption|]. split; [exists g'|]; assumption.
        -- intros Hn. inversion Hn; subst. cbn [map fst]. constructor; auto.
      * exists x. split; [reflexivity|]. split.
        -- intros r g. rewrite Hx. cbn [In]. split.
           ++ tauto.
           ++ intros [[->|Hi] [[g' Hw] Hr]]; [congruence|]. split; [assumption|]. split; [exists g'|]; assumption.
        -- intros Hn. inversion Hn; subst. auto.
Qed.

Lemma remap_iter_agrees : exists l,
  remap_iter inner wrapped remaper last = Ok l /\ iter_agrees_nn l remaper.
Proof.
  unfold remap_iter.
  destruct (remap_extra_spec (zrange 0 (Z.to_nat (last + 1)))) as (x & Ex & Hx & Hnd).
  rewrite Ex. cbn [bind]. exists (inner ++ x). split; [reflexivity|].
  destruct Hin as (Hin1 & Hin2 & Hin3).
  assert (Hxr : forall r g, In (r, g) x -> 0 <= r <= last).
  { intros r g Hi. apply Hx in Hi as [Hi _]. apply In_zrange in Hi. lia. }
  split; [|split].
  - rewrite map_app. apply NoDup_app_iff_local.
    + exact Hin1.
    + apply Hnd, NoDup_zrange.
    + intros r H1 H2.
      apply in_map_iff in H1 as ([r1 g1] & E1 & I1). cbn [fst] in E1; subst r1.
      apply in_map_iff in H2 as ([r2 g2] & E2 & I2). cbn [fst] in E2; subst r2.
      pose proof (Hin2 _ _ I1) as Hnn.
      apply (Hin3 _ _ Hnn) in I1.
      apply Hx in I2 as (_ & [g' Hw] & _). congruence.
  - intros r g Hi. apply in_app_or in Hi as [Hi|Hi].
    + exact (Hin2 _ _ Hi).
    + apply Hxr in Hi. unfold rune_nn. lia.
  - intros r g Hnn. rewrite in_app_iff. split.
    + intros [Hi|Hi].
      * apply Hext. apply Hin3; assumption.
      * apply Hx in Hi. tauto.
    + intros Hr. destruct (Htw r) as [[g' b] Ew]. destruct b.
      * left. pose proof (Hext _ _ Ew) as Hr'. assert (g' = g) by congruence. subst g'.
        apply Hin3; assumption.
      * right. apply Hx. split; [|split; [exists g'; exact Ew | exact Hr]].
        apply In_zrange.
        destruct (Hdom _ _ Hnn Hr) as [[g'' Hw]|Hb]; [congruence|]. lia.
Qed.
End Remap.

(* ---------------------------------- 7. the symbol remaper ---------------------------------- *)
Lemma remap_symbol_fuel_total : forall inner_lookup, total_lookup inner_lookup ->
  forall n r, 255 < r + 61440 * Z.of_nat n -> exists v, remap_symbol_fuel n inner_lookup r = Ok v.
Proof.
  intros il Ht. induction n as [|n IH]; intros r Hr.
  - cbn [remap_symbol_fuel]. destruct (Ht r) as [[g b] E]. rewrite E. cbn [bind snd].
    destruct b; [eexists; reflexivity|].
    destruct (r <=? 255) eqn:C; [lia | eexists; reflexivity].
  - cbn [remap_symbol_fuel]. destruct (Ht r) as [[g b] E]. rewrite E. cbn [bind snd].
    destruct b; [eexists; reflexivity|].
    destruct (r <=? 255) eqn:C; [|eexists; reflexivity].
    apply IH. lia.
Qed.

Lemma remap_symbol_fuel_hit : forall inner_lookup n r g,
  inner_lookup r = Ok (g, true) -> remap_symbol_fuel n inner_lookup r = Ok (g, true).
Proof. intros il n r g E. destruct n; cbn [remap_symbol_fuel]; rewrite E; reflexivity. Qed.

Lemma remap_symbol_fuel_dom : forall inner_lookup n r g,
  remap_symbol_fuel n inner_lookup r = Ok (g, true) ->
  (exists g', inner_lookup r = Ok (g', true)) \/ r <= 255.
Proof.
  intros il n r g H.
  destruct (r <=? 255) eqn:C; [right; lia|]. left.
  destruct n; cbn [remap_symbol_fuel] in H;
    (destruct (il r) as [[g' b]| | |] eqn:E; cbn [bind snd] in H; try discriminate;
     destruct b; [exists g'; reflexivity | rewrite C in H; discriminate]).
Qed.

Lemma remap_symbol_props : forall inner_lookup, total_lookup inner_lookup ->
  total_lookup (remap_symbol inner_lookup) /\
  (forall r g, inner_lookup r = Ok (g, true) -> remap_symbol inner_lookup r = Ok (g, true)) /\
  (forall r g, rune_nn r -> remap_symbol inner_lookup r = Ok (g, true) ->
     (exists g', inner_lookup r = Ok (g', true)) \/ 0 <= r <= 255).
Proof.
  intros il Ht. split; [|split].
  - intros r. unfold remap_symbol. apply remap_symbol_fuel_total; [exact Ht|].
    rewrite Z2Nat.id by lia.
    assert (255 - r < 61440 * ((255 - r) / 61440 + 1)).
    { pose proof (Z.div_mod (255 - r) 61440 ltac:(lia)).
      pose proof (Z.mod_pos_bound (255 - r) 61440 ltac:(lia)). lia. }
    lia.
  - intros r g E. unfold remap_symbol. apply remap_symbol_fuel_hit. exact E.
  - intros r g Hnn H. unfold remap_symbol in H. apply remap_symbol_fuel_dom in H.
    unfold rune_nn in Hnn. destruct H as [H|H]; [left; exact H | right; lia].
Qed.

Lemma remap_symbol_iter_agrees : forall inner_lookup inner,
  total_lookup inner_lookup -> iter_agrees_nn inner inner_lookup ->
  exists l, remap_iter inner inner_lookup (remap_symbol inner_lookup) 255 = Ok l /\
            iter_agrees_nn l (remap_symbol inner_lookup).
Proof.
  intros il inner Ht Hin. destruct (remap_symbol_props il Ht) as (P1 & P2 & P3).
  apply remap_iter_agrees; try assumption. lia.
Qed.

(* ---------------------------------- 8. the arabic PUA remapers ---------------------------------- *)
Lemma remap_pua_iter_agrees : forall pua inner_lookup inner last,
  total_lookup inner_lookup -> iter_agrees_nn inner inner_lookup ->
  0 <= last < 2147483648 ->
  (forall r, pua r <> 0 -> 0 <= r <= last /\ 0 < pua r < 2147483648 /\ pua (pua r) = 0) ->
  exists l, remap_iter inner inner_lookup (remap_pua_fuel 2 pua inner_lookup) last = Ok l /\
            iter_agrees_nn l (remap_pua_fuel 2 pua inner_lookup).
Proof.
  intros pua il inner last Ht Hin Hlast Hpua.
  apply remap_iter_agrees; try assumption.
  - intros r. cbn [remap_pua_fuel].
    destruct (Ht r) as [[g b] E]. rewrite E. cbn [bind snd].
    destruct b; [eexists; reflexivity|].
    destruct (pua r =? 0) eqn:C; [eexists; reflexivity|].
    destruct (Ht (pua r)) as [[g1 b1] E1]. rewrite E1. cbn [bind snd].
    destruct b1; [eexists; reflexivity|].
    destruct (Hpua r ltac:(lia)) as (_ & _ & Hz). rewrite Hz. cbn. eexists; reflexivity.
  - intros r g E. cbn [remap_pua_fuel]. rewrite E. reflexivity.
  - intros r g Hnn H. cbn [remap_pua_fuel] in H.
    destruct (Ht r) as [[g0 b] E]. rewrite E in H. cbn [bind snd] in H.
    destruct b; [left; exists g0; exact E|].
    destruct (pua r =? 0) eqn:C; [discriminate|].
    right. apply (Hpua r). lia.
Qed.

(* ---------------------------------- 2. sanitize4 leaves well-formed tables unchanged ---------------------------------- *)
Lemma sanitize4_from_id : forall s last lo,
  wf_cmap4_from lo s = true ->
  match last with Some l => l < lo | None => True end ->
  sanitize4_from last s = s.
Proof.
  induction s as [|e r IH]; intros last lo Hwf Hlo; cbn [sanitize4_from].
  - reflexivity.
  - cbn [wf_cmap4_from] in Hwf.
    apply andb_true_iff in Hwf as [Hwf Hr]. apply andb_true_iff in Hwf as [H1 H2].
    assert (Hse : s4_start e <= s4_end e).
    { unfold wf_seg4 in H2. repeat (apply andb_true_iff in H2; destruct H2 as [H2 ?]). lia. }
    replace ((s4_end e <? s4_start e) || match last with Some l => s4_start e <=? l | None => false end)
      with false by (destruct last as [l|]; lia).
    f_equal. apply (IH _ (s4_end e + 1)); [exact Hr | lia].
Qed.

Lemma sanitize4_id : forall s, wf_cmap4 s = true -> sanitize4 s = s.
Proof. intros s H. unfold sanitize4. apply (sanitize4_from_id s None 0); [exact H | exact I]. Qed.

(* ---------------------------------- 4. sanitize12 leaves well-formed tables unchanged ---------------------------------- *)
Lemma sanitize12_from_id : forall is13 s last lo,
  wf_cmap12_from is13 lo s = true ->
  Forall (fun e => g_end e <= 1114111) s ->
  match last with Some l => l < lo | None => True end ->
  sanitize12_from last s = s.
Proof.
  intros is13. induction s as [|e r IH]; intros last lo Hwf Hmax Hlo; cbn [sanitize12_from].
  - reflexivity.
  - cbn [wf_cmap12_from] in Hwf.
    apply andb_true_iff in Hwf as [Hwf Hr]. apply andb_true_iff in Hwf as [H1 H2].
    inversion Hmax as [|? ? Hm Hmr]; subst.
    unfold wf_grp in H2. unfold max_rune.
    replace ((g_end e <? g_start e) || (1114111 <? g_start e)
             || match last with Some l => g_start e <=? l | None => false end)
      with false by (destruct last as [l|]; lia).
    replace (1114111 <? g_end e) with false by lia.
    cbn [g_end]. f_equal.
    + destruct e; reflexivity.
    + apply (IH _ (g_end e + 1)); [exact Hr | exact Hmr | lia].
Qed.

Lemma sanitize12_id : forall is13 s, wf_cmap12_from is13 0 s = true ->
  Forall (fun e => g_end e <= 1114111) s -> sanitize12 s = s.
Proof. intros is13 s H Hm. unfold sanitize12. apply (sanitize12_from_id is13 s None 0); [exact H | exact Hm | exact I]. Qed.

(* ---------------------------------- 5. newCmap4 builds typed segments ---------------------------------- *)
Lemma Forall_skipn_local : forall (A : Type) (P : A -> Prop) n (l : list A), Forall P l -> Forall P (skipn n l).
Proof.
  induction n as [|n IH]; intros l H; cbn [skipn]; [exact H|].
  destruct l as [|x l]; [constructor|]. inversion H; subst. apply IH; assumption.
Qed.

Lemma get16_range_local : forall l, Forall (fun b => 0 <= b < 256) l -> 0 <= get16 l <= 65535.
Proof.
  intros l H. unfold get16. destruct l as [|a [|b r]]; try lia.
  inversion H as [|? ? Ha T1]; subst. inversion T1 as [|? ? Hb _]; subst. lia.
Qed.

Lemma read_indexes_typed : forall ga, Forall (fun b => 0 <= b < 256) ga ->
  forall n index ix, read_indexes ga index n = Ok ix -> length ix = n /\ forallb u16b ix = true.
Proof.
  intros ga Hga. induction n as [|n IH]; intros index ix H; cbn [read_indexes] in H.
  - inversion H; subst. split; reflexivity.
  - destruct ((index <? 0) || (zlen ga <? 2 * index + 2)); [discriminate|].
    destruct (read_indexes ga (index + 1) n) as [t| | |] eqn:E; cbn [bind] in H; try discriminate.
    inversion H; subst. destruct (IH _ _ E) as [IH1 IH2].
    cbn [length forallb]. rewrite IH1, IH2. split; [reflexivity|].
    assert (Hg : forall k, 0 <= get16 (zskipn k ga) <= 65535)
      by (intros k; apply get16_range_local, Forall_skipn_local, Hga).
    unfold u16b.
    match goal with |- context [get16 (zskipn ?k ga)] => pose proof (Hg k) end. lia.
Qed.

Lemma new_seg4_typed : forall segCount i resolved q ga e resolved',
  (let '(e, st, d, iro) := q in u16b e && u16b st && u16b d && u16b iro = true) ->
  Forall (fun b => 0 <= b < 256) ga ->
  new_seg4 segCount i resolved q ga = Ok (e, resolved') -> ty_seg4 e = true.
Proof.
  intros sc i rs [[[en st] d] iro] ga e rs' Hq Hga H.
  unfold new_seg4 in H. unfold u16b in Hq.
  destruct (negb (st =? 65535) && negb (iro =? 0)).
  - destruct (en <? st) eqn:C1; [discriminate|].
    destruct (65536 <? rs + (en - st + 1)); [discriminate|].
    destruct ((iro / 2 + i - sc <? 0) || (zlen ga <? 2 * (iro / 2 + i - sc + (en - st + 1)))); [discriminate|].
    destruct (read_indexes ga (iro / 2 + i - sc) (Z.to_nat (en - st + 1))) as [ix| | |] eqn:E;
      cbn [bind] in H; try discriminate.
    inversion H; subst. destruct (read_indexes_typed ga Hga _ _ _ E) as [L T].
    unfold ty_seg4, u16b. cbn [s4_start s4_end s4_delta s4_idx]. fold u16b. rewrite T.
    unfold zlen. rewrite L. lia.
  - inversion H; subst. unfold ty_seg4, u16b. cbn [s4_start s4_end s4_delta s4_idx]. lia.
Qed.

Lemma new_cmap4_from_typed : forall qs segCount i resolved ga s,
  Forall (fun q => let '(e, st, d, iro) := q in u16b e && u16b st && u16b d && u16b iro = true) qs ->
  Forall (fun b => 0 <= b < 256) ga ->
  new_cmap4_from segCount i resolved qs ga = Ok s -> forallb ty_seg4 s = true.
Proof.
  induction qs as [|q r IH]; intros sc i rs ga s Hqs Hga H; cbn [new_cmap4_from] in H.
  - inversion H; subst. reflexivity.
  - inversion Hqs as [|? ? Hq Hr]; subst.
    destruct (new_seg4 sc i rs q ga) as [[e rs']| | |] eqn:E; cbn [bind snd fst] in H; try discriminate.
    destruct (new_cmap4_from sc (i + 1) rs' r ga) as [t| | |] eqn:E2; cbn [bind] in H; try discriminate.
    inversion H; subst. cbn [forallb].
    rewrite (new_seg4_typed _ _ _ _ _ _ _ Hq Hga E), (IH _ _ _ _ _ Hr Hga E2). reflexivity.
Qed.

Lemma new_cmap4_typed : forall qs ga s,
  Forall (fun q => let '(e, st, d, iro) := q in u16b e && u16b st && u16b d && u16b iro = true) qs ->
  Forall (fun b => 0 <= b < 256) ga ->
  new_cmap4 qs ga = Ok s -> forallb ty_seg4 s = true.
Proof. intros qs ga s Hqs Hga H. unfold new_cmap4 in H. eapply new_cmap4_from_typed; eassumption. Qed.
