(* Point rules (C18).  A pass that rewrites the glyph under the cursor alone — same cluster, unsafe-to-break flag kept —
   as a function of that glyph only (a single substitution, a single positioning, the assignment of the feature masks
   from the Arabic shaping action ...) meets the contract of Spec/LocalEngine.v in either buffer direction: it reads
   nothing but the glyph it rewrites. *)
From TV Require Import Model.EngineItem Spec.LocalEngine Proofs.LocalEngine Proofs.EngineItem Proofs.KernMachine Proofs.Direction.

Section PointRule.
Variable f : item -> item.
Hypothesis f_keeps : forall x, icl (f x) = icl x /\ (iutb x = true -> iutb (f x) = true).

Definition pt_step (d t : list item) : list item * list item :=
  match t with [] => (d, []) | x :: rest => (d ++ [f x], rest) end.
Definition pt_pass : @pass item unit := mkPass (fun _ _ => pt_step) (fun _ => tt) (fun _ => tt).

Lemma pt_refines d x rest : refines (d ++ x :: rest) ((d ++ [f x]) ++ rest).
Proof.
  rewrite <- app_assoc. apply refines_app; [apply refines_refl|]. destruct (f_keeps x) as (A & B).
  constructor; [split; [symmetry; exact A|exact B]|apply refines_refl].
Qed.

Theorem pt_step_ok side srt (D : dir_ok side srt) : step_ok icl iutb side srt pt_pass.
Proof.
  constructor; cbn [pstep pt_pass].
  - intros L R d t Hne. destruct t as [|x rest]; [contradiction|]. cbn. lia.
  - intros L R d t Hne HS. destruct t as [|x rest]; [contradiction|]. cbn [pt_step fst snd].
    eapply (d_same _ _ D); [|exact HS]. symmetry. apply refines_icls. apply pt_refines.
  - intros L R d t y Hne HI Hy. destruct t as [|x rest]; [contradiction|]. apply (refines_cls _ _ (pt_refines d x rest) y Hy).
  - intros L R d t c Hne HI F. destruct t as [|x rest]; [contradiction|]. apply (refines_fog c _ _ (pt_refines d x rest) F).
  - intros L R R' d t1 t2 c Hne HI HI1 HC _. cbv zeta. right. destruct t1 as [|x r1]; [contradiction|]. reflexivity.
  - intros L L' R d1 d2 t c Hne HI HI2 HC _. cbv zeta. right. destruct t as [|x rest]; [contradiction|].
    cbn [pt_step fst snd]. rewrite app_assoc. reflexivity.
Qed.
End PointRule.
