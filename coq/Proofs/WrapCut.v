(* C02: the rune -> glyph mapping (mapRunesToClusterIndices3) computes map3_spec on well-formed runs, and cutRun with
   that mapping returns exactly the glyphs of the clusters in the requested rune range. *)
From TV Require Import Model.Wrap Spec.Wrap Spec.WrapCut Proofs.Wrap.

(* ---- lists ------------------------------------------------------------------------------------- *)

Lemma znth_app_l : forall {A} (d : A) l1 l2 i, i < zlen l1 -> znth d (l1 ++ l2) i = znth d l1 i.
Proof.
  intros A d l1 l2 i H. unfold znth. destruct (i <? 0) eqn:E; auto. apply app_nth1. unfold zlen in H. lia.
Qed.
Lemma znth_app_r : forall {A} (d : A) l1 l2 i, zlen l1 <= i -> znth d (l1 ++ l2) i = znth d l2 (i - zlen l1).
Proof.
  intros A d l1 l2 i H. pose proof (zlen_nonneg l1). unfold znth.
  destruct (i <? 0) eqn:E; [lia|]. destruct (i - zlen l1 <? 0) eqn:E2; [lia|].
  rewrite app_nth2 by (unfold zlen in *; lia). f_equal. unfold zlen. lia.
Qed.
Lemma znth_repeat : forall {A} (d v : A) n i, 0 <= i < Z.of_nat n -> znth d (repeat v n) i = v.
Proof.
  intros A d v n i H. unfold znth. destruct (i <? 0) eqn:E; [lia|].
  assert (Hk : (Z.to_nat i < n)%nat) by lia. revert Hk. generalize (Z.to_nat i). clear.
  induction n; intros k Hk; [lia|]. destruct k; cbn; auto. apply IHn. lia.
Qed.
Lemma zlen_rev : forall {A} (l : list A), zlen (rev l) = zlen l.
Proof. intros. unfold zlen. rewrite rev_length. reflexivity. Qed.
Lemma zlen_repeat : forall {A} (v : A) n, zlen (repeat v n) = Z.of_nat n.
Proof. intros. unfold zlen. rewrite repeat_length. reflexivity. Qed.
Lemma zlen_zero_nil : forall {A} (l : list A), zlen l = 0 -> l = [].
Proof. intros A l H. destruct l; auto. rewrite zlen_cons in H. pose proof (zlen_nonneg l). lia. Qed.
Lemma zlen_pos : forall {A} (l : list A), l <> [] -> 1 <= zlen l.
Proof. intros A l H. destruct l; [congruence|]. rewrite zlen_cons. pose proof (zlen_nonneg l). lia. Qed.

Lemma znth_ext : forall (l1 l2 : list Z), zlen l1 = zlen l2 ->
  (forall i, 0 <= i < zlen l1 -> znth 0 l1 i = znth 0 l2 i) -> l1 = l2.
Proof.
  intros l1 l2 H H0. apply (nth_ext _ _ 0 0). { unfold zlen in H; lia. }
  intros n Hn. specialize (H0 (Z.of_nat n)). unfold znth in H0.
  destruct (Z.of_nat n <? 0) eqn:E; [lia|]. rewrite Nat2Z.id in H0. apply H0. unfold zlen; lia.
Qed.

Lemma zget_ok : forall {A} (d : A) l i, 0 <= i < zlen l -> zget l i = Ok (znth d l i).
Proof.
  intros A d l i H. unfold zget, znth.
  replace ((0 <=? i) && (i <? zlen l)) with true by (symmetry; apply andb_true_intro; split; [apply Z.leb_le|apply Z.ltb_lt]; lia).
  destruct (i <? 0) eqn:E; [lia|].
  destruct (nth_error l (Z.to_nat i)) eqn:N.
  - rewrite (nth_error_nth _ _ _ N). reflexivity.
  - apply nth_error_None in N. unfold zlen in H. lia.
Qed.

Lemma zseq_length : forall n lo, length (zseq lo n) = n.
Proof. induction n; intros; cbn; auto. Qed.
Lemma zseq_nth : forall n lo k d, (k < n)%nat -> nth k (zseq lo n) d = lo + Z.of_nat k.
Proof.
  induction n; intros lo k d H; [lia|]. destruct k; cbn [zseq nth]; [lia|]. rewrite IHn by lia. lia.
Qed.

(* ---- first_index --------------------------------------------------------------------------------- *)

Lemma fi_shift : forall {A} (f : A -> bool) l k, first_index f l k = k + first_index f l 0.
Proof.
  induction l as [|a l IH]; intros k; cbn [first_index]; [lia|]. destruct (f a); [lia|].
  rewrite (IH (k + 1)), (IH (0 + 1)). lia.
Qed.
Lemma fi_range : forall {A} (f : A -> bool) l k, k <= first_index f l k <= k + zlen l.
Proof.
  induction l as [|a l IH]; intros k; cbn [first_index]; [rewrite zlen_nil; lia|].
  rewrite zlen_cons. pose proof (zlen_nonneg l). destruct (f a); [lia|]. specialize (IH (k + 1)). lia.
Qed.
Lemma fi_app_none : forall {A} (f : A -> bool) l1 l2 k, (forall x, In x l1 -> f x = false) ->
  first_index f (l1 ++ l2) k = first_index f l2 (k + zlen l1).
Proof.
  induction l1 as [|a l1 IH]; intros l2 k H; cbn [app first_index].
  - rewrite zlen_nil. f_equal. lia.
  - rewrite (H a (or_introl eq_refl)). rewrite IH by (intros; apply H; right; auto). rewrite zlen_cons. f_equal. lia.
Qed.
Lemma fi_app_some : forall {A} (f : A -> bool) l1 l2 k x, In x l1 -> f x = true ->
  first_index f (l1 ++ l2) k = first_index f l1 k.
Proof.
  induction l1 as [|a l1 IH]; intros l2 k x Hin Hf; [destruct Hin|]. cbn [app first_index].
  destruct (f a) eqn:E; auto. destruct Hin as [->|Hin]; [congruence|]. eapply IH; eauto.
Qed.
Lemma fi_some_lt : forall {A} (f : A -> bool) l k x, In x l -> f x = true -> first_index f l k < k + zlen l.
Proof.
  induction l as [|a l IH]; intros k x Hin Hf; [destruct Hin|]. cbn [first_index]. rewrite zlen_cons.
  pose proof (zlen_nonneg l). destruct (f a) eqn:E; [lia|]. destruct Hin as [->|Hin]; [congruence|].
  specialize (IH (k + 1) x Hin Hf). lia.
Qed.
Lemma fi_spec : forall {A} (f : A -> bool) (d : A) l k, first_index f l k < k + zlen l ->
  f (znth d l (first_index f l k - k)) = true /\ forall i, k <= i < first_index f l k -> f (znth d l (i - k)) = false.
Proof.
  induction l as [|a l IH]; intros k H; cbn [first_index] in *.
  - rewrite zlen_nil in H. lia.
  - rewrite zlen_cons in H. destruct (f a) eqn:E.
    + replace (k - k) with 0 by lia. split; [exact E|intros; lia].
    + pose proof (fi_range f l (k + 1)). destruct (IH (k + 1) ltac:(lia)) as [I1 I2]. split.
      * rewrite znth_cons_S by lia. replace (first_index f l (k + 1) - k - 1) with (first_index f l (k + 1) - (k + 1)) by lia. exact I1.
      * intros i Hi. destruct (Z.eq_dec i k) as [->|Hne]; [replace (k - k) with 0 by lia; exact E|].
        rewrite znth_cons_S by lia. replace (i - k - 1) with (i - (k + 1)) by lia. apply I2. lia.
Qed.
(* the block lemma: nothing in X satisfies f, everything in the non-empty C does *)
Lemma fi_block : forall {A} (f : A -> bool) X C Y, (forall y, In y X -> f y = false) -> C <> [] ->
  (forall y, In y C -> f y = true) -> first_index f (X ++ C ++ Y) 0 = zlen X.
Proof.
  intros A f X C Y HX HC Hf. rewrite fi_app_none by exact HX. destruct C as [|c C]; [congruence|].
  cbn [app first_index]. rewrite (Hf c (or_introl eq_refl)). lia.
Qed.

(* ---- fill_range, pointwise ------------------------------------------------------------------------ *)

Lemma fill_range_spec : forall m cs ce v, 0 <= cs ->
  exists m', fill_range m cs ce v = Ok m' /\ zlen m' = zlen m /\
    forall i, 0 <= i -> znth 0 m' i = if (cs <=? i) && (i <=? ce) && (i <? zlen m) then v else znth 0 m i.
Proof.
  intros m cs ce v Hcs. destruct (fill_range m cs ce v) as [m'| | |] eqn:F.
  2-4: (unfold fill_range in F; destruct ((cs <=? ce) && (cs <? zlen m)); [destruct (cs <? 0) eqn:N; [lia|discriminate]|discriminate]).
  exists m'. split; [reflexivity|]. split; [eapply fill_range_len; eauto|].
  intros i Hi. unfold fill_range in F.
  destruct ((cs <=? ce) && (cs <? zlen m)) eqn:E.
  - destruct (cs <? 0) eqn:N; [lia|]. inversion F; subst m'; clear F.
    apply andb_prop in E. destruct E as [E1 E2]. apply Z.leb_le in E1. apply Z.ltb_lt in E2.
    set (hi := Z.min ce (zlen m - 1)) in *.
    assert (L1 : zlen (zfirstn cs m) = cs) by (apply zlen_zfirstn; lia).
    destruct (Z_lt_dec i cs) as [A|A].
    + rewrite znth_app_l by lia. rewrite znth_zfirstn by lia.
      replace (cs <=? i) with false by (symmetry; apply Z.leb_gt; lia). reflexivity.
    + rewrite znth_app_r by lia. rewrite L1. destruct (Z_le_dec i hi) as [B|B].
      * rewrite znth_app_l by (rewrite zlen_repeat; lia). rewrite znth_repeat by lia.
        replace ((cs <=? i) && (i <=? ce) && (i <? zlen m)) with true; [reflexivity|].
        symmetry. repeat (apply andb_true_intro; split); [apply Z.leb_le|apply Z.leb_le|apply Z.ltb_lt]; lia.
      * rewrite znth_app_r by (rewrite zlen_repeat; lia). rewrite zlen_repeat.
        rewrite znth_zskipn by lia. replace (hi + 1 + (i - cs - Z.of_nat (Z.to_nat (hi - cs + 1)))) with i by lia.
        destruct ((cs <=? i) && (i <=? ce) && (i <? zlen m)) eqn:C; [|reflexivity].
        apply andb_prop in C. destruct C as [C C3]. apply andb_prop in C. destruct C as [C1 C2].
        apply Z.leb_le in C2. apply Z.ltb_lt in C3. lia.
  - inversion F; subst m'; clear F.
    destruct ((cs <=? i) && (i <=? ce) && (i <? zlen m)) eqn:C; [|reflexivity].
    apply andb_prop in C. destruct C as [C C3]. apply andb_prop in C. destruct C as [C1 C2].
    apply Z.leb_le in C1. apply Z.leb_le in C2. apply Z.ltb_lt in C3.
    apply andb_false_iff in E. destruct E as [E|E]; [apply Z.leb_gt in E|apply Z.ltb_ge in E]; lia.
Qed.

(* ---- the cluster structure ------------------------------------------------------------------------ *)

Definition keyed (p rc n : Z) (x : glyph) : Prop := g_cluster x = p /\ g_rc x = rc /\ g_gc x = n.

(* l (logical order) = clusters covering [p, stop) *)
Inductive clusters : list glyph -> Z -> Z -> Prop :=
| cl_nil : forall p, clusters [] p p
| cl_cons : forall c rest p rc stop, 1 <= rc -> c <> [] -> (forall x, In x c -> keyed p rc (zlen c) x) ->
    clusters rest (p + rc) stop -> clusters (c ++ rest) p stop.

Lemma wf_clusters_sound : forall fuel gs pos stop, wf_clusters fuel gs pos stop = true -> clusters gs pos stop.
Proof.
  induction fuel; intros gs pos stop H; cbn [wf_clusters] in H; [discriminate|].
  destruct gs as [|g gs']. { apply Z.eqb_eq in H; subst; constructor. }
  set (l := g :: gs') in *.
  apply andb_prop in H. destruct H as [H H6]. apply andb_prop in H. destruct H as [H H5].
  apply andb_prop in H. destruct H as [H H4]. apply andb_prop in H. destruct H as [H H3].
  apply andb_prop in H. destruct H as [H1 H2].
  apply Z.eqb_eq in H1. apply Z.leb_le in H2. apply Z.leb_le in H3. apply Z.leb_le in H4.
  apply IHfuel in H6. rewrite forallb_forall in H5.
  rewrite <- (firstn_skipn (Z.to_nat (g_gc g)) l). fold (zfirstn (g_gc g) l). fold (zskipn (g_gc g) l).
  assert (L : zlen (zfirstn (g_gc g) l) = g_gc g) by (apply zlen_zfirstn; lia).
  subst pos. apply cl_cons with (rc := g_rc g); auto.
  - intros E. rewrite E, zlen_nil in L. lia.
  - intros x Hx. specialize (H5 x Hx). unfold same_cluster in H5.
    apply andb_prop in H5. destruct H5 as [H5 K3]. apply andb_prop in H5. destruct H5 as [K1 K2].
    apply Z.eqb_eq in K1. apply Z.eqb_eq in K2. apply Z.eqb_eq in K3. unfold keyed. rewrite L. auto.
Qed.

Lemma wf_glyphs_clusters : forall dir gs off cnt, wf_glyphs dir gs off cnt = true ->
  clusters (logical_glyphs dir gs) off (off + cnt).
Proof. intros. eapply wf_clusters_sound; eauto. Qed.

Lemma cl_le : forall l p stop, clusters l p stop -> p <= stop.
Proof. induction 1; lia. Qed.
Lemma cl_in : forall l p stop, clusters l p stop -> forall x, In x l ->
  p <= g_cluster x /\ 1 <= g_rc x /\ g_cluster x + g_rc x <= stop.
Proof.
  induction 1 as [p|c rest p rc stop Hrc Hne Hkey Hrest IH]; intros x Hx; [destruct Hx|].
  pose proof (cl_le _ _ _ Hrest). apply in_app_or in Hx. destruct Hx as [Hx|Hx].
  - destruct (Hkey x Hx) as (K1 & K2 & K3). lia.
  - specialize (IH x Hx). lia.
Qed.
Lemma cl_same_nil : forall l p q, clusters l p q -> p = q -> l = [].
Proof.
  intros l p q H. destruct H as [p|c rest p rc stop Hrc Hne Hkey Hrest]; auto.
  intros E. apply cl_le in Hrest. lia.
Qed.
Lemma cl_cover : forall l p stop, clusters l p stop -> forall a, p <= a < stop -> exists x, In x l /\ holds a x = true.
Proof.
  induction 1 as [p|c rest p rc stop Hrc Hne Hkey Hrest IH]; intros a Ha; [lia|].
  destruct (Z_lt_dec a (p + rc)) as [A|A].
  - destruct c as [|x c']; [congruence|]. exists x. split; [left; reflexivity|].
    destruct (Hkey x (or_introl eq_refl)) as (K1 & K2 & K3). unfold holds. rewrite K1, K2.
    apply andb_true_intro; split; [apply Z.leb_le|apply Z.ltb_lt]; lia.
  - destruct (IH a ltac:(lia)) as (x & Hx & Hh). exists x. split; [apply in_or_app; right; exact Hx|exact Hh].
Qed.

Lemma holds_true : forall a x, holds a x = true <-> g_cluster x <= a < g_cluster x + g_rc x.
Proof.
  intros. unfold holds. rewrite andb_true_iff, Z.leb_le, Z.ltb_lt. tauto.
Qed.
Lemma holds_false : forall a x, holds a x = false <-> (a < g_cluster x \/ g_cluster x + g_rc x <= a).
Proof.
  intros. unfold holds. rewrite andb_false_iff, Z.leb_gt, Z.ltb_ge. tauto.
Qed.

Lemma zget_app_exact : forall {A} (pre : list A) x post, zget (pre ++ x :: post) (zlen pre) = Ok x.
Proof.
  intros. pose proof (zlen_nonneg pre). pose proof (zlen_nonneg post). unfold zget.
  replace ((0 <=? zlen pre) && (zlen pre <? zlen (pre ++ x :: post))) with true.
  - unfold zlen. rewrite Nat2Z.id. rewrite nth_error_app2 by lia. rewrite Nat.sub_diag. reflexivity.
  - symmetry. apply andb_true_intro; split; [apply Z.leb_le|apply Z.ltb_lt]; [lia|]. rewrite zlen_app, zlen_cons. lia.
Qed.

(* ---- item 1: the two loops -------------------------------------------------------------------------- *)

Lemma map3_ltr_inv : forall todo pos stop, clusters todo pos stop ->
  forall fuel done m off, off <= pos -> (length todo < fuel)%nat ->
  (forall x, In x done -> g_cluster x + g_rc x <= pos) ->
  exists m', map3_ltr fuel (done ++ todo) off (zlen done) m = Ok m' /\ zlen m' = zlen m /\
   (forall i, 0 <= i < pos - off -> znth 0 m' i = znth 0 m i) /\
   (forall i, pos - off <= i < stop - off -> i < zlen m -> znth 0 m' i = first_index (holds (off + i)) (done ++ todo) 0).
Proof.
  induction 1 as [p|c rest p rc stop Hrc Hne Hkey Hrest IH]; intros fuel done m off Hoff Hfuel Hdone.
  - destruct fuel; [cbn in Hfuel; lia|]. cbn [map3_ltr]. rewrite app_nil_r. rewrite Z.ltb_irrefl.
    exists m. repeat split; auto. intros; lia.
  - destruct fuel; [lia|]. cbn [map3_ltr]. destruct c as [|x0 c']; [congruence|].
    destruct (Hkey x0 (or_introl eq_refl)) as (K1 & K2 & K3).
    change ((x0 :: c') ++ rest) with (x0 :: (c' ++ rest)).
    replace (zlen done <? zlen (done ++ x0 :: c' ++ rest)) with true.
    2:{ symmetry. apply Z.ltb_lt. rewrite zlen_app, zlen_cons. pose proof (zlen_nonneg (c' ++ rest)). lia. }
    rewrite zget_app_exact. cbn [bind]. rewrite K1, K2, K3.
    destruct (fill_range_spec m (p - off) (rc + (p - off)) (zlen done) ltac:(lia)) as (m1 & F & L1 & N1).
    rewrite F. cbn [bind].
    replace (zlen done + zlen (x0 :: c')) with (zlen (done ++ x0 :: c')) by (rewrite zlen_app; reflexivity).
    change (x0 :: c' ++ rest) with ((x0 :: c') ++ rest). rewrite (app_assoc done (x0 :: c') rest).
    destruct (IH fuel (done ++ x0 :: c') m1 off) as (m' & R & L & P1 & P2).
    + lia.
    + rewrite app_length in Hfuel. cbn [length] in Hfuel. lia.
    + intros x Hx. apply in_app_or in Hx. destruct Hx as [Hx|Hx]; [specialize (Hdone x Hx); lia|].
      destruct (Hkey x Hx) as (Q1 & Q2 & _). lia.
    + exists m'. split; [exact R|]. split; [lia|]. split.
      * intros i Hi. rewrite P1 by lia. rewrite N1 by lia.
        replace (p - off <=? i) with false by (symmetry; apply Z.leb_gt; lia). reflexivity.
      * intros i Hi Hlen. destruct (Z_lt_dec i (p + rc - off)) as [A|A].
        -- rewrite P1 by lia. rewrite N1 by lia.
           replace ((p - off <=? i) && (i <=? rc + (p - off)) && (i <? zlen m)) with true.
           2:{ symmetry. repeat (apply andb_true_intro; split); [apply Z.leb_le|apply Z.leb_le|apply Z.ltb_lt]; lia. }
           symmetry. rewrite <- app_assoc. apply fi_block.
           ++ intros y Hy. specialize (Hdone y Hy). apply holds_false. lia.
           ++ congruence.
           ++ intros y Hy. destruct (Hkey y Hy) as (Q1 & Q2 & _). apply holds_true. lia.
        -- apply P2; lia.
Qed.

Lemma map3_rtl_inv : forall todo pos stop, clusters todo pos stop ->
  forall fuel done m off, off <= pos -> (length todo < fuel)%nat ->
  exists m', map3_rtl fuel (rev todo ++ done) off (zlen todo - 1) m = Ok m' /\ zlen m' = zlen m /\
   (forall i, 0 <= i < pos - off -> znth 0 m' i = znth 0 m i) /\
   (forall i, pos - off <= i < stop - off -> i < zlen m -> znth 0 m' i = first_index (holds (off + i)) (rev todo ++ done) 0).
Proof.
  induction 1 as [p|c rest p rc stop Hrc Hne Hkey Hrest IH]; intros fuel done m off Hoff Hfuel.
  - destruct fuel; [cbn in Hfuel; lia|]. cbn. exists m. repeat split; auto. intros; lia.
  - destruct fuel; [lia|]. cbn [map3_rtl]. destruct c as [|x0 c']; [congruence|].
    destruct (Hkey x0 (or_introl eq_refl)) as (K1 & K2 & K3).
    pose proof (zlen_nonneg c') as Zc. pose proof (zlen_nonneg rest) as Zr.
    assert (Hg : zlen ((x0 :: c') ++ rest) - 1 = zlen (rev rest ++ rev c')).
    { rewrite !zlen_app, zlen_cons, !zlen_rev. lia. }
    assert (Hst : rev ((x0 :: c') ++ rest) ++ done = (rev rest ++ rev c') ++ x0 :: done).
    { rewrite rev_app_distr. cbn [rev]. rewrite <- !app_assoc. reflexivity. }
    rewrite Hg, Hst.
    replace (0 <=? zlen (rev rest ++ rev c')) with true by (symmetry; apply Z.leb_le; apply zlen_nonneg).
    rewrite zget_app_exact. cbn [bind]. rewrite K1, K2, K3.
    replace (zlen (rev rest ++ rev c') - (zlen (x0 :: c') - 1)) with (zlen rest)
      by (rewrite zlen_app, zlen_cons, !zlen_rev; lia).
    destruct (fill_range_spec m (p - off) (rc + (p - off)) (zlen rest) ltac:(lia)) as (m1 & F & L1 & N1).
    rewrite F. cbn [bind]. rewrite <- Hst. rewrite rev_app_distr, <- app_assoc.
    destruct (IH fuel (rev (x0 :: c') ++ done) m1 off) as (m' & R & L & P1 & P2).
    + lia.
    + rewrite app_length in Hfuel. cbn [length] in Hfuel. lia.
    + exists m'. split; [exact R|]. split; [lia|]. split.
      * intros i Hi. rewrite P1 by lia. rewrite N1 by lia.
        replace (p - off <=? i) with false by (symmetry; apply Z.leb_gt; lia). reflexivity.
      * intros i Hi Hlen. destruct (Z_lt_dec i (p + rc - off)) as [A|A].
        -- rewrite P1 by lia. rewrite N1 by lia.
           replace ((p - off <=? i) && (i <=? rc + (p - off)) && (i <? zlen m)) with true.
           2:{ symmetry. repeat (apply andb_true_intro; split); [apply Z.leb_le|apply Z.leb_le|apply Z.ltb_lt]; lia. }
           symmetry. rewrite <- (zlen_rev rest). apply fi_block.
           ++ intros y Hy. apply in_rev in Hy. destruct (cl_in _ _ _ Hrest y Hy) as (Q1 & Q2 & Q3).
              apply holds_false. lia.
           ++ intros E. apply (f_equal (@length glyph)) in E. rewrite rev_length in E. discriminate.
           ++ intros y Hy. apply in_rev in Hy. destruct (Hkey y Hy) as (Q1 & Q2 & _). apply holds_true. lia.
        -- apply P2; lia.
Qed.

Lemma map3_spec_len : forall gs off cnt, 0 <= cnt -> zlen (map3_spec gs off cnt) = cnt.
Proof. intros. unfold map3_spec, zlen. rewrite map_length, zseq_length. lia. Qed.
Lemma map3_spec_nth : forall gs off cnt i, 0 <= i < cnt ->
  znth 0 (map3_spec gs off cnt) i = first_index (holds (off + i)) gs 0.
Proof.
  intros gs off cnt i H. unfold map3_spec, znth. destruct (i <? 0) eqn:E; [lia|].
  set (f := fun i0 => first_index (holds (off + i0)) gs 0).
  rewrite (nth_indep _ 0 (f 0)) by (rewrite map_length, zseq_length; lia).
  rewrite map_nth. rewrite zseq_nth by lia. unfold f. f_equal. f_equal. lia.
Qed.

Lemma wf_glyphs_cnt : forall dir gs off cnt, wf_glyphs dir gs off cnt = true -> 0 <= cnt.
Proof. intros. apply wf_glyphs_clusters in H. apply cl_le in H. lia. Qed.

Lemma map3_correct : forall dir off gs init cnt,
  wf_glyphs dir gs off cnt = true -> zlen init = cnt ->
  map3 dir off gs init = Ok (map3_spec gs off cnt).
Proof.
  intros dir off gs init cnt Hwf Hlen. pose proof (wf_glyphs_cnt _ _ _ _ Hwf) as Hcnt.
  apply wf_glyphs_clusters in Hwf. unfold map3. unfold logical_glyphs in Hwf.
  destruct (dir_rtl dir).
  - destruct (map3_rtl_inv _ _ _ Hwf (S (length gs)) [] init off ltac:(lia)) as (m' & R & L & _ & P).
    { rewrite rev_length. lia. }
    rewrite rev_involutive, app_nil_r, zlen_rev in R. rewrite R. f_equal.
    apply znth_ext. { rewrite map3_spec_len by lia. lia. }
    intros i Hi. rewrite map3_spec_nth by lia. rewrite P by lia. rewrite rev_involutive, app_nil_r. reflexivity.
  - destruct (map3_ltr_inv _ _ _ Hwf (S (length gs)) [] init off ltac:(lia) ltac:(lia)) as (m' & R & L & _ & P).
    { intros x []. }
    cbn [app] in R. rewrite zlen_nil in R. rewrite R. f_equal.
    apply znth_ext. { rewrite map3_spec_len by lia. lia. }
    intros i Hi. rewrite map3_spec_nth by lia. rewrite P by lia. reflexivity.
Qed.

(* ---- item 2: the entries are first indices of glyphs holding the rune ------------------------------- *)

Lemma in_logical : forall dir gs x, In x (logical_glyphs dir gs) <-> In x gs.
Proof. intros. unfold logical_glyphs. destruct (dir_rtl dir); [symmetry; apply in_rev|tauto]. Qed.

Lemma map3_spec_first : forall dir off gs cnt i,
  wf_glyphs dir gs off cnt = true -> 0 <= i < cnt ->
  let j := znth 0 (map3_spec gs off cnt) i in
  0 <= j < zlen gs /\ holds (off + i) (znth glyph_zero gs j) = true
  /\ (forall k, 0 <= k < j -> holds (off + i) (znth glyph_zero gs k) = false).
Proof.
  intros dir off gs cnt i Hwf Hi j. subst j. rewrite map3_spec_nth by lia.
  apply wf_glyphs_clusters in Hwf. destruct (cl_cover _ _ _ Hwf (off + i) ltac:(lia)) as (x & Hx & Hh).
  apply in_logical in Hx.
  pose proof (fi_some_lt (holds (off + i)) gs 0 x Hx Hh) as Hlt.
  pose proof (fi_range (holds (off + i)) gs 0) as Hr.
  destruct (fi_spec (holds (off + i)) glyph_zero gs 0 Hlt) as [S1 S2]. rewrite Z.sub_0_r in S1.
  split; [lia|]. split; [exact S1|]. intros k Hk. specialize (S2 k Hk). rewrite Z.sub_0_r in S2. exact S2.
Qed.

(* ---- item 3: monotone in the run's progression --------------------------------------------------------- *)

Lemma cl_mono_ltr : forall l p stop, clusters l p stop -> forall a b k, p <= a <= b -> b < stop ->
  first_index (holds a) l k <= first_index (holds b) l k.
Proof.
  induction 1 as [p|c rest p rc stop Hrc Hne Hkey Hrest IH]; intros a b k Hab Hb; [lia|].
  destruct (Z_lt_dec a (p + rc)) as [A|A].
  - destruct c as [|x0 c']; [congruence|]. destruct (Hkey x0 (or_introl eq_refl)) as (K1 & K2 & _).
    pose proof (fi_range (holds b) ((x0 :: c') ++ rest) k).
    assert (E : first_index (holds a) ((x0 :: c') ++ rest) k = k).
    { cbn [app first_index]. replace (holds a x0) with true by (symmetry; apply holds_true; lia). reflexivity. }
    lia.
  - rewrite !fi_app_none.
    + apply IH; lia.
    + intros x Hx. destruct (Hkey x Hx) as (K1 & K2 & _). apply holds_false. lia.
    + intros x Hx. destruct (Hkey x Hx) as (K1 & K2 & _). apply holds_false. lia.
Qed.

Lemma rev_nonnil : forall {A} (l : list A), l <> [] -> rev l <> [].
Proof. intros A l H E. apply (f_equal (@length A)) in E. rewrite rev_length in E. destruct l; [congruence|discriminate]. Qed.

Lemma cl_mono_rtl : forall l p stop, clusters l p stop -> forall a b, p <= a <= b -> b < stop ->
  first_index (holds b) (rev l) 0 <= first_index (holds a) (rev l) 0.
Proof.
  induction 1 as [p|c rest p rc stop Hrc Hne Hkey Hrest IH]; intros a b Hab Hb; [lia|].
  rewrite rev_app_distr.
  assert (Hblock : forall q, p <= q < p + rc -> first_index (holds q) (rev rest ++ rev c) 0 = zlen (rev rest)).
  { intros q Hq. rewrite <- (app_nil_r (rev c)). apply fi_block.
    - intros y Hy. apply in_rev in Hy. destruct (cl_in _ _ _ Hrest y Hy) as (Q1 & Q2 & Q3). apply holds_false. lia.
    - apply rev_nonnil; auto.
    - intros y Hy. apply in_rev in Hy. destruct (Hkey y Hy) as (Q1 & Q2 & _). apply holds_true. lia. }
  assert (Hrest' : forall q, p + rc <= q < stop ->
            first_index (holds q) (rev rest ++ rev c) 0 = first_index (holds q) (rev rest) 0).
  { intros q Hq. destruct (cl_cover _ _ _ Hrest q Hq) as (x & Hx & Hh). apply in_rev in Hx.
    eapply fi_app_some; eauto. }
  destruct (Z_lt_dec b (p + rc)) as [B|B].
  - rewrite !Hblock by lia. lia.
  - rewrite (Hrest' b) by lia. destruct (Z_lt_dec a (p + rc)) as [A|A].
    + rewrite Hblock by lia. pose proof (fi_range (holds b) (rev rest) 0). lia.
    + rewrite (Hrest' a) by lia. apply IH; lia.
Qed.

Lemma map3_spec_mono : forall dir off gs cnt i j,
  wf_glyphs dir gs off cnt = true -> 0 <= i <= j -> j < cnt ->
  if dir_rtl dir then znth 0 (map3_spec gs off cnt) j <= znth 0 (map3_spec gs off cnt) i
  else znth 0 (map3_spec gs off cnt) i <= znth 0 (map3_spec gs off cnt) j.
Proof.
  intros dir off gs cnt i j Hwf Hij Hj. apply wf_glyphs_clusters in Hwf. unfold logical_glyphs in Hwf.
  rewrite !map3_spec_nth by lia. destruct (dir_rtl dir).
  - pose proof (cl_mono_rtl _ _ _ Hwf (off + i) (off + j) ltac:(lia) ltac:(lia)) as H.
    rewrite rev_involutive in H. exact H.
  - apply (cl_mono_ltr _ _ _ Hwf); lia.
Qed.

(* ---- item 4: cutRun does not panic --------------------------------------------------------------------- *)

Lemma out_glyphs_whole : forall st run, o_lo run = 0 -> o_len run = zlen (src_array st (o_src run)) ->
  out_glyphs st run = src_array st (o_src run).
Proof. intros st run H1 H2. unfold out_glyphs. rewrite H1, H2, zskipn_0. apply zfirstn_all. lia. Qed.

Lemma igr_total : forall dir gs off cnt rs re,
  wf_glyphs dir gs off cnt = true -> 0 <= rs <= re -> re < cnt ->
  exists a b, inclusive_glyph_range dir rs re (map3_spec gs off cnt) (zlen gs) = Ok (a, b)
    /\ 0 <= a /\ a <= b + 1 /\ b + 1 <= zlen gs.
Proof.
  intros dir gs off cnt rs re Hwf Hrs Hre. unfold inclusive_glyph_range.
  assert (Hlen : zlen (map3_spec gs off cnt) = cnt) by (apply map3_spec_len; lia).
  set (m := map3_spec gs off cnt) in *.
  assert (Hget : forall i, 0 <= i < cnt -> zget m i = Ok (znth 0 m i)) by (intros; apply zget_ok; lia).
  assert (Hb : forall i, 0 <= i < cnt -> 0 <= znth 0 m i < zlen gs).
  { intros i Hi. apply (map3_spec_first dir off gs cnt i Hwf Hi). }
  destruct (dir_rtl dir) eqn:D.
  - rewrite Hget by lia. cbn [bind]. destruct (0 <=? rs - 1) eqn:E.
    + apply Z.leb_le in E. rewrite Hget by lia. cbn [bind]. do 2 eexists. split; [reflexivity|].
      pose proof (map3_spec_mono dir off gs cnt (rs - 1) re Hwf ltac:(lia) ltac:(lia)) as M. rewrite D in M. fold m in M.
      pose proof (Hb re ltac:(lia)). pose proof (Hb (rs - 1) ltac:(lia)). lia.
    + do 2 eexists. split; [reflexivity|]. pose proof (Hb re ltac:(lia)). lia.
  - rewrite Hget by lia. cbn [bind]. rewrite Hlen. destruct (re + 1 <? cnt) eqn:E.
    + apply Z.ltb_lt in E. rewrite Hget by lia. cbn [bind]. do 2 eexists. split; [reflexivity|].
      pose proof (map3_spec_mono dir off gs cnt rs (re + 1) Hwf ltac:(lia) ltac:(lia)) as M. rewrite D in M. fold m in M.
      pose proof (Hb rs ltac:(lia)). pose proof (Hb (re + 1) ltac:(lia)). lia.
    + do 2 eexists. split; [reflexivity|]. pose proof (Hb rs ltac:(lia)). lia.
Qed.

Lemma cut_bounds : forall off cnt s e lenm, lenm = cnt -> 1 <= cnt -> s <= e -> s < off + cnt -> off <= e ->
  (if s - off <? 0 then 0 else s - off) = Z.max s off - off
  /\ (if lenm <=? e - off then lenm - 1 else e - off) = Z.min e (off + cnt - 1) - off.
Proof.
  intros off cnt s e lenm -> H1 H2 H3 H4. split.
  - destruct (s - off <? 0) eqn:E; lia.
  - destruct (cnt <=? e - off) eqn:E; lia.
Qed.

(* FALSE as first stated (without 1 <= o_cnt run): an empty run over an empty rune range, s < off <= e; the mapping is
   empty and inclusiveGlyphRange indexes it.  See cut_run_total_needs_runes at the end of the file. *)
Lemma cut_run_total : forall st run s e trim,
  let gs := out_glyphs st run in
  o_lo run = 0 -> o_len run = zlen (src_array st (o_src run)) ->
  wf_glyphs (o_dir run) gs (o_off run) (o_cnt run) = true ->
  1 <= o_cnt run ->
  s <= e -> s < o_off run + o_cnt run -> o_off run <= e ->
  exists st' r, cut_run st run (map3_spec gs (o_off run) (o_cnt run)) s e trim = Ok (st', r).
Proof.
  intros st run s e trim gs Hlo Hlen Hwf Hcnt Hse Hs He.
  assert (Hgs : gs = src_array st (o_src run)) by (apply out_glyphs_whole; auto).
  unfold cut_run.
  assert (Hm : zlen (map3_spec gs (o_off run) (o_cnt run)) = o_cnt run) by (apply map3_spec_len; lia).
  destruct (cut_bounds (o_off run) (o_cnt run) s e _ Hm Hcnt Hse Hs He) as [B1 B2]. rewrite B1, B2.
  rewrite Hlen, <- Hgs.
  destruct (igr_total (o_dir run) gs (o_off run) (o_cnt run) (Z.max s (o_off run) - o_off run)
              (Z.min e (o_off run + o_cnt run - 1) - o_off run) Hwf ltac:(lia) ltac:(lia)) as (a & b & I & I1 & I2 & I3).
  rewrite I. cbn [bind]. rewrite Hlo.
  replace ((0 <=? a) && (a <=? b + 1) && (b + 1 <=? zlen gs - 0)) with true.
  - do 2 eexists. reflexivity.
  - symmetry. repeat (apply andb_true_intro; split); apply Z.leb_le; lia.
Qed.

(* ---- item 5: exactness at cluster boundaries -------------------------------------------------------------- *)

Lemma fi_block_hd : forall {A} (f : A -> bool) X c Y, (forall y, In y X -> f y = false) -> f c = true ->
  first_index f (X ++ c :: Y) 0 = zlen X.
Proof. intros A f X c Y H H0. rewrite fi_app_none by auto. cbn [first_index]. rewrite H0. lia. Qed.

Lemma cl_hd : forall l p stop, clusters l p stop -> p < stop ->
  exists x l', l = x :: l' /\ g_cluster x = p /\ 1 <= g_rc x.
Proof.
  intros l p stop H. destruct H as [p|c rest p rc stop Hrc Hne Hkey Hrest]; intros Hlt; [lia|].
  destruct c as [|x c']; [congruence|]. exists x, (c' ++ rest). split; [reflexivity|].
  destruct (Hkey x (or_introl eq_refl)) as (K1 & K2 & _). lia.
Qed.
Lemma cl_last : forall l p stop, clusters l p stop -> p < stop ->
  exists l' x, l = l' ++ [x] /\ g_cluster x + g_rc x = stop /\ 1 <= g_rc x.
Proof.
  induction 1 as [p|c rest p rc stop Hrc Hne Hkey Hrest IH]; intros Hlt; [lia|].
  destruct (Z.eq_dec (p + rc) stop) as [E|E].
  - assert (rest = []) by (eapply cl_same_nil; eauto). subst rest. rewrite app_nil_r.
    destruct (exists_last Hne) as (l' & x & ->). exists l', x. split; auto.
    destruct (Hkey x ltac:(apply in_or_app; right; left; reflexivity)) as (K1 & K2 & _). lia.
  - pose proof (cl_le _ _ _ Hrest). destruct (IH ltac:(lia)) as (l' & x & -> & Q).
    exists (c ++ l'), x. rewrite app_assoc. auto.
Qed.
Lemma cl_split : forall l p stop, clusters l p stop -> forall q, p <= q <= stop ->
  (q = p \/ q = stop \/ exists g, In g l /\ g_cluster g = q) ->
  exists l1 l2, l = l1 ++ l2 /\ clusters l1 p q /\ clusters l2 q stop.
Proof.
  induction 1 as [p|c rest p rc stop Hrc Hne Hkey Hrest IH]; intros q Hq Hd.
  - assert (q = p) by lia. subst. exists [], []. repeat split; constructor.
  - destruct (Z.eq_dec q p) as [->|Hne'].
    + exists [], (c ++ rest). split; [reflexivity|]. split; [constructor|]. econstructor; eauto.
    + pose proof (cl_le _ _ _ Hrest) as Hle.
      assert (Hq' : p + rc <= q /\ (q = p + rc \/ q = stop \/ exists g, In g rest /\ g_cluster g = q)).
      { destruct Hd as [Hd|[Hd|(g & Hg & Hc)]]; [lia|split; [lia|auto]|].
        apply in_app_or in Hg. destruct Hg as [Hg|Hg].
        - destruct (Hkey g Hg) as (K1 & _). lia.
        - destruct (cl_in _ _ _ Hrest g Hg) as (Q1 & _). split; [lia|]. right; right; eauto. }
      destruct Hq' as [Hq1 Hq2]. destruct (IH q ltac:(lia) Hq2) as (l1 & l2 & -> & C1 & C2).
      exists (c ++ l1), l2. split; [apply app_assoc|]. split; [econstructor; eauto|exact C2].
Qed.

Lemma cluster_start_cases : forall gs off cnt p, cluster_start gs off cnt p = true ->
  p <= off \/ off + cnt <= p \/ exists g, In g gs /\ g_cluster g = p.
Proof.
  intros gs off cnt p H. unfold cluster_start in H. apply orb_prop in H. destruct H as [H|H].
  - apply orb_prop in H. destruct H as [H|H]; apply Z.leb_le in H; auto.
  - right; right. apply existsb_exists in H. destruct H as (g & Hg & E). apply Z.eqb_eq in E. eauto.
Qed.

Lemma cut_split : forall dir gs off cnt s' e1,
  wf_glyphs dir gs off cnt = true -> off <= s' -> s' < e1 -> e1 <= off + cnt ->
  cluster_start gs off cnt s' = true -> cluster_start gs off cnt e1 = true ->
  exists A M B, logical_glyphs dir gs = A ++ M ++ B
    /\ clusters A off s' /\ clusters M s' e1 /\ clusters B e1 (off + cnt).
Proof.
  intros dir gs off cnt s' e1 Hwf H1 H2 H3 Hs He. apply wf_glyphs_clusters in Hwf.
  destruct (cl_split _ _ _ Hwf s' ltac:(lia)) as (A & R & HL & CA & CR).
  { apply cluster_start_cases in Hs. destruct Hs as [Hs|[Hs|(g & Hg & Hc)]]; [left; lia|lia|].
    right; right. exists g. split; [apply in_logical; exact Hg|exact Hc]. }
  destruct (cl_split _ _ _ CR e1 ltac:(lia)) as (M & B & HR & CM & CB).
  { apply cluster_start_cases in He. destruct He as [He|[He|(g & Hg & Hc)]]; [lia|right; left; lia|].
    right; right. exists g. split; [|exact Hc]. apply (in_logical dir) in Hg. rewrite HL in Hg.
    apply in_app_or in Hg. destruct Hg as [Hg|Hg]; [|exact Hg].
    destruct (cl_in _ _ _ CA g Hg) as (Q1 & Q2 & Q3). lia. }
  exists A, M, B. rewrite HL, HR. auto.
Qed.

Lemma cut_decomp : forall dir gs off cnt s' e',
  wf_glyphs dir gs off cnt = true -> off <= s' -> s' <= e' -> e' < off + cnt ->
  cluster_start gs off cnt s' = true -> cluster_start gs off cnt (e' + 1) = true ->
  exists X Y Z, gs = X ++ Y ++ Z /\ Y <> []
    /\ inclusive_glyph_range dir (s' - off) (e' - off) (map3_spec gs off cnt) (zlen gs) = Ok (zlen X, zlen X + zlen Y - 1)
    /\ (forall x, In x Y -> s' <= g_cluster x /\ 1 <= g_rc x /\ g_cluster x + g_rc x <= e' + 1)
    /\ (forall x, In x X \/ In x Z -> 1 <= g_rc x /\ (g_cluster x + g_rc x <= s' \/ e' + 1 <= g_cluster x)).
Proof.
  intros dir gs off cnt s' e' Hwf H1 H2 H3 Hs He.
  destruct (cut_split dir gs off cnt s' (e' + 1) Hwf ltac:(lia) ltac:(lia) ltac:(lia) Hs He) as (A & M & B & HL & CA & CM & CB).
  assert (Hlen : zlen (map3_spec gs off cnt) = cnt) by (apply map3_spec_len; lia).
  assert (Hnth : forall i a, 0 <= i < cnt -> a = off + i ->
            zget (map3_spec gs off cnt) i = Ok (first_index (holds a) gs 0)).
  { intros i a Hi ->. rewrite (zget_ok 0) by lia. rewrite map3_spec_nth by lia. reflexivity. }
  set (m := map3_spec gs off cnt) in *.
  pose proof (cl_in _ _ _ CA) as FA. pose proof (cl_in _ _ _ CM) as FM. pose proof (cl_in _ _ _ CB) as FB.
  destruct (cl_hd _ _ _ CM ltac:(lia)) as (mh & M' & EM & MH1 & MH2).
  destruct (cl_last _ _ _ CM ltac:(lia)) as (M'' & ml & EM' & ML1 & ML2).
  unfold logical_glyphs in HL. unfold inclusive_glyph_range. destruct (dir_rtl dir) eqn:D.
  - assert (Hgs : gs = rev B ++ rev M ++ rev A).
    { apply (f_equal (@rev glyph)) in HL. rewrite rev_involutive in HL. rewrite HL.
      rewrite !rev_app_distr. rewrite app_assoc. reflexivity. }
    exists (rev B), (rev M), (rev A). split; [exact Hgs|]. split; [apply rev_nonnil; rewrite EM; discriminate|].
    assert (F1 : first_index (holds e') gs 0 = zlen (rev B)).
    { rewrite Hgs. rewrite EM' at 1. rewrite rev_app_distr. cbn [rev app]. apply fi_block_hd.
      - intros y Hy. apply in_rev in Hy. apply holds_false. specialize (FB y Hy). lia.
      - apply holds_true. lia. }
    assert (F2 : off < s' -> first_index (holds (s' - 1)) gs 0 = zlen (rev B) + zlen (rev M)).
    { intros Hlt. destruct (cl_last _ _ _ CA Hlt) as (A' & al & EA & AL1 & AL2).
      rewrite Hgs. rewrite EA. rewrite rev_app_distr. cbn [rev app]. rewrite app_assoc. rewrite <- zlen_app.
      apply fi_block_hd.
      - intros y Hy. apply holds_false. apply in_app_or in Hy. destruct Hy as [Hy|Hy]; apply in_rev in Hy.
        + specialize (FB y Hy). lia.
        + specialize (FM y Hy). lia.
      - apply holds_true. lia. }
    assert (F3 : s' = off -> zlen gs = zlen (rev B) + zlen (rev M)).
    { intros E. assert (A = []) by (eapply cl_same_nil; eauto). subst A. rewrite Hgs.
      cbn [rev]. rewrite app_nil_r, zlen_app. reflexivity. }
    split; [|split].
    + rewrite (Hnth (e' - off) e') by lia. cbn [bind]. rewrite F1. destruct (0 <=? s' - off - 1) eqn:E.
      * apply Z.leb_le in E. rewrite (Hnth (s' - off - 1) (s' - 1)) by lia. cbn [bind]. rewrite F2 by lia. reflexivity.
      * apply Z.leb_gt in E. rewrite F3 by lia. reflexivity.
    + intros x Hx. apply in_rev in Hx. specialize (FM x Hx). lia.
    + intros x [Hx|Hx]; apply in_rev in Hx; [specialize (FB x Hx)|specialize (FA x Hx)]; lia.
  - exists A, M, B. split; [exact HL|]. split; [rewrite EM; discriminate|].
    assert (F1 : first_index (holds s') gs 0 = zlen A).
    { rewrite HL. rewrite EM. cbn [app]. apply fi_block_hd.
      - intros y Hy. apply holds_false. specialize (FA y Hy). lia.
      - apply holds_true. lia. }
    assert (F2 : e' + 1 < off + cnt -> first_index (holds (e' + 1)) gs 0 = zlen A + zlen M).
    { intros Hlt. destruct (cl_hd _ _ _ CB Hlt) as (bh & B' & EB & BH1 & BH2).
      rewrite HL. rewrite EB. rewrite app_assoc. rewrite <- zlen_app. apply fi_block_hd.
      - intros y Hy. apply holds_false. apply in_app_or in Hy. destruct Hy as [Hy|Hy].
        + specialize (FA y Hy). lia.
        + specialize (FM y Hy). lia.
      - apply holds_true. lia. }
    assert (F3 : e' + 1 = off + cnt -> zlen gs = zlen A + zlen M).
    { intros E. assert (B = []) by (eapply cl_same_nil; eauto). subst B. rewrite HL.
      rewrite app_nil_r, zlen_app. reflexivity. }
    split; [|split].
    + rewrite (Hnth (s' - off) s') by lia. cbn [bind]. rewrite F1. rewrite Hlen. destruct (e' - off + 1 <? cnt) eqn:E.
      * apply Z.ltb_lt in E. rewrite (Hnth (e' - off + 1) (e' + 1)) by lia. cbn [bind]. rewrite F2 by lia. reflexivity.
      * apply Z.ltb_ge in E. rewrite F3 by lia. reflexivity.
    + intros x Hx. specialize (FM x Hx). lia.
    + intros x [Hx|Hx]; [specialize (FA x Hx)|specialize (FB x Hx)]; lia.
Qed.

Lemma list_set_app : forall {A} (X : list A) y R v, list_set (X ++ y :: R) (length X) v = X ++ v :: R.
Proof. induction X; intros; cbn; auto. f_equal. apply IHX. Qed.
Lemma zset_app : forall {A} (X : list A) y R v, zset (X ++ y :: R) (zlen X) v = X ++ v :: R.
Proof.
  intros. unfold zset, zlen. destruct (Z.of_nat (length X) <? 0) eqn:E; [apply Z.ltb_lt in E; lia|]. rewrite Nat2Z.id. apply list_set_app.
Qed.
Lemma nth_list_set : forall {A} (l : list A) n x d, (n < length l)%nat -> nth n (list_set l n x) d = x.
Proof. induction l; intros n x d H; cbn in H; [lia|]. destruct n; cbn; auto. apply IHl. lia. Qed.
Lemma src_array_update : forall st src i f, 0 <= src < zlen st ->
  src_array (store_update st src i f) src = zset (src_array st src) i (f (znth glyph_zero (src_array st src) i)).
Proof.
  intros st src i f H. unfold store_update. set (v := zset (src_array st src) i _).
  unfold src_array, zset, znth. destruct (src <? 0) eqn:E; [lia|]. apply nth_list_set. unfold zlen in H. lia.
Qed.
Lemma slice_mid : forall {A} (X Y Z : list A), zfirstn (zlen Y) (zskipn (zlen X) (X ++ Y ++ Z)) = Y.
Proof. intros. rewrite zskipn_app_exact, zfirstn_app_exact. reflexivity. Qed.

Lemma filter_true : forall {A} (f : A -> bool) l, (forall x, In x l -> f x = true) -> filter f l = l.
Proof. induction l; intros H; cbn; auto. rewrite (H a (or_introl eq_refl)). f_equal. apply IHl. intros; apply H; right; auto. Qed.
Lemma filter_false : forall {A} (f : A -> bool) l, (forall x, In x l -> f x = false) -> filter f l = [].
Proof. induction l; intros H; cbn; auto. rewrite (H a (or_introl eq_refl)). apply IHl. intros; apply H; right; auto. Qed.
Lemma filter_mid : forall {A} (f : A -> bool) X Y Z, (forall x, In x X -> f x = false) ->
  (forall x, In x Y -> f x = true) -> (forall x, In x Z -> f x = false) -> filter f (X ++ Y ++ Z) = Y.
Proof.
  intros. rewrite !filter_app. rewrite (filter_false f X), (filter_true f Y), (filter_false f Z) by auto.
  cbn. apply app_nil_r.
Qed.

(* the tail of cutRun once inclusiveGlyphRange answered [|X|, |X| + |Y| - 1] on the array X ++ Y ++ Z *)
Lemma cut_run_tail : forall st run m s e trim X y Y' Z,
  o_lo run = 0 -> 0 <= o_src run < zlen st -> src_array st (o_src run) = X ++ (y :: Y') ++ Z ->
  inclusive_glyph_range (o_dir run) (if s - o_off run <? 0 then 0 else s - o_off run)
     (if zlen m <=? e - o_off run then zlen m - 1 else e - o_off run) m (o_len run)
    = Ok (zlen X, zlen X + zlen (y :: Y') - 1) ->
  exists st' r, cut_run st run m s e trim = Ok (st', r)
    /\ o_off r = o_off run + (if s - o_off run <? 0 then 0 else s - o_off run)
    /\ o_cnt r = (if zlen m <=? e - o_off run then zlen m - 1 else e - o_off run) - (if s - o_off run <? 0 then 0 else s - o_off run) + 1
    /\ o_src r = o_src run /\ o_dir r = o_dir run
    /\ o_lo r = zlen X /\ o_len r = zlen (y :: Y')
    /\ out_glyphs st r = y :: Y'
    /\ st' = (if trim then store_update st (o_src run) (o_lo r) trim_glyph else st)
    /\ out_glyphs st' r = (if trim then trim_first (y :: Y') else y :: Y')
    /\ o_adv r = sum_adv (out_glyphs st' r).
Proof.
  intros st run m s e trim X y Y' Z Hlo Hsrc Harr Higr. unfold cut_run. cbv zeta. rewrite Higr. cbn [bind].
  set (rs := if s - o_off run <? 0 then 0 else s - o_off run) in *.
  set (re := if zlen m <=? e - o_off run then zlen m - 1 else e - o_off run) in *.
  rewrite Harr, Hlo. pose proof (zlen_nonneg X) as ZX. pose proof (zlen_nonneg Y') as ZY. pose proof (zlen_nonneg Z) as ZZ.
  assert (LY : zlen (y :: Y') = 1 + zlen Y') by apply zlen_cons.
  replace ((0 <=? zlen X) && (zlen X <=? zlen X + zlen (y :: Y') - 1 + 1)
           && (zlen X + zlen (y :: Y') - 1 + 1 <=? zlen (X ++ (y :: Y') ++ Z) - 0)) with true.
  2:{ symmetry. rewrite !zlen_app. repeat (apply andb_true_intro; split); apply Z.leb_le; lia. }
  cbn [o_len o_src o_lo].
  replace (zlen X + zlen (y :: Y') - 1 + 1 - zlen X) with (zlen (y :: Y')) by lia.
  replace (0 <? zlen (y :: Y')) with true by (symmetry; apply Z.ltb_lt; lia).
  rewrite andb_true_r. rewrite Z.add_0_l.
  do 2 eexists. split; [reflexivity|].
  unfold recompute_advance, set_adv. cbn [o_off o_cnt o_src o_dir o_lo o_len o_adv].
  assert (G0 : forall st0, out_glyphs st0 (mkOut (o_adv run) (o_dir run) (o_off run + rs) (re - rs + 1) (o_src run) (zlen X) (zlen (y :: Y')) (o_vis run))
               = zfirstn (zlen (y :: Y')) (zskipn (zlen X) (src_array st0 (o_src run)))) by reflexivity.
  assert (G1 : forall st0 a, out_glyphs st0 (mkOut a (o_dir run) (o_off run + rs) (re - rs + 1) (o_src run) (zlen X) (zlen (y :: Y')) (o_vis run))
               = zfirstn (zlen (y :: Y')) (zskipn (zlen X) (src_array st0 (o_src run)))) by reflexivity.
  repeat (split; [reflexivity|]).
  split; [rewrite G1, Harr; apply slice_mid|].
  split; [reflexivity|].
  split; [|reflexivity].
  rewrite G1. destruct trim.
  - rewrite src_array_update by exact Hsrc. rewrite Harr.
    change (X ++ (y :: Y') ++ Z) with (X ++ y :: (Y' ++ Z)). rewrite znth_app_exact, zset_app.
    change (zlen (y :: Y')) with (zlen (trim_glyph y :: Y')).
    change (X ++ trim_glyph y :: Y' ++ Z) with (X ++ (trim_glyph y :: Y') ++ Z). rewrite slice_mid. reflexivity.
  - rewrite Harr. apply slice_mid.
Qed.

Lemma cut_run_exact_full : forall st run s e trim,
  let gs := out_glyphs st run in
  let s' := Z.max s (o_off run) in
  let e' := Z.min e (o_off run + o_cnt run - 1) in
  o_lo run = 0 -> o_len run = zlen (src_array st (o_src run)) -> 0 <= o_src run < zlen st ->
  wf_glyphs (o_dir run) gs (o_off run) (o_cnt run) = true ->
  1 <= o_cnt run ->
  s <= e -> s < o_off run + o_cnt run -> o_off run <= e ->
  cluster_start gs (o_off run) (o_cnt run) s' = true ->
  cluster_start gs (o_off run) (o_cnt run) (e' + 1) = true ->
  exists st' r, cut_run st run (map3_spec gs (o_off run) (o_cnt run)) s e trim = Ok (st', r)
    /\ o_off r = s' /\ out_end r = e' + 1 /\ o_src r = o_src run /\ o_dir r = o_dir run /\ 0 < o_len r
    /\ out_glyphs st r = filter (in_range s' (e' + 1)) gs
    /\ st' = (if trim then store_update st (o_src run) (o_lo r) trim_glyph else st)
    /\ out_glyphs st' r = (if trim then trim_first (out_glyphs st r) else out_glyphs st r)
    /\ o_adv r = sum_adv (out_glyphs st' r)
    /\ piece_glyphs_ok (src_array st (o_src run)) 0 (o_lo r) (o_lo r + o_len r) s' (e' + 1) = true.
Proof.
  intros st run s e trim gs s' e' Hlo Hlen Hsrc Hwf Hcnt Hse Hs He Cs Ce.
  assert (Hgs : gs = src_array st (o_src run)) by (apply out_glyphs_whole; auto).
  assert (Hm : zlen (map3_spec gs (o_off run) (o_cnt run)) = o_cnt run) by (apply map3_spec_len; lia).
  destruct (cut_bounds (o_off run) (o_cnt run) s e _ Hm Hcnt Hse Hs He) as [B1 B2]. fold s' e' in B1, B2.
  destruct (cut_decomp (o_dir run) gs (o_off run) (o_cnt run) s' e' Hwf ltac:(lia) ltac:(lia) ltac:(lia) Cs Ce)
    as (X & Y & Z & Exyz & Yne & Higr & FY & FXZ).
  destruct Y as [|y Y']; [congruence|].
  destruct (cut_run_tail st run (map3_spec gs (o_off run) (o_cnt run)) s e trim X y Y' Z Hlo Hsrc) as
    (st' & r & R & R1 & R2 & R3 & R4 & R5 & R6 & R7 & R8 & R9 & R10).
  { rewrite <- Hgs. exact Exyz. }
  { rewrite B1, B2, Hlen, <- Hgs. exact Higr. }
  rewrite B1, B2 in *. exists st', r. split; [exact R|].
  pose proof (zlen_nonneg Y') as ZY. assert (LY : zlen (y :: Y') = 1 + zlen Y') by apply zlen_cons.
  split; [lia|]. split; [unfold out_end; lia|]. split; [exact R3|]. split; [exact R4|]. split; [lia|].
  assert (Hf : filter (in_range s' (e' + 1)) gs = y :: Y').
  { rewrite Exyz. apply filter_mid.
    - intros x Hx. destruct (FXZ x (or_introl Hx)) as [Q1 Q2]. unfold in_range. apply andb_false_iff.
      destruct Q2; [left; apply Z.leb_gt|right; apply Z.ltb_ge]; lia.
    - intros x Hx. specialize (FY x Hx). unfold in_range. apply andb_true_intro; split; [apply Z.leb_le|apply Z.ltb_lt]; lia.
    - intros x Hx. destruct (FXZ x (or_intror Hx)) as [Q1 Q2]. unfold in_range. apply andb_false_iff.
      destruct Q2; [left; apply Z.leb_gt|right; apply Z.ltb_ge]; lia. }
  split; [rewrite Hf; exact R7|]. split; [exact R8|]. split; [rewrite R7; exact R9|]. split; [exact R10|].
  rewrite <- Hgs, Exyz, R5, R6. clear - FY FXZ.
  assert (PA : forall l1 l2 i lo hi a b, piece_glyphs_ok (l1 ++ l2) i lo hi a b
                = piece_glyphs_ok l1 i lo hi a b && piece_glyphs_ok l2 (i + zlen l1) lo hi a b).
  { induction l1 as [|g l1 IH]; intros; cbn [app piece_glyphs_ok].
    - rewrite zlen_nil, Z.add_0_r. reflexivity.
    - rewrite IH. rewrite zlen_cons. replace (i + 1 + zlen l1) with (i + (1 + zlen l1)) by lia. apply andb_assoc. }
  assert (PI : forall l i lo hi a b, (forall x, In x l -> a <= g_cluster x /\ g_cluster x + g_rc x <= b) ->
                 lo <= i -> i + zlen l <= hi -> piece_glyphs_ok l i lo hi a b = true).
  { induction l as [|g l IH]; intros i lo hi a b F L1 L2; cbn [piece_glyphs_ok]; auto.
    rewrite zlen_cons in L2. pose proof (zlen_nonneg l).
    replace ((lo <=? i) && (i <? hi)) with true by (symmetry; apply andb_true_intro; split; [apply Z.leb_le|apply Z.ltb_lt]; lia).
    destruct (F g (or_introl eq_refl)) as [Q1 Q2]. apply andb_true_intro; split.
    - apply andb_true_intro; split; apply Z.leb_le; lia.
    - apply IH; try lia. intros; apply F; right; auto. }
  assert (PO : forall l i lo hi a b, (forall x, In x l -> g_cluster x + g_rc x <= a \/ b <= g_cluster x) ->
                 (i + zlen l <= lo \/ hi <= i) -> piece_glyphs_ok l i lo hi a b = true).
  { induction l as [|g l IH]; intros i lo hi a b F L; cbn [piece_glyphs_ok]; auto.
    rewrite zlen_cons in L. pose proof (zlen_nonneg l).
    replace ((lo <=? i) && (i <? hi)) with false.
    2:{ symmetry. apply andb_false_iff. destruct L; [left; apply Z.leb_gt|right; apply Z.ltb_ge]; lia. }
    apply andb_true_intro; split.
    - apply orb_true_iff. destruct (F g (or_introl eq_refl)); [left|right]; apply Z.leb_le; lia.
    - apply IH; [intros; apply F; right; auto|lia]. }
  rewrite !PA. pose proof (zlen_nonneg X). pose proof (zlen_nonneg (y :: Y')). pose proof (zlen_nonneg Z).
  rewrite PO, PI, PO; auto.
  - intros x Hx. apply (FXZ x (or_intror Hx)).
  - lia.
  - intros x Hx. specialize (FY x Hx). lia.
  - lia.
  - lia.
  - intros x Hx. apply (FXZ x (or_introl Hx)).
  - lia.
Qed.

(* FALSE as first stated (without 1 <= o_cnt run), same reason as cut_run_total; cut_run_total_needs_runes satisfies
   the hypotheses of this lemma too. *)
Lemma cut_run_exact : forall st run s e trim,
  let gs := out_glyphs st run in
  let s' := Z.max s (o_off run) in
  let e' := Z.min e (o_off run + o_cnt run - 1) in
  o_lo run = 0 -> o_len run = zlen (src_array st (o_src run)) -> 0 <= o_src run < zlen st ->
  wf_glyphs (o_dir run) gs (o_off run) (o_cnt run) = true ->
  1 <= o_cnt run ->
  s <= e -> s < o_off run + o_cnt run -> o_off run <= e ->
  cluster_start gs (o_off run) (o_cnt run) s' = true ->
  cluster_start gs (o_off run) (o_cnt run) (e' + 1) = true ->
  exists st' r, cut_run st run (map3_spec gs (o_off run) (o_cnt run)) s e trim = Ok (st', r)
    /\ o_off r = s' /\ out_end r = e' + 1 /\ o_src r = o_src run /\ o_dir r = o_dir run /\ 0 < o_len r
    /\ out_glyphs st r = filter (in_range s' (e' + 1)) gs
    /\ st' = (if trim then store_update st (o_src run) (o_lo r) trim_glyph else st)
    /\ out_glyphs st' r = (if trim then trim_first (out_glyphs st r) else out_glyphs st r)
    /\ o_adv r = sum_adv (out_glyphs st' r).
Proof.
  intros st run s e trim gs s' e' Hlo Hlen Hsrc Hwf Hcnt Hse Hs He Cs Ce.
  destruct (cut_run_exact_full st run s e trim Hlo Hlen Hsrc Hwf Hcnt Hse Hs He Cs Ce)
    as (st' & r & R & R1 & R2 & R3 & R4 & R5 & R6 & R7 & R8 & R9 & _).
  exists st', r. repeat (split; [assumption|]). assumption.
Qed.

Lemma cut_run_exact_oracle : forall st run s e trim,
  let gs := out_glyphs st run in
  let s' := Z.max s (o_off run) in
  let e' := Z.min e (o_off run + o_cnt run - 1) in
  o_lo run = 0 -> o_len run = zlen (src_array st (o_src run)) -> 0 <= o_src run < zlen st ->
  wf_glyphs (o_dir run) gs (o_off run) (o_cnt run) = true ->
  1 <= o_cnt run ->
  s <= e -> s < o_off run + o_cnt run -> o_off run <= e ->
  cluster_start gs (o_off run) (o_cnt run) s' = true ->
  cluster_start gs (o_off run) (o_cnt run) (e' + 1) = true ->
  exists st' r, cut_run st run (map3_spec gs (o_off run) (o_cnt run)) s e trim = Ok (st', r)
    /\ piece_glyphs_ok (src_array st (o_src run)) 0 (o_lo r) (o_lo r + o_len r) s' (e' + 1) = true.
Proof.
  intros st run s e trim gs s' e' Hlo Hlen Hsrc Hwf Hcnt Hse Hs He Cs Ce.
  destruct (cut_run_exact_full st run s e trim Hlo Hlen Hsrc Hwf Hcnt Hse Hs He Cs Ce)
    as (st' & r & R & _ & _ & _ & _ & _ & _ & _ & _ & _ & R10).
  exists st', r. split; assumption.
Qed.

(* ---- item 6: breakOption.isValid ------------------------------------------------------------------------- *)

Lemma cl_holds_unique : forall l p stop, clusters l p stop -> forall a x y, In x l -> In y l ->
  holds a x = true -> holds a y = true -> g_cluster x = g_cluster y.
Proof.
  induction 1 as [p|c rest p rc stop Hrc Hne Hkey Hrest IH]; intros a x y Hx Hy Ha Hb; [destruct Hx|].
  apply holds_true in Ha. apply holds_true in Hb.
  apply in_app_or in Hx. apply in_app_or in Hy. destruct Hx as [Hx|Hx]; destruct Hy as [Hy|Hy].
  - destruct (Hkey x Hx) as (K1 & _). destruct (Hkey y Hy) as (Q1 & _). lia.
  - destruct (Hkey x Hx) as (K1 & K2 & _). destruct (cl_in _ _ _ Hrest y Hy) as (Q1 & _). lia.
  - destruct (Hkey y Hy) as (K1 & K2 & _). destruct (cl_in _ _ _ Hrest x Hx) as (Q1 & _). lia.
  - apply (IH a x y Hx Hy); apply holds_true; assumption.
Qed.

Lemma znth_In : forall {A} (d : A) l i, 0 <= i < zlen l -> In (znth d l i) l.
Proof.
  intros A d l i H. unfold znth. destruct (i <? 0) eqn:E; [lia|]. apply nth_In. unfold zlen in H. lia.
Qed.

Lemma is_valid_spec : forall st run opt,
  let gs := out_glyphs st run in
  o_lo run = 0 -> o_len run = zlen (src_array st (o_src run)) ->
  wf_glyphs (o_dir run) gs (o_off run) (o_cnt run) = true ->
  exists v, is_valid st opt (map3_spec gs (o_off run) (o_cnt run)) run = Ok v
    /\ (v = true -> cluster_start gs (o_off run) (o_cnt run) (opt + 1) = true).
Proof.
  intros st run opt gs Hlo Hlen Hwf.
  assert (Hgs : gs = src_array st (o_src run)) by (apply out_glyphs_whole; auto).
  pose proof (wf_glyphs_cnt _ _ _ _ Hwf) as Hcnt.
  assert (Hm : zlen (map3_spec gs (o_off run) (o_cnt run)) = o_cnt run) by (apply map3_spec_len; lia).
  unfold is_valid. fold gs. rewrite Hm.
  destruct ((opt - o_off run + 1 <? o_cnt run) && (0 <=? opt - o_off run)) eqn:E.
  - apply andb_prop in E. destruct E as [E1 E2]. apply Z.ltb_lt in E1. apply Z.leb_le in E2.
    rewrite (zget_ok 0) by lia. cbn [bind]. rewrite (zget_ok 0) by lia. cbn [bind].
    destruct (map3_spec_first _ _ _ _ (opt - o_off run) Hwf ltac:(lia)) as (A1 & A2 & _).
    destruct (map3_spec_first _ _ _ _ (opt - o_off run + 1) Hwf ltac:(lia)) as (B1 & B2 & _).
    set (j1 := znth 0 (map3_spec gs (o_off run) (o_cnt run)) (opt - o_off run)) in *.
    set (j2 := znth 0 (map3_spec gs (o_off run) (o_cnt run)) (opt - o_off run + 1)) in *.
    rewrite Hlen, <- Hgs.
    replace ((zlen gs <=? j1) || (zlen gs <=? j2)) with false.
    2:{ symmetry. apply orb_false_iff; split; apply Z.leb_gt; lia. }
    rewrite (zget_ok glyph_zero gs j1) by lia. cbn [bind]. rewrite (zget_ok glyph_zero gs j2) by lia. cbn [bind].
    eexists. split; [reflexivity|]. intros V. apply negb_true_iff in V. apply Z.eqb_neq in V.
    replace (o_off run + (opt - o_off run)) with opt in A2 by lia.
    replace (o_off run + (opt - o_off run + 1)) with (opt + 1) in B2 by lia.
    unfold cluster_start. apply orb_true_iff. right. apply existsb_exists.
    exists (znth glyph_zero gs j2). split; [apply znth_In; lia|]. apply Z.eqb_eq.
    destruct (Z.eq_dec (g_cluster (znth glyph_zero gs j2)) (opt + 1)) as [Q|Q]; [exact Q|]. exfalso. apply V.
    apply holds_true in B2.
    apply (cl_holds_unique _ _ _ (wf_glyphs_clusters _ _ _ _ Hwf) opt).
    + apply in_logical. apply znth_In. lia.
    + apply in_logical. apply znth_In. lia.
    + exact A2.
    + apply holds_true. lia.
  - exists true. split; [reflexivity|]. intros _. unfold cluster_start.
    apply andb_false_iff in E. destruct E as [E|E].
    + apply Z.ltb_ge in E. replace (o_off run + o_cnt run <=? opt + 1) with true by (symmetry; apply Z.leb_le; lia).
      apply orb_true_iff. left. apply orb_true_r.
    + apply Z.leb_gt in E. replace (opt + 1 <=? o_off run) with true by (symmetry; apply Z.leb_le; lia). reflexivity.
Qed.

(* ---- non-vacuity: concrete runs -------------------------------------------------------------------------- *)

(* runes [5, 9): cluster 5 (2 runes, 1 glyph), cluster 7 (1 rune, 2 glyphs), cluster 8 (1 rune, 1 glyph) *)
Definition exA := mkGlyph 5 2 1 10 10 0 1 0.
Definition exB1 := mkGlyph 7 1 2 20 20 0 2 0.
Definition exB2 := mkGlyph 7 1 2 30 30 0 3 0.
Definition exC := mkGlyph 8 1 1 40 40 0 4 0.
Definition ex_ltr := [exA; exB1; exB2; exC].
Definition ex_rtl := [exC; exB2; exB1; exA].
Definition ex_st : store := [ex_ltr; ex_rtl].
Definition ex_run_ltr := mkOut 100 0 5 4 0 0 4 0.
Definition ex_run_rtl := mkOut 100 1 5 4 1 0 4 0.

Example map3_correct_ex_ltr :
  wf_glyphs 0 ex_ltr 5 4 = true /\ zlen [9; 9; 9; 9] = 4
  /\ map3 0 5 ex_ltr [9; 9; 9; 9] = Ok [0; 0; 1; 3] /\ map3_spec ex_ltr 5 4 = [0; 0; 1; 3].
Proof. vm_compute. repeat split; reflexivity. Qed.
Example map3_correct_ex_rtl :
  wf_glyphs 1 ex_rtl 5 4 = true /\ zlen [9; 9; 9; 9] = 4
  /\ map3 1 5 ex_rtl [9; 9; 9; 9] = Ok [3; 3; 1; 0] /\ map3_spec ex_rtl 5 4 = [3; 3; 1; 0].
Proof. vm_compute. repeat split; reflexivity. Qed.

(* cut in the middle of a cluster (runes [6, 7]; 6 is inside cluster 5): total, the slice is cluster-aligned on the glyph side *)
Example cut_run_total_ex_ltr :
  (o_lo ex_run_ltr = 0 /\ o_len ex_run_ltr = zlen (src_array ex_st (o_src ex_run_ltr))
   /\ wf_glyphs (o_dir ex_run_ltr) (out_glyphs ex_st ex_run_ltr) (o_off ex_run_ltr) (o_cnt ex_run_ltr) = true
   /\ 1 <= o_cnt ex_run_ltr /\ 6 <= 7 /\ 6 < o_off ex_run_ltr + o_cnt ex_run_ltr /\ o_off ex_run_ltr <= 7)
  /\ cut_run ex_st ex_run_ltr (map3_spec (out_glyphs ex_st ex_run_ltr) 5 4) 6 7 false
     = Ok (ex_st, mkOut 60 0 6 2 0 0 3 0).
Proof. vm_compute. repeat split; try reflexivity; intro; discriminate. Qed.
Example cut_run_total_ex_rtl :
  (o_lo ex_run_rtl = 0 /\ o_len ex_run_rtl = zlen (src_array ex_st (o_src ex_run_rtl))
   /\ wf_glyphs (o_dir ex_run_rtl) (out_glyphs ex_st ex_run_rtl) (o_off ex_run_rtl) (o_cnt ex_run_rtl) = true
   /\ 1 <= o_cnt ex_run_rtl /\ 6 <= 7 /\ 6 < o_off ex_run_rtl + o_cnt ex_run_rtl /\ o_off ex_run_rtl <= 7)
  /\ cut_run ex_st ex_run_rtl (map3_spec (out_glyphs ex_st ex_run_rtl) 5 4) 6 7 false
     = Ok (ex_st, mkOut 50 1 6 2 1 1 2 0).
Proof. vm_compute. repeat split; try reflexivity; intro; discriminate. Qed.

(* cut at cluster boundaries: runes [7, 20] clipped to [7, 8] = clusters 7 and 8, trimmed *)
Example cut_run_exact_ex_ltr :
  (o_lo ex_run_ltr = 0 /\ o_len ex_run_ltr = zlen (src_array ex_st (o_src ex_run_ltr))
   /\ 0 <= o_src ex_run_ltr < zlen ex_st
   /\ wf_glyphs (o_dir ex_run_ltr) (out_glyphs ex_st ex_run_ltr) (o_off ex_run_ltr) (o_cnt ex_run_ltr) = true
   /\ 1 <= o_cnt ex_run_ltr /\ 7 <= 20 /\ 7 < o_off ex_run_ltr + o_cnt ex_run_ltr /\ o_off ex_run_ltr <= 20
   /\ cluster_start (out_glyphs ex_st ex_run_ltr) 5 4 (Z.max 7 5) = true
   /\ cluster_start (out_glyphs ex_st ex_run_ltr) 5 4 (Z.min 20 (5 + 4 - 1) + 1) = true)
  /\ cut_run ex_st ex_run_ltr (map3_spec (out_glyphs ex_st ex_run_ltr) 5 4) 7 20 true
     = Ok ([[exA; trim_glyph exB1; exB2; exC]; ex_rtl], mkOut 88 0 7 2 0 1 3 0)
  /\ filter (in_range 7 9) ex_ltr = [exB1; exB2; exC].
Proof. vm_compute. repeat split; try reflexivity; intro; discriminate. Qed.
(* right-to-left, runes [2, 7] clipped to [5, 7] = clusters 5 and 7: the slice is storage [1, 4) *)
Example cut_run_exact_ex_rtl :
  (o_lo ex_run_rtl = 0 /\ o_len ex_run_rtl = zlen (src_array ex_st (o_src ex_run_rtl))
   /\ 0 <= o_src ex_run_rtl < zlen ex_st
   /\ wf_glyphs (o_dir ex_run_rtl) (out_glyphs ex_st ex_run_rtl) (o_off ex_run_rtl) (o_cnt ex_run_rtl) = true
   /\ 1 <= o_cnt ex_run_rtl /\ 2 <= 7 /\ 2 < o_off ex_run_rtl + o_cnt ex_run_rtl /\ o_off ex_run_rtl <= 7
   /\ cluster_start (out_glyphs ex_st ex_run_rtl) 5 4 (Z.max 2 5) = true
   /\ cluster_start (out_glyphs ex_st ex_run_rtl) 5 4 (Z.min 7 (5 + 4 - 1) + 1) = true)
  /\ cut_run ex_st ex_run_rtl (map3_spec (out_glyphs ex_st ex_run_rtl) 5 4) 2 7 true
     = Ok ([ex_ltr; [exC; trim_glyph exB2; exB1; exA]], mkOut 57 1 5 3 1 1 3 0)
  /\ filter (in_range 5 8) ex_rtl = [exB2; exB1; exA].
Proof. vm_compute. repeat split; try reflexivity; intro; discriminate. Qed.

(* the statements of items 4 and 5 without [1 <= o_cnt run] fail on an empty run asked for a range around it *)
Definition ex_run_empty := mkOut 0 0 5 0 0 0 0 0.
Example cut_run_total_needs_runes :
  (o_lo ex_run_empty = 0 /\ o_len ex_run_empty = zlen (src_array [[]] (o_src ex_run_empty))
   /\ 0 <= o_src ex_run_empty < zlen ([[]] : store)
   /\ wf_glyphs (o_dir ex_run_empty) (out_glyphs [[]] ex_run_empty) (o_off ex_run_empty) (o_cnt ex_run_empty) = true
   /\ 3 <= 7 /\ 3 < o_off ex_run_empty + o_cnt ex_run_empty /\ o_off ex_run_empty <= 7
   /\ cluster_start (out_glyphs [[]] ex_run_empty) 5 0 (Z.max 3 5) = true
   /\ cluster_start (out_glyphs [[]] ex_run_empty) 5 0 (Z.min 7 (5 + 0 - 1) + 1) = true)
  /\ cut_run [[]] ex_run_empty (map3_spec (out_glyphs [[]] ex_run_empty) 5 0) 3 7 false = Panic p_index.
Proof. vm_compute. repeat split; try reflexivity; intro; discriminate. Qed.

Example is_valid_ex :
  is_valid ex_st 5 (map3_spec ex_ltr 5 4) ex_run_ltr = Ok false
  /\ is_valid ex_st 6 (map3_spec ex_ltr 5 4) ex_run_ltr = Ok true
  /\ is_valid ex_st 7 (map3_spec ex_rtl 5 4) ex_run_rtl = Ok true
  /\ is_valid ex_st 5 (map3_spec ex_rtl 5 4) ex_run_rtl = Ok false.
Proof. vm_compute. repeat split; reflexivity. Qed.

