(* Proofs for C09: ParseLoca / ParseGlyf never slice out of range (for any per-glyph parser that is itself total),
   newCmap4 never indexes out of range. *)
From TV Require Import Model.Glyf Model.CmapBuild Spec.Glyf.
From Coq Require Import ZifyBool.
Ltac Zify.zify_post_hook ::= Z.div_mod_to_equations.

Definition no_panic {A} (r : res A) : Prop := match r with Ok _ | Err _ => True | _ => False end.
Lemma no_panic_total {A} (r : res A) : no_panic r <-> total r.
Proof. destruct r; simpl; tauto. Qed.
Lemma np_bind {A B} (r : res A) (f : A -> res B) :
  no_panic r -> (forall a, r = Ok a -> no_panic (f a)) -> no_panic (bind r f).
Proof. destruct r; simpl; auto. Qed.

(* ---------- loca ---------- *)

Lemma u32_at_ok l i : 0 <= i -> i + 4 <= zlen l -> u32_at l i = Ok (get32 (zskipn i l)).
Proof. intros. unfold u32_at. replace ((0 <=? i) && (i + 4 <=? zlen l)) with true by lia. reflexivity. Qed.
Lemma u16_at_ok l i : 0 <= i -> i + 2 <= zlen l -> u16_at l i = Ok (get16 (zskipn i l)).
Proof. intros. unfold u16_at. replace ((0 <=? i) && (i + 2 <=? zlen l)) with true by lia. reflexivity. Qed.

Lemma np_loca_long src n : forall i, 0 <= i -> 4 * (i + Z.of_nat n) <= zlen src -> no_panic (loca_long src i n).
Proof.
  induction n as [|n IH]; intros i Hi Hl; cbn [loca_long]; [exact I|].
  rewrite u32_at_ok by lia. cbn [bind]. apply np_bind; [apply IH; lia|]. intros; exact I.
Qed.
Lemma np_loca_short src n : forall i, 0 <= i -> 2 * (i + Z.of_nat n) <= zlen src -> no_panic (loca_short src i n).
Proof.
  induction n as [|n IH]; intros i Hi Hl; cbn [loca_short]; [exact I|].
  rewrite u16_at_ok by lia. cbn [bind]. apply np_bind; [apply IH; lia|]. intros; exact I.
Qed.

Lemma loca_long_len src n : forall i r, loca_long src i n = Ok r -> length r = n.
Proof.
  induction n as [|n IH]; intros i r; cbn [loca_long]. { intros H; inversion H; reflexivity. }
  destruct (u32_at src (4 * i)); cbn [bind]; try discriminate.
  destruct (loca_long src (i + 1) n) eqn:E; cbn [bind]; try discriminate.
  intros H; inversion H; subst. simpl. f_equal. eapply IH; eauto.
Qed.
Lemma loca_short_len src n : forall i r, loca_short src i n = Ok r -> length r = n.
Proof.
  induction n as [|n IH]; intros i r; cbn [loca_short]. { intros H; inversion H; reflexivity. }
  destruct (u16_at src (2 * i)); cbn [bind]; try discriminate.
  destruct (loca_short src (i + 1) n) eqn:E; cbn [bind]; try discriminate.
  intros H; inversion H; subst. simpl. f_equal. eapply IH; eauto.
Qed.

Lemma np_parse_loca src n is_long : 0 <= n -> no_panic (parse_loca src n is_long).
Proof.
  intros Hn. unfold parse_loca.
  destruct (zlen src <? _) eqn:E; [exact I|].
  replace (n + 1 <? 0) with false by lia.
  destruct is_long; [apply np_loca_long|apply np_loca_short]; lia.
Qed.

Lemma parse_loca_len src n is_long r : 0 <= n -> parse_loca src n is_long = Ok r -> zlen r = n + 1 /\ loca_size n is_long <= zlen src.
Proof.
  intros Hn. unfold parse_loca, loca_size.
  destruct (zlen src <? _) eqn:E; [discriminate|].
  replace (n + 1 <? 0) with false by lia.
  destruct is_long; intros H; [apply loca_long_len in H|apply loca_short_len in H]; unfold zlen in *; rewrite H; lia.
Qed.

(* ---------- glyf slicing ---------- *)

Section GlyfProofs.
  Context {G : Type}.
  Variable pg : list Z -> res G.
  Hypothesis pg_total : forall b, no_panic (pg b).

  Lemma np_glyf_loop src rest : forall start, 0 <= start -> no_panic (glyf_loop pg src start rest).
  Proof.
    induction rest as [|e r IH]; intros start Hs; cbn [glyf_loop]; [exact I|].
    destruct (start =? e) eqn:E0.
    { apply np_bind; [apply IH; lia|]. intros; exact I. }
    destruct ((e <? start) || (zlen src <? e)) eqn:E1; [exact I|].
    unfold slice_checked. replace ((0 <=? start) && (start <=? e) && (e <=? zlen src)) with true by lia.
    cbn [bind]. apply np_bind; [apply pg_total|]. intros g _.
    apply np_bind; [apply IH; lia|]. intros; exact I.
  Qed.

  Lemma np_parse_glyf src loca : Forall (fun o => 0 <= o) loca -> no_panic (parse_glyf pg src loca).
  Proof.
    unfold parse_glyf. destruct loca as [|s r]; [intros; exact I|].
    intros H. inversion H; subst. apply np_glyf_loop. assumption.
  Qed.

End GlyfProofs.

Section GlyfRange.
  Context {G : Type}.
  Variable pg : list Z -> res G.
  (* an accepted pair means every slice was inside the table and ordered *)
  Lemma glyf_loop_in_range src rest : forall start r, glyf_loop pg src start rest = Ok r ->
    offsets_in_range (zlen src) start rest = true /\ length r = length rest.
  Proof.
    induction rest as [|e rs IH]; intros start r; cbn [glyf_loop offsets_in_range].
    { intros H; inversion H; split; reflexivity. }
    destruct (start =? e) eqn:E0.
    { destruct (glyf_loop pg src e rs) eqn:E; cbn [bind]; try discriminate.
      intros H; inversion H; subst. destruct (IH _ _ E) as [A B]. rewrite A. split; [reflexivity|simpl; congruence]. }
    destruct ((e <? start) || (zlen src <? e)) eqn:E1; [discriminate|].
    destruct (slice_checked src start e); cbn [bind]; try discriminate.
    destruct (pg a); cbn [bind]; try discriminate.
    destruct (glyf_loop pg src e rs) eqn:E; cbn [bind]; try discriminate.
    intros H; inversion H; subst. destruct (IH _ _ E) as [A B]. rewrite A.
    split; [|simpl; congruence]. replace ((start <=? e) && (e <=? zlen src)) with true by lia. reflexivity.
  Qed.
End GlyfRange.

Lemma bytes_ok_skipn n l : bytes_ok l -> bytes_ok (skipn n l).
Proof. unfold bytes_ok. revert l; induction n; intros [|x l] H; simpl; auto. inversion H; subst. auto. Qed.

Lemma loca_long_nonneg src n : forall i r, loca_long src i n = Ok r -> bytes_ok src -> Forall (fun o => 0 <= o) r.
Proof.
  induction n as [|n IH]; intros i r; cbn [loca_long]. { intros H _; inversion H; constructor. }
  unfold u32_at. destruct (_ && _); cbn [bind]; try discriminate.
  destruct (loca_long src (i + 1) n) eqn:E; cbn [bind]; try discriminate.
  intros H Hb; inversion H; subst. constructor; [|eapply IH; eauto].
  apply get32_range. apply bytes_ok_skipn, Hb.
Qed.
Lemma loca_short_nonneg src n : forall i r, loca_short src i n = Ok r -> Forall (fun o => 0 <= o) r.
Proof.
  induction n as [|n IH]; intros i r; cbn [loca_short]. { intros H; inversion H; constructor. }
  destruct (u16_at src (2 * i)); cbn [bind]; try discriminate.
  destruct (loca_short src (i + 1) n) eqn:E; cbn [bind]; try discriminate.
  intros H; inversion H; subst. constructor; [|eapply IH; eauto]. unfold wrap32; lia.
Qed.

Lemma glyf_slicing_total_lemma : forall (G : Type) (pg : list Z -> res G),
  (forall b, total (pg b)) ->
  forall glyf_src loca_src num_glyphs is_long, bytes_ok loca_src -> 0 <= num_glyphs ->
  total (load_glyf pg glyf_src loca_src num_glyphs is_long).
Proof.
  intros G pg Hpg glyf_src loca_src n is_long Hb Hn. apply no_panic_total. unfold load_glyf.
  apply np_bind; [apply np_parse_loca; exact Hn|]. intros loca Hl.
  apply np_parse_glyf. { intros b. apply no_panic_total, Hpg. }
  unfold parse_loca in Hl. destruct (zlen loca_src <? _); [discriminate|]. destruct (n + 1 <? 0); [discriminate|].
  destruct is_long; [eapply loca_long_nonneg; eauto|eapply loca_short_nonneg; eauto].
Qed.

Lemma glyf_accepts_in_range_lemma : forall (G : Type) (pg : list Z -> res G) src loca gs,
  parse_glyf pg src loca = Ok gs -> loca_in_range (zlen src) loca = true /\ zlen gs + 1 = zlen loca.
Proof.
  intros G pg src loca gs. unfold parse_glyf, loca_in_range. destruct loca as [|s r]; [discriminate|].
  intros H. apply glyf_loop_in_range in H as [A B]. split; [exact A|]. unfold zlen. simpl length. lia.
Qed.

(* ---------- cmap format 4 ---------- *)

Lemma idx_ok {A} (l : list A) i : 0 <= i < zlen l -> exists x, idx l i = Ok x.
Proof.
  intros H. unfold idx. replace ((0 <=? i) && (i <? zlen l)) with true by lia.
  destruct (nth_error l (Z.to_nat i)) eqn:E; [eauto|]. apply nth_error_None in E. unfold zlen in H. lia.
Qed.

Lemma np_read_pairs n : forall l, 2 * Z.of_nat n <= zlen l -> no_panic (read_pairs l n).
Proof.
  induction n as [|n IH]; intros l Hl; cbn [read_pairs]; [exact I|].
  destruct l as [|a [|b r]]; try (rewrite ?zlen_cons, ?zlen_nil in Hl; lia).
  apply np_bind; [|intros; exact I]. apply IH. rewrite !zlen_cons in Hl. lia.
Qed.

Lemma np_read_indexes arr s n : 0 <= s -> 2 * (s + Z.of_nat n) <= zlen arr -> no_panic (read_indexes arr s n).
Proof.
  intros Hs Hl. unfold read_indexes. destruct n as [|n]; [exact I|].
  replace (s <? 0) with false by lia. apply np_read_pairs. rewrite zlen_zskipn by lia. lia.
Qed.

Section Cmap4Proofs.
  Variables ec sc dl ro arr : list Z.
  Hypothesis Hs : zlen sc = zlen ec.
  Hypothesis Hd : zlen dl = zlen ec.
  Hypothesis Hr : zlen ro = zlen ec.

  Lemma np_cmap4_entry i t : 0 <= i < zlen ec -> no_panic (cmap4_entry ec sc dl ro arr true i t).
  Proof.
    intros Hi. unfold cmap4_entry.
    destruct (idx_ok ec i Hi) as [e ->]. destruct (idx_ok sc i ltac:(lia)) as [s ->].
    destruct (idx_ok dl i ltac:(lia)) as [d ->]. destruct (idx_ok ro i ltac:(lia)) as [r ->]. cbn [bind].
    destruct (_ && _); [|exact I].
    destruct (true && (e <? s)) eqn:Ees; [exact I|]. cbn [andb] in Ees.
    set (n := e - s + 1). set (st := r / 2 + i - seg_count ec).
    destruct (true && (65536 <? t + n)); [exact I|].
    destruct (true && (st <? 0) || (zlen arr <? 2 * (st + n))) eqn:E; [exact I|].
    assert (0 <= n) by (unfold n; lia).
    apply np_bind; [|intros; exact I]. apply np_read_indexes; lia.
  Qed.

  Lemma np_cmap4_loop n : forall i t, 0 <= i -> i + Z.of_nat n <= zlen ec -> no_panic (cmap4_loop ec sc dl ro arr true i t n).
  Proof.
    induction n as [|n IH]; intros i t Hi Hl; cbn [cmap4_loop]; [exact I|].
    apply np_bind; [apply np_cmap4_entry; lia|]. intros e _.
    apply np_bind; [apply IH; lia|]. intros; exact I.
  Qed.
End Cmap4Proofs.

Lemma read_pairs_len n : forall l r, read_pairs l n = Ok r -> length r = n.
Proof.
  induction n as [|n IH]; intros l r; cbn [read_pairs]. { intros H; inversion H; reflexivity. }
  destruct l as [|a [|b t]]; try discriminate.
  destruct (read_pairs t n) eqn:E; cbn [bind]; try discriminate.
  intros H; inversion H; subst. simpl. f_equal. eapply IH; eauto.
Qed.
Lemma read_indexes_len arr s n r : read_indexes arr s n = Ok r -> length r = n.
Proof.
  unfold read_indexes. destruct n as [|n]. { intros H; inversion H; reflexivity. }
  destruct (s <? 0); [discriminate|]. apply read_pairs_len.
Qed.

(* the running total handed from segment to segment is the number of indexes resolved so far *)
Lemma cmap4_loop_resolved ec sc dl ro arr n : forall i t es, 0 <= t ->
  cmap4_loop ec sc dl ro arr true i t n = Ok es -> t + resolved_count es <= 65536 \/ resolved_count es = 0.
Proof.
  induction n as [|n IH]; intros i t es Ht; cbn [cmap4_loop]. { intros H; inversion H; subst. right; reflexivity. }
  destruct (cmap4_entry ec sc dl ro arr true i t) as [[e t']| | |] eqn:Ee; cbn [bind]; try discriminate.
  cbn [fst snd].
  destruct (cmap4_loop ec sc dl ro arr true (i + 1) t' n) as [r| | |] eqn:El; cbn [bind]; try discriminate.
  intros H; inversion H; subst. cbn [resolved_count fold_right]. fold (resolved_count r).
  unfold cmap4_entry in Ee.
  destruct (idx ec i); cbn [bind] in Ee; try discriminate.
  destruct (idx sc i); cbn [bind] in Ee; try discriminate.
  destruct (idx dl i); cbn [bind] in Ee; try discriminate.
  destruct (idx ro i); cbn [bind] in Ee; try discriminate.
  destruct (_ && _) in Ee.
  - destruct (true && (a <? a0)) eqn:Ees; [discriminate|]. cbn [andb] in Ees.
    set (k := a - a0 + 1) in *. assert (0 <= k) by (unfold k; lia).
    destruct (true && (65536 <? t + k)) eqn:E1; [discriminate|]. cbn [andb] in E1. apply Z.ltb_ge in E1.
    destruct (_ || _) in Ee; [discriminate|].
    destruct (read_indexes arr _ (Z.to_nat k)) as [ix| | |] eqn:Er; cbn [bind] in Ee; try discriminate.
    inversion Ee; subst. cbn [e_indexes]. apply read_indexes_len in Er.
    assert (zlen ix = k) by (unfold zlen; rewrite Er; lia).
    assert (Htk : 0 <= t + k) by lia. destruct (IH _ _ _ Htk El) as [A|A]; left; lia.
  - inversion Ee; subst. cbn [e_indexes]. destruct (IH _ _ _ Ht El) as [A|A]; [left|right]; lia.
Qed.

Lemma cmap4_alloc_bounded_lemma : forall ec sc dl ro arr es,
  new_cmap4 ec sc dl ro arr = Ok es -> 0 <= resolved_count es <= 65536.
Proof.
  intros ec sc dl ro arr es H. unfold new_cmap4 in H. apply cmap4_loop_resolved in H; [|lia].
  assert (0 <= resolved_count es).
  { clear H. induction es as [|e r IH]; cbn [resolved_count fold_right]; [lia|]. fold (resolved_count r).
    destruct (e_indexes e); [pose proof (zlen_nonneg l)|]; lia. }
  lia.
Qed.

Lemma cmap4_build_total_lemma : forall ec sc dl ro arr,
  zlen sc = zlen ec -> zlen dl = zlen ec -> zlen ro = zlen ec -> total (new_cmap4 ec sc dl ro arr).
Proof.
  intros. apply no_panic_total. unfold new_cmap4, seg_count. apply np_cmap4_loop; auto; [lia|]. pose proof (zlen_nonneg ec). lia.
Qed.
