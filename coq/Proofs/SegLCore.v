(* Line breaking, finite part: on every consistent finite context the rule functions of the model
   (applied in the source order, later ones overriding) decide exactly what the priority-ordered
   UAX #14 rule table decides.  Proved by case analysis on the classes around the position. *)
From TV Require Import Model.Segmenter Spec.UAX14.
Open Scope Z_scope.

Definition to_lbr (b : breakOp) : lbr :=
  match b with breakMandatory => Mandatory | breakProhibited => Prohibited | _ => Allowed end.

(* an observation carrying only the flags the line rules read *)
Definition fobs (zwjtab lf wide pic cn : bool) : obs :=
  mkObs LB_XX false cn wide pic zwjtab GB_None WB_None lf false false false false.

Definition num_state (n : numctx) : numSeq :=
  match n with NumNone => noNumSequence | NumOpen => inNumSequence | NumClosed => seenCloseNum end.

(* the model's decision on a finite context; ppm / nn are the model's own views of "HL two back" and
   "next raw class is NU", which may differ from the specification's where they are not read *)
Definition model_core (x : lctx) (ppm nn : bool) : breakOp :=
  let trigger := snd (update_num_sequence (num_state (x_num x)) (x_b0 x)) in
  line_decision (Some (x_p x)) (if ppm then Some LB_HL else None) (x_b0 x) (x_s x)
                (fobs (lbc_beq (x_a0 x) LB_ZWJ) false false false false)
                (fobs false false (x_base_wide x) (x_base_piccn x) true)
                (fobs false (lbc_beq (x_b0 x) LB_LF) (x_b_wide x) false false)
                (if nn then LB_NU else LB_AL) (x_ri_odd x) trigger.

(* consistent contexts, by construction: a0k = None: the rune before is not a combining mark (then its class
   is x_p); Some true / Some false: it is a ZWJ / CM absorbed into, or standing for, x_p *)
Definition mk_x (p b0 : lbc) (a0k : option bool) (sv : option lbc)
           (pphl bw bpc bwide ri : bool) (num : numctx) (nx : bool) : lctx :=
  let a0 := match a0k with None => p | Some true => LB_ZWJ | Some false => LB_CM end in
  let s := if lbc_beq p LB_SP then sv else Some p in
  mkCtx a0 b0 (match s with Some k => lbc_beq k LB_ZW | None => false end) p s pphl bw bpc bwide ri num nx.

Definition mk_ok (p : lbc) (a0k : option bool) (sv : option lbc) : bool :=
  negb (is_mark p)
  && match a0k with None => true | Some _ => negb (hard_or_space p) end
  && (negb (lbc_beq p LB_SP) || match sv with Some k => negb (lbc_beq k LB_SP) | None => true end).

Definition guards (p b0 : lbc) (pphl ppm nx nn : bool) : bool :=
  (negb (cin p [LB_HY; LB_BA]) || Bool.eqb ppm pphl)
  && (negb (cin p [LB_PR; LB_PO] && cin b0 [LB_OP; LB_HY]) || Bool.eqb nn nx).

Ltac split_flags :=
  repeat match goal with
         | |- context [match ?b with true => _ | false => _ end] => is_var b; destruct b; vm_compute
         | |- context [match ?n with NumNone => _ | NumOpen => _ | NumClosed => _ end] => is_var n; destruct n; vm_compute
         end.

Ltac finish := intros; try reflexivity; try discriminate.

Lemma core_agree_nosp p b0 a0k pphl bw bpc bwide ri num nx ppm nn :
  lbc_beq p LB_SP = false ->
  mk_ok p a0k None = true -> guards p b0 pphl ppm nx nn = true ->
  to_lbr (model_core (mk_x p b0 a0k None pphl bw bpc bwide ri num nx) ppm nn)
  = lb_core (mk_x p b0 a0k None pphl bw bpc bwide ri num nx).
Proof.
  destruct p; try (intros Hsp; discriminate Hsp); intros _;
  destruct a0k as [[|]|]; try (intros Hok; discriminate Hok); intros _;
  destruct b0; vm_compute; split_flags; finish.
Qed.

Lemma core_agree_sp b0 a0k sv pphl bw bpc bwide ri num nx ppm nn :
  mk_ok LB_SP a0k sv = true -> guards LB_SP b0 pphl ppm nx nn = true ->
  to_lbr (model_core (mk_x LB_SP b0 a0k sv pphl bw bpc bwide ri num nx) ppm nn)
  = lb_core (mk_x LB_SP b0 a0k sv pphl bw bpc bwide ri num nx).
Proof.
  destruct a0k as [[|]|]; try (intros Hok; discriminate Hok);
  destruct sv as [k|]; [destruct k|]; try (intros Hok; discriminate Hok); intros _;
  destruct b0; vm_compute; split_flags; finish.
Qed.

Lemma core_agree p b0 a0k sv pphl bw bpc bwide ri num nx ppm nn :
  mk_ok p a0k sv = true -> guards p b0 pphl ppm nx nn = true ->
  to_lbr (model_core (mk_x p b0 a0k sv pphl bw bpc bwide ri num nx) ppm nn)
  = lb_core (mk_x p b0 a0k sv pphl bw bpc bwide ri num nx).
Proof.
  destruct (lbc_beq p LB_SP) eqn:Hsp.
  - apply internal_lbc_dec_bl in Hsp. subst p. apply core_agree_sp.
  - intros Hok Hg.
    assert (E : mk_x p b0 a0k sv pphl bw bpc bwide ri num nx = mk_x p b0 a0k None pphl bw bpc bwide ri num nx).
    { unfold mk_x. rewrite Hsp. reflexivity. }
    rewrite E. apply core_agree_nosp; try assumption.
    unfold mk_ok in *. rewrite Hsp in *. cbn [negb orb] in *. rewrite andb_true_r in *. exact Hok.
Qed.
