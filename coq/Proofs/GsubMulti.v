(* GSUB multiple substitution as a window-local rule (C18): the pass meets the contract of Spec/LocalEngine.v on sorted
   buffers whose first cluster is not flagged.  Replacement and multiplication rewrite one glyph into glyphs of the same
   cluster with the same flags; a deletion whose cluster survives hands the flag over to the neighbour that keeps the
   cluster alive; a deletion whose cluster disappears leaves no boundary behind (the cluster is gone), and at the start of
   the buffer merges the next cluster into the deleted one (mergeClusters clears the flags of the glyphs it renumbers:
   this is why the first cluster must not be flagged - no cut lies before it). *)
From TV Require Import Model.GsubMulti Spec.LocalEngine Proofs.LocalEngine Proofs.EngineItem Proofs.KernMachine Proofs.MarkBase Proofs.GsubLig.

Definition head_clear (l : list item) : Prop :=
  match l with [] => True | h :: _ => forall y, In y l -> icl y = icl h -> iutb y = false end.
Definition inv_gm (l : list item) : Prop := sorted l /\ head_clear l.

(* ---- the actions that do not delete ---- *)
Definition gm_out (P : gmparams) (x : item) : option (list item) :=
  if negb (has_mask (gm_mask P) x && check_prop (gm_flag P) x) then Some [x]
  else match find (fun e => fst e =? igid x) (gm_seqs P) with
       | None => Some [x]
       | Some e => match snd e with
                   | [] => None
                   | [g] => Some [replace_with x g]
                   | seq => Some (multi_out x O seq)
                   end
       end.

Lemma gm_step_out P d x rest :
  gm_step P d (x :: rest) = match gm_out P x with Some w => (d ++ w, rest) | None => delete_cur d x rest end.
Proof.
  unfold gm_step, gm_out. destruct (negb _); [reflexivity|].
  destruct (find _ (gm_seqs P)) as [e|]; [|reflexivity].
  destruct (snd e) as [|g [|g2 r]]; reflexivity.
Qed.

Lemma multi_out_props x : forall seq i y, In y (multi_out x i seq) -> icl y = icl x /\ iutb y = iutb x.
Proof.
  induction seq as [|g seq IH]; intros i y H; [destruct H|]. cbn [multi_out] in H.
  destruct H as [<-|H]; [split; reflexivity|apply (IH (S i)); exact H].
Qed.

Lemma gm_out_props P x w : gm_out P x = Some w -> w <> [] /\ forall y, In y w -> icl y = icl x /\ iutb y = iutb x.
Proof.
  unfold gm_out. destruct (negb _).
  - intros H. injection H as <-. split; [discriminate|]. intros y [<-|[]]. auto.
  - destruct (find _ (gm_seqs P)) as [e|].
    + destruct (snd e) as [|g [|g2 r]]; intros H; [discriminate| |]; injection H as <-.
      * split; [discriminate|]. intros y [<-|[]]. split; reflexivity.
      * split; [discriminate|]. intros y Hy. exact (multi_out_props x (g :: g2 :: r) O y Hy).
    + intros H. injection H as <-. split; [discriminate|]. intros y [<-|[]]. auto.
Qed.

(* ---- deletion on a sorted buffer ---- *)
Definition hand (x y : item) : item := if has_flags x then flag_item (gf (ig x)) y else y.

Lemma hand_props x y : icl (hand x y) = icl y /\ iutb (hand x y) = iutb y || iutb x.
Proof.
  unfold hand, has_flags. destruct (utb (gf (ig x)) || utc (gf (ig x)) || tat (gf (ig x))) eqn:E.
  - split; reflexivity.
  - split; [reflexivity|]. apply orb_false_iff in E. destruct E as [E _]. apply orb_false_iff in E. destruct E as [E _].
    unfold iutb at 3. rewrite E, orb_false_r. reflexivity.
Qed.

Lemma on_last_snoc f l z : on_last f (l ++ [z]) = l ++ [f z].
Proof. unfold on_last. rewrite rev_app_distr. cbn. rewrite rev_involutive. reflexivity. Qed.

Lemma rev_cons_inv (d : list item) z r : rev d = z :: r -> d = rev r ++ [z].
Proof. intros H. rewrite <- (rev_involutive d), H. reflexivity. Qed.

Lemma sorted_remove a x b : sorted (a ++ x :: b) -> sorted (a ++ b).
Proof.
  intros H. apply sorted_app in H. destruct H as (Sa & Sb & Hab). apply sorted_cons in Sb. destruct Sb as [_ Sb].
  apply sorted_app. split; [exact Sa|]. split; [exact Sb|]. intros u v Hu Hv. apply Hab; [exact Hu|right; exact Hv].
Qed.

Definition delete_form (d : list item) (x : item) (rest : list item) : list item * list item :=
  match rest with
  | y :: r => if icl y =? icl x then (d, hand x y :: r)
              else match rev d with
                   | z :: _ => if icl z =? icl x then (on_last (hand x) d, rest) else (d, rest)
                   | [] => ([], tl (merge_fwd (x :: rest) 2))
                   end
  | [] => match rev d with
          | z :: _ => if icl z =? icl x then (on_last (hand x) d, []) else (d, [])
          | [] => ([], [])
          end
  end.

Lemma delete_cur_sorted d x rest : sorted (d ++ x :: rest) -> delete_cur d x rest = delete_form d x rest.
Proof.
  intros HS. unfold delete_cur, delete_form.
  assert (St : sorted (x :: rest)) by (apply sorted_app in HS; tauto).
  destruct (rev d) as [|z rd] eqn:Ed.
  - (* empty out-buffer *)
    assert (d = []) by (apply rev_cons_inv in Ed || (rewrite <- (rev_involutive d), Ed; reflexivity); assumption). subst d.
    destruct rest as [|y r].
    + destruct (has_flags x); reflexivity.
    + destruct (Z.eqb_spec (icl y) (icl x)) as [E|N].
      * unfold hand. destruct (has_flags x); reflexivity.
      * cbn [orb]. replace (if has_flags x then ([], y :: r) else ([], y :: r)) with (@nil item, y :: r) by (destruct (has_flags x); reflexivity).
        cbn [rev]. rewrite (merge_zip_sorted [] (x :: y :: r) 2 St) by (try lia; discriminate). reflexivity.
  - pose proof (rev_cons_inv d z rd Ed) as ->.
    assert (Hz : icl z <= icl x).
    { apply sorted_app in HS. destruct HS as (_ & _ & H). apply H; [apply in_or_app; right; left; reflexivity|left; reflexivity]. }
    assert (Hlt : (icl x <? icl z) = false) by (apply Z.ltb_ge; exact Hz).
    destruct rest as [|y r].
    + cbn [orb]. destruct (Z.eqb_spec (icl z) (icl x)) as [E|N].
      * unfold hand at 1. destruct (has_flags x); [reflexivity|].
        rewrite on_last_snoc. reflexivity.
      * replace (if has_flags x then (rev rd ++ [z], []) else (rev rd ++ [z], [])) with (rev rd ++ [z], @nil item) by (destruct (has_flags x); reflexivity).
        rewrite Ed. rewrite Hlt. reflexivity.
    + destruct (Z.eqb_spec (icl y) (icl x)) as [E|N].
      * unfold hand. destruct (has_flags x); reflexivity.
      * cbn [orb]. destruct (Z.eqb_spec (icl z) (icl x)) as [E2|N2].
        -- unfold hand at 1. destruct (has_flags x); [reflexivity|]. rewrite on_last_snoc. reflexivity.
        -- replace (if has_flags x then (rev rd ++ [z], y :: r) else (rev rd ++ [z], y :: r)) with (rev rd ++ [z], y :: r) by (destruct (has_flags x); reflexivity).
           rewrite Ed. rewrite Hlt. reflexivity.
Qed.

(* ---- windows rewritten into glyphs of one cluster ---- *)
Lemma mw_same c w w' tail : (forall y, In y w -> icl y = c) -> w <> [] -> (forall y', In y' w' -> icl y' = c) -> w' <> [] ->
  (forall z, In z tail -> c <= icl z) ->
  ((exists y, In y w /\ iutb y = true) -> exists y', In y' w' /\ iutb y' = true) ->
  merged_window c c w w' tail.
Proof.
  intros Hw Hne Hw' Hne' Ht Hf. unfold merged_window.
  split; [intros y Hy; rewrite (Hw y Hy); lia|].
  split; [destruct w as [|y0 w0]; [contradiction|exists y0; split; [left; reflexivity|apply Hw; left; reflexivity]]|].
  split; [exact Hw'|]. split; [exact Hne'|]. split; [exact Ht|]. split; [intros N; contradiction|].
  intros y Hy _ Uy. apply Hf. exists y. auto.
Qed.

Lemma merge2_shape x y r : sorted (x :: y :: r) -> icl y <> icl x ->
  exists ext tail, r = ext ++ tail
    /\ tl (merge_fwd (x :: y :: r) 2) = map (merge_item (icl x)) (y :: ext) ++ tail
    /\ (forall g, In g (y :: ext) -> icl x <= icl g <= icl y)
    /\ (forall z, In z tail -> icl y < icl z).
Proof.
  intros HS N.
  destruct (merge_decomp (x :: y :: r) 2 HS) as (ext & tail & Es & EM & Hw & Ht & Ht'); [lia|cbn; lia|].
  cbn [hd firstn last skipn] in *. exists ext, tail. split; [exact Es|]. split.
  - rewrite EM. reflexivity.
  - split.
    + intros g Hg. apply Hw. right. exact Hg.
    + apply Ht'. intros E. apply N. symmetry. exact E.
Qed.

(* the flattened sequence before and after a step *)
Definition flat (r : list item * list item) : list item := fst r ++ snd r.

Lemma gm_shape P d x rest : sorted (d ++ x :: rest) -> head_clear (d ++ x :: rest) ->
  let r := gm_step P d (x :: rest) in
  (exists a w w' tail c cend, d ++ x :: rest = a ++ w ++ tail /\ flat r = a ++ w' ++ tail
      /\ merged_window c cend w w' tail
      /\ (forall y', In y' w' -> iutb y' = true -> exists y, In y w /\ icl y = icl y' /\ iutb y = true))
  \/ (flat r = d ++ rest /\ (forall g, In g (d ++ rest) -> icl g <> icl x) /\ (d = [] -> rest = [])).
Proof.
  intros HS HC r. subst r. rewrite gm_step_out.
  assert (St : sorted (x :: rest)) by (apply sorted_app in HS; tauto).
  assert (Hrest : forall z, In z rest -> icl x <= icl z) by (apply sorted_cons in St; tauto).
  assert (Hd : forall z, In z d -> icl z <= icl x).
  { intros z Hz. apply sorted_app in HS. destruct HS as (_ & _ & H). apply H; [exact Hz|left; reflexivity]. }
  destruct (gm_out P x) as [w'|] eqn:Eo.
  - (* in place *) left. destruct (gm_out_props P x w' Eo) as [Hne Hw'].
    exists d, [x], w', rest, (icl x), (icl x). split; [reflexivity|]. split; [unfold flat; cbn [fst snd]; rewrite <- app_assoc; reflexivity|].
    split.
    + apply mw_same; [intros y [<-|[]]; reflexivity|discriminate|intros y' Hy'; apply Hw'; exact Hy'|exact Hne|exact Hrest|].
      intros (y & [<-|[]] & Uy). destruct w' as [|y0 w0]; [contradiction|]. exists y0. split; [left; reflexivity|].
      destruct (Hw' y0 (or_introl eq_refl)) as [_ U]. congruence.
    + intros y' Hy' Uy'. exists x. split; [left; reflexivity|]. destruct (Hw' y' Hy') as [E U]. split; congruence.
  - rewrite (delete_cur_sorted d x rest HS). unfold delete_form.
    destruct rest as [|y r].
    + (* last glyph of the buffer *)
      destruct (rev d) as [|z rd] eqn:Ed.
      * right. assert (d = []) by (rewrite <- (rev_involutive d), Ed; reflexivity). subst d.
        split; [reflexivity|]. split; [intros g []|reflexivity].
      * pose proof (rev_cons_inv d z rd Ed) as ->. destruct (Z.eqb_spec (icl z) (icl x)) as [E|N].
        -- left. destruct (hand_props x z) as [H1 H2].
           exists (rev rd), [z; x], [hand x z], [], (icl x), (icl x).
           split; [rewrite <- app_assoc; reflexivity|]. split; [unfold flat; cbn [fst snd]; rewrite on_last_snoc, app_nil_r; reflexivity|].
           split.
           ++ apply mw_same; [intros u [<-|[<-|[]]]; auto|discriminate|intros u [<-|[]]; congruence|discriminate|intros u []|].
              intros (u & Hu & Uu). exists (hand x z). split; [left; reflexivity|]. rewrite H2.
              destruct Hu as [<-|[<-|[]]]; rewrite Uu; [reflexivity|apply orb_true_r].
           ++ intros y' [<-|[]] Uy'. rewrite H2 in Uy'. apply orb_true_iff in Uy'. destruct Uy' as [U|U].
              ** exists z. split; [left; reflexivity|]. split; [congruence|exact U].
              ** exists x. split; [right; left; reflexivity|]. split; [congruence|exact U].
        -- right. unfold flat. cbn [fst snd]. split; [reflexivity|]. split.
           ++ intros g Hg. rewrite app_nil_r in Hg. intros Eg.
              apply in_app_or in Hg. destruct Hg as [Hg|[<-|[]]]; [|contradiction].
              apply sorted_app in HS. destruct HS as (Sd & _ & _). apply sorted_app in Sd. destruct Sd as (_ & _ & H).
              specialize (H g z Hg (or_introl eq_refl)). assert (Hzz : In z (rev rd ++ [z])) by (apply in_or_app; right; left; reflexivity). specialize (Hd z Hzz). lia.
           ++ intros E. destruct (rev rd); discriminate.
    + destruct (Z.eqb_spec (icl y) (icl x)) as [E|N].
      * (* the next glyph keeps the cluster *)
        left. destruct (hand_props x y) as [H1 H2].
        exists d, [x; y], [hand x y], r, (icl x), (icl x).
        split; [reflexivity|]. split; [reflexivity|]. split.
        -- apply mw_same; [intros u [<-|[<-|[]]]; auto|discriminate|intros u [<-|[]]; congruence|discriminate| |].
           ++ intros u Hu. apply Hrest. right. exact Hu.
           ++ intros (u & Hu & Uu). exists (hand x y). split; [left; reflexivity|]. rewrite H2.
              destruct Hu as [<-|[<-|[]]]; rewrite Uu; [apply orb_true_r|reflexivity].
        -- intros y' [<-|[]] Uy'. rewrite H2 in Uy'. apply orb_true_iff in Uy'. destruct Uy' as [U|U].
           ++ exists y. split; [right; left; reflexivity|]. split; [congruence|exact U].
           ++ exists x. split; [left; reflexivity|]. split; [congruence|exact U].
      * assert (Hy : icl x < icl y) by (specialize (Hrest y (or_introl eq_refl)); lia).
        assert (Hr : forall g, In g (y :: r) -> icl x < icl g).
        { intros g Hg. apply sorted_cons in St. destruct St as [_ St]. destruct Hg as [<-|Hg]; [exact Hy|].
          apply sorted_cons in St. destruct St as [St _]. specialize (St g Hg). lia. }
        destruct (rev d) as [|z rd] eqn:Ed.
        -- (* start of the buffer: the next cluster is merged into the deleted one *)
           assert (d = []) by (rewrite <- (rev_involutive d), Ed; reflexivity). subst d.
           left. destruct (merge2_shape x y r St N) as (ext & tail & Er & EM & Hw & Ht).
           exists [], (x :: y :: ext), (map (merge_item (icl x)) (y :: ext)), tail, (icl x), (icl y).
           split; [cbn [app]; rewrite Er; reflexivity|]. split; [unfold flat; cbn [fst snd app]; exact EM|]. split.
           ++ unfold merged_window. split; [intros u [<-|Hu]; [lia|apply Hw; exact Hu]|].
              split; [exists x; split; [left; reflexivity|reflexivity]|].
              split; [intros u Hu; apply in_map_iff in Hu; destruct Hu as (v & <- & _); apply merge_item_icl|].
              split; [discriminate|]. split; [intros u Hu; specialize (Ht u Hu); lia|]. split; [intros _; exact Ht|].
              intros u Hu Eu Uu. destruct Hu as [<-|Hu].
              ** cbn [app] in HC. rewrite (HC x (or_introl eq_refl) eq_refl) in Uu. discriminate.
              ** exists u. split; [|exact Uu]. rewrite <- (merge_item_same (icl x) u Eu). apply in_map. exact Hu.
           ++ intros y' Hy' Uy'. apply in_map_iff in Hy'. destruct Hy' as (v & <- & Hv).
              destruct (Z.eq_dec (icl v) (icl x)) as [Ev|Nv].
              ** rewrite (merge_item_same (icl x) v Ev) in *. exists v. split; [right; exact Hv|split; [reflexivity|exact Uy']].
              ** exfalso. unfold merge_item, iutb, with_g, set_cluster, icl in Uy'. unfold icl in Nv.
                 destruct (Z.eqb_spec (cl (ig v)) (cl (ig x))); [contradiction|]. cbn in Uy'. discriminate.
        -- pose proof (rev_cons_inv d z rd Ed) as ->. destruct (Z.eqb_spec (icl z) (icl x)) as [E2|N2].
           ++ left. destruct (hand_props x z) as [H1 H2].
              exists (rev rd), [z; x], [hand x z], (y :: r), (icl x), (icl x).
              split; [rewrite <- app_assoc; reflexivity|]. split; [unfold flat; cbn [fst snd]; rewrite on_last_snoc, <- app_assoc; reflexivity|].
              split.
              ** apply mw_same; [intros u [<-|[<-|[]]]; auto|discriminate|intros u [<-|[]]; congruence|discriminate| |].
                 --- intros u Hu. specialize (Hr u Hu). lia.
                 --- intros (u & Hu & Uu). exists (hand x z). split; [left; reflexivity|]. rewrite H2.
                     destruct Hu as [<-|[<-|[]]]; rewrite Uu; [reflexivity|apply orb_true_r].
              ** intros y' [<-|[]] Uy'. rewrite H2 in Uy'. apply orb_true_iff in Uy'. destruct Uy' as [U|U].
                 --- exists z. split; [left; reflexivity|]. split; [congruence|exact U].
                 --- exists x. split; [right; left; reflexivity|]. split; [congruence|exact U].
           ++ right. unfold flat. cbn [fst snd]. split; [reflexivity|]. split.
              ** intros g Hg Eg. apply in_app_or in Hg. destruct Hg as [Hg|Hg]; [|specialize (Hr g Hg); lia].
                 apply in_app_or in Hg. destruct Hg as [Hg|[<-|[]]]; [|contradiction].
                 apply sorted_app in HS. destruct HS as (Sd & _ & _). apply sorted_app in Sd. destruct Sd as (_ & _ & H).
                 specialize (H g z Hg (or_introl eq_refl)). assert (Hzz : In z (rev rd ++ [z])) by (apply in_or_app; right; left; reflexivity). specialize (Hd z Hzz). lia.
              ** intros E. destruct (rev rd); discriminate.
Qed.

Lemma head_clear_mw a c cend w w' tail : sorted (a ++ w ++ tail) -> merged_window c cend w w' tail ->
  (forall y', In y' w' -> iutb y' = true -> exists y, In y w /\ icl y = icl y' /\ iutb y = true) ->
  head_clear (a ++ w ++ tail) -> head_clear (a ++ w' ++ tail).
Proof.
  intros HS (Hw & (y0 & Hy0 & Ey0) & Hw' & Hne & _) Hback HC.
  assert (Key : forall h, (forall y, In y (a ++ w ++ tail) -> icl y = icl h -> iutb y = false) ->
                forall y, In y (a ++ w' ++ tail) -> icl y = icl h -> iutb y = false).
  { intros h Hh y Hy Ey. apply in_app_or in Hy. destruct Hy as [Hy|Hy]; [apply Hh; [apply in_or_app; left; exact Hy|exact Ey]|].
    apply in_app_or in Hy. destruct Hy as [Hy|Hy]; [|apply Hh; [apply in_or_app; right; apply in_or_app; right; exact Hy|exact Ey]].
    destruct (iutb y) eqn:U; [|reflexivity]. destruct (Hback y Hy U) as (y1 & Hy1 & E1 & U1).
    rewrite <- U1. apply Hh; [apply in_or_app; right; apply in_or_app; left; exact Hy1|congruence]. }
  destruct a as [|h a'].
  - cbn [app] in *. destruct w as [|h w0]; [destruct Hy0|]. destruct w' as [|h' w0']; [contradiction|].
    cbn [app head_clear] in *.
    assert (Eh : icl h = icl h').
    { rewrite (Hw' h' (or_introl eq_refl)). specialize (Hw h (or_introl eq_refl)).
      apply sorted_cons in HS. destruct HS as [HS _]. destruct Hy0 as [<-|Hy0]; [exact Ey0|].
      specialize (HS y0 (in_or_app _ _ _ (or_introl Hy0))). lia. }
    intros y Hy Ey. apply (Key h); [exact HC|exact Hy|congruence].
  - cbn [app head_clear] in *. apply (Key h). exact HC.
Qed.

Lemma gm_pass_step P L R d t : pstep (gm_pass P) L R d t = gm_step P d t.
Proof. reflexivity. Qed.

Lemma gm_progress P d x rest : (length (snd (gm_step P d (x :: rest))) < length (x :: rest))%nat.
Proof.
  rewrite gm_step_out. destruct (gm_out P x); [cbn; lia|].
  unfold delete_cur.
  set (ns := match rest with y :: _ => icl y =? icl x | [] => false end).
  set (ps := match rev d with z :: _ => icl z =? icl x | [] => false end).
  set (hr := if has_flags x then if ns then (d, match rest with y :: r => flag_item (gf (ig x)) y :: r | [] => [] end)
             else if ps then (on_last (flag_item (gf (ig x))) d, rest) else (d, rest) else (d, rest)).
  assert (Hl : length (snd hr) = length rest).
  { unfold hr. destruct (has_flags x); [|reflexivity]. destruct ns; [destruct rest; reflexivity|]. destruct ps; reflexivity. }
  destruct hr as [d1 rest1]. cbn [snd] in Hl.
  destruct (ns || ps); [cbn [snd length]; lia|].
  destruct (rev d1) as [|z rd].
  - destruct rest1 as [|y1 r1]; [cbn [snd length]; lia|].
    destruct (merge_zip d1 (x :: y1 :: r1) 2) as [d2 t2] eqn:EM. cbn [snd].
    assert (length t2 = length (x :: y1 :: r1)).
    { unfold merge_zip in EM. injection EM as _ <-. rewrite app_length, map_length, <- app_length, firstn_skipn. reflexivity. }
    destruct t2; cbn [tl length] in *; lia.
  - destruct (icl x <? icl z); cbn [snd length]; lia.
Qed.

Theorem gm_step_ok P : step_ok icl iutb sideL inv_gm (gm_pass P).
Proof.
  constructor.
  - (* progress *) intros L R d t Hne. rewrite gm_pass_step. destruct t as [|x rest]; [contradiction|]. apply gm_progress.
  - (* invariant *) intros L R d t Hne [HS HC]. rewrite gm_pass_step. destruct t as [|x rest]; [contradiction|].
    destruct (gm_shape P d x rest HS HC) as [(a & w & w' & tail & c & cend & E1 & E2 & MW & Hb)|(E2 & Hx & Hd)];
      unfold flat in E2; rewrite E2.
    + rewrite E1 in HS, HC. split; [apply (mw_sorted a c cend w w' tail HS MW)|apply (head_clear_mw a c cend w w' tail HS MW Hb HC)].
    + split; [apply (sorted_remove d x rest HS)|].
      destruct d as [|h d']; [rewrite (Hd eq_refl); exact I|].
      cbn [app head_clear] in *. intros y Hy Ey. apply HC; [|exact Ey].
      destruct Hy as [Hy|Hy]; [left; exact Hy|right]. apply in_app_or in Hy. apply in_or_app. destruct Hy as [Hy|Hy]; [left; exact Hy|right; right; exact Hy].
  - (* clusters *) intros L R d t y Hne [HS HC] Hy. rewrite gm_pass_step in Hy. destruct t as [|x rest]; [contradiction|].
    destruct (gm_shape P d x rest HS HC) as [(a & w & w' & tail & c & cend & E1 & E2 & MW & Hb)|(E2 & Hx & Hd)];
      unfold flat in E2; rewrite E2 in Hy.
    + rewrite E1. apply (mw_cls a c cend w w' tail MW y Hy).
    + exists y. split; [|reflexivity]. apply in_app_or in Hy. apply in_or_app. destruct Hy as [Hy|Hy]; [left; exact Hy|right; right; exact Hy].
  - (* persistence *) intros L R d t c0 Hne [HS HC] F. rewrite gm_pass_step. destruct t as [|x rest]; [contradiction|].
    destruct (gm_shape P d x rest HS HC) as [(a & w & w' & tail & c & cend & E1 & E2 & MW & Hb)|(E2 & Hx & Hd)];
      unfold flat in E2; rewrite E2.
    + rewrite E1 in HS, F. apply (mw_fog a c cend w w' tail c0 HS MW F).
    + apply fog_spec in F. apply fog_spec. destruct F as [F|(g & Hg & Eg & Ug)].
      * left. intros g Hg. apply F. apply in_app_or in Hg. apply in_or_app. destruct Hg as [Hg|Hg]; [left; exact Hg|right; right; exact Hg].
      * apply in_app_or in Hg. destruct Hg as [Hg|[<-|Hg]].
        -- right. exists g. split; [apply in_or_app; left; exact Hg|auto].
        -- left. intros u Hu. rewrite <- Eg. apply Hx. exact Hu.
        -- right. exists g. split; [apply in_or_app; right; exact Hg|auto].
  - (* cut ahead *)
    intros L R R' d t1 t2 c0 Hne [HS HC] [HS1 HC1] HCut _. cbv zeta. rewrite !gm_pass_step.
    destruct t1 as [|x r1]; [contradiction|]. cbn [app].
    apply cutvL_spec in HCut. destruct HCut as [C1 C2].
    rewrite !gm_step_out. destruct (gm_out P x) as [w'|]; [right; reflexivity|].
    rewrite (delete_cur_sorted d x (r1 ++ t2) HS), (delete_cur_sorted d x r1 HS1). unfold delete_form.
    assert (Hx : icl x < c0) by (apply C1; apply in_or_app; right; left; reflexivity).
    destruct r1 as [|y r].
    + cbn [app]. destruct t2 as [|z2 r2]; [right; destruct (rev d) as [|z rd]; [reflexivity|destruct (icl z =? icl x); reflexivity]|].
      assert (Hz2 : c0 <= icl z2) by (apply C2; left; reflexivity).
      destruct (Z.eqb_spec (icl z2) (icl x)) as [E|N]; [lia|].
      destruct (rev d) as [|z rd] eqn:Ed; [|right; destruct (icl z =? icl x); reflexivity].
      left. assert (d = []) by (rewrite <- (rev_involutive d), Ed; reflexivity). subst d. cbn [app] in *.
      destruct (merge2_shape x z2 r2 HS N) as (ext & tail & Er & EM & Hw & Ht).
      cbn [fst snd app]. rewrite EM. apply fog_spec. left. intros u Hu Eu.
      apply in_app_or in Hu. destruct Hu as [Hu|Hu].
      * apply in_map_iff in Hu. destruct Hu as (v & <- & _). rewrite merge_item_icl in Eu. lia.
      * specialize (Ht u Hu). lia.
    + right. cbn [app].
      destruct (icl y =? icl x); [reflexivity|].
      destruct (rev d) as [|z rd] eqn:Ed; [|destruct (icl z =? icl x); reflexivity].
      cbn [fst snd]. f_equal.
      assert (d = []) by (rewrite <- (rev_involutive d), Ed; reflexivity). subst d. cbn [app] in *.
      change (x :: y :: r ++ t2) with ((x :: y :: r) ++ t2).
      rewrite (merge_fwd_app (x :: y :: r) t2 2); [|lia|cbn; lia|].
      * pose proof (merge_fwd_length (x :: y :: r) 2) as LM. destruct (merge_fwd (x :: y :: r) 2); [cbn in LM; lia|reflexivity].
      * intros z Hz E. cbn [firstn last] in E. specialize (C2 z Hz).
        assert (icl y < c0) by (apply C1; right; left; reflexivity). lia.
  - (* cut behind *)
    intros L L' R d1 d2 t c0 Hne [HS HC] [HS2 HC2] HCut _. cbv zeta. rewrite !gm_pass_step.
    destruct t as [|x rest]; [contradiction|].
    apply cutvL_spec in HCut. destruct HCut as [C1 C2].
    rewrite !gm_step_out. destruct (gm_out P x) as [w'|]; [right; cbn [fst snd]; rewrite app_assoc; reflexivity|].
    assert (HS' : sorted ((d1 ++ d2) ++ x :: rest)) by (rewrite <- app_assoc; exact HS).
    rewrite (delete_cur_sorted (d1 ++ d2) x rest HS'), (delete_cur_sorted d2 x rest HS2). unfold delete_form.
    destruct (rev d2) as [|z rd] eqn:Ed2.
    + (* the cut is at the cursor *)
      assert (d2 = []) by (rewrite <- (rev_involutive d2), Ed2; reflexivity). subst d2. rewrite app_nil_r in *. cbn [app] in *.
      assert (Hx : c0 <= icl x) by (apply C2; left; reflexivity).
      destruct (rev d1) as [|z1 rd1] eqn:Ed1.
      * right. assert (d1 = []) by (rewrite <- (rev_involutive d1), Ed1; reflexivity). subst d1. destruct rest as [|y r]; [reflexivity|].
        destruct (icl y =? icl x); reflexivity.
      * assert (Hz1 : icl z1 < c0).
        { apply C1. rewrite (rev_cons_inv d1 z1 rd1 Ed1). apply in_or_app. right. left. reflexivity. }
        destruct (Z.eqb_spec (icl z1) (icl x)) as [E|N]; [lia|].
        destruct rest as [|y r]; [right; cbn [fst snd]; rewrite app_nil_r; reflexivity|].
        destruct (Z.eqb_spec (icl y) (icl x)) as [E|Ny]; [right; cbn [fst snd]; rewrite app_nil_r; reflexivity|].
        left. cbn [fst snd]. apply fog_spec. left. intros u Hu Eu.
        apply in_app_or in Hu. destruct Hu as [Hu|Hu]; [specialize (C1 u Hu); lia|].
        apply sorted_cons in HS2. destruct HS2 as [H1 H2]. pose proof (H1 y (or_introl eq_refl)) as Hy.
        destruct Hu as [<-|Hu]; [lia|]. apply sorted_cons in H2. destruct H2 as [H2 _]. specialize (H2 u Hu). lia.
    + right. rewrite rev_app_distr, Ed2. cbn [app].
      pose proof (rev_cons_inv d2 z rd Ed2) as E. rewrite E. rewrite app_assoc, !on_last_snoc, <- app_assoc.
      destruct rest as [|y r].
      * destruct (icl z =? icl x); cbn [fst snd]; rewrite <- ?app_assoc; reflexivity.
      * destruct (icl y =? icl x); [cbn [fst snd]; rewrite <- ?app_assoc; reflexivity|].
        destruct (icl z =? icl x); cbn [fst snd]; rewrite <- ?app_assoc; reflexivity.
Qed.

(* ---- the lookup loop of the model is the pass ---- *)
Lemma gm_loop_ploop P L R : forall f d t, gm_loop P f d t = ploop (gm_pass P) f L R d t.
Proof.
  induction f as [|f IH]; intros d t; [reflexivity|]. cbn [gm_loop ploop]. destruct t as [|x rest]; [reflexivity|].
  rewrite gm_pass_step. destruct (gm_step P d (x :: rest)) as [d' t']. cbn [fst snd]. apply IH.
Qed.

Theorem gm_lookup_is_pass P L R l : (gm_mask P =? 0) = false -> gm_lookup l P = prun (gm_pass P) L R l.
Proof.
  intros Hm. unfold gm_lookup, prun. rewrite Hm. cbn [orb]. destruct l as [|x r]; [reflexivity|]. apply gm_loop_ploop.
Qed.

(* ---- engines of multiple-substitution lookups ---- *)
Theorem gm_engine_cut_safe (Ps : list gmparams) : cut_safe icl iutb sideL inv_gm (map gm_pass Ps).
Proof.
  apply wf_engine_cut_safe. apply wf_engine_unit. apply Forall_forall. intros q Hq.
  apply in_map_iff in Hq. destruct Hq as (p & <- & _). apply gm_step_ok.
Qed.
