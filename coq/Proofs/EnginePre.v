(* The pre-substitution stages of shaperOpentype.shape (setUnicodeProps, insertDottedCircle, formClusters,
   ensureNativeDirection) preserve the C01 invariant at BOTH monotone cluster levels, with no hypothesis about formClusters:
   the only obligation is on the Unicode data (general categories are numbers below 32, as the Go type guarantees). *)
From TV Require Import Model.Buffer Spec.Buffer Proofs.ShapeGlue Proofs.Buffer Proofs.BufferOps Proofs.BufferNewOps Proofs.BufferAll.
From TV Require Import Model.Engine Proofs.Engine Proofs.EngineForm Proofs.EngineProps.

Section PreNormalize.
  Variable ugc : Z -> Z.
  Variable udi : Z -> bool.
  Variable umcc : Z -> Z.
  Variable uextpict : Z -> bool.
  Variable nominal : Z -> Z * bool.

  (* what formClusters establishes, for the buffer setUnicodeProps / insertDottedCircle produce *)
  Lemma form_clusters_groups e e2 e3 : (forall u, 0 <= ugc u < 32) -> level (eb e) = 0 -> idx (eb e) = 0 ->
    insert_dotted_circle ugc udi umcc nominal (set_unicode_props ugc udi umcc uextpict e) = Ok e2 ->
    level (eb e2) = 0 -> idx (eb e2) = 0 ->
    form_clusters e2 = Ok e3 -> groups_uniform (info (eb e3)) = true.
  Proof.
    intros Hgc Hlv Hi E2 L2 I2 E3.
    destruct (sf_nonascii e2) eqn:Hna.
    - exact (proj1 (form_clusters_uniform e2 e3 L2 I2 Hna E3)).
    - destruct (insert_dotted_circle_nonascii ugc udi umcc nominal _ _ E2) as [->|C]; [|congruence].
      unfold form_clusters in E3. rewrite Hna in E3. cbn [negb] in E3. inversion E3; subst e3.
      apply no_cont_groups_uniform. apply set_unicode_props_nonascii; assumption.
  Qed.

  Lemma pre_normalize_full lo hi horiz e : (forall u, 0 <= ugc u < 32) ->
    EWF lo hi e -> idx (eb e) = 0 -> level (eb e) = 0 \/ level (eb e) = 1 ->
    exists e', pre_normalize ugc udi umcc uextpict nominal horiz e = Ok e' /\ EWF lo hi e' /\ idx (eb e') = 0 /\ level (eb e') = level (eb e).
  Proof.
    intros Hgc He Hi Hlv. unfold pre_normalize. cbv zeta.
    pose proof (set_unicode_props_wf ugc udi umcc uextpict lo hi e He) as H1.
    destruct (set_unicode_props_spec ugc udi umcc uextpict e) as (_ & _ & I1 & _ & L1 & _).
    destruct (insert_dotted_circle_wf ugc udi umcc nominal lo hi _ H1 ltac:(congruence)) as (e2 & E2 & H2 & I2 & _ & L2).
    rewrite E2. cbn [bind].
    destruct (form_clusters_wf lo hi e2 H2) as (e3 & E3 & H3 & I3 & _ & L3).
    rewrite E3. cbn [bind].
    destruct (ensure_native_direction_wf lo hi horiz e3 H3) as (e4 & E4 & H4 & L4 & I4).
    - destruct Hlv as [Hzero|Hone].
      + rewrite (form_clusters_groups e e2 e3 Hgc Hzero Hi E2 ltac:(congruence) I2 E3). apply orb_true_r.
      + replace (level (eb e3)) with 1 by congruence. reflexivity.
    - exists e4. split; [exact E4|]. split; [exact H4|]. split; congruence.
  Qed.
End PreNormalize.
