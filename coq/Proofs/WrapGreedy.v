(* C04 greedy clause under BreakPolicy Never (the width bound for that policy is now the special case of the general one of
   Proofs/WrapValid.v).
   Under Never the grapheme loop is never entered and the invariant "no valid UAX #14 boundary beyond the line start has
   been consumed" (WI of Proofs/WrapWidth.v) is kept by every call.  Ingredients:
   - an upper bound for the width the wrapper measures (WU): the recorded advance of the collected runs is at most the sum
     of their glyph advances ON THE ENTRY STORE of the call (whole runs and cut runs are recomputed on a store that only
     lost advance since the entry), so a candidate measured wider than maxWidth is wider than maxWidth by
     Spec/Wrap.v line_measure on the entry store;
   - an invariant over the line iterator (Ng): every valid UAX #14 boundary beyond the best line is still ahead of the
     iterator or pending re-issue - through the UAX #14 loop, for a best line that advances with every fitting option. *)
From TV Require Import Model.Wrap Spec.Wrap Spec.WrapCut Spec.WrapGreedy Proofs.Wrap Proofs.WrapCut Proofs.WrapLines Proofs.WrapTotal
  Proofs.WrapStore Proofs.WrapMand Proofs.WrapMand2 Proofs.WrapWidth Proofs.WrapValid.

Section Greedy.
Variables (n : Z) (attrs : list Z) (st0 : store) (rs : list out).

(* the sign hypothesis on the entry store (the input runs' own Advance is not read: a run placed whole has its advance
   recomputed from the glyphs) *)
Definition RE : Prop := SG st0.
Definition WU (w : W) : Prop :=
  SG (w_st w) /\ st_le st0 (w_st w) /\ s_alt_adv (w_sc w) <= rsum st0 (s_alt (w_sc w)).

Lemma fill_until_U : RE -> forall fuel w b w', w_runs w = rs -> WU w -> fill_until fuel w b = Ok w' -> WU w'.
Proof.
  intros HRE. induction fuel as [|fuel IH]; intros w b w' Hr HU H; cbn [fill_until] in H; [discriminate|].
  destruct (peek w) as [[ci run] more] eqn:P.
  destruct (more && (o_cnt run + o_off run <=? b)) eqn:E.
  2:{ inversion H; subst. exact HU. }
  apply andb_prop in E. destruct E as [E _]. subst more. pose proof (peek_run _ _ _ P) as Hrun.
  destruct (o_off run + o_cnt run <=? w_start w).
  - apply (IH (iter_advance w) b w'); [destruct w; exact Hr|destruct w; exact HU|exact H].
  - destruct HU as (HS & HL & HA).
    destruct (o_off run <? w_start w).
    + destruct (map_run w ci run) as [w1| | |] eqn:MR; cbn [bind] in H; try discriminate.
      destruct (map_run_set _ _ _ _ MR) as [mp ->].
      destruct (cut_run _ run _ _ _ _) as [[st' rc]| | |] eqn:CR; cbn [bind fst snd] in H; try discriminate.
      replace (w_st (set_mp w mp)) with (w_st w) in CR by (destruct w; reflexivity).
      destruct (cut_run_le _ _ _ _ _ _ _ _ HS CR) as (L1 & S1 & Ad & _).
      apply (IH (iter_advance (cand_append (set_st (set_mp w mp) st') rc)) b w'); [destruct w; exact Hr| |exact H].
      pose proof (st_le_trans _ _ _ HL L1) as L2.
      pose proof (sum_le _ _ (st_le_glyphs _ _ rc L2)) as Q.
      destruct w; unfold WU; cbn -[rsum sum_adv out_glyphs] in *. split; [exact S1|]. split; [exact L2|].
      rewrite rsum_app. unfold rsum at 2. cbn [fold_right]. lia.
    + cbn [bind fst snd] in H.
      apply (IH (iter_advance (cand_append w (recompute_advance (w_st w) run))) b w'); [destruct w; exact Hr| |exact H].
      pose proof (sum_le _ _ (st_le_glyphs _ _ run HL)) as Q.
      destruct w; unfold WU; cbn -[rsum sum_adv out_glyphs recompute_advance] in *. split; [exact HS|]. split; [exact HL|].
      rewrite rsum_app. unfold rsum at 2. cbn [fold_right]. unfold recompute_advance, set_adv, out_glyphs in *. cbn in *. lia.
Qed.

Lemma pbo_U : RE -> forall w opt lc w' r cand, w_runs w = rs -> WU w -> process_break_option w opt lc = Ok (w', r, cand) ->
  WU w' /\ (r <> BreakInvalid -> cand_width w' cand <= ceil26 (lmeas st0 (c_dir (w_cfg w')) (s_alt (w_sc w') ++ [cand]))).
Proof.
  intros HRE w opt lc w' r cand Hr HU H. unfold process_break_option in H.
  destruct (fst opt <? w_start w).
  { inversion H; subst. split; [exact HU|congruence]. }
  destruct (fill_until _ w (fst opt)) as [w1| | |] eqn:FU; cbn [bind] in H; try discriminate.
  pose proof (fill_until_U HRE _ _ _ _ Hr HU FU) as U1.
  destruct (peek w1) as [[ci run] mr].
  destruct (map_run w1 ci run) as [w2| | |] eqn:MR; cbn [bind] in H; try discriminate.
  destruct (map_run_set _ _ _ _ MR) as [mp ->].
  assert (U2 : WU (set_mp w1 mp)) by (destruct w1; exact U1).
  destruct (is_valid _ _ _ run) as [v| | |]; cbn [bind] in H; try discriminate.
  destruct v; cbn [negb] in H.
  2:{ inversion H; subst. split; [exact U2|congruence]. }
  destruct (cut_run _ run _ _ _ _) as [[st' rc]| | |] eqn:CR; cbn [bind fst snd] in H; try discriminate.
  destruct U2 as (S2 & L2 & A2).
  destruct (cut_run_le _ _ _ _ _ _ _ _ S2 CR) as (L3 & S3 & Ad & _).
  set (w3 := set_st (set_mp w1 mp) st') in *.
  assert (Hfin : w' = w3 /\ cand = rc).
  { destruct (lc_max lc <? _); [inversion H; auto|]. destruct (lc_truncating lc && _).
    - destruct (_ && _); inversion H; auto.
    - inversion H; auto. }
  destruct Hfin as [-> ->].
  assert (St3 : w_st w3 = st') by (unfold w3; destruct w1; reflexivity).
  assert (Sc3 : w_sc w3 = w_sc (set_mp w1 mp)) by (unfold w3; destruct w1; reflexivity).
  pose proof (st_le_trans _ _ _ L2 L3) as L4.
  split.
  - unfold WU. rewrite St3, Sc3. split; [exact S3|]. split; [exact L4|exact A2].
  - intros _. unfold cand_width. apply ceil26_mono. rewrite lmeas_snoc, asa_eq, St3, Sc3.
    pose proof (disc_le st0 st' (c_dir (w_cfg w3)) rc L4). lia.
Qed.

Lemma fill_until_save : forall fuel w b w', fill_until fuel w b = Ok w' ->
  s_save_adv (w_sc w') = s_save_adv (w_sc w) /\ s_save (w_sc w') = s_save (w_sc w).
Proof.
  induction fuel as [|fuel IH]; intros w b w' H; cbn [fill_until] in H; [discriminate|].
  destruct (peek w) as [[ci run] more].
  destruct (more && (o_cnt run + o_off run <=? b)); [|inversion H; subst; split; reflexivity].
  destruct (o_off run + o_cnt run <=? w_start w).
  - apply IH in H. destruct w; exact H.
  - destruct (o_off run <? w_start w).
    + destruct (map_run w ci run) as [w1| | |] eqn:MR; cbn [bind] in H; try discriminate.
      destruct (map_run_set _ _ _ _ MR) as [mp ->].
      destruct (cut_run _ run _ _ _ _) as [[st' rc]| | |]; cbn [bind fst snd] in H; try discriminate.
      apply IH in H. destruct w; exact H.
    + cbn [bind fst snd] in H. apply IH in H. destruct w; exact H.
Qed.
Lemma pbo_save : forall w opt lc w' r cand, process_break_option w opt lc = Ok (w', r, cand) ->
  s_save_adv (w_sc w') = s_save_adv (w_sc w) /\ s_save (w_sc w') = s_save (w_sc w).
Proof.
  intros w opt lc w' r cand H. unfold process_break_option in H.
  destruct (fst opt <? w_start w); [inversion H; subst; split; reflexivity|].
  destruct (fill_until _ w (fst opt)) as [w1| | |] eqn:FU; cbn [bind] in H; try discriminate.
  apply fill_until_save in FU. destruct (peek w1) as [[ci run] mr].
  destruct (map_run w1 ci run) as [w2| | |] eqn:MR; cbn [bind] in H; try discriminate.
  destruct (map_run_set _ _ _ _ MR) as [mp ->].
  destruct (is_valid _ _ _ run) as [v| | |]; cbn [bind] in H; try discriminate.
  destruct v; cbn [negb] in H; [|inversion H; subst; destruct w1; exact FU].
  destruct (cut_run _ run _ _ _ _) as [sr| | |]; cbn [bind] in H; try discriminate.
  cbv zeta in H.
  repeat match type of H with context [if ?c then _ else _] => destruct c end; inversion H; subst; destruct w1; exact FU.
Qed.

(* ---- the UAX #14 loop under policy Never ------------------------------------------------------------------------- *)

(* every valid UAX #14 boundary beyond the best line (beyond the line start when there is none) is ahead of the line
   iterator or pending re-issue *)
Definition Ng (w : W) : Prop := forall p, best_end w < p -> lbV attrs st0 rs p -> U (w_br w) p.

(* the runes [s, q) placed as exact pieces of the input runs measure more than the line's maxWidth on the entry store *)
Definition Rejected (mw pdir s q : Z) : Prop :=
  exists l, chain s l q /\ Forall (PO st0 rs) l /\ mw < ceil26 (lmeas st0 pdir l).

Definition PostN (lc : line_cfg) (pdir s : Z) (w' : W) (d : bool) : Prop :=
  d = false ->
    has_best w' = true /\ Ng w'
    /\ (b_isUnusedW (w_br w') = false ->
          best_end w' = b_wpos (w_br w')
          /\ (snd (b_unusedW (w_br w')) = true \/ forall p, s < p < best_end w' -> lbV attrs st0 rs p -> False))
    /\ (b_isUnusedW (w_br w') = true ->
          best_end w' < b_wpos (w_br w') /\ (RE -> Rejected (lc_max lc) pdir s (b_wpos (w_br w')))).

Lemma policy_never_cfg : forall w w', w_cfg w' = w_cfg w -> policy_never w' = policy_never w.
Proof. intros w w' H. unfold policy_never. rewrite H. reflexivity. Qed.

Lemma outer_N : HBI_t n -> forall fuel w lc w' d,
  JT n w -> OrdO w -> XI n w -> SK attrs st0 rs w -> (RE -> WU w) -> Ng w -> policy_never w = true ->
  (has_best w = true -> b_isUnusedW (w_br w) = false) ->
  best_end w <= Z.max (w_start w) (b_wpos (w_br w)) ->
  outer_loop fuel w lc = Ok (w', d) -> PostN lc (c_dir (w_cfg w)) (w_start w) w' d.
Proof.
  intros HBI. induction fuel as [|fuel IH]; intros w lc w' d HT HO HX HK HU HNg HPol HUb HBm H; cbn [outer_loop] in H; [discriminate|].
  destruct (JT_checkpoint n w HT) as (T1 & Csv & Calt & Cbe & Cbr & Cbest).
  pose proof (XI_checkpoint n w HX) as XC1.
  assert (St1 : w_st (checkpoint w) = w_st w) by (destruct w; reflexivity).
  assert (Cf1 : w_cfg (checkpoint w) = w_cfg w /\ w_runs (checkpoint w) = w_runs w) by (destruct w; split; reflexivity).
  assert (WU1 : RE -> WU (checkpoint w)) by (intros HRE; specialize (HU HRE); unfold WU in *; destruct w; exact HU).
  assert (WS1 : RE -> s_save_adv (w_sc (checkpoint w)) <= rsum st0 (s_save (w_sc (checkpoint w)))).
  { intros HRE. destruct (HU HRE) as (_ & _ & HU'). destruct w; exact HU'. }
  set (w1 := checkpoint w) in *.
  destruct (next_word_break (w_br w1)) as [b1 ro] eqn:NW.
  pose proof T1 as ((_ & B1 & _) & _).
  destruct (nwb_spec n _ _ _ B1 NW) as (Bb1 & SG1 & FW & UW & X). rewrite Cbr in SG1, UW, X.
  destruct SG1 as (S1 & S2 & S3 & S5).
  pose proof (JT_set_br n w1 b1 T1 Bb1) as T2.
  destruct (set_br_proj w1 b1) as (Q1 & Q2 & Q3 & Q4 & Q5).
  assert (Q7 : w_start w1 = w_start w) by (destruct w; reflexivity).
  pose proof (XI_set_br n w1 b1 XC1) as XC2.
  assert (St2 : w_st (set_br w1 b1) = w_st w) by (rewrite <- St1; destruct w1; reflexivity).
  assert (Cf2 : w_cfg (set_br w1 b1) = w_cfg w /\ w_runs (set_br w1 b1) = w_runs w) by (destruct Cf1; destruct w1; cbn in *; split; assumption).
  assert (WU2 : RE -> WU (set_br w1 b1)) by (intros HRE; specialize (WU1 HRE); unfold WU in *; destruct w1; exact WU1).
  assert (WS2 : RE -> s_save_adv (w_sc (set_br w1 b1)) <= rsum st0 (s_save (w_sc (set_br w1 b1)))) by (intros HRE; specialize (WS1 HRE); destruct w1; exact WS1).
  set (w2 := set_br w1 b1) in *.
  rewrite Calt in Q1. rewrite Csv in Q5. rewrite Cbest in Q4. rewrite Q7 in Q3.
  set (b := w_br w) in *.
  destruct ro as [opt|].
  2:{ inversion H; subst w' d. intros Q; discriminate Q. }
  destruct X as (X1 & X3 & X6 & X7 & X8 & X9 & X10).
  destruct (Bk_ug_n n _ Bb1) as (G1 & G2 & G3).
  assert (X1' : fst opt = fst (b_unusedW b1)) by (rewrite X1; reflexivity).
  assert (Hord : s_alt (w_sc w2) <> [] -> lend (w_start w2) (s_alt (w_sc w2)) <= fst opt).
  { rewrite Q1, Q3. intros Hne. destruct (HO Hne) as [O1 O2]; fold b in O1; lia. }
  destruct (pbo_safe n w2 opt lc (proj1 (proj1 T2)) XC2 ltac:(lia) Hord) as (w3 & r & cand & PB & XC3 & Sk3 & Fin3).
  rewrite PB in H. cbn [bind] in H.
  destruct (JP_pbo n w2 opt lc w3 r cand (proj1 T2) ltac:(lia) Hord PB) as (P3 & F3 & BE3 & LE3 & C3 & L3).
  assert (Rn2 : w_runs w2 = rs) by (rewrite (proj2 Cf2); exact (proj1 (proj2 HK))).
  assert (PU : RE -> WU w3 /\ (r <> BreakInvalid -> cand_width w3 cand <= ceil26 (lmeas st0 (c_dir (w_cfg w3)) (s_alt (w_sc w3) ++ [cand]))))
    by (intros HRE; exact (pbo_U HRE _ _ _ _ _ _ Rn2 (WU2 HRE) PB)).
  destruct (pbo_save _ _ _ _ _ _ PB) as (Sf2 & Sf1).
  destruct (process_fits_width _ _ _ _ _ _ PB) as (PW1 & PW2 & PW3 & PW4).
  destruct (pbo_kind _ _ _ _ _ _ PB) as (PK1 & PK2 & PK3).
  pose proof (HBI w2 opt lc w3 r cand (proj1 (proj1 T2)) XC2 ltac:(lia) Hord PB) as HBIr.
  destruct F3 as (F3c & _ & F3s & _ & F3r & _ & F3b & F3v & F3best).
  rewrite Q2 in F3b. rewrite Q5 in F3v. rewrite Q4 in F3best. rewrite Q3 in F3s, LE3. rewrite Q1 in LE3.
  rewrite (proj1 Cf2) in F3c. rewrite (proj2 Cf2) in F3r.
  assert (Q6 : best_end w2 = best_end w) by (unfold w2; rewrite best_end_set_br; exact Cbe).
  rewrite Q6 in BE3.
  rewrite Q1, Q3 in Hord. rewrite Q3 in C3.
  assert (Hsv : r <> BreakInvalid -> lend (w_start w3) (s_save (w_sc w3)) <= fst opt).
  { intros Hr. destruct (C3 Hr) as (C31 & _). rewrite F3v, F3s. destruct (s_alt (w_sc w)) eqn:A; [unfold lend; cbn; lia|].
    apply Hord. congruence. }
  rewrite St2 in Sk3.
  destruct (mark_best_proj w3 [cand]) as (M1 & M2 & M3 & M4).
  destruct (restore_proj w3) as (R1 & R2 & R3 & R4).
  assert (HB3 : has_best w3 = has_best w) by (apply has_best_same; exact F3best).
  assert (HK3 : SK attrs st0 rs w3).
  { destruct HK as (K1 & K2 & K3). split; [rewrite Sk3; exact K1|]. split; [rewrite F3r; exact K2|]. rewrite F3b. rewrite S5. exact K3. }
  assert (Pol3 : policy_never w3 = true) by (rewrite (policy_never_cfg w w3 F3c); exact HPol).
  (* the iterator moved on, and never past a valid boundary beyond the best line *)
  assert (Wmono : b_wpos b <= b_wpos b1) by (destruct (nwb_gap _ _ _ ltac:(destruct B1 as (_ & Q & _); rewrite Cbr in Q; exact Q) ltac:(rewrite <- Cbr; exact NW)) as [Q _]; exact Q).
  assert (NU : forall p, best_end w < p -> lbV attrs st0 rs p -> fst opt + 1 <= p /\ (p <> fst opt + 1 -> b_wpos b1 < p)).
  { intros p Hp Hv. pose proof (HNg p Hp Hv) as Q. fold b in Q. destruct HK as (_ & _ & K3). fold b in K3.
    apply (nwb_U n (w_br w1) b1 opt B1 NW p); rewrite Cbr; [rewrite K3; exact (proj1 Hv)|exact Q]. }
  assert (Best1 : r <> BreakInvalid -> XI n (mark_best w3 [cand]) /\ JT n (mark_best w3 [cand])
                   /\ best_end (mark_best w3 [cand]) = fst opt + 1).
  { intros Hr. destruct (C3 Hr) as (C31 & C32 & C33). destruct (Fin3 Hr) as [FP FC].
    destruct (JT_mark_best n w3 cand (fst opt + 1) P3 C33 C32 ltac:(specialize (Hsv Hr); lia) ltac:(lia)) as [T4 BE4].
    split; [eapply XI_mark_best1; eauto|split; [exact T4|exact BE4]]. }
  assert (NgM : r <> BreakInvalid -> Ng (mark_best w3 [cand])).
  { intros Hr p Hp Hv. destruct (Best1 Hr) as (_ & _ & BE4). rewrite BE4 in Hp. rewrite M2, F3b. left. lia. }
  assert (EndAt : r <> BreakInvalid -> b_isUnusedW (w_br (mark_best w3 [cand])) = false
                  /\ best_end (mark_best w3 [cand]) = b_wpos (w_br (mark_best w3 [cand]))
                  /\ snd (b_unusedW (w_br (mark_best w3 [cand]))) = snd opt).
  { intros Hr. destruct (Best1 Hr) as (_ & _ & BE4). rewrite M2, F3b, BE4. split; [exact FW|]. split; [lia|]. rewrite <- X1. reflexivity. }
  destruct r.
  - (* BreakInvalid: the option is discarded *)
    cbv beta iota zeta in H. rewrite R2, F3b in H.
    destruct (set_br_proj (restore w3) (discard_word b1)) as (D1 & D2 & D3 & D4 & D5).
    set (wd := set_br (restore w3) (discard_word b1)) in *.
    assert (E : PostN lc (c_dir (w_cfg wd)) (w_start wd) w' d).
    { apply (IH wd lc w' d).
      + apply JT_set_br; [apply JT_restore; exact P3|apply Bk_discard; assumption].
      + unfold OrdO. rewrite D1, D2, D3, R1, R3, F3v, F3s. cbn [discard_word b_unusedW b_isUnusedW]. rewrite FW.
        intros Hne. destruct (HO Hne) as [O1 O2]. fold b in O1, O2.
        destruct (b_isUnusedW b) eqn:FB; [cbn in O2; lia|]. rewrite (X9 eq_refl). split; [exact O1|reflexivity].
      + apply XI_set_br. apply XI_restore; exact XC3.
      + destruct HK3 as (K1 & K2 & K3). split; [unfold wd; destruct w3; exact K1|]. split; [unfold wd; destruct w3; exact K2|]. rewrite D2. cbn. rewrite <- F3b. exact K3.
      + intros HRE. destruct (PU HRE) as ((U1 & U2 & _) & _). specialize (WS2 HRE). unfold WU.
        replace (w_st wd) with (w_st w3) by (unfold wd; destruct w3; reflexivity).
        replace (s_alt_adv (w_sc wd)) with (s_save_adv (w_sc w3)) by (unfold wd; destruct w3; reflexivity).
        rewrite D1, R1, Sf1, Sf2. split; [exact U1|]. split; [exact U2|exact WS2].
      + intros p Hp Hv. unfold wd in Hp. rewrite best_end_set_br, best_end_restore, BE3 in Hp. rewrite D2. unfold U. cbn [discard_word b_wpos b_isUnusedW]. left.
        destruct (NU p Hp Hv) as [Q1' Q2']. apply Q2'. intros ->.
        destruct (HBIr eq_refl) as [Q|Q].
        * rewrite Q3 in Q. pose proof (best_end_ge n w (proj1 HT)). lia.
        * apply Q. destruct HK as (K1 & K2 & _). rewrite (proj2 Cf2), K2. apply (CBall_sk st0); [rewrite St2; symmetry; exact K1|exact (proj2 Hv)].
      + rewrite (policy_never_cfg w3 wd); [exact Pol3|unfold wd; destruct w3; reflexivity].
      + intros _. rewrite D2. cbn. exact FW.
      + unfold wd. rewrite best_end_set_br, best_end_restore, BE3. fold wd. rewrite D3, R3, F3s, D2. cbn [discard_word b_wpos]. lia.
      + exact H. }
    replace (c_dir (w_cfg wd)) with (c_dir (w_cfg w)) in E by (rewrite <- F3c; unfold wd; destruct w3; reflexivity).
    rewrite D3, R3, F3s in E. exact E.
  - (* EndLine *) inversion H; subst w' d. intros Q; discriminate Q.
  - (* Truncated *)
    assert (Pt : policy_never (if has_best w3 then w3 else mark_best (restore w3) []) = true).
    { destruct (has_best w3); [exact Pol3|]. rewrite (policy_never_cfg w3); [exact Pol3|destruct w3; reflexivity]. }
    rewrite Pt in H. inversion H; subst w' d. intros Q; discriminate Q.
  - (* NewLineBeforeBreak *)
    assert (Pt : policy_never (set_br (restore w3) (mark_word_unused (w_br (restore w3)))) = true).
    { rewrite (policy_never_cfg w3); [exact Pol3|destruct w3; reflexivity]. }
    cbv zeta in H. rewrite Pt in H. cbn [orb] in H. rewrite R2, F3b in H. inversion H; subst w' d. intros _.
    destruct (set_br_proj (restore w3) (mark_word_unused b1)) as (U1 & U2 & U3 & U4 & U5).
    assert (BE5 : best_end (set_br (restore w3) (mark_word_unused b1)) = best_end w) by (rewrite best_end_set_br, best_end_restore; exact BE3).
    assert (Hhb : has_best w = true) by (rewrite <- HB3; apply PK1; reflexivity).
    destruct (C3 ltac:(discriminate)) as (C31 & C32 & C33).
    assert (Hlt : best_end w < b_wpos b1).
    { pose proof (HUb Hhb) as Fb. fold b in Fb. unfold wmeas in X6. rewrite FW, Fb in X6. cbn [b2z] in X6. lia. }
    split; [rewrite (has_best_same (restore w3)); [rewrite (has_best_same w3 (restore w3) R4); rewrite HB3; exact Hhb|exact U4]|].
    split.
    { intros p Hp Hv. rewrite BE5 in Hp. rewrite U2. destruct (NU p Hp Hv) as [N1 N2].
      destruct (Z.eq_dec p (fst opt + 1)) as [E|E].
      - right. cbn. split; [lia|reflexivity].
      - left. cbn. apply N2. exact E. }
    split; [rewrite U2; cbn; intros Q; discriminate Q|].
    intros _. rewrite BE5, U2. cbn [b_wpos mark_word_unused]. split; [exact Hlt|]. intros HRE. destruct (PU HRE) as [_ CW3].
    exists (s_alt (w_sc w3) ++ [cand]). split; [replace (b_wpos b1) with (fst opt + 1) by lia; rewrite <- F3s; exact C33|].
    split.
    + destruct XC3 as (_ & XA & _). destruct (Fin3 ltac:(discriminate)) as [FP _].
      destruct HK3 as (K1 & K2 & _). rewrite K2 in XA, FP.
      apply (Forall_PO_sk (w_st w3) st0 rs); [exact K1|]. apply Forall_app. split; [exact XA|constructor; [exact FP|constructor]].
    + pose proof (PW4 (or_intror eq_refl)) as W. pose proof (CW3 ltac:(discriminate)) as V. rewrite F3c in V. lia.
  - (* Fits *)
    destruct (Best1 ltac:(discriminate)) as (B1x & T4 & BE4).
    destruct (EndAt ltac:(discriminate)) as (E1 & E2 & E3).
    destruct (snd opt) eqn:Req.
    + inversion H; subst w' d. intros _. split; [apply has_best_mark|]. split; [apply NgM; discriminate|].
      split; [intros _; split; [exact E2|left; exact E3]|rewrite E1; intros Q; discriminate Q].
    + assert (E : PostN lc (c_dir (w_cfg (mark_best w3 [cand]))) (w_start (mark_best w3 [cand])) w' d).
      { apply (IH (mark_best w3 [cand]) lc w' d).
        + exact T4.
        + unfold OrdO. rewrite M1, M2, M3, F3b, FW. intros _. destruct (C3 ltac:(discriminate)) as (C31 & C32 & C33).
          destruct (chain_app_lend _ _ _ _ C33 C32) as [CL _]. split; [lia|reflexivity].
        + exact B1x.
        + destruct HK3 as (K1 & K2 & K3). split; [destruct w3; exact K1|]. split; [destruct w3; exact K2|]. rewrite M2. exact K3.
        + intros HRE. destruct (PU HRE) as [WU3 _]. unfold WU in *. destruct w3; exact WU3.
        + apply NgM; discriminate.
        + rewrite (policy_never_cfg w3); [exact Pol3|destruct w3; reflexivity].
        + intros _. exact E1.
        + rewrite E2. lia.
        + exact H. }
      replace (c_dir (w_cfg (mark_best w3 [cand]))) with (c_dir (w_cfg w)) in E by (rewrite <- F3c; destruct w3; reflexivity).
      rewrite M3, F3s in E. exact E.
  - (* CannotFit *)
    rewrite Pol3 in H. destruct (lc_truncating lc); inversion H; subst w' d; [intros Q; discriminate Q|]. intros _.
    destruct (EndAt ltac:(discriminate)) as (E1 & E2 & E3). destruct (Best1 ltac:(discriminate)) as (_ & _ & BE4).
    split; [apply has_best_mark|]. split; [apply NgM; discriminate|].
    split; [|rewrite E1; intros Q; discriminate Q].
    intros _. split; [exact E2|right]. intros p Hp Hv. rewrite BE4 in Hp.
    assert (Hnb : has_best w = false) by (rewrite <- HB3; apply PK2; reflexivity).
    destruct (NU p ltac:(rewrite (best_end_no_best w Hnb); lia) Hv) as [N1 _]. lia.
Qed.

End Greedy.

(* ---- one WrapNextLine call under policy Never --------------------------------------------------------------------- *)

Lemma pp_tail_fr : forall cfg w line done w' wl d', pp_tail cfg w line done = (w', wl, d') ->
  w_start w' = w_start w /\ w_runs w' = w_runs w /\ w_br w' = w_br w
  /\ (c_policy (w_cfg w) = c_policy cfg -> c_policy (w_cfg w') = c_policy cfg)
  /\ (d' = false -> done = false /\ wl_line wl = line).
Proof.
  intros cfg w line done w' wl d' H. unfold pp_tail in H.
  destruct (w_truncating w).
  - destruct (c_trunc cfg - 1 =? 0).
    + destruct ((0 <? b_n (w_br _) - w_start _) || c_cont cfg); cbv beta iota zeta in H; cbn [set_more] in H;
        injection H as E1 E2 E3; subst w' wl d'; destruct w; cbn; repeat split; auto; intros; discriminate.
    + cbv beta iota zeta in H. destruct (done || _) eqn:D; injection H as E1 E2 E3; subst w' wl d'; destruct w; cbn in *; repeat split; auto; try (intros; discriminate).
      apply orb_false_elim in D. tauto.
  - cbv beta iota zeta in H. destruct (done || _) eqn:D; injection H as E1 E2 E3; subst w' wl d'; destruct w; cbn in *; repeat split; auto; try (intros; discriminate).
    apply orb_false_elim in D. tauto.
Qed.

Lemma wnl_never : forall n attrs w mw w' wl d,
  HBI_t n -> CI n attrs w -> XB n w -> w_more w = true -> WI attrs w -> c_policy (w_cfg w) = 1 ->
  wrap_next_line w mw = Ok (w', wl, d) -> d = false ->
  c_policy (w_cfg w') = 1 /\ WI attrs w' /\ (exists l, wl_line wl = Some l)
  /\ (b_isUnusedW (w_br w') = false ->
        wl_next wl = b_wpos (w_br w')
        /\ (snd (b_unusedW (w_br w')) = true
            \/ forall p, w_start w < p < wl_next wl -> lbV attrs (w_st w) (w_runs w) p -> False))
  /\ (b_isUnusedW (w_br w') = true ->
        wl_next wl < b_wpos (w_br w')
        /\ (forall p, wl_next wl < p < b_wpos (w_br w') -> lbV attrs (w_st w) (w_runs w) p -> False)
        /\ (RE (w_st w) -> Rejected (w_st w) (w_runs w) mw (c_dir (w_cfg w)) (w_start w) (b_wpos (w_br w')))).
Proof.
  intros n attrs w mw w' wl d HBI HC HB Hm HWI Hpol H Hd. subst d.
  pose proof (wrap_next_line_safe n attrs w mw HC HB) as SF. rewrite H in SF. destruct SF as (_ & Sk' & Rn' & _).
  unfold wrap_next_line in H. rewrite Hm in H. cbn [negb] in H.
  destruct (CI_peek n attrs w HC) as (ci & run & PK). rewrite PK in H. cbn [negb] in H.
  destruct (CI_start_line n attrs w HC) as (T0 & O0 & A0 & N0 & Acc0).
  pose proof (XI_start_line n w HB) as X0.
  set (lc := mkLC _ _ _) in H.
  destruct (outer_loop _ (start_line w) lc) as [[w2 d2]| | |] eqn:OL; cbn [bind] in H; try discriminate.
  destruct (outer_loop_ok n _ _ _ _ _ (proj1 (proj1 T0)) OL) as [I2 O2].
  destruct O2 as (Oc & Ot & Os & Om & Or & On & Oa).
  assert (PN : PostN attrs (w_st w) (w_runs w) lc (c_dir (w_cfg (start_line w))) (w_start (start_line w)) w2 d2).
  { apply (outer_N n attrs (w_st w) (w_runs w) HBI (loop_fuel (start_line w)) (start_line w) lc w2 d2 T0 O0 X0); [| | | | | |exact OL].
    - split; [destruct w; reflexivity|]. split; [destruct w; reflexivity|exact A0].
    - intros HS. unfold RE in HS. unfold WU. destruct w; cbn. split; [exact HS|]. split; [apply st_le_refl|lia].
    - intros p Hp [Hv1 Hv2]. replace (w_br (start_line w)) with (w_br w) by (destruct w; reflexivity).
      apply HWI; [|exact Hv1|exact Hv2]. unfold best_end in Hp. replace (s_best (w_sc (start_line w))) with (@None (list out)) in Hp by (destruct w; reflexivity).
      replace (w_start (start_line w)) with (w_start w) in Hp by (destruct w; reflexivity). exact Hp.
    - unfold policy_never. replace (w_cfg (start_line w)) with (w_cfg w) by (destruct w; reflexivity). rewrite Hpol. reflexivity.
    - intros Q. destruct w; discriminate Q.
    - unfold best_end. destruct w; cbn. lia. }
  replace (w_cfg (start_line w)) with (w_cfg w) in * by (destruct w; reflexivity).
  replace (w_start (start_line w)) with (w_start w) in * by (destruct w; reflexivity).
  cbv beta iota zeta in H. rewrite post_process_split in H.
  destruct (pp_first w2 (s_best (w_sc w2))) as [w1 l1] eqn:PF.
  assert (HL : forall l, s_best (w_sc w2) = Some l -> chain (w_start w2) l (lend (w_start w2) l)).
  { intros l Hl. destruct I2 as (_ & _ & _ & _ & HBo). destruct (HBo l Hl) as [e He]. rewrite (lend_chain _ _ _ He). exact He. }
  destruct (pp_first_spec _ _ _ _ HL PF) as (F1 & F2 & F3 & F4 & F5 & F6 & F7 & F8 & F9 & F10).
  injection H as H. destruct (pp_tail_fr _ _ _ _ _ _ _ H) as (Ts & Tr & Tb & Tp & Td).
  destruct (pp_tail_W _ _ _ _ _ _ _ H) as (_ & Nx & _).
  destruct (Td eq_refl) as [Td1 Td2]. subst d2.
  destruct (PN eq_refl) as (Hhb & HNg & HA & HBp).
  unfold has_best in Hhb. destruct (s_best (w_sc w2)) as [l|] eqn:EB; [|discriminate].
  destruct F10 as (l' & -> & _).
  assert (BE : best_end w2 = wl_next wl) by (unfold best_end; rewrite EB, Nx, F9; reflexivity).
  assert (Br : w_br w' = w_br w2) by (rewrite Tb; exact F8).
  unfold Ng in HNg. rewrite BE in *. rewrite Br.
  split; [rewrite Tp; [rewrite Oc; exact Hpol|rewrite F1; reflexivity]|].
  split.
  { intros p Hp Hl Hcb. rewrite Br. apply HNg; [rewrite Nx, <- Ts; exact Hp|].
    split; [exact Hl|]. rewrite Rn' in Hcb. apply (CBall_sk (w_st w')); [exact Sk'|exact Hcb]. }
  split; [eauto|]. split; [exact HA|].
  intros Hu. destruct (HBp Hu) as [B1 B2]. split; [exact B1|]. split; [|exact B2].
  intros p Hp Hv. destruct (HNg p ltac:(lia) Hv) as [Q|[Q _]]; lia.
Qed.

(* ---- any sequence of calls under policy Never: WI is an invariant ------------------------------------------------- *)

Lemma run_calls_never : forall n attrs widths w wk rs,
  HBI_t n -> CI n attrs w -> w_more w = true -> XB n w -> WI attrs w -> c_policy (w_cfg w) = 1 ->
  run_calls w widths = Ok (wk, rs) -> w_more wk = true ->
  WI attrs wk /\ c_policy (w_cfg wk) = 1.
Proof.
  intros n attrs. induction widths as [|mw rest IH]; intros w wk rs HBI HC Hm HB HW HP H Hk; cbn [run_calls] in H.
  - inversion H; subst. auto.
  - pose proof (wrap_next_line_safe n attrs w mw HC HB) as SF.
    destruct (wrap_next_line w mw) as [[[w1 wl] d]| | |] eqn:WN; cbn [bind] in H; try discriminate.
    destruct (run_calls w1 rest) as [[w2 r2]| | |] eqn:R; cbn [bind fst snd] in H; try discriminate.
    injection H as <- _. destruct SF as (XB1 & _).
    destruct (wrap_next_line_J n attrs w mw w1 wl d HC Hm WN) as (_ & _ & _ & Jf & Jt).
    destruct d.
    + destruct (Jt eq_refl) as [M1 _]. pose proof (run_calls_dead _ _ _ _ M1 R). congruence.
    + destruct (Jf eq_refl) as (C1 & M1 & _).
      destruct (wnl_never n attrs w mw w1 wl false HBI HC HB Hm HW HP WN eq_refl) as (P1 & W1 & _).
      eapply IH; eauto.
Qed.

Lemma Forall_PO_forallb : forall st rs l, Forall (PO st rs) l -> forallb (piece_ok st rs) l = true.
Proof. intros st rs l H. apply forallb_forall. rewrite Forall_forall in H. exact H. Qed.

Lemma Rejected_too_wide : forall st rs mw pdir s q, Rejected st rs mw pdir s q -> extended_line_too_wide st rs pdir s q mw.
Proof.
  intros st rs mw pdir s q (l & C & P & M). exists l. split; [exact C|]. split; [apply Forall_PO_forallb; exact P|].
  rewrite line_measure_eq.
  assert (T : text_runs (-1) l = l).
  { apply text_runs_all. eapply Forall_impl; [|exact P]. intros r Hr. apply PO_src in Hr. lia. }
  rewrite T. exact M.
Qed.

(* the statements over calls *)
Lemma never_reach : forall n w cfg attrs runs widths wk rs,
  wf_runs (w_st w) runs n = true -> zlen attrs - 1 = n -> 1 <= n -> c_policy cfg = 1 ->
  run_calls (prepare w cfg attrs runs 0 0) widths = Ok (wk, rs) -> w_more wk = true ->
  CI n attrs wk /\ XB n wk /\ w_runs wk = runs /\ WI attrs wk /\ c_policy (w_cfg wk) = 1.
Proof.
  intros n w cfg attrs runs widths wk rs HW Ha Hn Hp RC Hk.
  pose proof (CI_prepare n w cfg attrs runs (wf_runs_ok _ _ _ HW) Ha Hn) as C0.
  pose proof (XB_prepare n w cfg attrs runs HW) as B0.
  destruct (run_calls_reach n attrs widths _ wk rs C0 eq_refl B0 RC Hk) as (C & B & R).
  destruct (run_calls_never n attrs widths _ wk rs (HBI_all n) C0 eq_refl B0 (WI_prepare attrs w cfg runs) Hp RC Hk) as [WIk Pk].
  change (w_runs (prepare w cfg attrs runs 0 0)) with runs in R. auto.
Qed.

Lemma width_bound_never_calls : forall n w cfg attrs runs widths wk rs mw w' wl d line,
  wf_runs (w_st w) runs n = true -> zlen attrs - 1 = n -> 1 <= n -> c_policy cfg = 1 ->
  run_calls (prepare w cfg attrs runs 0 0) widths = Ok (wk, rs) -> w_more wk = true ->
  zlen runs <= o_src (c_truncator (w_cfg wk)) ->
  nonneg_adv (w_st wk) = true ->
  wrap_next_line wk mw = Ok (w', wl, d) -> wl_line wl = Some line ->
  let tsrc := o_src (c_truncator (w_cfg wk)) in
  let m := ceil26 (line_measure (w_st w') tsrc (c_dir (w_cfg wk)) line) in
  (has_truncator tsrc line = true -> w_start wk = wl_next wl \/ m <= mw - ceil26 (o_adv (c_truncator (w_cfg wk))))
  /\ (has_truncator tsrc line = false -> m <= mw \/ single_unit attrs (w_st wk) runs n 1 (w_start wk) (wl_next wl) = true).
Proof.
  intros n w cfg attrs runs widths wk rs mw w' wl d line HW Ha Hn Hp RC Hk Hts Hnn WN Hl.
  destruct (never_reach n w cfg attrs runs widths wk rs HW Ha Hn Hp RC Hk) as (C & B & R & WIk & Pk).
  pose proof (width_bound_calls_all n w cfg attrs runs widths wk rs mw w' wl d line HW Ha Hn RC Hk Hts Hnn WN Hl) as Q.
  unfold width_bound_stmt in Q. cbv zeta in Q. rewrite Pk in Q. exact Q.
Qed.

Lemma greedy_never_calls : forall n w cfg attrs runs widths wk rs mw w' wl,
  wf_runs (w_st w) runs n = true -> zlen attrs - 1 = n -> 1 <= n -> c_policy cfg = 1 ->
  run_calls (prepare w cfg attrs runs 0 0) widths = Ok (wk, rs) -> w_more wk = true ->
  nonneg_adv (w_st wk) = true ->
  wrap_next_line wk mw = Ok (w', wl, false) ->
  (exists line, wl_line wl = Some line)
  /\ greedy_never_stmt attrs (w_st wk) runs (c_dir (w_cfg wk)) (w_start wk) (wl_next wl) mw
       (b_isUnusedW (w_br w')) (b_wpos (w_br w')) (snd (b_unusedW (w_br w'))).
Proof.
  intros n w cfg attrs runs widths wk rs mw w' wl HW Ha Hn Hp RC Hk Hnn WN.
  destruct (never_reach n w cfg attrs runs widths wk rs HW Ha Hn Hp RC Hk) as (C & B & R & WIk & Pk).
  destruct (wnl_never n attrs wk mw w' wl false (HBI_all n) C B Hk WIk Pk WN eq_refl) as (_ & _ & HL & HA & HB).
  rewrite R in HA, HB. split; [exact HL|].
  assert (V : forall p, valid_line_break attrs (w_st wk) runs p -> lbV attrs (w_st wk) runs p).
  { intros p [V1 V2]. split; [exact V1|]. destruct B as (BW & _). rewrite R in BW. eapply cluster_boundary_CBall; eauto. }
  unfold greedy_never_stmt. split.
  - intros Hu. destruct (HA Hu) as [A1 A2]. split; [exact A1|]. destruct A2 as [A2|A2]; [left; exact A2|right].
    intros p Hp' Hv. exact (A2 p Hp' (V p Hv)).
  - intros Hu. destruct (HB Hu) as (B1 & B2 & B3). split; [exact B1|]. split; [intros p Hp' Hv; exact (B2 p Hp' (V p Hv))|].
    apply Rejected_too_wide. apply B3. apply nonneg_SG; exact Hnn.
Qed.

(* ---- under policy Never no call returns a nil line while the wrapper stays live (the pattern of F37) -------------- *)

Lemma run_calls_nln : forall n attrs widths w wk rs, HBI_t n ->
  (w_more w = true -> CI n attrs w /\ XB n w /\ WI attrs w /\ c_policy (w_cfg w) = 1) ->
  run_calls w widths = Ok (wk, rs) -> no_live_nil rs = true.
Proof.
  intros n attrs. induction widths as [|mw rest IH]; intros w wk rs HBI HS H; cbn [run_calls] in H.
  - inversion H; subst. reflexivity.
  - destruct (wrap_next_line w mw) as [[[w1 wl] d]| | |] eqn:WN; cbn [bind] in H; try discriminate.
    destruct (run_calls w1 rest) as [[w2 r2]| | |] eqn:R; cbn [bind fst snd] in H; try discriminate.
    injection H as _ <-. unfold no_live_nil. cbn [forallb fst snd]. apply andb_true_intro.
    destruct (w_more w) eqn:Hm.
    + destruct (HS eq_refl) as (HC & HB & HW & HP).
      pose proof (wrap_next_line_safe n attrs w mw HC HB) as SF. rewrite WN in SF. destruct SF as (XB1 & _).
      destruct (wrap_next_line_J n attrs w mw w1 wl d HC Hm WN) as (_ & _ & _ & Jf & Jt).
      destruct d.
      * split; [destruct (wl_line wl); reflexivity|]. destruct (Jt eq_refl) as [M1 _].
        change (no_live_nil r2 = true). apply (IH w1 w2 r2 HBI); [intros Q; congruence|exact R].
      * destruct (Jf eq_refl) as (C1 & M1 & _).
        destruct (wnl_never n attrs w mw w1 wl false HBI HC HB Hm HW HP WN eq_refl) as (P1 & W1 & (l & Hl) & _).
        split; [rewrite Hl; reflexivity|]. change (no_live_nil r2 = true). apply (IH w1 w2 r2 HBI); [intros _; auto|exact R].
    + unfold wrap_next_line in WN. rewrite Hm in WN. cbn [negb] in WN. injection WN as <- <- <-.
      split; [reflexivity|]. change (no_live_nil r2 = true). apply (IH w w2 r2 HBI); [intros Q; congruence|exact R].
Qed.

Lemma mandatory_lines_never : forall n w cfg attrs runs widths w' rs,
  wf_runs (w_st w) runs n = true -> zlen attrs - 1 = n -> 1 <= n -> c_policy cfg = 1 ->
  run_calls (prepare w cfg attrs runs 0 0) widths = Ok (w', rs) ->
  no_live_nil rs = true /\ mand_ok (valid_mandatory attrs (w_st w) runs) 0 rs.
Proof.
  intros n w cfg attrs runs widths w' rs HW Ha Hn Hp RC.
  assert (NL : no_live_nil rs = true).
  { apply (run_calls_nln n attrs widths (prepare w cfg attrs runs 0 0) w' rs (HBI_all n)); [|exact RC]. intros _.
    split; [apply CI_prepare; [exact (wf_runs_ok _ _ _ HW)|exact Ha|exact Hn]|].
    split; [apply XB_prepare; exact HW|]. split; [apply WI_prepare|exact Hp]. }
  split; [exact NL|]. eapply mandatory_lines_all; eauto.
Qed.
