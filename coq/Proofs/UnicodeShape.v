(* Lemmas for the second part of C20: script tags, vertical orientation, the shaper's general category,
   Arabic joining, Indic/USE categories, modified combining classes. *)
From Coq Require Import Sorting.Permutation.
From TV Require Import Lib.GoNum Lib.Res Lib.Bytes Model.Unicode Model.Lang Spec.Unicode Proofs.Unicode Proofs.Decomp.
From TV Require Import Model.UnicodeShape Spec.UnicodeShape.

Ltac Zify.zify_post_hook ::= Z.div_mod_to_equations.

(* ============================================================================================== *)
(* 1. ParseScript / Script.String *)

Lemma land_zero_bits a b : Z.land a b = 0 -> forall n, Z.testbit a n && Z.testbit b n = false.
Proof. intros H n. rewrite <- Z.land_spec, H. apply Z.bits_0. Qed.
Lemma land_eq_bits a b : Z.land a b = b -> forall n, Z.testbit b n = true -> Z.testbit a n = true.
Proof.
  intros H n Hb. assert (E : Z.testbit (Z.land a b) n = true) by (rewrite H; exact Hb).
  rewrite Z.land_spec in E. apply andb_prop in E. tauto.
Qed.

Lemma nm_mask_disjoint : Z.land script_not_mask script_mask = 0. Proof. reflexivity. Qed.
Lemma lower_mask_disjoint : Z.land script_lower script_mask = 0. Proof. reflexivity. Qed.
Lemma lower_in_nm : Z.land script_not_mask script_lower = script_lower. Proof. reflexivity. Qed.
Lemma nm_or_mask : Z.lor script_not_mask script_mask = 4294967295. Proof. reflexivity. Qed.

Lemma script_normalise_idem v : script_normalise (script_normalise v) = script_normalise v.
Proof.
  unfold script_normalise. apply Z.bits_inj'. intros n _.
  rewrite !Z.lor_spec, !Z.land_spec, !Z.lor_spec, !Z.land_spec.
  destruct (Z.testbit v n), (Z.testbit script_not_mask n), (Z.testbit script_lower n); reflexivity.
Qed.

Lemma script_normalise_normal v : script_normal (script_normalise v) = true.
Proof.
  unfold script_normal, script_normalise. apply andb_true_intro. split; apply Z.eqb_eq.
  - apply Z.bits_inj'. intros n _. rewrite Z.bits_0, Z.land_spec, Z.lor_spec, Z.land_spec.
    pose proof (land_zero_bits _ _ nm_mask_disjoint n). pose proof (land_zero_bits _ _ lower_mask_disjoint n).
    destruct (Z.testbit v n), (Z.testbit script_not_mask n), (Z.testbit script_lower n), (Z.testbit script_mask n);
      cbn in *; congruence.
  - apply Z.bits_inj'. intros n _. rewrite Z.land_spec, Z.lor_spec, Z.land_spec.
    destruct (Z.testbit v n), (Z.testbit script_not_mask n), (Z.testbit script_lower n); reflexivity.
Qed.

Lemma script_normalise_fix s : is_u32 s -> script_normal s = true -> script_normalise s = s.
Proof.
  unfold is_u32, script_normal, script_normalise. intros Hs H. apply andb_prop in H as [H1 H2].
  apply Z.eqb_eq in H1, H2.
  assert (Hs32 : Z.land s 4294967295 = s).
  { change 4294967295 with (Z.ones 32). rewrite Z.land_ones by lia. apply Z.mod_small. lia. }
  apply Z.bits_inj'. intros n _. rewrite Z.lor_spec, Z.land_spec.
  pose proof (land_zero_bits _ _ H1 n) as Hm.
  assert (Hl : Z.testbit script_lower n = true -> Z.testbit s n = true) by (apply land_eq_bits; exact H2).
  assert (Hall : Z.testbit s n = true -> Z.testbit script_not_mask n || Z.testbit script_mask n = true).
  { intro Hb. rewrite <- Z.lor_spec, nm_or_mask. rewrite <- Hs32, Z.land_spec in Hb. apply andb_prop in Hb. exact (proj2 Hb). }
  destruct (Z.testbit s n), (Z.testbit script_not_mask n), (Z.testbit script_lower n), (Z.testbit script_mask n);
    cbn in *; try reflexivity; try congruence; try (specialize (Hl eq_refl); congruence); specialize (Hall eq_refl); congruence.
Qed.

(* x < 2^n for non-negative x all of whose bits from n on are clear *)
Lemma lt_pow2_of_bits x n : 0 <= n -> 0 <= x -> (forall m, n <= m -> Z.testbit x m = false) -> x < 2 ^ n.
Proof.
  intros Hn Hx Hb. destruct (Z.eq_dec x 0) as [->|Hne]; [apply Z.pow_pos_nonneg; lia|].
  apply Z.log2_lt_pow2; [lia|]. destruct (Z_lt_dec (Z.log2 x) n) as [|Hge]; [assumption|].
  specialize (Hb (Z.log2 x) ltac:(lia)). rewrite Z.bit_log2 in Hb by lia. discriminate.
Qed.
Lemma bits_above_pow2 x n m : 0 <= x < 2 ^ n -> n <= m -> Z.testbit x m = false.
Proof.
  intros Hx Hm. destruct (Z.eq_dec x 0) as [->|Hne]; [apply Z.bits_0|].
  apply Z.bits_above_log2; [lia|]. assert (Z.log2 x < n) by (apply Z.log2_lt_pow2; lia). lia.
Qed.

Lemma script_normalise_range v : 0 <= v -> is_u32 (script_normalise v).
Proof.
  intro Hv. unfold is_u32, script_normalise. split.
  - apply Z.lor_nonneg. split; [apply Z.land_nonneg; left; exact Hv|unfold script_lower; lia].
  - change 4294967296 with (2 ^ 32). apply lt_pow2_of_bits; [lia| |].
    + apply Z.lor_nonneg. split; [apply Z.land_nonneg; left; exact Hv|unfold script_lower; lia].
    + intros m Hm. rewrite Z.lor_spec, Z.land_spec.
      rewrite (bits_above_pow2 script_not_mask 32 m) by (unfold script_not_mask, script_mask; lia).
      rewrite (bits_above_pow2 script_lower 32 m) by (unfold script_lower; lia).
      rewrite andb_false_r. reflexivity.
Qed.

Lemma parse_script_total_lemma s :
  (zlen s < 4 -> parse_script s = Err 1) /\ (4 <= zlen s -> exists v, parse_script s = Ok v).
Proof.
  unfold parse_script. split; intro H.
  - replace (zlen s <? 4) with true by (symmetry; apply Z.ltb_lt; lia). reflexivity.
  - replace (zlen s <? 4) with false by (symmetry; apply Z.ltb_ge; lia). eexists; reflexivity.
Qed.

Lemma parse_script_string s : is_u32 s -> parse_script (script_string s) = Ok (script_normalise s).
Proof.
  intro Hs. unfold parse_script, script_string. rewrite zlen_put32. cbn [Z.ltb Z.compare].
  rewrite get32_put32 by exact Hs. reflexivity.
Qed.

Lemma script_roundtrip_lemma s : is_u32 s -> script_normal s = true -> parse_script (script_string s) = Ok s.
Proof. intros Hs Hn. rewrite parse_script_string by exact Hs. rewrite script_normalise_fix by assumption. reflexivity. Qed.

Lemma get32_nonneg s : Forall (fun b => 0 <= b) s -> 0 <= get32 s.
Proof.
  intro H. unfold get32. destruct s as [|a [|b [|c [|d r]]]]; try lia.
  inversion H as [|? ? Ha T1]; inversion T1 as [|? ? Hb T2]; inversion T2 as [|? ? Hc T3]; inversion T3 as [|? ? Hd _]. lia.
Qed.

Lemma parse_script_canonical s v : Forall (fun b => 0 <= b) s -> parse_script s = Ok v ->
  is_u32 v /\ script_normal v = true /\ parse_script (script_string v) = Ok v.
Proof.
  intros Hb H. unfold parse_script in H. destruct (zlen s <? 4); [discriminate|]. inversion H; subst v. clear H.
  pose proof (script_normalise_range (get32 s) (get32_nonneg s Hb)) as Hr.
  split; [exact Hr|]. split; [apply script_normalise_normal|].
  apply script_roundtrip_lemma; [exact Hr|apply script_normalise_normal].
Qed.

(* the tables: every Script constant is a uint32 in normal form; every script used by a table is a constant *)
Definition script_consts_ok : bool :=
  forallb (fun s => (0 <=? s) && (s <? 4294967296) && script_normal s) script_consts.
Lemma script_consts_ok_true : script_consts_ok = true. Proof. vm_cast_no_check (eq_refl true). Qed.

Lemma script_const_roundtrip s : is_script_const s = true -> parse_script (script_string s) = Ok s.
Proof.
  unfold is_script_const. intro H. apply existsb_exists in H as [x [Hin Hx]]. apply Z.eqb_eq in Hx. subst x.
  pose proof script_consts_ok_true as Hok. unfold script_consts_ok in Hok. rewrite forallb_forall in Hok.
  specialize (Hok s Hin). apply andb_prop in Hok as [Hok Hn]. apply andb_prop in Hok as [H1 H2].
  apply Z.leb_le in H1. apply Z.ltb_lt in H2. apply script_roundtrip_lemma; [unfold is_u32; lia|exact Hn].
Qed.

Definition table_scripts_ok : bool :=
  forallb (fun e => is_script_const (snd e)) ScriptRanges
  && is_script_const script_Unknown && is_script_const script_Common && is_script_const script_Inherited
  && forallb (fun e => let '(a, b, c) := snd e in
                       ((a =? 0) || is_script_const a) && ((b =? 0) || is_script_const b) && ((c =? 0) || is_script_const c)) languagesInfos
  && forallb (fun e => is_script_const (vo_script e)) vo_table.
Lemma table_scripts_ok_true : table_scripts_ok = true. Proof. vm_cast_no_check (eq_refl true). Qed.

Lemma script_scan_is_const t r : forallb (fun e => is_script_const (snd e)) t = true -> is_script_const script_Unknown = true ->
  is_script_const (script_scan t r) = true.
Proof.
  intros Ht Hu. unfold script_scan. destruct (find (fun e => in_script_range e r) t) as [e|] eqn:E; [|exact Hu].
  apply find_some in E as [Hin _]. rewrite forallb_forall in Ht. exact (Ht e Hin).
Qed.

Lemma lookup_script_is_const r : exists s, lookup_script r = Ok s /\ is_script_const s = true /\ parse_script (script_string s) = Ok s.
Proof.
  exists (script_scan ScriptRanges r). split; [apply lookup_script_eq_linear_scan_lemma|].
  pose proof table_scripts_ok_true as H. unfold table_scripts_ok in H.
  repeat (apply andb_prop in H as [H ?]).
  assert (Hc : is_script_const (script_scan ScriptRanges r) = true) by (apply script_scan_is_const; assumption).
  split; [exact Hc|apply script_const_roundtrip; exact Hc].
Qed.

(* ============================================================================================== *)
(* 2. keyed tables with pairwise distinct keys: the first match is the only match, in any order *)

Fixpoint distinctb (l : list Z) : bool :=
  match l with [] => true | x :: r => negb (existsb (Z.eqb x) r) && distinctb r end.
Lemma distinctb_NoDup l : distinctb l = true -> NoDup l.
Proof.
  induction l as [|x r IH]; intro H; [constructor|]. cbn [distinctb] in H. apply andb_prop in H as [H1 H2].
  constructor; [|apply IH; exact H2]. intro Hin. apply negb_true_iff in H1.
  assert (existsb (Z.eqb x) r = true) by (apply existsb_exists; exists x; split; [exact Hin|apply Z.eqb_refl]). congruence.
Qed.

Section Keyed.
  Context {A : Type} (key : A -> Z).
  Definition find_key (l : list A) (k : Z) : option A := find (fun e => key e =? k) l.

  Lemma key_unique l : NoDup (map key l) -> forall x y, In x l -> In y l -> key x = key y -> x = y.
  Proof.
    induction l as [|e l IH]; intros Hnd x y Hx Hy Hk; [contradiction|].
    cbn [map] in Hnd. inversion Hnd as [|? ? Hnot Hnd']; subst.
    destruct Hx as [->|Hx]; destruct Hy as [->|Hy].
    - reflexivity.
    - exfalso. apply Hnot. rewrite Hk. apply in_map. exact Hy.
    - exfalso. apply Hnot. rewrite <- Hk. apply in_map. exact Hx.
    - apply IH; assumption.
  Qed.

  Lemma find_key_perm l l' k : NoDup (map key l) -> Permutation l l' -> find_key l' k = find_key l k.
  Proof.
    intros Hnd HP. unfold find_key.
    destruct (find (fun e => key e =? k) l) as [x|] eqn:E1; destruct (find (fun e => key e =? k) l') as [y|] eqn:E2; try reflexivity.
    - apply find_some in E1 as [Hx Kx]. apply find_some in E2 as [Hy Ky]. apply Z.eqb_eq in Kx, Ky.
      f_equal. apply (key_unique l Hnd); [eapply Permutation_in; [apply Permutation_sym; exact HP|exact Hy]|exact Hx|congruence].
    - apply find_some in E1 as [Hx Kx]. pose proof (find_none _ _ E2 x (Permutation_in _ HP Hx)). cbn in H. congruence.
    - apply find_some in E2 as [Hy Ky]. pose proof (find_none _ _ E1 y (Permutation_in _ (Permutation_sym HP) Hy)). cbn in H. congruence.
  Qed.

  (* at most one entry per key *)
  Lemma filter_key_le1 l k : NoDup (map key l) -> (length (filter (fun e => (key e =? k)%Z) l) <= 1)%nat.
  Proof.
    induction l as [|e l IH]; intro Hnd; [cbn; lia|]. cbn [map] in Hnd. inversion Hnd as [|? ? Hnot Hnd']; subst.
    cbn [filter]. destruct (key e =? k) eqn:E; [|apply IH; exact Hnd'].
    apply Z.eqb_eq in E. cbn [length].
    replace (filter (fun e0 => key e0 =? k) l) with (@nil A); [cbn; lia|].
    symmetry. destruct (filter (fun e0 => key e0 =? k) l) as [|y r] eqn:F; [reflexivity|].
    exfalso. assert (Hy : In y (filter (fun e0 => key e0 =? k) l)) by (rewrite F; left; reflexivity).
    apply filter_In in Hy as [Hy Ky]. apply Z.eqb_eq in Ky. apply Hnot. rewrite E, <- Ky. apply in_map. exact Hy.
  Qed.
End Keyed.

(* ============================================================================================== *)
(* 3. vertical orientation *)

Lemma lookup_vo_in_find t s :
  lookup_vo_in t s = match vo_find t s with Some e => e | None => (s, true, None) end.
Proof.
  induction t as [|e t IH]; [reflexivity|]. unfold vo_find in *. cbn [lookup_vo_in find].
  destruct (vo_script e =? s); [reflexivity|exact IH].
Qed.

Definition vo_table_ok : bool :=
  distinctb (map vo_script vo_table)
  && forallb (fun e => match vo_exc e with Some t => table_ok t | None => true end) vo_table.
Lemma vo_table_ok_true : vo_table_ok = true. Proof. vm_compute. reflexivity. Qed.

Lemma vo_scripts_nodup : NoDup (map vo_script vo_table).
Proof. pose proof vo_table_ok_true as H. unfold vo_table_ok in H. apply andb_prop in H as [H _]. apply distinctb_NoDup. exact H. Qed.

Lemma vo_lookup_order_independent : forall t' s, Permutation vo_table t' -> lookup_vo_in t' s = lookup_vo s.
Proof.
  intros t' s HP. unfold lookup_vo. rewrite !lookup_vo_in_find. unfold vo_find.
  change (find (fun e => vo_script e =? s) t') with (find_key vo_script t' s).
  rewrite (find_key_perm vo_script vo_table t' s vo_scripts_nodup HP). reflexivity.
Qed.

Lemma vo_entries_le1 s : (length (filter (fun e => (vo_script e =? s)%Z) vo_table) <= 1)%nat.
Proof. apply filter_key_le1. exact vo_scripts_nodup. Qed.

Lemma vo_lookup_cases s :
  (exists e, In e vo_table /\ vo_script e = s /\ lookup_vo s = e)
  \/ ((forall e, In e vo_table -> vo_script e <> s) /\ lookup_vo s = (s, true, None)).
Proof.
  unfold lookup_vo. rewrite lookup_vo_in_find. unfold vo_find.
  destruct (find (fun e => vo_script e =? s) vo_table) as [e|] eqn:E.
  - left. apply find_some in E as [Hin Hk]. apply Z.eqb_eq in Hk. exists e. tauto.
  - right. split; [|reflexivity]. intros e Hin Hk. pose proof (find_none _ _ E e Hin) as H. cbn in H.
    apply Z.eqb_neq in H. contradiction.
Qed.

Lemma vo_orientation_spec s r : is_rune r -> vo_orientation (lookup_vo s) r = Ok (vo_sideways_spec s r).
Proof.
  intro Hr. unfold vo_sideways_spec, lookup_vo. rewrite lookup_vo_in_find.
  destruct (vo_find vo_table s) as [e|] eqn:E; [|reflexivity].
  unfold vo_find in E. apply find_some in E as [Hin _].
  pose proof vo_table_ok_true as H. unfold vo_table_ok in H. apply andb_prop in H as [_ H].
  rewrite forallb_forall in H. specialize (H e Hin).
  unfold vo_orientation, mem_opt. destruct (vo_exc e) as [t|]; [|rewrite xorb_false_r; reflexivity].
  rewrite (unicode_is_mem t r H Hr). cbn [bind]. destruct (mem t r), (vo_main e); reflexivity.
Qed.

(* the exceptions of a script are code points of that script (ScriptRanges) *)
Definition ivs_in_script (ivs : list (Z * Z)) (s : Z) : bool :=
  forallb (fun iv => existsb (fun e => (e_lo e <=? fst iv) && (snd iv <=? e_hi e) && (snd e =? s)) ScriptRanges) ivs.
Definition vo_exceptions_in_script : bool :=
  forallb (fun e => match vo_exc e with Some t => ivs_in_script (intervals_of t) (vo_script e) | None => true end) vo_table.
Lemma vo_exceptions_in_script_true : vo_exceptions_in_script = true. Proof. vm_compute. reflexivity. Qed.

Lemma script_scan_of_cover x r : In x ScriptRanges -> covers x r = true -> script_scan ScriptRanges r = snd x.
Proof.
  intros Hin Hc. unfold script_scan.
  destruct (find (fun e => in_script_range e r) ScriptRanges) as [y|] eqn:E.
  - apply find_some in E as [Hy Cy].
    rewrite (sorted_cover_unique ScriptRanges r (sorted_disjoint_sound _ script_ranges_sorted) x y Hin Hy Hc Cy). reflexivity.
  - pose proof (find_none _ _ E x Hin) as H. cbn in H. unfold in_script_range, covers in *. congruence.
Qed.

Lemma vo_exception_script e r : In e vo_table -> mem_opt (vo_exc e) r = true -> script_scan ScriptRanges r = vo_script e.
Proof.
  intros Hin Hm. pose proof vo_exceptions_in_script_true as H. unfold vo_exceptions_in_script in H.
  rewrite forallb_forall in H. specialize (H e Hin).
  pose proof vo_table_ok_true as Hok. unfold vo_table_ok in Hok. apply andb_prop in Hok as [_ Hok].
  rewrite forallb_forall in Hok. specialize (Hok e Hin).
  unfold mem_opt in Hm. destruct (vo_exc e) as [t|]; [|discriminate].
  apply table_ok_sound in Hok as [_ [F _]].
  destruct (mem_intervals t r F Hm) as [iv [Hiv Hr]].
  unfold ivs_in_script in H. rewrite forallb_forall in H. specialize (H iv Hiv).
  apply existsb_exists in H as [x [Hx Hw]]. apply andb_prop in Hw as [Hw Hs]. apply andb_prop in Hw as [W1 W2].
  apply Z.eqb_eq in Hs. rewrite <- Hs. apply script_scan_of_cover; [exact Hx|].
  unfold in_iv in Hr. apply andb_prop in Hr as [R1 R2]. apply Z.leb_le in W1, W2, R1, R2.
  unfold covers. apply andb_true_intro; split; apply Z.leb_le; lia.
Qed.

