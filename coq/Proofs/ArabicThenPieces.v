(* C18: Arabic joining FIRST, then any engine of the modelled pieces — the order of the shaper (the joining decisions are
   taken on the code points before any lookup runs; GSUB, GPOS and the legacy kerning follow).  The joining pass reads the
   context (psumL / psumR : option nat), the pieces do not: a pass without context is lifted to any summary type, and
   nothing a later pass does can disturb what the joining pass has read, because it has finished.  Hence the engine
   arab_pass :: pieces is well formed and cut-safe, with the REAL neighbouring text as context of the pieces. *)
From TV Require Import Model.ArabicJoin Model.KernMachine Model.MarkBase Model.GsubLig Model.PairPos Spec.LocalEngine.
From TV Require Import Proofs.LocalEngine Proofs.EngineItem Proofs.KernMachine Proofs.MarkBase Proofs.GsubLig.
From TV Require Import Proofs.EnginePieces Proofs.PairPos Proofs.EnginePieces2 Proofs.ArabicJoin.

(* ---- a pass that does not read the context, under any summary type ---- *)
Section Lift.
Context {A C : Type}.
Variable icl : A -> Z.
Variable iutb : A -> bool.
Variable side : Z -> Z -> bool.
Variable Inv : list A -> Prop.
Variable c0 : C.

Definition lift_pass (p : @pass A unit) : @pass A C := mkPass (pstep p) (fun _ => c0) (fun _ => c0).

Lemma lift_step_ok p : step_ok icl iutb side Inv p -> step_ok icl iutb side Inv (lift_pass p).
Proof.
  intros [H1 H2 H3 H4 H5 H6]. constructor; cbn [pstep lift_pass psumL psumR].
  - exact H1.
  - exact H2.
  - exact H3.
  - exact H4.
  - intros L R R' d t1 t2 c Hne HI HI1 HC _. apply H5; try assumption. destruct (psumR p (R' ++ R)), (psumR p (t2 ++ R)). reflexivity.
  - intros L L' R d1 d2 t c Hne HI HI2 HC _. apply H6; try assumption. destruct (psumL p (L ++ L')), (psumL p (L ++ d1)). reflexivity.
Qed.

Lemma lift_stable (q : @pass A C) p : stable Inv q (lift_pass p).
Proof. intros L R d t _ _. split; intros X; reflexivity. Qed.

Lemma lift_wf (ps : list (@pass A unit)) : Forall (step_ok icl iutb side Inv) ps ->
  wf_engine icl iutb side Inv (map lift_pass ps).
Proof.
  induction ps as [|p r IH]; intros H; [exact I|]. inversion H as [|? ? Hp Hr]; subst. cbn [map wf_engine].
  split; [apply lift_step_ok; exact Hp|]. split; [|apply IH; exact Hr].
  apply Forall_forall. intros q Hq. destruct Hq as [<-|Hq]; [apply lift_stable|].
  apply in_map_iff in Hq. destruct Hq as (p' & <- & _). apply lift_stable.
Qed.
End Lift.

(* ---- the joining pass keeps the glyphProps ---- *)
Lemma set_act_gp a x : gp (ig (set_act a x)) = gp (ig x).
Proof. reflexivity. Qed.

Lemma arab_step_gp L R d x rest y :
  In y (fst (arab_step L R d (x :: rest)) ++ snd (arab_step L R d (x :: rest))) ->
  exists z, In z (d ++ x :: rest) /\ gp (ig y) = gp (ig z).
Proof.
  cbn [arab_step].
  assert (Plain : forall a, In y ((d ++ [set_act a x]) ++ rest) -> exists z, In z (d ++ x :: rest) /\ gp (ig y) = gp (ig z)).
  { intros a H. rewrite <- app_assoc in H. apply in_app_or in H. destruct H as [H|[<-|H]].
    - exists y. split; [apply in_or_app; left; exact H|reflexivity].
    - exists x. split; [apply in_or_app; right; left; reflexivity|apply set_act_gp].
    - exists y. split; [apply in_or_app; right; right; exact H|reflexivity]. }
  destruct (is_T x); [apply Plain|].
  destruct (first_jt (rest ++ R)) as [ty'|]; [|apply Plain].
  destruct (_ =? aNone); [apply Plain|]. cbn [fst snd].
  set (k := upto_letter rest). set (pa := e_prev _).
  intros H. rewrite <- app_assoc in H. apply in_app_or in H. destruct H as [H|H].
  { exists y. split; [apply in_or_app; left; exact H|reflexivity]. }
  rewrite app_assoc in H. apply in_app_or in H. destruct H as [H|H].
  - assert (Hw : In y (flag_window (set_act pa x :: firstn k rest))).
    { pose proof (flag_window_length m_break (set_act pa x :: firstn k rest)) as Lw. unfold flag_window in *.
      destruct (flag_window_m m_break (set_act pa x :: firstn k rest)) as [|h tl0]; [cbn in Lw; lia|exact H]. }
    apply flag_window_gp in Hw. destruct Hw as (z & Hz & Ez). destruct Hz as [<-|Hz].
    + exists x. split; [apply in_or_app; right; left; reflexivity|rewrite Ez; apply set_act_gp].
    + exists z. split; [apply in_or_app; right; right; eapply in_firstn; exact Hz|exact Ez].
  - exists y. split; [apply in_or_app; right; right; eapply in_skipn; exact H|reflexivity].
Qed.

Theorem arab_step_ok_mb : step_ok icl iutb sideL inv_mb arab_pass.
Proof.
  apply (step_ok_strengthen icl iutb sideL sorted nomult arab_pass arab_step_ok).
  intros L R d t Hne _ HN. cbn [pstep arab_pass]. destruct t as [|x rest]; [contradiction|].
  apply (refines_nomult (d ++ x :: rest)); [|exact HN]. intros y Hy. apply (arab_step_gp L R d x rest y Hy).
Qed.

Lemma arab_stable_mb : stable inv_mb arab_pass arab_pass.
Proof. intros L R d t Hne [HS _]. apply arab_stable; assumption. Qed.

(* ---- joining, then the pieces ---- *)
Definition lifted (p : xpiece) : @pass item (option nat) := lift_pass None (xpiece_pass p).
Definition arab_engine (ps : list xpiece) : list (@pass item (option nat)) := arab_pass :: map lifted ps.

Theorem arab_engine_pieces_wf (ps : list xpiece) : wf_engine icl iutb sideL inv_mb (arab_engine ps).
Proof.
  unfold arab_engine. cbn [wf_engine]. split; [exact arab_step_ok_mb|]. split.
  - constructor; [exact arab_stable_mb|]. apply Forall_forall. intros q Hq.
    apply in_map_iff in Hq. destruct Hq as (p & <- & _). apply lift_stable.
  - unfold lifted. rewrite <- map_map. apply lift_wf. apply Forall_forall. intros q Hq.
    apply in_map_iff in Hq. destruct Hq as (p & <- & _). apply xpiece_step_ok.
Qed.

Theorem arab_then_pieces_cut_safe (ps : list xpiece) : cut_safe icl iutb sideL inv_mb (arab_engine ps).
Proof. apply wf_engine_cut_safe. apply arab_engine_pieces_wf. Qed.
