(* The path bounds computed by the charstring interpreter enclose every point of every drawing segment
   (LineTo and CubeTo arguments, control points and closing lines included). *)
From Coq Require Import Lia.
From TV Require Import Model.Charstring Proofs.Charstring.
Open Scope Z_scope.

Definition in_b (b : Z * Z * Z * Z) (p : pt) : Prop :=
  let '(minx, miny, maxx, maxy) := b in minx <= fst p <= maxx /\ miny <= snd p <= maxy.

Definition drawn (s : cseg) : list pt := match s with CMove _ => [] | _ => seg_points s end.
Definition drawn_all (l : list cseg) : list pt := flat_map drawn l.

Record b_inv (r : reader) : Prop := mkBI {
  bi_unseen : r_seen_pt r = false -> drawn_all (r_segs r) = [] /\ r_open r = false;
  bi_seen : r_seen_pt r = true -> Forall (in_b (r_bounds r)) (drawn_all (r_segs r));
  bi_open : r_open r = true -> r_seen_pt r = true /\ in_b (r_bounds r) (r_first r);
  bi_shut : r_open r = false -> r_first r = r_cur r
}.

Lemma b_inv_init : b_inv rd_init.
Proof. constructor; cbn; intros; try discriminate; auto. Qed.

Lemma in_b_enlarge b p q : in_b b p ->
  in_b (let '(minx, miny, maxx, maxy) := b in (Z.min minx (fst q), Z.min miny (snd q), Z.max maxx (fst q), Z.max maxy (snd q))) p.
Proof. destruct b as [[[a c] d] e]. unfold in_b. lia. Qed.
Lemma in_b_enlarge_self b q :
  in_b (let '(minx, miny, maxx, maxy) := b in (Z.min minx (fst q), Z.min miny (snd q), Z.max maxx (fst q), Z.max maxy (snd q))) q.
Proof. destruct b as [[[a c] d] e]. unfold in_b. lia. Qed.

(* what update_bounds guarantees, given the invariant on the drawn points *)
Lemma update_bounds_spec r p :
  (r_seen_pt r = false -> drawn_all (r_segs r) = []) ->
  (r_seen_pt r = true -> Forall (in_b (r_bounds r)) (drawn_all (r_segs r))) ->
  let r' := update_bounds r p in
  r_seen_pt r' = true /\ in_b (r_bounds r') p /\ Forall (in_b (r_bounds r')) (drawn_all (r_segs r'))
  /\ (forall q, r_seen_pt r = true -> in_b (r_bounds r) q -> in_b (r_bounds r') q)
  /\ r_segs r' = r_segs r /\ r_first r' = r_first r /\ r_cur r' = r_cur r /\ r_open r' = r_open r.
Proof.
  intros Hu Hs. unfold update_bounds. cbn [r_seen_pt r_bounds r_segs r_first r_cur r_open].
  destruct (r_seen_pt r) eqn:E.
  - split; [reflexivity|]. split; [apply in_b_enlarge_self|].
    split; [specialize (Hs eq_refl); eapply Forall_impl; [|exact Hs]; intros a Ha; apply in_b_enlarge; exact Ha|].
    split; [intros q _ Hq; apply in_b_enlarge; exact Hq|]. repeat split.
  - split; [reflexivity|]. split; [unfold in_b; cbn; lia|].
    split; [rewrite (Hu eq_refl); constructor|].
    split; [intros q Hq; discriminate|]. repeat split.
Qed.

Lemma open_path_binv r : b_inv r ->
  let r' := open_path r in
  b_inv r' /\ r_open r' = true /\ r_segs r' = r_segs r /\ r_first r' = r_first r /\ r_cur r' = r_cur r.
Proof.
  intros H. pose proof H as HB. destruct H as [Hu Hs Ho Hc]. unfold open_path. destruct (r_open r) eqn:E.
  - split; [exact HB|]. split; [exact E|]. repeat split.
  - destruct (update_bounds_spec r (r_cur r) (fun h => proj1 (Hu h)) Hs) as (S1 & S2 & S3 & S4 & S5 & S6 & S7 & S8).
    cbn [r_open r_segs r_first r_cur r_bounds r_seen_pt]. split; [|repeat split; assumption].
    constructor; cbn [r_open r_segs r_first r_cur r_bounds r_seen_pt].
    + intros h. rewrite S1 in h. discriminate.
    + intros _. exact S3.
    + intros _. split; [exact S1|]. rewrite S6, (Hc eq_refl). exact S2.
    + intros h. discriminate.
Qed.

Lemma rd_line_binv r p : b_inv r -> b_inv (rd_line r p).
Proof.
  intros H. destruct (open_path_binv r H) as ([Hu Hs Ho Hc] & O1 & O2 & O3 & O4).
  unfold rd_line.
  set (r1 := open_path r) in *.
  assert (Hu' : r_seen_pt (set_cur r1 p) = false -> drawn_all (r_segs (set_cur r1 p)) = []) by (cbn; intros h; apply Hu; exact h).
  assert (Hs' : r_seen_pt (set_cur r1 p) = true -> Forall (in_b (r_bounds (set_cur r1 p))) (drawn_all (r_segs (set_cur r1 p)))) by (cbn; exact Hs).
  destruct (update_bounds_spec (set_cur r1 p) p Hu' Hs') as (S1 & S2 & S3 & S4 & S5 & S6 & S7 & S8).
  set (r2 := update_bounds (set_cur r1 p) p) in *.
  destruct (Ho O1) as [Hseen Hf].
  constructor; cbn [set_segs r_open r_segs r_first r_cur r_bounds r_seen_pt].
  - intros h. rewrite S1 in h. discriminate.
  - intros _. cbn [drawn_all flat_map drawn seg_points]. constructor; [exact S2|]. exact S3.
  - intros _. split; [exact S1|]. rewrite S6. cbn. apply S4; [cbn; exact Hseen|cbn; exact Hf].
  - intros h. rewrite S8 in h. cbn in h. rewrite O1 in h. discriminate.
Qed.

Lemma rd_curve_binv r a b c : b_inv r -> b_inv (rd_curve r a b c).
Proof.
  intros H. destruct (open_path_binv r H) as ([Hu Hs Ho Hc] & O1 & O2 & O3 & O4).
  unfold rd_curve.
  set (r1 := open_path r) in *.
  destruct (Ho O1) as [Hseen Hf].
  destruct (update_bounds_spec r1 a (fun h => proj1 (Hu h)) Hs) as (A1 & A2 & A3 & A4 & A5 & A6 & A7 & A8).
  set (ra := update_bounds r1 a) in *.
  destruct (update_bounds_spec ra b (fun h => ltac:(rewrite A1 in h; discriminate)) (fun _ => A3)) as (B1 & B2 & B3 & B4 & B5 & B6 & B7 & B8).
  set (rb := update_bounds ra b) in *.
  assert (Hu' : r_seen_pt (set_cur rb c) = false -> drawn_all (r_segs (set_cur rb c)) = []) by (cbn [set_cur r_seen_pt r_segs r_bounds]; intros h; rewrite B1 in h; discriminate).
  assert (Hs' : r_seen_pt (set_cur rb c) = true -> Forall (in_b (r_bounds (set_cur rb c))) (drawn_all (r_segs (set_cur rb c)))) by (cbn [set_cur r_seen_pt r_segs r_bounds]; intros _; exact B3).
  destruct (update_bounds_spec (set_cur rb c) c Hu' Hs') as (C1 & C2 & C3 & C4 & C5 & C6 & C7 & C8).
  set (rc := update_bounds (set_cur rb c) c) in *.
  constructor; cbn [set_segs r_open r_segs r_first r_cur r_bounds r_seen_pt].
  - intros h. rewrite C1 in h. discriminate.
  - intros _. cbn [drawn_all flat_map drawn seg_points app]. repeat constructor.
    + apply C4; [cbn [set_cur r_first r_seen_pt r_bounds r_open r_segs r_cur]; exact B1|cbn [set_cur r_first r_seen_pt r_bounds r_open r_segs r_cur]]. apply B4; [exact A1|exact A2].
    + apply C4; [cbn [set_cur r_first r_seen_pt r_bounds r_open r_segs r_cur]; exact B1|cbn [set_cur r_first r_seen_pt r_bounds r_open r_segs r_cur]; exact B2].
    + exact C2.
    + exact C3.
  - intros _. split; [exact C1|]. rewrite C6. cbn [set_cur r_first r_seen_pt r_bounds r_open r_segs r_cur]. apply C4; [cbn [set_cur r_first r_seen_pt r_bounds r_open r_segs r_cur]; exact B1|cbn [set_cur r_first r_seen_pt r_bounds r_open r_segs r_cur]]. rewrite B6. apply B4; [exact A1|].
    rewrite A6. apply A4; [exact Hseen|exact Hf].
  - intros h. rewrite C8 in h. cbn [set_cur r_first r_seen_pt r_bounds r_open r_segs r_cur] in h. rewrite B8, A8, O1 in h. discriminate.
Qed.

Lemma ensure_close_binv r : b_inv r ->
  let r' := ensure_close r in
  (r_seen_pt r' = false -> drawn_all (r_segs r') = [] /\ r_open r' = false)
  /\ (r_seen_pt r' = true -> Forall (in_b (r_bounds r')) (drawn_all (r_segs r')))
  /\ r_seen_pt r' = r_seen_pt r /\ r_bounds r' = r_bounds r.
Proof.
  intros [Hu Hs Ho Hc]. unfold ensure_close.
  destruct (pt_eqb (r_first r) (r_cur r)) eqn:E; [auto|].
  cbn [set_segs r_open r_segs r_first r_cur r_bounds r_seen_pt].
  assert (Hopen : r_open r = true).
  { destruct (r_open r) eqn:Eo; [reflexivity|]. rewrite (Hc eq_refl), pt_eqb_refl in E. discriminate. }
  destruct (Ho Hopen) as [Hseen Hf].
  repeat split; auto.
  - rewrite Hseen in H. discriminate.
  - rewrite Hseen in H. discriminate.
  - intros _. cbn [drawn_all flat_map drawn seg_points app]. constructor; [exact Hf|apply Hs; exact Hseen].
Qed.

Lemma rd_move_binv r dx dy : b_inv r -> b_inv (rd_move r dx dy).
Proof.
  intros H. destruct (ensure_close_binv r H) as (E1 & E2 & E3 & E4).
  unfold rd_move. constructor; cbn [r_open r_segs r_first r_cur r_bounds r_seen_pt drawn_all flat_map drawn app].
  - intros h. split; [apply E1; exact h|reflexivity].
  - exact E2.
  - intros h. discriminate.
  - reflexivity.
Qed.

(* the final bounds enclose every drawn point, also after endchar has closed the path *)
Definition bounds_enclose (r : reader) : Prop :=
  forall p, In p (drawn_all (r_segs r)) -> in_b (r_bounds r) p.

Lemma b_inv_encloses r : b_inv r -> bounds_enclose r.
Proof.
  intros [Hu Hs Ho Hc] p Hin. destruct (r_seen_pt r) eqn:E.
  - eapply Forall_forall; [apply Hs; reflexivity|exact Hin].
  - rewrite (proj1 (Hu eq_refl)) in Hin. destruct Hin.
Qed.

Lemma close_path_encloses r : b_inv r -> bounds_enclose (close_path r).
Proof.
  intros H. destruct (ensure_close_binv r H) as (E1 & E2 & E3 & E4).
  unfold close_path, bounds_enclose. cbn [r_segs r_bounds]. intros p Hin.
  destruct (r_seen_pt (ensure_close r)) eqn:E.
  - eapply Forall_forall; [apply E2; reflexivity|exact Hin].
  - rewrite (proj1 (E1 eq_refl)) in Hin. destruct Hin.
Qed.

(* ------------------------------------------------------------------------------------------------ *)
(* any reader invariant kept by line / curve / move / hint bookkeeping is kept by the whole run          *)
Section Gen.
  Variable P : reader -> Prop.
  Hypothesis P_line : forall r p, P r -> P (rd_line r p).
  Hypothesis P_curve : forall r a b c, P r -> P (rd_curve r a b c).
  Hypothesis P_move : forall r dx dy, P r -> P (rd_move r dx dy).
  Hypothesis P_stems : forall r v h s hm, P r ->
    P (mkRd (r_segs r) (r_bounds r) v h s (r_cur r) (r_first r) (r_open r) hm (r_seen_pt r)).

  Ltac wf_ind l IH := induction l as [l IH] using (well_founded_induction (Wf_nat.well_founded_ltof _ (@length Z))).
  Ltac smaller := unfold Wf_nat.ltof; cbn; lia.

  Lemma g_rlineto l : forall r, P r -> P (op_rlineto r l).
  Proof. wf_ind l IH. intros r H. destruct l as [|dx [|dy t]]; try exact H. cbn [op_rlineto]. apply IH; [smaller|auto]. Qed.
  Lemma g_hvlineto l : forall hz r, P r -> P (op_hvlineto hz r l).
  Proof.
    wf_ind l IH. intros hz r H. destruct l as [|x [|y t]]; [exact H|cbn; auto|].
    cbn [op_hvlineto]. apply IH; [smaller|auto].
  Qed.
  Lemma g_rel_curve r a b c d e f : P r -> P (rel_curve r a b c d e f).
  Proof. intros H. unfold rel_curve. auto. Qed.
  Lemma g_rrcurveto l : forall r, P r -> P (op_rrcurveto r l).
  Proof.
    wf_ind l IH. intros r H. destruct l as [|a [|b [|c [|d [|e [|f t]]]]]]; try exact H.
    cbn [op_rrcurveto]. apply IH; [smaller|apply g_rel_curve; exact H].
  Qed.
  Lemma g_hhvv_loop l : forall hz r p1, P r -> P (op_hhvv_loop hz r p1 l).
  Proof.
    wf_ind l IH. intros hz r p1 H. destruct l as [|a [|b [|c [|d t]]]]; try exact H.
    cbn [op_hhvv_loop]. apply IH; [smaller|auto].
  Qed.
  Lemma g_hhvv hz r l : P r -> P (op_hhvv hz r l).
  Proof. intros H. unfold op_hhvv. destruct (Z.odd _); [destruct l; [exact H|]|]; apply g_hhvv_loop; exact H. Qed.
  Lemma g_hv_first ah l : forall r p1 p2 p3, P r -> P (hv_first_loop ah r p1 p2 p3 l).
  Proof.
    wf_ind l IH. intros r p1 p2 p3 H.
    destruct l as [|a [|b [|c [|d [|e [|f [|g [|h t]]]]]]]]; cbn [hv_first_loop]; try (apply P_curve; exact H).
    apply IH; [smaller|auto].
  Qed.
  Lemma g_hv_second ah odd l : forall r, P r -> P (hv_second_loop ah odd r l).
  Proof.
    wf_ind l IH. intros r H. destruct l as [|a [|b [|c [|d [|e [|f [|g [|h t]]]]]]]]; try exact H.
    cbn [hv_second_loop]. apply IH; [smaller|auto].
  Qed.
  Lemma g_hv ah r l : P r -> P (op_hv ah r l).
  Proof.
    intros H. unfold op_hv. destruct (4 <=? _).
    - destruct l as [|a [|b [|c [|d t]]]]; try exact H. apply g_hv_first; exact H.
    - apply g_hv_second; exact H.
  Qed.
  Lemma g_rcurveline l : forall r, P r -> P (op_rcurveline_loop r l).
  Proof.
    wf_ind l IH. intros r H.
    destruct l as [|a [|b [|c [|d [|e [|f [|g [|h t]]]]]]]]; try exact H; try (apply P_line; exact H).
    rewrite op_rcurveline_eq. apply IH; [smaller|apply g_rel_curve; exact H].
  Qed.
  Lemma g_rlinecurve l : forall r, P r -> P (op_rlinecurve_loop r l).
  Proof.
    wf_ind l IH. intros r H.
    destruct l as [|a [|b [|c [|d [|e [|f [|g [|h t]]]]]]]]; try exact H; try (apply g_rel_curve; exact H).
    rewrite op_rlinecurve_eq. apply IH; [smaller|auto].
  Qed.
  Lemma g_flex r l r' : P r ->
    (op_hflex r l = Ok r' \/ op_flex r l = Ok r' \/ op_hflex1 r l = Ok r' \/ op_flex1 r l = Ok r') -> P r'.
  Proof.
    intros H. unfold op_hflex, op_flex, op_hflex1, op_flex1.
    intros [E|[E|[E|E]]];
      repeat (destruct l as [|? l]; try discriminate);
      inversion E; subst; unfold double_curve; auto.
  Qed.

  Definition closed_from (r' : reader) : Prop := exists r0, P r0 /\ r' = close_path r0.

  Lemma g_apply_op l g m r esc op : P r ->
    match apply_op l g m r esc op with
    | Ok (Continue _ r') => P r'
    | Ok (Stop r') => closed_from r'
    | _ => True
    end.
  Proof.
    intros H. unfold apply_op.
    destruct (negb esc).
    - destruct (op =? 11); [destruct (m_calls m); [exact I|exact H]|].
      destruct (op =? 14); [exists r; auto|].
      destruct ((op =? 10) || (op =? 29)).
      { destruct (rev (m_args m)); [exact I|]. destruct (call_subr _ _ _ _); cbn [bind]; try exact I. exact H. }
      destruct (op =? 21); [destruct (rev (m_args m)) as [|? [|? ?]]; try exact I; auto|].
      destruct (op =? 22); [destruct (rev (m_args m)); try exact I; auto|].
      destruct (op =? 4); [destruct (rev (m_args m)); try exact I; auto|].
      destruct ((op =? 1) || (op =? 18)); [apply P_stems; exact H|].
      destruct ((op =? 3) || (op =? 23)); [apply P_stems; exact H|].
      destruct ((op =? 19) || (op =? 20)).
      { destruct (r_seen_hm r); destruct (_ <=? _); try exact H; apply P_stems; exact H. }
      destruct (op =? 5); [apply g_rlineto; exact H|].
      destruct (op =? 6); [apply g_hvlineto; exact H|].
      destruct (op =? 7); [apply g_hvlineto; exact H|].
      destruct (op =? 8); [apply g_rrcurveto; exact H|].
      destruct (op =? 24); [destruct (top m <? 8); [exact I|apply g_rcurveline; exact H]|].
      destruct (op =? 25); [destruct (top m <? 8); [exact I|apply g_rlinecurve; exact H]|].
      destruct (op =? 26); [apply g_hhvv; exact H|].
      destruct (op =? 27); [apply g_hhvv; exact H|].
      destruct (op =? 30); [apply g_hv; exact H|].
      destruct (op =? 31); [apply g_hv; exact H|].
      exact I.
    - destruct (op =? 34); [destruct (op_hflex r (m_args m)) eqn:E; try exact I; eapply g_flex; eauto|].
      destruct (op =? 35); [destruct (op_flex r (m_args m)) eqn:E; try exact I; eapply g_flex; eauto|].
      destruct (op =? 36); [destruct (op_hflex1 r (m_args m)) eqn:E; try exact I; eapply g_flex; eauto|].
      destruct (op =? 37); [destruct (op_flex1 r (m_args m)) eqn:E; try exact I; eapply g_flex; eauto 6|].
      exact I.
  Qed.

  Lemma g_step l g m r : P r ->
    match step l g m r with
    | Ok (Continue _ r') => P r'
    | Ok (Stop r') => P r' \/ closed_from r'
    | _ => True
    end.
  Proof.
    intros H. unfold step.
    destruct (parse_number (m_instr m)) as [[[v rest]| | |]|]; try exact I.
    - destruct (top m =? ARG_STACK_SIZE); [exact I|exact H].
    - destruct (m_instr m) as [|b rest]; [left; exact H|].
      destruct (b =? 12).
      + destruct rest as [|b2 rest2]; [exact I|].
        pose proof (g_apply_op l g (mkM rest2 (m_calls m) (m_args m)) r true b2 H) as Q.
        destruct (apply_op _ _ _ _ _ _) as [[m' r'|r']| | |]; try exact I; [exact Q|right; exact Q].
      + pose proof (g_apply_op l g (mkM rest (m_calls m) (m_args m)) r false b H) as Q.
        destruct (apply_op _ _ _ _ _ _) as [[m' r'|r']| | |]; try exact I; [exact Q|right; exact Q].
  Qed.

  Lemma g_run fuel l g : forall m r r', P r -> run_loop fuel l g m r = Ok r' -> P r' \/ closed_from r'.
  Proof.
    induction fuel as [|k IH]; intros m r r' H; [discriminate|].
    cbn [run_loop]. destruct (m_instr m) eqn:Ei.
    - destruct (m_calls m); [intros E; inversion E; subst; left; exact H|apply IH; exact H].
    - pose proof (g_step l g m r H) as Q.
      destruct (step l g m r) as [[m1 r1|r1]| | |]; cbn [bind]; try discriminate.
      + apply IH; exact Q.
      + intros E; inversion E; subst. exact Q.
  Qed.

  (* the CFF2 handler: vsindex and blend leave the reader alone, every other operator is the Type 2 one *)
  Lemma g_apply_op2 vs l g k m r esc op : P r ->
    match apply_op2 vs l g k m r esc op with
    | Ok (Continue _ r', _) => P r'
    | Ok (Stop r', _) => closed_from r'
    | _ => True
    end.
  Proof.
    intros H. unfold apply_op2.
    destruct (negb esc && ((op =? 11) || (op =? 14))); [exact I|].
    destruct (negb esc && (op =? 15)).
    { destruct (rev (m_args m)); [exact I|]. destruct (set_vs vs k _); cbn [bind]; try exact I. exact H. }
    destruct (negb esc && (op =? 16)).
    { destruct (rev (m_args m)); [exact I|]. destruct ((_ <? 0) || _); [exact I|exact H]. }
    pose proof (g_apply_op l g m r esc op H) as Q.
    destruct (apply_op l g m r esc op) as [[m' r'|r']| | |]; cbn [bind]; try exact I; exact Q.
  Qed.

  Lemma g_step2 vs l g k m r : P r ->
    match step2 vs l g k m r with
    | Ok (Continue _ r', _) => P r'
    | Ok (Stop r', _) => P r' \/ closed_from r'
    | _ => True
    end.
  Proof.
    intros H. unfold step2.
    destruct (parse_number (m_instr m)) as [[[v rest]| | |]|]; try exact I.
    - destruct (top m =? ARG_STACK_SIZE); [exact I|exact H].
    - destruct (m_instr m) as [|b rest]; [left; exact H|].
      destruct (b =? 12).
      + destruct rest as [|b2 rest2]; [exact I|].
        pose proof (g_apply_op2 vs l g k (mkM rest2 (m_calls m) (m_args m)) r true b2 H) as Q.
        destruct (apply_op2 _ _ _ _ _ _ _ _) as [[[m' r'|r'] k']| | |]; try exact I; [exact Q|right; exact Q].
      + pose proof (g_apply_op2 vs l g k (mkM rest (m_calls m) (m_args m)) r false b H) as Q.
        destruct (apply_op2 _ _ _ _ _ _ _ _) as [[[m' r'|r'] k']| | |]; try exact I; [exact Q|right; exact Q].
  Qed.

  Lemma g_run2 fuel vs l g : forall k m r r', P r -> run_loop2 fuel vs l g k m r = Ok r' -> P r' \/ closed_from r'.
  Proof.
    induction fuel as [|f IH]; intros k m r r' H; [discriminate|].
    cbn [run_loop2]. destruct (m_instr m) eqn:Ei.
    - destruct (m_calls m); [intros E; inversion E; subst; left; exact H|apply IH; exact H].
    - pose proof (g_step2 vs l g k m r H) as Q.
      destruct (step2 vs l g k m r) as [[[m1 r1|r1] k1]| | |]; cbn [bind]; try discriminate.
      + apply IH; exact Q.
      + intros E; inversion E; subst. exact Q.
  Qed.
End Gen.

Lemma b_inv_stems r v h s hm : b_inv r ->
  b_inv (mkRd (r_segs r) (r_bounds r) v h s (r_cur r) (r_first r) (r_open r) hm (r_seen_pt r)).
Proof. intros [A B C D]. constructor; cbn; assumption. Qed.

Lemma in_drawn_all_rev l p : In p (drawn_all (rev l)) -> In p (drawn_all l).
Proof.
  unfold drawn_all. rewrite !in_flat_map. intros [s [Hs Hp]]. exists s. split; [apply in_rev; exact Hs|exact Hp].
Qed.

(* main: the bounds returned with the segments enclose every point of every LineTo / CubeTo segment *)
Lemma load_glyph_bounds_lemma fuel cs l g segs b :
  load_glyph fuel cs l g = Ok (segs, b) -> forall p, In p (drawn_all segs) -> in_b b p.
Proof.
  unfold load_glyph. destruct (run_loop fuel l g (mkM cs [] []) rd_init) as [r| | |] eqn:E; cbn [bind]; try discriminate.
  intros H; inversion H; subst. intros p Hin. apply in_drawn_all_rev in Hin.
  destruct (g_run b_inv rd_line_binv rd_curve_binv rd_move_binv b_inv_stems fuel l g _ _ _ b_inv_init E) as [Hb|[r0 [Hb ->]]].
  - apply b_inv_encloses; assumption.
  - apply close_path_encloses; assumption.
Qed.

(* CFF2: the same two facts for cff2CharstringHandler at the default coordinates *)
Lemma load_glyph2_bounds_lemma fuel cs l g vs dvs segs b :
  load_glyph2 fuel cs l g vs dvs = Ok (segs, b) -> forall p, In p (drawn_all segs) -> in_b b p.
Proof.
  unfold load_glyph2. destruct (run_loop2 fuel vs l g (init_vs vs dvs) (mkM cs [] []) rd_init) as [r| | |] eqn:E; cbn [bind]; try discriminate.
  intros H; inversion H; subst. intros p Hin. apply in_drawn_all_rev in Hin.
  destruct (g_run2 b_inv rd_line_binv rd_curve_binv rd_move_binv b_inv_stems fuel vs l g _ _ _ _ b_inv_init E) as [Hb|[r0 [Hb ->]]].
  - apply b_inv_encloses; assumption.
  - apply close_path_encloses; assumption.
Qed.

Lemma path_inv_stems r v h s hm : path_inv r ->
  path_inv (mkRd (r_segs r) (r_bounds r) v h s (r_cur r) (r_first r) (r_open r) hm (r_seen_pt r)).
Proof. intros H. exact H. Qed.

Lemma load_glyph2_path_lemma fuel cs l g vs dvs segs b :
  load_glyph2 fuel cs l g vs dvs = Ok (segs, b) -> exists f c, wf_rev (rev segs) = Some (f, c).
Proof.
  unfold load_glyph2. destruct (run_loop2 fuel vs l g (init_vs vs dvs) (mkM cs [] []) rd_init) as [r| | |] eqn:E; cbn [bind]; try discriminate.
  intros H; inversion H; subst. rewrite rev_involutive.
  assert (Hi : path_inv rd_init) by reflexivity.
  destruct (g_run2 path_inv rd_line_inv rd_curve_inv rd_move_inv path_inv_stems fuel vs l g _ _ _ _ Hi E) as [Hb|[r0 [Hb ->]]].
  - eexists; eexists; exact Hb.
  - destruct (close_path_closed r0 Hb) as [f Hf]. exists f, f. exact Hf.
Qed.

(* no panic *)
Lemma apply_op2_no_panic vs l g k m r esc op : no_panic (apply_op2 vs l g k m r esc op).
Proof.
  unfold apply_op2.
  destruct (negb esc && ((op =? 11) || (op =? 14))); [exact I|].
  destruct (negb esc && (op =? 15)).
  { destruct (rev (m_args m)); [exact I|]. apply no_panic_bind; [|intros; exact I].
    unfold set_vs. destruct vs; [exact I|]. destruct ((_ <? 0) || _); [exact I|]. destruct (nth _ _ _) as [k' [|]]; exact I. }
  destruct (negb esc && (op =? 16)).
  { destruct (rev (m_args m)); [exact I|]. destruct ((_ <? 0) || _); exact I. }
  apply no_panic_bind; [apply apply_op_no_panic|intros; exact I].
Qed.

Lemma step2_no_panic vs l g k m r : no_panic (step2 vs l g k m r).
Proof.
  unfold step2. pose proof (parse_number_no_panic (m_instr m)) as Hp.
  destruct (parse_number (m_instr m)) as [[[v rest]| | |]|]; try exact I; try contradiction.
  - destruct (top m =? ARG_STACK_SIZE); exact I.
  - destruct (m_instr m) as [|b rest]; [exact I|].
    destruct (b =? 12); [destruct rest; [exact I|]|]; apply apply_op2_no_panic.
Qed.

Lemma load_glyph2_no_panic_lemma fuel cs l g vs dvs : no_panic (load_glyph2 fuel cs l g vs dvs).
Proof.
  unfold load_glyph2. apply no_panic_bind; [|intros; exact I].
  generalize (init_vs vs dvs) (mkM cs [] []) rd_init.
  induction fuel as [|f IH]; intros k m r; [exact I|].
  cbn [run_loop2]. destruct (m_instr m); [destruct (m_calls m); [exact I|apply IH]|].
  apply no_panic_bind; [apply step2_no_panic|].
  intros [[m' r'|r'] k'] _; [apply IH|exact I].
Qed.
