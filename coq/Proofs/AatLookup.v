(* Proofs for C09: the AAT lookup Class methods never index out of range, for ALL lookup values and glyph ids
   (glyph ids are uint16), and their searches end within len + 1 iterations. *)
From TV Require Import Model.Glyf Model.TableIndex Model.AatLookup Proofs.Glyf Proofs.TableIndex.
From Coq Require Import ZifyBool.
Ltac Zify.zify_post_hook ::= Z.div_mod_to_equations.

Lemma np_class0 vs g : 0 <= g -> no_panic (class0 vs g).
Proof. intros. unfold class0. destruct (zlen vs <=? g) eqn:E; [exact I|]. rewrite index_checked_ok by lia. exact I. Qed.

(* sort.Search returns an index of [i, j] and only calls f inside [i, j) *)
Lemma sort_search_spec (f : Z -> res bool) n :
  (forall h, 0 <= h < n -> exists b, f h = Ok b) ->
  forall fuel i j, 0 <= i -> i <= j -> j <= n -> j - i < Z.of_nat fuel ->
  exists k, sort_search f i j fuel = Ok k /\ i <= k <= j.
Proof.
  intros Hf. induction fuel as [|fuel IH]; intros i j Hi Hij Hj Hfuel.
  - cbn [sort_search]. replace (negb (i <? j)) with true by lia. exists i. split; [reflexivity|lia].
  - cbn [sort_search]. destruct (negb (i <? j)) eqn:E. { exists i. split; [reflexivity|lia]. }
    assert (Hh : i <= (i + j) / 2 < j) by lia.
    destruct (Hf ((i + j) / 2)) as [b Hb]; [lia|]. rewrite Hb. cbn [bind].
    destruct b.
    + destruct (IH i ((i + j) / 2)) as [k [Hk Hr]]; try lia. exists k. split; [exact Hk|lia].
    + destruct (IH ((i + j) / 2 + 1) j) as [k [Hk Hr]]; try lia. exists k. split; [exact Hk|lia].
Qed.

Lemma np_class2 c g : no_panic (class2 c g).
Proof.
  unfold class2. pose proof (zlen_nonneg c) as Hn. destruct (zlen c =? 0) eqn:E0; [exact I|].
  destruct (sort_search_spec (fun i => do e <- index_checked dseg2 c i; Ok (g <=? s2_first e)) (zlen c)) with
    (fuel := S (length c)) (i := 0) (j := zlen c) as [k [Hk Hr]]; try (unfold zlen; lia).
  { intros h Hh. rewrite index_checked_ok by lia. cbn [bind]. eexists; reflexivity. }
  rewrite Hk. cbn [bind].
  destruct (k <? zlen c) eqn:E1.
  - rewrite index_checked_ok by lia. cbn [bind].
    destruct (g =? s2_first (znth dseg2 c k)); [exact I|].
    destruct (0 <? k) eqn:E2; [|exact I]. rewrite index_checked_ok by lia. exact I.
  - cbn [bind]. destruct (0 <? k) eqn:E2; [|exact I]. rewrite index_checked_ok by lia. exact I.
Qed.

Lemma np_class4_loop recs g : 0 <= g < 65536 -> forall fuel i j, 0 <= i -> j <= zlen recs -> j - i < Z.of_nat fuel ->
  no_panic (class4_loop true recs g i j fuel).
Proof.
  intros Hg. induction fuel as [|fuel IH]; intros i j Hi Hj Hf.
  - cbn [class4_loop]. replace (negb (i <? j)) with true by lia. exact I.
  - cbn [class4_loop]. destruct (negb (i <? j)) eqn:E; [exact I|].
    assert (Hh : i <= i + (j - i) / 2 < j) by lia.
    rewrite index_checked_ok by lia. cbn [bind].
    destruct (g <? _); [apply IH; lia|]. destruct (_ <? g); [apply IH; lia|].
    cbn [andb]. destruct (zlen _ <=? wrap16 _) eqn:EL; [exact I|].
    pose proof (wrap16_range (g - s4_first (znth dseg4 recs (i + (j - i) / 2)))).
    rewrite index_checked_ok by lia. exact I.
Qed.
Lemma np_class4 recs g : 0 <= g < 65536 -> no_panic (class4 recs g).
Proof. intros. unfold class4. apply np_class4_loop; unfold zlen; lia. Qed.

Lemma np_class6_loop recs g : forall fuel i j, 0 <= i -> j <= zlen recs -> j - i < Z.of_nat fuel ->
  no_panic (class6_loop recs g i j fuel).
Proof.
  induction fuel as [|fuel IH]; intros i j Hi Hj Hf.
  - cbn [class6_loop]. replace (negb (i <? j)) with true by lia. exact I.
  - cbn [class6_loop]. destruct (negb (i <? j)) eqn:E; [exact I|].
    assert (Hh : i <= i + (j - i) / 2 < j) by lia.
    rewrite index_checked_ok by lia. cbn [bind].
    destruct (g <? _); [apply IH; lia|]. destruct (_ <? g); [apply IH; lia|]. exact I.
Qed.
Lemma np_class6 recs g : no_panic (class6 recs g).
Proof. unfold class6. apply np_class6_loop; unfold zlen; lia. Qed.

Lemma np_class8 first vs g : 0 <= g < 65536 -> 0 <= first < 65536 -> no_panic (class8 first vs g).
Proof.
  intros Hg Hf. unfold class8. pose proof (zlen_nonneg vs).
  destruct ((g <? first) || (wrap16 (first + wrap16 (zlen vs)) <=? g)) eqn:E; [exact I|].
  assert (K : 0 <= wrap16 (g - first) < zlen vs).
  { unfold wrap16 in *. lia. }
  rewrite index_checked_ok by exact K. exact I.
Qed.

Definition lookup_wf (l : aat_lookup) : Prop :=
  match l with L8 first _ => 0 <= first < 65536 | _ => True end.

Lemma aat_class_total_lemma : forall l g, lookup_wf l -> 0 <= g < 65536 -> total (aat_class l g).
Proof.
  intros l g Hwf Hg. apply no_panic_total. destruct l; cbn [aat_class].
  - apply np_class0; lia.
  - apply np_class2.
  - apply np_class4; exact Hg.
  - apply np_class6.
  - apply np_class8; [exact Hg|exact Hwf].
Qed.
