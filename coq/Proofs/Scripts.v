(* Proofs about the script part of fontscan/rune_coverage.go (Model/Scripts.v):
   ScriptSet.insert / contains keep a strictly increasing slice that behaves as a set, and
   scriptsFromRanges computes exactly the set of the scripts of the runes of the given sorted ranges,
   i.e. the same set as the rune-by-rune path (scripts_from_runes). *)
From TV Require Import Lib.GoNum Lib.Res Lib.Bytes Model.RuneSet Model.Scripts Spec.RuneSet Spec.Scripts.
From Coq Require Import ZifyBool.

(* ------------------------------------------------------------------ znth / zfirstn / zskipn and membership *)
Lemma sc_znth_0 {A} (d : A) a l : znth d (a :: l) 0 = a.
Proof. reflexivity. Qed.
Lemma sc_znth_cons {A} (d : A) a l i : 0 < i -> znth d (a :: l) i = znth d l (i - 1).
Proof.
  intros H. unfold znth.
  destruct (Z.ltb_spec i 0); [lia|]. destruct (Z.ltb_spec (i - 1) 0); [lia|].
  replace (Z.to_nat i) with (S (Z.to_nat (i - 1))) by lia. reflexivity.
Qed.
Lemma sc_In_znth {A} (d : A) l x : In x l -> exists k, 0 <= k < zlen l /\ znth d l k = x.
Proof.
  intros H. destruct (In_nth l x d H) as (n & Hn & E).
  exists (Z.of_nat n). unfold zlen, znth. split; [lia|].
  destruct (Z.ltb_spec (Z.of_nat n) 0); [lia|]. rewrite Nat2Z.id. exact E.
Qed.
Lemma sc_znth_In {A} (d : A) l k : 0 <= k < zlen l -> In (znth d l k) l.
Proof.
  unfold zlen, znth. intros H. destruct (Z.ltb_spec k 0); [lia|]. apply nth_In. lia.
Qed.
Lemma sc_In_firstn {A} (d : A) n l x : In x (firstn n l) -> exists k, (k < n)%nat /\ (k < length l)%nat /\ nth k l d = x.
Proof.
  revert l; induction n; intros l H; [destruct H|].
  destruct l as [|a l]; [destruct H|]. cbn [firstn In] in H. destruct H as [H|H].
  - exists O. cbn [length nth]. repeat split; [lia|lia|exact H].
  - destruct (IHn l H) as (k & H1 & H2 & H3). exists (S k). cbn [length nth]. repeat split; [lia|lia|exact H3].
Qed.
Lemma sc_In_skipn {A} (d : A) n l x : In x (skipn n l) -> exists k, (n <= k)%nat /\ (k < length l)%nat /\ nth k l d = x.
Proof.
  revert l; induction n; intros l H.
  - cbn [skipn] in H. destruct (In_nth l x d H) as (k & H1 & H2). exists k. repeat split; [lia|exact H1|exact H2].
  - destruct l as [|a l]; [destruct H|]. cbn [skipn] in H.
    destruct (IHn l H) as (k & H1 & H2 & H3). exists (S k). cbn [length nth]. repeat split; [lia|lia|exact H3].
Qed.
Lemma sc_In_zfirstn {A} (d : A) n l x : In x (zfirstn n l) -> exists k, 0 <= k < n /\ k < zlen l /\ znth d l k = x.
Proof.
  unfold zfirstn. intros H. destruct (sc_In_firstn d _ _ _ H) as (k & H1 & H2 & H3).
  exists (Z.of_nat k). unfold zlen, znth. destruct (Z.ltb_spec (Z.of_nat k) 0); [lia|].
  rewrite Nat2Z.id. repeat split; [lia|lia|lia|exact H3].
Qed.
Lemma sc_In_zskipn {A} (d : A) n l x : 0 <= n -> In x (zskipn n l) -> exists k, n <= k < zlen l /\ znth d l k = x.
Proof.
  unfold zskipn. intros Hn H. destruct (sc_In_skipn d _ _ _ H) as (k & H1 & H2 & H3).
  exists (Z.of_nat k). unfold zlen, znth. destruct (Z.ltb_spec (Z.of_nat k) 0); [lia|].
  rewrite Nat2Z.id. repeat split; [lia|lia|exact H3].
Qed.

(* ------------------------------------------------------------------ strictly increasing lists *)
Lemma ss_sorted_cons x r : ss_sorted (x :: r) <-> (forall y, In y r -> x < y) /\ ss_sorted r.
Proof.
  revert x; induction r as [|y r IH]; intros x.
  - cbn [ss_sorted In]. tauto.
  - change (ss_sorted (x :: y :: r)) with (x < y /\ ss_sorted (y :: r)).
    split.
    + intros [H1 H2]. split; [|exact H2]. intros z [Hz|Hz]; [lia|].
      apply IH in H2. destruct H2 as [H2 _]. specialize (H2 z Hz). lia.
    + intros [H1 H2]. split; [apply H1; left; reflexivity|exact H2].
Qed.
Lemma ss_sorted_app l1 l2 :
  ss_sorted (l1 ++ l2) <-> ss_sorted l1 /\ ss_sorted l2 /\ forall a b, In a l1 -> In b l2 -> a < b.
Proof.
  induction l1 as [|x l1 IH].
  - cbn [app ss_sorted In]. split; [intros H; repeat split; [exact H|intros a b []]|tauto].
  - change ((x :: l1) ++ l2) with (x :: (l1 ++ l2)). rewrite !ss_sorted_cons, IH. split.
    + intros (H1 & H2 & H3 & H4). repeat split; try assumption.
      * intros y Hy. apply H1. apply in_or_app. left; exact Hy.
      * intros a b [Ha|Ha] Hb; [subst a; apply H1; apply in_or_app; right; exact Hb|apply H4; assumption].
    + intros ((H1 & H2) & H3 & H4). repeat split; try assumption.
      * intros y Hy. apply in_app_or in Hy. destruct Hy as [Hy|Hy]; [apply H1; exact Hy|apply H4; [left; reflexivity|exact Hy]].
      * intros a b Ha Hb. apply H4; [right; exact Ha|exact Hb].
Qed.
Lemma ss_sorted_znth l : ss_sorted l -> forall i j, 0 <= i < j -> j < zlen l -> znth 0 l i < znth 0 l j.
Proof.
  induction l as [|x r IH]; intros Hs i j Hij Hj.
  - rewrite zlen_nil in Hj. lia.
  - rewrite zlen_cons in Hj. apply ss_sorted_cons in Hs. destruct Hs as [H1 H2].
    rewrite (sc_znth_cons 0 x r j) by lia.
    destruct (Z.eq_dec i 0) as [->|Hi].
    + rewrite sc_znth_0. apply H1. apply sc_znth_In. lia.
    + rewrite (sc_znth_cons 0 x r i) by lia. apply IH; [exact H2|lia|lia].
Qed.

(* ------------------------------------------------------------------ sort.Search *)
Lemma search_loop_spec (f : Z -> bool) n :
  (forall a b, 0 <= a <= b -> b < n -> f a = true -> f b = true) ->
  forall fuel i j, 0 <= i <= j -> j <= n -> j - i < Z.of_nat fuel ->
    (forall k, 0 <= k < i -> f k = false) -> (forall k, j <= k < n -> f k = true) ->
    exists r, search_loop fuel f i j = Ok r /\ i <= r <= j /\
              (forall k, 0 <= k < r -> f k = false) /\ (forall k, r <= k < n -> f k = true).
Proof.
  intros Hmono. induction fuel as [|fu IH]; intros i j Hij Hjn Hfu Hlo Hhi.
  - cbn [search_loop]. destruct (Z.ltb_spec i j); [lia|].
    exists i. repeat split; [lia|lia|exact Hlo|intros k Hk; apply Hhi; lia].
  - cbn [search_loop]. destruct (Z.ltb_spec i j) as [Hlt|Hge].
    + cbv zeta. rewrite Z.shiftr_div_pow2 by lia. change (2 ^ 1) with 2.
      assert (Hh : i <= (i + j) / 2 < j) by (Z.div_mod_to_equations; lia).
      set (h := (i + j) / 2) in *.
      destruct (f h) eqn:Efh.
      * destruct (IH i h) as (r & E & Hr & H1 & H2); [lia|lia|lia|exact Hlo| |].
        { intros k Hk. apply (Hmono h k); [lia|lia|exact Efh]. }
        exists r. repeat split; [exact E|lia|lia|exact H1|exact H2].
      * destruct (IH (h + 1) j) as (r & E & Hr & H1 & H2); [lia|lia|lia| |exact Hhi|].
        { intros k Hk. destruct (f k) eqn:Efk; [|reflexivity].
          rewrite (Hmono k h) in Efh; [discriminate|lia|lia|exact Efk]. }
        exists r. repeat split; [exact E|lia|lia|exact H1|exact H2].
    + exists i. repeat split; [lia|lia|exact Hlo|intros k Hk; apply Hhi; lia].
Qed.

(* ------------------------------------------------------------------ ScriptSet.insert / contains *)
Lemma ss_insert_spec : forall ss s, ss_sorted ss ->
  exists ss', ss_insert ss s = Ok ss' /\ ss_sorted ss' /\ forall x, In x ss' <-> x = s \/ In x ss.
Proof.
  intros ss s Hs. unfold ss_insert.
  destruct (search_loop_spec (fun i => s <=? znth 0 ss i) (zlen ss)) with (fuel := S (length ss)) (i := 0) (j := zlen ss)
    as (idx & E & Hidx & Hlo & Hhi).
  - intros a b Hab Hb Ha. destruct (Z.eq_dec a b) as [->|Hne]; [exact Ha|].
    pose proof (ss_sorted_znth ss Hs a b ltac:(lia) Hb). lia.
  - pose proof (zlen_nonneg ss); lia.
  - lia.
  - unfold zlen; lia.
  - intros k Hk; lia.
  - intros k Hk; lia.
  - rewrite E. cbn [bind].
    destruct (negb (idx =? zlen ss) && (znth 0 ss idx =? s)) eqn:Eb.
    + exists ss. split; [reflexivity|]. split; [exact Hs|].
      intros x. split; [intros H; right; exact H|]. intros [->|H]; [|exact H].
      apply andb_prop in Eb. destruct Eb as [Eb1 Eb2].
      apply Z.eqb_eq in Eb2. apply negb_true_iff in Eb1. apply Z.eqb_neq in Eb1.
      rewrite <- Eb2. apply sc_znth_In. lia.
    + eexists. split; [reflexivity|].
      assert (Hne : idx = zlen ss \/ znth 0 ss idx <> s).
      { destruct (Z.eqb_spec idx (zlen ss)) as [He|He]; [left; exact He|right].
        cbn [negb andb] in Eb. apply Z.eqb_neq. exact Eb. }
      assert (Hsplit : ss = zfirstn idx ss ++ zskipn idx ss) by (unfold zfirstn, zskipn; symmetry; apply firstn_skipn).
      assert (H1 : forall a, In a (zfirstn idx ss) -> a < s).
      { intros a Ha. destruct (sc_In_zfirstn 0 _ _ _ Ha) as (k & Hk1 & Hk2 & Hk3).
        specialize (Hlo k ltac:(lia)). cbv beta in Hlo. lia. }
      assert (H2 : forall b, In b (zskipn idx ss) -> s < b).
      { intros b Hb. assert (H0 : 0 <= idx) by lia.
        destruct (sc_In_zskipn 0 idx ss b H0 Hb) as (k & Hk1 & Hk2).
        pose proof (Hhi k ltac:(lia)) as Hk. cbv beta in Hk.
        pose proof (Hhi idx ltac:(lia)) as Hi. cbv beta in Hi.
        destruct (Z.eq_dec k idx) as [->|Hne2]; [lia|].
        pose proof (ss_sorted_znth ss Hs idx k ltac:(lia) ltac:(lia)). lia. }
      rewrite Hsplit in Hs. apply ss_sorted_app in Hs. destruct Hs as (Hs1 & Hs2 & Hs3).
      split.
      * apply ss_sorted_app. split; [exact Hs1|]. split.
        -- apply ss_sorted_cons. split; [exact H2|exact Hs2].
        -- intros a b Ha [Hb|Hb]; [subst b; apply H1; exact Ha|apply Hs3; assumption].
      * intros x. rewrite Hsplit at 3. rewrite !in_app_iff. cbn [In]. split.
        -- intros [H|[H|H]]; [right; left; exact H|left; symmetry; exact H|right; right; exact H].
        -- intros [H|[H|H]]; [right; left; symmetry; exact H|left; exact H|right; right; exact H].
Qed.

Lemma ss_contains_spec : forall ss s, ss_sorted ss -> (ss_contains ss s = true <-> In s ss).
Proof.
  induction ss as [|x r IH]; intros s Hs.
  - cbn [ss_contains In]. split; [discriminate|tauto].
  - apply ss_sorted_cons in Hs. destruct Hs as [H1 H2]. cbn [ss_contains In].
    destruct (Z.ltb_spec s x) as [Hlt|Hge].
    + split; [discriminate|]. intros [H|H]; [lia|]. specialize (H1 s H). lia.
    + destruct (Z.eqb_spec x s) as [He|Hne].
      * split; [intros _; left; exact He|reflexivity].
      * rewrite (IH s H2). split; [intros H; right; exact H|intros [H|H]; [contradiction|exact H]].
Qed.

(* ------------------------------------------------------------------ the rune-by-rune path *)
Lemma scripts_from_runes_acc : forall SR unknown runes acc, ss_sorted acc ->
  exists ss, scripts_from_runes SR unknown runes acc = Ok ss /\ ss_sorted ss /\
    forall s, In s ss <-> In s acc \/ exists x, In x runes /\ script_of SR unknown x = s.
Proof.
  intros SR unknown. induction runes as [|r t IH]; intros acc Hacc.
  - exists acc. cbn [scripts_from_runes]. split; [reflexivity|]. split; [exact Hacc|].
    intros s. split; [intros H; left; exact H|]. intros [H|(x & [] & _)]. exact H.
  - cbn [scripts_from_runes].
    destruct (ss_insert_spec acc (script_of SR unknown r) Hacc) as (a2 & E & Hs2 & Hin2).
    rewrite E. cbn [bind].
    destruct (IH a2 Hs2) as (ss & E2 & Hs & Hin). exists ss. split; [exact E2|]. split; [exact Hs|].
    intros s. rewrite Hin, Hin2. cbn [In]. split.
    + intros [[H|H]|(x & Hx & Hsx)].
      * right. exists r. split; [left; reflexivity|symmetry; exact H].
      * left; exact H.
      * right. exists x. split; [right; exact Hx|exact Hsx].
    + intros [H|(x & [Hx|Hx] & Hsx)].
      * left; right; exact H.
      * subst x. left; left; symmetry; exact Hsx.
      * right. exists x. split; assumption.
Qed.
Lemma scripts_from_runes_exact : forall SR unknown runes,
  exists ss, scripts_from_runes SR unknown runes [] = Ok ss /\ ss_sorted ss /\
    forall s, In s ss <-> exists x, In x runes /\ script_of SR unknown x = s.
Proof.
  intros SR unknown runes.
  destruct (scripts_from_runes_acc SR unknown runes [] I) as (ss & E & Hs & Hin).
  exists ss. split; [exact E|]. split; [exact Hs|].
  intros s. rewrite Hin. cbn [In]. tauto.
Qed.

(* ------------------------------------------------------------------ the script table under sr_ok *)
Lemma sr_start_cons e t i : 0 < i -> sr_start (e :: t) i = sr_start t (i - 1).
Proof. intros H. unfold sr_start. rewrite sc_znth_cons by lia. reflexivity. Qed.
Lemma sr_end_cons e t i : 0 < i -> sr_end (e :: t) i = sr_end t (i - 1).
Proof. intros H. unfold sr_end. rewrite sc_znth_cons by lia. reflexivity. Qed.

Lemma sr_sorted_bounds : forall SR lo, sr_sorted lo SR = true ->
  forall i, 0 <= i < zlen SR -> lo <= sr_start SR i /\ sr_start SR i <= sr_end SR i.
Proof.
  induction SR as [|[[s e] c] t IH]; intros lo H i Hi.
  - unfold zlen in Hi. cbn [length] in Hi. lia.
  - rewrite zlen_cons in Hi. cbn [sr_sorted] in H.
    apply andb_prop in H. destruct H as [H H4]. apply andb_prop in H. destruct H as [H H3].
    apply andb_prop in H. destruct H as [H1 H2].
    destruct (Z.eq_dec i 0) as [->|Hne].
    + unfold sr_start, sr_end. rewrite sc_znth_0. cbn [fst snd]. lia.
    + rewrite sr_start_cons, sr_end_cons by lia.
      destruct (IH (e + 1) H4 (i - 1) ltac:(lia)) as [A B]. lia.
Qed.
Lemma sr_sorted_order : forall SR lo, sr_sorted lo SR = true ->
  forall i j, 0 <= i < j -> j < zlen SR -> sr_end SR i < sr_start SR j.
Proof.
  induction SR as [|[[s e] c] t IH]; intros lo H i j Hij Hj.
  - unfold zlen in Hj. cbn [length] in Hj. lia.
  - rewrite zlen_cons in Hj. cbn [sr_sorted] in H.
    apply andb_prop in H. destruct H as [H H4].
    rewrite (sr_start_cons _ _ j) by lia.
    destruct (Z.eq_dec i 0) as [->|Hne].
    + unfold sr_end. rewrite sc_znth_0. cbn [fst snd].
      destruct (sr_sorted_bounds t (e + 1) H4 (j - 1) ltac:(lia)) as [A B]. lia.
    + rewrite sr_end_cons by lia. apply (IH (e + 1) H4); lia.
Qed.
Lemma sr_ok_facts SR : sr_ok SR = true ->
  0 < LR SR /\ sr_start SR 0 = 0 /\
  (forall i, 0 <= i < LR SR -> sr_start SR i <= sr_end SR i) /\
  (forall i j, 0 <= i < j -> j < LR SR -> sr_end SR i < sr_start SR j).
Proof.
  intros H. unfold LR.
  assert (H0 : sr_sorted 0 SR = true /\ 0 < zlen SR /\ sr_start SR 0 = 0).
  { destruct SR as [|[[s e] c] t]; [discriminate|]. unfold sr_ok in H.
    apply andb_prop in H. destruct H as [H1 H2]. split; [exact H2|].
    rewrite zlen_cons. pose proof (zlen_nonneg t). split; [lia|].
    unfold sr_start. rewrite sc_znth_0. cbn [fst]. lia. }
  destruct H0 as (Hs & Hl & H00). repeat split; [exact Hl|exact H00| |].
  - intros i Hi. apply (sr_sorted_bounds SR 0 Hs i Hi).
  - intros i j Hij Hj. apply (sr_sorted_order SR 0 Hs i j Hij Hj).
Qed.

Lemma script_of_cases SR u x :
  (exists i, 0 <= i < LR SR /\ sr_start SR i <= x <= sr_end SR i /\ script_of SR u x = sr_script SR i) \/
  ((forall i, 0 <= i < LR SR -> ~ (sr_start SR i <= x <= sr_end SR i)) /\ script_of SR u x = u).
Proof.
  unfold script_of.
  destruct (find (fun e => (fst (fst e) <=? x) && (x <=? snd (fst e))) SR) as [p|] eqn:E.
  - apply find_some in E. destruct E as [Hin Hp].
    destruct (sc_In_znth (0, 0, 0) SR p Hin) as (k & Hk & Ek).
    left. exists k. unfold LR, sr_start, sr_end, sr_script. rewrite Ek.
    split; [exact Hk|]. split; [lia|reflexivity].
  - right. split; [|reflexivity]. intros i Hi Hc.
    pose proof (find_none _ _ E (znth (0, 0, 0) SR i) (sc_znth_In _ _ _ Hi)) as Hn. cbv beta in Hn.
    unfold sr_start, sr_end in Hc. lia.
Qed.

(* ------------------------------------------------------------------ sorted inclusive ranges *)
Lemma in_ranges_cons a b r x : in_ranges ((a, b) :: r) x = true <-> a <= x <= b \/ in_ranges r x = true.
Proof.
  unfold in_ranges. cbn [existsb fst snd]. rewrite orb_true_iff. split.
  - intros [H|H]; [left; lia|right; exact H].
  - intros [H|H]; [left; lia|right; exact H].
Qed.
Lemma ranges_from_lo : forall rest lo x, ranges_sorted_from lo rest = true -> in_ranges rest x = true -> lo <= x.
Proof.
  induction rest as [|[a b] r IH]; intros lo x H Hx.
  - discriminate.
  - cbn [ranges_sorted_from] in H. apply andb_prop in H. destruct H as [H H4].
    apply in_ranges_cons in Hx. destruct Hx as [Hx|Hx]; [lia|].
    pose proof (IH (b + 1) x H4 Hx). lia.
Qed.
Lemma last_end_max : forall rest lo, ranges_sorted_from lo rest = true -> rest <> [] ->
  in_ranges rest (snd (last rest (0, 0))) = true /\ forall x, in_ranges rest x = true -> x <= snd (last rest (0, 0)).
Proof.
  induction rest as [|[a b] r IH]; intros lo H Hne; [congruence|].
  cbn [ranges_sorted_from] in H. apply andb_prop in H. destruct H as [H H4].
  destruct r as [|p r'].
  - cbn [last snd]. split.
    + apply in_ranges_cons. left. lia.
    + intros x Hx. apply in_ranges_cons in Hx. destruct Hx as [Hx|Hx]; [lia|discriminate].
  - change (last ((a, b) :: p :: r') (0, 0)) with (last (p :: r') (0, 0)).
    destruct (IH (b + 1) H4 ltac:(discriminate)) as [I1 I2]. split.
    + apply in_ranges_cons. right. exact I1.
    + intros x Hx. apply in_ranges_cons in Hx. destruct Hx as [Hx|Hx]; [|apply I2; exact Hx].
      pose proof (ranges_from_lo _ _ _ H4 I1). lia.
Qed.

Section RangesProof.
  Variable SR : list (Z * Z * Z).
  Variable unknown : Z.
  Hypothesis Hsr : sr_ok SR = true.
  Local Notation L := (LR SR).
  Local Notation st := (sr_start SR).
  Local Notation en := (sr_end SR).
  Local Notation sc := (sr_script SR).
  Local Notation sof := (script_of SR unknown).

  Lemma L_pos : 0 < L. Proof. apply (sr_ok_facts SR Hsr). Qed.
  Lemma st_0 : st 0 = 0. Proof. apply (sr_ok_facts SR Hsr). Qed.
  Lemma sr_le i : 0 <= i < L -> st i <= en i. Proof. apply (sr_ok_facts SR Hsr). Qed.
  Lemma sr_lt i j : 0 <= i < j -> j < L -> en i < st j. Proof. apply (sr_ok_facts SR Hsr). Qed.
  Lemma en_mono i j : 0 <= i <= j -> j < L -> en i <= en j.
  Proof.
    intros Hij Hj. destruct (Z.eq_dec i j) as [->|Hne]; [lia|].
    pose proof (sr_lt i j ltac:(lia) Hj). pose proof (sr_le j ltac:(lia)). lia.
  Qed.
  Lemma st_mono i j : 0 <= i <= j -> j < L -> st i <= st j.
  Proof.
    intros Hij Hj. destruct (Z.eq_dec i j) as [->|Hne]; [lia|].
    pose proof (sr_lt i j ltac:(lia) Hj). pose proof (sr_le i ltac:(lia)). lia.
  Qed.

  Lemma script_of_in i x : 0 <= i < L -> st i <= x <= en i -> sof x = sc i.
  Proof.
    intros Hi Hx. destruct (script_of_cases SR unknown x) as [(k & Hk & Hkx & E)|(Hn & _)].
    - assert (k = i); [|subst k; exact E].
      destruct (Z.lt_trichotomy k i) as [Hlt|[He|Hgt]]; [|exact He|].
      + pose proof (sr_lt k i ltac:(lia) ltac:(lia)). lia.
      + pose proof (sr_lt i k ltac:(lia) ltac:(lia)). lia.
    - exfalso. apply (Hn i Hi Hx).
  Qed.
  Lemma script_of_gap k x : 0 < k < L -> en (k - 1) < x < st k -> sof x = unknown.
  Proof.
    intros Hk Hx. destruct (script_of_cases SR unknown x) as [(i & Hi & Hix & E)|(_ & E)]; [|exact E].
    exfalso. destruct (Z_lt_le_dec i k) as [Hlt|Hge].
    - pose proof (en_mono i (k - 1) ltac:(lia) ltac:(lia)). lia.
    - pose proof (st_mono k i ltac:(lia) ltac:(lia)). lia.
  Qed.
  Lemma script_of_beyond x : en (L - 1) < x -> sof x = unknown.
  Proof.
    intros Hx. destruct (script_of_cases SR unknown x) as [(i & Hi & Hix & E)|(_ & E)]; [|exact E].
    exfalso. pose proof (en_mono i (L - 1) ltac:(lia) ltac:(lia)). lia.
  Qed.

  (* every non-negative rune is inside an entry, in a gap between two entries, or beyond the table *)
  Lemma sr_tri_n x : 0 <= x -> forall n : nat, Z.of_nat n <= L ->
    (exists i, 0 <= i < Z.of_nat n /\ st i <= x <= en i) \/
    (exists k, 0 < k < Z.of_nat n /\ en (k - 1) < x < st k) \/
    (forall i, 0 <= i < Z.of_nat n -> en i < x).
  Proof.
    intros Hx. induction n as [|n IH]; intros Hn.
    - right; right. intros i Hi. lia.
    - destruct (IH ltac:(lia)) as [(i & Hi & Hc)|[(k & Hk & Hg)|Hall]].
      + left. exists i. split; [lia|exact Hc].
      + right; left. exists k. split; [lia|exact Hg].
      + destruct (Z_lt_le_dec x (st (Z.of_nat n))) as [Hlt|Hge].
        * right; left. exists (Z.of_nat n).
          destruct n as [|m]; [change (Z.of_nat 0) with 0 in Hlt; rewrite st_0 in Hlt; lia|].
          split; [lia|]. split; [apply Hall; lia|exact Hlt].
        * destruct (Z_le_gt_dec x (en (Z.of_nat n))) as [Hle|Hgt].
          -- left. exists (Z.of_nat n). split; [lia|lia].
          -- right; right. intros i Hi. destruct (Z.eq_dec i (Z.of_nat n)) as [->|Hne]; [lia|apply Hall; lia].
  Qed.
  Lemma sr_tri x : 0 <= x ->
    (exists i, 0 <= i < L /\ st i <= x <= en i) \/
    (exists k, 0 < k < L /\ en (k - 1) < x < st k) \/
    en (L - 1) < x.
  Proof.
    intros Hx. pose proof L_pos as HL.
    destruct (sr_tri_n x Hx (Z.to_nat L) ltac:(lia)) as [(i & Hi & Hc)|[(k & Hk & Hg)|Hall]].
    - left. exists i. split; [lia|exact Hc].
    - right; left. exists k. split; [lia|exact Hg].
    - right; right. apply Hall. lia.
  Qed.

  (* ---------------------------------------------------------------- skip_left *)
  Lemma skip_left_spec start : forall fuel idx, 0 <= idx <= L -> L - idx < Z.of_nat fuel ->
    exists idx1, skip_left SR fuel idx start = Ok idx1 /\ idx <= idx1 <= L /\
      (forall i, idx <= i < idx1 -> en i < start) /\ (idx1 < L -> start <= en idx1).
  Proof.
    induction fuel as [|f IH]; intros idx Hidx Hfu; cbn [skip_left].
    - destruct ((idx <? L) && (en idx <? start)) eqn:E; [lia|].
      exists idx. split; [reflexivity|]. split; [lia|]. split; [intros i Hi; lia|intros; lia].
    - destruct ((idx <? L) && (en idx <? start)) eqn:E.
      + destruct (IH (idx + 1) ltac:(lia) ltac:(lia)) as (idx1 & E1 & H1 & H2 & H3).
        exists idx1. split; [exact E1|]. split; [lia|]. split; [|exact H3].
        intros i Hi. destruct (Z.eq_dec i idx) as [->|Hne]; [lia|apply H2; lia].
      + exists idx. split; [reflexivity|]. split; [lia|]. split; [intros i Hi; lia|intros; lia].
  Qed.

  (* ---------------------------------------------------------------- the loop over the 'interesting' items *)
  Definition Ujust (start end_ : Z) : Prop := exists x, start <= x <= end_ /\ sof x = unknown.
  Definition items_post (start end_ : Z) (out : list Z) (idx : Z) (out2 : list Z) (hasU2 : bool) (idx2 : Z) : Prop :=
    ss_sorted out2 /\ (hasU2 = true -> In unknown out2) /\ idx <= idx2 <= L /\
    (forall s, In s out -> In s out2) /\
    (forall i, idx <= i < idx2 -> In (sc i) out2 /\ st i <= end_) /\
    (forall k, idx <= k < idx2 -> 0 < k -> en (k - 1) + 1 < st k -> start < st k -> In unknown out2) /\
    (idx2 < L -> end_ < st idx2 /\ (0 < idx2 -> en (idx2 - 1) < end_ -> In unknown out2)) /\
    (forall s, In s out2 -> In s out \/ (exists i, idx <= i < idx2 /\ s = sc i) \/ (s = unknown /\ Ujust start end_)).

  Lemma items_post_stop start end_ out hasU idx :
    0 <= idx <= L -> ss_sorted out -> (hasU = true -> In unknown out) ->
    (idx < L -> end_ < st idx /\ (0 < idx -> en (idx - 1) < end_ -> In unknown out)) ->
    items_post start end_ out idx out hasU idx.
  Proof.
    intros Hidx Hso HU Hstop. unfold items_post.
    split; [exact Hso|]. split; [exact HU|]. split; [lia|]. split; [intros s H; exact H|].
    split; [intros i Hi; lia|]. split; [intros k Hk; lia|]. split; [exact Hstop|].
    intros s H; left; exact H.
  Qed.

  Lemma items_loop_spec start end_ : start <= end_ -> forall fuel out hasU idx,
    0 <= idx <= L -> L - idx < Z.of_nat fuel -> ss_sorted out -> (hasU = true -> In unknown out) ->
    exists out2 hasU2 idx2, items_loop SR unknown fuel out hasU idx start end_ = Ok (out2, hasU2, idx2) /\
      items_post start end_ out idx out2 hasU2 idx2.
  Proof.
    intros Hse. induction fuel as [|f IH]; intros out hasU idx Hidx Hfu Hso HU; cbn [items_loop].
    - destruct (Z.ltb_spec idx L) as [Hlt|Hge]; [lia|].
      exists out, hasU, idx. split; [reflexivity|]. apply items_post_stop; try assumption. intros; lia.
    - destruct (Z.ltb_spec idx L) as [Hlt|Hge].
      2:{ exists out, hasU, idx. split; [reflexivity|]. apply items_post_stop; try assumption. intros; lia. }
      destruct (Z.ltb_spec end_ (st idx)) as [Hgt|Hle].
      + (* item.Start > end: the Unknown check, then break *)
        destruct (negb hasU && (0 <? idx) && (en (idx - 1) <? end_)) eqn:Ec.
        * destruct (ss_insert_spec out unknown Hso) as (o & Eo & Hso2 & Hino). rewrite Eo. cbn [bind].
          exists o, true, idx. split; [reflexivity|].
          assert (Hc : 0 < idx /\ en (idx - 1) < end_) by (destruct hasU; cbn [negb andb] in Ec; [discriminate|lia]).
          unfold items_post. split; [exact Hso2|]. split; [intros _; apply Hino; left; reflexivity|].
          split; [lia|]. split; [intros s H; apply Hino; right; exact H|].
          split; [intros i Hi; lia|]. split; [intros k Hk; lia|].
          split; [intros _; split; [exact Hgt|intros _ _; apply Hino; left; reflexivity]|].
          intros s H. apply Hino in H. destruct H as [H|H]; [|left; exact H].
          right; right. split; [exact H|]. exists end_. split; [lia|].
          apply (script_of_gap idx); lia.
        * exists out, hasU, idx. split; [reflexivity|]. apply items_post_stop; try assumption.
          intros _. split; [exact Hgt|]. intros H1 H2. apply HU.
          destruct hasU; [reflexivity|]. cbn [negb andb] in Ec. lia.
      + (* item.Start <= end *)
        match goal with |- context [bind (if ?c then ?a else ?b) _] => set (ee := if c then a else b) end.
        assert (Hou : exists o1 h1, ee = Ok (o1, h1) /\
          ss_sorted o1 /\ (h1 = true -> In unknown o1) /\ (forall s, In s out -> In s o1) /\
          (forall s, In s o1 -> In s out \/ (s = unknown /\ Ujust start end_)) /\
          (0 < idx -> en (idx - 1) + 1 < st idx -> start < st idx -> In unknown o1)).
        { subst ee. destruct (negb hasU && (0 <? idx) && (en (idx - 1) + 1 <? st idx) && (start <? st idx)) eqn:Ec.
          - destruct (ss_insert_spec out unknown Hso) as (o & Eo & Hso2 & Hino). rewrite Eo. cbn [bind].
            exists o, true. split; [reflexivity|].
            assert (Hc : 0 < idx /\ en (idx - 1) + 1 < st idx /\ start < st idx)
              by (destruct hasU; cbn [negb andb] in Ec; [discriminate|lia]).
            split; [exact Hso2|]. split; [intros _; apply Hino; left; reflexivity|].
            split; [intros s H; apply Hino; right; exact H|].
            split; [|intros _ _ _; apply Hino; left; reflexivity].
            intros s H. apply Hino in H. destruct H as [H|H]; [|left; exact H].
            right. split; [exact H|]. exists (st idx - 1). split; [lia|].
            apply (script_of_gap idx); lia.
          - exists out, hasU. split; [reflexivity|]. split; [exact Hso|]. split; [exact HU|].
            split; [intros s H; exact H|]. split; [intros s H; left; exact H|].
            intros H1 H2 H3. apply HU. destruct hasU; [reflexivity|]. cbn [negb andb] in Ec. lia. }
        destruct Hou as (o1 & h1 & Eou & Hso1 & HU1 & Hmon1 & Hjust1 & Hgap1).
        rewrite Eou. cbn [bind fst snd].
        destruct (ss_insert_spec o1 (sc idx) Hso1) as (o2 & Eo2 & Hso2 & Hino2). rewrite Eo2. cbn [bind].
        destruct (IH o2 h1 (idx + 1) ltac:(lia) ltac:(lia) Hso2) as (out2 & hasU2 & idx2 & E & HP).
        { intros H. apply Hino2. right. apply HU1. exact H. }
        exists out2, hasU2, idx2. split; [exact E|].
        destruct HP as (P1 & P2 & P3 & P4 & P5 & P6 & P7 & P8). unfold items_post.
        split; [exact P1|]. split; [exact P2|]. split; [lia|].
        split; [intros s H; apply P4; apply Hino2; right; apply Hmon1; exact H|].
        split.
        { intros i Hi. destruct (Z.eq_dec i idx) as [->|Hne].
          - split; [apply P4; apply Hino2; left; reflexivity|exact Hle].
          - apply P5. lia. }
        split.
        { intros k Hk Hk0 Hg1 Hg2. destruct (Z.eq_dec k idx) as [->|Hne].
          - apply P4. apply Hino2. right. apply Hgap1; assumption.
          - apply (P6 k); [lia|assumption|assumption|assumption]. }
        split; [exact P7|].
        intros s H. apply P8 in H. destruct H as [H|[(i & Hi & Hsi)|H]].
        * apply Hino2 in H. destruct H as [H|H].
          -- right; left. exists idx. split; [lia|exact H].
          -- apply Hjust1 in H. destruct H as [H|H]; [left; exact H|right; right; exact H].
        * right; left. exists i. split; [lia|exact Hsi].
        * right; right. exact H.
  Qed.

  (* ---------------------------------------------------------------- one range: skip_left, then the items loop *)
  Lemma range_step lo start end_ out hasU idx :
    0 <= lo <= start -> start <= end_ -> 0 <= idx < L -> ss_sorted out -> (hasU = true -> In unknown out) ->
    (forall i, 0 <= i < idx -> st i < lo) ->
    (forall i, 0 <= i < idx -> en i < lo \/ In (sc i) out) ->
    exists idx1, skip_left SR (S (length SR)) idx start = Ok idx1 /\ idx <= idx1 <= L /\
      (forall i, idx <= i < idx1 -> en i < start) /\
      (idx1 < L -> exists out2 hasU2 idx2,
         items_loop SR unknown (S (length SR)) out hasU idx1 start end_ = Ok (out2, hasU2, idx2) /\
         0 <= idx2 <= L /\ ss_sorted out2 /\
         (forall s, In s out2 -> In s out \/ exists x, start <= x <= end_ /\ sof x = s) /\
         (forall s, In s out -> In s out2) /\
         (forall x, start <= x <= end_ -> In (sof x) out2 \/ (idx2 = L /\ en (L - 1) < x)) /\
         (hasU2 = true -> In unknown out2) /\
         (forall i, 0 <= i < idx2 -> st i <= end_) /\
         (forall i, 0 <= i < idx2 -> en i <= end_ \/ In (sc i) out2)).
  Proof.
    intros Hlo Hse Hidx Hso HU Hst Hen.
    assert (HLlen : L = Z.of_nat (length SR)) by reflexivity.
    destruct (skip_left_spec start (S (length SR)) idx ltac:(lia) ltac:(lia)) as (idx1 & E1 & B1 & Hskip & Hstop).
    exists idx1. split; [exact E1|]. split; [exact B1|]. split; [exact Hskip|].
    intros Hlt1. specialize (Hstop Hlt1).
    destruct (items_loop_spec start end_ Hse (S (length SR)) out hasU idx1 ltac:(lia) ltac:(lia) Hso HU)
      as (out2 & hasU2 & idx2 & E2 & P1 & P2 & P3 & P4 & P5 & P6 & P7 & P8).
    exists out2, hasU2, idx2. split; [exact E2|]. split; [lia|]. split; [exact P1|].
    split.
    { intros s H. apply P8 in H. destruct H as [H|[(i & Hi & Hsi)|(Hs & x & Hx & Hxs)]].
      - left; exact H.
      - right. destruct (P5 i Hi) as [_ Hsti].
        pose proof (en_mono idx1 i ltac:(lia) ltac:(lia)) as Hm. pose proof (sr_le i ltac:(lia)) as Hle.
        exists (Z.max start (st i)). split; [lia|]. rewrite Hsi. apply script_of_in; lia.
      - right. exists x. split; [exact Hx|]. rewrite Hs. exact Hxs. }
    split; [exact P4|].
    split.
    { intros x Hx. destruct (sr_tri x ltac:(lia)) as [(i & Hi & Hc)|[(k & Hk & Hg)|Hb]].
      - left. rewrite (script_of_in i x Hi Hc).
        destruct (Z_lt_le_dec i idx) as [Hi1|Hi1].
        { destruct (Hen i ltac:(lia)) as [H|H]; [lia|apply P4; exact H]. }
        destruct (Z_lt_le_dec i idx1) as [Hi2|Hi2].
        { pose proof (Hskip i ltac:(lia)). lia. }
        destruct (Z_lt_le_dec i idx2) as [Hi3|Hi3].
        { apply P5. lia. }
        exfalso. destruct (P7 ltac:(lia)) as [Q1 _].
        pose proof (st_mono idx2 i ltac:(lia) ltac:(lia)). lia.
      - rewrite (script_of_gap k x Hk Hg).
        destruct (Z_lt_le_dec k idx) as [Hk1|Hk1].
        { pose proof (Hst k ltac:(lia)). lia. }
        destruct (Z_lt_le_dec k idx1) as [Hk2|Hk2].
        { pose proof (Hskip k ltac:(lia)). pose proof (sr_le k ltac:(lia)). lia. }
        destruct (Z_lt_le_dec k idx2) as [Hk3|Hk3].
        { left. apply (P6 k); lia. }
        destruct (Z.eq_dec k idx2) as [Hk4|Hk4].
        { left. subst k. destruct (P7 ltac:(lia)) as [_ Q2]. apply Q2; lia. }
        exfalso. destruct (P7 ltac:(lia)) as [Q1 _].
        pose proof (en_mono idx2 (k - 1) ltac:(lia) ltac:(lia)). pose proof (sr_le idx2 ltac:(lia)). lia.
      - rewrite (script_of_beyond x Hb).
        destruct (Z_lt_le_dec idx2 L) as [Hlt2|Hge2]; [|right; split; [lia|exact Hb]].
        exfalso. destruct (P7 Hlt2) as [Q1 _].
        pose proof (en_mono idx2 (L - 1) ltac:(lia) ltac:(lia)). pose proof (sr_le idx2 ltac:(lia)). lia. }
    split; [exact P2|].
    split.
    { intros i Hi. destruct (Z_lt_le_dec i idx) as [Hi1|Hi1]; [pose proof (Hst i ltac:(lia)); lia|].
      destruct (Z_lt_le_dec i idx1) as [Hi2|Hi2].
      - pose proof (Hskip i ltac:(lia)). pose proof (sr_le i ltac:(lia)). lia.
      - apply P5. lia. }
    intros i Hi. destruct (Z_lt_le_dec i idx) as [Hi1|Hi1].
    { destruct (Hen i ltac:(lia)) as [H|H]; [left; lia|right; apply P4; exact H]. }
    destruct (Z_lt_le_dec i idx1) as [Hi2|Hi2].
    - left. pose proof (Hskip i ltac:(lia)). lia.
    - right. apply P5. lia.
  Qed.

  (* ---------------------------------------------------------------- the loop over the ranges *)
  Lemma ranges_loop_spec last_end : forall rest lo (D : Z -> Prop) out hasU idx,
    0 <= lo -> ranges_sorted_from lo rest = true ->
    (rest <> [] -> last_end = snd (last rest (0, 0))) ->
    0 <= idx < L -> ss_sorted out ->
    (forall s, In s out -> exists x, D x /\ sof x = s) ->
    (forall x, D x -> In (sof x) out) ->
    (hasU = true -> In unknown out) ->
    (forall i, 0 <= i < idx -> st i < lo) ->
    (forall i, 0 <= i < idx -> en i < lo \/ In (sc i) out) ->
    exists ss, ranges_loop SR unknown last_end rest out hasU idx = Ok ss /\ ss_sorted ss /\
      forall s, In s ss <-> exists x, (D x \/ in_ranges rest x = true) /\ sof x = s.
  Proof.
    induction rest as [|[start end_] rest IH]; intros lo D out hasU idx Hlo Hsorted Hlast Hidx Hso Hsound Hcomp HU Hst Hen.
    - exists out. split; [reflexivity|]. split; [exact Hso|]. intros s. split.
      + intros H. destruct (Hsound s H) as (x & Hx & Hs). exists x. split; [left; exact Hx|exact Hs].
      + intros (x & [Hx|Hx] & Hs); [rewrite <- Hs; apply Hcomp; exact Hx|discriminate].
    - pose proof Hsorted as Hsorted0.
      cbn [ranges_sorted_from] in Hsorted. apply andb_prop in Hsorted. destruct Hsorted as [Hb Hsorted'].
      assert (Hb' : lo <= start /\ start <= end_) by lia. clear Hb. destruct Hb' as [Hb1 Hb2].
      specialize (Hlast ltac:(discriminate)).
      destruct (last_end_max _ _ Hsorted0 ltac:(discriminate)) as [Hle_in Hle_max]. rewrite <- Hlast in Hle_in, Hle_max.
      assert (Hrest_lo : forall x, in_ranges rest x = true -> end_ + 1 <= x)
        by (intros x Hx; apply (ranges_from_lo _ _ _ Hsorted' Hx)).
      destruct (range_step lo start end_ out hasU idx ltac:(lia) Hb2 Hidx Hso HU Hst Hen)
        as (idx1 & E1 & B1 & Hskip & Hitems).
      cbn [ranges_loop]. rewrite E1. cbn [bind].
      destruct (Z.leb_spec L idx1) as [Hge1|Hlt1].
      + (* the ranges are beyond the table *)
        destruct (ss_insert_spec out unknown Hso) as (ss & Ess & Hsss & Hinss).
        exists ss. split; [exact Ess|]. split; [exact Hsss|].
        assert (Hbey : en (L - 1) < start) by (apply Hskip; lia).
        intros s. rewrite Hinss. split.
        * intros [H|H].
          -- exists start. split; [right; apply in_ranges_cons; left; lia|].
             rewrite H. apply script_of_beyond. exact Hbey.
          -- destruct (Hsound s H) as (x & Hx & Hs). exists x. split; [left; exact Hx|exact Hs].
        * intros (x & [Hx|Hx] & Hs); [right; rewrite <- Hs; apply Hcomp; exact Hx|].
          assert (Hxs : start <= x).
          { apply in_ranges_cons in Hx. destruct Hx as [Hx|Hx]; [lia|]. specialize (Hrest_lo x Hx). lia. }
          rewrite <- Hs.
          destruct (script_of_cases SR unknown x) as [(i & Hi & Hc & Ei)|(_ & Eu)]; [|left; exact Eu].
          right. rewrite Ei. destruct (Z_lt_le_dec i idx) as [Hi1|Hi1].
          -- destruct (Hen i ltac:(lia)) as [H|H]; [lia|exact H].
          -- pose proof (Hskip i ltac:(lia)). lia.
      + destruct (Hitems Hlt1) as (out2 & hasU2 & idx2 & E2 & B2 & Hso2 & S3 & S4 & S5 & S6 & S7 & S8).
        rewrite E2. cbn [bind].
        assert (Hsound2 : forall s, In s out2 -> exists x, (D x \/ in_ranges ((start, end_) :: rest) x = true) /\ sof x = s).
        { intros s H. apply S3 in H. destruct H as [H|(x & Hx & Hs)].
          - destruct (Hsound s H) as (x & Hx & Hs). exists x. split; [left; exact Hx|exact Hs].
          - exists x. split; [right; apply in_ranges_cons; left; exact Hx|exact Hs]. }
        destruct (Z.leb_spec L idx2) as [Hge2|Hlt2].
        * (* all the table entries are consumed *)
          assert (Hrest_in : forall x i, in_ranges rest x = true -> 0 <= i < L -> st i <= x <= en i -> In (sc i) out2).
          { intros x i Hx Hi Hc. specialize (Hrest_lo x Hx). destruct (S8 i ltac:(lia)) as [H|H]; [lia|exact H]. }
          destruct (Z.ltb_spec (en (L - 1)) last_end) as [Hlast_b|Hlast_b].
          -- destruct (ss_insert_spec out2 unknown Hso2) as (ss & Ess & Hsss & Hinss).
             exists ss. split; [exact Ess|]. split; [exact Hsss|].
             intros s. rewrite Hinss. split.
             ++ intros [H|H]; [|apply Hsound2; exact H].
                exists last_end. split; [right; exact Hle_in|]. rewrite H. apply script_of_beyond. exact Hlast_b.
             ++ intros (x & [Hx|Hx] & Hs); [right; apply S4; rewrite <- Hs; apply Hcomp; exact Hx|].
                rewrite <- Hs. apply in_ranges_cons in Hx. destruct Hx as [Hx|Hx].
                ** destruct (S5 x Hx) as [H|[_ H]]; [right; exact H|left; apply script_of_beyond; exact H].
                ** destruct (script_of_cases SR unknown x) as [(i & Hi & Hc & Ei)|(_ & Eu)]; [|left; exact Eu].
                   right. rewrite Ei. apply (Hrest_in x i Hx Hi Hc).
          -- exists out2. split; [reflexivity|]. split; [exact Hso2|].
             intros s. split; [apply Hsound2|].
             intros (x & [Hx|Hx] & Hs); [apply S4; rewrite <- Hs; apply Hcomp; exact Hx|].
             rewrite <- Hs. pose proof (Hle_max x Hx) as Hxmax.
             apply in_ranges_cons in Hx. destruct Hx as [Hx|Hx].
             ** destruct (S5 x Hx) as [H|[_ H]]; [exact H|lia].
             ** pose proof (Hrest_lo x Hx) as Hxlo.
                destruct (sr_tri x ltac:(lia)) as [(i & Hi & Hc)|[(k & Hk & Hg)|Hbey]].
                --- rewrite (script_of_in i x Hi Hc). apply (Hrest_in x i Hx Hi Hc).
                --- pose proof (S7 k ltac:(lia)). lia.
                --- lia.
        * (* next range *)
          destruct (IH (end_ + 1) (fun x => D x \/ start <= x <= end_) out2 hasU2 idx2) as (ss & Ess & Hsss & Hinss).
          -- lia.
          -- exact Hsorted'.
          -- intros Hne. rewrite Hlast. destruct rest as [|p r]; [congruence|]. reflexivity.
          -- lia.
          -- exact Hso2.
          -- intros s H. apply S3 in H. destruct H as [H|(x & Hx & Hs)].
             ++ destruct (Hsound s H) as (x & Hx & Hs). exists x. split; [left; exact Hx|exact Hs].
             ++ exists x. split; [right; exact Hx|exact Hs].
          -- intros x [Hx|Hx]; [apply S4; apply Hcomp; exact Hx|].
             destruct (S5 x Hx) as [H|[H _]]; [exact H|lia].
          -- exact S6.
          -- intros i Hi. pose proof (S7 i Hi). lia.
          -- intros i Hi. destruct (S8 i Hi) as [H|H]; [left; lia|right; exact H].
          -- exists ss. split; [exact Ess|]. split; [exact Hsss|].
             intros s. rewrite Hinss. split.
             ++ intros (x & [[Hx|Hx]|Hx] & Hs); exists x; (split; [|exact Hs]).
                ** left; exact Hx.
                ** right; apply in_ranges_cons; left; exact Hx.
                ** right; apply in_ranges_cons; right; exact Hx.
             ++ intros (x & [Hx|Hx] & Hs); exists x; (split; [|exact Hs]).
                ** left; left; exact Hx.
                ** apply in_ranges_cons in Hx. destruct Hx as [Hx|Hx]; [left; right; exact Hx|right; exact Hx].
  Qed.

  Lemma scripts_from_ranges_exact_sec ranges : ranges_ok ranges = true ->
    exists ss, scripts_from_ranges SR unknown ranges = Ok ss /\ ss_sorted ss /\
      forall s, In s ss <-> exists x, in_ranges ranges x = true /\ sof x = s.
  Proof.
    intros Hr. unfold scripts_from_ranges. pose proof L_pos as HL.
    destruct (ranges_loop_spec (snd (last ranges (0, 0))) ranges 0 (fun _ => False) [] false 0)
      as (ss & E & Hs & Hin).
    - lia.
    - exact Hr.
    - intros _; reflexivity.
    - lia.
    - exact I.
    - intros s [].
    - intros x [].
    - discriminate.
    - intros i Hi; lia.
    - intros i Hi; lia.
    - exists ss. split; [exact E|]. split; [exact Hs|].
      intros s. rewrite Hin. split.
      + intros (x & [[]|Hx] & Hsx). exists x. split; assumption.
      + intros (x & Hx & Hsx). exists x. split; [right; exact Hx|exact Hsx].
  Qed.
End RangesProof.

(* scriptsFromRanges: total, strictly increasing, and exactly the scripts of the runes of the ranges *)
Lemma scripts_from_ranges_exact : forall SR unknown ranges, sr_ok SR = true -> ranges_ok ranges = true ->
  exists ss, scripts_from_ranges SR unknown ranges = Ok ss /\ ss_sorted ss /\
    forall s, In s ss <-> exists x, in_ranges ranges x = true /\ script_of SR unknown x = s.
Proof. intros SR unknown ranges Hsr Hr. apply scripts_from_ranges_exact_sec; assumption. Qed.

(* the two paths of newCoveragesFromCmap agree: the range path gives the set of scripts of the runes *)
Lemma scripts_from_ranges_eq_runes : forall SR unknown ranges runes, sr_ok SR = true -> ranges_ok ranges = true ->
  (forall x, In x runes <-> in_ranges ranges x = true) ->
  exists ss1 ss2, scripts_from_ranges SR unknown ranges = Ok ss1 /\ scripts_from_runes SR unknown runes [] = Ok ss2 /\
    forall s, In s ss1 <-> In s ss2.
Proof.
  intros SR unknown ranges runes Hsr Hr Hsame.
  destruct (scripts_from_ranges_exact SR unknown ranges Hsr Hr) as (ss1 & E1 & _ & H1).
  destruct (scripts_from_runes_exact SR unknown runes) as (ss2 & E2 & _ & H2).
  exists ss1, ss2. split; [exact E1|]. split; [exact E2|].
  intros s. rewrite H1, H2. split; intros (x & Hx & Hs); exists x; (split; [apply Hsame; exact Hx|exact Hs]).
Qed.

(* a strictly increasing list is determined by its members, so the two paths return the same slice *)
Lemma ss_sorted_ext : forall a b, ss_sorted a -> ss_sorted b -> (forall x, In x a <-> In x b) -> a = b.
Proof.
  induction a as [|x a IH]; intros b Ha Hb Hab.
  - destruct b as [|y b]; [reflexivity|]. exfalso. apply (Hab y). left; reflexivity.
  - destruct b as [|y b]; [exfalso; apply (Hab x); left; reflexivity|].
    apply ss_sorted_cons in Ha. destruct Ha as [Ha1 Ha2].
    apply ss_sorted_cons in Hb. destruct Hb as [Hb1 Hb2].
    assert (x = y).
    { destruct (proj1 (Hab x) (or_introl eq_refl)) as [H|H]; [symmetry; exact H|].
      destruct (proj2 (Hab y) (or_introl eq_refl)) as [H'|H']; [exact H'|].
      specialize (Ha1 y H'). specialize (Hb1 x H). lia. }
    subst y. f_equal. apply IH; [exact Ha2|exact Hb2|].
    intros z. split; intros Hz.
    + destruct (proj1 (Hab z) (or_intror Hz)) as [H|H]; [|exact H]. specialize (Ha1 z Hz). lia.
    + destruct (proj2 (Hab z) (or_intror Hz)) as [H|H]; [|exact H]. specialize (Hb1 z Hz). lia.
Qed.
Lemma scripts_from_ranges_eq_runes_slice : forall SR unknown ranges runes, sr_ok SR = true -> ranges_ok ranges = true ->
  (forall x, In x runes <-> in_ranges ranges x = true) ->
  exists ss, scripts_from_ranges SR unknown ranges = Ok ss /\ scripts_from_runes SR unknown runes [] = Ok ss.
Proof.
  intros SR unknown ranges runes Hsr Hr Hsame.
  destruct (scripts_from_ranges_exact SR unknown ranges Hsr Hr) as (ss1 & E1 & S1 & H1).
  destruct (scripts_from_runes_exact SR unknown runes) as (ss2 & E2 & S2 & H2).
  assert (ss1 = ss2).
  { apply ss_sorted_ext; [exact S1|exact S2|].
    intros s. rewrite H1, H2. split; intros (x & Hx & Hs); exists x; (split; [apply Hsame; exact Hx|exact Hs]). }
  subst ss2. exists ss1. split; assumption.
Qed.
