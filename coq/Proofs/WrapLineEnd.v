(* C03: every line a WrapNextLine call returns while the wrapper stays live ends at a position the policy permits: a UAX #14
   opportunity, or - for policies other than Never - a UAX #29 grapheme cluster boundary.
   (That it is a cluster boundary of every run is C02 wrapped_pieces_exact.)
   BG: a grapheme option pending re-issue was read from the segmenter's grapheme flags (the counterpart of BW of
   Proofs/WrapMand.v for the grapheme iterator), an invariant of every call sequence.  FL: the best line ends at a flagged
   position, through both loops of wrapNextLine outside the truncating line. *)
From TV Require Import Model.Wrap Spec.Wrap Spec.WrapCut Proofs.Wrap Proofs.WrapCut Proofs.WrapLines Proofs.WrapTotal Proofs.WrapStore
  Proofs.WrapMand Proofs.WrapMand2 Proofs.WrapTrunc Proofs.WrapWidth Proofs.WrapValid.

Definition BG (b : breaker) : Prop :=
  0 <= b_gpos b /\ (b_isUnusedG b = true -> grapheme_boundary (b_attrs b) (fst (b_unusedG b) + 1) = true).

Lemma BG_new : forall attrs, BG (new_breaker attrs).
Proof. intros. unfold BG, new_breaker; cbn. split; [lia|discriminate]. Qed.

Definition gsig (b : breaker) := (b_gpos b, b_unusedG b, b_isUnusedG b, b_attrs b).
Lemma BG_gsig : forall b b', gsig b' = gsig b -> BG b -> BG b'.
Proof. intros b b' H. unfold gsig in H. inversion H. unfold BG. congruence. Qed.

Lemma nwb_gsig : forall b b' ro, next_word_break b = (b', ro) -> gsig b' = gsig b.
Proof.
  intros b b' ro H. unfold next_word_break in H. destruct (b_isUnusedW b).
  - inversion H; subst; reflexivity.
  - unfold next_word_raw in H. destruct (iter_next _ _ _ _) as [p ok]. destruct ok; inversion H; subst; reflexivity.
Qed.

(* nextGraphemeBreak hands out flagged options only, stores the option it hands out, and keeps BG *)
Lemma ngb_BG : forall fuel b b' ro, BG b -> next_grapheme_break fuel b = Ok (b', ro) ->
  BG b' /\ b_attrs b' = b_attrs b
  /\ (forall o, ro = Some o -> grapheme_boundary (b_attrs b) (fst o + 1) = true /\ b_unusedG b' = o).
Proof.
  induction fuel as [|fuel IH]; intros b b' ro (H0 & H1) H; cbn [next_grapheme_break] in H; [discriminate|].
  set (rd := if b_isUnusedG b then (set_unusedG b (b_unusedG b) false, Some (b_unusedG b)) else next_grapheme_raw b) in H.
  assert (R : exists b1 r, rd = (b1, r) /\ 0 <= b_gpos b1 /\ b_attrs b1 = b_attrs b /\ b_isUnusedG b1 = false
              /\ (forall o, r = Some o -> grapheme_boundary (b_attrs b) (fst o + 1) = true)).
  { unfold rd. destruct (b_isUnusedG b) eqn:F.
    - eexists _, _. split; [reflexivity|]. cbn. split; [exact H0|]. split; [reflexivity|]. split; [reflexivity|].
      intros o E. injection E as <-. exact (H1 eq_refl).
    - destruct (next_grapheme_raw b) as [b1 r] eqn:NR. exists b1, r. split; [reflexivity|].
      unfold next_grapheme_raw in NR. destruct (iter_next (b_attrs b) (b_n b) fl_grapheme (b_gpos b)) as [p ok] eqn:E. destruct ok.
      + apply iter_next_spec in E; [|exact H0]. destruct E as (E1 & E2 & E3). inversion NR; subst; clear NR. cbn.
        split; [lia|]. split; [reflexivity|]. split; [exact F|]. intros o Eo. injection Eo as <-. cbn [fst].
        replace (p - 1 + 1) with p by lia. unfold grapheme_boundary, attr_at. exact E2.
      + apply iter_next_false in E. destruct E as [E _]. inversion NR; subst; clear NR. cbn.
        split; [lia|]. split; [reflexivity|]. split; [exact F|]. intros o Eo. discriminate Eo. }
  destruct R as (b1 & r & -> & G0 & GA & GF & GR).
  destruct r as [o|].
  2:{ inversion H; subst b' ro; clear H. split; [split; [exact G0|rewrite GF; discriminate]|]. split; [exact GA|]. intros o Eo; discriminate Eo. }
  destruct ((fst o <=? fst (b_prevW b1)) && (0 <? fst (b_prevW b1))).
  - destruct (IH b1 b' ro ltac:(split; [exact G0|rewrite GF; discriminate]) H) as (I1 & I2 & I3).
    split; [exact I1|]. split; [congruence|]. intros o' Eo. destruct (I3 o' Eo) as [A B]. rewrite GA in A. split; assumption.
  - pose proof (GR o eq_refl) as Fo.
    destruct (fst (b_unusedW b1) <? fst o); inversion H; subst b' ro; clear H; cbn.
    + split; [split; [exact G0|intros _; cbn; rewrite GA; exact Fo]|]. split; [exact GA|]. intros o' Eo; discriminate Eo.
    + split; [split; [exact G0|cbn; rewrite GF; discriminate]|]. split; [exact GA|]. intros o' Eo. injection Eo as <-. split; [exact Fo|reflexivity].
Qed.

Lemma BG_mark_g : forall b, BG b -> grapheme_boundary (b_attrs b) (fst (b_unusedG b) + 1) = true -> BG (mark_grapheme_unused b).
Proof. intros b (H0 & H1) F. unfold BG; cbn. split; [exact H0|intros _; exact F]. Qed.

Lemma inner_BG : forall fuel w wopt lc w' d, BG (w_br w) -> inner_loop fuel w wopt lc = Ok (w', d) -> BG (w_br w').
Proof.
  induction fuel as [|fuel IH]; intros w wopt lc w' d HB H; cbn [inner_loop] in H; [discriminate|].
  destruct (br_ops w (w_br w) []) as (C1 & _). rewrite C1 in H.
  destruct (next_grapheme_break _ (w_br w)) as [[b1 ro]| | |] eqn:NG; cbn [bind fst snd] in H; try discriminate.
  destruct (ngb_BG _ _ _ _ HB NG) as (HB1 & HA1 & HO).
  destruct ro as [opt|]; [|apply fallback_br in H; rewrite H; destruct (br_ops (checkpoint w) b1 []) as (_ & _ & E & _); rewrite E; exact HB1].
  destruct (HO opt eq_refl) as [Fo Uo].
  destruct (process_break_option _ opt lc) as [[[w3 r] cand]| | |] eqn:PB; cbn [bind] in H; try discriminate.
  apply pbo_br in PB. destruct (br_ops (checkpoint w) b1 []) as (_ & _ & E & _). rewrite E in PB.
  assert (Mw : BG (mark_word_unused b1)) by (apply (BG_gsig b1); [reflexivity|exact HB1]).
  destruct r.
  - apply IH in H; [exact H|]. destruct (br_ops w3 b1 []) as (_ & E2 & _). rewrite E2, PB. exact HB1.
  - injection H as E1 _; rewrite <- E1. destruct (br_ops w3 b1 [cand]) as (_ & _ & _ & E2). rewrite E2, PB. exact HB1.
  - injection H as E1 _; rewrite <- E1. destruct (has_best w3); [rewrite PB; exact HB1|].
    destruct (br_ops (restore w3) b1 []) as (_ & _ & _ & E2). destruct (br_ops w3 b1 []) as (_ & E3 & _). rewrite E2, E3, PB. exact HB1.
  - cbv zeta in H. injection H as E1 _; rewrite <- E1.
    match goal with |- BG (w_br (set_br ?x ?y)) => destruct (br_ops x y []) as (_ & _ & E2 & _); rewrite E2 end.
    rewrite ?(proj1 (proj2 (br_ops w3 b1 []))), PB.
    apply BG_mark_g; [exact Mw|]. cbn. rewrite Uo, HA1. exact Fo.
  - rewrite PB in H. apply IH in H; [exact H|].
    destruct (br_ops (mark_best w3 [cand]) (mark_word_unused b1) []) as (_ & _ & E2 & _). rewrite E2. exact Mw.
  - destruct (lc_truncating lc); injection H as E1 _; rewrite <- E1; [rewrite PB; exact HB1|].
    destruct (br_ops (mark_best w3 [cand]) (mark_word_unused (w_br w3)) []) as (_ & _ & E2 & _). rewrite E2, PB. exact Mw.
Qed.

Lemma outer_BG : forall fuel w lc w' d, BG (w_br w) -> outer_loop fuel w lc = Ok (w', d) -> BG (w_br w').
Proof.
  induction fuel as [|fuel IH]; intros w lc w' d HB H; cbn [outer_loop] in H; [discriminate|].
  destruct (br_ops w (w_br w) []) as (C1 & _). rewrite C1 in H.
  destruct (next_word_break (w_br w)) as [b1 ro] eqn:NW.
  pose proof (BG_gsig _ _ (nwb_gsig _ _ _ NW) HB) as HB1.
  destruct (br_ops (checkpoint w) b1 []) as (_ & _ & E & _).
  destruct ro as [opt|]; [|injection H as E1 _; rewrite <- E1; rewrite E; exact HB1].
  destruct (process_break_option _ opt lc) as [[[w3 r] cand]| | |] eqn:PB; cbn [bind] in H; try discriminate.
  apply pbo_br in PB. rewrite E in PB.
  assert (Mw : BG (mark_word_unused b1)) by (apply (BG_gsig b1); [reflexivity|exact HB1]).
  assert (Dw : BG (discard_word b1)) by (apply (BG_gsig b1); [reflexivity|exact HB1]).
  assert (G : forall wx, w_br wx = b1 \/ w_br wx = mark_word_unused b1 -> inner_loop (br_fuel wx) (restore wx) opt lc = Ok (w', d) -> BG (w_br w')).
  { intros wx Hx Hi. apply inner_BG in Hi; [exact Hi|]. destruct (br_ops wx b1 []) as (_ & E2 & _). rewrite E2. destruct Hx as [-> | ->]; assumption. }
  destruct r; cbv zeta in H.
  - apply IH in H; [exact H|]. destruct (br_ops (restore w3) (discard_word (w_br (restore w3))) []) as (_ & _ & E3 & _). rewrite E3.
    destruct (br_ops w3 b1 []) as (_ & E2 & _). rewrite E2, PB. exact Dw.
  - injection H as E1 _; rewrite <- E1. destruct (br_ops w3 b1 [cand]) as (_ & _ & _ & E2). rewrite E2, PB. exact HB1.
  - assert (E2 : w_br (if has_best w3 then w3 else mark_best (restore w3) []) = b1).
    { destruct (has_best w3); [exact PB|]. destruct (br_ops (restore w3) b1 []) as (_ & _ & _ & E2). destruct (br_ops w3 b1 []) as (_ & E3 & _). rewrite E2, E3. exact PB. }
    destruct (policy_never _); [injection H as E1 _; rewrite <- E1; rewrite E2; exact HB1|]. apply (G _ (or_introl E2) H).
  - destruct (br_ops (restore w3) (mark_word_unused (w_br (restore w3))) []) as (_ & _ & E2 & _).
    destruct (br_ops w3 b1 []) as (_ & E3 & _). rewrite E3, PB in *.
    destruct (_ || _); [injection H as E1 _; rewrite <- E1; rewrite E2; exact Mw|]. apply (G _ (or_intror E2) H).
  - destruct (br_ops w3 b1 [cand]) as (_ & _ & _ & E2).
    destruct (snd opt); [injection H as E1 _; rewrite <- E1; rewrite E2, PB; exact HB1|]. apply IH in H; [exact H|]. rewrite E2, PB. exact HB1.
  - destruct (policy_never w3).
    + destruct (lc_truncating lc); injection H as E1 _; rewrite <- E1; [rewrite PB; exact HB1|].
      destruct (br_ops w3 b1 [cand]) as (_ & _ & _ & E2). rewrite E2, PB. exact HB1.
    + apply (G _ (or_introl PB) H).
Qed.

Lemma wnl_BG : forall w mw w' wl d, BG (w_br w) -> wrap_next_line w mw = Ok (w', wl, d) -> BG (w_br w').
Proof.
  intros w mw w' wl d HB H. unfold wrap_next_line in H. destruct (negb (w_more w)); [inversion H; subst; exact HB|].
  destruct (peek w) as [[ci run] hasFirst]. destruct (negb hasFirst).
  - inversion H as [PP]. apply post_process_br in PP. rewrite PP. exact HB.
  - destruct (outer_loop _ (start_line w) _) as [[w2 d2]| | |] eqn:OL; cbn [bind] in H; try discriminate.
    apply outer_BG in OL; [|destruct w; exact HB]. inversion H as [PP]. apply post_process_br in PP. rewrite PP. exact OL.
Qed.

Lemma run_calls_BG : forall widths w w' rs, BG (w_br w) -> run_calls w widths = Ok (w', rs) -> BG (w_br w').
Proof.
  induction widths as [|mw rest IH]; intros w w' rs HB H; cbn [run_calls] in H; [inversion H; subst; exact HB|].
  destruct (wrap_next_line w mw) as [[[w1 wl] d]| | |] eqn:WN; cbn [bind] in H; try discriminate.
  destruct (run_calls w1 rest) as [[w2 rs2]| | |] eqn:RC; cbn [bind fst snd] in H; try discriminate.
  inversion H; subst. eapply IH; [|exact RC]. eapply wnl_BG; eauto.
Qed.

(* ---- the best line ends at a flagged position ---------------------------------------------------------------------- *)

Definition flagged (attrs : list Z) (pol p : Z) : Prop :=
  line_boundary attrs p = true \/ (pol <> 1 /\ grapheme_boundary attrs p = true).
Definition FL (attrs : list Z) (w : W) : Prop := has_best w = true -> flagged attrs (c_policy (w_cfg w)) (best_end w).

Lemma FL_same : forall attrs w w', w_cfg w' = w_cfg w -> s_best (w_sc w') = s_best (w_sc w) -> w_start w' = w_start w -> FL attrs w -> FL attrs w'.
Proof. intros attrs w w' A B C H. unfold FL, has_best, best_end in *. rewrite A, B, C. exact H. Qed.

Section LineEnd.
Variables (n : Z) (attrs : list Z).

Lemma inner_L : forall fuel w wopt lc w' d,
  JT n w -> OrdI w -> 1 <= b_wpos (w_br w) <= n -> fst (b_unusedW (w_br w)) = b_wpos (w_br w) - 1 ->
  fst wopt = b_wpos (w_br w) - 1 -> XI n w ->
  BG (w_br w) -> b_attrs (w_br w) = attrs -> lc_truncating lc = false -> c_policy (w_cfg w) <> 1 ->
  line_boundary attrs (fst wopt + 1) = true -> FL attrs w ->
  inner_loop fuel w wopt lc = Ok (w', d) -> FL attrs w'.
Proof.
  induction fuel as [|fuel IH]; intros w wopt lc w' d HT HO HW HU HWo HX HBG HAt Hlc Hpol HLw HFL H; cbn [inner_loop] in H; [discriminate|].
  destruct (JT_checkpoint n w HT) as (T1 & Csv & Calt & Cbe & Cbr & Cbest).
  pose proof (XI_checkpoint n w HX) as XC1.
  set (w1 := checkpoint w) in *.
  destruct (next_grapheme_break (br_fuel w1) (w_br w1)) as [[b1 ro]| | |] eqn:NG; cbn [bind fst snd] in H; try discriminate.
  pose proof T1 as ((_ & B1 & _) & _).
  destruct (ngb_spec n _ _ _ _ B1 NG) as (Bb1 & SW & UGm & X & Y). rewrite Cbr in SW, UGm, X, Y.
  assert (HBGw1 : BG (w_br w1)) by (rewrite Cbr; exact HBG).
  destruct (ngb_BG _ _ _ _ HBGw1 NG) as (HBG1 & HA1 & HO1). rewrite Cbr in HA1, HO1.
  destruct SW as (S1 & S2 & S3 & S4 & S5).
  pose proof (JT_set_br n w1 b1 T1 Bb1) as T2.
  destruct (set_br_proj w1 b1) as (Q1 & Q2 & Q3 & Q4 & Q5).
  assert (Q6 : best_end (set_br w1 b1) = best_end w) by (rewrite best_end_set_br; exact Cbe).
  assert (Q7 : w_start w1 = w_start w) by (destruct w; reflexivity).
  pose proof (XI_set_br n w1 b1 XC1) as XC2.
  assert (Cf2 : w_cfg (set_br w1 b1) = w_cfg w) by (unfold w1; destruct w; reflexivity).
  set (w2 := set_br w1 b1) in *.
  rewrite Calt in Q1. rewrite Csv in Q5. rewrite Cbest in Q4. rewrite Q7 in Q3.
  destruct (Bk_ug_n n _ Bb1) as (G1 & G2 & G3).
  set (b := w_br w) in *.
  assert (FL2 : FL attrs w2) by (apply (FL_same attrs w w2 Cf2 Q4 Q3 HFL)).
  destruct ro as [opt|].
  2:{ cbv beta iota zeta in H.
      assert (Rw2 : restore w2 = w2) by (unfold w2, w1; destruct w as [? ? ? ? ? ? ? ? ? [? ? ? ? ?] ?]; reflexivity).
      unfold word_fallback in H.
      destruct (negb (lc_truncating lc) && negb (has_best w2)) eqn:FB; [|injection H as <- <-; exact FL2].
      apply andb_prop in FB. destruct FB as [FB1 FB2]. apply negb_true_iff in FB1, FB2.
      pose proof FB2 as FB2'. rewrite (has_best_same w w2 Q4) in FB2. rewrite Rw2 in H.
      assert (Hord : s_alt (w_sc w2) <> [] -> lend (w_start w2) (s_alt (w_sc w2)) <= fst wopt).
      { rewrite Q1. rewrite (JT_no_best_alt n w HT FB2). congruence. }
      destruct (pbo_safe2 n w2 wopt lc (proj1 (proj1 T2)) XC2 ltac:(fold b in HWo, HW; lia) Hord) as (w3 & r & cand & PB & XC3 & Sk3 & Fin3 & Inv3).
      rewrite PB in H. cbn [bind] in H.
      destruct (JP_pbo n w2 wopt lc w3 r cand (proj1 T2) ltac:(fold b in HWo, HW; lia) Hord PB) as (P3 & F3 & BE3 & LE3 & C3 & L3).
      destruct F3 as (F3c & _ & F3s & _ & _ & _ & F3b & F3v & F3best).
      rewrite Q5 in F3v. rewrite Q4 in F3best. rewrite Q3 in F3s. rewrite Cf2 in F3c.
      cbv beta iota zeta in H.
      assert (Hcase : (r = BreakInvalid /\ w' = restore w3) \/ (r <> BreakInvalid /\ w' = mark_best w3 [cand])).
      { destruct r; injection H as <- <-; first [left; split; reflexivity | right; split; [discriminate|reflexivity]]. }
      clear H. destruct Hcase as [(Hr & ->)|(Hr & ->)].
      - intros Hh. exfalso. rewrite (has_best_same w3 (restore w3) ltac:(destruct w3; reflexivity)), (has_best_same w w3 F3best) in Hh. congruence.
      - intros _. destruct (C3 Hr) as (C31 & C32 & C33). rewrite Q3 in C31.
        assert (Hsv : lend (w_start w3) (s_save (w_sc w3)) <= fst wopt + 1).
        { rewrite F3v, F3s, (JT_no_best_alt n w HT FB2). unfold lend; cbn. lia. }
        destruct (JT_mark_best n w3 cand (fst wopt + 1) P3 C33 C32 Hsv ltac:(fold b in HWo, HW; lia)) as [T4 BE4].
        rewrite BE4. left. exact HLw. }
  destruct X as (X1 & X2 & X3 & X4 & X5 & X6 & X7 & X8).
  destruct (HO1 opt eq_refl) as [Fo Uo]. fold b in Fo. rewrite HAt in Fo.
  assert (X1' : fst opt = fst (b_unusedG b1)) by (rewrite X1; reflexivity).
  pose proof Bb1 as (_ & _ & _ & Hpw1 & _).
  assert (Hord : s_alt (w_sc w2) <> [] -> lend (w_start w2) (s_alt (w_sc w2)) <= fst opt).
  { rewrite Q1, Q3. intros Hne. destruct (HO Hne) as [O1|O1]; fold b in O1; lia. }
  destruct (pbo_safe2 n w2 opt lc (proj1 (proj1 T2)) XC2 ltac:(lia) Hord) as (w3 & r & cand & PB & XC3 & Sk3 & Fin3 & Inv3).
  rewrite PB in H. cbn [bind] in H.
  destruct (JP_pbo n w2 opt lc w3 r cand (proj1 T2) ltac:(lia) Hord PB) as (P3 & F3 & BE3 & LE3 & C3 & L3).
  destruct (pbo_kind _ _ _ _ _ _ PB) as (K1 & K2 & K3).
  destruct F3 as (F3c & _ & F3s & _ & F3r & _ & F3b & F3v & F3best).
  rewrite Q2 in F3b. rewrite Q5 in F3v. rewrite Q4 in F3best. rewrite Q3 in F3s, LE3. rewrite Q1 in LE3. rewrite Cf2 in F3c.
  assert (Mw : Bk n (mark_word_unused b1)) by (apply Bk_mark_word; [exact Bb1|rewrite S1; exact HW|rewrite S1, S2; exact HU]).
  rewrite Q1, Q3 in Hord. rewrite Q3 in C3.
  assert (Hsv : r <> BreakInvalid -> lend (w_start w3) (s_save (w_sc w3)) <= fst opt).
  { intros Hr'. destruct (C3 Hr') as (C31 & _). rewrite F3v, F3s. destruct (s_alt (w_sc w)) eqn:A; [unfold lend; cbn; lia|].
    apply Hord. congruence. }
  assert (Best1 : r <> BreakInvalid -> XI n (mark_best w3 [cand]) /\ JT n (mark_best w3 [cand])
                   /\ best_end (mark_best w3 [cand]) = fst opt + 1).
  { intros Hr'. destruct (C3 Hr') as (C31 & C32 & C33). destruct (Fin3 Hr') as [FP FC].
    destruct (JT_mark_best n w3 cand (fst opt + 1) P3 C33 C32 ltac:(specialize (Hsv Hr'); lia) ltac:(lia)) as [T4 BE4].
    split; [eapply XI_mark_best1; eauto|split; [exact T4|exact BE4]]. }
  destruct (mark_best_proj w3 [cand]) as (M1 & M2 & M3 & M4).
  destruct (restore_proj w3) as (R1 & R2 & R3 & R4).
  assert (FL3 : FL attrs w3) by (apply (FL_same attrs w w3 F3c F3best F3s HFL)).
  assert (Pol3 : c_policy (w_cfg w3) <> 1) by (rewrite F3c; exact Hpol).
  (* the line recorded at this grapheme option ends at a grapheme boundary *)
  assert (FLm : r <> BreakInvalid -> forall wx, w_cfg wx = w_cfg w3 -> best_end wx = fst opt + 1 -> FL attrs wx).
  { intros Hr' wx Cx Bx _. rewrite Bx, Cx. right. split; [exact Pol3|exact Fo]. }
  destruct r.
  - (* BreakInvalid *)
    apply (IH (restore w3) wopt lc w' d); [apply JT_restore; exact P3| | | | |apply XI_restore; exact XC3| | | | | | |exact H].
    + unfold OrdI. rewrite R1, R2, R3, F3v, F3s, F3b. intros Hne. destruct (HO Hne) as [O|O]; fold b in O; [left; rewrite S3; exact O|right; lia].
    + rewrite R2, F3b, S1. exact HW.
    + rewrite R2, F3b, S1, S2. exact HU.
    + rewrite R2, F3b, S1. exact HWo.
    + rewrite R2, F3b. exact HBG1.
    + rewrite R2, F3b, HA1. exact HAt.
    + exact Hlc.
    + replace (w_cfg (restore w3)) with (w_cfg w3) by (destruct w3; reflexivity). exact Pol3.
    + exact HLw.
    + apply (FL_same attrs w3 (restore w3)); [destruct w3; reflexivity|exact R4|exact R3|exact FL3].
  - exfalso. assert (Q : lc_truncating lc = true) by (apply K3; left; reflexivity). congruence.
  - exfalso. assert (Q : lc_truncating lc = true) by (apply K3; right; reflexivity). congruence.
  - cbv beta iota zeta in H. injection H as <- <-.
    apply (FL_same attrs w3); [destruct w3; reflexivity|destruct w3; reflexivity|destruct w3; reflexivity|exact FL3].
  - (* Fits *)
    destruct (Best1 ltac:(discriminate)) as (B1x & T4 & BE4). rewrite F3b in H.
    pose proof (JT_set_br n _ _ T4 Mw) as T5.
    destruct (set_br_proj (mark_best w3 [cand]) (mark_word_unused b1)) as (U1 & U2 & U3 & U4 & U5).
    destruct (C3 ltac:(discriminate)) as (C31 & C32 & C33).
    destruct (chain_app_lend _ _ _ _ C33 C32) as [CL _].
    set (wf := set_br (mark_best w3 [cand]) (mark_word_unused b1)) in *.
    assert (Cff : w_cfg wf = w_cfg w3) by (unfold wf; destruct w3; reflexivity).
    apply (IH wf wopt lc w' d); [exact T5| | | | |apply XI_set_br; exact B1x| | | | | | |exact H].
    + unfold OrdI. rewrite U1, U2, U3, M1, M3. cbn. intros _. right. lia.
    + rewrite U2; cbn. rewrite S1; exact HW.
    + rewrite U2; cbn. rewrite S1, S2; exact HU.
    + rewrite U2; cbn. rewrite S1; exact HWo.
    + rewrite U2. apply (BG_gsig b1); [reflexivity|exact HBG1].
    + rewrite U2. cbn. rewrite HA1. exact HAt.
    + exact Hlc.
    + rewrite Cff. exact Pol3.
    + exact HLw.
    + apply (FLm ltac:(discriminate) wf Cff). unfold wf. rewrite best_end_set_br. exact BE4.
  - (* CannotFit *)
    rewrite Hlc in H. rewrite F3b in H. cbv beta iota zeta in H. injection H as <- <-.
    destruct (Best1 ltac:(discriminate)) as (B1x & T4 & BE4).
    apply (FLm ltac:(discriminate)); [destruct w3; reflexivity|rewrite best_end_set_br; exact BE4].
Qed.


Lemma outer_L : forall fuel w lc w' d,
  JT n w -> OrdO w -> XI n w ->
  BW (w_br w) -> BG (w_br w) -> b_attrs (w_br w) = attrs -> lc_truncating lc = false -> FL attrs w ->
  outer_loop fuel w lc = Ok (w', d) -> FL attrs w'.
Proof.
  induction fuel as [|fuel IH]; intros w lc w' d HT HO HX HBW HBG HAt Hlc HFL H; cbn [outer_loop] in H; [discriminate|].
  destruct (JT_checkpoint n w HT) as (T1 & Csv & Calt & Cbe & Cbr & Cbest).
  pose proof (XI_checkpoint n w HX) as XC1.
  set (w1 := checkpoint w) in *.
  destruct (next_word_break (w_br w1)) as [b1 ro] eqn:NW.
  pose proof T1 as ((_ & B1 & _) & _).
  destruct (nwb_spec n _ _ _ B1 NW) as (Bb1 & SG1 & FW & UW & X). rewrite Cbr in SG1, UW, X, B1, NW.
  destruct SG1 as (S1 & S2 & S3 & S5).
  pose proof (JT_set_br n w1 b1 T1 Bb1) as T2.
  destruct (set_br_proj w1 b1) as (Q1 & Q2 & Q3 & Q4 & Q5).
  assert (Q7 : w_start w1 = w_start w) by (destruct w; reflexivity).
  pose proof (XI_set_br n w1 b1 XC1) as XC2.
  assert (Cf2 : w_cfg (set_br w1 b1) = w_cfg w) by (unfold w1; destruct w; reflexivity).
  set (w2 := set_br w1 b1) in *.
  rewrite Calt in Q1. rewrite Csv in Q5. rewrite Cbest in Q4. rewrite Q7 in Q3.
  destruct (Bk_ug_n n _ Bb1) as (G1 & G2 & G3).
  set (b := w_br w) in *.
  assert (FL2 : FL attrs w2) by (apply (FL_same attrs w w2 Cf2 Q4 Q3 HFL)).
  pose proof (BG_gsig _ _ (nwb_gsig _ _ _ NW) HBG) as HBG1.
  destruct ro as [opt|].
  2:{ cbv beta iota zeta in H. injection H as <- <-. exact FL2. }
  destruct X as (X1 & X3 & X6 & X7 & X8 & X9 & X10).
  assert (X1' : fst opt = fst (b_unusedW b1)) by (rewrite X1; reflexivity).
  destruct (nwb_canon b b1 (Some opt) HBW NW) as (BW1 & _ & _ & Can). destruct (Can opt eq_refl) as [[CanL CanM] _].
  rewrite HAt in CanL.
  assert (Hord : s_alt (w_sc w2) <> [] -> lend (w_start w2) (s_alt (w_sc w2)) <= fst opt).
  { rewrite Q1, Q3. intros Hne. destruct (HO Hne) as [O1 O2]; fold b in O1; lia. }
  destruct (pbo_safe2 n w2 opt lc (proj1 (proj1 T2)) XC2 ltac:(lia) Hord) as (w3 & r & cand & PB & XC3 & Sk3 & Fin3 & Inv3).
  rewrite PB in H. cbn [bind] in H.
  destruct (JP_pbo n w2 opt lc w3 r cand (proj1 T2) ltac:(lia) Hord PB) as (P3 & F3 & BE3 & LE3 & C3 & L3).
  destruct (pbo_kind _ _ _ _ _ _ PB) as (K1 & K2 & K3).
  destruct F3 as (F3c & _ & F3s & _ & F3r & _ & F3b & F3v & F3best).
  rewrite Q2 in F3b. rewrite Q5 in F3v. rewrite Q4 in F3best. rewrite Q3 in F3s, LE3. rewrite Q1 in LE3. rewrite Cf2 in F3c.
  assert (Mw : Bk n (mark_word_unused b1)) by (apply Bk_mark_word; [exact Bb1|lia|lia]).
  rewrite Q1, Q3 in Hord. rewrite Q3 in C3.
  assert (Hsv : r <> BreakInvalid -> lend (w_start w3) (s_save (w_sc w3)) <= fst opt).
  { intros Hr'. destruct (C3 Hr') as (C31 & _). rewrite F3v, F3s. destruct (s_alt (w_sc w)) eqn:A; [unfold lend; cbn; lia|].
    apply Hord. congruence. }
  destruct (mark_best_proj w3 [cand]) as (M1 & M2 & M3 & M4).
  destruct (restore_proj w3) as (R1 & R2 & R3 & R4).
  assert (Best1 : r <> BreakInvalid -> XI n (mark_best w3 [cand]) /\ JT n (mark_best w3 [cand])
                   /\ best_end (mark_best w3 [cand]) = fst opt + 1).
  { intros Hr'. destruct (C3 Hr') as (C31 & C32 & C33). destruct (Fin3 Hr') as [FP FC].
    destruct (JT_mark_best n w3 cand (fst opt + 1) P3 C33 C32 ltac:(specialize (Hsv Hr'); lia) ltac:(lia)) as [T4 BE4].
    split; [eapply XI_mark_best1; eauto|split; [exact T4|exact BE4]]. }
  assert (FL3 : FL attrs w3) by (apply (FL_same attrs w w3 F3c F3best F3s HFL)).
  assert (At1 : b_attrs b1 = attrs) by (rewrite S5; exact HAt).
  (* the line recorded at this option ends at a line boundary *)
  assert (FLm : r <> BreakInvalid -> FL attrs (mark_best w3 [cand])).
  { intros Hr' _. destruct (Best1 Hr') as (_ & _ & BE4). rewrite BE4. left. exact CanL. }
  assert (G : forall wx, JP n wx -> s_save (w_sc wx) = s_alt (w_sc w) -> w_start wx = w_start w ->
              b_prevW (w_br wx) = b_prevW b1 -> b_wpos (w_br wx) = b_wpos b1 -> b_unusedW (w_br wx) = b_unusedW b1 ->
              gsig (w_br wx) = gsig b1 -> XI n wx -> w_cfg wx = w_cfg w3 -> c_policy (w_cfg w3) <> 1 -> FL attrs wx ->
              inner_loop (br_fuel wx) (restore wx) opt lc = Ok (w', d) -> FL attrs w').
  { intros wx Px Sx Stx Pwx Wx Ux Gx Xx Cx Polx Flx Hx. destruct (restore_proj wx) as (Rx1 & Rx2 & Rx3 & Rx4).
    apply (inner_L (br_fuel wx) (restore wx) opt lc w' d); [apply JT_restore; exact Px| | | | |apply XI_restore; exact Xx| | | | | | |exact Hx].
    - unfold OrdI. rewrite Rx1, Rx2, Rx3, Sx, Stx, Pwx. intros Hne. left. destruct (HO Hne) as [O1 O2]. fold b in O1, O2.
      destruct (b_isUnusedW b) eqn:FB; [cbn in O2; lia|]. rewrite (X9 eq_refl). exact O1.
    - rewrite Rx2, Wx. lia.
    - rewrite Rx2, Wx, Ux. lia.
    - rewrite Rx2, Wx. lia.
    - rewrite Rx2. apply (BG_gsig b1); [exact Gx|exact HBG1].
    - rewrite Rx2. unfold gsig in Gx. inversion Gx. congruence.
    - exact Hlc.
    - replace (w_cfg (restore wx)) with (w_cfg wx) by (destruct wx; reflexivity). rewrite Cx. exact Polx.
    - exact CanL.
    - apply (FL_same attrs wx (restore wx)); [destruct wx; reflexivity|exact Rx4|exact Rx3|exact Flx]. }
  destruct r.
  - (* BreakInvalid *)
    cbv beta iota zeta in H. rewrite R2, F3b in H.
    destruct (set_br_proj (restore w3) (discard_word b1)) as (D1 & D2 & D3 & D4 & D5).
    apply (IH (set_br (restore w3) (discard_word b1)) lc w' d);
      [apply JT_set_br; [apply JT_restore; exact P3|apply Bk_discard; assumption]| |apply XI_set_br; apply XI_restore; exact XC3| | | | | |exact H].
    + unfold OrdO. rewrite D1, D2, D3, R1, R3, F3v, F3s. cbn [discard_word b_unusedW b_isUnusedW]. rewrite FW.
      intros Hne. destruct (HO Hne) as [O1 O2]. fold b in O1, O2.
      destruct (b_isUnusedW b) eqn:FB; [cbn in O2; lia|]. rewrite (X9 eq_refl). split; [exact O1|reflexivity].
    + rewrite D2. apply BW_discard; [exact BW1|exact FW].
    + rewrite D2. apply (BG_gsig b1); [reflexivity|exact HBG1].
    + rewrite D2. cbn. exact At1.
    + exact Hlc.
    + apply (FL_same attrs w3); [destruct w3; reflexivity|destruct w3; reflexivity|destruct w3; reflexivity|exact FL3].
  - exfalso. assert (Q : lc_truncating lc = true) by (apply K3; left; reflexivity). congruence.
  - exfalso. assert (Q : lc_truncating lc = true) by (apply K3; right; reflexivity). congruence.
  - (* NewLineBeforeBreak *)
    cbv beta iota zeta in H. rewrite R2, F3b in H.
    pose proof (JT_set_br n _ _ (JT_restore n w3 P3) Mw) as T5.
    destruct (set_br_proj (restore w3) (mark_word_unused b1)) as (U1 & U2 & U3 & U4 & U5).
    set (wu := set_br (restore w3) (mark_word_unused b1)) in *.
    assert (Cfu : w_cfg wu = w_cfg w3) by (unfold wu; destruct w3; reflexivity).
    assert (FLu : FL attrs wu) by (apply (FL_same attrs w3 wu Cfu); [unfold wu; destruct w3; reflexivity|unfold wu; destruct w3; reflexivity|exact FL3]).
    destruct (policy_never wu || (policy_when_necessary wu && negb (lc_truncating lc))) eqn:EP.
    + injection H as <- <-. exact FLu.
    + apply orb_false_elim in EP. destruct EP as [EP _]. unfold policy_never in EP. rewrite Cfu in EP. apply Z.eqb_neq in EP.
      apply (G wu (proj1 T5));
        [rewrite U5; destruct w3; cbn in *; exact F3v|rewrite U3, R3; exact F3s|rewrite U2; reflexivity|rewrite U2; reflexivity
        |rewrite U2; reflexivity|rewrite U2; reflexivity|apply XI_set_br; apply XI_restore; exact XC3|exact Cfu|exact EP|exact FLu|exact H].
  - (* Fits *)
    destruct (Best1 ltac:(discriminate)) as (B1x & T4 & BE4).
    cbv beta iota zeta in H. destruct (snd opt) eqn:SO.
    + injection H as <- <-. apply FLm. discriminate.
    + apply (IH (mark_best w3 [cand]) lc w' d); [exact T4| |exact B1x| | | | | |exact H].
      * unfold OrdO. rewrite M1, M2, M3, F3b, FW. destruct (C3 ltac:(discriminate)) as (C31 & C32 & C33).
        destruct (chain_app_lend _ _ _ _ C33 C32) as [CL _]. intros _. split; [lia|reflexivity].
      * rewrite M2, F3b. exact BW1.
      * rewrite M2, F3b. exact HBG1.
      * rewrite M2, F3b. exact At1.
      * exact Hlc.
      * apply FLm. discriminate.
  - (* CannotFit *)
    cbv beta iota zeta in H. destruct (policy_never w3) eqn:EP.
    + rewrite Hlc in H. injection H as <- <-. apply FLm. discriminate.
    + unfold policy_never in EP. apply Z.eqb_neq in EP.
      apply (G w3 P3); auto; try (rewrite F3b; reflexivity).
Qed.

End LineEnd.

(* ---- one WrapNextLine call, any sequence of calls ------------------------------------------------------------------- *)

Lemma wnl_L : forall n attrs w mw w' wl,
  CI n attrs w -> XB n w -> w_more w = true -> BW (w_br w) -> BG (w_br w) ->
  KoV attrs (w_st w) (w_runs w) w -> KoG n attrs (w_st w) (w_runs w) w ->
  wrap_next_line w mw = Ok (w', wl, false) ->
  flagged attrs (c_policy (w_cfg w)) (wl_next wl).
Proof.
  intros n attrs w mw w' wl HC HB Hm HBW HBG Ko Kg H. unfold wrap_next_line in H. rewrite Hm in H. cbn [negb] in H.
  destruct (CI_peek n attrs w HC) as (ci & run & PK). rewrite PK in H. cbn [negb] in H.
  destruct (CI_start_line n attrs w HC) as (T0 & O0 & A0 & N0 & Acc0).
  pose proof HC as (HR & HP & HS & HM & HBk & HA & Hst & HT & HF).
  set (lc := mkLC _ _ _) in H.
  destruct (outer_loop _ (start_line w) lc) as [[w2 d2]| | |] eqn:OL; cbn [bind] in H; try discriminate.
  destruct (outer_loop_ok n _ _ _ _ _ (proj1 (proj1 T0)) OL) as [_ O2].
  destruct (outer_loop_J n (phi n (w_br w)) attrs _ _ _ _ _ T0 O0 (N0 lc) A0 (fun _ => Acc0) OL) as (P2 & N2 & A2 & Post2 & Acc2).
  assert (PV : PostV n attrs (w_st w) (w_runs w) lc w2 d2).
  { eapply outer_V; [exact T0|exact O0|apply XI_start_line; exact HB| | | | |exact OL].
    - split; [destruct w; reflexivity|]. split; [destruct w; reflexivity|exact A0].
    - intros p Hp Hv. replace (w_br (start_line w)) with (w_br w) by (destruct w; reflexivity). apply Ko; [|exact Hv].
      replace (best_end (start_line w)) with (w_start w) in Hp by (destruct w; reflexivity). exact Hp.
    - intros Q. destruct w; discriminate Q.
    - replace (w_br (start_line w)) with (w_br w) by (destruct w; reflexivity).
      replace (best_end (start_line w)) with (w_start w) by (destruct w; reflexivity). exact Kg. }
  destruct O2 as (Oc & Ot & Os & Om & Or & On & Oa).
  replace (w_cfg (start_line w)) with (w_cfg w) in * by (destruct w; reflexivity).
  replace (w_truncating (start_line w)) with (w_truncating w) in * by (destruct w; reflexivity).
  replace (w_start (start_line w)) with (w_start w) in * by (destruct w; reflexivity).
  replace (w_more (start_line w)) with (w_more w) in * by (destruct w; reflexivity).
  replace (w_runs (start_line w)) with (w_runs w) in * by (destruct w; reflexivity).
  cbv beta iota zeta in H. injection H as PP. rewrite post_process_split in PP.
  destruct (pp_first w2 (s_best (w_sc w2))) as [w1 l1] eqn:PF.
  pose proof P2 as (I2 & B2 & S2 & St2 & BP2 & _ & BN2).
  assert (HL : forall l, s_best (w_sc w2) = Some l -> chain (w_start w2) l (lend (w_start w2) l)).
  { intros l Hl. destruct I2 as (_ & _ & _ & _ & HBo). destruct (HBo l Hl) as [e He]. rewrite (lend_chain _ _ _ He). exact He. }
  destruct (pp_first_spec _ _ _ _ HL PF) as (F1 & F2 & F3 & F4 & F5 & F6 & F7 & F8 & F9 & F10).
  fold (best_end w2) in F9.
  rewrite <- F1 in PP.
  destruct (pp_tail_spec n w1 l1 d2 w' wl false ltac:(rewrite F8; exact (proj1 B2)) ltac:(rewrite F9; exact BN2) PP)
    as (G1 & G2 & G3 & G4 & G5 & G6 & G7 & G8 & G9 & G10 & G11 & G12 & G13 & G14 & G15 & G16).
  assert (TF : tfinal w1 = lc_truncating lc).
  { unfold tfinal, lc. cbn. rewrite F2, F1, Ot, Oc, HT.
    destruct (c_trunc (w_cfg w) =? 1) eqn:E1.
    - apply Z.eqb_eq in E1. rewrite E1. reflexivity.
    - apply Z.eqb_neq in E1. destruct (0 <? c_trunc (w_cfg w)); [|reflexivity]. cbn. apply Z.eqb_neq. lia. }
  destruct (G11 eq_refl) as (D1 & D2 & D3 & D4 & D5).
  assert (Hlc : lc_truncating lc = false) by (rewrite <- TF; exact D4).
  destruct (PV D2 Hlc) as (Hhb & _).
  assert (FL2 : FL attrs w2).
  { apply (outer_L n attrs (loop_fuel (start_line w)) (start_line w) lc w2 d2 T0 O0 (XI_start_line n w HB)); [| | |exact Hlc| |exact OL].
    - replace (w_br (start_line w)) with (w_br w) by (destruct w; reflexivity). exact HBW.
    - replace (w_br (start_line w)) with (w_br w) by (destruct w; reflexivity). exact HBG.
    - exact A0.
    - intros Q. destruct w; discriminate Q. }
  rewrite G8, F9, <- Oc. exact (FL2 Hhb).
Qed.

Lemma line_end_calls : forall n w cfg attrs runs widths wk rs mw w' wl,
  wf_runs (w_st w) runs n = true -> zlen attrs - 1 = n -> 1 <= n ->
  run_calls (prepare w cfg attrs runs 0 0) widths = Ok (wk, rs) -> w_more wk = true ->
  wrap_next_line wk mw = Ok (w', wl, false) ->
  line_boundary attrs (wl_next wl) = true \/ (c_policy (w_cfg wk) <> 1 /\ grapheme_boundary attrs (wl_next wl) = true).
Proof.
  intros n w cfg attrs runs widths wk rs mw w' wl HW Ha Hn RC Hk WN.
  destruct (run_calls_V n attrs (w_st w) runs widths (prepare w cfg attrs runs 0 0) true wk rs
              (prepare_state_V n w cfg attrs runs HW Ha Hn) RC) as [_ K].
  destruct (K Hk) as (KC & KB & Ks & Kr & Kv & Kg).
  assert (HBW : BW (w_br wk)) by (apply (run_calls_BW widths (prepare w cfg attrs runs 0 0) wk rs); [apply BW_new|exact RC]).
  assert (HBG : BG (w_br wk)) by (apply (run_calls_BG widths (prepare w cfg attrs runs 0 0) wk rs); [apply BG_new|exact RC]).
  assert (CB : forall p, CBall (w_st wk) runs p -> CBall (w_st w) runs p).
  { intros p Hc. apply (CBall_sk (w_st wk)); [exact Ks|exact Hc]. }
  assert (Kv' : KoV attrs (w_st wk) (w_runs wk) wk).
  { rewrite Kr. intros p Hp [Hl Hc]. apply Kv; [exact Hp|]. split; [exact Hl|apply CB; exact Hc]. }
  assert (Kg' : KoG n attrs (w_st wk) (w_runs wk) wk).
  { rewrite Kr. destruct Kg as (Kg1 & Kg2 & Kg3). split; [|split; assumption].
    intros q Hq [Hg Hc]. apply Kg1; [exact Hq|]. split; [exact Hg|apply CB; exact Hc]. }
  exact (wnl_L n attrs wk mw w' wl KC KB Hk HBW HBG Kv' Kg' WN).
Qed.
