(* GSUB single and ligature substitution as window-local rules (C18): the pass meets the contract of Spec/LocalEngine.v on
   sorted buffers.  The "flagging" of a ligature is the cluster merge of its window: every cluster boundary inside the
   window disappears; the flags of the surviving cluster are kept by ligateInput (the components' flags are taken over). *)
From TV Require Import Model.GsubLig Spec.LocalEngine Proofs.LocalEngine Proofs.EngineItem Proofs.KernMachine Proofs.MarkBase.

(* ---- small list facts ---- *)
Lemma sorted_cons x l : sorted (x :: l) <-> (forall y, In y l -> icl x <= icl y) /\ sorted l.
Proof.
  change (x :: l) with ([x] ++ l). rewrite sorted_app. split.
  - intros (_ & S & H). split; [intros y Hy; apply H; [left; reflexivity|exact Hy]|exact S].
  - intros (H & S). split; [|split; [exact S|]].
    + unfold sorted. cbn. split; [intros y []|exact I].
    + intros a y [<-|[]] Hy. apply H. exact Hy.
Qed.

Lemma sorted_skipn n l : sorted l -> sorted (skipn n l).
Proof. intros H. rewrite <- (firstn_skipn n l) in H. apply sorted_app in H. tauto. Qed.
Lemma sorted_firstn n l : sorted l -> sorted (firstn n l).
Proof. intros H. rewrite <- (firstn_skipn n l) in H. apply sorted_app in H. tauto. Qed.

Lemma lminz_sorted x l : sorted (x :: l) -> lminz (icls (x :: l)) = icl x.
Proof.
  intros H. apply sorted_cons in H. destruct H as [H _]. unfold icls. cbn [map lminz].
  assert (G : forall r, (forall y, In y r -> icl x <= icl y) -> fold_right Z.min (icl x) (map icl r) = icl x).
  { induction r as [|b r IH]; intros Hr; [reflexivity|]. cbn [map fold_right]. rewrite IH by (intros y Hy; apply Hr; right; exact Hy).
    pose proof (Hr b (or_introl eq_refl)). lia. }
  apply G. exact H.
Qed.

Lemma run_eq_i_split cv : forall l, exists ext tail, l = ext ++ tail /\ length ext = run_eq_i cv l
  /\ Forall (fun y => icl y = cv) ext /\ match tail with [] => True | z :: _ => icl z <> cv end.
Proof.
  induction l as [|y l (ext & tail & E & L & F & T)]; [exists [], []; repeat split; constructor|].
  cbn [run_eq_i]. destruct (Z.eqb_spec (icl y) cv) as [Ey|Ny].
  - exists (y :: ext), tail. subst l. repeat split; cbn; auto.
  - exists [], (y :: l). repeat split; auto.
Qed.

Lemma run_eq_i_app cv a b : (forall z, In z b -> icl z <> cv) -> run_eq_i cv (a ++ b) = run_eq_i cv a.
Proof.
  intros H. induction a as [|y a IH]; cbn.
  - destruct b as [|z b]; [reflexivity|]. cbn. destruct (Z.eqb_spec (icl z) cv) as [E|]; [|reflexivity].
    exfalso. apply (H z); [left; reflexivity|exact E].
  - destruct (icl y =? cv); [rewrite IH; reflexivity|reflexivity].
Qed.

Lemma run_eq_i_le cv l : (run_eq_i cv l <= length l)%nat.
Proof. induction l as [|y l IH]; cbn; [lia|]. destruct (icl y =? cv); lia. Qed.

(* ---- merging ---- *)
Lemma merge_item_icl c y : icl (merge_item c y) = c.
Proof. unfold merge_item, icl, with_g, set_cluster. cbn. destruct (Z.eqb_spec (cl (ig y)) c); cbn; auto. Qed.
Lemma merge_item_same c y : icl y = c -> merge_item c y = y.
Proof.
  unfold merge_item, icl, with_g, set_cluster. intros E. rewrite E, Z.eqb_refl. destruct y. reflexivity.
Qed.
Lemma merge_item_gp c y : gp (ig (merge_item c y)) = gp (ig y).
Proof. unfold merge_item, with_g, set_cluster. cbn. destruct (cl (ig y) =? c); reflexivity. Qed.
Lemma merge_item_igid c y : igid (merge_item c y) = igid y.
Proof. unfold merge_item, igid, with_g, set_cluster. cbn. destruct (cl (ig y) =? c); reflexivity. Qed.

(* on a sorted input the merge of a window that starts at the cursor does not reach back into `done` *)
Definition merge_fwd (t : list item) (n : nat) : list item :=
  let c := icl (hd i0 t) in
  let cend := icl (last (firstn n t) i0) in
  let e := if c =? cend then n else (n + run_eq_i cend (skipn n t))%nat in
  map (merge_item c) (firstn e t) ++ skipn e t.

Lemma merge_zip_sorted d t n : sorted t -> (0 < n)%nat -> t <> [] -> merge_zip d t n = (d, merge_fwd t n).
Proof.
  intros HS Hn Hne. unfold merge_zip, merge_fwd. destruct t as [|x rest]; [contradiction|].
  destruct n as [|n]; [lia|]. cbn [firstn hd].
  assert (Ec : lminz (icls (x :: firstn n rest)) = icl x).
  { apply lminz_sorted. change (x :: firstn n rest) with (firstn (S n) (x :: rest)). apply sorted_firstn. exact HS. }
  rewrite Ec. rewrite Z.eqb_refl. reflexivity.
Qed.

(* the decomposition of a sorted input around the merged range *)
Lemma merge_decomp t n : sorted t -> (2 <= n)%nat -> (n <= length t)%nat ->
  let c := icl (hd i0 t) in let cend := icl (last (firstn n t) i0) in
  exists ext tail, skipn n t = ext ++ tail
    /\ merge_fwd t n = map (merge_item c) (firstn n t ++ ext) ++ tail
    /\ (forall y, In y (firstn n t ++ ext) -> c <= icl y <= cend)
    /\ (forall z, In z tail -> cend <= icl z)
    /\ (c <> cend -> forall z, In z tail -> cend < icl z).
Proof.
  intros HS Hn Hl c cend. unfold merge_fwd. fold c. fold cend.
  assert (Hw : firstn n t <> []) by (destruct t; [cbn in Hl; lia|destruct n; [lia|discriminate]]).
  assert (Hlast : In (last (firstn n t) i0) (firstn n t)).
  { destruct (exists_last Hw) as (l' & a & E). rewrite E. rewrite last_last. apply in_or_app. right. left. reflexivity. }
  assert (Hhd : forall y, In y t -> c <= icl y).
  { destruct t as [|x rest]; [intros y []|]. intros y [<-|Hy]; [unfold c; cbn; lia|]. apply sorted_cons in HS. apply HS. exact Hy. }
  pose proof HS as HS2. rewrite <- (firstn_skipn n t) in HS2. apply sorted_app in HS2. destruct HS2 as (Sw & Sa & Swa).
  (* within the window everything is <= cend *)
  assert (Hwle : forall y, In y (firstn n t) -> icl y <= cend).
  { intros y Hy. destruct (exists_last Hw) as (l' & a & E). unfold cend. rewrite E in *. rewrite last_last.
    apply in_app_or in Hy. destruct Hy as [Hy|[<-|[]]]; [|lia].
    apply sorted_app in Sw. destruct Sw as (_ & _ & H). apply H; [exact Hy|left; reflexivity]. }
  destruct (Z.eqb_spec c cend) as [E|N].
  - exists [], (skipn n t). rewrite app_nil_r. split; [reflexivity|]. split; [reflexivity|]. split; [|split].
    + intros y Hy. split; [apply Hhd; eapply in_firstn; exact Hy|apply Hwle; exact Hy].
    + intros z Hz. apply Swa; [exact Hlast|exact Hz].
    + contradiction.
  - destruct (run_eq_i_split cend (skipn n t)) as (ext & tail & Es & Le & Fe & Ht).
    exists ext, tail. split; [exact Es|]. rewrite <- Le.
    assert (F1 : firstn (n + length ext) t = firstn n t ++ ext).
    { rewrite <- (firstn_skipn n t) at 1. rewrite firstn_app, firstn_length, Nat.min_l by lia.
      rewrite firstn_all2 by (rewrite firstn_length; lia). replace (n + length ext - n)%nat with (length ext) by lia.
      rewrite Es. rewrite firstn_app, Nat.sub_diag, firstn_all. cbn [firstn]. rewrite app_nil_r. reflexivity. }
    assert (F2 : skipn (n + length ext) t = tail).
    { rewrite <- (firstn_skipn n t) at 1. rewrite skipn_app, firstn_length, Nat.min_l by lia.
      rewrite skipn_all2 by (rewrite firstn_length; lia). replace (n + length ext - n)%nat with (length ext) by lia.
      rewrite Es. rewrite skipn_app, Nat.sub_diag, skipn_all. reflexivity. }
    rewrite F1, F2. split; [reflexivity|].
    assert (Htail : forall z, In z tail -> cend < icl z).
    { rewrite Es in Sa. apply sorted_app in Sa. destruct Sa as (_ & St & _).
      intros z Hz. assert (Hge : cend <= icl z) by (apply Swa; [exact Hlast|rewrite Es; apply in_or_app; right; exact Hz]).
      destruct tail as [|z0 tail']; [destruct Hz|].
      assert (cend <= icl z0) by (apply Swa; [exact Hlast|rewrite Es; apply in_or_app; right; left; reflexivity]).
      assert (icl z0 <= icl z). { destruct Hz as [<-|Hz]; [lia|]. apply sorted_cons in St. apply St. exact Hz. }
      lia. }
    split; [|split].
    + intros y H. split.
      * apply Hhd. apply in_app_or in H. destruct H as [H|H]; [eapply in_firstn; exact H|].
        eapply in_skipn. rewrite Es. apply in_or_app. left. exact H.
      * apply in_app_or in H. destruct H as [H|H]; [apply Hwle; exact H|]. rewrite Forall_forall in Fe. rewrite (Fe y H). lia.
    + intros z Hz. specialize (Htail z Hz). lia.
    + intros _. exact Htail.
Qed.

(* ---- a merged window inside a sorted sequence: w is replaced by w', all of whose glyphs carry the minimum cluster c of
   w; tail starts after the last glyph of the last cluster of w (cend) unless c = cend ---- *)
Definition merged_window (c cend : Z) (w w' tail : list item) : Prop :=
  (forall y, In y w -> c <= icl y <= cend) /\ (exists y, In y w /\ icl y = c)
  /\ (forall y', In y' w' -> icl y' = c) /\ w' <> []
  /\ (forall z, In z tail -> cend <= icl z) /\ (c <> cend -> forall z, In z tail -> cend < icl z)
  /\ (forall y, In y w -> icl y = c -> iutb y = true -> exists y', In y' w' /\ iutb y' = true).

Lemma sorted_const (c : Z) l : (forall y, In y l -> icl y = c) -> sorted l.
Proof.
  induction l as [|x l IH]; intros H; [exact I|]. apply sorted_cons. split.
  - intros y Hy. rewrite (H x (or_introl eq_refl)), (H y (or_intror Hy)). lia.
  - apply IH. intros y Hy. apply H. right. exact Hy.
Qed.

Lemma mw_sorted a c cend w w' tail : sorted (a ++ w ++ tail) -> merged_window c cend w w' tail -> sorted (a ++ w' ++ tail).
Proof.
  intros HS (Hw & (y0 & Hy0 & Ey0) & Hw' & _ & Ht & _ & _).
  apply sorted_app in HS. destruct HS as (Sa & Swt & Hawt). apply sorted_app in Swt. destruct Swt as (_ & St & _).
  apply sorted_app. split; [exact Sa|]. split.
  - apply sorted_app. split; [apply (sorted_const c); exact Hw'|]. split; [exact St|].
    intros u z Hu Hz. rewrite (Hw' u Hu). specialize (Ht z Hz). specialize (Hw y0 Hy0). lia.
  - intros u v Hu Hv. apply in_app_or in Hv. destruct Hv as [Hv|Hv].
    + rewrite (Hw' v Hv). rewrite <- Ey0. apply Hawt; [exact Hu|apply in_or_app; left; exact Hy0].
    + apply Hawt; [exact Hu|apply in_or_app; right; exact Hv].
Qed.

Lemma mw_cls a c cend w w' tail : merged_window c cend w w' tail ->
  forall y', In y' (a ++ w' ++ tail) -> exists y, In y (a ++ w ++ tail) /\ icl y = icl y'.
Proof.
  intros (Hw & (y0 & Hy0 & Ey0) & Hw' & _) y' H.
  apply in_app_or in H. destruct H as [H|H]; [exists y'; split; [apply in_or_app; left; exact H|reflexivity]|].
  apply in_app_or in H. destruct H as [H|H].
  - exists y0. split; [apply in_or_app; right; apply in_or_app; left; exact Hy0|]. rewrite (Hw' y' H). exact Ey0.
  - exists y'. split; [apply in_or_app; right; apply in_or_app; right; exact H|reflexivity].
Qed.

Lemma mw_fog a c cend w w' tail c' : sorted (a ++ w ++ tail) -> merged_window c cend w w' tail ->
  fogI c' (a ++ w ++ tail) = true -> fogI c' (a ++ w' ++ tail) = true.
Proof.
  intros HS MW F. pose proof MW as (Hw & (y0 & Hy0 & Ey0) & Hw' & Hne & Ht & Ht' & Htr).
  apply fog_spec in F. apply fog_spec. destruct F as [F|(y & Hy & Ey & Uy)].
  - left. intros y' Hy' E. destruct (mw_cls a c cend w w' tail MW y' Hy') as (y & Hy & Ey). apply (F y Hy). congruence.
  - apply in_app_or in Hy. destruct Hy as [Hy|Hy]; [right; exists y; split; [apply in_or_app; left; exact Hy|auto]|].
    apply in_app_or in Hy. destruct Hy as [Hy|Hy];
      [|right; exists y; split; [apply in_or_app; right; apply in_or_app; right; exact Hy|auto]].
    destruct (Z.eq_dec (icl y) c) as [Ec|Nc].
    + right. destruct (Htr y Hy Ec Uy) as (y' & Hy' & Uy'). exists y'. split; [apply in_or_app; right; apply in_or_app; left; exact Hy'|].
      split; [rewrite (Hw' y' Hy'); congruence|exact Uy'].
    + left. intros u Hu Eu. apply sorted_app in HS. destruct HS as (_ & _ & Hawt).
      specialize (Hw y Hy).
      apply in_app_or in Hu. destruct Hu as [Hu|Hu].
      * assert (icl u <= icl y0) by (apply Hawt; [exact Hu|apply in_or_app; left; exact Hy0]). lia.
      * apply in_app_or in Hu. destruct Hu as [Hu|Hu]; [rewrite (Hw' u Hu) in Eu; lia|].
        pose proof (Ht u Hu). assert (c <> cend) by lia. specialize (Ht' H0 u Hu). lia.
Qed.

(* ---- matchInput ---- *)
Lemma mi_bound m : forall cs rest base ps, match_input m cs rest base = Some ps ->
  Forall (fun p => (base <= p < base + length rest)%nat) ps /\ length ps = length cs.
Proof.
  induction cs as [|g cs IH]; intros rest base ps H; cbn [match_input] in H.
  - injection H as <-. split; [constructor|reflexivity].
  - destruct (snext (m g) rest) as [k|] eqn:Ek; [|discriminate].
    destruct (match_input m cs (skipn (S k) rest) (base + S k)) as [ps'|] eqn:E; [|discriminate]. cbn [option_map] in H. injection H as <-.
    apply snext_some in Ek. destruct Ek as (Lk & _ & _).
    destruct (IH _ _ _ E) as [B L]. split; [|cbn; rewrite L; reflexivity].
    constructor; [lia|]. rewrite skipn_length in B. eapply Forall_impl; [|exact B]. cbn beta. intros p Hp. lia.
Qed.

Lemma mi_le_last m : forall cs rest base ps, match_input m cs rest base = Some ps -> forall p, In p ps -> (p <= last ps O)%nat.
Proof.
  induction cs as [|g cs IH]; intros rest base ps H; cbn [match_input] in H.
  - injection H as <-. intros p [].
  - destruct (snext (m g) rest) as [k|] eqn:Ek; [|discriminate].
    destruct (match_input m cs (skipn (S k) rest) (base + S k)) as [ps'|] eqn:E; [|discriminate]. cbn [option_map] in H. injection H as <-.
    intros p [<-|Hp].
    + destruct ps' as [|q ps'']; [cbn; lia|].
      destruct (mi_bound m _ _ _ _ E) as [B _]. change (last (_ :: q :: ps'') O) with (last (q :: ps'') O).
      pose proof (IH _ _ _ E q (or_introl eq_refl)). inversion B; subst. lia.
    + destruct ps' as [|q ps'']; [destruct Hp|]. change (last (_ :: q :: ps'') O) with (last (q :: ps'') O). apply (IH _ _ _ E). exact Hp.
Qed.

Lemma mi_app_some m : forall cs r1 t2 base ps, match_input m cs r1 base = Some ps -> match_input m cs (r1 ++ t2) base = Some ps.
Proof.
  induction cs as [|g cs IH]; intros r1 t2 base ps H; cbn [match_input] in *; [exact H|].
  destruct (snext (m g) r1) as [k|] eqn:Ek; [|discriminate].
  rewrite (snext_app_some _ r1 t2 k Ek). apply snext_some in Ek. destruct Ek as (Lk & _ & _).
  rewrite skipn_app. replace (S k - length r1)%nat with O by lia. change (skipn 0 t2) with t2.
  destruct (match_input m cs (skipn (S k) r1) (base + S k)) as [ps'|] eqn:E; [|discriminate].
  rewrite (IH _ t2 _ _ E). exact H.
Qed.

Lemma mi_app_inv m : forall cs r1 t2 base ps, match_input m cs (r1 ++ t2) base = Some ps ->
  match_input m cs r1 base = Some ps
  \/ (match_input m cs r1 base = None /\ exists p, In p ps /\ (base + length r1 <= p)%nat).
Proof.
  induction cs as [|g cs IH]; intros r1 t2 base ps H; cbn [match_input] in *; [left; exact H|].
  destruct (snext (m g) (r1 ++ t2)) as [k|] eqn:Ek; [|discriminate].
  destruct (match_input m cs (skipn (S k) (r1 ++ t2)) (base + S k)) as [ps'|] eqn:E; [|discriminate]. cbn [option_map] in H. injection H as <-.
  destruct (snext_app_inv _ r1 t2 k Ek) as [[Lk S1]|[Lk S1]]; rewrite S1.
  - rewrite skipn_app in E. replace (S k - length r1)%nat with O in E by lia. change (skipn 0 t2) with t2 in E.
    destruct (IH _ _ _ _ E) as [E1|(E1 & p & Hp & Lp)]; rewrite E1.
    + left. reflexivity.
    + right. split; [reflexivity|]. exists p. split; [right; exact Hp|]. rewrite skipn_length in Lp. lia.
  - right. split; [reflexivity|]. exists (base + k)%nat. split; [left; reflexivity|lia].
Qed.

(* ---- ligateInput ---- *)
Lemma take_flags_inv a comps :
  icl (take_flags a comps) = icl a /\ gp (ig (take_flags a comps)) = gp (ig a) /\ up (ig (take_flags a comps)) = up (ig a)
  /\ (iutb a = true -> iutb (take_flags a comps) = true)
  /\ (forall y, In y comps -> icl y = icl a -> iutb y = true -> iutb (take_flags a comps) = true).
Proof.
  unfold take_flags. revert a. induction comps as [|y comps IH]; intros a; cbn [fold_left].
  - repeat split; auto; intros y [].
  - set (a' := if icl y =? icl a then flag_item (gf (ig y)) a else a).
    assert (Ea : icl a' = icl a /\ gp (ig a') = gp (ig a) /\ up (ig a') = up (ig a) /\ (iutb a = true -> iutb a' = true)).
    { unfold a'. destruct (icl y =? icl a); repeat split; auto. apply flag_item_keeps. }
    destruct Ea as (E1 & E2 & E3 & E4). destruct (IH a') as (I1 & I2 & I3 & I4 & I5).
    repeat split; try congruence; auto.
    intros z [<-|Hz] Ez Uz.
    + apply I4. unfold a'. apply Z.eqb_eq in Ez. rewrite Ez.
      unfold iutb, flag_item, with_g, or_flags, set_gf, fl_or. cbn. unfold iutb in Uz. rewrite Uz. apply orb_true_r.
    + apply (I5 z Hz); [congruence|exact Uz].
Qed.

Lemma drop_at_in ps : forall l i z, In z (drop_at ps l i) -> In z l.
Proof.
  induction l as [|x l IH]; intros i z H; [destruct H|]. cbn in H.
  destruct (existsb (Nat.eqb i) ps); [right; eapply IH; exact H|]. destruct H as [<-|H]; [left; reflexivity|right; eapply IH; exact H].
Qed.

Lemma drop_at_or ps : forall l i z, In z l -> In z (drop_at ps l i) \/ exists k, In k ps /\ (i <= k < i + length l)%nat /\ nth (k - i) l i0 = z.
Proof.
  induction l as [|x l IH]; intros i z H; [destruct H|]. cbn [drop_at].
  destruct (existsb (Nat.eqb i) ps) eqn:E.
  - destruct H as [<-|H].
    + right. apply existsb_exists in E. destruct E as (k & Hk & Ek). apply Nat.eqb_eq in Ek. subst k.
      exists i. split; [exact Hk|]. split; [cbn; lia|]. rewrite Nat.sub_diag. reflexivity.
    + destruct (IH (S i) z H) as [G|(k & Hk & Lk & Ek)]; [left; exact G|].
      right. exists k. split; [exact Hk|]. split; [cbn [length]; lia|].
      replace (k - i)%nat with (S (k - S i)) by lia. exact Ek.
  - destruct H as [<-|H]; [left; left; reflexivity|].
    destruct (IH (S i) z H) as [G|(k & Hk & Lk & Ek)]; [left; right; exact G|].
    right. exists k. split; [exact Hk|]. split; [cbn [length]; lia|].
    replace (k - i)%nat with (S (k - S i)) by lia. exact Ek.
Qed.

Lemma merge_fwd_length t n : length (merge_fwd t n) = length t.
Proof.
  unfold merge_fwd. rewrite app_length, map_length. rewrite <- app_length, firstn_skipn. reflexivity.
Qed.

Lemma merge_fwd_app t1 t2 n : (1 <= n)%nat -> (n <= length t1)%nat ->
  (forall z, In z t2 -> icl z <> icl (last (firstn n t1) i0)) ->
  merge_fwd (t1 ++ t2) n = merge_fwd t1 n ++ t2.
Proof.
  intros Hn Hl Hz. unfold merge_fwd.
  assert (Eh : hd i0 (t1 ++ t2) = hd i0 t1) by (destruct t1; [cbn in Hl; lia|reflexivity]).
  assert (Ef : firstn n (t1 ++ t2) = firstn n t1).
  { rewrite firstn_app. replace (n - length t1)%nat with O by lia. cbn [firstn]. apply app_nil_r. }
  rewrite Eh, Ef.
  set (c := icl (hd i0 t1)). set (cend := icl (last (firstn n t1) i0)) in *.
  rewrite (skipn_app n t1 t2). replace (n - length t1)%nat with O by lia. change (skipn 0 t2) with t2.
  rewrite (run_eq_i_app cend (skipn n t1) t2 Hz).
  set (e := if c =? cend then n else (n + run_eq_i cend (skipn n t1))%nat).
  assert (He : (e <= length t1)%nat).
  { unfold e. destruct (c =? cend); [exact Hl|]. pose proof (run_eq_i_le cend (skipn n t1)). rewrite skipn_length in H. lia. }
  assert (Ef2 : firstn e (t1 ++ t2) = firstn e t1).
  { rewrite firstn_app. replace (e - length t1)%nat with O by lia. cbn [firstn]. apply app_nil_r. }
  assert (Es2 : skipn e (t1 ++ t2) = skipn e t1 ++ t2).
  { rewrite skipn_app. replace (e - length t1)%nat with O by lia. reflexivity. }
  rewrite Ef2, Es2, app_assoc. reflexivity.
Qed.

(* everything ligate builds from the merged input M (hd = merged first glyph, tl = the rest) *)
Definition lig_glyph (x1 : item) (comps : list item) (lg : Z) : item :=
  let x2 := take_flags x1 comps in
  let all_marks := forallb is_gmark comps in
  let is_base_lig := is_gbase x2 && all_marks in
  let is_mark_lig := is_gmark x2 && all_marks in
  let is_lig := negb is_base_lig && negb is_mark_lig in
  let u := up (ig x2) in
  let u' := if is_lig && (Z.land u 31 =? 12) then Z.lor (Z.land u 224) 7 else u in
  let g2 := set_up (ig x2) u' in
  with_g x2 (set_gid (set_gp g2 (set_class x2 (if is_lig then 4 else 0) true)) lg).

Lemma ligate_unfold d x rest ps lg : sorted (x :: rest) ->
  ligate d x rest ps lg
  = let n := S (S (last ps O)) in
    let M := merge_fwd (x :: rest) n in
    (d ++ [lig_glyph (hd i0 M) (map (fun k => nth k (tl M) i0) ps) lg] ++ drop_at ps (firstn (n - 1) (tl M)) O,
     skipn (n - 1) (tl M)).
Proof.
  intros HS. unfold ligate. rewrite (merge_zip_sorted d (x :: rest) _ HS) by (try lia; discriminate). reflexivity.
Qed.

Lemma lig_glyph_props x1 comps lg :
  icl (lig_glyph x1 comps lg) = icl x1
  /\ is_multiplied (lig_glyph x1 comps lg) = false
  /\ (iutb x1 = true -> iutb (lig_glyph x1 comps lg) = true)
  /\ (forall y, In y comps -> icl y = icl x1 -> iutb y = true -> iutb (lig_glyph x1 comps lg) = true).
Proof.
  destruct (take_flags_inv x1 comps) as (T1 & T2 & T3 & T4 & T5).
  unfold lig_glyph. set (x2 := take_flags x1 comps) in *. cbv zeta.
  split; [exact T1|]. split.
  - unfold is_multiplied, bit_and, with_g, set_gid, set_gp, set_class. cbn [ig gp].
    set (q := Z.lor (gp (ig x2)) 16).
    assert (E0 : Z.land (Z.land (Z.lor q 32) (Z.lnot 64)) 64 = 0).
    { rewrite <- Z.land_assoc. change (Z.land (Z.lnot 64) 64) with 0. apply Z.land_0_r. }
    destruct (negb _ && negb _).
    + change (4 =? 0) with false. cbv iota.
      rewrite Z.land_lor_distr_l. rewrite <- Z.land_assoc. change (Z.land 112 64) with 64. rewrite E0. reflexivity.
    + change (0 =? 0) with true. cbv iota. rewrite E0. reflexivity.
  - split; [exact T4|exact T5].
Qed.

Lemma ligate_shape d x rest ps lg : sorted (x :: rest) -> ps <> [] -> (last ps O < length rest)%nat ->
  (forall p, In p ps -> (p <= last ps O)%nat) ->
  let c := icl x in
  exists wr ext tail w',
    rest = wr ++ ext ++ tail /\ length wr = S (last ps O)
    /\ ligate d x rest ps lg = (d ++ firstn (length w' - length ext) w', skipn (length w' - length ext) w' ++ tail)
    /\ (length ext <= length w')%nat
    /\ merged_window c (icl (last (x :: wr) i0)) (x :: wr ++ ext) w' tail
    /\ (nomult (x :: rest) -> nomult w').
Proof.
  intros HS Hps Hlast Hle c.
  set (n := S (S (last ps O))).
  assert (Hn2 : (2 <= n)%nat) by (unfold n; lia). assert (Hnl : (n <= length (x :: rest))%nat) by (unfold n; cbn; lia).
  destruct (merge_decomp (x :: rest) n HS Hn2 Hnl) as (ext & tail & Es & EM & Hw & Ht & Ht').
  cbn [hd] in *. fold c in EM, Hw, Ht'.
  assert (Efn : firstn n (x :: rest) = x :: firstn (S (last ps O)) rest) by reflexivity.
  set (wr := firstn (S (last ps O)) rest) in *.
  assert (Lwr : length wr = S (last ps O)) by (unfold wr; rewrite firstn_length; lia).
  rewrite Efn in *. set (cend := icl (last (x :: wr) i0)) in *.
  assert (Er : rest = wr ++ ext ++ tail).
  { rewrite <- (firstn_skipn (S (last ps O)) rest) at 1. fold wr. f_equal. exact Es. }
  set (f := merge_item c) in *.
  set (kept := drop_at ps (map f wr) O).
  set (comps := map (fun k => nth k (map f wr ++ map f ext ++ tail) i0) ps).
  set (x3 := lig_glyph (f x) comps lg).
  exists wr, ext, tail, (x3 :: kept ++ map f ext).
  assert (EL : ligate d x rest ps lg = (d ++ x3 :: kept, map f ext ++ tail)).
  { rewrite (ligate_unfold d x rest ps lg HS). cbv zeta. fold n. rewrite EM.
    cbn [app map hd tl]. rewrite map_app, <- app_assoc.
    replace (n - 1)%nat with (length (map f wr)) by (rewrite map_length; unfold n; lia).
    rewrite firstn_app, Nat.sub_diag, firstn_all. cbn [firstn]. rewrite app_nil_r.
    rewrite skipn_app, Nat.sub_diag, skipn_all. cbn [skipn app]. reflexivity. }
  assert (Lsplit : (length (x3 :: kept ++ map f ext) - length ext)%nat = length (x3 :: kept)).
  { cbn [length]. rewrite app_length, map_length. lia. }
  split; [exact Er|]. split; [exact Lwr|]. split.
  { rewrite EL. rewrite Lsplit.
    change (x3 :: kept ++ map f ext) with ((x3 :: kept) ++ map f ext).
    rewrite firstn_app, Nat.sub_diag, firstn_all. cbn [firstn]. rewrite app_nil_r.
    rewrite skipn_app, Nat.sub_diag, skipn_all. reflexivity. }
  split; [cbn [length]; rewrite app_length, map_length; lia|].
  destruct (lig_glyph_props (f x) comps lg) as (G1 & G2 & G3 & G4).
  assert (Efx : f x = x) by (apply merge_item_same; reflexivity).
  split.
  - unfold merged_window. split; [exact Hw|]. split; [exists x; split; [left; reflexivity|reflexivity]|].
    split.
    { intros y' [<-|Hy'].
      - unfold x3. rewrite G1. apply merge_item_icl.
      - apply in_app_or in Hy'. destruct Hy' as [Hy'|Hy'].
        + apply drop_at_in in Hy'. apply in_map_iff in Hy'. destruct Hy' as (y & <- & _). apply merge_item_icl.
        + apply in_map_iff in Hy'. destruct Hy' as (y & <- & _). apply merge_item_icl. }
    split; [discriminate|]. split; [exact Ht|]. split; [exact Ht'|].
    intros y Hy Ey Uy. destruct Hy as [<-|Hy].
    + exists x3. split; [left; reflexivity|]. apply G3. rewrite Efx. exact Uy.
    + assert (Efy : f y = y) by (apply merge_item_same; exact Ey).
      apply in_app_or in Hy. destruct Hy as [Hy|Hy].
      * assert (Hy2 : In y (map f wr)) by (rewrite <- Efy; apply in_map; exact Hy).
        destruct (drop_at_or ps (map f wr) O y Hy2) as [K|(k & Hk & Lk & Ek)].
        -- exists y. split; [right; apply in_or_app; left; exact K|exact Uy].
        -- exists x3. split; [left; reflexivity|]. apply (G4 y); [|rewrite Efx; exact Ey|exact Uy].
           unfold comps. apply in_map_iff. exists k. split; [|exact Hk].
           rewrite Nat.sub_0_r in Ek. rewrite app_nth1 by lia. exact Ek.
      * exists y. split; [right; apply in_or_app; right; rewrite <- Efy; apply in_map; exact Hy|exact Uy].
  - intros HN. unfold nomult in *. rewrite Forall_forall in HN. apply Forall_forall. intros y' [<-|Hy'].
    + exact G2.
    + assert (exists y, In y rest /\ y' = f y) as (y & Hy & ->).
      { apply in_app_or in Hy'. destruct Hy' as [Hy'|Hy'].
        - apply drop_at_in in Hy'. apply in_map_iff in Hy'. destruct Hy' as (y & <- & Hy). exists y. split; [|reflexivity].
          rewrite Er. apply in_or_app. left. exact Hy.
        - apply in_map_iff in Hy'. destruct Hy' as (y & <- & Hy). exists y. split; [|reflexivity].
          rewrite Er. apply in_or_app. right. apply in_or_app. left. exact Hy. }
      unfold is_multiplied, f. rewrite merge_item_gp. apply (HN y). right. exact Hy.
Qed.

Lemma last_in_nat (ps : list nat) : ps <> [] -> In (last ps O) ps.
Proof.
  intros H. destruct (exists_last H) as (l & a & ->). rewrite last_last. apply in_or_app. right. left. reflexivity.
Qed.

Lemma last_in_item (l : list item) : l <> [] -> In (last l i0) l.
Proof.
  intros H. destruct (exists_last H) as (l' & a & ->). rewrite last_last. apply in_or_app. right. left. reflexivity.
Qed.

(* a ligature whose window ends before the cut is formed in the same way on the piece *)
Lemma ligate_app d x r1 t2 ps lg : sorted (x :: r1 ++ t2) -> (last ps O < length r1)%nat ->
  (forall y z, In y (x :: r1) -> In z t2 -> icl y < icl z) -> (forall p, In p ps -> (p <= last ps O)%nat) ->
  ligate d x (r1 ++ t2) ps lg = (fst (ligate d x r1 ps lg), snd (ligate d x r1 ps lg) ++ t2).
Proof.
  intros HS Hl Hlt Hle.
  assert (HS1 : sorted (x :: r1)).
  { change (x :: r1 ++ t2) with ((x :: r1) ++ t2) in HS. apply sorted_app in HS. tauto. }
  rewrite (ligate_unfold d x (r1 ++ t2) ps lg HS), (ligate_unfold d x r1 ps lg HS1). cbv zeta. cbn [fst snd].
  set (n := S (S (last ps O))).
  change (x :: r1 ++ t2) with ((x :: r1) ++ t2).
  rewrite (merge_fwd_app (x :: r1) t2 n); [|unfold n; lia|unfold n; cbn [length]; lia|].
  2:{ intros z Hz E. assert (Hin : In (last (firstn n (x :: r1)) i0) (x :: r1)).
      { eapply in_firstn. apply last_in_item. unfold n. discriminate. }
      specialize (Hlt _ z Hin Hz). lia. }
  pose proof (merge_fwd_length (x :: r1) n) as LM. destruct (merge_fwd (x :: r1) n) as [|m0 M']; [cbn in LM; lia|].
  cbn [length] in LM. assert (LM' : length M' = length r1) by lia.
  cbn [app hd tl].
  assert (Ec : map (fun k => nth k (M' ++ t2) i0) ps = map (fun k => nth k M' i0) ps).
  { apply map_ext_in. intros k Hk. specialize (Hle k Hk). apply app_nth1. lia. }
  rewrite Ec.
  assert (Ef : firstn (n - 1) (M' ++ t2) = firstn (n - 1) M').
  { rewrite firstn_app. replace (n - 1 - length M')%nat with O by (unfold n; lia). cbn [firstn]. apply app_nil_r. }
  assert (Es : skipn (n - 1) (M' ++ t2) = skipn (n - 1) M' ++ t2).
  { rewrite skipn_app. replace (n - 1 - length M')%nat with O by (unfold n; lia). reflexivity. }
  rewrite Ef, Es. reflexivity.
Qed.

(* ---- the step ---- *)
Lemma gs_pass_step P L R d t : pstep (gs_pass P) L R d t = gs_step P d t.
Proof. reflexivity. Qed.

Lemma try_ligs_cases P d x rest : forall ligs,
  try_ligs P d x rest ligs = None
  \/ (exists lg, try_ligs P d x rest ligs = Some (d ++ [replace_with x lg], rest))
  \/ (exists cs ps lg, cs <> [] /\ match_input (gs_match P) cs rest O = Some ps
        /\ try_ligs P d x rest ligs = Some (ligate d x rest ps lg)).
Proof.
  induction ligs as [|[comps lg] more IH]; [left; reflexivity|]. cbn [try_ligs].
  destruct comps as [|first cs]; [exact IH|]. destruct (negb (first =? igid x)); [exact IH|].
  destruct cs as [|g cs]; [right; left; exists lg; reflexivity|].
  destruct (match_input (gs_match P) (g :: cs) rest O) as [ps|] eqn:E; [|exact IH].
  right. right. exists (g :: cs), ps, lg. split; [discriminate|]. split; [exact E|reflexivity].
Qed.

Lemma replace_with_props x g : icl (replace_with x g) = icl x /\ (iutb x = true -> iutb (replace_with x g) = true)
  /\ is_multiplied (replace_with x g) = is_multiplied x.
Proof.
  split; [reflexivity|]. split; [auto|].
  unfold is_multiplied, bit_and, replace_with, with_g, set_gid, set_gp, set_class. cbn [ig gp].
  change (0 =? 0) with true. cbv iota. rewrite Z.land_lor_distr_l. change (Z.land 16 64) with 0. rewrite Z.lor_0_r. reflexivity.
Qed.

(* a one-glyph window rewritten in place *)
Lemma mw_single x x' rest : sorted (x :: rest) -> icl x' = icl x -> (iutb x = true -> iutb x' = true) ->
  merged_window (icl x) (icl x) [x] [x'] rest.
Proof.
  intros HS E U. apply sorted_cons in HS. destruct HS as [H _]. unfold merged_window.
  split; [intros y [<-|[]]; lia|]. split; [exists x; split; [left; reflexivity|reflexivity]|].
  split; [intros y' [<-|[]]; exact E|]. split; [discriminate|]. split; [exact H|]. split; [intros N; contradiction|].
  intros y [<-|[]] _ Uy. exists x'. split; [left; reflexivity|apply U; exact Uy].
Qed.

(* every step rewrites a window at the cursor into glyphs of its minimum cluster *)
Lemma gstep_mw P d x rest : sorted (x :: rest) -> nomult (x :: rest) ->
  exists c cend w w' tail k, x :: rest = w ++ tail
    /\ gs_step P d (x :: rest) = (d ++ firstn k w', skipn k w' ++ tail)
    /\ (length (skipn k w' ++ tail) < length (x :: rest))%nat
    /\ merged_window c cend w w' tail /\ nomult w'.
Proof.
  intros HS HN.
  assert (Next : forall x', icl x' = icl x -> (iutb x = true -> iutb x' = true) -> is_multiplied x' = is_multiplied x ->
     exists c cend w w' tail k, x :: rest = w ++ tail
      /\ (d ++ [x'], rest) = (d ++ firstn k w', skipn k w' ++ tail)
      /\ (length (skipn k w' ++ tail) < length (x :: rest))%nat
      /\ merged_window c cend w w' tail /\ nomult w').
  { intros x' E U M. exists (icl x), (icl x), [x], [x'], rest, 1%nat. split; [reflexivity|]. split; [reflexivity|].
    split; [cbn; lia|]. split; [apply mw_single; assumption|].
    constructor; [|constructor]. rewrite M. inversion HN; assumption. }
  unfold gs_step. destruct (negb _); [apply (Next x); auto|].
  destruct (gs_lig P).
  - destruct (try_ligs_cases P d x rest (gs_ligs P)) as [E|[(lg & E)|(cs & ps & lg & Hcs & Em & E)]]; rewrite E.
    + apply (Next x); auto.
    + destruct (replace_with_props x lg) as (A & B & C0). apply (Next (replace_with x lg)); auto.
    + destruct (mi_bound _ _ _ _ _ Em) as [B Lp].
      assert (Hps : ps <> []) by (intros ->; cbn in Lp; destruct cs; [contradiction|discriminate]).
      assert (Hlast : (last ps O < length rest)%nat).
      { rewrite Forall_forall in B. specialize (B _ (last_in_nat ps Hps)). lia. }
      destruct (ligate_shape d x rest ps lg HS Hps Hlast (mi_le_last _ _ _ _ _ Em)) as (wr & ext & tail & w' & Er & Lwr & EL & Le & MW & HNw).
      exists (icl x), (icl (last (x :: wr) i0)), (x :: wr ++ ext), w', tail, (length w' - length ext)%nat.
      split; [rewrite Er; cbn [app]; rewrite <- app_assoc; reflexivity|]. split; [exact EL|].
      split; [|split; [exact MW|apply HNw; exact HN]].
      rewrite app_length, skipn_length. rewrite Er. cbn [length]. rewrite !app_length. lia.
  - destruct (find _ (gs_singles P)) as [e|]; [|apply (Next x); auto].
    destruct (replace_with_props x (snd e)) as (A & B & C0). apply (Next (replace_with x (snd e))); auto.
Qed.

Lemma gstep_seq P d x rest (c cend : Z) w w' tail k : x :: rest = w ++ tail ->
  gs_step P d (x :: rest) = (d ++ firstn k w', skipn k w' ++ tail) ->
  d ++ x :: rest = d ++ w ++ tail
  /\ fst (gs_step P d (x :: rest)) ++ snd (gs_step P d (x :: rest)) = d ++ w' ++ tail.
Proof.
  intros E1 E2. split; [rewrite E1; reflexivity|]. rewrite E2. cbn [fst snd].
  rewrite <- app_assoc. f_equal. rewrite app_assoc. rewrite firstn_skipn. reflexivity.
Qed.

(* the out-buffer is not read: the step on d1 ++ d2 is the step on d2 with d1 in front *)
Lemma ligate_lift d x rest ps lg : sorted (x :: rest) ->
  ligate d x rest ps lg = (d ++ fst (ligate [] x rest ps lg), snd (ligate [] x rest ps lg)).
Proof. intros HS. rewrite !(ligate_unfold _ x rest ps lg HS). reflexivity. Qed.

Lemma try_ligs_lift P d x rest : sorted (x :: rest) -> forall ligs,
  try_ligs P d x rest ligs = option_map (fun r => (d ++ fst r, snd r)) (try_ligs P [] x rest ligs).
Proof.
  intros HS. induction ligs as [|[comps lg] more IH]; [reflexivity|]. cbn [try_ligs].
  destruct comps as [|first cs]; [exact IH|]. destruct (negb (first =? igid x)); [exact IH|].
  destruct cs as [|g cs]; [reflexivity|].
  destruct (match_input (gs_match P) (g :: cs) rest O) as [ps|]; [|exact IH].
  cbn [option_map]. rewrite (ligate_lift d x rest ps lg HS). reflexivity.
Qed.

Lemma gs_step_lift P d t : sorted t -> gs_step P d t = (d ++ fst (gs_step P [] t), snd (gs_step P [] t)).
Proof.
  intros HS. destruct t as [|x rest]; [cbn; rewrite app_nil_r; reflexivity|]. unfold gs_step.
  destruct (negb _); [reflexivity|]. destruct (gs_lig P).
  - rewrite (try_ligs_lift P d x rest HS). destruct (try_ligs P [] x rest (gs_ligs P)) as [r|]; reflexivity.
  - destruct (find _ (gs_singles P)); reflexivity.
Qed.

(* locality of the ligature search ahead of the cursor *)
Lemma try_ligs_fwd P d x r1 t2 : sorted (x :: r1 ++ t2) -> (forall y z, In y (x :: r1) -> In z t2 -> icl y < icl z) ->
  forall ligs,
  try_ligs P d x (r1 ++ t2) ligs = option_map (fun r => (fst r, snd r ++ t2)) (try_ligs P d x r1 ligs)
  \/ exists cs ps lg p, cs <> [] /\ match_input (gs_match P) cs (r1 ++ t2) O = Some ps
       /\ try_ligs P d x (r1 ++ t2) ligs = Some (ligate d x (r1 ++ t2) ps lg) /\ In p ps /\ (length r1 <= p)%nat.
Proof.
  intros HS Hlt. induction ligs as [|[comps lg] more IH]; [left; reflexivity|]. cbn [try_ligs].
  destruct comps as [|first cs]; [exact IH|]. destruct (negb (first =? igid x)); [exact IH|].
  destruct cs as [|g cs]; [left; reflexivity|].
  destruct (match_input (gs_match P) (g :: cs) (r1 ++ t2) O) as [ps|] eqn:E.
  - destruct (mi_app_inv _ _ _ _ _ _ E) as [E1|(E1 & p & Hp & Lp)]; rewrite E1.
    + left. cbn [option_map]. f_equal.
      destruct (mi_bound _ _ _ _ _ E1) as [B Lps].
      assert (Hps : ps <> []) by (intros ->; cbn in Lps; discriminate).
      apply ligate_app; [exact HS| |exact Hlt|exact (mi_le_last _ _ _ _ _ E1)].
      rewrite Forall_forall in B. specialize (B _ (last_in_nat ps Hps)). lia.
    + right. exists (g :: cs), ps, lg, p. split; [discriminate|]. split; [exact E|]. split; [reflexivity|]. split; [exact Hp|]. lia.
  - assert (E1 : match_input (gs_match P) (g :: cs) r1 O = None).
    { destruct (match_input (gs_match P) (g :: cs) r1 O) as [ps|] eqn:E1; [|reflexivity].
      rewrite (mi_app_some _ _ _ t2 _ _ E1) in E. discriminate. }
    rewrite E1. exact IH.
Qed.

Theorem gs_step_ok P : step_ok icl iutb sideL inv_mb (gs_pass P).
Proof.
  constructor.
  - (* progress *) intros L R d t Hne. rewrite gs_pass_step. destruct t as [|x rest]; [contradiction|].
    unfold gs_step. destruct (negb _); [cbn; lia|]. destruct (gs_lig P).
    + destruct (try_ligs_cases P d x rest (gs_ligs P)) as [E|[(lg & E)|(cs & ps & lg & Hcs & Em & E)]]; rewrite E; [cbn; lia|cbn; lia|].
      unfold ligate. destruct (merge_zip d (x :: rest) _) as [d1 t1] eqn:EM. cbn [snd].
      assert (length t1 = length (x :: rest)).
      { unfold merge_zip in EM. injection EM as _ <-. rewrite app_length, map_length, <- app_length, firstn_skipn. reflexivity. }
      rewrite skipn_length. destruct t1; cbn [tl length] in *; lia.
    + destruct (find _ (gs_singles P)); cbn; lia.
  - (* invariant *) intros L R d t Hne [HS HN]. rewrite gs_pass_step. destruct t as [|x rest]; [contradiction|].
    pose proof HS as HS'. apply sorted_app in HS'. destruct HS' as (_ & St & _).
    pose proof HN as HN'. apply nomult_app in HN'. destruct HN' as (HNd & HNt).
    destruct (gstep_mw P d x rest St HNt) as (c & cend & w & w' & tail & k & E1 & E2 & _ & MW & HNw).
    destruct (gstep_seq P d x rest c cend w w' tail k E1 E2) as [Q1 Q2]. rewrite Q2. split.
    + apply (mw_sorted d c cend w w' tail); [rewrite <- Q1; exact HS|exact MW].
    + apply nomult_app. split; [exact HNd|]. apply nomult_app. split; [exact HNw|].
      rewrite E1 in HNt. apply nomult_app in HNt. tauto.
  - (* clusters *) intros L R d t y Hne [HS HN] Hy. rewrite gs_pass_step in Hy. destruct t as [|x rest]; [contradiction|].
    pose proof HS as HS'. apply sorted_app in HS'. destruct HS' as (_ & St & _).
    pose proof HN as HN'. apply nomult_app in HN'. destruct HN' as (HNd & HNt).
    destruct (gstep_mw P d x rest St HNt) as (c & cend & w & w' & tail & k & E1 & E2 & _ & MW & HNw).
    destruct (gstep_seq P d x rest c cend w w' tail k E1 E2) as [Q1 Q2]. rewrite Q2 in Hy. rewrite Q1.
    apply (mw_cls d c cend w w' tail MW y Hy).
  - (* persistence *) intros L R d t c0 Hne [HS HN] F. rewrite gs_pass_step. destruct t as [|x rest]; [contradiction|].
    pose proof HS as HS'. apply sorted_app in HS'. destruct HS' as (_ & St & _).
    pose proof HN as HN'. apply nomult_app in HN'. destruct HN' as (HNd & HNt).
    destruct (gstep_mw P d x rest St HNt) as (c & cend & w & w' & tail & k & E1 & E2 & _ & MW & HNw).
    destruct (gstep_seq P d x rest c cend w w' tail k E1 E2) as [Q1 Q2]. rewrite Q2. rewrite Q1 in F, HS.
    apply (mw_fog d c cend w w' tail c0 HS MW F).
  - (* cut ahead *)
    intros L R R' d t1 t2 c0 Hne [HS HN] [HS1 HN1] HC _. cbv zeta. rewrite !gs_pass_step.
    destruct t1 as [|x r1]; [contradiction|]. cbn [app].
    apply cutvL_spec in HC. destruct HC as [C1 C2].
    pose proof HS as HS'. apply sorted_app in HS'. destruct HS' as (_ & St & _).
    assert (Hlt : forall y z, In y (x :: r1) -> In z t2 -> icl y < icl z).
    { intros y z Hy Hz. specialize (C1 y (in_or_app _ _ _ (or_intror Hy))). specialize (C2 z Hz). lia. }
    unfold gs_step. destruct (negb _); [right; reflexivity|].
    destruct (gs_lig P).
    + destruct (try_ligs_fwd P d x r1 t2 St Hlt (gs_ligs P)) as [E|(cs & ps & lg & p & Hcs & Em & E & Hp & Lp)].
      * right. rewrite E. destruct (try_ligs P d x r1 (gs_ligs P)) as [r|]; reflexivity.
      * left. rewrite E.
        destruct (mi_bound _ _ _ _ _ Em) as [B Lps].
        assert (Hps : ps <> []) by (intros ->; destruct Hp).
        assert (Hlast : (last ps O < length (r1 ++ t2))%nat).
        { rewrite Forall_forall in B. specialize (B _ (last_in_nat ps Hps)). lia. }
        pose proof (mi_le_last _ _ _ _ _ Em) as Hle.
        destruct (ligate_shape d x (r1 ++ t2) ps lg St Hps Hlast Hle) as (wr & ext & tail & w' & Er & Lwr & EL & Le & MW & _).
        rewrite EL. cbn [fst snd]. rewrite <- app_assoc, (app_assoc (firstn _ w')), firstn_skipn.
        destruct MW as (Hw & _ & Hw' & _ & Ht & Ht' & _).
        (* the window holds a glyph of t2: the first one *)
        assert (Hz0 : exists z0, In z0 t2 /\ In z0 wr).
        { assert (Lw : (length r1 < length wr)%nat) by (specialize (Hle p Hp); lia).
          assert (E0 : wr = firstn (length wr) (r1 ++ t2)).
          { rewrite Er. rewrite firstn_app, Nat.sub_diag, firstn_all. cbn [firstn]. rewrite app_nil_r. reflexivity. }
          rewrite firstn_app in E0. rewrite firstn_all2 in E0 by lia.
          destruct t2 as [|z0 t2']; [rewrite app_length in Hlast; cbn in Hlast; specialize (Hle p Hp); lia|].
          exists z0. split; [left; reflexivity|]. rewrite E0. apply in_or_app. right.
          destruct (length wr - length r1)%nat eqn:D; [lia|]. left. reflexivity. }
        destruct Hz0 as (z0 & Hz0 & Hz0w).
        assert (Hcend : c0 <= icl (last (x :: wr) i0)).
        { specialize (C2 z0 Hz0). assert (In z0 (x :: wr ++ ext)) by (right; apply in_or_app; left; exact Hz0w).
          specialize (Hw z0 H). lia. }
        assert (Hc : icl x < c0) by (apply C1; apply in_or_app; right; left; reflexivity).
        apply fog_spec. left. intros u Hu Eu.
        apply in_app_or in Hu. destruct Hu as [Hu|Hu]; [specialize (C1 u (in_or_app _ _ _ (or_introl Hu))); lia|].
        apply in_app_or in Hu. destruct Hu as [Hu|Hu]; [rewrite (Hw' u Hu) in Eu; lia|].
        assert (icl x <> icl (last (x :: wr) i0)) by lia. specialize (Ht' H u Hu). lia.
    + right. destruct (find _ (gs_singles P)); reflexivity.
  - (* cut behind: the out-buffer is not read *)
    intros L L' R d1 d2 t c0 Hne [HS HN] [HS2 HN2] HC _. cbv zeta. rewrite !gs_pass_step. right.
    assert (St : sorted t). { apply sorted_app in HS2. tauto. }
    rewrite (gs_step_lift P (d1 ++ d2) t St), (gs_step_lift P d2 t St). cbn [fst snd]. rewrite app_assoc. reflexivity.
Qed.
