(* RuneSet.includes (after the fix that ignores the all-zero pages left behind by Delete): page-level inclusion,
   decided by the merge loop; soundness and completeness w.r.t. the sets of members for all well-formed sets. *)
From TV Require Import Lib.GoNum Lib.Res Lib.Bytes Model.RuneSet Spec.RuneSet Proofs.RuneSet.
From Coq Require Import ZifyBool.

(* every page of b is all-zero or has a page of a with the same ref whose bits include it *)
Definition pages_included (a b : RuneSet) (ai bi : Z) : Prop :=
  forall j, bi <= j < zlen b ->
    set_is_zero (p_set (znth dpage b j)) = true \/
    exists i, ai <= i < zlen a /\ p_ref (znth dpage a i) = p_ref (znth dpage b j)
              /\ pageSet_includes (p_set (znth dpage a i)) (p_set (znth dpage b j)) = true.

Lemma sorted_idx_le lo rs i j : sorted_from lo rs -> 0 <= i -> i <= j -> j < zlen rs ->
  p_ref (znth dpage rs i) <= p_ref (znth dpage rs j).
Proof.
  intros. destruct (Z.eq_dec i j) as [->|]; [lia|].
  pose proof (sorted_idx lo rs i j ltac:(auto) ltac:(lia) ltac:(lia) ltac:(lia)). lia.
Qed.
Lemma sorted_idx_inj lo rs i j : sorted_from lo rs -> 0 <= i < zlen rs -> 0 <= j < zlen rs ->
  p_ref (znth dpage rs i) = p_ref (znth dpage rs j) -> i = j.
Proof.
  intros S Hi Hj E. destruct (Z.lt_trichotomy i j) as [L|[L|L]]; auto.
  - pose proof (sorted_idx lo rs i j S ltac:(lia) ltac:(lia) ltac:(lia)). lia.
  - pose proof (sorted_idx lo rs j i S ltac:(lia) ltac:(lia) ltac:(lia)). lia.
Qed.

(* forallb over a tail, read by index *)
Lemma forallb_zskipn {A} (d : A) f l k : 0 <= k ->
  (forallb f (zskipn k l) = true <-> forall j, k <= j < zlen l -> f (znth d l j) = true).
Proof.
  intros Hk. rewrite forallb_forall. unfold zskipn, znth, zlen. split.
  - intros H j Hj. destruct (j <? 0) eqn:E; [lia|]. apply H.
    replace (Z.to_nat j) with (Z.to_nat k + Z.to_nat (j - k))%nat by lia.
    rewrite <- nth_skipn_add. apply nth_In. rewrite skipn_length. lia.
  - intros H x Hx. apply (In_nth _ _ d) in Hx. destruct Hx as [n [Hn <-]].
    rewrite skipn_length in Hn. rewrite nth_skipn_add.
    specialize (H (k + Z.of_nat n) ltac:(lia)).
    destruct (k + Z.of_nat n <? 0) eqn:E; [lia|].
    replace (Z.to_nat (k + Z.of_nat n)) with (Z.to_nat k + n)%nat in H by lia. exact H.
Qed.

(* every set includes the all-zero set *)
Lemma pageSet_includes_zero sa sb : set_is_zero sb = true -> pageSet_includes sa sb = true.
Proof.
  unfold set_is_zero, pageSet_includes. revert sa.
  induction sb as [|w t IH]; intros [|wa ta] H; simpl; auto.
  simpl in H. apply andb_true_iff in H as [H1 H2]. apply andb_true_iff. split; [|apply IH; auto].
  assert (w = 0) by lia. subst. reflexivity.
Qed.

Lemma includes_loop_spec a b la lb : sorted_from la a -> sorted_from lb b ->
  forall fuel bi ai,
    0 <= bi <= zlen b -> 0 <= ai <= zlen a ->
    (zlen a - ai) + (zlen b - bi) < Z.of_nat fuel ->
    (forall i j, 0 <= i < ai -> bi <= j < zlen b -> p_ref (znth dpage a i) < p_ref (znth dpage b j)) ->
    exists v, includes_loop fuel a b bi ai = Ok v /\ (v = true <-> pages_included a b ai bi).
Proof.
  intros Sa Sb. induction fuel; intros bi ai Hbi Hai Hf H1; [lia|].
  cbn [includes_loop]. destruct ((bi <? zlen b) && (ai <? zlen a)) eqn:G.
  2:{ eexists; split; [reflexivity|].
      rewrite (forallb_zskipn dpage (fun p => set_is_zero (p_set p)) b bi) by lia. split.
      - intros E j Hj. left. apply E; auto.
      - intros R j Hj. destruct (R j Hj) as [Z0|[i [Hi _]]]; auto. lia. }
  assert (Gb : bi < zlen b) by lia. assert (Ga : ai < zlen a) by lia. clear G.
  set (rb := p_ref (znth dpage b bi)). set (ra := p_ref (znth dpage a ai)).
  destruct (rb =? ra) eqn:E1.
  - assert (Er : rb = ra) by lia.
    destruct (pageSet_includes (p_set (znth dpage a ai)) (p_set (znth dpage b bi))) eqn:E2.
    + destruct (IHfuel (bi + 1) (ai + 1) ltac:(lia) ltac:(lia) ltac:(lia)) as [v [Ev Hv]].
      { intros i j Hi Hj.
        pose proof (sorted_idx lb b bi j Sb ltac:(lia) ltac:(lia) ltac:(lia)).
        pose proof (sorted_idx_le la a i ai Sa ltac:(lia) ltac:(lia) ltac:(lia)). fold rb in H. fold ra in H0. lia. }
      exists v. split; auto. rewrite Hv. split.
      * intros R j Hj. destruct (Z.eq_dec j bi) as [->|].
        -- right. exists ai. repeat split; auto; try lia.
        -- destruct (R j ltac:(lia)) as [Z0|[i [Hi Q]]]; [left; auto|]. right. exists i. split; [lia|auto].
      * intros R j Hj. destruct (R j ltac:(lia)) as [Z0|[i [Hi [Q1 Q2]]]]; [left; auto|]. right. exists i. split; auto.
        destruct (Z.eq_dec i ai) as [->|]; [|lia].
        pose proof (sorted_idx lb b bi j Sb ltac:(lia) ltac:(lia) ltac:(lia)). fold rb in H. fold ra in Q1. lia.
    + eexists; split; [reflexivity|]. split; [discriminate|].
      intros R. destruct (R bi ltac:(lia)) as [Z0|[i [Hi [Q1 Q2]]]].
      * rewrite pageSet_includes_zero in E2 by auto. discriminate.
      * assert (i = ai) by (apply (sorted_idx_inj la a i ai Sa); try lia; fold rb in Q1; fold ra; lia). subst i. congruence.
  - destruct (rb <? ra) eqn:E2.
    + destruct (set_is_zero (p_set (znth dpage b bi))) eqn:E3.
      * destruct (IHfuel (bi + 1) ai ltac:(lia) ltac:(lia) ltac:(lia)) as [v [Ev Hv]].
        { intros i j Hi Hj. apply H1; lia. }
        exists v. split; auto. rewrite Hv. split.
        -- intros R j Hj. destruct (Z.eq_dec j bi) as [->|]; [left; auto|]. apply R. lia.
        -- intros R j Hj. apply R. lia.
      * eexists; split; [reflexivity|]. split; [discriminate|].
        intros R. destruct (R bi ltac:(lia)) as [Z0|[i [Hi [Q1 Q2]]]]; [congruence|].
        pose proof (sorted_idx_le la a ai i Sa ltac:(lia) ltac:(lia) ltac:(lia)). fold rb in Q1. fold ra in H. lia.
    + assert (Lt : ra < rb) by lia.
      destruct (findPageFrom_spec a rb la (ai + 1) Sa ltac:(lia)) as [v [Ev P]].
      { intros i Hi. pose proof (sorted_idx_le la a i ai Sa ltac:(lia) ltac:(lia) ltac:(lia)). fold ra in H. lia. }
      rewrite Ev. cbn [bind]. set (ai' := if v <? 0 then - v - 1 else v).
      (* the walk resumes at ai' > ai, and every page of a before ai' has a ref below rb *)
      assert (A' : ai < ai' <= zlen a /\ forall i, 0 <= i < ai' -> p_ref (znth dpage a i) < rb).
      { unfold ai'. destruct (v <? 0) eqn:E3.
        - destruct P as [[P1 P2]|[_ [P1 [P2 P3]]]]; [lia|]. split; auto. split; [|lia].
          destruct (Z_lt_dec ai (- v - 1)); auto. specialize (P3 ai ltac:(lia)). fold ra in P3. lia.
        - destruct P as [[P1 P2]|[P0 _]]; [|lia].
          assert (Hv : ai < v).
          { destruct (Z_lt_dec ai v); auto.
            pose proof (sorted_idx_le la a v ai Sa ltac:(lia) ltac:(lia) ltac:(lia)). fold ra in H. lia. }
          split; [lia|]. intros i Hi.
          pose proof (sorted_idx la a i v Sa ltac:(lia) ltac:(lia) ltac:(lia)). lia. }
      destruct A' as [A1 A2]. clearbody ai'.
      destruct (IHfuel bi ai' ltac:(lia) ltac:(lia) ltac:(lia)) as [w [Ew Hw]].
      { intros i j Hi Hj. specialize (A2 i Hi).
        pose proof (sorted_idx_le lb b bi j Sb ltac:(lia) ltac:(lia) ltac:(lia)). fold rb in H. lia. }
      exists w. split; auto. rewrite Hw. split.
      * intros R j Hj. destruct (R j Hj) as [Z0|[i [Hi Q]]]; [left; auto|]. right. exists i. split; [lia|auto].
      * intros R j Hj. destruct (R j Hj) as [Z0|[i [Hi [Q1 Q2]]]]; [left; auto|]. right. exists i. split; auto.
        destruct (Z_lt_dec i ai'); [|lia]. specialize (A2 i ltac:(lia)).
        pose proof (sorted_idx_le lb b bi j Sb ltac:(lia) ltac:(lia) ltac:(lia)). fold rb in H. lia.
Qed.

Lemma includes_pages a b : inv a -> inv b ->
  exists v, rsIncludes a b = Ok v /\ (v = true <-> pages_included a b 0 0).
Proof.
  intros [Sa _] [Sb _]. unfold rsIncludes.
  eapply includes_loop_spec; eauto; try (unfold zlen; lia); intros; lia.
Qed.

(* ---- from pages to members ---- *)
Lemma pageSet_includes_bits sa sb : length sa = 8%nat -> length sb = 8%nat ->
  Forall word_ok sa -> Forall word_ok sb ->
  (pageSet_includes sa sb = true <->
   forall k j, 0 <= k < 8 -> 0 <= j < 32 -> Z.testbit (znth 0 sb k) j = true -> Z.testbit (znth 0 sa k) j = true).
Proof.
  intros La Lb Fa Fb.
  destruct sa as [|a0 [|a1 [|a2 [|a3 [|a4 [|a5 [|a6 [|a7 [|]]]]]]]]]; try discriminate.
  destruct sb as [|b0 [|b1 [|b2 [|b3 [|b4 [|b5 [|b6 [|b7 [|]]]]]]]]]; try discriminate.
  unfold pageSet_includes. cbn [combine forallb fst snd].
  assert (W : forall aw bw, word_ok aw -> word_ok bw ->
            ((Z.land bw (not32 aw) =? 0) = true <-> forall j, 0 <= j < 32 -> Z.testbit bw j = true -> Z.testbit aw j = true)).
  { intros aw bw Ha Hb. split.
    - intros E j Hj T. assert (E' : Z.land bw (not32 aw) = 0) by lia.
      assert (Q : Z.testbit (Z.land bw (not32 aw)) j = false) by (rewrite E'; apply Z.bits_0).
      unfold not32 in Q. rewrite Z.land_spec, Z.lxor_spec, ones32_testbit, T in Q by lia.
      replace (j <? 32) with true in Q by lia. destruct (Z.testbit aw j); auto.
    - intros H. apply Z.eqb_eq. apply Z.bits_inj'. intros n Hn. rewrite Z.bits_0.
      unfold not32. rewrite Z.land_spec, Z.lxor_spec, ones32_testbit by lia.
      destruct (Z_lt_dec n 32).
      + replace (n <? 32) with true by lia. destruct (Z.testbit bw n) eqn:T; auto.
        rewrite (H n ltac:(lia) T). reflexivity.
      + replace (n <? 32) with false by lia.
        assert (Z.testbit bw n = false).
        { unfold word_ok in Hb. destruct (Z.eq_dec bw 0) as [->|]; [apply Z.bits_0|].
          apply Z.bits_above_log2; [lia|]. assert (Z.log2 bw < 32) by (apply Z.log2_lt_pow2; lia). lia. }
        rewrite H0. reflexivity. }
  repeat match goal with H : Forall _ (_ :: _) |- _ => inversion H; clear H; subst end.
  rewrite !andb_true_iff. rewrite !W by auto. split.
  - intros H k j Hk Hj. unfold znth. destruct (k <? 0) eqn:E; [lia|].
    assert (Hc : k = 0 \/ k = 1 \/ k = 2 \/ k = 3 \/ k = 4 \/ k = 5 \/ k = 6 \/ k = 7) by lia.
    destruct Hc as [->|[->|[->|[->|[->|[->|[->| ->]]]]]]]; cbn; intuition.
  - intros H. repeat split; auto; intros j Hj.
    + apply (H 0 j); lia. + apply (H 1 j); lia. + apply (H 2 j); lia. + apply (H 3 j); lia.
    + apply (H 4 j); lia. + apply (H 5 j); lia. + apply (H 6 j); lia. + apply (H 7 j); lia.
Qed.

Lemma get_In rs ref s : get rs ref = Some s -> exists p, In p rs /\ p_ref p = ref /\ p_set p = s.
Proof.
  induction rs; simpl; [discriminate|]. destruct (p_ref a =? ref) eqn:E.
  - intros [= <-]. exists a. split; auto. split; auto. lia.
  - intros H. destruct (IHrs H) as [p [Hp Q]]. exists p. split; auto.
Qed.
Lemma In_get lo rs p : sorted_from lo rs -> In p rs -> get rs (p_ref p) = Some (p_set p).
Proof.
  intros S Hp. apply in_split in Hp. destruct Hp as [l1 [l2 ->]].
  pose proof (sorted_split _ _ _ _ S) as [F1 _].
  rewrite get_app_skip by (apply Forall_lt_ne; auto). simpl. rewrite Z.eqb_refl. reflexivity.
Qed.
Lemma In_znth (rs : RuneSet) p : In p rs -> exists i, 0 <= i < zlen rs /\ znth dpage rs i = p.
Proof.
  intros H. apply (In_nth _ _ dpage) in H. destruct H as [n [Hn E]].
  exists (Z.of_nat n). split; [unfold zlen; lia|]. unfold znth. destruct (Z.of_nat n <? 0) eqn:Q; [lia|].
  rewrite Nat2Z.id. auto.
Qed.

(* ---- all-zero pages ---- *)
Lemma set_is_zero_znth s k : set_is_zero s = true -> znth 0 s k = 0.
Proof.
  unfold set_is_zero, znth. intros H. destruct (k <? 0); auto. generalize (Z.to_nat k) as n.
  induction s as [|w t IH]; intros [|n]; simpl; auto; simpl in H; apply andb_true_iff in H as [H1 H2];
    [lia|apply IH; auto].
Qed.
Lemma set_is_zero_bit s x : set_is_zero s = true -> set_bit s x = false.
Proof. intros H. unfold set_bit. rewrite set_is_zero_znth by auto. apply Z.bits_0. Qed.

Lemma nonzero_word_bit w : word_ok w -> w <> 0 -> exists jj, 0 <= jj < 32 /\ Z.testbit w jj = true.
Proof.
  unfold word_ok. intros Hw Hn. exists (Z.log2 w). split.
  - split; [apply Z.log2_nonneg|apply Z.log2_lt_pow2; lia].
  - apply Z.bit_log2. lia.
Qed.
Lemma nonzero_set_bit s : Forall word_ok s -> set_is_zero s = false ->
  exists k jj, 0 <= k < zlen s /\ 0 <= jj < 32 /\ Z.testbit (znth 0 s k) jj = true.
Proof.
  unfold set_is_zero. induction 1 as [|w t Hw Ht IH]; simpl; [discriminate|].
  destruct (w =? 0) eqn:E; simpl.
  - intros H. destruct (IH H) as [k [jj [Hk [Hj T]]]]. exists (k + 1), jj. rewrite zlen_cons.
    split; [lia|]. split; auto.
    unfold znth in *. destruct (k <? 0) eqn:E1; [lia|]. destruct (k + 1 <? 0) eqn:E2; [lia|].
    replace (Z.to_nat (k + 1)) with (S (Z.to_nat k)) by lia. exact T.
  - intros _. destruct (nonzero_word_bit w Hw ltac:(lia)) as [jj [Hj T]]. exists 0, jj.
    rewrite zlen_cons. pose proof (zlen_nonneg t). repeat split; auto; lia.
Qed.

Definition subset_of (a b : RuneSet) : Prop := forall x, rune_ok x -> mem b x = true -> mem a x = true.
(* no page of b is empty: each holds at least one rune *)
Definition page_nonempty (p : runePage) : Prop := exists x, rune_ok x /\ rune_ref x = p_ref p /\ set_bit (p_set p) x = true.

(* a well-formed page that is not all-zero holds a rune *)
Lemma nonzero_page_nonempty q : 0 <= p_ref q -> page_ok q -> set_is_zero (p_set q) = false -> page_nonempty q.
Proof.
  intros Pos [Pb [Lb Wb]] NZ. destruct (nonzero_set_bit _ Wb NZ) as [k [jj [Hk [Hjj T]]]].
  assert (Hk8 : 0 <= k < 8) by (unfold zlen in Hk; lia).
  set (x := p_ref q * 256 + k * 32 + jj). exists x.
  assert (Hx : rune_ok x) by (unfold rune_ok, x; lia).
  assert (X1 : rune_ref x = p_ref q).
  { rewrite rune_ref_eq by auto. unfold x. Z.div_mod_to_equations. lia. }
  assert (X2 : word_idx x = k) by (rewrite word_idx_eq; unfold x; Z.div_mod_to_equations; lia).
  assert (X3 : bit_idx x = jj) by (rewrite bit_idx_eq; unfold x; Z.div_mod_to_equations; lia).
  split; auto. split; auto. unfold set_bit. rewrite X2, X3. exact T.
Qed.

Lemma pages_included_sound a b : inv a -> inv b -> pages_included a b 0 0 -> subset_of a b.
Proof.
  intros [Sa Fa] [Sb Fb] R x Hx M. unfold mem in *.
  destruct (get b (rune_ref x)) as [sb|] eqn:Gb; [|discriminate].
  destruct (get_In _ _ _ Gb) as [q [Hq [Eq1 Eq2]]].
  destruct (In_znth _ _ Hq) as [j [Hj Ej]].
  destruct (R j ltac:(lia)) as [Z0|[i [Hi [Q1 Q2]]]]; rewrite Ej in *.
  { rewrite Eq2 in Z0. rewrite (set_is_zero_bit sb x Z0) in M. discriminate. }
  pose proof (znth_In dpage a i ltac:(lia)) as Hp. set (p := znth dpage a i) in *.
  rewrite <- Eq1, <- Q1. rewrite (In_get 0 a p Sa Hp).
  rewrite Forall_forall in Fa, Fb. destruct (Fa p Hp) as [_ [La Wa]]. destruct (Fb q Hq) as [_ [Lb Wb]].
  pose proof (proj1 (pageSet_includes_bits _ _ La Lb Wa Wb) Q2) as B.
  unfold set_bit in *. apply B; auto; [apply word_idx_range|apply bit_idx_range|]. rewrite Eq2. exact M.
Qed.

Lemma pages_included_complete a b : inv a -> inv b -> subset_of a b -> pages_included a b 0 0.
Proof.
  intros [Sa Fa] [Sb Fb] Sub j Hj.
  pose proof (znth_In dpage b j ltac:(lia)) as Hq. set (q := znth dpage b j) in *.
  destruct (set_is_zero (p_set q)) eqn:NZ; [left; reflexivity|]. right.
  pose proof (sorted_from_all _ _ Sb) as Pos. rewrite Forall_forall in Pos. specialize (Pos q Hq). simpl in Pos.
  rewrite Forall_forall in Fa, Fb.
  destruct (nonzero_page_nonempty q Pos (Fb q Hq) NZ) as [x0 [Hx0 [Rx0 Bx0]]].
  assert (M0 : mem b x0 = true) by (unfold mem; rewrite Rx0, (In_get 0 b q Sb Hq); auto).
  pose proof (Sub x0 Hx0 M0) as M1. unfold mem in M1.
  destruct (get a (rune_ref x0)) as [sa|] eqn:Ga; [|discriminate].
  destruct (get_In _ _ _ Ga) as [p [Hp [Ep1 Ep2]]].
  destruct (In_znth _ _ Hp) as [i [Hi Ei]]. exists i. split; [lia|]. rewrite Ei. split; [lia|].
  destruct (Fa p Hp) as [Pa [La Wa]]. destruct (Fb q Hq) as [Pb [Lb Wb]].
  apply (pageSet_includes_bits _ _ La Lb Wa Wb). intros k jj Hk Hjj T.
  (* the rune of page q, word k, bit jj *)
  set (x := p_ref q * 256 + k * 32 + jj).
  assert (Hx : rune_ok x) by (unfold rune_ok, x; lia).
  assert (X1 : rune_ref x = p_ref q).
  { rewrite rune_ref_eq by auto. unfold x. Z.div_mod_to_equations. lia. }
  assert (X2 : word_idx x = k) by (rewrite word_idx_eq; unfold x; Z.div_mod_to_equations; lia).
  assert (X3 : bit_idx x = jj) by (rewrite bit_idx_eq; unfold x; Z.div_mod_to_equations; lia).
  assert (Mb : mem b x = true) by (unfold mem, set_bit; rewrite X1, (In_get 0 b q Sb Hq), X2, X3; auto).
  pose proof (Sub x Hx Mb) as Ma. unfold mem, set_bit in Ma.
  rewrite X1, <- Rx0, Ga, X2, X3, <- Ep2 in Ma. exact Ma.
Qed.

(* the theorems exported to Props *)
Lemma includes_total a b : inv a -> inv b -> exists v, rsIncludes a b = Ok v.
Proof. intros Ia Ib. destruct (includes_pages a b Ia Ib) as [v [E _]]. exists v. exact E. Qed.
Lemma includes_iff a b : inv a -> inv b -> (rsIncludes a b = Ok true <-> subset_of a b).
Proof.
  intros Ia Ib. destruct (includes_pages a b Ia Ib) as [v [E H]]. rewrite E. split.
  - intros [= ->]. apply pages_included_sound; auto. apply H; auto.
  - intros S. f_equal. apply H. apply pages_included_complete; auto.
Qed.
Lemma includes_total_sound a b : inv a -> inv b ->
  exists v, rsIncludes a b = Ok v /\ (v = true -> subset_of a b).
Proof.
  intros Ia Ib. destruct (includes_pages a b Ia Ib) as [v [E H]]. exists v. split; auto.
  intros T. apply pages_included_sound; auto. apply H; auto.
Qed.
(* kept for Props/C11.v: the non-emptiness hypothesis is no longer needed *)
Lemma includes_iff_nonempty a b : inv a -> inv b -> Forall page_nonempty b ->
  (rsIncludes a b = Ok true <-> subset_of a b).
Proof. intros Ia Ib _. apply includes_iff; auto. Qed.
