(* Lemmas about Model/VarNorm.v: the 'avar' segment maps (exact integer arithmetic) and the fvar stage. *)
From Coq Require Import ZArith List Bool Lia.
From TV Require Import Lib.GoNum Lib.Res Model.F32 Model.HbFont Model.VarNorm Proofs.Outline.
Import ListNotations.
Open Scope Z_scope.

Ltac Zify.zify_post_hook ::= Z.div_mod_to_equations.

(* ---- rounding of a quotient, halves away from zero ---- *)
Lemma rda_bounds n d lo hi : 0 < d -> lo * d <= n <= hi * d -> lo <= round_div_away n d <= hi.
Proof.
  intros Hd [H1 H2]. unfold round_div_away.
  rewrite (Z.sgn_pos d) by lia. rewrite (Z.abs_eq d) by lia. rewrite Z.mul_1_r.
  destruct (Z.lt_trichotomy n 0) as [Hn | [Hn | Hn]].
  - rewrite (Z.sgn_neg n) by lia. rewrite (Z.abs_neq n) by lia.
    set (q := (2 * - n + d) / (2 * d)).
    assert (2 * d * q <= 2 * - n + d < 2 * d * (q + 1)).
    { unfold q. split; [apply Z.mul_div_le; lia|]. pose proof (Z.mul_succ_div_gt (2 * - n + d) (2 * d)). lia. }
    nia.
  - subst n. cbn. nia.
  - rewrite (Z.sgn_pos n) by lia. rewrite (Z.abs_eq n) by lia.
    set (q := (2 * n + d) / (2 * d)).
    assert (2 * d * q <= 2 * n + d < 2 * d * (q + 1)).
    { unfold q. split; [apply Z.mul_div_le; lia|]. pose proof (Z.mul_succ_div_gt (2 * n + d) (2 * d)). lia. }
    nia.
Qed.

Lemma rda_exact k d : 0 < d -> round_div_away (k * d) d = k.
Proof. intros Hd. pose proof (rda_bounds (k * d) d k k Hd ltac:(lia)). lia. Qed.

Lemma rda_nonneg_form n d : 0 < d -> 0 <= n -> round_div_away n d = (2 * n + d) / (2 * d).
Proof.
  intros Hd Hn. unfold round_div_away. rewrite (Z.sgn_pos d), (Z.abs_eq d), (Z.abs_eq n) by lia.
  destruct (Z.eq_dec n 0) as [->|].
  - change (Z.sgn 0) with 0. rewrite (Z.div_small (2 * 0 + d) (2 * d)) by lia. lia.
  - rewrite (Z.sgn_pos n) by lia. lia.
Qed.
Lemma rda_neg_form n d : 0 < d -> n <= 0 -> round_div_away n d = - ((2 * - n + d) / (2 * d)).
Proof.
  intros Hd Hn. unfold round_div_away. rewrite (Z.sgn_pos d), (Z.abs_eq d), (Z.abs_neq n) by lia.
  destruct (Z.eq_dec n 0) as [->|].
  - change (Z.sgn 0) with 0. change (- 0) with 0. rewrite (Z.div_small (2 * 0 + d) (2 * d)) by lia. lia.
  - rewrite (Z.sgn_neg n) by lia. lia.
Qed.

Lemma rda_mono n n' d : 0 < d -> n <= n' -> round_div_away n d <= round_div_away n' d.
Proof.
  intros Hd H.
  destruct (Z_le_gt_dec 0 n) as [Hn|Hn].
  - rewrite !rda_nonneg_form by lia. apply Z.div_le_mono; lia.
  - destruct (Z_le_gt_dec n' 0) as [Hn'|Hn'].
    + rewrite !rda_neg_form by lia. apply Z.opp_le_mono. rewrite !Z.opp_involutive. apply Z.div_le_mono; lia.
    + rewrite (rda_neg_form n) by lia. rewrite (rda_nonneg_form n') by lia.
      assert (0 <= (2 * - n + d) / (2 * d)) by (apply Z.div_pos; lia).
      assert (0 <= (2 * n' + d) / (2 * d)) by (apply Z.div_pos; lia). lia.
Qed.

(* the map is odd when the table is symmetric: the rounding itself is *)
Lemma rda_opp n d : round_div_away (- n) d = - round_div_away n d.
Proof. unfold round_div_away. rewrite Z.sgn_opp, Z.abs_opp. lia. Qed.

(* ---- conversions inside the unit range ---- *)
Lemma cvt_int16_small x : -32768 <= x < 32768 -> cvt_int16 x = x.
Proof.
  intros H. unfold cvt_int16, in_int32.
  replace ((-2147483648 <=? x) && (x <? 2147483648)) with true
    by (symmetry; apply andb_true_iff; split; [apply Z.leb_le | apply Z.ltb_lt]; lia).
  apply sint16_small; assumption.
Qed.

(* ---- the segment maps ---- *)
Definition in_unit_pair (p : Z * Z) : Prop := -16384 <= fst p <= 16384 /\ -16384 <= snd p <= 16384.
Definition ends_at_one (prev : Z * Z) (l : list (Z * Z)) : Prop := last l prev = (16384, 16384).

(* one interpolation step between two entries of a well-formed map: the value lies between the two toCoordinates *)
Lemma step_bounds prev p v :
  in_unit_pair prev -> in_unit_pair p -> fst prev < fst p -> snd prev <= snd p -> fst prev <= v < fst p ->
  fst p - fst prev < 32768 -> snd p - snd prev < 32768 ->
  let a := sint16 (v - fst prev) in let b := sint16 (snd p - snd prev) in let d := sint16 (fst p - fst prev) in
  a = v - fst prev /\ b = snd p - snd prev /\ d = fst p - fst prev /\
  snd prev <= cvt_int16 (round_div_away (snd prev * d + a * b) d) <= snd p.
Proof.
  intros [P1 P2] [Q1 Q2] Hf Ht Hv Hw1 Hw2 a b d.
  assert (Ha : a = v - fst prev) by (apply sint16_small; lia).
  assert (Hd : d = fst p - fst prev) by (apply sint16_small; lia).
  assert (Hb : b = snd p - snd prev) by (apply sint16_small; lia).
  repeat split; try assumption.
  - rewrite cvt_int16_small.
    + apply (rda_bounds _ d (snd prev) (snd p)); [lia|]. rewrite Ha, Hb, Hd. nia.
    + pose proof (rda_bounds (snd prev * d + a * b) d (snd prev) (snd p)). rewrite Ha, Hb, Hd in *.
      assert (0 < fst p - fst prev) by lia. nia.
  - rewrite cvt_int16_small.
    + apply (rda_bounds _ d (snd prev) (snd p)); [lia|]. rewrite Ha, Hb, Hd. nia.
    + pose proof (rda_bounds (snd prev * d + a * b) d (snd prev) (snd p)). rewrite Ha, Hb, Hd in *.
      assert (0 < fst p - fst prev) by lia. nia.
Qed.

Lemma map_sorted_cons prev p r : map_sorted prev (p :: r) = true ->
  fst prev < fst p /\ snd prev <= snd p /\ in_unit_pair p /\ fst p - fst prev < 32768 /\ snd p - snd prev < 32768
  /\ map_sorted p r = true.
Proof.
  cbn [map_sorted]. rewrite !andb_true_iff, !Z.ltb_lt, !Z.leb_le. unfold in_unit_pair. tauto.
Qed.

Lemma last_cons {A} (r : list A) : forall p d, last (p :: r) d = last r p.
Proof.
  induction r as [|q r IH]; intros p d; [reflexivity|].
  change (last (p :: q :: r) d) with (last (q :: r) d). rewrite (IH q d), (IH q p). reflexivity.
Qed.

Lemma scan_step prev p r v :
  in_unit_pair prev -> map_sorted prev (p :: r) = true -> fst prev <= v < fst p ->
  avar_scan prev (p :: r) v = round_div_away (snd prev * (fst p - fst prev) + (v - fst prev) * (snd p - snd prev)) (fst p - fst prev)
  /\ snd prev <= avar_scan prev (p :: r) v <= snd p.
Proof.
  intros Hp Hs Hv. apply map_sorted_cons in Hs. destruct Hs as (H1 & H2 & H3 & H4 & H5 & _).
  pose proof (step_bounds prev p v Hp H3 H1 H2 Hv H4 H5) as S. cbv zeta in S. destruct S as (Sa & Sb & Sd & Sr).
  cbn [avar_scan]. replace (v <? fst p) with true by (symmetry; apply Z.ltb_lt; lia).
  replace (sint16 (fst p - fst prev) =? 0) with false by (symmetry; apply Z.eqb_neq; lia).
  split; [|exact Sr].
  rewrite Sa, Sb, Sd in *. rewrite cvt_int16_small; [reflexivity|].
  destruct Hp, H3. rewrite cvt_int16_small in Sr; [lia|].
  pose proof (rda_bounds (snd prev * (fst p - fst prev) + (v - fst prev) * (snd p - snd prev)) (fst p - fst prev) (snd prev) (snd p)
                ltac:(lia) ltac:(nia)). lia.
Qed.

Lemma scan_bounds l : forall prev v, map_sorted prev l = true -> in_unit_pair prev -> ends_at_one prev l ->
  fst prev <= v <= 16384 -> snd prev <= avar_scan prev l v <= 16384.
Proof.
  induction l as [|p r IH]; intros prev v Hs Hp He Hv.
  - unfold ends_at_one in He. cbn in He. subst prev. cbn in *. lia.
  - pose proof (map_sorted_cons _ _ _ Hs) as (H1 & H2 & H3 & H4 & H5 & H6).
    destruct (Z_lt_ge_dec v (fst p)) as [L|G].
    + destruct (scan_step prev p r v Hp Hs ltac:(lia)) as [_ B]. destruct H3. lia.
    + cbn [avar_scan]. replace (v <? fst p) with false by (symmetry; apply Z.ltb_ge; lia).
      assert (ends_at_one p r) by (unfold ends_at_one in *; rewrite last_cons in He; exact He).
      specialize (IH p v H6 H3 H ltac:(lia)). lia.
Qed.

Lemma wf_map_inv m : wf_map m = true ->
  exists r, m = (-16384, -16384) :: r /\ map_sorted (-16384, -16384) r = true /\ ends_at_one (-16384, -16384) r.
Proof.
  destruct m as [|[f t] r]; [discriminate|]. unfold wf_map. cbn [fst snd].
  intros H. apply andb_true_iff in H. destruct H as [H _]. apply andb_true_iff in H. destruct H as [H Hl].
  apply andb_true_iff in H. destruct H as [H Hs]. apply andb_true_iff in H. destruct H as [Hf Ht].
  apply Z.eqb_eq in Hf. apply Z.eqb_eq in Ht. subst f t. exists r. split; [reflexivity|]. split; [exact Hs|].
  unfold ends_at_one. rewrite <- (last_cons r (-16384, -16384) (0, 0)).
  destruct (last ((-16384, -16384) :: r) (0, 0)) as [a b]. cbn [fst snd] in Hl.
  apply andb_true_iff in Hl. destruct Hl as [Ha Hb]. apply Z.eqb_eq in Ha. apply Z.eqb_eq in Hb. subst. reflexivity.
Qed.

Lemma unit_m1 : in_unit_pair (-16384, -16384). Proof. unfold in_unit_pair; cbn; lia. Qed.

(* the mapped value stays in [-1, 1] *)
Lemma avar_in_range_lemma m v : wf_map m = true -> -16384 <= v <= 16384 -> -16384 <= avar_map m v <= 16384.
Proof.
  intros W Hv. destruct (wf_map_inv m W) as (r & -> & Hs & He). cbn [avar_map].
  pose proof (scan_bounds r (-16384, -16384) v Hs unit_m1 He ltac:(cbn; lia)). cbn [snd] in *. lia.
Qed.

(* every entry of the table is honoured: fromCoordinate is mapped to toCoordinate (in particular -1, 0 and 1 are fixed) *)
Lemma sorted_from_lb l : forall prev x y, map_sorted prev l = true -> In (x, y) l -> fst prev < x.
Proof.
  induction l as [|p r IH]; intros prev x y Hs Hi; [destruct Hi|].
  pose proof (map_sorted_cons _ _ _ Hs) as (H1 & _ & _ & _ & _ & H6).
  destruct Hi as [E|Hi]; [subst p; exact H1|]. specialize (IH p x y H6 Hi). lia.
Qed.
Lemma sorted_le_one l : forall prev x y, map_sorted prev l = true -> In (x, y) l -> x <= 16384.
Proof.
  induction l as [|p r IH]; intros prev x y Hs Hi; [destruct Hi|].
  pose proof (map_sorted_cons _ _ _ Hs) as (_ & _ & [H3 _] & _ & _ & H6).
  destruct Hi as [E|Hi]; [subst p; cbn in H3; lia|]. exact (IH p x y H6 Hi).
Qed.

Lemma scan_knot l : forall prev x y, map_sorted prev l = true -> in_unit_pair prev -> ends_at_one prev l ->
  In (x, y) (prev :: l) -> avar_scan prev l x = y.
Proof.
  induction l as [|p r IH]; intros prev x y Hs Hp He Hi.
  - destruct Hi as [E|[]]. subst prev. unfold ends_at_one in He. cbn in He. inversion He. reflexivity.
  - pose proof (map_sorted_cons _ _ _ Hs) as (H1 & H2 & H3 & H4 & H5 & H6).
    assert (He' : ends_at_one p r) by (unfold ends_at_one in *; rewrite last_cons in He; exact He).
    destruct Hi as [E|Hi].
    + subst prev. cbn [fst snd] in *.
      destruct (scan_step (x, y) p r x Hp Hs ltac:(cbn [fst]; lia)) as [E _]. rewrite E. cbn [fst snd].
      replace (x - x) with 0 by lia. rewrite Z.mul_0_l, Z.add_0_r. apply rda_exact. lia.
    + cbn [avar_scan]. assert (fst p <= x).
      { destruct Hi as [E|Hi]; [subst p; cbn; lia|]. pose proof (sorted_from_lb r p x y H6 Hi). lia. }
      replace (x <? fst p) with false by (symmetry; apply Z.ltb_ge; lia).
      apply IH; assumption.
Qed.

Lemma avar_knots_lemma m x y : wf_map m = true -> In (x, y) m -> avar_map m x = y.
Proof.
  intros W Hi. destruct (wf_map_inv m W) as (r & -> & Hs & He). cbn [avar_map].
  apply scan_knot; try assumption. exact unit_m1.
Qed.

Lemma wf_map_anchors m : wf_map m = true -> In (-16384, -16384) m /\ In (0, 0) m /\ In (16384, 16384) m.
Proof.
  intros W. pose proof W as W0. destruct (wf_map_inv m W) as (r & E & Hs & He). subst m. split; [left; reflexivity|].
  split.
  - cbn [wf_map] in W0. rewrite !andb_true_iff in W0. destruct W0 as (_ & Hex). apply existsb_exists in Hex.
    destruct Hex as ([a b] & Hi & Hab). cbn [fst snd] in Hab. rewrite andb_true_iff, !Z.eqb_eq in Hab. destruct Hab; subst. exact Hi.
  - unfold ends_at_one in He. destruct r as [|p r]; [cbn in He; discriminate|].
    right. rewrite <- He. rewrite last_cons.
    clear. revert p. induction r as [|q r IH]; intros p; [left; reflexivity|]. right. rewrite last_cons. apply IH.
Qed.

(* monotone in the coordinate *)
Lemma scan_mono l : forall prev v w, map_sorted prev l = true -> in_unit_pair prev -> ends_at_one prev l ->
  fst prev <= v -> v <= w -> w <= 16384 -> avar_scan prev l v <= avar_scan prev l w.
Proof.
  induction l as [|p r IH]; intros prev v w Hs Hp He Hv Hvw Hw.
  - cbn. lia.
  - pose proof (map_sorted_cons _ _ _ Hs) as (H1 & H2 & H3 & H4 & H5 & H6).
    assert (He' : ends_at_one p r) by (unfold ends_at_one in *; rewrite last_cons in He; exact He).
    destruct (Z_lt_ge_dec v (fst p)) as [L|G].
    + destruct (scan_step prev p r v Hp Hs ltac:(lia)) as [Ev Bv].
      destruct (Z_lt_ge_dec w (fst p)) as [L'|G'].
      * destruct (scan_step prev p r w Hp Hs ltac:(lia)) as [Ew _]. rewrite Ev, Ew. apply rda_mono; [lia|]. nia.
      * assert (Ew : avar_scan prev (p :: r) w = avar_scan p r w).
        { cbn [avar_scan]. replace (w <? fst p) with false by (symmetry; apply Z.ltb_ge; lia). reflexivity. }
        rewrite Ew. pose proof (scan_bounds r p w H6 H3 He' ltac:(lia)). lia.
    + cbn [avar_scan]. replace (v <? fst p) with false by (symmetry; apply Z.ltb_ge; lia).
      replace (w <? fst p) with false by (symmetry; apply Z.ltb_ge; lia).
      apply IH; try assumption; lia.
Qed.

Lemma avar_monotone_lemma m v w : wf_map m = true -> -16384 <= v -> v <= w -> w <= 16384 -> avar_map m v <= avar_map m w.
Proof.
  intros W Hv Hvw Hw. destruct (wf_map_inv m W) as (r & -> & Hs & He). cbn [avar_map].
  apply (scan_mono r (-16384, -16384) v w Hs unit_m1 He); cbn [fst]; lia.
Qed.

(* total: the avar stage has no failure mode at all *)
Lemma avar_apply_length maps : forall vs, length (avar_apply maps vs) = length vs.
Proof. induction maps as [|m tm IH]; intros [|v tv]; cbn; try reflexivity. rewrite IH. reflexivity. Qed.

(* ---- fvar stage ---- *)
Lemma norm_axis_no_panic a c : match norm_axis a c with Panic _ | OutOfFuel => False | _ => True end.
Proof.
  unfold norm_axis, norm_ratio.
  repeat match goal with |- context [if ?b then _ else _] => destruct b end; cbn [bind];
  repeat match goal with |- context [if ?b then _ else _] => destruct b end; exact I.
Qed.

(* normalizeCoordinates panics exactly when there are fewer coordinates than axes (the documented panic), never loops,
   and otherwise returns one value per coordinate or reports the float division by zero *)
Lemma norm_coords_total axes : forall coords,
  match norm_coords axes coords with
  | Panic _ => (length coords < length axes)%nat
  | OutOfFuel => False
  | Ok r => length r = length coords
  | Err _ => True
  end.
Proof.
  induction axes as [|a ta IH]; intros coords; cbn [norm_coords].
  - rewrite map_length. reflexivity.
  - destruct coords as [|c tc]; [cbn; lia|].
    pose proof (norm_axis_no_panic a c) as NP.
    destruct (norm_axis a c) as [v|e|e|]; cbn [bind]; try exact I; try contradiction.
    specialize (IH tc). destruct (norm_coords ta tc); cbn [bind length] in *; try exact I; try lia.
Qed.

Lemma avar_anchors_lemma m : wf_map m = true ->
  avar_map m (-16384) = -16384 /\ avar_map m 0 = 0 /\ avar_map m 16384 = 16384.
Proof.
  intros W. destruct (wf_map_anchors m W) as (A & B & C).
  repeat split; apply avar_knots_lemma; assumption.
Qed.

(* the whole of NormalizeVariations: the documented panic is the only one *)
Lemma normalize_total_lemma axes maps coords :
  match normalize axes maps coords with
  | Panic _ => (length coords < length axes)%nat
  | OutOfFuel => False
  | Ok r => length r = length coords
  | Err _ => True
  end.
Proof.
  unfold normalize. pose proof (norm_coords_total axes coords) as H.
  destruct (norm_coords axes coords); cbn [bind]; try exact H. rewrite avar_apply_length. exact H.
Qed.

(* the default position of an axis is mapped to 0 by the fvar stage, whatever the float32 rounding of the axis record *)
Lemma norm_axis_default_lemma a : wf_axis a -> norm_axis a (ax_def a) = Ok 0.
Proof.
  intros [H1 H2]. unfold norm_axis, norm_ratio, clamp_axis.
  replace (ax_max a <? ax_def a) with false by (symmetry; apply Z.ltb_ge; lia).
  replace (ax_def a <? ax_min a) with false by (symmetry; apply Z.ltb_ge; lia).
  rewrite Z.ltb_irrefl. cbn [bind]. reflexivity.
Qed.
