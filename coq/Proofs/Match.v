(* Proofs for C15: the model of fontscan/match.go computes the CSS Fonts 5.2 choice of Spec/Css.v. *)
From TV Require Import Model.Match Spec.Css.

(* ------------------------------------------------------------------------------------------------
   1. finite sets: characterisation of set_min / set_max                                            *)

Lemma set_min_char l :
  match set_min l with
  | Some m => In m l /\ Forall (fun x => m <= x) l
  | None => l = []
  end.
Proof.
  induction l as [|a r IH]; [reflexivity|].
  change (set_min (a :: r)) with (omin (Some a) (set_min r)).
  destruct (set_min r) as [m|]; cbn [omin].
  - destruct IH as [Hin Hall]. split.
    + destruct (Z.min_spec a m) as [[_ ->]|[_ ->]]; [left; reflexivity | right; exact Hin].
    + constructor; [lia|]. eapply Forall_impl; [|exact Hall]. cbn; intros; lia.
  - subst r. split; [left; reflexivity | repeat constructor; lia].
Qed.

Lemma set_max_char l :
  match set_max l with
  | Some m => In m l /\ Forall (fun x => x <= m) l
  | None => l = []
  end.
Proof.
  induction l as [|a r IH]; [reflexivity|].
  change (set_max (a :: r)) with (omax (Some a) (set_max r)).
  destruct (set_max r) as [m|]; cbn [omax].
  - destruct IH as [Hin Hall]. split.
    + destruct (Z.max_spec a m) as [[_ ->]|[_ ->]]; [right; exact Hin | left; reflexivity].
    + constructor; [lia|]. eapply Forall_impl; [|exact Hall]. cbn; intros; lia.
  - subst r. split; [left; reflexivity | repeat constructor; lia].
Qed.

Lemma set_min_unique l m : In m l -> (forall x, In x l -> m <= x) -> set_min l = Some m.
Proof.
  intros Hin Hle. pose proof (set_min_char l) as H. destruct (set_min l) as [m'|].
  - destruct H as [Hin' Hall]. rewrite Forall_forall in Hall.
    specialize (Hall m Hin). specialize (Hle m' Hin'). f_equal; lia.
  - subst l. destruct Hin.
Qed.
Lemma set_max_unique l m : In m l -> (forall x, In x l -> x <= m) -> set_max l = Some m.
Proof.
  intros Hin Hle. pose proof (set_max_char l) as H. destruct (set_max l) as [m'|].
  - destruct H as [Hin' Hall]. rewrite Forall_forall in Hall.
    specialize (Hall m Hin). specialize (Hle m' Hin'). f_equal; lia.
  - subst l. destruct Hin.
Qed.
Lemma set_min_empty l : (forall x, In x l -> False) -> set_min l = None.
Proof.
  intros H. pose proof (set_min_char l) as C. destruct (set_min l) as [m|]; [|reflexivity].
  destruct C as [Hin _]. destruct (H m Hin).
Qed.
Lemma set_max_empty l : (forall x, In x l -> False) -> set_max l = None.
Proof.
  intros H. pose proof (set_max_char l) as C. destruct (set_max l) as [m|]; [|reflexivity].
  destruct C as [Hin _]. destruct (H m Hin).
Qed.

Lemma mem_In x l : mem x l = true <-> In x l.
Proof.
  unfold mem. rewrite existsb_exists. split.
  - intros [y [Hy E]]. apply Z.eqb_eq in E. subst; assumption.
  - intros H. exists x. split; [assumption | apply Z.eqb_refl].
Qed.
Lemma in_below q l x : In x (below q l) <-> In x l /\ x < q.
Proof. unfold below. rewrite filter_In. rewrite Z.ltb_lt. reflexivity. Qed.
Lemma in_above q l x : In x (above q l) <-> In x l /\ q < x.
Proof. unfold above. rewrite filter_In. rewrite Z.ltb_lt. reflexivity. Qed.

Lemma omax_assoc a b c : omax (omax a b) c = omax a (omax b c).
Proof. destruct a, b, c; cbn; try reflexivity; f_equal; lia. Qed.
Lemma omin_assoc a b c : omin (omin a b) c = omin a (omin b c).
Proof. destruct a, b, c; cbn; try reflexivity; f_equal; lia. Qed.
Lemma omax_none_r a : omax a None = a. Proof. destruct a; reflexivity. Qed.
Lemma omin_none_r a : omin a None = a. Proof. destruct a; reflexivity. Qed.

(* ------------------------------------------------------------------------------------------------
   2. the accumulator loop shared by matchStretch and matchWeight, on the list of values
      (0 encodes "none found yet", which is why the values must be positive)                         *)

Definition enc (o : option Z) : Z := match o with Some x => x | None => 0 end.
Definition good (o : option Z) : Prop := match o with Some x => 0 < x | None => True end.

Fixpoint aloop (final : Z -> Z -> Z) (vs : list Z) (q lo hi : Z) : Z :=
  match vs with
  | [] => final lo hi
  | v :: r =>
      if v >? q then aloop final r q lo (if (hi =? 0) || (v - q <? hi - q) then v else hi)
      else if v <? q then aloop final r q (if q - v <? q - lo then v else lo) hi
      else q
  end.

Lemma step_hi ow v q : good ow -> 0 < v ->
  (if (enc ow =? 0) || (v - q <? enc ow - q) then v else enc ow) = enc (omin ow (Some v)).
Proof.
  destruct ow as [h|]; cbn [enc omin good]; intros Hh Hv.
  - destruct (Z.eqb_spec h 0); [lia|]. cbn [orb].
    destruct (Z.ltb_spec (v - q) (h - q)); lia.
  - reflexivity.
Qed.
Lemma step_lo on v q : good on -> 0 < v ->
  (if q - v <? q - enc on then v else enc on) = enc (omax on (Some v)).
Proof.
  destruct on as [l|]; cbn [enc omax good]; intros Hl Hv.
  - destruct (Z.ltb_spec (q - v) (q - l)); lia.
  - destruct (Z.ltb_spec (q - v) (q - 0)); lia.
Qed.
Lemma good_omin a b : good a -> good b -> good (omin a b).
Proof. destruct a, b; cbn; intros; lia || auto. Qed.
Lemma good_omax a b : good a -> good b -> good (omax a b).
Proof. destruct a, b; cbn; intros; lia || auto. Qed.

Lemma aloop_spec final q : forall vs on ow,
  Forall (fun v => 0 < v) vs -> good on -> good ow ->
  aloop final vs q (enc on) (enc ow) =
    if mem q vs then q
    else final (enc (omax on (set_max (below q vs)))) (enc (omin ow (set_min (above q vs)))).
Proof.
  induction vs as [|v r IH]; intros on ow Hpos Hon How.
  - cbn. rewrite omax_none_r, omin_none_r. reflexivity.
  - inversion Hpos as [|? ? Hv Hr]; subst.
    cbn [aloop]. rewrite Z.gtb_ltb.
    change (mem q (v :: r)) with ((q =? v) || mem q r).
    change (below q (v :: r)) with (if v <? q then v :: below q r else below q r).
    change (above q (v :: r)) with (if q <? v then v :: above q r else above q r).
    destruct (Z.ltb_spec q v) as [Hqv|Hqv].
    + destruct (Z.ltb_spec v q); [lia|]. destruct (Z.eqb_spec q v); [lia|]. cbn [orb].
      rewrite step_hi by assumption.
      rewrite IH; [|assumption|assumption|apply good_omin; [assumption|exact Hv]].
      change (set_min (v :: above q r)) with (omin (Some v) (set_min (above q r))).
      rewrite omin_assoc. reflexivity.
    + destruct (Z.ltb_spec v q) as [Hvq|Hvq].
      * destruct (Z.eqb_spec q v); [lia|]. cbn [orb].
        rewrite step_lo by assumption.
        rewrite IH; [|assumption|apply good_omax; [assumption|exact Hv]|assumption].
        change (set_max (v :: below q r)) with (omax (Some v) (set_max (below q r))).
        rewrite omax_assoc. reflexivity.
      * destruct (Z.eqb_spec q v); [|lia]. reflexivity.
Qed.

Lemma good_set_max_below q vs : Forall (fun v => 0 < v) vs -> good (set_max (below q vs)).
Proof.
  intros H. pose proof (set_max_char (below q vs)) as C. destruct (set_max (below q vs)) as [m|]; [|exact I].
  destruct C as [Hin _]. apply in_below in Hin. rewrite Forall_forall in H. cbn. apply H. tauto.
Qed.
Lemma good_set_min_above q vs : Forall (fun v => 0 < v) vs -> good (set_min (above q vs)).
Proof.
  intros H. pose proof (set_min_char (above q vs)) as C. destruct (set_min (above q vs)) as [m|]; [|exact I].
  destruct C as [Hin _]. apply in_above in Hin. rewrite Forall_forall in H. cbn. apply H. tauto.
Qed.
Lemma enc_orelse a b : good a -> enc (orelse a b) = if negb (enc a =? 0) then enc a else enc b.
Proof.
  destruct a as [x|]; cbn; intros H.
  - destruct (Z.eqb_spec x 0); [lia|]. reflexivity.
  - reflexivity.
Qed.

(* ------------------------------------------------------------------------------------------------
   3. candidates in range: the loops over indices are the loops over the values                       *)

Definition cand_ok (fs : fontset) (i : Z) : Prop := in_range fs i = true.

Lemma fs_at_ok fs i : in_range fs i = true -> fs_at fs i = Ok (asp_of fs i).
Proof.
  unfold in_range, fs_at, asp_of, zlen. intros H. apply andb_prop in H as [H0 H1].
  apply Z.leb_le in H0. apply Z.ltb_lt in H1.
  destruct (Z.ltb_spec i 0); [lia|].
  destruct (nth_error fs (Z.to_nat i)) eqn:E.
  - erewrite nth_error_nth by exact E. reflexivity.
  - apply nth_error_None in E. lia.
Qed.

Definition sfinal (q nar wid : Z) : Z :=
  if q <=? StretchNormal then (if negb (nar =? 0) then nar else wid)
  else (if negb (wid =? 0) then wid else nar).

Lemma if_res {A} (b : bool) (x y : A) : (if b then Ok x else Ok y) = Ok (if b then x else y).
Proof. destruct b; reflexivity. Qed.

Lemma match_stretch_loop_vals fs q : forall cands nar wid,
  Forall (cand_ok fs) cands ->
  match_stretch_loop fs cands q nar wid
  = Ok (aloop (sfinal q) (map (fun i => a_stretch (asp_of fs i)) cands) q nar wid).
Proof.
  induction cands as [|i r IH]; intros nar wid H.
  - cbn [match_stretch_loop map aloop]. unfold sfinal. rewrite !if_res.
    destruct (q <=? StretchNormal); reflexivity.
  - inversion H as [|? ? Hi Hr]; subst.
    cbn [match_stretch_loop map aloop]. rewrite (fs_at_ok fs i Hi). cbn [bind].
    destruct (a_stretch (asp_of fs i) >? q).
    + destruct ((wid =? 0) || (a_stretch (asp_of fs i) - q <? wid - q)); apply IH; assumption.
    + destruct (a_stretch (asp_of fs i) <? q); [|reflexivity].
      destruct (q - a_stretch (asp_of fs i) <? q - nar); apply IH; assumption.
Qed.

Definition wfinal (q thin fat : Z) : Z :=
  if (W400 <=? q) && (q <=? W500) then
    if negb (fat =? 0) && (fat <=? W500) then fat
    else if negb (thin =? 0) then thin
    else fat
  else if q <? W400 then (if negb (thin =? 0) then thin else fat)
  else (if negb (fat =? 0) then fat else thin).

Lemma match_weight_loop_vals fs q : forall cands fat thin,
  Forall (cand_ok fs) cands ->
  match_weight_loop fs cands q fat thin
  = Ok (aloop (wfinal q) (map (fun i => a_weight (asp_of fs i)) cands) q thin fat).
Proof.
  induction cands as [|i r IH]; intros fat thin H.
  - cbn [match_weight_loop map aloop]. unfold wfinal.
    destruct ((W400 <=? q) && (q <=? W500)).
    + destruct (negb (fat =? 0) && (fat <=? W500)); [reflexivity|].
      destruct (negb (thin =? 0)); reflexivity.
    + destruct (q <? W400); [destruct (negb (thin =? 0)) | destruct (negb (fat =? 0))]; reflexivity.
  - inversion H as [|? ? Hi Hr]; subst.
    cbn [match_weight_loop map aloop]. rewrite (fs_at_ok fs i Hi). cbn [bind].
    destruct (a_weight (asp_of fs i) >? q).
    + destruct ((fat =? 0) || (a_weight (asp_of fs i) - q <? fat - q)); apply IH; assumption.
    + destruct (a_weight (asp_of fs i) <? q); [|reflexivity].
      destruct (q - a_weight (asp_of fs i) <? q - thin); apply IH; assumption.
Qed.

(* ------------------------------------------------------------------------------------------------
   4. matchStretch = css_stretch, matchWeight = css_weight (0 when there is no candidate)             *)

Lemma match_stretch_css fs cands q :
  Forall (cand_ok fs) cands ->
  Forall (fun i => 0 < a_stretch (asp_of fs i)) cands ->
  match_stretch fs cands q = Ok (enc (css_stretch (map (fun i => a_stretch (asp_of fs i)) cands) q)).
Proof.
  intros Hr Hp. unfold match_stretch. rewrite match_stretch_loop_vals by assumption. f_equal.
  set (S := map (fun i => a_stretch (asp_of fs i)) cands).
  assert (HS : Forall (fun v => 0 < v) S) by (unfold S; rewrite Forall_map; exact Hp).
  change 0 with (enc None) at 1 2. rewrite aloop_spec by (auto; exact I).
  unfold css_stretch. destruct (mem q S); [reflexivity|].
  cbn [omax omin]. unfold sfinal.
  change StretchNormal with css_stretch_normal.
  destruct (q <=? css_stretch_normal);
    rewrite enc_orelse by (apply good_set_max_below || apply good_set_min_above; assumption); reflexivity.
Qed.

Lemma match_weight_css fs cands q :
  Forall (cand_ok fs) cands ->
  Forall (fun i => 0 < a_weight (asp_of fs i)) cands ->
  match_weight fs cands q = Ok (enc (css_weight (map (fun i => a_weight (asp_of fs i)) cands) q)).
Proof.
  intros Hr Hp. unfold match_weight. rewrite match_weight_loop_vals by assumption. f_equal.
  set (W := map (fun i => a_weight (asp_of fs i)) cands).
  assert (HW : Forall (fun v => 0 < v) W) by (unfold W; rewrite Forall_map; exact Hp).
  change 0 with (enc None) at 1 2. rewrite aloop_spec by (auto; exact I).
  unfold css_weight. destruct (mem q W); [reflexivity|].
  cbn [omax omin]. unfold wfinal.
  change W400 with css_w400. change W500 with css_w500.
  pose proof (good_set_max_below q W HW) as GX. pose proof (good_set_min_above q W HW) as GY.
  destruct ((css_w400 <=? q) && (q <=? css_w500)) eqn:Emid.
  - apply andb_prop in Emid as [E4 E5]. apply Z.leb_le in E4, E5.
    pose proof (set_min_char (above q W)) as CY.
    destruct (set_min (above q W)) as [m|] eqn:EY.
    + destruct CY as [Hm Hall]. rewrite Forall_forall in Hall. apply in_above in Hm as [HmW Hqm].
      cbn [enc]. cbn in GY. destruct (Z.eqb_spec m 0); [lia|]. cbn [negb andb].
      destruct (Z.leb_spec m css_w500) as [Hle|Hgt].
      * (* a weight in (q, 500]: ascending search finds its minimum *)
        rewrite (set_min_unique _ m).
        -- reflexivity.
        -- apply filter_In. split; [assumption|]. apply andb_true_intro. split; [apply Z.ltb_lt|apply Z.leb_le]; lia.
        -- intros x Hx. apply filter_In in Hx as [HxW Hx]. apply andb_prop in Hx as [Hx _]. apply Z.ltb_lt in Hx.
           apply Hall. apply in_above. tauto.
      * (* nothing in (q, 500]: below q descending, then above 500 ascending *)
        rewrite (set_min_empty (filter _ W)).
        2:{ intros x Hx. apply filter_In in Hx as [HxW Hx]. apply andb_prop in Hx as [Hx1 Hx2].
            apply Z.ltb_lt in Hx1. apply Z.leb_le in Hx2.
            assert (m <= x) by (apply Hall; apply in_above; tauto). lia. }
        cbn [orelse]. rewrite (set_min_unique (above css_w500 W) m).
        -- rewrite enc_orelse by assumption. reflexivity.
        -- apply in_above. split; [assumption|lia].
        -- intros x Hx. apply in_above in Hx as [HxW Hx]. apply Hall. apply in_above. split; [assumption|lia].
    + (* nothing above q at all *)
      assert (Hnone : forall x, In x W -> q < x -> False).
      { intros x HxW Hx. assert (In x (above q W)) by (apply in_above; tauto). rewrite CY in H. destruct H. }
      rewrite (set_min_empty (filter _ W)).
      2:{ intros x Hx. apply filter_In in Hx as [HxW Hx]. apply andb_prop in Hx as [Hx1 _]. apply Z.ltb_lt in Hx1. eauto. }
      rewrite (set_min_empty (above css_w500 W)).
      2:{ intros x Hx. apply in_above in Hx as [HxW Hx]. apply (Hnone x HxW). lia. }
      cbn [orelse enc]. cbn [Z.eqb negb andb].
      destruct (set_max (below q W)) as [x|]; cbn [orelse enc]; [|reflexivity].
      cbn in GX. destruct (Z.eqb_spec x 0); [lia|]. reflexivity.
  - destruct (q <? css_w400); rewrite enc_orelse by assumption; reflexivity.
Qed.

(* ------------------------------------------------------------------------------------------------
   5. matchStyle                                                                                      *)

Lemma match_style_loop_spec fs : forall cands b0 b1 b2,
  Forall (cand_ok fs) cands ->
  Forall (fun i => 0 <= a_style (asp_of fs i) <= 2) cands ->
  let T := map (fun i => a_style (asp_of fs i)) cands in
  match_style_loop fs cands [b0; b1; b2] = Ok [b0 || mem 0 T; b1 || mem 1 T; b2 || mem 2 T].
Proof.
  induction cands as [|i r IH]; intros b0 b1 b2 Hr Hs.
  - cbn. rewrite !orb_false_r. reflexivity.
  - inversion Hr as [|? ? Hi Hr']; inversion Hs as [|? ? Hsi Hs']; subst.
    cbn [match_style_loop map]. rewrite (fs_at_ok fs i Hi). cbn [bind].
    change (mem ?x (?s :: ?l)) with ((x =? s) || mem x l).
    assert (E : a_style (asp_of fs i) = 0 \/ a_style (asp_of fs i) = 1 \/ a_style (asp_of fs i) = 2) by lia.
    destruct E as [E|[E|E]]; rewrite E;
      [ change (crible_set [b0; b1; b2] 0) with (Ok [true; b1; b2])
      | change (crible_set [b0; b1; b2] 1) with (Ok [b0; true; b2])
      | change (crible_set [b0; b1; b2] 2) with (Ok [b0; b1; true]) ];
      cbn [bind]; rewrite IH by assumption; cbn [Z.eqb Pos.eqb orb]; repeat f_equal;
      repeat match goal with |- context [mem ?a ?b] => destruct (mem a b) end;
      destruct b0, b1, b2; reflexivity.
Qed.

Lemma crible_get_1 a b c : crible_get [a; b; c] 1 = b. Proof. reflexivity. Qed.
Lemma crible_get_2 a b c : crible_get [a; b; c] 2 = c. Proof. reflexivity. Qed.

Lemma match_style_total_lemma fs cands q :
  Forall (cand_ok fs) cands ->
  Forall (fun i => 0 <= a_style (asp_of fs i) <= 2) cands ->
  q = StyleNormal \/ q = StyleItalic ->
  exists t, match_style fs cands q = Ok t /\ (t = StyleNormal \/ t = StyleItalic).
Proof.
  intros Hr Hs Hq. unfold match_style, crible_new.
  rewrite match_style_loop_spec by assumption. cbn [bind].
  set (T := map (fun i => a_style (asp_of fs i)) cands).
  unfold styleOblique, StyleNormal, StyleItalic in *.
  destruct Hq as [-> | ->]; rewrite ?crible_get_1, ?crible_get_2; cbn [Z.eqb Pos.eqb orb].
  - destruct (mem 1 T); [eauto|]. destruct (mem 2 T); eauto.
  - destruct (mem 2 T); eauto.
Qed.

Lemma valid_style_cases s : valid_style s = true -> s = 1 \/ s = 2.
Proof. unfold valid_style, css_normal, css_italic. intros H. apply orb_prop in H as [H|H]; apply Z.eqb_eq in H; lia. Qed.

Lemma match_style_css fs cands q :
  cands <> [] ->
  Forall (cand_ok fs) cands ->
  Forall (fun i => valid_style (a_style (asp_of fs i)) = true) cands ->
  valid_style q = true ->
  let T := map (fun i => a_style (asp_of fs i)) cands in
  exists t, match_style fs cands q = Ok t /\ css_style T q = Some t /\ In t T.
Proof.
  intros Hne Hr Hs Hq T.
  assert (Hs' : Forall (fun i => 0 <= a_style (asp_of fs i) <= 2) cands).
  { eapply Forall_impl; [|exact Hs]. cbn. intros a H. apply valid_style_cases in H. lia. }
  assert (Hany : mem 1 T || mem 2 T = true).
  { destruct cands as [|i r]; [congruence|]. inversion Hs as [|? ? Hi _]; subst.
    apply valid_style_cases in Hi. unfold T. cbn [map].
    change (mem ?x (?s :: ?l)) with ((x =? s) || mem x l).
    destruct Hi as [-> | ->]; cbn; [reflexivity|]. apply orb_true_r. }
  unfold match_style, crible_new. rewrite match_style_loop_spec by assumption. cbn [bind]. fold T.
  unfold css_style, style_preference, css_normal, css_italic, css_oblique.
  unfold styleOblique, StyleNormal, StyleItalic.
  apply valid_style_cases in Hq. destruct Hq as [-> | ->]; rewrite ?crible_get_1, ?crible_get_2; cbn [Z.eqb Pos.eqb orb find].
  - destruct (mem 1 T) eqn:E1.
    + exists 1. repeat split; try reflexivity. apply mem_In; assumption.
    + cbn in Hany. rewrite Hany. exists 2. repeat split; try reflexivity. apply mem_In; assumption.
  - destruct (mem 2 T) eqn:E2.
    + exists 2. repeat split; try reflexivity. apply mem_In; assumption.
    + rewrite orb_false_r in Hany. rewrite Hany. exists 1. repeat split; try reflexivity. apply mem_In; assumption.
Qed.

(* ------------------------------------------------------------------------------------------------
   6. the in-place filter                                                                             *)

Lemma upd_spec : forall l n v, (n < length l)%nat ->
  exists l', upd l n v = Ok l' /\ length l' = length l
             /\ firstn (S n) l' = firstn n l ++ [v]
             /\ forall k, (n < k)%nat -> skipn k l' = skipn k l.
Proof.
  induction l as [|x r IH]; intros n v Hn; [cbn in Hn; lia|].
  destruct n as [|n].
  - exists (v :: r). cbn. repeat split; try reflexivity.
    intros k Hk. destruct k; [lia|]. reflexivity.
  - cbn in Hn. destruct (IH n v ltac:(lia)) as [r' [E [Hlen [Hf Hs]]]].
    exists (x :: r'). cbn [upd]. rewrite E. cbn [bind]. repeat split.
    + cbn. lia.
    + change (firstn (S (S n)) (x :: r')) with (x :: firstn (S n) r'). rewrite Hf. reflexivity.
    + intros k Hk. destruct k; [lia|]. cbn. apply Hs. lia.
Qed.

Lemma skipn_nth_error {A} : forall (l : list A) i x, nth_error l i = Some x -> skipn i l = x :: skipn (S i) l.
Proof.
  induction l as [|a r IH]; intros i x H; destruct i; cbn in *; try discriminate.
  - congruence.
  - apply IH. exact H.
Qed.

Lemma filter_loop_spec fs keep : forall todo i arr n,
  (n <= i)%nat -> (i + todo <= length arr)%nat ->
  Forall (cand_ok fs) (firstn todo (skipn i arr)) ->
  let F := filter (fun j => keep (asp_of fs j)) (firstn todo (skipn i arr)) in
  filter_loop fs keep todo i arr n = Ok (firstn n arr ++ F ++ skipn (n + length F) arr, (n + length F)%nat).
Proof.
  induction todo as [|todo IH]; intros i arr n Hni Hlen Hok.
  - cbn. rewrite Nat.add_0_r, firstn_skipn. reflexivity.
  - cbn [filter_loop].
    destruct (nth_error arr i) as [index|] eqn:E; [|apply nth_error_None in E; lia].
    rewrite (skipn_nth_error _ _ _ E) in *. cbn [firstn] in *.
    inversion Hok as [|? ? Hi Hok']; subst.
    rewrite (fs_at_ok fs index Hi). cbn [bind filter].
    destruct (keep (asp_of fs index)).
    + destruct (upd_spec arr n index ltac:(lia)) as [arr' [Eu [Hl [Hf Hs]]]].
      rewrite Eu. cbn [bind].
      rewrite IH; [|lia|lia|rewrite Hs by lia; exact Hok'].
      rewrite (Hs (S i)) by lia. cbn [length].
      rewrite Hf, Hs by lia. rewrite <- app_assoc. cbn [app].
      rewrite <- plus_n_Sm. reflexivity.
    + rewrite IH; [reflexivity|lia|lia|exact Hok'].
Qed.

Lemma filter_len_le {A} (f : A -> bool) l : (length (filter f l) <= length l)%nat.
Proof. induction l as [|a r IH]; cbn; [lia|]. destruct (f a); cbn; lia. Qed.

Lemma skipn_skipn' {A} : forall b a (l : list A), skipn a (skipn b l) = skipn (b + a) l.
Proof.
  induction b as [|b IH]; intros a l; [reflexivity|].
  destruct l as [|x r]; [destruct a; reflexivity|]. cbn. apply IH.
Qed.

Lemma filter_in_place_spec fs keep s :
  (sl_len s <= length (sl_arr s))%nat ->
  Forall (cand_ok fs) (sl_elems s) ->
  exists s', filter_in_place fs keep s = Ok s'
    /\ sl_elems s' = filter (fun j => keep (asp_of fs j)) (sl_elems s)
    /\ (sl_len s' <= sl_len s)%nat
    /\ length (sl_arr s') = length (sl_arr s)
    /\ skipn (sl_len s) (sl_arr s') = skipn (sl_len s) (sl_arr s).
Proof.
  destruct s as [arr len]. unfold sl_elems. cbn [sl_arr sl_len]. intros Hlen Hok.
  unfold filter_in_place. cbn [sl_arr sl_len].
  rewrite filter_loop_spec; [|lia|lia|exact Hok]. cbn [bind fst snd skipn firstn app Nat.add].
  set (F := filter (fun j => keep (asp_of fs j)) (firstn len arr)).
  assert (HF : (length F <= len)%nat).
  { unfold F. etransitivity; [apply filter_len_le|]. rewrite firstn_length. lia. }
  eexists. split; [reflexivity|]. cbn [sl_arr sl_len]. repeat split.
  - rewrite firstn_app, firstn_all, Nat.sub_diag. cbn. apply app_nil_r.
  - exact HF.
  - rewrite app_length, skipn_length. lia.
  - rewrite skipn_app. rewrite skipn_all2 by lia. cbn [app].
    rewrite skipn_skipn'. f_equal. lia.
Qed.

(* ------------------------------------------------------------------------------------------------
   7. the CSS choice exists and is one of the available values                                        *)

Lemma pick_first (a b : option Z) (P : Z -> Prop) :
  (forall m, a = Some m -> P m) -> (forall m, b = Some m -> P m) -> (a = None -> b = None -> False) ->
  exists v, orelse a b = Some v /\ P v.
Proof.
  intros Ha Hb Hn. destruct a as [x|]; cbn [orelse]; [eauto|].
  destruct b as [y|]; [eauto|]. destruct (Hn eq_refl eq_refl).
Qed.

Lemma set_max_in l m : set_max l = Some m -> In m l.
Proof. intros E. pose proof (set_max_char l) as C. rewrite E in C. tauto. Qed.
Lemma set_min_in l m : set_min l = Some m -> In m l.
Proof. intros E. pose proof (set_min_char l) as C. rewrite E in C. tauto. Qed.
Lemma set_max_none l x : set_max l = None -> In x l -> False.
Proof. intros E. pose proof (set_max_char l) as C. rewrite E in C. subst. auto. Qed.
Lemma set_min_none l x : set_min l = None -> In x l -> False.
Proof. intros E. pose proof (set_min_char l) as C. rewrite E in C. subst. auto. Qed.

Lemma css_stretch_some S q : S <> [] -> exists v, css_stretch S q = Some v /\ In v S.
Proof.
  intros Hne. unfold css_stretch. destruct (mem q S) eqn:Em.
  - exists q. split; [reflexivity | apply mem_In; assumption].
  - destruct S as [|x S']; [congruence|]. set (S := x :: S') in *.
    assert (Hx : x < q \/ q < x).
    { destruct (Z.lt_trichotomy x q) as [|[|]]; auto. subst x.
      assert (mem q S = true) by (apply mem_In; left; reflexivity). congruence. }
    destruct (q <=? css_stretch_normal); apply pick_first.
    all: try (intros m E; apply set_max_in, in_below in E; tauto).
    all: try (intros m E; apply set_min_in, in_above in E; tauto).
    all: intros E1 E2; destruct Hx as [Hx|Hx];
      [ eapply (set_max_none (below q S) x); [assumption| apply in_below; split; [left; reflexivity|assumption]]
      | eapply (set_min_none (above q S) x); [assumption| apply in_above; split; [left; reflexivity|assumption]] ].
Qed.

Lemma css_weight_some W q : W <> [] -> exists v, css_weight W q = Some v /\ In v W.
Proof.
  intros Hne. unfold css_weight. destruct (mem q W) eqn:Em.
  - exists q. split; [reflexivity | apply mem_In; assumption].
  - destruct W as [|x W']; [congruence|]. set (W := x :: W') in *.
    assert (HxW : In x W) by (left; reflexivity).
    assert (Hx : x < q \/ q < x).
    { destruct (Z.lt_trichotomy x q) as [|[|]]; auto. subst x.
      assert (mem q W = true) by (apply mem_In; assumption). congruence. }
    destruct ((css_w400 <=? q) && (q <=? css_w500)).
    + apply pick_first.
      * intros m E. apply set_min_in, filter_In in E. tauto.
      * intros m E. destruct (pick_first (set_max (below q W)) (set_min (above css_w500 W)) (fun v => In v W)) as [v [E' Hv]].
        -- intros m' E'. apply set_max_in, in_below in E'. tauto.
        -- intros m' E'. apply set_min_in, in_above in E'. tauto.
        -- intros E1 E2. rewrite E1, E2 in E. discriminate.
        -- rewrite E' in E. congruence.
      * intros E1 E2.
        destruct (set_max (below q W)) as [m|] eqn:E3; [discriminate|]. cbn [orelse] in E2.
        destruct Hx as [Hx|Hx].
        -- apply (set_max_none _ x E3). apply in_below. tauto.
        -- destruct (Z.leb_spec x css_w500).
           ++ apply (set_min_none _ x E1). apply filter_In. split; [assumption|].
              apply andb_true_intro. split; [apply Z.ltb_lt|apply Z.leb_le]; lia.
           ++ apply (set_min_none _ x E2). apply in_above. tauto.
    + destruct (q <? css_w400); apply pick_first.
      all: try (intros m E; apply set_max_in, in_below in E; tauto).
      all: try (intros m E; apply set_min_in, in_above in E; tauto).
      all: intros E1 E2; destruct Hx as [Hx|Hx];
        [ eapply (set_max_none (below q W) x); [assumption| apply in_below; tauto]
        | eapply (set_min_none (above q W) x); [assumption| apply in_above; tauto] ].
Qed.

(* ------------------------------------------------------------------------------------------------
   8. retainsBestMatches                                                                              *)

Lemma set_defaults_css q : set_defaults q = css_defaults q.
Proof. reflexivity. Qed.

Definition okc (fs : fontset) (i : Z) : Prop := in_range fs i = true /\ valid_aspect (asp_of fs i) = true.

Lemma valid_aspect_inv a : valid_aspect a = true -> valid_style (a_style a) = true /\ 0 < a_weight a /\ 0 < a_stretch a.
Proof.
  unfold valid_aspect. intros H. apply andb_prop in H as [H H3]. apply andb_prop in H as [H1 H2].
  apply Z.ltb_lt in H2, H3. tauto.
Qed.

Lemma Forall_filter {A} (P : A -> Prop) f l : Forall P l -> Forall P (filter f l).
Proof. rewrite !Forall_forall. intros H x Hx. apply filter_In in Hx. apply H. tauto. Qed.

Lemma skipn_ge_eq {A} (l l' : list A) a b : skipn a l = skipn a l' -> (a <= b)%nat -> skipn b l = skipn b l'.
Proof.
  intros E Hab. replace b with (a + (b - a))%nat by lia. rewrite <- !skipn_skipn'. rewrite E. reflexivity.
Qed.

Lemma filter_step fs (f : aspect -> Z) s v :
  (sl_len s <= length (sl_arr s))%nat ->
  Forall (okc fs) (sl_elems s) ->
  In v (map (fun i => f (asp_of fs i)) (sl_elems s)) ->
  exists s', filter_in_place fs (fun a => f a =? v) s = Ok s'
    /\ sl_elems s' = filter (fun i => f (asp_of fs i) =? v) (sl_elems s)
    /\ sl_elems s' <> []
    /\ Forall (okc fs) (sl_elems s')
    /\ (sl_len s' <= length (sl_arr s'))%nat
    /\ (sl_len s' <= sl_len s)%nat
    /\ length (sl_arr s') = length (sl_arr s)
    /\ skipn (sl_len s) (sl_arr s') = skipn (sl_len s) (sl_arr s).
Proof.
  intros Hlen Hok Hin.
  destruct (filter_in_place_spec fs (fun a => f a =? v) s Hlen) as [s' [E [He [Hl [Ha Hs]]]]].
  { eapply Forall_impl; [|exact Hok]. intros i [H _]. exact H. }
  exists s'. repeat split; try assumption.
  - rewrite He. apply in_map_iff in Hin as [i [Hi Hin]].
    intros Hnil. assert (In i (filter (fun i => f (asp_of fs i) =? v) (sl_elems s))) as X.
    { apply filter_In. split; [assumption|]. apply Z.eqb_eq; assumption. }
    rewrite Hnil in X. destruct X.
  - rewrite He. apply Forall_filter. assumption.
  - lia.
Qed.

Lemma css_step_some {A} (asp : A -> aspect) f choose q c v :
  choose (map (fun x => f (asp x)) c) (f q) = Some v ->
  css_step asp f choose q c = filter (fun x => f (asp x) =? v) c.
Proof. intros E. unfold css_step, keep_eq. rewrite E. reflexivity. Qed.

Lemma cands_ok_inv fs cands : cands_ok fs cands = true -> cands <> [] /\ Forall (okc fs) cands.
Proof.
  unfold cands_ok. intros H. apply andb_prop in H as [H1 H2]. split.
  - destruct cands; [discriminate|congruence].
  - rewrite forallb_forall in H2. apply Forall_forall. intros i Hi. specialize (H2 i Hi).
    apply andb_prop in H2. exact H2.
Qed.

Lemma map_nonempty {A B} (g : A -> B) l : l <> [] -> map g l <> [].
Proof. destruct l; [congruence|discriminate]. Qed.

Lemma retains_slice_lemma fs s q :
  (sl_len s <= length (sl_arr s))%nat ->
  cands_ok fs (sl_elems s) = true ->
  valid_query q = true ->
  exists s', retains_best_matches fs s q = Ok s'
    /\ sl_elems s' = css_narrow (asp_of fs) (sl_elems s) q
    /\ sl_elems s' <> []
    /\ (sl_len s' <= sl_len s)%nat
    /\ length (sl_arr s') = length (sl_arr s)
    /\ skipn (sl_len s) (sl_arr s') = skipn (sl_len s) (sl_arr s).
Proof.
  intros Hlen Hc Hq. apply cands_ok_inv in Hc as [Hne Hok].
  unfold retains_best_matches. rewrite set_defaults_css. unfold css_narrow.
  set (q' := css_defaults q).
  assert (Hq' : valid_style (a_style q') = true).
  { unfold q', css_defaults, valid_query in *. cbn [a_style].
    destruct (a_style q =? 0); [reflexivity|]. cbn [orb] in Hq. exact Hq. }
  assert (Proj : forall l, Forall (okc fs) l ->
            Forall (cand_ok fs) l /\ Forall (fun i => 0 < a_stretch (asp_of fs i)) l
            /\ Forall (fun i => 0 < a_weight (asp_of fs i)) l
            /\ Forall (fun i => valid_style (a_style (asp_of fs i)) = true) l).
  { intros l H. repeat split; (eapply Forall_impl; [|exact H]); intros i [H1 H2];
      apply valid_aspect_inv in H2; tauto. }
  (* stretch *)
  destruct (Proj _ Hok) as [R0 [PS0 _]].
  rewrite match_stretch_css by assumption.
  destruct (css_stretch_some (map (fun i => a_stretch (asp_of fs i)) (sl_elems s)) (a_stretch q'))
    as [v1 [E1 In1]]; [apply map_nonempty; assumption|].
  rewrite E1. cbn [enc bind]. unfold filter_by_stretch.
  destruct (filter_step fs a_stretch s v1 Hlen Hok In1) as [s1 [F1 [El1 [Ne1 [Ok1 [Len1 [Le1 [Ar1 Sk1]]]]]]]].
  rewrite F1. cbn [bind].
  rewrite (css_step_some (asp_of fs) a_stretch css_stretch q' (sl_elems s) v1 E1). rewrite <- El1.
  (* style *)
  destruct (Proj _ Ok1) as [R1 [_ [_ PT1]]].
  destruct (match_style_css fs (sl_elems s1) (a_style q') Ne1 R1 PT1 Hq') as [v2 [M2 [E2 In2]]].
  rewrite M2. cbn [bind]. unfold filter_by_style.
  destruct (filter_step fs a_style s1 v2 Len1 Ok1 In2) as [s2 [F2 [El2 [Ne2 [Ok2 [Len2 [Le2 [Ar2 Sk2]]]]]]]].
  rewrite F2. cbn [bind].
  rewrite (css_step_some (asp_of fs) a_style css_style q' (sl_elems s1) v2 E2). rewrite <- El2.
  (* weight *)
  destruct (Proj _ Ok2) as [R2 [_ [PW2 _]]].
  rewrite match_weight_css by assumption.
  destruct (css_weight_some (map (fun i => a_weight (asp_of fs i)) (sl_elems s2)) (a_weight q'))
    as [v3 [E3 In3]]; [apply map_nonempty; assumption|].
  rewrite E3. cbn [enc bind]. unfold filter_by_weight.
  destruct (filter_step fs a_weight s2 v3 Len2 Ok2 In3) as [s3 [F3 [El3 [Ne3 [Ok3 [Len3 [Le3 [Ar3 Sk3]]]]]]]].
  rewrite (css_step_some (asp_of fs) a_weight css_weight q' (sl_elems s2) v3 E3). rewrite <- El3.
  exists s3. repeat split; try assumption; try lia.
  apply (skipn_ge_eq _ _ _ (sl_len s)) in Sk3; [|lia].
  apply (skipn_ge_eq _ _ _ (sl_len s)) in Sk2; [|lia].
  congruence.
Qed.

(* ------------------------------------------------------------------------------------------------
   9. consequences stated on the specification alone                                                  *)

Lemma subseq_refl {A} (l : list A) : subseq l l.
Proof. induction l; constructor; assumption. Qed.
Lemma subseq_filter {A} (f : A -> bool) l : subseq (filter f l) l.
Proof. induction l as [|a r IH]; cbn; [constructor|]. destruct (f a); constructor; assumption. Qed.
Lemma subseq_trans {A} (a b c : list A) : subseq a b -> subseq b c -> subseq a c.
Proof.
  intros Hab Hbc. revert a Hab. induction Hbc; intros a Hab.
  - exact Hab.
  - inversion Hab; subst; constructor; auto.
  - constructor. auto.
Qed.
Lemma keep_eq_subseq {A} (asp : A -> aspect) f o c : subseq (keep_eq asp f o c) c.
Proof.
  unfold keep_eq. destruct o; [apply subseq_filter|].
  induction c; constructor; assumption.
Qed.
Lemma css_narrow_subseq {A} (asp : A -> aspect) c q : subseq (css_narrow asp c q) c.
Proof.
  unfold css_narrow, css_step.
  eapply subseq_trans; [apply keep_eq_subseq|].
  eapply subseq_trans; [apply keep_eq_subseq|]. apply keep_eq_subseq.
Qed.

Lemma filter_filter' {A} (f g : A -> bool) l : filter f (filter g l) = filter (fun x => g x && f x) l.
Proof.
  induction l as [|a r IH]; [reflexivity|]. cbn. destruct (g a); cbn; [destruct (f a)|]; rewrite IH; reflexivity.
Qed.

Lemma keep_eq_nil {A} (asp : A -> aspect) f o : keep_eq asp f o [] = [].
Proof. destruct o; reflexivity. Qed.

Lemma css_narrow_choices {A} (asp : A -> aspect) c q :
  css_narrow asp c q <> [] ->
  exists s t w, css_choices asp c q = (Some s, Some t, Some w)
    /\ css_narrow asp c q
       = filter (fun x => (a_stretch (asp x) =? s) && (a_style (asp x) =? t) && (a_weight (asp x) =? w)) c.
Proof.
  unfold css_narrow, css_choices, css_step. set (q' := css_defaults q).
  destruct (css_stretch (map (fun x => a_stretch (asp x)) c) (a_stretch q')) as [s|]; cbn [keep_eq].
  2:{ intros H. exfalso. apply H. rewrite !keep_eq_nil. reflexivity. }
  set (c1 := filter (fun x => a_stretch (asp x) =? s) c).
  destruct (css_style (map (fun x => a_style (asp x)) c1) (a_style q')) as [t|]; cbn [keep_eq].
  2:{ intros H. exfalso. apply H. rewrite !keep_eq_nil. reflexivity. }
  set (c2 := filter (fun x => a_style (asp x) =? t) c1).
  destruct (css_weight (map (fun x => a_weight (asp x)) c2) (a_weight q')) as [w|]; cbn [keep_eq]; [|congruence].
  intros _. exists s, t, w. split; [reflexivity|].
  unfold c2, c1. rewrite !filter_filter'. apply filter_ext. intros x. rewrite andb_assoc. reflexivity.
Qed.

Lemma retains_list_lemma fs cands q :
  cands_ok fs cands = true -> valid_query q = true ->
  exists r, retains_best_matches_list fs cands q = Ok r
    /\ r <> []
    /\ subseq r cands
    /\ r = css_narrow (asp_of fs) cands q
    /\ exists s t w,
         css_choices (asp_of fs) cands q = (Some s, Some t, Some w)
         /\ r = filter (fun i => (a_stretch (asp_of fs i) =? s) && (a_style (asp_of fs i) =? t)
                                 && (a_weight (asp_of fs i) =? w)) cands
         /\ Forall (fun i => a_stretch (asp_of fs i) = s /\ a_style (asp_of fs i) = t /\ a_weight (asp_of fs i) = w) r.
Proof.
  intros Hc Hq. unfold retains_best_matches_list.
  assert (El : sl_elems (slice_of_list cands) = cands) by (unfold sl_elems, slice_of_list; cbn; apply firstn_all).
  destruct (retains_slice_lemma fs (slice_of_list cands) q) as [s' [E [He [Hne _]]]].
  - cbn. lia.
  - rewrite El. exact Hc.
  - exact Hq.
  - rewrite E. cbn [bind]. rewrite El in He. exists (sl_elems s'). repeat split; try assumption.
    + rewrite He. apply css_narrow_subseq.
    + rewrite He in Hne. destruct (css_narrow_choices (asp_of fs) cands q Hne) as [s [t [w [Ec Ef]]]].
      exists s, t, w. repeat split; [assumption | congruence |].
      rewrite He, Ef. apply Forall_forall. intros i Hi. apply filter_In in Hi as [_ Hi].
      apply andb_prop in Hi as [Hi H3]. apply andb_prop in Hi as [H1 H2].
      apply Z.eqb_eq in H1, H2, H3. tauto.
Qed.

Lemma css_choice_lemma S q : S <> [] ->
  (exists v, css_stretch S q = Some v /\ In v S) /\ (exists v, css_weight S q = Some v /\ In v S).
Proof. intros H. split; [apply css_stretch_some | apply css_weight_some]; exact H. Qed.
