(* Proofs about the buffer core (C01 part 2, C18). *)
From TV Require Import Model.Buffer Spec.Buffer Proofs.ShapeGlue.

(* ---------- propagateFlags: flags are uniform per cluster (C18) ---------- *)

Definition uniformP (l : list glyph) : Prop :=
  forall g h, In g l -> In h l -> cl g = cl h -> gf g = gf h.

Lemma fl_eqb_refl f : fl_eqb f f = true.
Proof. destruct f as [a b c]. unfold fl_eqb. cbn. rewrite !eqb_reflx. reflexivity. Qed.

Lemma uniformP_b l : uniformP l -> flags_uniform l = true.
Proof.
  induction l as [|g r IH]; intros U; [reflexivity|]. cbn [flags_uniform].
  apply andb_true_intro. split.
  - apply forallb_forall. intros h Hh. destruct (Z.eqb_spec (cl g) (cl h)) as [E|]; [|reflexivity].
    cbn [negb orb]. rewrite (U g h (or_introl eq_refl) (or_intror Hh) E). apply fl_eqb_refl.
  - apply IH. intros a b Ha Hb. apply U; right; assumption.
Qed.

Lemma span_eq_spec c r : let '(a, z) := span_eq c r in
  r = a ++ z /\ Forall (fun g => cl g = c) a /\ cls z = dropeq c (cls r) /\ (length z <= length r)%nat.
Proof.
  induction r as [|g r IH].
  - cbn. repeat split; constructor.
  - cbn [span_eq cls map dropeq]. destruct (Z.eqb_spec (cl g) c) as [E|N].
    + destruct (span_eq c r) as [a z]. destruct IH as (H1 & H2 & H3 & H4).
      split; [cbn; f_equal; exact H1|]. split; [constructor; assumption|]. split; [exact H3|cbn; lia].
    + split; [reflexivity|]. split; [constructor|]. split; [reflexivity|cbn; lia].
Qed.

Lemma pf_loop_ok rtl flip clear : forall fuel l, (length l <= fuel)%nat -> mono rtl (cls l) = true ->
  exists l', pf_loop fuel flip clear l = Ok l' /\ cls l' = cls l /\ uniformP l' /\ length l' = length l.
Proof.
  induction fuel as [|f IH]; intros l Hf Hm.
  - destruct l; [|cbn in Hf; lia]. exists []. repeat split. intros g h [].
  - destruct l as [|g r]; [exists []; repeat split; intros ? ? []|].
    cbn [pf_loop]. pose proof (span_eq_spec (cl g) r) as S. destruct (span_eq (cl g) r) as [a z].
    destruct S as (Er & Ha & Ez & Hl).
    cbn [cls map] in Hm. destruct (dropeq_sorted rtl (cl g) (cls r) Hm) as [Hmz Hstrict].
    rewrite <- Ez in Hmz, Hstrict.
    destruct (IH z) as (z' & E & Ec & U & Lz); [cbn in Hf; lia|exact Hmz|].
    rewrite E. cbn [bind]. eexists. split; [reflexivity|].
    set (m := cluster_mask flip clear (g :: a)).
    assert (Hblock : forall x, In x (map (fun x => mkGX (cl x) m 0 (cp x) (gid x) (up x) (gp x)) (g :: a)) -> cl x = cl g /\ gf x = m).
    { intros x Hx. apply in_map_iff in Hx. destruct Hx as (y & <- & Hy). cbn [cl gf]. split; [|reflexivity].
      destruct Hy as [<-|Hy]; [reflexivity|]. rewrite Forall_forall in Ha. exact (Ha y Hy). }
    assert (Hz' : forall x, In x z' -> cl x <> cl g).
    { intros x Hx. assert (In (cl x) (cls z')) by (apply in_map; exact Hx). rewrite Ec in H.
      rewrite Forall_forall in Hstrict. specialize (Hstrict _ H). unfold dirlt in Hstrict. destruct rtl; lia. }
    split; [|split].
    + unfold cls in *. rewrite map_app, map_map. cbn [cl]. rewrite Ec. rewrite Er. cbn [map app]. rewrite map_app. reflexivity.
    + intros x y Hx Hy Hc. apply in_app_or in Hx, Hy.
      destruct Hx as [Hx|Hx], Hy as [Hy|Hy].
      * destruct (Hblock x Hx) as [_ ->]. destruct (Hblock y Hy) as [_ ->]. reflexivity.
      * exfalso. destruct (Hblock x Hx) as [Hcx _]. apply (Hz' y Hy). congruence.
      * exfalso. destruct (Hblock y Hy) as [Hcy _]. apply (Hz' x Hx). congruence.
      * exact (U x y Hx Hy Hc).
    + rewrite app_length, map_length, Lz, Er. cbn [length]. rewrite app_length. lia.
Qed.

Lemma propagate_flags_uniform b : negb (level b =? 2) = true -> monotone (cls (info b)) = true ->
  exists b', propagate_flags b = Ok b'
    /\ cls (info b') = cls (info b) /\ out b' = out b /\ idx b' = idx b /\ have_out b' = have_out b
    /\ (has_gf b = true -> uniformP (info b') /\ flags_uniform (info b') = true)
    /\ (has_gf b = false -> b' = b).
Proof.
  intros _ Hm. unfold propagate_flags. destruct (has_gf b) eqn:Hg; cbn [negb].
  - unfold monotone in Hm. apply orb_prop in Hm.
    assert (exists rtl, mono rtl (cls (info b)) = true) as [rtl Hr] by (destruct Hm; [exists false|exists true]; assumption).
    destruct (pf_loop_ok rtl (fl_tatweel b) (negb (fl_concat b)) (length (info b)) (info b) (le_n _) Hr) as (l' & E & Ec & U & _).
    rewrite E. cbn [bind]. eexists. split; [reflexivity|]. cbn.
    repeat split; auto; try discriminate. apply uniformP_b. exact U.
  - exists b. repeat split; auto; discriminate.
Qed.

(* ---------- lists and slices ---------- *)

Lemma skipn_skipn' {A} : forall m n (l : list A), skipn n (skipn m l) = skipn (m + n) l.
Proof.
  induction m as [|m IH]; intros n l; [reflexivity|]. destruct l; [rewrite !skipn_nil; reflexivity|]. cbn [skipn Nat.add]. apply IH.
Qed.

Lemma split3 {A} (l : list A) a b : 0 <= a -> a <= b -> b <= zlen l ->
  exists l1 l2 l3, l = l1 ++ l2 ++ l3 /\ zlen l1 = a /\ zlen l2 = b - a
    /\ zfirstn a l = l1 /\ slice a b l = l2 /\ zskipn b l = l3 /\ zskipn a l = l2 ++ l3.
Proof.
  intros Ha Hab Hb. unfold zlen, zfirstn, slice, zskipn in *.
  exists (firstn (Z.to_nat a) l), (firstn (Z.to_nat (b - a)) (skipn (Z.to_nat a) l)),
         (skipn (Z.to_nat (b - a)) (skipn (Z.to_nat a) l)).
  repeat split.
  - rewrite firstn_skipn, firstn_skipn. reflexivity.
  - rewrite firstn_length. lia.
  - rewrite firstn_length, skipn_length. lia.
  - rewrite skipn_skipn'. f_equal. lia.
  - rewrite firstn_skipn. reflexivity.
Qed.

Lemma zskipn_app_lt {A} (l1 l2 : list A) i : 0 <= i <= zlen l1 -> zskipn i (l1 ++ l2) = zskipn i l1 ++ l2.
Proof.
  intros H. unfold zskipn, zlen in *. rewrite skipn_app.
  replace (Z.to_nat i - length l1)%nat with 0%nat by lia. reflexivity.
Qed.

Lemma zfirstn_all {A} (l : list A) n : zlen l <= n -> zfirstn n l = l.
Proof. intros. unfold zfirstn, zlen in *. apply firstn_all2. lia. Qed.
Lemma zskipn_all {A} (l : list A) n : zlen l <= n -> zskipn n l = [].
Proof. intros. unfold zskipn, zlen in *. apply skipn_all2. lia. Qed.
Lemma zfirstn_neg {A} (l : list A) n : n <= 0 -> zfirstn n l = [].
Proof. intros. unfold zfirstn. replace (Z.to_nat n) with 0%nat by lia. reflexivity. Qed.
Lemma zskipn_neg {A} (l : list A) n : n <= 0 -> zskipn n l = l.
Proof. intros. unfold zskipn. replace (Z.to_nat n) with 0%nat by lia. reflexivity. Qed.

Lemma slice_app_mid {A} (l1 l2 l3 : list A) : slice (zlen l1) (zlen l1 + zlen l2) (l1 ++ l2 ++ l3) = l2.
Proof.
  unfold slice. rewrite zskipn_app_exact. replace (zlen l1 + zlen l2 - zlen l1) with (zlen l2) by lia.
  apply zfirstn_app_exact.
Qed.

Lemma zlen_map {A B} (f : A -> B) l : zlen (map f l) = zlen l.
Proof. unfold zlen. rewrite map_length. reflexivity. Qed.
Lemma zlen_rev {A} (l : list A) : zlen (rev l) = zlen l.
Proof. unfold zlen. rewrite rev_length. reflexivity. Qed.

Lemma nth_mid {A} (l1 : list A) x l3 d i : zlen l1 = i -> nth (Z.to_nat i) (l1 ++ x :: l3) d = x.
Proof. intros <-. unfold zlen. rewrite Nat2Z.id. rewrite app_nth2, Nat.sub_diag by lia. reflexivity. Qed.

Lemma run_eq_bound c l : 0 <= run_eq c l <= zlen l.
Proof.
  induction l as [|g r IH]; cbn [run_eq]; [cbn; lia|]. rewrite zlen_cons. destruct (cl g =? c); lia.
Qed.

Lemma min_cl_spec d l : (min_cl d l = d \/ In (min_cl d l) (cls l)) /\ min_cl d l <= d /\ Forall (fun x => min_cl d l <= x) (cls l).
Proof.
  induction l as [|g r (IH1 & IH2 & IH3)]; cbn [min_cl fold_right cls map]; [repeat split; auto; lia|].
  fold (min_cl d r). split; [|split].
  - destruct (Z.min_spec (cl g) (min_cl d r)) as [[_ ->]|[_ ->]]; [right; left; reflexivity|].
    destruct IH1; [left; assumption|right; right; assumption].
  - lia.
  - constructor; [lia|]. eapply Forall_impl; [|exact IH3]. intros; cbv beta in *; lia.
Qed.

Lemma cls_set_cluster c m l : cls (map (set_cluster c m) l) = map (fun _ => c) l.
Proof.
  unfold cls. rewrite map_map. apply map_ext. intros g. unfold set_cluster.
  destruct (Z.eqb_spec (cl g) c); [assumption|reflexivity].
Qed.

(* replacing a block of a monotone list by one of its values keeps it monotone *)
Lemma mono_cons2 rtl x y l : mono rtl (x :: y :: l) = (if rtl then y <=? x else x <=? y) && mono rtl (y :: l).
Proof. reflexivity. Qed.

Lemma mono_app_intro rtl a b : mono rtl a = true -> mono rtl b = true ->
  (forall x y, In x a -> In y b -> dirle rtl x y) -> mono rtl (a ++ b) = true.
Proof.
  induction a as [|x a IH]; intros Ha Hb Hc; [exact Hb|].
  cbn [app]. destruct a as [|y a].
  - cbn [app]. destruct b as [|z b]; [reflexivity|]. rewrite mono_cons2, Hb.
    specialize (Hc x z (or_introl eq_refl) (or_introl eq_refl)). unfold dirle in Hc. destruct rtl; rewrite andb_true_r; lia.
  - rewrite mono_cons2 in Ha. apply andb_prop in Ha. destruct Ha as [H1 H2].
    cbn [app]. rewrite mono_cons2, H1. cbn [andb].
    apply (IH H2 Hb). intros; apply Hc; auto. right; assumption.
Qed.

Lemma mono_const rtl (v : Z) {A} (l : list A) : mono rtl (map (fun _ => v) l) = true.
Proof.
  induction l as [|x l IH]; [reflexivity|]. cbn [map]. destruct l; [reflexivity|].
  cbn [map] in *. rewrite mono_cons2, IH. destruct rtl; rewrite andb_true_r; lia.
Qed.

Lemma dirle_trans rtl a b c : dirle rtl a b -> dirle rtl b c -> dirle rtl a c.
Proof. unfold dirle. destruct rtl; lia. Qed.
Lemma dirle_refl rtl a : dirle rtl a a.
Proof. unfold dirle. destruct rtl; lia. Qed.

Lemma mono_block rtl a (m : list Z) z v : mono rtl (a ++ m ++ z) = true -> In v m ->
  mono rtl (a ++ map (fun _ => v) m ++ z) = true.
Proof.
  intros H Hv. destruct (mono_app _ _ _ H) as (Ha & Hmz & Hc1). destruct (mono_app _ _ _ Hmz) as (Hm & Hz & Hc2).
  rewrite Forall_forall in Hc1, Hc2.
  apply mono_app_intro; [exact Ha| |].
  - apply mono_app_intro; [apply mono_const|exact Hz|].
    intros x y Hx Hy. apply in_map_iff in Hx. destruct Hx as (_ & <- & _).
    specialize (Hc2 v Hv). rewrite Forall_forall in Hc2. exact (Hc2 y Hy).
  - intros x y Hx Hy. specialize (Hc1 x Hx). rewrite Forall_forall in Hc1.
    apply in_app_or in Hy. destruct Hy as [Hy|Hy].
    + apply in_map_iff in Hy. destruct Hy as (_ & <- & _). apply Hc1. apply in_or_app. left. exact Hv.
    + apply Hc1. apply in_or_app. right. exact Hy.
Qed.

Lemma monotone_block a (m : list Z) z v : monotone (a ++ m ++ z) = true -> In v m ->
  monotone (a ++ map (fun _ => v) m ++ z) = true.
Proof.
  unfold monotone. intros H Hv. apply orb_prop in H. apply orb_true_intro.
  destruct H; [left|right]; apply mono_block; assumption.
Qed.

Lemma in_range_block lo hi a (m : list Z) z v : in_range lo hi (a ++ m ++ z) = true -> In v m ->
  in_range lo hi (a ++ map (fun _ => v) m ++ z) = true.
Proof.
  unfold in_range. rewrite !forallb_app. intros H Hv.
  apply andb_prop in H. destruct H as [Ha H]. apply andb_prop in H. destruct H as [Hm Hz].
  rewrite Ha, Hz, andb_true_r. cbn [andb]. apply forallb_forall. intros x Hx.
  apply in_map_iff in Hx. destruct Hx as (_ & <- & _). rewrite forallb_forall in Hm. exact (Hm v Hv).
Qed.

(* ---------- mergeClusters ---------- *)

Lemma skipn_nth_cons {A} (d : A) : forall n l, (n < length l)%nat -> skipn n l = nth n l d :: skipn (S n) l.
Proof.
  induction n as [|n IH]; intros l H; destruct l as [|x l]; cbn [length] in H; try lia; [reflexivity|].
  cbn [skipn nth]. rewrite (IH l) by lia. reflexivity.
Qed.

Lemma slice_cons {A} (d : A) s e l : 0 <= s -> s < e -> s < zlen l ->
  slice s e l = nth (Z.to_nat s) l d :: slice (s + 1) e l.
Proof.
  intros H0 H1 H2. unfold slice, zfirstn, zskipn, zlen in *.
  rewrite (skipn_nth_cons d (Z.to_nat s) l) by lia.
  replace (Z.to_nat (e - s)) with (S (Z.to_nat (e - (s + 1)))) by lia.
  replace (Z.to_nat (s + 1)) with (S (Z.to_nat s)) by lia. reflexivity.
Qed.

Lemma map_range_view f s e l : 0 <= s -> s <= e -> e <= zlen l ->
  exists l1 l2 l3, l = l1 ++ l2 ++ l3 /\ zlen l1 = s /\ zlen l2 = e - s /\ slice s e l = l2
    /\ map_range f s e l = l1 ++ map f l2 ++ l3.
Proof.
  intros H0 H1 H2. destruct (split3 l s e H0 H1 H2) as (l1 & l2 & l3 & E & L1 & L2 & F & S & K & _).
  exists l1, l2, l3. repeat split; auto. unfold map_range. rewrite F, S, K. reflexivity.
Qed.

Lemma set_cluster_last_view k c m l : 0 <= k -> k <= zlen l ->
  exists l1 l2, l = l1 ++ l2 /\ zlen l2 = k /\ set_cluster_last k c m l = l1 ++ map (set_cluster c m) l2.
Proof.
  intros H0 H1. unfold set_cluster_last.
  destruct (map_range_view (set_cluster c m) (zlen l - k) (zlen l) l) as (l1 & l2 & l3 & E & L1 & L2 & _ & V); try lia.
  assert (zlen l3 = 0). { pose proof (f_equal zlen E) as Z. rewrite !zlen_app in Z. lia. }
  destruct l3; [|rewrite zlen_cons in H; pose proof (zlen_nonneg l3); lia].
  rewrite app_nil_r in *. exists l1, l2. repeat split; auto. lia.
Qed.

Lemma set_cluster_last_0 c m l : set_cluster_last 0 c m l = l.
Proof.
  destruct (set_cluster_last_view 0 c m l) as (l1 & l2 & E & L & V); [lia|apply zlen_nonneg|].
  destruct l2; [|rewrite zlen_cons in L; pose proof (zlen_nonneg l2); lia].
  rewrite V, E. reflexivity.
Qed.

Lemma firstn_add {A} : forall m n (L : list A), firstn (m + n) L = firstn m L ++ firstn n (skipn m L).
Proof.
  induction m as [|m IH]; intros n L; [reflexivity|]. destruct L as [|x L]; [rewrite !firstn_nil; reflexivity|].
  cbn [Nat.add firstn skipn app]. f_equal. apply IH.
Qed.

Lemma slice_split {A} (l : list A) a b c : 0 <= a -> a <= b -> b <= c -> slice a c l = slice a b l ++ slice b c l.
Proof.
  intros. unfold slice, zfirstn, zskipn.
  replace (Z.to_nat (c - a)) with (Z.to_nat (b - a) + Z.to_nat (c - b))%nat by lia.
  rewrite firstn_add. f_equal. rewrite skipn_skipn'. do 2 f_equal. lia.
Qed.

Lemma slice_incl {A} (l : list A) s' s e e' x : 0 <= s' -> s' <= s -> s <= e -> e <= e' -> In x (slice s e l) -> In x (slice s' e' l).
Proof.
  intros. rewrite (slice_split l s' s e') by lia. rewrite (slice_split l s e e') by lia.
  apply in_or_app. right. apply in_or_app. left. assumption.
Qed.

Lemma cls_app a b : cls (a ++ b) = cls a ++ cls b.
Proof. apply map_app. Qed.

Lemma map_const_cls (c : Z) (m : list glyph) : map (fun _ : glyph => c) m = map (fun _ : Z => c) (cls m).
Proof. unfold cls. rewrite map_map. reflexivity. Qed.

Lemma run_eq_app_all c a b : zlen a <= run_eq c (a ++ b) -> Forall (fun g => cl g = c) a.
Proof.
  induction a as [|x a IH]; intros H; [constructor|]. cbn [app run_eq] in H. rewrite zlen_cons in H.
  destruct (Z.eqb_spec (cl x) c) as [E|N]; [|pose proof (zlen_nonneg a); lia].
  constructor; [exact E|apply IH; lia].
Qed.

Lemma in_cls g l : In g l -> In (cl g) (cls l).
Proof. apply in_map. Qed.

Lemma nth_in_slice (l : list glyph) a b i : 0 <= a -> a <= i -> i < b -> b <= zlen l -> In (nth (Z.to_nat i) l g0) (slice a b l).
Proof.
  intros. rewrite (slice_split l a i b) by lia. apply in_or_app. right. rewrite (slice_cons g0 i b l) by lia. left. reflexivity.
Qed.

Lemma merge_clusters_view b s e : (level b =? 2) = false -> 0 <= idx b -> 0 <= s -> s + 2 <= e -> e <= zlen (info b) ->
  exists s' e' k c,
    0 <= s' /\ s' <= s /\ (idx b <= s -> idx b <= s') /\ e <= e' /\ e' <= zlen (info b)
    /\ 0 <= k /\ k <= zlen (out b) /\ (0 < k -> idx b = s')
    /\ In c (cls (slice s e (info b))) /\ Forall (fun x => c <= x) (cls (slice s e (info b)))
    /\ Forall (fun x => c <= x) (cls (slice s' e' (info b)))
    /\ merge_clusters b s e
       = Ok (with_info (with_out b (set_cluster_last k c fl0 (out b))) (map_range (set_cluster c fl0) s' e' (info b))).
Proof.
  intros Hl Hidx H0 H1 H2. unfold merge_clusters.
  destruct (Z.ltb_spec (e - s) 2); [lia|]. rewrite Hl.
  destruct (Z.leb_spec 0 s); [|lia]. destruct (Z.leb_spec e (zlen (info b))); [|lia]. cbn [andb negb].
  remember (info b) as inf eqn:Einf.
  set (c := min_cl (cl (nth (Z.to_nat s) inf g0)) (slice (s + 1) e inf)).
  set (cend := cl (nth (Z.to_nat (e - 1)) inf g0)).
  set (cstart := cl (nth (Z.to_nat s) inf g0)).
  set (e' := if c =? cend then e else e + run_eq cend (zskipn e inf)).
  set (s' := if c =? cstart then s else s - run_eq cstart (rev (slice (idx b) s inf))).
  assert (He' : e <= e' /\ e' <= zlen inf).
  { subst e'. destruct (c =? cend); [lia|]. pose proof (run_eq_bound cend (zskipn e inf)) as B.
    rewrite zlen_zskipn in B by lia. lia. }
  assert (Hs' : 0 <= s' /\ s' <= s /\ (idx b <= s -> idx b <= s')).
  { subst s'. destruct (c =? cstart); [lia|]. pose proof (run_eq_bound cstart (rev (slice (idx b) s inf))) as B.
    rewrite zlen_rev in B. unfold slice in *.
    destruct (Z_le_gt_dec s (idx b)).
    - rewrite zfirstn_neg in * by lia. cbn in B |- *. lia.
    - rewrite zlen_zfirstn in B; [lia|]. rewrite zlen_zskipn by lia. lia. }
  assert (Hc : In c (cls (slice s e inf)) /\ Forall (fun x => c <= x) (cls (slice s e inf))).
  { rewrite (slice_cons g0 s e inf) by lia. cbn [cls map]. fold (cls (slice (s + 1) e inf)).
    destruct (min_cl_spec (cl (nth (Z.to_nat s) inf g0)) (slice (s + 1) e inf)) as (A1 & A2 & A3). fold c in A1, A2, A3.
    split; [destruct A1 as [->|A1]; [left; reflexivity|right; exact A1]|constructor; [exact A2|exact A3]]. }
  assert (Hext : Forall (fun x => c <= x) (cls (slice s' e' inf))).
  { destruct Hc as [_ Hall]. destruct Hs' as (S0 & S1 & S2). destruct He' as (E0 & E1).
    rewrite (slice_split inf s' s e') by lia. rewrite (slice_split inf s e e') by lia. rewrite !cls_app.
    assert (Hcs : c <= cstart).
    { rewrite Forall_forall in Hall. apply Hall. apply in_cls. subst cstart. apply nth_in_slice; lia. }
    assert (Hce : c <= cend).
    { rewrite Forall_forall in Hall. apply Hall. apply in_cls. subst cend. apply nth_in_slice; lia. }
    apply Forall_app. split; [|apply Forall_app; split; [exact Hall|]].
    - subst s'. destruct (c =? cstart).
      + unfold slice. rewrite zfirstn_neg by lia. constructor.
      + set (k := run_eq cstart (rev (slice (idx b) s inf))) in *.
        destruct (Z_le_gt_dec s (idx b)).
        * assert (k = 0). { subst k. unfold slice at 1. rewrite zfirstn_neg by lia. reflexivity. }
          rewrite H5. unfold slice. rewrite zfirstn_neg by lia. constructor.
        * assert (Hk : zlen (slice (s - k) s inf) = k).
          { unfold slice. rewrite zlen_zfirstn; [lia|]. rewrite zlen_zskipn by lia. lia. }
          assert (Forall (fun g => cl g = cstart) (rev (slice (s - k) s inf))).
          { apply (run_eq_app_all cstart _ (rev (slice (idx b) (s - k) inf))). rewrite zlen_rev, Hk.
            rewrite <- rev_app_distr, <- slice_split by lia. subst k. lia. }
          apply Forall_forall. intros x Hx. apply in_map_iff in Hx. destruct Hx as (gx & <- & Hg).
          rewrite Forall_forall in H5. rewrite (H5 gx); [exact Hcs|]. apply in_rev. rewrite rev_involutive. exact Hg.
    - subst e'. destruct (c =? cend).
      + unfold slice. rewrite zfirstn_neg by lia. constructor.
      + set (k := run_eq cend (zskipn e inf)) in *. unfold slice. replace (e + k - e) with k by lia.
        assert (Forall (fun g => cl g = cend) (zfirstn k (zskipn e inf))).
        { apply (run_eq_app_all cend _ (zskipn k (zskipn e inf))).
          assert (EL : zfirstn k (zskipn e inf) ++ zskipn k (zskipn e inf) = zskipn e inf) by (unfold zfirstn, zskipn; apply firstn_skipn).
          rewrite EL. pose proof (run_eq_bound cend (zskipn e inf)) as RB. fold k in RB.
          rewrite zlen_zfirstn by lia. subst k. lia. }
        apply Forall_forall. intros x Hx. apply in_map_iff in Hx. destruct Hx as (gx & <- & Hg).
        rewrite Forall_forall in H5. rewrite (H5 gx Hg). exact Hce. }
  destruct ((idx b =? s') && negb (cl (nth (Z.to_nat s') inf g0) =? c)) eqn:Ew.
  - exists s', e', (run_eq (cl (nth (Z.to_nat s') inf g0)) (rev (out b))), c.
    pose proof (run_eq_bound (cl (nth (Z.to_nat s') inf g0)) (rev (out b))) as B. rewrite zlen_rev in B.
    apply andb_prop in Ew. destruct Ew as [Ei _]. apply Z.eqb_eq in Ei.
    repeat split; try tauto; try lia.
  - exists s', e', 0, c. rewrite set_cluster_last_0. pose proof (zlen_nonneg (out b)).
    repeat split; try tauto; try lia.
Qed.

Definition WFm (lo hi : Z) (b : buffer) : Prop := (level b =? 2) = false /\ WF lo hi b = true.

Lemma WF_parts lo hi b : (level b =? 2) = false -> WF lo hi b = true ->
  0 <= idx b /\ idx b <= zlen (info b) /\ monotone (cls (bseq b)) = true /\ in_range lo hi (cls (bseq b)) = true.
Proof.
  intros Hl H. unfold WF in H. rewrite Hl in H. cbn [orb] in H.
  apply andb_prop in H. destruct H as [H H4]. apply andb_prop in H. destruct H as [H H3].
  apply andb_prop in H. destruct H as [H1 H2]. repeat split; auto; lia.
Qed.

Lemma WF_intro lo hi b : (level b =? 2) = false -> 0 <= idx b -> idx b <= zlen (info b) ->
  monotone (cls (bseq b)) = true -> in_range lo hi (cls (bseq b)) = true -> WF lo hi b = true.
Proof.
  intros Hl H1 H2 H3 H4. unfold WF. rewrite Hl, H3, H4. cbn [orb].
  destruct (Z.leb_spec 0 (idx b)); [|lia]. destruct (Z.leb_spec (idx b) (zlen (info b))); [|lia]. reflexivity.
Qed.

(* the effect of a merge on the glyph sequence: a block that contains the value c becomes constantly c *)
Lemma merge_effect b s e : (level b =? 2) = false -> 0 <= idx b -> idx b <= zlen (info b) ->
  0 <= s -> s + 2 <= e -> e <= zlen (info b) -> (have_out b = true -> idx b <= s) ->
  exists b' a m z c, merge_clusters b s e = Ok b'
    /\ bseq b = a ++ m ++ z /\ In c (cls m) /\ cls (bseq b') = cls a ++ map (fun _ => c) m ++ cls z
    /\ idx b' = idx b /\ zlen (info b') = zlen (info b) /\ level b' = level b /\ have_out b' = have_out b
    /\ pos_len b' = pos_len b /\ pos_cap b' = pos_cap b.
Proof.
  intros Hl Hi0 Hi1 H0 H1 H2 Hho.
  destruct (merge_clusters_view b s e Hl Hi0 H0 H1 H2) as (s' & e' & k & c & A1 & A2 & A3 & A4 & A5 & A6 & A7 & A8 & A9 & A10 & A11 & E).
  rewrite E. eexists.
  destruct (map_range_view (set_cluster c fl0) s' e' (info b)) as (l1 & l2 & l3 & EI & L1 & L2 & S2 & V); try lia.
  destruct (set_cluster_last_view k c fl0 (out b)) as (o1 & o2 & EO & LO & VO); try lia.
  assert (Hc2 : In c (cls l2)).
  { rewrite <- S2. unfold cls in *. apply in_map_iff in A9. destruct A9 as (g & Eg & Hg).
    apply in_map_iff. exists g. split; [exact Eg|]. apply (slice_incl (info b) s' s e e'); auto; lia. }
  assert (Hlen : zlen (map_range (set_cluster c fl0) s' e' (info b)) = zlen (info b)).
  { rewrite V. rewrite EI. rewrite !zlen_app, zlen_map. reflexivity. }
  destruct (have_out b) eqn:Hh.
  - specialize (Hho eq_refl). specialize (A3 Hho).
    destruct (Z.eq_dec k 0) as [K0|KN].
    + (* nothing changed in the out-buffer *)
      destruct o2; [|rewrite zlen_cons in LO; pose proof (zlen_nonneg o2); lia]. rewrite app_nil_r in *. subst o1.
      exists (out b ++ zskipn (idx b) l1), l2, l3, c. split; [reflexivity|].
      unfold bseq. cbn [have_out with_info with_out info out idx]. rewrite Hh, VO, Hlen.
      rewrite V. rewrite EI at 1. rewrite !zskipn_app_lt by lia.
      repeat split; auto.
      * rewrite <- app_assoc. reflexivity.
      * rewrite !cls_app, cls_set_cluster, <- app_assoc. reflexivity.
    + assert (idx b = s') by (apply A8; lia).
      exists o1, (o2 ++ l2), l3, c. split; [reflexivity|].
      unfold bseq. cbn [have_out with_info with_out info out idx]. rewrite Hh, VO, Hlen, V.
      rewrite EI at 1. rewrite EO at 1.
      replace (idx b) with (zlen l1) by lia. rewrite !zskipn_app_exact.
      repeat split; auto.
      * rewrite <- !app_assoc. reflexivity.
      * rewrite cls_app. apply in_or_app. right. exact Hc2.
      * rewrite !cls_app, !cls_set_cluster, map_app, <- !app_assoc. reflexivity.
  - exists l1, l2, l3, c. split; [reflexivity|].
    unfold bseq. cbn [have_out with_info with_out info out idx]. rewrite Hh, Hlen, V.
    repeat split; auto.
    rewrite !cls_app, cls_set_cluster. reflexivity.
Qed.

Lemma merge_clusters_wf lo hi b s e : (level b =? 2) = false -> WF lo hi b = true -> pre (OMerge s e) b = true ->
  exists b', merge_clusters b s e = Ok b' /\ WF lo hi b' = true /\ level b' = level b.
Proof.
  intros Hl Hw Hp. destruct (WF_parts lo hi b Hl Hw) as (I0 & I1 & Hm & Hr).
  cbn [pre] in Hp. apply andb_prop in Hp. destruct Hp as [Hp P4]. apply andb_prop in Hp. destruct Hp as [Hp P3].
  apply andb_prop in Hp. destruct Hp as [P1 P2].
  destruct (Z_lt_le_dec (e - s) 2) as [Hsmall|Hbig].
  - exists b. unfold merge_clusters. destruct (Z.ltb_spec (e - s) 2); [|lia]. auto.
  - destruct (merge_effect b s e Hl I0 I1) as (b' & a & m & z & c & E & Eb & Hc & Ec & Ei & El & Elv & Eh & _); try lia.
    { intros Hh. rewrite Hh in P4. cbn in P4. lia. }
    exists b'. split; [exact E|]. split; [|exact Elv].
    apply WF_intro; [rewrite Elv; exact Hl|rewrite Ei; lia|rewrite Ei, El; lia| |].
    + rewrite Ec, map_const_cls. rewrite Eb, !cls_app in Hm. apply monotone_block; assumption.
    + rewrite Ec, map_const_cls. rewrite Eb, !cls_app in Hr. apply in_range_block; assumption.
Qed.

(* mergeClusters(s, e): all glyphs of an extended range [s', e') containing [s, e) carry the minimum cluster of [s, e) *)
Lemma merge_clusters_min_lemma b s e : (level b =? 2) = false -> 0 <= idx b -> 0 <= s -> s + 2 <= e -> e <= zlen (info b) ->
  exists b' s' e', merge_clusters b s e = Ok b' /\ 0 <= s' /\ s' <= s /\ e <= e' /\ e' <= zlen (info b)
    /\ zlen (info b') = zlen (info b)
    /\ Forall (fun g => cl g = lmin (cls (slice s e (info b)))) (slice s' e' (info b'))
    /\ zfirstn s' (info b') = zfirstn s' (info b) /\ zskipn e' (info b') = zskipn e' (info b).
Proof.
  intros Hl Hi H0 H1 H2.
  destruct (merge_clusters_view b s e Hl Hi H0 H1 H2) as (s' & e' & k & c & A1 & A2 & A3 & A4 & A5 & A6 & A7 & A8 & A9 & A10 & A11 & E).
  rewrite E. eexists. exists s', e'. split; [reflexivity|].
  destruct (map_range_view (set_cluster c fl0) s' e' (info b)) as (l1 & l2 & l3 & EI & L1 & L2 & S2 & V); try lia.
  cbn [info with_info]. rewrite V.
  assert (Hmin : lmin (cls (slice s e (info b))) = c).
  { assert (Hne : cls (slice s e (info b)) <> []) by (intros N; rewrite N in A9; destruct A9).
    pose proof (lmin_lower c _ Hne A10). pose proof (lmin_le c _ A9). lia. }
  repeat split; auto.
  - rewrite EI. rewrite !zlen_app, zlen_map. reflexivity.
  - rewrite <- L1 at 1. replace e' with (zlen l1 + zlen (map (set_cluster c fl0) l2)) by (rewrite zlen_map; lia).
    rewrite slice_app_mid. rewrite Hmin. apply Forall_forall. intros g Hg. apply in_map_iff in Hg. destruct Hg as (x & <- & _).
    unfold set_cluster. destruct (Z.eqb_spec (cl x) c); [assumption|reflexivity].
  - rewrite EI. rewrite <- L1. rewrite !zfirstn_app_exact. reflexivity.
  - rewrite EI. replace e' with (zlen (l1 ++ map (set_cluster c fl0) l2)) at 1 by (rewrite zlen_app, zlen_map; lia).
    replace e' with (zlen (l1 ++ l2)) by (rewrite zlen_app; lia).
    rewrite !app_assoc. rewrite !zskipn_app_exact. reflexivity.
Qed.

(* ---------- the simple operations ---------- *)

Lemma getg_ok l i : 0 <= i -> i < zlen l -> getg l i = Ok (nth (Z.to_nat i) l g0).
Proof. intros. unfold getg. destruct (Z.leb_spec 0 i); [|lia]. destruct (Z.ltb_spec i (zlen l)); [|lia]. reflexivity. Qed.

Lemma zskipn_cons l i : 0 <= i -> i < zlen l -> zskipn i l = nth (Z.to_nat i) l g0 :: zskipn (i + 1) l.
Proof.
  intros. unfold zskipn, zlen in *. rewrite (skipn_nth_cons g0 (Z.to_nat i) l) by lia.
  replace (Z.to_nat (i + 1)) with (S (Z.to_nat i)) by lia. reflexivity.
Qed.

Lemma zskipn_slice {A} (l : list A) i n : 0 <= i -> 0 <= n -> i + n <= zlen l -> zskipn i l = slice i (i + n) l ++ zskipn (i + n) l.
Proof.
  intros. destruct (split3 l i (i + n)) as (l1 & l2 & l3 & _ & _ & _ & _ & S & K & Z); try lia. rewrite S, K. exact Z.
Qed.

Lemma WF_same lo hi b b' : (level b =? 2) = false -> WF lo hi b = true -> level b' = level b ->
  0 <= idx b' -> idx b' <= zlen (info b') -> cls (bseq b') = cls (bseq b) -> WF lo hi b' = true.
Proof.
  intros Hl Hw Elv I0 I1 Ec. destruct (WF_parts lo hi b Hl Hw) as (_ & _ & Hm & Hr).
  apply WF_intro; [rewrite Elv; exact Hl|exact I0|exact I1|rewrite Ec; exact Hm|rewrite Ec; exact Hr].
Qed.

Lemma mono_remove rtl a (x : Z) z : mono rtl (a ++ x :: z) = true -> mono rtl (a ++ z) = true.
Proof.
  intros H. destruct (mono_app _ _ _ H) as (Ha & Hxz & Hc). apply mono_app_intro; [exact Ha|exact (mono_cons _ _ _ Hxz)|].
  intros p q Hp Hq. rewrite Forall_forall in Hc. specialize (Hc p Hp). rewrite Forall_forall in Hc. apply Hc. right. exact Hq.
Qed.

Lemma mono_dup rtl a (x : Z) z : mono rtl (a ++ x :: z) = true -> mono rtl (a ++ x :: x :: z) = true.
Proof.
  intros H. destruct (mono_app _ _ _ H) as (Ha & Hxz & Hc). apply mono_app_intro; [exact Ha| |].
  - rewrite mono_cons2, Hxz. destruct rtl; rewrite andb_true_r; lia.
  - intros p q Hp Hq. rewrite Forall_forall in Hc. specialize (Hc p Hp). rewrite Forall_forall in Hc.
    destruct Hq as [<-|Hq]; [apply Hc; left; reflexivity|apply Hc; exact Hq].
Qed.

Lemma monotone_remove a (x : Z) z : monotone (a ++ x :: z) = true -> monotone (a ++ z) = true.
Proof. unfold monotone. intros H. apply orb_prop in H. apply orb_true_intro. destruct H; [left|right]; eapply mono_remove; eassumption. Qed.
Lemma monotone_dup a (x : Z) z : monotone (a ++ x :: z) = true -> monotone (a ++ x :: x :: z) = true.
Proof. unfold monotone. intros H. apply orb_prop in H. apply orb_true_intro. destruct H; [left|right]; apply mono_dup; assumption. Qed.
Lemma in_range_remove lo hi a (x : Z) z : in_range lo hi (a ++ x :: z) = true -> in_range lo hi (a ++ z) = true.
Proof.
  unfold in_range. rewrite !forallb_app. cbn [forallb]. intros H. apply andb_prop in H. destruct H as [-> H].
  apply andb_prop in H. destruct H as [_ ->]. reflexivity.
Qed.
Lemma in_range_dup lo hi a (x : Z) z : in_range lo hi (a ++ x :: z) = true -> in_range lo hi (a ++ x :: x :: z) = true.
Proof.
  unfold in_range. rewrite !forallb_app. cbn [forallb]. intros H. apply andb_prop in H. destruct H as [-> H].
  apply andb_prop in H. destruct H as [-> ->]. reflexivity.
Qed.

Ltac pre_split H :=
  repeat match type of H with (_ && _) = true => let H' := fresh H in apply andb_prop in H; destruct H as [H H'] end.

Section SimpleOps.
  Variables lo hi : Z.
  Variable b : buffer.
  Hypothesis Hl : (level b =? 2) = false.
  Hypothesis Hw : WF lo hi b = true.

  Lemma next_glyph_wf : pre ONext b = true -> exists b', next_glyph b = Ok b' /\ WF lo hi b' = true /\ level b' = level b.
  Proof.
    intros Hp. cbn [pre] in Hp. apply Z.ltb_lt in Hp. destruct (WF_parts lo hi b Hl Hw) as (I0 & I1 & _).
    unfold next_glyph. destruct (have_out b) eqn:Hh.
    - rewrite getg_ok by lia. cbn [bind]. eexists. split; [reflexivity|]. split; [|reflexivity].
      apply (WF_same lo hi b); auto; cbn; try lia.
      unfold bseq. cbn. rewrite Hh. rewrite <- app_assoc. cbn [app]. rewrite <- zskipn_cons by lia. reflexivity.
    - eexists. split; [reflexivity|]. split; [|reflexivity].
      apply (WF_same lo hi b); auto; cbn; try lia. unfold bseq. cbn. rewrite Hh. reflexivity.
  Qed.

  Lemma next_glyphs_wf n : pre (ONextN n) b = true -> exists b', next_glyphs b n = Ok b' /\ WF lo hi b' = true /\ level b' = level b.
  Proof.
    intros Hp. cbn [pre] in Hp. pre_split Hp. apply Z.leb_le in Hp, Hp0. destruct (WF_parts lo hi b Hl Hw) as (I0 & I1 & _).
    unfold next_glyphs. destruct (have_out b) eqn:Hh.
    - destruct (Z.leb_spec 0 (idx b)); [|lia]. destruct (Z.leb_spec 0 n); [|lia].
      destruct (Z.leb_spec (idx b + n) (zlen (info b))); [|lia]. cbn [andb].
      eexists. split; [reflexivity|]. split; [|reflexivity].
      apply (WF_same lo hi b); auto; cbn; try lia.
      unfold bseq. cbn. rewrite Hh. rewrite <- app_assoc. rewrite <- zskipn_slice by lia. reflexivity.
    - eexists. split; [reflexivity|]. split; [|reflexivity].
      apply (WF_same lo hi b); auto; cbn; try lia. unfold bseq. cbn. rewrite Hh. reflexivity.
  Qed.

  Lemma replace_glyph_index_wf g : pre (OReplIdx g) b = true ->
    exists b', replace_glyph_index b g = Ok b' /\ WF lo hi b' = true /\ level b' = level b.
  Proof.
    intros Hp. cbn [pre] in Hp. pre_split Hp. apply Z.ltb_lt in Hp0. destruct (WF_parts lo hi b Hl Hw) as (I0 & I1 & _).
    unfold replace_glyph_index. rewrite getg_ok by lia. cbn [bind]. eexists. split; [reflexivity|]. split; [|reflexivity].
    apply (WF_same lo hi b); auto; cbn; try lia.
    unfold bseq. cbn. rewrite Hp. rewrite <- app_assoc. cbn [app]. rewrite (zskipn_cons (info b) (idx b)) by lia.
    rewrite !cls_app. cbn [cls map cl]. reflexivity.
  Qed.

  Lemma skip_glyph_wf : pre OSkip b = true -> exists b', skip_glyph b = Ok b' /\ WF lo hi b' = true /\ level b' = level b.
  Proof.
    intros Hp. cbn [pre] in Hp. apply Z.ltb_lt in Hp. destruct (WF_parts lo hi b Hl Hw) as (I0 & I1 & Hm & Hr).
    unfold skip_glyph. eexists. split; [reflexivity|]. split; [|reflexivity].
    apply WF_intro; cbn; auto; try lia; unfold bseq in *; cbn; destruct (have_out b); auto.
    - rewrite (zskipn_cons (info b) (idx b)) in Hm by lia. rewrite cls_app in *. cbn [cls map] in Hm. exact (monotone_remove _ _ _ Hm).
    - rewrite (zskipn_cons (info b) (idx b)) in Hr by lia. rewrite cls_app in *. cbn [cls map] in Hr. exact (in_range_remove _ _ _ _ _ Hr).
  Qed.

  Lemma copy_glyph_wf : pre OCopy b = true -> exists b', copy_glyph b = Ok b' /\ WF lo hi b' = true /\ level b' = level b.
  Proof.
    intros Hp. cbn [pre] in Hp. pre_split Hp. apply Z.ltb_lt in Hp0. destruct (WF_parts lo hi b Hl Hw) as (I0 & I1 & Hm & Hr).
    unfold copy_glyph. rewrite getg_ok by lia. cbn [bind]. eexists. split; [reflexivity|]. split; [|reflexivity].
    unfold bseq in *. rewrite Hp in *.
    rewrite (zskipn_cons (info b) (idx b)) in Hm, Hr by lia. rewrite cls_app in Hm, Hr. cbn [cls map] in Hm, Hr.
    apply WF_intro; cbn; auto; try lia; unfold bseq; cbn; rewrite Hp.
    - rewrite <- app_assoc. cbn [app]. rewrite (zskipn_cons (info b) (idx b)) by lia. rewrite cls_app. cbn [cls map].
      exact (monotone_dup _ _ _ Hm).
    - rewrite <- app_assoc. cbn [app]. rewrite (zskipn_cons (info b) (idx b)) by lia. rewrite cls_app. cbn [cls map].
      exact (in_range_dup _ _ _ _ _ Hr).
  Qed.

  Lemma swap_buffers_wf : pre OSwap b = true -> exists b', swap_buffers b = Ok b' /\ WF lo hi b' = true /\ level b' = level b.
  Proof.
    intros Hp. cbn [pre] in Hp. destruct (WF_parts lo hi b Hl Hw) as (I0 & I1 & _).
    unfold swap_buffers, next_glyphs. rewrite Hp.
    destruct (Z.leb_spec 0 (idx b)); [|lia]. destruct (Z.leb_spec 0 (zlen (info b) - idx b)); [|lia].
    destruct (Z.leb_spec (idx b + (zlen (info b) - idx b)) (zlen (info b))); [|lia]. cbn [andb bind].
    eexists. split; [reflexivity|]. split; [|reflexivity].
    apply (WF_same lo hi b); auto; cbn; try lia; [apply zlen_nonneg|].
    unfold bseq. cbn. rewrite Hp. unfold slice.
    replace (idx b + (zlen (info b) - idx b) - idx b) with (zlen (info b) - idx b) by lia.
    rewrite zfirstn_all; [reflexivity|]. rewrite zlen_zskipn by lia. lia.
  Qed.

  Lemma clear_output_wf : pre OClearOut b = true -> exists b', clear_output b = Ok b' /\ WF lo hi b' = true /\ level b' = level b.
  Proof.
    intros Hp. cbn [pre] in Hp. apply negb_true_iff in Hp.
    unfold clear_output. eexists. split; [reflexivity|]. split; [|reflexivity].
    apply (WF_same lo hi b); auto; cbn; try lia; [apply zlen_nonneg|].
    unfold bseq. cbn. rewrite Hp. reflexivity.
  Qed.
End SimpleOps.

(* any write of glyph flags through setGlyphFlags records bsfHasGlyphFlags (otherwise propagateFlags would skip them) *)
Lemma set_glyph_flags_records b m s e i f b' : set_glyph_flags b m s e i f = Ok b' -> b' = b \/ has_gf b' = true.
Proof.
  unfold set_glyph_flags. destruct (i && negb f && (Z.min e (zlen (info b)) - s <? 2)).
  - intros H. inversion H. left. reflexivity.
  - intros H. right.
    repeat match type of H with
    | context [if ?c then _ else _] => destruct c
    | bind ?x _ = _ => destruct x; cbn [bind] in H; try discriminate H
    end; inversion H; reflexivity.
Qed.

(* ---------- deleteGlyph keeps the smallest cluster ---------- *)

Lemma lmin_in l : l <> [] -> In (lmin l) l.
Proof.
  destruct l as [|a r]; [congruence|]. intros _. revert a. induction r as [|b r IH]; intros a.
  - left. reflexivity.
  - rewrite lmin_cons2. specialize (IH b). destruct (Z.min_spec a (lmin (b :: r))) as [[_ ->]|[_ ->]]; [left; reflexivity|right; exact IH].
Qed.

Lemma lmin_char m l : In m l -> Forall (fun x => m <= x) l -> lmin l = m.
Proof.
  intros Hin Hall. assert (l <> []) by (destruct l; [destruct Hin|congruence]).
  pose proof (lmin_le m l Hin). pose proof (lmin_lower m l H Hall). lia.
Qed.

(* removing / overwriting glyphs keeps the minimum as long as no new value appears and the old minimum survives *)
Lemma lmin_transfer l1 l2 : (forall x, In x l2 -> In x l1) -> In (lmin l1) l2 -> lmin l2 = lmin l1.
Proof.
  intros Hsub Hin. apply lmin_char; [exact Hin|]. apply Forall_forall. intros x Hx. apply lmin_le. apply Hsub. exact Hx.
Qed.

Lemma run_eq_pos c l : l <> [] -> cl (hd g0 l) = c -> 0 < run_eq c l.
Proof.
  destruct l as [|x l]; [congruence|]. intros _ H. cbn [hd] in H. cbn [run_eq]. rewrite H, Z.eqb_refl.
  pose proof (run_eq_bound c l). lia.
Qed.

Lemma hd_rev_last (l : list glyph) : hd g0 (rev l) = last l g0.
Proof.
  induction l as [|x l IH]; [reflexivity|]. cbn [rev]. destruct l as [|y l]; [reflexivity|].
  change (last (x :: y :: l) g0) with (last (y :: l) g0). rewrite <- IH.
  cbn [rev]. destruct (rev l ++ [y]) eqn:E; [destruct (rev l); discriminate|reflexivity].
Qed.

(* the last k = run_eq c (rev l) glyphs of l all carry cluster c *)
Lemma set_cluster_last_run c' m l c : let k := run_eq c (rev l) in
  exists l1 l2, l = l1 ++ l2 /\ zlen l2 = k /\ Forall (fun g => cl g = c) l2
    /\ set_cluster_last k c' m l = l1 ++ map (set_cluster c' m) l2.
Proof.
  intros k. pose proof (run_eq_bound c (rev l)) as B. rewrite zlen_rev in B.
  destruct (set_cluster_last_view k c' m l) as (l1 & l2 & E & L & V); try (subst k; lia).
  exists l1, l2. repeat split; auto.
  assert (Forall (fun g => cl g = c) (rev l2)).
  { apply (run_eq_app_all c (rev l2) (rev l1)). rewrite zlen_rev, L. subst k. rewrite E, rev_app_distr. lia. }
  rewrite Forall_forall in *. intros g Hg. apply H. apply in_rev in Hg. exact Hg.
Qed.

Lemma last_in (l : list glyph) : l <> [] -> In (last l g0) l.
Proof.
  induction l as [|x l IH]; [congruence|]. intros _. destruct l as [|y l]; [left; reflexivity|].
  right. apply IH. congruence.
Qed.

Lemma zlen_zero_nil {A} (l : list A) : zlen l = 0 -> l = [].
Proof. destruct l; [reflexivity|]. rewrite zlen_cons. pose proof (zlen_nonneg l). lia. Qed.

Lemma in_cls_app x a b : In x (cls (a ++ b)) <-> In x (cls a) \/ In x (cls b).
Proof. rewrite cls_app. apply in_app_iff. Qed.

Lemma in_map_const {A} (c : Z) (l : list A) x : In x (map (fun _ => c) l) -> x = c.
Proof. intros H. apply in_map_iff in H. destruct H as (_ & <- & _). reflexivity. Qed.

Lemma in_map_const_intro {A} (c : Z) (l : list A) : l <> [] -> In c (map (fun _ => c) l).
Proof. destruct l; [congruence|]. intros _. left. reflexivity. Qed.

(* deleteGlyph, for EVERY buffer with output in progress and the cursor on a glyph: it returns normally, advances the
   cursor, and if a glyph remains in  out ++ unread input  the smallest cluster value is the same as before *)
Lemma delete_keeps_min_lemma b : (level b =? 2) = false -> have_out b = true -> 0 <= idx b -> idx b < zlen (info b) ->
  exists b', delete_glyph b = Ok b' /\ idx b' = idx b + 1 /\ have_out b' = true
    /\ (cls (bseq b') <> [] -> lmin (cls (bseq b')) = lmin (cls (bseq b))).
Proof.
  intros Hl Hh I0 I1. unfold delete_glyph. rewrite getg_ok by lia. cbn [bind].
  set (g := nth (Z.to_nat (idx b)) (info b) g0). set (c := cl g). set (rest := zskipn (idx b + 1) (info b)).
  assert (Eb : bseq b = out b ++ g :: rest).
  { unfold bseq. rewrite Hh. rewrite (zskipn_cons (info b) (idx b)) by lia. reflexivity. }
  assert (Hmin_le : forall x, In x (cls (bseq b)) -> lmin (cls (bseq b)) <= x) by (intros; apply lmin_le; assumption).
  assert (Hne : cls (bseq b) <> []) by (rewrite Eb, cls_app; destruct (cls (out b)); discriminate).
  pose proof (lmin_in _ Hne) as HM. set (M := lmin (cls (bseq b))) in *.
  assert (Hc_in : In c (cls (bseq b))).
  { rewrite Eb. apply in_cls_app. right. left. reflexivity. }
  assert (HMcase : In M (cls (out b)) \/ M = c \/ In M (cls rest)).
  { rewrite Eb in HM. apply in_cls_app in HM. destruct HM as [H|[H|H]]; auto. }
  (* the plain skip: out ++ rest *)
  assert (Skip : forall o', (forall x, In x (cls (o' ++ rest)) -> In x (cls (bseq b))) -> In M (cls (o' ++ rest)) ->
            exists b', Ok (with_idx (with_out b o') (idx b + 1)) = Ok b' /\ idx b' = idx b + 1 /\ have_out b' = true
              /\ (cls (bseq b') <> [] -> lmin (cls (bseq b')) = lmin (cls (bseq b)))).
  { intros o' Hsub HinM. eexists. split; [reflexivity|]. cbn. split; [reflexivity|]. split; [exact Hh|].
    intros _. unfold bseq at 1. cbn. rewrite Hh. fold rest. apply lmin_transfer; assumption. }
  assert (Hsub_out : forall x, In x (cls (out b ++ rest)) -> In x (cls (bseq b))).
  { intros x Hx. rewrite Eb. apply in_cls_app in Hx. apply in_cls_app. destruct Hx; [left; assumption|right; right; assumption]. }
  destruct (((idx b + 1 <? zlen (info b)) && (c =? cl (nth (Z.to_nat (idx b + 1)) (info b) g0)))
            || (negb (zlen (out b) =? 0) && (c =? cl (lastg (out b))))) eqn:Surv.
  - (* cluster survives *)
    replace (with_idx b (idx b + 1)) with (with_idx (with_out b (out b)) (idx b + 1)) by (destruct b; reflexivity).
    apply Skip; [exact Hsub_out|]. apply in_cls_app.
    destruct HMcase as [H|[H|H]]; [left; exact H| |right; exact H].
    apply orb_prop in Surv. destruct Surv as [S|S]; apply andb_prop in S; destruct S as [S1 S2]; apply Z.eqb_eq in S2.
    + right. apply Z.ltb_lt in S1. subst rest. rewrite (zskipn_cons (info b) (idx b + 1)) by lia. left. rewrite H, S2. reflexivity.
    + left. apply negb_true_iff in S1. apply Z.eqb_neq in S1. rewrite H, S2. apply in_cls. apply last_in.
      intros N. rewrite N in S1. apply S1. reflexivity.
  - apply orb_false_iff in Surv. destruct Surv as [Sv1 Sv2].
    destruct (Z.eqb_spec (zlen (out b)) 0) as [L0|LN]; cbn [negb].
    + (* empty out-buffer *)
      apply zlen_zero_nil in L0.
      destruct (Z.ltb_spec (idx b + 1) (zlen (info b))) as [Hnext|Hlast].
      * (* merge forward *)
        destruct (merge_clusters_view b (idx b) (idx b + 2) Hl I0 I0) as
          (s' & e' & k & c' & A1 & A2 & A3 & A4 & A5 & A6 & A7 & A8 & A9 & A10 & A11 & E); try lia.
        rewrite E. cbn [bind]. assert (s' = idx b) by lia. subst s'.
        assert (k = 0) by (rewrite L0 in A7; cbn in A7; lia). subst k. rewrite set_cluster_last_0.
        destruct (map_range_view (set_cluster c' fl0) (idx b) e' (info b)) as (l1 & l2 & l3 & EI & L1 & L2 & S2 & V); try lia.
        destruct l2 as [|x l2']; [rewrite zlen_nil in L2; lia|].
        assert (l2' <> []) by (intros N; subst l2'; rewrite zlen_cons, zlen_nil in L2; lia).
        eexists. split; [reflexivity|]. cbn. split; [reflexivity|]. split; [exact Hh|].
        assert (Ebs : bseq b = (x :: l2') ++ l3).
        { unfold bseq. rewrite Hh, L0. cbn [app]. rewrite EI at 1. rewrite <- L1. rewrite zskipn_app_exact. reflexivity. }
        assert (Eb' : cls (bseq (with_idx (with_info (with_out b (out b)) (map_range (set_cluster c' fl0) (idx b) e' (info b))) (idx b + 1)))
                      = map (fun _ => c') l2' ++ cls l3).
        { unfold bseq. cbn. rewrite Hh, L0, V. cbn [app map].
          replace (idx b + 1) with (zlen (l1 ++ [set_cluster c' fl0 x])) by (rewrite zlen_app, zlen_cons, zlen_nil; lia).
          replace (l1 ++ set_cluster c' fl0 x :: map (set_cluster c' fl0) l2' ++ l3)
            with ((l1 ++ [set_cluster c' fl0 x]) ++ map (set_cluster c' fl0) l2' ++ l3) by (rewrite <- app_assoc; reflexivity).
          rewrite zskipn_app_exact, cls_app, cls_set_cluster. reflexivity. }
        intros _. rewrite Eb'. fold M.
        assert (Hc'in : In c' (cls (x :: l2'))).
        { rewrite <- S2. unfold cls in *. apply in_map_iff in A9. destruct A9 as (y & Ey & Hy). apply in_map_iff. exists y.
          split; [exact Ey|]. apply (slice_incl (info b) (idx b) (idx b) (idx b + 2) e'); auto; lia. }
        apply lmin_transfer.
        -- intros y Hy. rewrite Ebs. apply in_cls_app. apply in_app_or in Hy. destruct Hy as [Hy|Hy].
           ++ apply in_map_const in Hy. subst y. left. exact Hc'in.
           ++ right. exact Hy.
        -- unfold M in *. rewrite Ebs in HM |- *. apply in_cls_app in HM. apply in_or_app. destruct HM as [H1|H1]; [|right; exact H1].
           left. rewrite S2 in A11. rewrite Forall_forall in A11. specialize (A11 _ H1).
           assert (lmin (cls ((x :: l2') ++ l3)) <= c') by (apply lmin_le; apply in_cls_app; left; exact Hc'in).
           replace (lmin (cls ((x :: l2') ++ l3))) with c' by lia. apply in_map_const_intro. exact H.
      * (* last glyph, nothing remains *)
        eexists. split; [reflexivity|]. cbn. split; [reflexivity|]. split; [exact Hh|].
        unfold bseq. cbn. rewrite Hh, L0, zskipn_all by lia. intros N. exfalso. apply N. reflexivity.
    + (* merge backward into the out-buffer, or nothing *)
      assert (Hout_ne : out b <> []) by (intros N; rewrite N in LN; apply LN; reflexivity).
      assert (Hlast_in : In (cl (lastg (out b))) (cls (bseq b))).
      { rewrite Eb. apply in_cls_app. left. apply in_cls. apply last_in. exact Hout_ne. }
      assert (Hc_ne : c <> cl (lastg (out b))).
      { destruct (Z.eqb_spec (zlen (out b)) 0); [contradiction|]. cbn [negb andb] in Sv2. apply Z.eqb_neq. exact Sv2. }
      destruct (Z.ltb_spec c (cl (lastg (out b)))) as [Hlt|Hge].
      * set (oldC := cl (lastg (out b))) in *.
        destruct (set_cluster_last_run c (gf g) (out b) oldC) as (o1 & o2 & EO & LO & FO & VO). rewrite VO.
        assert (o2 <> []).
        { intros N. subst o2. rewrite zlen_nil in LO.
          pose proof (run_eq_pos oldC (rev (out b))) as P. rewrite hd_rev_last in P.
          assert (rev (out b) <> []) by (intros R; apply (f_equal (@rev glyph)) in R; rewrite rev_involutive in R; contradiction).
          specialize (P H eq_refl). lia. }
        apply Skip.
        -- intros y Hy. rewrite <- app_assoc, !cls_app, cls_set_cluster in Hy. rewrite Eb, EO, <- app_assoc. 
           apply in_app_or in Hy. destruct Hy as [Hy|Hy]; [apply in_cls_app; left; exact Hy|].
           apply in_app_or in Hy. destruct Hy as [Hy|Hy].
           ++ apply in_map_const in Hy. subst y. apply in_cls_app. right. apply in_cls_app. right. left. reflexivity.
           ++ apply in_cls_app. right. apply in_cls_app. right. right. exact Hy.
        -- rewrite <- app_assoc, !cls_app, cls_set_cluster.
           destruct HMcase as [H1|[H1|H1]].
           ++ rewrite EO in H1. apply in_cls_app in H1. destruct H1 as [H1|H1]; [apply in_or_app; left; exact H1|].
              exfalso. unfold cls in H1. apply in_map_iff in H1. destruct H1 as (y & Ey & Hy). rewrite Forall_forall in FO.
              rewrite (FO y Hy) in Ey. specialize (Hmin_le c Hc_in). lia.
           ++ apply in_or_app. right. apply in_or_app. left. rewrite H1. apply in_map_const_intro. exact H.
           ++ apply in_or_app. right. apply in_or_app. right. exact H1.
      * replace (with_idx b (idx b + 1)) with (with_idx (with_out b (out b)) (idx b + 1)) by (destruct b; reflexivity).
        apply Skip; [exact Hsub_out|]. apply in_cls_app.
        destruct HMcase as [H1|[H1|H1]]; [left; exact H1| |right; exact H1].
        exfalso. specialize (Hmin_le _ Hlast_in). lia.
Qed.

(* ---------- unsafeToBreak marks exactly the interior of the window (C18) ---------- *)

Lemma app_eq_len {A} : forall (a a' b b' : list A), a ++ b = a' ++ b' -> zlen a = zlen a' -> a = a' /\ b = b'.
Proof.
  induction a as [|x a IH]; intros a' b b' E L.
  - destruct a'; [auto|]. rewrite zlen_cons, zlen_nil in L. pose proof (zlen_nonneg a'). lia.
  - destruct a' as [|y a']; [rewrite zlen_cons, zlen_nil in L; pose proof (zlen_nonneg a); lia|].
    cbn [app] in E. inversion E; subst. rewrite !zlen_cons in L. destruct (IH a' b b' H1) as [-> ->]; [lia|]. auto.
Qed.

Lemma run_ne_split c l : exists p q, l = p ++ q /\ zlen p = run_ne c l /\ Forall (fun g => cl g <> c) p
  /\ (q = [] \/ cl (hd g0 q) = c).
Proof.
  induction l as [|x l (p & q & E & L & F & H)].
  - exists [], []. repeat split; auto.
  - cbn [run_ne]. destruct (Z.eqb_spec (cl x) c) as [Ex|Nx].
    + exists [], (x :: l). repeat split; auto.
    + exists (x :: p), q. rewrite zlen_cons. repeat split; auto; [cbn; f_equal; exact E|lia].
Qed.

Lemma mono_between rtl L : mono rtl L = true -> forall x, In x L -> dirle rtl (hd 0 L) x /\ dirle rtl x (last L 0).
Proof.
  intros Hm x Hx. destruct L as [|a r]; [destruct Hx|]. split.
  - cbn [hd]. destruct Hx as [<-|Hx]; [apply dirle_refl|]. pose proof (mono_hd _ _ _ Hm) as F.
    rewrite Forall_forall in F. exact (F x Hx).
  - assert (Hne : a :: r <> []) by congruence. rewrite (app_removelast_last 0 Hne) in Hm, Hx.
    destruct (mono_app _ _ _ Hm) as (_ & _ & C). apply in_app_or in Hx. destruct Hx as [Hx|[<-|[]]]; [|apply dirle_refl].
    rewrite Forall_forall in C. specialize (C x Hx). inversion C; assumption.
Qed.

Lemma mono_all_eq rtl (X : list glyph) c : mono rtl (cls X) = true -> X <> [] -> cl (hd g0 X) = c -> cl (last X g0) = c ->
  Forall (fun g => cl g = c) X.
Proof.
  intros Hm Hne Hh Hla. apply Forall_forall. intros g Hg.
  destruct (mono_between rtl (cls X) Hm (cl g) (in_cls g X Hg)) as [B1 B2].
  assert (E1 : hd 0 (cls X) = c) by (destruct X; [congruence|exact Hh]).
  assert (E2 : last (cls X) 0 = c).
  { rewrite <- Hla. clear -Hne. induction X as [|x X IH]; [congruence|]. destruct X as [|y X]; [reflexivity|].
    change (last (cls (x :: y :: X)) 0) with (last (cls (y :: X)) 0). rewrite IH by congruence. reflexivity. }
  rewrite E1 in B1. rewrite E2 in B2. unfold dirle in *. destruct rtl; lia.
Qed.

Lemma mono_sub rtl a m z : mono rtl (cls (a ++ m ++ z)) = true -> mono rtl (cls m) = true.
Proof.
  rewrite !cls_app. intros H. destruct (mono_app _ _ _ H) as (_ & H2 & _). destruct (mono_app _ _ _ H2) as (H3 & _). exact H3.
Qed.

Lemma lmin_mono_ends rtl (X : list glyph) : mono rtl (cls X) = true -> X <> [] ->
  lmin (cls X) = Z.min (cl (hd g0 X)) (cl (last X g0)).
Proof.
  intros Hm Hne.
  assert (Hh : In (cl (hd g0 X)) (cls X)) by (destruct X; [congruence|left; reflexivity]).
  assert (Hl : In (cl (last X g0)) (cls X)) by (apply in_cls; apply last_in; exact Hne).
  pose proof (lmin_le _ _ Hh). pose proof (lmin_le _ _ Hl).
  assert (Hc : cls X <> []) by (destruct X; [congruence|discriminate]).
  pose proof (lmin_in _ Hc) as Hin.
  destruct (mono_between rtl (cls X) Hm _ Hin) as [B1 B2].
  assert (E1 : hd 0 (cls X) = cl (hd g0 X)) by (destruct X; [congruence|reflexivity]).
  assert (E2 : last (cls X) 0 = cl (last X g0)).
  { clear -Hne. induction X as [|x X IH]; [congruence|]. destruct X as [|y X]; [reflexivity|].
    change (last (cls (x :: y :: X)) 0) with (last (cls (y :: X)) 0). rewrite IH by congruence. reflexivity. }
  rewrite E1 in B1. rewrite E2 in B2. unfold dirle in *. destruct rtl; lia.
Qed.

Lemma map_id_on {A} (f : A -> A) l : Forall (fun x => f x = x) l -> map f l = l.
Proof. induction 1; [reflexivity|]. cbn. rewrite H, IHForall. reflexivity. Qed.

Lemma hd_slice (l : list glyph) s e : 0 <= s -> s < e -> e <= zlen l -> hd g0 (slice s e l) = nth (Z.to_nat s) l g0.
Proof. intros. rewrite (slice_cons g0 s e l) by lia. reflexivity. Qed.

Lemma last_slice (l : list glyph) s e : 0 <= s -> s < e -> e <= zlen l -> last (slice s e l) g0 = nth (Z.to_nat (e - 1)) l g0.
Proof.
  intros. rewrite (slice_split l s (e - 1) e) by lia. rewrite (slice_cons g0 (e - 1) e l) by lia.
  replace (e - 1 + 1) with e by lia.
  assert (N : slice e e l = []) by (unfold slice; rewrite zfirstn_neg by lia; reflexivity). rewrite N. apply last_last.
Qed.

Lemma last_app_ne (p l : list glyph) : l <> [] -> last (p ++ l) g0 = last l g0.
Proof.
  intros Hne. induction p as [|a p IH]; [reflexivity|]. cbn [app]. destruct (p ++ l) eqn:R.
  - destruct p; [cbn in R; contradiction|discriminate].
  - cbn [last]. exact IH.
Qed.

(* infosSetGlyphFlags on a monotone window whose minimal cluster is c: exactly the glyphs outside cluster c are flagged *)
Lemma infos_set_monotone lv infos s e m rtl : (lv =? 2) = false -> 0 <= s -> s + 2 <= e -> e <= zlen infos ->
  mono rtl (cls (slice s e infos)) = true ->
  let c := lmin (cls (slice s e infos)) in
  exists t, infos_set_glyph_flags lv infos s e c m
            = Ok (map_range (fun g => if cl g =? c then g else or_flags m g) s e infos, t).
Proof.
  intros Hl H0 H1 H2 Hm c. unfold infos_set_glyph_flags.
  destruct (Z.eqb_spec s e); [lia|]. rewrite !getg_ok by lia. cbn [bind].
  destruct (Z.leb_spec e s); [lia|]. rewrite Hl. cbn [orb].
  set (X := slice s e infos) in *.
  assert (Xne : X <> []). { intros N. pose proof (f_equal zlen N) as Z. unfold X, slice in Z. rewrite zlen_zfirstn in Z; [cbn in Z; lia|]. rewrite zlen_zskipn by lia. lia. }
  assert (Eh : hd g0 X = nth (Z.to_nat s) infos g0) by (apply hd_slice; lia).
  assert (El : last X g0 = nth (Z.to_nat (e - 1)) infos g0) by (apply last_slice; lia).
  rewrite <- Eh, <- El.
  assert (Ec : c = Z.min (cl (hd g0 X)) (cl (last X g0))) by (apply (lmin_mono_ends rtl); assumption).
  destruct (map_range_view (fun g => if cl g =? c then g else or_flags m g) s e infos) as (l1 & l2 & l3 & EI & L1 & L2 & S2 & V); try lia.
  fold X in S2. subst l2. rewrite V.
  destruct (Z.eqb_spec c (cl (hd g0 X))) as [Ea|Na]; cbn [negb andb].
  - (* minimum at the start: flag the trailing glyphs outside the first cluster *)
    rewrite <- Ea. eexists. f_equal. f_equal.
    destruct (run_ne_split c (rev X)) as (p & q & Er & Lp & Fp & Hq).
    assert (EX : X = rev q ++ rev p) by (rewrite <- rev_app_distr, <- Er, rev_involutive; reflexivity).
    assert (Fq : Forall (fun g => cl g = c) (rev q)).
    { destruct q as [|y q]; [constructor|]. destruct Hq as [Hq|Hq]; [discriminate|]. cbn [hd] in Hq.
      apply (mono_all_eq rtl); [|destruct (rev (y :: q)) eqn:R; [apply (f_equal (@rev glyph)) in R; rewrite rev_involutive in R; discriminate|congruence]| |].
      - rewrite EX in Hm. rewrite <- (app_nil_l (rev (y :: q) ++ rev p)) in Hm. exact (mono_sub rtl [] _ _ Hm).
      - rewrite EX in Ea. destruct (rev (y :: q)) eqn:R; [apply (f_equal (@rev glyph)) in R; rewrite rev_involutive in R; discriminate|].
        cbn [app hd] in Ea. cbn [hd]. congruence.
      - cbn [rev]. rewrite last_last. exact Hq. }
    destruct (map_range_view (or_flags m) (e - run_ne c (rev X)) e infos) as (k1 & k2 & k3 & EK & K1 & K2 & _ & VK).
    { pose proof (f_equal zlen EX) as Z. rewrite zlen_app, !zlen_rev in Z.
      assert (zlen X = e - s). { pose proof (f_equal zlen EI) as Z2. rewrite !zlen_app in Z2. lia. }
      pose proof (zlen_nonneg q). lia. }
    { pose proof (zlen_nonneg p). lia. }
    { lia. }
    rewrite VK. rewrite EI in EK. rewrite EX in EK.
    assert (Z1 : zlen (l1 ++ rev q) = zlen k1).
    { pose proof (f_equal zlen EX) as Z. pose proof (f_equal zlen EI) as Z2. rewrite !zlen_app, ?zlen_rev in *. lia. }
    rewrite <- !app_assoc in EK. rewrite (app_assoc l1) in EK.
    destruct (app_eq_len _ _ _ _ EK Z1) as [<- EK2].
    assert (Z2 : zlen (rev p) = zlen k2) by (rewrite zlen_rev; lia).
    destruct (app_eq_len _ _ _ _ EK2 Z2) as [<- <-].
    rewrite EX, map_app, <- !app_assoc. f_equal. f_equal; [|f_equal].
    + symmetry. apply map_id_on. eapply Forall_impl; [|exact Fq]. intros g Hg. cbv beta in *. rewrite Hg, Z.eqb_refl. reflexivity.
    + apply map_ext_in. intros g Hg. apply in_rev in Hg. rewrite Forall_forall in Fp. specialize (Fp g Hg).
      destruct (Z.eqb_spec (cl g) c); [contradiction|reflexivity].
  - (* minimum at the end only *)
    assert (Ez : c = cl (last X g0)) by lia. destruct (Z.eqb_spec c (cl (last X g0))); [|contradiction]. cbn [negb andb].
    rewrite <- Ez. eexists. f_equal. f_equal.
    destruct (run_ne_split c X) as (p & q & EX & Lp & Fp & Hq).
    assert (Fq : Forall (fun g => cl g = c) q).
    { destruct q as [|y q]; [constructor|]. destruct Hq as [Hq|Hq]; [discriminate|]. cbn [hd] in Hq.
      apply (mono_all_eq rtl); [|congruence|exact Hq|].
      - rewrite EX in Hm. rewrite <- (app_nil_r (y :: q)) in Hm. exact (mono_sub rtl p _ [] Hm).
      - rewrite EX in Ez. rewrite Ez. rewrite last_app_ne by congruence. reflexivity. }
    destruct (map_range_view (or_flags m) s (s + run_ne c X) infos) as (k1 & k2 & k3 & EK & K1 & K2 & _ & VK).
    { lia. }
    { pose proof (zlen_nonneg p). lia. }
    { pose proof (f_equal zlen EX) as Z. pose proof (f_equal zlen EI) as Z2. rewrite !zlen_app in *. pose proof (zlen_nonneg q). lia. }
    rewrite VK. rewrite EI in EK. rewrite EX in EK.
    assert (Z1 : zlen l1 = zlen k1) by lia.
    destruct (app_eq_len _ _ _ _ EK Z1) as [<- EK2].
    rewrite <- app_assoc in EK2.
    assert (Z2 : zlen p = zlen k2) by lia.
    destruct (app_eq_len _ _ _ _ EK2 Z2) as [<- <-].
    rewrite EX, map_app, <- !app_assoc. f_equal. f_equal; [|f_equal].
    + apply map_ext_in. intros g Hg. rewrite Forall_forall in Fp. specialize (Fp g Hg).
      destruct (Z.eqb_spec (cl g) c); [contradiction|reflexivity].
    + symmetry. apply map_id_on. eapply Forall_impl; [|exact Fq]. intros g Hg. cbv beta in *. rewrite Hg, Z.eqb_refl. reflexivity.
Qed.

Lemma unsafe_marks_interior_lemma b s e : (level b =? 2) = false -> 0 <= s ->
  monotone (cls (info b)) = true -> Forall (fun g => cl g <= max_int) (info b) ->
  exists b', unsafe_to_break b s e = Ok b'
    /\ info b' = marks_interior m_break s e (info b)
    /\ out b' = out b /\ idx b' = idx b /\ have_out b' = have_out b /\ level b' = level b
    /\ (b' = b \/ has_gf b' = true).
Proof.
  intros Hl H0 Hm Hmax. unfold unsafe_to_break, set_glyph_flags, marks_interior.
  set (e' := Z.min e (zlen (info b))). cbn [andb negb orb].
  destruct (Z.ltb_spec (e' - s) 2) as [Hsmall|Hbig].
  - exists b. repeat split; auto.
  - assert (He' : e' <= zlen (info b)) by (subst e'; lia).
    cbn [level info with_gf have_out].
    unfold monotone in Hm. apply orb_prop in Hm.
    assert (exists rtl, mono rtl (cls (info b)) = true) as [rtl Hr] by (destruct Hm; [exists false|exists true]; assumption).
    destruct (split3 (info b) s e') as (l1 & l2 & l3 & EI & L1 & L2 & _ & S2 & _ & _); try lia.
    assert (HmX : mono rtl (cls (slice s e' (info b))) = true) by (rewrite S2; rewrite EI in Hr; exact (mono_sub rtl _ _ _ Hr)).
    assert (Xne : slice s e' (info b) <> []) by (rewrite S2; intros N; rewrite N, zlen_nil in L2; lia).
    unfold find_min_cluster. destruct (Z.eqb_spec s e'); [lia|]. rewrite Hl. rewrite !getg_ok by lia. cbn [bind].
    assert (Ec : Z.min max_int (Z.min (cl (nth (Z.to_nat s) (info b) g0)) (cl (nth (Z.to_nat (e' - 1)) (info b) g0)))
                 = lmin (cls (slice s e' (info b)))).
    { rewrite (lmin_mono_ends rtl _ HmX Xne), hd_slice, last_slice by lia.
      rewrite Forall_forall in Hmax.
      assert (cl (nth (Z.to_nat s) (info b) g0) <= max_int).
      { apply Hmax. apply nth_In. unfold zlen in *. lia. }
      lia. }
    rewrite Ec.
    destruct (infos_set_monotone (level b) (info b) s e' m_break rtl Hl H0) as (t & Et); try lia; [exact HmX|].
    cbv zeta in Et. rewrite Et. cbn [bind fst]. eexists. split; [reflexivity|]. cbn.
    repeat split; auto.
Qed.
