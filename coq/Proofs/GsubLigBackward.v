(* GSUB single and ligature substitution over the buffer of a right-to-left run (C18): visual order, non-increasing
   clusters (sideR, rsorted).  The lookup runs forward over the buffer as it does over a left-to-right one, but the
   minimal cluster of a ligature window is now its LAST cluster: mergeClusters extends the merge BACKWARD into the
   out-buffer (the glyphs already passed that share the cluster of the first component), not forward.  The pass meets the
   contract for this direction too.  The rewritten stretch is seen, reversed, as a merged window of Proofs/GsubLig.v. *)
From TV Require Import Model.GsubLig Spec.LocalEngine Proofs.LocalEngine Proofs.EngineItem Proofs.KernMachine Proofs.MarkBase.
From TV Require Import Proofs.GsubLig Proofs.Direction.

(* ---- non-increasing clusters ---- *)
Lemma in_rev_l (y : item) l : In y (rev l) -> In y l.
Proof. intros H. apply (proj2 (in_rev l y)). exact H. Qed.
Lemma in_rev_r (y : item) l : In y l -> In y (rev l).
Proof. intros H. apply (proj1 (in_rev l y)). exact H. Qed.

Lemma rsorted_app_iff a b : rsorted (a ++ b) <-> rsorted a /\ rsorted b /\ (forall x y, In x a -> In y b -> icl y <= icl x).
Proof.
  unfold rsorted. rewrite rev_app_distr, sorted_app. split.
  - intros (Sb & Sa & H). split; [exact Sa|]. split; [exact Sb|].
    intros x y Hx Hy. apply H; apply in_rev_r; assumption.
  - intros (Sa & Sb & H). split; [exact Sb|]. split; [exact Sa|].
    intros y x Hy Hx. apply H; apply in_rev; assumption.
Qed.

Lemma rsorted_cons x l : rsorted (x :: l) <-> (forall y, In y l -> icl y <= icl x) /\ rsorted l.
Proof.
  change (x :: l) with ([x] ++ l). rewrite rsorted_app_iff. split.
  - intros (_ & S & H). split; [intros y Hy; apply H; [left; reflexivity|exact Hy]|exact S].
  - intros (H & S). split; [|split; [exact S|]].
    + unfold rsorted, sorted. cbn. split; [intros y []|exact I].
    + intros a y [<-|[]] Hy. apply H. exact Hy.
Qed.

Lemma rsorted_firstn n l : rsorted l -> rsorted (firstn n l).
Proof. intros H. rewrite <- (firstn_skipn n l) in H. apply rsorted_app_iff in H. tauto. Qed.
Lemma rsorted_skipn n l : rsorted l -> rsorted (skipn n l).
Proof. intros H. rewrite <- (firstn_skipn n l) in H. apply rsorted_app_iff in H. tauto. Qed.

Lemma rsorted_last_le l : rsorted l -> forall y, In y l -> icl (last l i0) <= icl y.
Proof.
  intros HS y Hy. destruct l as [|a l0]; [destruct Hy|].
  destruct (@exists_last _ (a :: l0) ltac:(discriminate)) as (l' & z & E). rewrite E in *. rewrite last_last.
  apply rsorted_app_iff in HS. destruct HS as (_ & _ & H).
  apply in_app_or in Hy. destruct Hy as [Hy|[<-|[]]]; [|lia]. apply H; [exact Hy|left; reflexivity].
Qed.

Lemma fold_min_in a r : In (fold_right Z.min a r) (a :: r).
Proof.
  induction r as [|b r IH]; [left; reflexivity|]. cbn [fold_right].
  destruct (Z.min_spec b (fold_right Z.min a r)) as [[_ E]|[_ E]]; rewrite E.
  - right. left. reflexivity.
  - destruct IH as [IH|IH]; [left; exact IH|right; right; exact IH].
Qed.

Lemma lminz_rsorted l : l <> [] -> rsorted l -> lminz (icls l) = icl (last l i0).
Proof.
  intros Hne HS. destruct l as [|a r]; [contradiction|].
  assert (Hin : In (lminz (icls (a :: r))) (icls (a :: r))).
  { unfold icls. cbn [map lminz]. apply fold_min_in. }
  apply in_icls_inv in Hin. destruct Hin as (y & Hy & Ey).
  pose proof (rsorted_last_le _ HS y Hy) as H1.
  assert (Hl : In (last (a :: r) i0) (a :: r)) by (apply last_in_item; discriminate).
  pose proof (lminz_le (icls (a :: r)) _ (in_icls _ _ Hl)) as H2. lia.
Qed.

(* ---- the backward extension of a merge ---- *)
Definition merge_bwd (d : list item) (cx c : Z) : list item :=
  if c =? cx then d
  else let k := run_eq_i cx (rev d) in firstn (length d - k) d ++ map (merge_item c) (skipn (length d - k) d).

Lemma merge_zip_rsorted d t n : rsorted t -> (0 < n)%nat -> t <> [] ->
  let c := icl (last (firstn n t) i0) in
  merge_zip d t n = (merge_bwd d (icl (hd i0 t)) c, map (merge_item c) (firstn n t) ++ skipn n t).
Proof.
  intros HS Hn Hne c. unfold merge_zip, merge_bwd.
  assert (Hw : firstn n t <> []) by (destruct t; [contradiction|destruct n; [lia|discriminate]]).
  assert (Eh : hd i0 (firstn n t) = hd i0 t) by (destruct t; [contradiction|destruct n; [lia|reflexivity]]).
  rewrite (lminz_rsorted (firstn n t) Hw (rsorted_firstn n t HS)). fold c. rewrite Z.eqb_refl, Eh. reflexivity.
Qed.

(* the glyphs at the end of d that carry cluster cx *)
Lemma run_back cx d : exists dkeep drun, d = dkeep ++ drun /\ length drun = run_eq_i cx (rev d)
  /\ Forall (fun y => icl y = cx) drun /\ (dkeep <> [] -> icl (last dkeep i0) <> cx).
Proof.
  destruct (run_eq_i_split cx (rev d)) as (ext & tail & E & L & F & T).
  exists (rev tail), (rev ext). split; [|split; [|split]].
  - rewrite <- rev_app_distr, <- E, rev_involutive. reflexivity.
  - rewrite rev_length. exact L.
  - apply Forall_forall. intros y Hy. rewrite Forall_forall in F. apply F. apply in_rev. exact Hy.
  - intros Hne. destruct tail as [|z tail']; [contradiction|]. cbn [rev]. rewrite last_last. exact T.
Qed.

Lemma merge_bwd_split d cx c dkeep drun : d = dkeep ++ drun -> length drun = run_eq_i cx (rev d) -> c <> cx ->
  merge_bwd d cx c = dkeep ++ map (merge_item c) drun.
Proof.
  intros E L N. unfold merge_bwd. destruct (Z.eqb_spec c cx); [contradiction|]. rewrite <- L. subst d.
  rewrite app_length. replace (length dkeep + length drun - length drun)%nat with (length dkeep) by lia.
  rewrite firstn_app, Nat.sub_diag, firstn_all. cbn [firstn]. rewrite app_nil_r.
  rewrite skipn_app, Nat.sub_diag, skipn_all. reflexivity.
Qed.

(* ---- ligateInput over a right-to-left buffer ---- *)
Lemma ligate_unfold_R d x rest ps lg : rsorted (x :: rest) ->
  ligate d x rest ps lg
  = let n := S (S (last ps O)) in
    let c := icl (last (firstn n (x :: rest)) i0) in
    let M := map (merge_item c) (firstn n (x :: rest)) ++ skipn n (x :: rest) in
    (merge_bwd d (icl x) c ++ [lig_glyph (hd i0 M) (map (fun k => nth k (tl M) i0) ps) lg] ++ drop_at ps (firstn (n - 1) (tl M)) O,
     skipn (n - 1) (tl M)).
Proof.
  intros HS. unfold ligate. rewrite (merge_zip_rsorted d (x :: rest) _ HS) by (try lia; discriminate). reflexivity.
Qed.

(* the shape of a ligature step: done = dkeep ++ drun (drun: the glyphs that share the cluster of x, when the window has
   more than one cluster), rest = wr ++ tail; the stretch drun ++ x :: wr becomes w', all in the cluster c of the last
   glyph of the window, and the cursor stands behind it *)
Lemma ligate_shape_R d x rest ps lg : rsorted (d ++ x :: rest) -> ps <> [] -> (last ps O < length rest)%nat ->
  (forall p, In p ps -> (p <= last ps O)%nat) ->
  exists dkeep drun wr tail w' c,
    d = dkeep ++ drun /\ rest = wr ++ tail /\ length wr = S (last ps O) /\ c = icl (last (x :: wr) i0)
    /\ ligate d x rest ps lg = (dkeep ++ w', tail)
    /\ merged_window c (icl x) (rev (drun ++ x :: wr)) (rev w') (rev dkeep)
    /\ (forall z, In z tail -> icl z <= c)
    /\ (nomult (d ++ x :: rest) -> nomult w').
Proof.
  intros HS Hps Hlast Hle.
  pose proof HS as HS0. apply rsorted_app_iff in HS0. destruct HS0 as (Sd & St & Hdt).
  set (n := S (S (last ps O))).
  set (wr := firstn (S (last ps O)) rest). set (tail := skipn (S (last ps O)) rest).
  assert (Er : rest = wr ++ tail) by (unfold wr, tail; rewrite firstn_skipn; reflexivity).
  assert (Lwr : length wr = S (last ps O)) by (unfold wr; rewrite firstn_length; lia).
  assert (Efn : firstn n (x :: rest) = x :: wr) by reflexivity.
  assert (Esn : skipn n (x :: rest) = tail) by reflexivity.
  set (c := icl (last (x :: wr) i0)).
  set (f := merge_item c).
  (* clusters of the window and around it *)
  assert (Swin : rsorted (x :: wr)) by (rewrite <- Efn; apply rsorted_firstn; exact St).
  assert (Hc_le : forall y, In y (x :: wr) -> c <= icl y) by (intros y Hy; apply (rsorted_last_le _ Swin y Hy)).
  assert (Hx_ge : forall y, In y (x :: wr) -> icl y <= icl x).
  { intros y [<-|Hy]; [lia|]. apply rsorted_cons in Swin. apply Swin. exact Hy. }
  assert (Hlastin : In (last (x :: wr) i0) (x :: wr)) by (apply last_in_item; discriminate).
  assert (Htail : forall z, In z tail -> icl z <= c).
  { intros z Hz. rewrite Er in St. change (x :: wr ++ tail) with ((x :: wr) ++ tail) in St.
    apply rsorted_app_iff in St. destruct St as (_ & _ & H). apply H; [exact Hlastin|exact Hz]. }
  (* done *)
  destruct (Z.eq_dec c (icl x)) as [Ecx|Ncx].
  - (* one cluster: the out-buffer is not touched *)
    set (kept := drop_at ps (map f wr) O).
    set (comps := map (fun k => nth k (map f wr ++ tail) i0) ps).
    set (x3 := lig_glyph (f x) comps lg).
    exists d, [], wr, tail, (x3 :: kept), c.
    split; [rewrite app_nil_r; reflexivity|]. split; [exact Er|]. split; [exact Lwr|]. split; [reflexivity|].
    assert (EL : ligate d x rest ps lg = (d ++ x3 :: kept, tail)).
    { rewrite (ligate_unfold_R d x rest ps lg St). cbv zeta. fold n. rewrite Efn, Esn. fold c. fold f.
      unfold merge_bwd. rewrite Ecx, Z.eqb_refl.
      cbn [map app hd tl].
      replace (n - 1)%nat with (length (map f wr)) by (rewrite map_length; unfold n; lia).
      rewrite firstn_app, Nat.sub_diag, firstn_all. cbn [firstn]. rewrite app_nil_r.
      rewrite skipn_app, Nat.sub_diag, skipn_all. cbn [skipn app]. reflexivity. }
    split; [exact EL|].
    destruct (lig_glyph_props (f x) comps lg) as (G1 & G2 & G3 & G4).
    assert (Efx : f x = x) by (apply merge_item_same; symmetry; exact Ecx).
    assert (Hall : forall y, In y (x :: wr) -> icl y = c).
    { intros y Hy. specialize (Hc_le y Hy). specialize (Hx_ge y Hy). lia. }
    split; [|split; [exact Htail|]].
    + cbn [app]. unfold merged_window.
      split; [intros y Hy; apply in_rev_l in Hy; rewrite (Hall y Hy); lia|].
      split; [exists x; split; [apply in_rev_r; left; reflexivity|symmetry; exact Ecx]|].
      split.
      { intros y' Hy'. apply in_rev_l in Hy'. destruct Hy' as [<-|Hy'].
        - unfold x3. rewrite G1. apply merge_item_icl.
        - apply drop_at_in in Hy'. apply in_map_iff in Hy'. destruct Hy' as (y & <- & _). apply merge_item_icl. }
      split; [intros E; apply (f_equal (@length item)) in E; rewrite rev_length in E; cbn in E; lia|].
      split; [intros z Hz; apply in_rev_l in Hz; apply Hdt; [exact Hz|left; reflexivity]|].
      split; [intros N; contradiction|].
      intros y Hy Ey Uy. apply in_rev_l in Hy. destruct Hy as [<-|Hy].
      * exists x3. split; [apply in_rev_r; left; reflexivity|]. apply G3. rewrite Efx. exact Uy.
      * assert (Efy : f y = y) by (apply merge_item_same; exact Ey).
        assert (Hy2 : In y (map f wr)) by (rewrite <- Efy; apply in_map; exact Hy).
        destruct (drop_at_or ps (map f wr) O y Hy2) as [K|(k & Hk & Lk & Ek)].
        -- exists y. split; [apply in_rev_r; right; exact K|exact Uy].
        -- exists x3. split; [apply in_rev_r; left; reflexivity|].
           apply (G4 y); [|rewrite Efx; rewrite Ey; exact Ecx|exact Uy].
           unfold comps. apply in_map_iff. exists k. split; [|exact Hk].
           rewrite Nat.sub_0_r in Ek. rewrite app_nth1 by lia. exact Ek.
    + intros HN. unfold nomult in *. rewrite Forall_forall in HN. apply Forall_forall. intros y' [<-|Hy'].
      * exact G2.
      * apply drop_at_in in Hy'. apply in_map_iff in Hy'. destruct Hy' as (y & <- & Hy).
        unfold is_multiplied, f. rewrite merge_item_gp. apply (HN y). apply in_or_app. right. right.
        rewrite Er. apply in_or_app. left. exact Hy.
  - (* several clusters: the glyphs of done that share the cluster of x are merged as well *)
    destruct (run_back (icl x) d) as (dkeep & drun & Ed & Ldr & Fdr & Tdk).
    set (kept := drop_at ps (map f wr) O).
    set (comps := map (fun k => nth k (map f wr ++ tail) i0) ps).
    set (x3 := lig_glyph (f x) comps lg).
    exists dkeep, drun, wr, tail, (map f drun ++ x3 :: kept), c.
    split; [exact Ed|]. split; [exact Er|]. split; [exact Lwr|]. split; [reflexivity|].
    assert (EL : ligate d x rest ps lg = (dkeep ++ map f drun ++ x3 :: kept, tail)).
    { rewrite (ligate_unfold_R d x rest ps lg St). cbv zeta. fold n. rewrite Efn, Esn. fold c. fold f.
      rewrite (merge_bwd_split d (icl x) c dkeep drun Ed Ldr Ncx). fold f.
      cbn [map app hd tl].
      replace (n - 1)%nat with (length (map f wr)) by (rewrite map_length; unfold n; lia).
      rewrite firstn_app, Nat.sub_diag, firstn_all. cbn [firstn]. rewrite app_nil_r.
      rewrite skipn_app, Nat.sub_diag, skipn_all. cbn [skipn app]. rewrite <- app_assoc. reflexivity. }
    split; [exact EL|].
    destruct (lig_glyph_props (f x) comps lg) as (G1 & G2 & G3 & G4).
    assert (Hc_lt : c < icl x) by (specialize (Hc_le x (or_introl eq_refl)); lia).
    (* dkeep lies strictly above the cluster of x *)
    assert (Hdk : forall z, In z dkeep -> icl x < icl z).
    { intros z Hz. assert (Hne : dkeep <> []) by (intros E; rewrite E in Hz; destruct Hz).
      specialize (Tdk Hne).
      assert (Sdk : rsorted dkeep) by (rewrite Ed in Sd; apply rsorted_app_iff in Sd; tauto).
      pose proof (rsorted_last_le _ Sdk z Hz) as H1.
      assert (H2 : icl x <= icl (last dkeep i0)).
      { apply Hdt; [rewrite Ed; apply in_or_app; left; apply last_in_item; exact Hne|left; reflexivity]. }
      lia. }
    split; [|split; [exact Htail|]].
    + unfold merged_window.
      assert (Hw : forall y, In y (drun ++ x :: wr) -> c <= icl y <= icl x).
      { intros y Hy. apply in_app_or in Hy. destruct Hy as [Hy|Hy].
        - rewrite Forall_forall in Fdr. rewrite (Fdr y Hy). lia.
        - split; [apply Hc_le; exact Hy|apply Hx_ge; exact Hy]. }
      split; [intros y Hy; apply in_rev_l in Hy; apply Hw; exact Hy|].
      split; [exists (last (x :: wr) i0); split; [apply in_rev_r; apply in_or_app; right; exact Hlastin|reflexivity]|].
      split.
      { intros y' Hy'. apply in_rev_l in Hy'. apply in_app_or in Hy'. destruct Hy' as [Hy'|[<-|Hy']].
        - apply in_map_iff in Hy'. destruct Hy' as (y & <- & _). apply merge_item_icl.
        - unfold x3. rewrite G1. apply merge_item_icl.
        - apply drop_at_in in Hy'. apply in_map_iff in Hy'. destruct Hy' as (y & <- & _). apply merge_item_icl. }
      split; [intros E; apply (f_equal (@length item)) in E; rewrite rev_length, app_length in E; cbn in E; lia|].
      split; [intros z Hz; apply in_rev_l in Hz; specialize (Hdk z Hz); lia|].
      split; [intros _ z Hz; apply in_rev_l in Hz; apply Hdk; exact Hz|].
      intros y Hy Ey Uy. apply in_rev_l in Hy.
      apply in_app_or in Hy. destruct Hy as [Hy|[<-|Hy]].
      * rewrite Forall_forall in Fdr. rewrite (Fdr y Hy) in Ey. lia.
      * lia.
      * assert (Efy : f y = y) by (apply merge_item_same; exact Ey).
        assert (Hy2 : In y (map f wr)) by (rewrite <- Efy; apply in_map; exact Hy).
        destruct (drop_at_or ps (map f wr) O y Hy2) as [K|(k & Hk & Lk & Ek)].
        -- exists y. split; [apply in_rev_r; apply in_or_app; right; right; exact K|exact Uy].
        -- exists x3. split; [apply in_rev_r; apply in_or_app; right; left; reflexivity|].
           apply (G4 y); [|rewrite Ey; symmetry; apply merge_item_icl|exact Uy].
           unfold comps. apply in_map_iff. exists k. split; [|exact Hk].
           rewrite Nat.sub_0_r in Ek. rewrite app_nth1 by lia. exact Ek.
    + intros HN. unfold nomult in *. rewrite Forall_forall in HN. apply Forall_forall. intros y' Hy'.
      apply in_app_or in Hy'. destruct Hy' as [Hy'|[<-|Hy']].
      * apply in_map_iff in Hy'. destruct Hy' as (y & <- & Hy). unfold is_multiplied, f. rewrite merge_item_gp.
        apply (HN y). apply in_or_app. left. rewrite Ed. apply in_or_app. right. exact Hy.
      * exact G2.
      * apply drop_at_in in Hy'. apply in_map_iff in Hy'. destruct Hy' as (y & <- & Hy).
        unfold is_multiplied, f. rewrite merge_item_gp. apply (HN y). apply in_or_app. right. right.
        rewrite Er. apply in_or_app. left. exact Hy.
Qed.

(* ---- the step ---- *)
Lemma rev3 (a b c : list item) : rev (a ++ b ++ c) = rev c ++ rev b ++ rev a.
Proof. rewrite !rev_app_distr, app_assoc. reflexivity. Qed.

(* every step rewrites a stretch around the cursor into glyphs of its minimum cluster *)
Lemma gstep_shape_R P d x rest : rsorted (d ++ x :: rest) -> nomult (d ++ x :: rest) ->
  exists dkeep w w' tail k c cend,
    d ++ x :: rest = dkeep ++ w ++ tail
    /\ gs_step P d (x :: rest) = (dkeep ++ firstn k w', skipn k w' ++ tail)
    /\ merged_window c cend (rev w) (rev w') (rev dkeep) /\ (forall z, In z tail -> icl z <= c) /\ nomult w'.
Proof.
  intros HS HN.
  pose proof HS as HS0. apply rsorted_app_iff in HS0. destruct HS0 as (Sd & St & Hdt).
  pose proof HN as HN0. apply nomult_app in HN0. destruct HN0 as (HNd & HNt). inversion HNt as [|? ? HNx HNr]; subst.
  assert (Next : forall x', icl x' = icl x -> (iutb x = true -> iutb x' = true) -> is_multiplied x' = is_multiplied x ->
     exists dkeep w w' tail k c cend,
      d ++ x :: rest = dkeep ++ w ++ tail
      /\ (d ++ [x'], rest) = (dkeep ++ firstn k w', skipn k w' ++ tail)
      /\ merged_window c cend (rev w) (rev w') (rev dkeep) /\ (forall z, In z tail -> icl z <= c) /\ nomult w').
  { intros x' E U M. exists d, [x], [x'], rest, 1%nat, (icl x), (icl x). split; [reflexivity|]. split; [reflexivity|].
    split; [|split].
    - cbn [rev app]. unfold merged_window.
      split; [intros y [<-|[]]; lia|]. split; [exists x; split; [left; reflexivity|reflexivity]|].
      split; [intros y' [<-|[]]; exact E|]. split; [discriminate|].
      split; [intros z Hz; apply in_rev_l in Hz; apply Hdt; [exact Hz|left; reflexivity]|].
      split; [intros N; contradiction|].
      intros y [<-|[]] _ Uy. exists x'. split; [left; reflexivity|apply U; exact Uy].
    - intros z Hz. apply rsorted_cons in St. apply St. exact Hz.
    - constructor; [|constructor]. rewrite M. exact HNx. }
  unfold gs_step. destruct (negb _); [apply (Next x); auto|].
  destruct (gs_lig P).
  - destruct (try_ligs_cases P d x rest (gs_ligs P)) as [E|[(lg & E)|(cs & ps & lg & Hcs & Em & E)]]; rewrite E.
    + apply (Next x); auto.
    + destruct (replace_with_props x lg) as (A & B & C0). apply (Next (replace_with x lg)); auto.
    + destruct (mi_bound _ _ _ _ _ Em) as [B Lp].
      assert (Hps : ps <> []) by (intros ->; cbn in Lp; destruct cs; [contradiction|discriminate]).
      assert (Hlast : (last ps O < length rest)%nat).
      { rewrite Forall_forall in B. specialize (B _ (last_in_nat ps Hps)). lia. }
      destruct (ligate_shape_R d x rest ps lg HS Hps Hlast (mi_le_last _ _ _ _ _ Em))
        as (dkeep & drun & wr & tail & w' & c & Ed & Er & Lwr & Ec & EL & MW & Ht & HNw).
      exists dkeep, (drun ++ x :: wr), w', tail, (length w'), c, (icl x).
      split; [rewrite Ed, Er; rewrite <- !app_assoc; reflexivity|].
      split; [rewrite EL, firstn_all, skipn_all; reflexivity|].
      split; [exact MW|]. split; [exact Ht|apply HNw; exact HN].
  - destruct (find _ (gs_singles P)) as [e|]; [|apply (Next x); auto].
    destruct (replace_with_props x (snd e)) as (A & B & C0). apply (Next (replace_with x (snd e))); auto.
Qed.

Lemma gstep_seq_R (dkeep w' tail : list item) k (r : list item * list item) :
  r = (dkeep ++ firstn k w', skipn k w' ++ tail) -> fst r ++ snd r = dkeep ++ w' ++ tail.
Proof. intros ->. cbn [fst snd]. rewrite <- app_assoc. f_equal. rewrite app_assoc, firstn_skipn. reflexivity. Qed.

(* ---- locality ---- *)
Lemma merge_bwd_lift d1 d2 cx c : (forall y, In y d1 -> icl y <> cx) -> merge_bwd (d1 ++ d2) cx c = d1 ++ merge_bwd d2 cx c.
Proof.
  intros H. unfold merge_bwd. destruct (c =? cx); [reflexivity|].
  rewrite rev_app_distr. rewrite (run_eq_i_app cx (rev d2) (rev d1)) by (intros z Hz; apply H; apply in_rev_l; exact Hz).
  pose proof (run_eq_i_le cx (rev d2)) as Hk. rewrite rev_length in Hk. set (k := run_eq_i cx (rev d2)) in *.
  rewrite app_length. replace (length d1 + length d2 - k)%nat with (length d1 + (length d2 - k))%nat by lia.
  rewrite firstn_app_2. rewrite skipn_app. rewrite skipn_all2 by lia.
  replace (length d1 + (length d2 - k) - length d1)%nat with (length d2 - k)%nat by lia. cbn [app]. rewrite <- app_assoc. reflexivity.
Qed.

Lemma ligate_lift_R d1 d2 x rest ps lg : rsorted (x :: rest) -> (forall y, In y d1 -> icl y <> icl x) ->
  ligate (d1 ++ d2) x rest ps lg = (d1 ++ fst (ligate d2 x rest ps lg), snd (ligate d2 x rest ps lg)).
Proof.
  intros HS H. rewrite !(ligate_unfold_R _ x rest ps lg HS). cbv zeta. cbn [fst snd].
  rewrite (merge_bwd_lift d1 d2 _ _ H). rewrite <- !app_assoc. reflexivity.
Qed.

Lemma try_ligs_lift_R P d1 d2 x rest : rsorted (x :: rest) -> (forall y, In y d1 -> icl y <> icl x) -> forall ligs,
  try_ligs P (d1 ++ d2) x rest ligs = option_map (fun r => (d1 ++ fst r, snd r)) (try_ligs P d2 x rest ligs).
Proof.
  intros HS H. induction ligs as [|[comps lg] more IH]; [reflexivity|]. cbn [try_ligs].
  destruct comps as [|first cs]; [exact IH|]. destruct (negb (first =? igid x)); [exact IH|].
  destruct cs as [|g cs]; [cbn [option_map fst snd]; rewrite <- app_assoc; reflexivity|].
  destruct (match_input (gs_match P) (g :: cs) rest O) as [ps|]; [|exact IH].
  cbn [option_map]. f_equal. apply ligate_lift_R; assumption.
Qed.

Lemma gs_step_lift_R P d1 d2 x rest : rsorted (x :: rest) -> (forall y, In y d1 -> icl y <> icl x) ->
  gs_step P (d1 ++ d2) (x :: rest) = (d1 ++ fst (gs_step P d2 (x :: rest)), snd (gs_step P d2 (x :: rest))).
Proof.
  intros HS H. unfold gs_step. destruct (negb _); [cbn [fst snd]; rewrite <- app_assoc; reflexivity|]. destruct (gs_lig P).
  - rewrite (try_ligs_lift_R P d1 d2 x rest HS H). destruct (try_ligs P d2 x rest (gs_ligs P)) as [r|]; cbn [option_map fst snd];
      [reflexivity|rewrite <- app_assoc; reflexivity].
  - destruct (find _ (gs_singles P)); cbn [fst snd]; rewrite <- app_assoc; reflexivity.
Qed.

(* a ligature whose window ends before the cut is formed in the same way on the piece *)
Lemma ligate_app_R d x r1 t2 ps lg : rsorted (x :: r1 ++ t2) -> (last ps O < length r1)%nat ->
  (forall p, In p ps -> (p <= last ps O)%nat) ->
  ligate d x (r1 ++ t2) ps lg = (fst (ligate d x r1 ps lg), snd (ligate d x r1 ps lg) ++ t2).
Proof.
  intros HS Hl Hle.
  assert (HS1 : rsorted (x :: r1)).
  { change (x :: r1 ++ t2) with ((x :: r1) ++ t2) in HS. apply rsorted_app_iff in HS. tauto. }
  rewrite (ligate_unfold_R d x (r1 ++ t2) ps lg HS), (ligate_unfold_R d x r1 ps lg HS1). cbv zeta. cbn [fst snd].
  set (n := S (S (last ps O))).
  assert (Ef0 : firstn n (x :: r1 ++ t2) = firstn n (x :: r1)).
  { change (x :: r1 ++ t2) with ((x :: r1) ++ t2). rewrite firstn_app.
    replace (n - length (x :: r1))%nat with O by (unfold n; cbn [length]; lia). cbn [firstn]. apply app_nil_r. }
  assert (Es0 : skipn n (x :: r1 ++ t2) = skipn n (x :: r1) ++ t2).
  { change (x :: r1 ++ t2) with ((x :: r1) ++ t2). rewrite skipn_app.
    replace (n - length (x :: r1))%nat with O by (unfold n; cbn [length]; lia). reflexivity. }
  rewrite Ef0, Es0. set (c := icl (last (firstn n (x :: r1)) i0)).
  rewrite (app_assoc (map (merge_item c) (firstn n (x :: r1))) (skipn n (x :: r1)) t2).
  remember (map (merge_item c) (firstn n (x :: r1)) ++ skipn n (x :: r1)) as M eqn:EM.
  assert (LM : length M = S (length r1)).
  { rewrite EM. rewrite app_length, map_length, <- app_length, firstn_skipn. reflexivity. }
  clear EM.
  destruct M as [|m0 M']; [cbn in LM; lia|]. cbn [length] in LM. assert (LM' : length M' = length r1) by lia.
  cbn [app hd tl].
  assert (Ec : map (fun k => nth k (M' ++ t2) i0) ps = map (fun k => nth k M' i0) ps).
  { apply map_ext_in. intros k Hk. specialize (Hle k Hk). apply app_nth1. lia. }
  rewrite Ec.
  assert (Ef : firstn (n - 1) (M' ++ t2) = firstn (n - 1) M').
  { rewrite firstn_app. replace (n - 1 - length M')%nat with O by (unfold n; lia). cbn [firstn]. apply app_nil_r. }
  assert (Es : skipn (n - 1) (M' ++ t2) = skipn (n - 1) M' ++ t2).
  { rewrite skipn_app. replace (n - 1 - length M')%nat with O by (unfold n; lia). reflexivity. }
  rewrite Ef, Es. reflexivity.
Qed.

Lemma try_ligs_fwd_R P d x r1 t2 : rsorted (x :: r1 ++ t2) -> forall ligs,
  try_ligs P d x (r1 ++ t2) ligs = option_map (fun r => (fst r, snd r ++ t2)) (try_ligs P d x r1 ligs)
  \/ exists cs ps lg p, cs <> [] /\ match_input (gs_match P) cs (r1 ++ t2) O = Some ps
       /\ try_ligs P d x (r1 ++ t2) ligs = Some (ligate d x (r1 ++ t2) ps lg) /\ In p ps /\ (length r1 <= p)%nat.
Proof.
  intros HS. induction ligs as [|[comps lg] more IH]; [left; reflexivity|]. cbn [try_ligs].
  destruct comps as [|first cs]; [exact IH|]. destruct (negb (first =? igid x)); [exact IH|].
  destruct cs as [|g cs]; [left; reflexivity|].
  destruct (match_input (gs_match P) (g :: cs) (r1 ++ t2) O) as [ps|] eqn:E.
  - destruct (mi_app_inv _ _ _ _ _ _ E) as [E1|(E1 & p & Hp & Lp)]; rewrite E1.
    + left. cbn [option_map]. f_equal.
      destruct (mi_bound _ _ _ _ _ E1) as [B Lps].
      assert (Hps : ps <> []) by (intros ->; cbn in Lps; discriminate).
      apply ligate_app_R; [exact HS| |exact (mi_le_last _ _ _ _ _ E1)].
      rewrite Forall_forall in B. specialize (B _ (last_in_nat ps Hps)). lia.
    + right. exists (g :: cs), ps, lg, p. split; [discriminate|]. split; [exact E|]. split; [reflexivity|]. split; [exact Hp|]. lia.
  - assert (E1 : match_input (gs_match P) (g :: cs) r1 O = None).
    { destruct (match_input (gs_match P) (g :: cs) r1 O) as [ps|] eqn:E1; [|reflexivity].
      rewrite (mi_app_some _ _ _ t2 _ _ E1) in E. discriminate. }
    rewrite E1. exact IH.
Qed.

(* ---- the contract ---- *)
Notation cutvR := (cutv icl sideR).

Lemma cutvR_spec c l r : cutvR c l r = true <-> (forall x, In x l -> c <= icl x) /\ (forall y, In y r -> icl y < c).
Proof.
  rewrite (cutv_spec icl sideR). unfold sideR. split; intros [H1 H2]; split; intros x Hx.
  - specialize (H1 x Hx). apply Z.ltb_ge in H1. exact H1.
  - specialize (H2 x Hx). apply Z.ltb_lt in H2. exact H2.
  - apply Z.ltb_ge. auto.
  - apply Z.ltb_lt. auto.
Qed.

Theorem gs_step_ok_R P : step_ok icl iutb sideR (fun l => rsorted l /\ nomult l) (gs_pass P).
Proof.
  constructor.
  - (* progress: the same in either direction *)
    intros L R d t Hne. rewrite gs_pass_step. destruct t as [|x rest]; [contradiction|].
    unfold gs_step. destruct (negb _); [cbn; lia|]. destruct (gs_lig P).
    + destruct (try_ligs_cases P d x rest (gs_ligs P)) as [E|[(lg & E)|(cs & ps & lg & Hcs & Em & E)]]; rewrite E; [cbn; lia|cbn; lia|].
      unfold ligate. destruct (merge_zip d (x :: rest) _) as [d1 t1] eqn:EM. cbn [snd].
      assert (length t1 = length (x :: rest)).
      { unfold merge_zip in EM. injection EM as _ <-. rewrite app_length, map_length, <- app_length, firstn_skipn. reflexivity. }
      rewrite skipn_length. destruct t1; cbn [tl length] in *; lia.
    + destruct (find _ (gs_singles P)); cbn; lia.
  - (* invariant *) intros L R d t Hne [HS HN]. rewrite gs_pass_step. destruct t as [|x rest]; [contradiction|].
    destruct (gstep_shape_R P d x rest HS HN) as (dkeep & w & w' & tail & k & c & cend & E1 & E2 & MW & Ht & HNw).
    rewrite (gstep_seq_R dkeep w' tail k _ E2). split.
    + unfold rsorted. rewrite rev3. apply (mw_sorted (rev tail) c cend (rev w) (rev w') (rev dkeep)); [|exact MW].
      rewrite <- rev3, <- E1. exact HS.
    + rewrite E1 in HN. apply nomult_app in HN. destruct HN as [HNd HNwt]. apply nomult_app in HNwt. destruct HNwt as [_ HNtl].
      apply nomult_app. split; [exact HNd|]. apply nomult_app. split; [exact HNw|exact HNtl].
  - (* clusters *) intros L R d t y Hne [HS HN] Hy. rewrite gs_pass_step in Hy. destruct t as [|x rest]; [contradiction|].
    destruct (gstep_shape_R P d x rest HS HN) as (dkeep & w & w' & tail & k & c & cend & E1 & E2 & MW & Ht & HNw).
    rewrite (gstep_seq_R dkeep w' tail k _ E2) in Hy. rewrite E1.
    apply in_rev_r in Hy. rewrite rev3 in Hy.
    destruct (mw_cls (rev tail) c cend (rev w) (rev w') (rev dkeep) MW y Hy) as (y0 & Hy0 & Ey0).
    exists y0. split; [|exact Ey0]. apply in_rev_l. rewrite rev3. exact Hy0.
  - (* persistence *) intros L R d t c0 Hne [HS HN] F. rewrite gs_pass_step. destruct t as [|x rest]; [contradiction|].
    destruct (gstep_shape_R P d x rest HS HN) as (dkeep & w & w' & tail & k & c & cend & E1 & E2 & MW & Ht & HNw).
    rewrite (gstep_seq_R dkeep w' tail k _ E2). rewrite E1 in F, HS.
    rewrite <- fog_rev_item, rev3. rewrite <- fog_rev_item, rev3 in F.
    apply (mw_fog (rev tail) c cend (rev w) (rev w') (rev dkeep) c0); [|exact MW|exact F].
    rewrite <- rev3. exact HS.
  - (* cut ahead *)
    intros L R R' d t1 t2 c0 Hne [HS HN] [HS1 HN1] HC _. cbv zeta. rewrite !gs_pass_step.
    destruct t1 as [|x r1]; [contradiction|]. cbn [app] in *.
    apply cutvR_spec in HC. destruct HC as [C1 C2].
    assert (St : rsorted (x :: r1 ++ t2)) by (apply rsorted_app_iff in HS; tauto).
    unfold gs_step. destruct (negb _); [right; reflexivity|].
    destruct (gs_lig P).
    + destruct (try_ligs_fwd_R P d x r1 t2 St (gs_ligs P)) as [E|(cs & ps & lg & p & Hcs & Em & E & Hp & Lp)].
      * right. rewrite E. destruct (try_ligs P d x r1 (gs_ligs P)) as [r|]; reflexivity.
      * left. rewrite E.
        destruct (mi_bound _ _ _ _ _ Em) as [B Lps].
        assert (Hps : ps <> []) by (intros ->; destruct Hp).
        assert (Hlast : (last ps O < length (r1 ++ t2))%nat).
        { rewrite Forall_forall in B. specialize (B _ (last_in_nat ps Hps)). lia. }
        pose proof (mi_le_last _ _ _ _ _ Em) as Hle.
        destruct (ligate_shape_R d x (r1 ++ t2) ps lg HS Hps Hlast Hle)
          as (dkeep & drun & wr & tail & w' & c & Ed & Er & Lwr & Ec & EL & MW & Ht & _).
        rewrite EL. cbn [fst snd].
        destruct MW as (Hw & _ & Hw' & _ & _ & Hdk & _).
        (* the window holds a glyph of t2: the first one *)
        assert (Hz0 : exists z0, In z0 t2 /\ In z0 wr).
        { assert (Lw : (length r1 < length wr)%nat) by (specialize (Hle p Hp); lia).
          assert (E0 : wr = firstn (length wr) (r1 ++ t2)).
          { rewrite Er. rewrite firstn_app, Nat.sub_diag, firstn_all. cbn [firstn]. rewrite app_nil_r. reflexivity. }
          rewrite firstn_app in E0. rewrite firstn_all2 in E0 by lia.
          destruct t2 as [|z0 t2']; [rewrite app_length in Hlast; cbn in Hlast; specialize (Hle p Hp); lia|].
          exists z0. split; [left; reflexivity|]. rewrite E0. apply in_or_app. right.
          destruct (length wr - length r1)%nat eqn:D; [lia|]. left. reflexivity. }
        destruct Hz0 as (z0 & Hz0 & Hz0w).
        assert (Hc : c < c0).
        { specialize (C2 z0 Hz0).
          assert (In z0 (rev (drun ++ x :: wr))) by (apply in_rev_r; apply in_or_app; right; right; exact Hz0w).
          specialize (Hw z0 H). lia. }
        assert (Hx : c0 <= icl x) by (apply C1; apply in_or_app; right; left; reflexivity).
        apply fog_spec. left. intros u Hu Eu.
        apply in_app_or in Hu. destruct Hu as [Hu|Hu].
        -- apply in_app_or in Hu. destruct Hu as [Hu|Hu].
           ++ assert (c <> icl x) by lia. specialize (Hdk H u (in_rev_r u dkeep Hu)). lia.
           ++ specialize (Hw' u (in_rev_r u w' Hu)). lia.
        -- specialize (Ht u Hu). lia.
    + right. destruct (find _ (gs_singles P)); reflexivity.
  - (* cut behind: the merge reaches back only over glyphs of the cluster of x, which lie behind the cut *)
    intros L L' R d1 d2 t c0 Hne [HS HN] [HS2 HN2] HC _. cbv zeta. rewrite !gs_pass_step. right.
    destruct t as [|x rest]; [contradiction|].
    apply cutvR_spec in HC. destruct HC as [C1 C2].
    assert (St : rsorted (x :: rest)) by (apply rsorted_app_iff in HS2; tauto).
    apply gs_step_lift_R; [exact St|]. intros y Hy E. specialize (C1 y Hy).
    assert (Hx : In x (d2 ++ x :: rest)) by (apply in_or_app; right; left; reflexivity).
    specialize (C2 x Hx). lia.
Qed.
