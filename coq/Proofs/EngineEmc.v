(* ensureMonotoneClusters (the safety net after substitution) delivers monotone clusters for EVERY buffer (no
   well-formedness assumed), never panics, keeps the length; every step merges a range to its minimum, so no cluster
   value is invented and the smallest one is kept. *)
From TV Require Import Model.Buffer Spec.Buffer Proofs.ShapeGlue Proofs.Buffer Proofs.BufferOps Proofs.BufferNewOps Proofs.BufferAll.
From TV Require Import Model.Engine Proofs.Engine.
From TV Require Import Proofs.EngineKeep Proofs.EngineForm.

(* ---------- pointwise view of mono / In ---------- *)

Lemma mono_intro_gat rtl : forall l,
  (forall i, 0 < i -> i < zlen l -> dirle rtl (cl (gat l (i - 1))) (cl (gat l i))) -> mono rtl (cls l) = true.
Proof.
  induction l as [|a l IH]; intros H; [reflexivity|]. destruct l as [|b l]; [reflexivity|].
  change (cls (a :: b :: l)) with (cl a :: cl b :: cls l). rewrite mono_cons2. apply andb_true_intro. split.
  - assert (B : 1 < zlen (a :: b :: l)) by (rewrite !zlen_cons; pose proof (zlen_nonneg l); lia).
    specialize (H 1 ltac:(lia) B). change (gat (a :: b :: l) 1) with b in H. change (gat (a :: b :: l) (1 - 1)) with a in H.
    unfold dirle in H. destruct rtl; apply Z.leb_le; exact H.
  - apply IH. intros i A B. rewrite zlen_cons in B.
    specialize (H (i + 1) ltac:(lia) ltac:(rewrite !zlen_cons; lia)).
    rewrite gat_cons in H by lia. replace (i + 1 - 1) with (i - 1 + 1) in H by lia. rewrite gat_cons in H by lia.
    exact H.
Qed.

Lemma in_cls_gat l x : In x (cls l) <-> exists p, 0 <= p /\ p < zlen l /\ x = cl (gat l p).
Proof.
  split.
  - intros H. unfold cls in H. apply in_map_iff in H. destruct H as (g & <- & Hg).
    destruct (In_nth l g g0 Hg) as (k & Hk & E). exists (Z.of_nat k). unfold zlen, gat. rewrite Nat2Z.id, E.
    repeat split; lia.
  - intros (p & P0 & P1 & ->). unfold cls. apply in_map. unfold gat. apply nth_In. unfold zlen in P1. lia.
Qed.

Lemma gat_slice l s e i : 0 <= s -> e <= zlen l -> 0 <= i -> i < e - s -> gat (slice s e l) i = gat l (s + i).
Proof.
  intros H0 H1 I0 I1. rewrite <- gat_zskipn by lia.
  rewrite (zskipn_slice l s (e - s)) by lia. replace (s + (e - s)) with e by lia.
  rewrite gat_app1; [reflexivity|lia|rewrite zlen_slice; lia].
Qed.

(* ---------- the backward scan ---------- *)

Lemma emc_back_spec asc inf c : forall k,
  0 <= emc_back asc inf c k <= Z.of_nat k
  /\ (forall p, emc_back asc inf c k <= p -> p < Z.of_nat k ->
        cl (gat inf p) = c \/ wrong_side asc (cl (gat inf p)) c = true)
  /\ (0 < emc_back asc inf c k ->
        cl (gat inf (emc_back asc inf c k - 1)) <> c /\ wrong_side asc (cl (gat inf (emc_back asc inf c k - 1))) c = false).
Proof.
  induction k as [|k (B & IH1 & IH2)]; cbn [emc_back].
  - split; [lia|]. split; intros; lia.
  - assert (G : gat inf (Z.of_nat k) = nth k inf g0) by (unfold gat; rewrite Nat2Z.id; reflexivity).
    destruct (Z.eqb_spec (cl (nth k inf g0)) c) as [E|N]; cbn [orb].
    + split; [lia|]. split; [|exact IH2]. intros p A1 A2.
      destruct (Z.eq_dec p (Z.of_nat k)) as [->|Np]; [left; rewrite G; exact E|apply IH1; lia].
    + destruct (wrong_side asc (cl (nth k inf g0)) c) eqn:W.
      * split; [lia|]. split; [|exact IH2]. intros p A1 A2.
        destruct (Z.eq_dec p (Z.of_nat k)) as [->|Np]; [right; rewrite G; exact W|apply IH1; lia].
      * split; [lia|]. split; [intros; lia|]. intros _.
        replace (Z.of_nat (S k) - 1) with (Z.of_nat k) by lia. rewrite G. split; [exact N|exact W].
Qed.

Lemma slice_neg {A} (l : list A) s e : e <= s -> slice s e l = [].
Proof. intros H. unfold slice, zfirstn. replace (Z.to_nat (e - s)) with 0%nat by lia. reflexivity. Qed.

Lemma gat_rev_slice l k s j : 0 <= k -> k <= s -> s <= zlen l -> 0 <= j -> j < s - k -> gat (rev (slice k s l)) j = gat l (s - 1 - j).
Proof.
  intros K0 K1 S1 J0 J1. assert (L : zlen (slice k s l) = s - k) by (rewrite zlen_slice; lia).
  unfold gat at 1. rewrite rev_nth by (unfold zlen in L; lia).
  replace (length (slice k s l) - S (Z.to_nat j))%nat with (Z.to_nat (s - k - 1 - j)) by (unfold zlen in L; lia).
  fold (gat (slice k s l) (s - k - 1 - j)). rewrite gat_slice by lia. f_equal. lia.
Qed.

(* ---------- exact effect of mergeClusters on the clusters of Info (any cursor position >= 0) ---------- *)

Lemma merge_eff b s e : (level b =? 2) = false -> 0 <= idx b -> 0 <= s -> s + 2 <= e -> e <= zlen (info b) ->
  exists b' s' e' m, merge_clusters b s e = Ok b'
    /\ 0 <= s' /\ s' <= s /\ e <= e' /\ e' <= zlen (info b)
    /\ zlen (info b') = zlen (info b) /\ idx b' = idx b /\ level b' = level b /\ have_out b' = have_out b
    /\ (forall i, 0 <= i -> i < zlen (info b) ->
          cl (gat (info b') i) = if (s' <=? i) && (i <? e') then m else cl (gat (info b) i))
    /\ (forall i, s <= i -> i < e -> m <= cl (gat (info b) i))
    /\ (exists p, s <= p /\ p < e /\ m = cl (gat (info b) p))
    /\ (forall i, s' <= i -> i <= s -> cl (gat (info b) i) = cl (gat (info b) s))
    /\ (forall i, e - 1 <= i -> i < e' -> cl (gat (info b) i) = cl (gat (info b) (e - 1)))
    /\ (s' < s -> m <> cl (gat (info b) s))
    /\ (e < e' -> m <> cl (gat (info b) (e - 1))).
Proof.
  intros Hl Hi H0 H1 H2. unfold merge_clusters.
  destruct (Z.ltb_spec (e - s) 2); [lia|]. rewrite Hl.
  destruct (Z.leb_spec 0 s); [|lia]. destruct (Z.leb_spec e (zlen (info b))); [|lia]. cbn [andb negb].
  remember (info b) as inf eqn:Einf. set (n := zlen inf) in *. set (k := idx b) in *.
  fold (gat inf s). fold (gat inf (e - 1)).
  set (cstart := cl (gat inf s)). set (cend := cl (gat inf (e - 1))).
  set (c := min_cl cstart (slice (s + 1) e inf)).
  set (ks := run_eq cstart (rev (slice k s inf))). set (ke := run_eq cend (zskipn e inf)).
  set (e' := if c =? cend then e else e + ke). set (s' := if c =? cstart then s else s - ks).
  assert (Le : zlen (zskipn e inf) = n - e) by (rewrite zlen_zskipn; lia).
  assert (Fs1 : 0 <= ks <= s /\ (k <= s -> ks <= s - k) /\ (s < k -> ks = 0)).
  { pose proof (run_eq_bound cstart (rev (slice k s inf))) as R. fold ks in R. rewrite zlen_rev in R.
    destruct (Z_le_gt_dec k s); [rewrite zlen_slice in R by lia; lia|].
    rewrite slice_neg in R by lia. cbn in R. lia. }
  assert (Fe1 : 0 <= ke <= n - e) by (pose proof (run_eq_bound cend (zskipn e inf)); lia).
  assert (Fs2 : forall i, s - ks <= i -> i <= s -> cl (gat inf i) = cstart).
  { intros i A B. destruct (Z.eq_dec i s) as [->|N]; [reflexivity|].
    assert (k <= s) by (destruct (Z_le_gt_dec k s); lia).
    pose proof (run_eq_in cstart (rev (slice k s inf)) (s - 1 - i) ltac:(lia) ltac:(fold ks; lia)) as R.
    rewrite gat_rev_slice in R by lia. replace (s - 1 - (s - 1 - i)) with i in R by lia. exact R. }
  assert (Fe2 : forall i, e - 1 <= i -> i < e + ke -> cl (gat inf i) = cend).
  { intros i A B. destruct (Z.eq_dec i (e - 1)) as [->|N]; [reflexivity|].
    pose proof (run_eq_in cend (zskipn e inf) (i - e) ltac:(lia) ltac:(fold ke; lia)) as R.
    rewrite gat_zskipn in R by lia. replace (e + (i - e)) with i in R by lia. exact R. }
  assert (Bs : 0 <= s' /\ s' <= s) by (subst s'; destruct (c =? cstart); lia).
  assert (Be : e <= e' /\ e' <= n) by (subst e'; destruct (c =? cend); lia).
  destruct (min_cl_spec cstart (slice (s + 1) e inf)) as (M1 & M2 & M3). fold c in M1, M2, M3.
  assert (Lsl : zlen (slice (s + 1) e inf) = e - (s + 1)) by (apply zlen_slice; lia).
  eexists. exists s', e', c. split; [reflexivity|]. cbn [info with_info with_out idx level have_out].
  split; [lia|]. split; [lia|]. split; [lia|]. split; [lia|].
  split; [apply zlen_map_range; lia|]. split; [reflexivity|]. split; [reflexivity|]. split; [reflexivity|].
  split; [|split; [|split; [|split; [|split; [|split]]]]].
  - intros i A B. rewrite gat_map_range by lia. destruct ((s' <=? i) && (i <? e')); [apply cl_set_cluster|reflexivity].
  - intros i A B. destruct (Z.eq_dec i s) as [->|N]; [exact M2|].
    rewrite Forall_forall in M3. apply M3. apply in_cls_gat. exists (i - (s + 1)). rewrite Lsl.
    split; [lia|]. split; [lia|]. rewrite gat_slice by lia.
    f_equal; f_equal; lia.
  - destruct M1 as [M1|M1]; [exists s; repeat split; try lia; exact M1|].
    apply in_cls_gat in M1. destruct M1 as (p & P0 & P1 & P2). rewrite Lsl in P1. rewrite gat_slice in P2 by lia.
    exists (s + 1 + p). split; [lia|]. split; [lia|]. exact P2.
  - intros i A B. subst s'. destruct (c =? cstart); [replace i with s by lia; reflexivity|apply Fs2; lia].
  - intros i A B. subst e'. destruct (c =? cend); [replace i with (e - 1) by lia; reflexivity|apply Fe2; lia].
  - intros A. subst s'. destruct (Z.eqb_spec c cstart); [lia|assumption].
  - intros A. subst e'. destruct (Z.eqb_spec c cend); [lia|assumption].
Qed.

(* merging a range to its minimum: no cluster value invented, the smallest one kept *)
Lemma merge_clusters_lkeeps b s e b' : (level b =? 2) = false -> 0 <= idx b -> 0 <= s -> s + 2 <= e -> e <= zlen (info b) ->
  merge_clusters b s e = Ok b' -> lkeeps (cls (info b)) (cls (info b')).
Proof.
  intros Hl Hi H0 H1 H2 E.
  destruct (merge_eff b s e Hl Hi H0 H1 H2)
    as (b1 & s' & e' & m & E1 & S0 & S1 & E0 & E2 & Ln & _ & _ & _ & Hcl & Mle & (q & Q0 & Q1 & Qm) & Fs & Fe & _ & _).
  rewrite E1 in E. inversion E; subst b1. clear E.
  assert (Min : In m (cls (info b))) by (apply in_cls_gat; exists q; repeat split; try lia; exact Qm).
  apply lkeeps_intro.
  - intros x Hx. apply in_cls_gat in Hx. destruct Hx as (p & P0 & P1 & ->). rewrite Ln in P1. rewrite Hcl by lia.
    destruct ((s' <=? p) && (p <? e')); [exact Min|]. apply in_cls_gat. exists p. repeat split; lia.
  - intros _. assert (Ne : cls (info b) <> []) by (intros N; rewrite N in Min; destruct Min).
    pose proof (lmin_in _ Ne) as Hin. pose proof (lmin_le m _ Min) as Hle.
    apply in_cls_gat in Hin. destruct Hin as (p & P0 & P1 & P2).
    apply in_cls_gat. rewrite Ln.
    destruct ((s' <=? p) && (p <? e')) eqn:T.
    + apply andb_prop in T. destruct T as [T1 T2]. apply Z.leb_le in T1. apply Z.ltb_lt in T2.
      assert (m <= lmin (cls (info b))).
      { rewrite P2. destruct (Z_le_gt_dec p s) as [A|A]; [rewrite (Fs p) by lia; apply Mle; lia|].
        destruct (Z_le_gt_dec (e - 1) p) as [A'|A']; [rewrite (Fe p) by lia; apply Mle; lia|apply Mle; lia]. }
      exists s. split; [lia|]. split; [lia|]. rewrite Hcl by lia.
      destruct (Z.leb_spec s' s); [|lia]. destruct (Z.ltb_spec s e'); [|lia]. cbn [andb]. lia.
    + exists p. split; [lia|]. split; [lia|]. rewrite Hcl by lia. rewrite T. exact P2.
Qed.

(* ---------- the loop ---------- *)

Lemma ws_true asc x c : wrong_side asc x c = true -> if asc then c <= x else x < c.
Proof. unfold wrong_side. destruct asc; destruct (Z.ltb_spec x c); cbn; intros; try discriminate; lia. Qed.
Lemma ws_false asc x c : wrong_side asc x c = false -> if asc then x < c else c <= x.
Proof. unfold wrong_side. destruct asc; destruct (Z.ltb_spec x c); cbn; intros; try discriminate; lia. Qed.

Definition emc_inv (asc : bool) (b0 : buffer) (j : Z) (st : buffer) : Prop :=
  zlen (info st) = zlen (info b0) /\ idx st = idx b0 /\ level st = level b0 /\ have_out st = have_out b0
  /\ (forall i, 0 < i -> i <= j -> i < zlen (info st) ->
        dirle (negb asc) (cl (gat (info st) (i - 1))) (cl (gat (info st) i)))
  /\ lkeeps (cls (info b0)) (cls (info st)).

Lemma emc_step_inv asc b0 j st : (level b0 =? 2) = false -> 0 <= idx b0 -> 0 <= j -> j < zlen (info b0) - 1 ->
  emc_inv asc b0 j st -> exists st', emc_step asc (Ok st) (j + 1) = Ok st' /\ emc_inv asc b0 (j + 1) st'.
Proof.
  intros Hl Hi0 J0 J1 (Ln & Hi & Lv & Ho & PM & K). unfold emc_step. cbn [bind]. unfold ginfo.
  fold (gat (info st) (j + 1 - 1)). fold (gat (info st) (j + 1)). replace (j + 1 - 1) with j by lia.
  set (inf := info st) in *. set (a := cl (gat inf j)). set (c := cl (gat inf (j + 1))).
  destruct ((a =? c) || Bool.eqb (a <? c) asc) eqn:T.
  - exists st. split; [reflexivity|]. split; [exact Ln|]. split; [exact Hi|]. split; [exact Lv|]. split; [exact Ho|].
    split; [|exact K]. fold inf.
    intros i A B C. destruct (Z.eq_dec i (j + 1)) as [->|N]; [|apply PM; lia].
    replace (j + 1 - 1) with j by lia. fold a c. apply orb_prop in T.
    destruct T as [T|T]; [apply Z.eqb_eq in T; rewrite T; apply dirle_refl|].
    apply Bool.eqb_prop in T. unfold dirle. destruct asc; cbn [negb]; destruct (Z.ltb_spec a c); try discriminate; lia.
  - apply orb_false_elim in T. destruct T as [T1 T2]. apply Z.eqb_neq in T1.
    assert (Wa : wrong_side asc a c = true) by (unfold wrong_side; rewrite T2; reflexivity).
    destruct (emc_back_spec asc inf c (Z.to_nat j)) as (B & Bk1 & Bk2).
    set (j0 := emc_back asc inf c (Z.to_nat j)) in *. rewrite Z2Nat.id in B, Bk1 by lia.
    assert (W : forall p, j0 <= p -> p <= j -> cl (gat inf p) = c \/ wrong_side asc (cl (gat inf p)) c = true).
    { intros p A1 A2. destruct (Z.eq_dec p j) as [->|N]; [right; exact Wa|apply Bk1; lia]. }
    assert (Hls : (level st =? 2) = false) by (rewrite Lv; exact Hl).
    assert (Hn : j + 1 + 1 <= zlen (info st)) by (fold inf; lia).
    assert (His : 0 <= idx st) by (rewrite Hi; exact Hi0).
    destruct (merge_eff st j0 (j + 1 + 1) Hls His ltac:(lia) ltac:(lia) Hn)
      as (b1 & s' & e' & m & E1 & S0 & S1 & E0 & E2 & Ln1 & Hi1 & Lv1 & Ho1 & Hcl & Mle & (q & Q0 & Q1 & Qm) & Fs & Fe & Ns & _).
    fold inf in E2, Ln1, Hcl, Mle, Qm, Fs, Fe, Ns.
    assert (K1 : lkeeps (cls inf) (cls (info b1)))
      by (apply (merge_clusters_lkeeps st j0 (j + 1 + 1) b1); auto; lia).
    exists b1. split; [exact E1|].
    (* no backward extension *)
    assert (Es : s' = j0).
    { destruct (Z.eq_dec s' j0) as [|N]; [assumption|exfalso].
      assert (P0 : 0 < j0) by lia. destruct (Bk2 P0) as [X1 X2].
      pose proof (Fs (j0 - 1) ltac:(lia) ltac:(lia)) as Eq. rewrite Eq in X1, X2.
      destruct (W j0 ltac:(lia) ltac:(lia)) as [Y|Y]; congruence. }
    subst s'.
    (* the minimum and the glyph before the range *)
    assert (Mc : m <= c) by (apply (Mle (j + 1)); lia).
    assert (Mq : m = c \/ wrong_side asc m c = true).
    { destruct (Z.eq_dec q (j + 1)) as [->|N]; [left; exact Qm|]. rewrite Qm. apply W; lia. }
    split; [congruence|]. split; [congruence|]. split; [congruence|]. split; [congruence|]. split.
    + intros i A A' C. rewrite Ln1 in C. rewrite !Hcl by lia.
      destruct (Z.leb_spec j0 (i - 1)); destruct (Z.ltb_spec (i - 1) e'); destruct (Z.leb_spec j0 i); destruct (Z.ltb_spec i e');
        cbn [andb]; try lia; try apply dirle_refl.
      * (* i = j0 *)
        assert (i = j0) by lia. subst i. destruct (Bk2 ltac:(lia)) as [X1 X2]. apply ws_false in X2.
        destruct Mq as [Mq|Mq]; [|apply ws_true in Mq]; unfold dirle; destruct asc; cbn [negb]; lia.
      * apply PM; lia.
    + eapply lkeeps_trans; [exact K|exact K1].
Qed.

Theorem ensure_monotone_clusters_monotone_keeps asc b : (level b =? 2) = false -> 0 <= idx b ->
  exists b', ensure_monotone_clusters asc b = Ok b'
    /\ mono (negb asc) (cls (info b')) = true /\ zlen (info b') = zlen (info b)
    /\ have_out b' = have_out b /\ idx b' = idx b /\ level b' = level b
    /\ lkeeps (cls (info b)) (cls (info b')).
Proof.
  intros Hl Hi. unfold ensure_monotone_clusters. rewrite Hl. cbn [orb].
  destruct (Z.ltb_spec (zlen (info b)) 2) as [Small|Big].
  - exists b. split; [reflexivity|]. split; [|repeat split; auto; apply lkeeps_refl].
    apply mono_intro_gat. intros i A B. lia.
  - destruct (fold_inv_zseq (emc_step asc) (emc_inv asc b) (fun i => i + 1) (zlen (info b) - 1) b) as (b' & E & I'); try lia.
    + intros j st Hj Inv. apply emc_step_inv; auto; lia.
    + split; [reflexivity|]. split; [reflexivity|]. split; [reflexivity|]. split; [reflexivity|].
      split; [intros; lia|apply lkeeps_refl].
    + destruct I' as (Ln & Hi' & Lv & Ho & PM & K). exists b'. split; [exact E|].
      split; [|split; [exact Ln|split; [exact Ho|split; [exact Hi'|split; [exact Lv|exact K]]]]].
      apply mono_intro_gat. intros i A B. apply PM; lia.
Qed.

(* the requested statement *)
Lemma ensure_monotone_clusters_monotone asc b : (level b =? 2) = false -> have_out b = false -> idx b = 0 ->
  exists b', ensure_monotone_clusters asc b = Ok b'
    /\ mono (negb asc) (cls (info b')) = true /\ zlen (info b') = zlen (info b)
    /\ have_out b' = false /\ idx b' = 0 /\ level b' = level b.
Proof.
  intros Hl Hh Hi. destruct (ensure_monotone_clusters_monotone_keeps asc b Hl ltac:(lia)) as (b' & E & M & Ln & Ho & Hi' & Lv & _).
  exists b'. repeat split; auto; congruence.
Qed.

Lemma ensure_monotone_clusters_lkeeps asc b b' : (level b =? 2) = false -> 0 <= idx b ->
  ensure_monotone_clusters asc b = Ok b' -> lkeeps (cls (info b)) (cls (info b')).
Proof.
  intros Hl Hi E. destruct (ensure_monotone_clusters_monotone_keeps asc b Hl Hi) as (b1 & E1 & _ & _ & _ & _ & _ & K).
  rewrite E1 in E. inversion E; subst b1. exact K.
Qed.

Print Assumptions ensure_monotone_clusters_monotone_keeps.
Print Assumptions ensure_monotone_clusters_monotone.
Print Assumptions ensure_monotone_clusters_lkeeps.
