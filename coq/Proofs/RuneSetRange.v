(* Proofs about addRangeToPage and the rune-set half of newCoveragesFromCmapRange (Model/RuneSet.v):
   addRangeToPage sets exactly the bits s..e of a 256-bit page, and coverage_from_ranges builds a rune set
   whose members are exactly the runes of the given sorted ranges. *)
From TV Require Import Lib.GoNum Lib.Res Lib.Bytes Model.RuneSet Spec.RuneSet Proofs.RuneSet.
From Coq Require Import ZifyBool.

Local Ltac zdm := Z.div_mod_to_equations.

(* ------------------------------------------------------------------ zrange *)
Lemma In_zrange k lo n : In k (zrange lo n) <-> lo <= k < lo + Z.of_nat n.
Proof.
  revert lo; induction n; intros lo; cbn [zrange In].
  - lia.
  - rewrite IHn. lia.
Qed.
Lemma forallb_zrange f lo n k : forallb f (zrange lo n) = true -> lo <= k < lo + Z.of_nat n -> f k = true.
Proof. intros H Hk. rewrite forallb_forall in H. apply H. apply In_zrange. exact Hk. Qed.

(* ------------------------------------------------------------------ the uint32 masks, by finite reflection *)
Definition mask (n b : Z) : Z := shl32 (wrap32 (shl32 1 (wrap8 n) - 1)) b.
Lemma mask_table_checked :
  forallb (fun n => forallb (fun b => if b + n <=? 32
                                      then forallb (fun j => Bool.eqb (Z.testbit (mask n b) j) ((b <=? j) && (j <? b + n)))
                                                   (zrange 0 32)
                                      else true) (zrange 0 32)) (zrange 1 32) = true.
Proof. vm_compute. reflexivity. Qed.

Lemma mask_testbit n b j : 0 <= b -> 1 <= n -> b + n <= 32 -> 0 <= j < 32 ->
  Z.testbit (mask n b) j = (b <=? j) && (j <? b + n).
Proof.
  intros Hb Hn Hbn Hj.
  assert (R1 : 1 <= n < 1 + Z.of_nat 32) by (change (Z.of_nat 32) with 32; lia).
  assert (R2 : 0 <= b < 0 + Z.of_nat 32) by (change (Z.of_nat 32) with 32; lia).
  assert (R3 : 0 <= j < 0 + Z.of_nat 32) by (change (Z.of_nat 32) with 32; lia).
  pose proof (forallb_zrange _ 1 32 n mask_table_checked R1) as T1. cbv beta in T1.
  pose proof (forallb_zrange _ 0 32 b T1 R2) as T2. cbv beta in T2.
  assert (Q : (b + n <=? 32) = true) by lia. rewrite Q in T2.
  pose proof (forallb_zrange _ 0 32 j T2 R3) as T3. cbv beta in T3.
  apply eqb_prop. exact T3.
Qed.
Lemma mask_word_ok n b : word_ok (mask n b).
Proof. unfold mask, shl32 at 1, word_ok. apply wrap32_range. Qed.
Lemma mask_0 n : wrap32 (shl32 1 (wrap8 n) - 1) = mask n 0.
Proof.
  unfold mask. generalize (shl32 1 (wrap8 n) - 1). intros z. unfold shl32. rewrite Z.shiftl_0_r.
  symmetry. apply wrap32_small, wrap32_range.
Qed.

(* ------------------------------------------------------------------ fill_ones *)
Lemma ones32_ok : word_ok ones32.
Proof. unfold word_ok, ones32. lia. Qed.
Lemma fill_ones_length p from n : length (fill_ones p from n) = length p.
Proof. revert p from; induction n; intros; cbn [fill_ones]; auto. rewrite IHn, zupd_length. reflexivity. Qed.
Lemma fill_ones_ok p from n : Forall word_ok p -> Forall word_ok (fill_ones p from n).
Proof.
  revert p from; induction n; intros; cbn [fill_ones]; auto. apply IHn. apply Forall_zupd; auto.
  intros; apply ones32_ok.
Qed.
Lemma fill_ones_znth p from n k : 0 <= from -> from + Z.of_nat n <= zlen p -> 0 <= k ->
  znth 0 (fill_ones p from n) k = if (from <=? k) && (k <? from + Z.of_nat n) then ones32 else znth 0 p k.
Proof.
  revert p from; induction n; intros p from Hf Hl Hk.
  - cbn [fill_ones]. replace ((from <=? k) && (k <? from + Z.of_nat 0)) with false by lia. reflexivity.
  - cbn [fill_ones]. rewrite IHn; [|lia|unfold zlen in *; rewrite zupd_length; lia|lia].
    rewrite znth_zupd by lia.
    destruct ((from + 1 <=? k) && (k <? from + 1 + Z.of_nat n)) eqn:E1;
      destruct ((from <=? k) && (k <? from + Z.of_nat (S n))) eqn:E2;
      destruct (k =? from) eqn:E3; auto; lia.
Qed.

(* ------------------------------------------------------------------ (1) addRangeToPage *)
Lemma add_range_to_page_spec : forall page s e,
  length page = 8%nat -> Forall word_ok page -> 0 <= s -> s <= e -> e < 256 ->
  let out := addRangeToPage page s e in
  length out = 8%nat /\ Forall word_ok out /\
  forall b, 0 <= b < 256 -> page_bit out b = page_bit page b || ((s <=? b) && (b <=? e)).
Proof.
  intros page s e L F Hs Hse He. cbv zeta. unfold addRangeToPage.
  rewrite !Z.shiftr_div_pow2 by lia. rewrite !land_31. change (2 ^ 5) with 32.
  pose proof (Z.div_mod s 32 ltac:(lia)) as Ds. pose proof (Z.mod_pos_bound s 32 ltac:(lia)) as Bs.
  pose proof (Z.div_mod e 32 ltac:(lia)) as De. pose proof (Z.mod_pos_bound e 32 ltac:(lia)) as Be.
  set (uis := s / 32) in *. set (bis := s mod 32) in *. set (uie := e / 32) in *. set (bie := e mod 32) in *.
  clearbody uis bis uie bie.
  assert (ZL : zlen page = 8) by (unfold zlen; lia).
  destruct (uie =? uis) eqn:E.
  - fold (mask (bie - bis + 1) bis).
    split; [rewrite zupd_length; exact L|].
    split; [apply Forall_zupd; auto; intros; apply word_ok_lor; auto; apply mask_word_ok|].
    intros b Hb. unfold page_bit.
    pose proof (Z.div_mod b 32 ltac:(lia)) as Db. pose proof (Z.mod_pos_bound b 32 ltac:(lia)) as Bb.
    set (k := b / 32) in *. set (j := b mod 32) in *. clearbody k j.
    rewrite znth_zupd by lia.
    destruct (k =? uis) eqn:E1.
    + assert (k = uis) by lia. subst k. rewrite Z.lor_spec, mask_testbit by lia.
      generalize (Z.testbit (znth 0 page uis) j). intros t. lia.
    + generalize (Z.testbit (znth 0 page k) j). intros t. lia.
  - fold (mask (31 - bis + 1) bis). rewrite mask_0.
    set (p1 := zupd page uis (fun w => Z.lor w (mask (31 - bis + 1) bis))).
    set (p2 := fill_ones p1 (uis + 1) (Z.to_nat (uie - (uis + 1)))).
    assert (L1 : length p1 = 8%nat) by (unfold p1; rewrite zupd_length; exact L).
    assert (L2 : length p2 = 8%nat) by (unfold p2; rewrite fill_ones_length; exact L1).
    assert (F1 : Forall word_ok p1).
    { unfold p1. apply Forall_zupd; auto. intros; apply word_ok_lor; auto; apply mask_word_ok. }
    assert (F2 : Forall word_ok p2) by (unfold p2; apply fill_ones_ok; exact F1).
    split; [rewrite zupd_length; exact L2|].
    split; [apply Forall_zupd; auto; intros; apply word_ok_lor; auto; apply mask_word_ok|].
    intros b Hb. unfold page_bit.
    pose proof (Z.div_mod b 32 ltac:(lia)) as Db. pose proof (Z.mod_pos_bound b 32 ltac:(lia)) as Bb.
    set (k := b / 32) in *. set (j := b mod 32) in *. clearbody k j.
    rewrite znth_zupd by (unfold zlen; lia).
    unfold p2. rewrite !fill_ones_znth by (unfold zlen; lia).
    unfold p1. rewrite !znth_zupd by lia.
    repeat match goal with
           | |- context [if ?c then _ else _] => destruct c eqn:?
           end; try lia;
      try (assert (k = uie) by lia; subst k); try (assert (k = uis) by lia; subst k);
      rewrite ?Z.lor_spec, ?mask_testbit, ?ones32_testbit by lia;
      match goal with
      | |- context [Z.testbit (znth 0 page ?kk) j] => generalize (Z.testbit (znth 0 page kk) j); intros t; lia
      end.
Qed.

(* ------------------------------------------------------------------ membership helpers *)
Lemma set_bit_page_bit s x : set_bit s x = page_bit s (x mod 256).
Proof.
  unfold set_bit, page_bit. rewrite word_idx_eq, bit_idx_eq.
  replace ((x mod 256) mod 32) with (x mod 32) by (zdm; lia). reflexivity.
Qed.
Lemma page_bit_zero b : 0 <= b < 256 -> page_bit zero_set b = false.
Proof.
  intros Hb. replace b with (b mod 256) by (apply Z.mod_small; lia).
  rewrite <- set_bit_page_bit. apply set_bit_zero.
Qed.
Lemma set_bit_full x : set_bit full_set x = true.
Proof.
  unfold set_bit. pose proof (word_idx_range x) as W. pose proof (bit_idx_range x) as Bx.
  assert (E : znth 0 full_set (word_idx x) = ones32).
  { unfold znth. destruct (word_idx x <? 0) eqn:E; [lia|].
    destruct (Z.to_nat (word_idx x)) as [|[|[|[|[|[|[|[|n]]]]]]]] eqn:E1; simpl; auto. lia. }
  rewrite E, ones32_testbit by lia. lia.
Qed.
Lemma full_set_ok : length full_set = 8%nat /\ Forall word_ok full_set.
Proof. split; [reflexivity|]. unfold full_set. repeat constructor; apply ones32_ok. Qed.

Lemma get_app l1 l2 ref : get (l1 ++ l2) ref = match get l1 ref with Some s => Some s | None => get l2 ref end.
Proof. induction l1; simpl; auto. destruct (p_ref a =? ref); auto. Qed.
Lemma mem_app_lo l1 l2 lo x : Forall (fun q => lo <= p_ref q) l2 -> rune_ref x < lo -> mem (l1 ++ l2) x = mem l1 x.
Proof.
  intros F H. unfold mem. rewrite get_app. destruct (get l1 (rune_ref x)); auto.
  rewrite get_none; auto. eapply Forall_impl; [|exact F]. simpl; intros; lia.
Qed.
Lemma mem_app_hi l1 l2 lo x : Forall (fun q => p_ref q < lo) l1 -> lo <= rune_ref x -> mem (l1 ++ l2) x = mem l2 x.
Proof.
  intros F H. unfold mem. rewrite get_app. rewrite (get_none l1); auto.
  eapply Forall_impl; [|exact F]. simpl; intros; lia.
Qed.
Lemma mem_hi l lo x : Forall (fun q => p_ref q < lo) l -> lo <= rune_ref x -> mem l x = false.
Proof.
  intros F H. unfold mem. rewrite get_none; auto. eapply Forall_impl; [|exact F]. simpl; intros; lia.
Qed.
Lemma mem_single ps S x : mem [mkPage ps S] x = (ps =? rune_ref x) && set_bit S x.
Proof. unfold mem. simpl. destruct (ps =? rune_ref x); reflexivity. Qed.

(* all refs of a sorted list ending in p are below p_ref p + 1 *)
Lemma sorted_snoc_bound lo l p : sorted_from lo (l ++ [p]) -> Forall (fun q => p_ref q < p_ref p + 1) (l ++ [p]).
Proof.
  intros H. apply sorted_split in H. destruct H as [H _]. apply Forall_app; split.
  - eapply Forall_impl; [|exact H]. simpl; intros; lia.
  - constructor; [lia|constructor].
Qed.
Lemma inv_snoc l ps S : inv l -> Forall (fun q => p_ref q < ps) l -> 0 <= ps < 65536 ->
  length S = 8%nat -> Forall word_ok S -> inv (l ++ [mkPage ps S]).
Proof.
  intros [H1 H2] F Hps L W. split.
  - apply sorted_from_app. split; auto. exists ps. split; [simpl; split; [lia|auto]|]. split; [lia|auto].
  - apply Forall_app; split; auto. constructor; [|constructor]. split; [simpl; lia|]. split; auto.
Qed.

(* the block of full pages *)
Lemma get_fulls lo n r : get (map (fun i => mkPage i full_set) (zrange lo n)) r
  = if (lo <=? r) && (r <? lo + Z.of_nat n) then Some full_set else None.
Proof.
  revert lo; induction n; intros lo; cbn [zrange map get].
  - replace ((lo <=? r) && (r <? lo + Z.of_nat 0)) with false by lia. reflexivity.
  - cbn [p_ref p_set]. rewrite IHn. destruct (lo =? r) eqn:E.
    + replace ((lo <=? r) && (r <? lo + Z.of_nat (S n))) with true by lia. reflexivity.
    + destruct ((lo + 1 <=? r) && (r <? lo + 1 + Z.of_nat n)) eqn:E1;
        destruct ((lo <=? r) && (r <? lo + Z.of_nat (S n))) eqn:E2; auto; lia.
Qed.
Lemma sorted_fulls lo n pe S : lo + Z.of_nat n <= pe ->
  sorted_from lo (map (fun i => mkPage i full_set) (zrange lo n) ++ [mkPage pe S]).
Proof.
  revert lo; induction n; intros lo H; cbn [zrange map app sorted_from p_ref].
  - split; [lia|exact I].
  - split; [lia|]. apply IHn. lia.
Qed.

Lemma inv_snoc_inv l ps S : inv (l ++ [mkPage ps S]) ->
  inv l /\ Forall (fun q => p_ref q < ps) l /\ 0 <= ps < 65536 /\ length S = 8%nat /\ Forall word_ok S.
Proof.
  intros [H1 H2]. pose proof (sorted_split _ _ _ _ H1) as [F1 _]. simpl in F1.
  pose proof (sorted_from_all _ _ H1) as A. apply Forall_app in A as [_ A]. inversion A as [|? ? A1 _]; subst. simpl in A1.
  apply sorted_from_app in H1 as [H1 _]. apply Forall_app in H2 as [H2 H3].
  inversion H3 as [|? ? [P1 [P2 P3]] _]; subst. simpl in *.
  repeat split; auto; lia.
Qed.

Lemma mem_app_zero l ps x : Forall (fun q => p_ref q < ps) l -> mem (l ++ [mkPage ps zero_set]) x = mem l x.
Proof.
  intros F. rewrite mem_at by (simpl; apply Forall_lt_ne; auto). simpl p_ref; simpl p_set. rewrite app_nil_r.
  destruct (rune_ref x =? ps) eqn:E; auto. rewrite set_bit_zero. symmetry. apply (mem_hi l ps); auto. lia.
Qed.

Lemma last_page_update l ps S0 sb ec x :
  Forall (fun q => p_ref q < ps) l -> length S0 = 8%nat -> Forall word_ok S0 ->
  0 <= sb -> sb <= ec -> ec < 256 -> rune_ok x ->
  mem (l ++ [mkPage ps (addRangeToPage S0 sb ec)]) x
  = mem (l ++ [mkPage ps S0]) x || ((256 * ps + sb <=? x) && (x <=? 256 * ps + ec)).
Proof.
  intros F L W H1 H2 H3 Hx. rewrite !mem_at by (simpl; apply Forall_lt_ne; auto). simpl p_ref; simpl p_set.
  rewrite rune_ref_eq by auto.
  pose proof (Z.div_mod x 256 ltac:(lia)) as D. pose proof (Z.mod_pos_bound x 256 ltac:(lia)) as Bm.
  destruct (x / 256 =? ps) eqn:E.
  - rewrite !set_bit_page_bit. destruct (add_range_to_page_spec S0 sb ec L W H1 H2 H3) as [_ [_ Hb]].
    rewrite Hb by lia. generalize (page_bit S0 (x mod 256)). intros t. lia.
  - generalize (mem (l ++ []) x). intros t. lia.
Qed.

Lemma stage2 rs1 ps pe eb : inv rs1 -> Forall (fun q => p_ref q < ps + 1) rs1 -> 0 <= ps -> ps < pe -> pe < 65536 ->
  0 <= eb < 256 ->
  let rs2 := rs1 ++ map (fun i => mkPage i full_set) (zrange (ps + 1) (Z.to_nat (pe - (ps + 1))))
                 ++ [mkPage pe (addRangeToPage zero_set 0 eb)] in
  inv rs2 /\ forall x, rune_ok x -> mem rs2 x = mem rs1 x || ((256 * (ps + 1) <=? x) && (x <=? 256 * pe + eb)).
Proof.
  intros [I1 I2] F Hps Hpe Hpe2 Heb rs2.
  destruct zero_set_ok as [ZL ZW].
  destruct (add_range_to_page_spec zero_set 0 eb ZL ZW ltac:(lia) ltac:(lia) ltac:(lia)) as [LA [WA BA]].
  set (S := addRangeToPage zero_set 0 eb) in *.
  assert (SN : sorted_from (ps + 1) (map (fun i => mkPage i full_set) (zrange (ps + 1) (Z.to_nat (pe - (ps + 1)))) ++ [mkPage pe S]))
    by (apply sorted_fulls; lia).
  split.
  - split.
    + apply sorted_from_app. split; auto. exists (ps + 1). split; auto. split; [lia|auto].
    + apply Forall_app; split; auto. apply Forall_app; split.
      * apply Forall_forall. intros q Hq. apply in_map_iff in Hq. destruct Hq as [i [<- Hi]].
        apply In_zrange in Hi. split; [simpl; lia|]. apply full_set_ok.
      * constructor; [|constructor]. split; [simpl; lia|]. split; auto.
  - intros x Hx. pose proof (rune_ref_eq x Hx) as R.
    pose proof (Z.div_mod x 256 ltac:(lia)) as D. pose proof (Z.mod_pos_bound x 256 ltac:(lia)) as Bm.
    destruct (Z_lt_dec (x / 256) (ps + 1)) as [Hlt|Hge].
    + unfold rs2. rewrite (mem_app_lo _ _ (ps + 1)); [|apply sorted_from_all; exact SN|lia].
      generalize (mem rs1 x). intros t. lia.
    + unfold rs2. rewrite (mem_app_hi _ _ (ps + 1)); [|auto|lia]. rewrite (mem_hi rs1 (ps + 1)); [|auto|lia].
      cbn [orb]. unfold mem. rewrite get_app, get_fulls, R.
      destruct ((ps + 1 <=? x / 256) && (x / 256 <? ps + 1 + Z.of_nat (Z.to_nat (pe - (ps + 1))))) eqn:E.
      * rewrite set_bit_full. lia.
      * cbn [get p_ref p_set]. destruct (pe =? x / 256) eqn:E1.
        -- rewrite set_bit_page_bit, BA, page_bit_zero by lia. lia.
        -- lia.
Qed.

(* ------------------------------------------------------------------ one range *)
Lemma ok_nonempty (rs2 : RuneSet) : rs2 <> [] -> match rs2 with [] => @Panic RuneSet 1 | _ :: _ => Ok rs2 end = Ok rs2.
Proof. destruct rs2; congruence. Qed.

Lemma cov_step_spec (first : bool) (rs : RuneSet) (a b : Z) : 0 <= a -> a <= b -> b < 16777216 -> inv rs ->
  (if first then rs = [] else exists (l : RuneSet) (p : runePage), rs = l ++ [p] /\ p_ref p <= a / 256) ->
  exists l' p', cov_step first rs (a, b) = Ok (l' ++ [p']) /\ inv (l' ++ [p']) /\ p_ref p' = b / 256 /\
                forall x, rune_ok x -> mem (l' ++ [p']) x = mem rs x || ((a <=? x) && (x <=? b)).
Proof.
  intros Ha Hab Hb I Hrs. unfold cov_step.
  rewrite !Z.shiftr_div_pow2 by lia. change (2 ^ 8) with 256. rewrite !land_255.
  pose proof (Z.div_mod a 256 ltac:(lia)) as Da. pose proof (Z.mod_pos_bound a 256 ltac:(lia)) as Ba.
  pose proof (Z.div_mod b 256 ltac:(lia)) as Db. pose proof (Z.mod_pos_bound b 256 ltac:(lia)) as Bb.
  set (ps := a / 256) in *. set (sb := a mod 256) in *. set (pe := b / 256) in *. set (eb := b mod 256) in *.
  clearbody ps sb pe eb.
  rewrite (wrap16_small ps), (wrap16_small pe) by lia.
  set (ec := if pe =? ps then eb else 255).
  assert (Eec : ec = if pe =? ps then eb else 255) by reflexivity. clearbody ec.
  assert (Hec : sb <= ec < 256 /\ (pe = ps -> ec = eb) /\ (pe <> ps -> ec = 255)) by (destruct (pe =? ps) eqn:E; lia).
  clear Eec. destruct Hec as [Hec [Hec1 Hec2]].
  destruct zero_set_ok as [ZL ZW].
  set (rs1 := if negb first && (ps =? p_ref (last rs dpage)) then _ else _).
  assert (S1 : exists l1 S1, rs1 = l1 ++ [mkPage ps S1] /\ inv (l1 ++ [mkPage ps S1]) /\
                 forall x, rune_ok x -> mem (l1 ++ [mkPage ps S1]) x = mem rs x || ((a <=? x) && (x <=? 256 * ps + ec))).
  { destruct (add_range_to_page_spec zero_set sb ec ZL ZW ltac:(lia) ltac:(lia) ltac:(lia)) as [LA [WA _]].
    unfold rs1. destruct first.
    - subst rs. cbn [negb andb]. exists [], (addRangeToPage zero_set sb ec). split; [reflexivity|].
      split; [apply inv_snoc; auto; lia|].
      intros x Hx. rewrite last_page_update by (auto; lia). rewrite mem_app_zero by auto.
      generalize (mem [] x). intros t. lia.
    - destruct Hrs as [l [p [-> Hp]]]. rewrite last_last. cbn [negb andb]. destruct p as [pr S0]. cbn [p_ref] in *.
      destruct (inv_snoc_inv _ _ _ I) as [Il [Fl [Hpr [L0 W0]]]].
      destruct (ps =? pr) eqn:E.
      + assert (pr = ps) by lia. subst pr.
        replace (zlen (l ++ [mkPage ps S0]) - 1) with (zlen l) by (rewrite zlen_app, zlen_cons, zlen_nil; lia).
        rewrite zupd_app. cbn [p_ref p_set].
        destruct (add_range_to_page_spec S0 sb ec L0 W0 ltac:(lia) ltac:(lia) ltac:(lia)) as [LB [WB _]].
        exists l, (addRangeToPage S0 sb ec). split; [reflexivity|]. split; [apply inv_snoc; auto|].
        intros x Hx. rewrite last_page_update by (auto; lia).
        generalize (mem (l ++ [mkPage ps S0]) x). intros t. lia.
      + assert (Fr : Forall (fun q => p_ref q < ps) (l ++ [mkPage pr S0])).
        { destruct I as [I1 _]. apply sorted_snoc_bound in I1. eapply Forall_impl; [|exact I1]. simpl; intros; lia. }
        exists (l ++ [mkPage pr S0]), (addRangeToPage zero_set sb ec). split; [reflexivity|].
        split; [apply inv_snoc; auto; lia|].
        intros x Hx. rewrite last_page_update by (auto; lia). rewrite mem_app_zero by auto.
        generalize (mem (l ++ [mkPage pr S0]) x). intros t. lia. }
  clearbody rs1. destruct S1 as [l1 [S1 [-> [I1 M1]]]].
  destruct (pe =? ps) eqn:Epe.
  - rewrite ok_nonempty by (intros C; symmetry in C; apply app_cons_not_nil in C; exact C).
    exists l1, (mkPage ps S1). split; [reflexivity|]. split; auto. split; [simpl; lia|].
    intros x Hx. rewrite M1 by auto. generalize (mem rs x). intros t. lia.
  - rewrite (wrap16_small (ps + 1)) by lia.
    destruct (inv_snoc_inv _ _ _ I1) as [_ [_ [Hps _]]].
    assert (F1 : Forall (fun q => p_ref q < ps + 1) (l1 ++ [mkPage ps S1])).
    { destruct I1 as [I1 _]. apply sorted_snoc_bound in I1. exact I1. }
    destruct (stage2 (l1 ++ [mkPage ps S1]) ps pe eb I1 F1 ltac:(lia) ltac:(lia) ltac:(lia) ltac:(lia)) as [I2 M2].
    set (fulls := map (fun i => mkPage i full_set) (zrange (ps + 1) (Z.to_nat (pe - (ps + 1))))) in *.
    set (lp := mkPage pe (addRangeToPage zero_set 0 eb)) in *.
    rewrite (app_assoc (l1 ++ [mkPage ps S1]) fulls [lp]) in *.
    rewrite ok_nonempty by (intros C; symmetry in C; apply app_cons_not_nil in C; exact C).
    exists ((l1 ++ [mkPage ps S1]) ++ fulls), lp. split; [reflexivity|]. split; auto. split; [reflexivity|].
    intros x Hx. rewrite M2, M1 by auto. generalize (mem rs x). intros t. lia.
Qed.

(* ------------------------------------------------------------------ all ranges *)
Lemma cov_loop_spec ranges : forall lo l p, ranges_sorted_from lo ranges = true -> 0 <= lo ->
  inv (l ++ [p]) -> p_ref p <= lo / 256 ->
  exists rs, cov_loop false (l ++ [p]) ranges = Ok rs /\ inv rs /\
             forall x, rune_ok x -> mem rs x = mem (l ++ [p]) x || in_ranges ranges x.
Proof.
  induction ranges as [|[a b] rest IH]; intros lo l p Hs Hlo I Hp.
  - exists (l ++ [p]). split; [reflexivity|]. split; auto. intros x _. simpl. rewrite orb_false_r. reflexivity.
  - cbn [ranges_sorted_from] in Hs.
    apply andb_true_iff in Hs as [Hs Hs4]. apply andb_true_iff in Hs as [Hs Hs3]. apply andb_true_iff in Hs as [Hs1 Hs2].
    assert (Hpa : p_ref p <= a / 256) by (zdm; lia).
    destruct (cov_step_spec false (l ++ [p]) a b ltac:(lia) ltac:(lia) ltac:(lia) I
                (ex_intro _ l (ex_intro _ p (conj eq_refl Hpa)))) as [l' [p' [E [I' [Hp' M']]]]].
    cbn [cov_loop]. rewrite E. cbn [bind].
    destruct (IH (b + 1) l' p' Hs4 ltac:(lia) I' ltac:(zdm; lia)) as [rs [E2 [I2 M2]]].
    exists rs. split; auto. split; auto.
    intros x Hx. rewrite M2, M' by auto. cbn [in_ranges existsb fst snd]. rewrite orb_assoc. reflexivity.
Qed.

(* (2) *)
Lemma coverage_from_ranges_exact : forall ranges, ranges_ok ranges = true ->
  exists rs, coverage_from_ranges ranges = Ok rs /\ inv rs /\
             forall x, rune_ok x -> rsContains rs x = Ok (in_ranges ranges x).
Proof.
  intros ranges H. unfold coverage_from_ranges.
  assert (G : exists rs, cov_loop true [] ranges = Ok rs /\ inv rs /\ forall x, rune_ok x -> mem rs x = in_ranges ranges x).
  { destruct ranges as [|[a b] rest].
    - exists []. split; [reflexivity|]. split; [apply inv_nil|]. intros; reflexivity.
    - unfold ranges_ok in H. cbn [ranges_sorted_from] in H.
      apply andb_true_iff in H as [H H4]. apply andb_true_iff in H as [H H3]. apply andb_true_iff in H as [H1 H2].
      destruct (cov_step_spec true [] a b ltac:(lia) ltac:(lia) ltac:(lia) inv_nil eq_refl) as [l' [p' [E [I' [Hp' M']]]]].
      cbn [cov_loop]. rewrite E. cbn [bind].
      destruct (cov_loop_spec rest (b + 1) l' p' H4 ltac:(lia) I' ltac:(zdm; lia)) as [rs [E2 [I2 M2]]].
      exists rs. split; auto. split; auto.
      intros x Hx. rewrite M2, M' by auto. cbn [in_ranges existsb fst snd]. reflexivity. }
  destruct G as [rs [E [I M]]]. exists rs. split; auto. split; auto.
  intros x Hx. rewrite contains_spec by auto. rewrite M by auto. reflexivity.
Qed.
