(* C03 / C04 after the repair of finding F37 (fix: the grapheme fallback of wrapNextLine uses the UAX #14 option when it
   finds no grapheme boundary): for EVERY break policy
   * a WrapNextLine call that leaves the wrapper live returns a non-nil line (no_live_nil is a theorem, not a hypothesis);
   * the line iterator never runs past a valid UAX #14 boundary beyond the line start without marking it for re-issue
     (WI of Proofs/WrapWidth.v is an invariant of every call sequence after Prepare).
   The invariant threaded through the two loops: every valid boundary (line flag + cluster boundary of every run, judged
   on the store skeleton) beyond the end of the best line is still ahead of the line iterator or pending re-issue; the
   best line never shrinks; the UAX #14 option handed to the grapheme loop was accepted by isValid, so processing it
   again at the end of the loop cannot be rejected (HBI: a rejected option lies inside a cluster). *)
From TV Require Import Model.Wrap Spec.Wrap Spec.WrapCut Proofs.Wrap Proofs.WrapCut Proofs.WrapLines Proofs.WrapTotal
  Proofs.WrapStore Proofs.WrapMand Proofs.WrapMand2 Proofs.WrapTrunc Proofs.WrapWidth.

Section Valid.
Variables (n : Z) (attrs : list Z) (st0 : store) (rs : list out).

Local Notation lbV := (lbV attrs st0 rs).
Local Notation gbV := (gbV attrs st0 rs).
Local Notation SK := (SK attrs st0 rs).

(* the grapheme side, relative to the end e of the best line (the next line start): no valid grapheme boundary beyond e
   has been handed out, and what nextGraphemeBreak will skip (up to previousWordBreak; after the next read of the line
   iterator: up to unusedWordBreak) lies at or before e *)
Definition GP (e : Z) (b : breaker) : Prop :=
  (forall q, e < q <= n -> gbV q -> UG b q)
  /\ (fst (b_prevW b) + 1 <= e \/ fst (b_prevW b) <= 0)
  /\ (b_isUnusedW b = false -> fst (b_unusedW b) + 1 <= e \/ fst (b_unusedW b) <= 0).

(* on return from a loop: when the call will return "not done" outside the truncating line, a best line exists and every
   valid boundary beyond it is ahead of the iterator or pending *)
Definition PostV (lc : line_cfg) (w' : W) (d : bool) : Prop :=
  d = false -> lc_truncating lc = false ->
  has_best w' = true /\ (forall p, best_end w' < p -> lbV p -> U (w_br w') p) /\ GP (best_end w') (w_br w').

Lemma SK_CB : forall w p, SK w -> CBall st0 rs p -> CBall (w_st w) (w_runs w) p.
Proof. intros w p (K1 & K2 & _) H. rewrite K2. apply (CBall_sk st0); [symmetry; exact K1|exact H]. Qed.
Lemma SK_CB' : forall w p, SK w -> CBall (w_st w) (w_runs w) p -> CBall st0 rs p.
Proof. intros w p (K1 & K2 & _) H. rewrite K2 in H. apply (CBall_sk (w_st w)); [exact K1|exact H]. Qed.

Lemma inner_V : forall fuel w wopt lc w' d,
  JT n w -> OrdI w -> 1 <= b_wpos (w_br w) <= n -> fst (b_unusedW (w_br w)) = b_wpos (w_br w) - 1 ->
  fst wopt = b_wpos (w_br w) - 1 -> XI n w -> SK w ->
  (forall p, best_end w < p -> lbV p -> b_wpos (w_br w) <= p) ->
  (has_best w = true -> best_end w <= fst (b_prevW (w_br w)) + 1 \/ best_end w <= fst (b_unusedG (w_br w)) + 1) ->
  (b_isUnusedW (w_br w) = true \/ has_best w = false \/ lc_truncating lc = true) ->
  (lc_truncating lc = false -> has_best w = false -> CBall st0 rs (fst wopt + 1) /\ w_start w <= fst wopt) ->
  (forall q, best_end w < q <= n -> gbV q -> UG (w_br w) q) ->
  (fst (b_prevW (w_br w)) + 1 <= best_end w \/ fst (b_prevW (w_br w)) <= 0) ->
  inner_loop fuel w wopt lc = Ok (w', d) -> PostV lc w' d.
Proof.
  induction fuel as [|fuel IH]; intros w wopt lc w' d HT HO HW HU HWo HX HK Ki OB Fi Vw Gg Pp H; cbn [inner_loop] in H; [discriminate|].
  destruct (JT_checkpoint n w HT) as (T1 & Csv & Calt & Cbe & Cbr & Cbest).
  pose proof (best_end_ge n w (proj1 HT)) as BG.
  pose proof (XI_checkpoint n w HX) as XC1.
  assert (St1 : w_st (checkpoint w) = w_st w) by (destruct w; reflexivity).
  assert (Rn1 : w_runs (checkpoint w) = w_runs w) by (destruct w; reflexivity).
  set (w1 := checkpoint w) in *.
  destruct (next_grapheme_break (br_fuel w1) (w_br w1)) as [[b1 ro]| | |] eqn:NG; cbn [bind fst snd] in H; try discriminate.
  pose proof T1 as ((_ & B1 & _) & _).
  destruct (ngb_spec n _ _ _ _ B1 NG) as (Bb1 & SW & UGm & X & Y). rewrite Cbr in SW, UGm, X, Y.
  destruct SW as (S1 & S2 & S3 & S4 & S5).
  pose proof (JT_set_br n w1 b1 T1 Bb1) as T2.
  destruct (set_br_proj w1 b1) as (Q1 & Q2 & Q3 & Q4 & Q5).
  assert (Q6 : best_end (set_br w1 b1) = best_end w) by (rewrite best_end_set_br; exact Cbe).
  assert (Q7 : w_start w1 = w_start w) by (destruct w; reflexivity).
  pose proof (XI_set_br n w1 b1 XC1) as XC2.
  assert (St2 : w_st (set_br w1 b1) = w_st w) by (rewrite <- St1; destruct w1; reflexivity).
  assert (Rn2 : w_runs (set_br w1 b1) = w_runs w) by (rewrite <- Rn1; destruct w1; reflexivity).
  set (w2 := set_br w1 b1) in *.
  rewrite Calt in Q1. rewrite Csv in Q5. rewrite Cbest in Q4. rewrite Q7 in Q3.
  destruct (Bk_ug_n n _ Bb1) as (G1 & G2 & G3).
  pose proof Bb1 as (_ & _ & _ & Hpw1 & _).
  set (b := w_br w) in *.
  (* what nextGraphemeBreak did to the pending valid grapheme boundaries beyond the best line *)
  assert (GUx : forall q, best_end w < q <= n -> gbV q ->
            match ro with
            | Some o => q = fst o + 1 \/ (fst o + 1 < q /\ UG b1 q)
            | None => UG b1 q /\ fst (b_unusedW b) + 1 < q
            end).
  { intros q Hq Hv.
    pose proof (ngb_U n _ _ _ _ B1 NG q ltac:(lia) ltac:(rewrite Cbr; destruct HK as (_ & _ & K3); fold b in K3; rewrite K3; exact (proj1 Hv))
                  ltac:(rewrite Cbr; apply Gg; assumption)) as Q.
    rewrite Cbr in Q. fold b in Q. destruct Q as [[Qa Qb]|Q]; [exfalso; lia|exact Q]. }
  destruct ro as [opt|].
  2:{ (* the end of the loop *)
      cbv beta iota zeta in H.
      assert (Rw2 : restore w2 = w2) by (unfold w2, w1; destruct w as [? ? ? ? ? ? ? ? ? [? ? ? ? ?] ?]; reflexivity).
      unfold word_fallback in H.
      destruct (negb (lc_truncating lc) && negb (has_best w2)) eqn:FB.
      2:{ injection H as <- <-. intros _ Hlc. rewrite Hlc in FB. cbn [negb andb] in FB. apply negb_false_iff in FB.
          split; [exact FB|]. rewrite (has_best_same w w2 Q4) in FB.
          destruct Fi as [Fi|[Fi|Fi]]; [|congruence|congruence].
          split.
          - intros p Hp Hv. rewrite Q6 in Hp. rewrite Q2.
            apply U_intro; [rewrite S1; apply Ki; assumption|rewrite S4; exact Fi].
          - rewrite Q6, Q2. split; [intros q Hq Hv; exact (proj1 (GUx q Hq Hv))|]. split; [rewrite S3; exact Pp|].
            rewrite S4. intros Q. congruence. }
      apply andb_prop in FB. destruct FB as [FB1 FB2]. apply negb_true_iff in FB1, FB2.
      rewrite (has_best_same w w2 Q4) in FB2. rewrite Rw2 in H.
      destruct (Vw FB1 FB2) as [V1 V2].
      assert (Hord : s_alt (w_sc w2) <> [] -> lend (w_start w2) (s_alt (w_sc w2)) <= fst wopt).
      { rewrite Q1. rewrite (JT_no_best_alt n w HT FB2). congruence. }
      destruct (pbo_safe2 n w2 wopt lc (proj1 (proj1 T2)) XC2 ltac:(lia) Hord) as (w3 & r & cand & PB & XC3 & Sk3 & Fin3 & Inv3).
      rewrite PB in H. cbn [bind] in H.
      destruct (JP_pbo n w2 wopt lc w3 r cand (proj1 T2) ltac:(lia) Hord PB) as (P3 & F3 & BE3 & LE3 & C3 & L3).
      destruct F3 as (_ & _ & F3s & _ & _ & _ & F3b & F3v & F3best).
      rewrite Q2 in F3b. rewrite Q5 in F3v. rewrite Q4 in F3best. rewrite Q3 in F3s. rewrite Q6 in BE3.
      rewrite Q3, St2, Rn2 in Inv3.
      cbv beta iota zeta in H.
      assert (Hcase : (r = BreakInvalid /\ w' = restore w3 /\ d = false) \/ (r <> BreakInvalid /\ w' = mark_best w3 [cand] /\ d = false)).
      { destruct r; injection H as <- <-; first [left; repeat split; reflexivity | right; repeat split; try reflexivity; discriminate]. }
      clear H. destruct Hcase as [(Hr & -> & ->)|(Hr & -> & ->)].
      - (* the option was accepted before: it cannot be rejected now *)
        exfalso. destruct (Inv3 Hr) as [I|I]; [lia|]. apply I. apply SK_CB; assumption.
      - intros _ _. split; [apply has_best_mark|].
        destruct (C3 Hr) as (C31 & C32 & C33). rewrite Q3 in C31.
        assert (Hsv : lend (w_start w3) (s_save (w_sc w3)) <= fst wopt + 1).
        { rewrite F3v, F3s, (JT_no_best_alt n w HT FB2). unfold lend; cbn. lia. }
        destruct (JT_mark_best n w3 cand (fst wopt + 1) P3 C33 C32 Hsv ltac:(lia)) as [T4 BE4].
        destruct (mark_best_proj w3 [cand]) as (M1 & M2 & M3 & M4). fold b in HWo, HU.
        split; [intros p Hp Hv; rewrite BE4 in Hp; rewrite M2, F3b; left; rewrite S1; lia|].
        rewrite BE4, M2, F3b. rewrite (best_end_no_best w FB2) in GUx. split.
        + intros q Hq Hv. exact (proj1 (GUx q ltac:(lia) Hv)).
        + rewrite S2 in *. split; [left; lia|intros _; left; lia]. }
  destruct X as (X1 & X2 & X3 & X4 & X5 & X6 & X7 & X8).
  assert (X1' : fst opt = fst (b_unusedG b1)) by (rewrite X1; reflexivity).
  assert (Hord : s_alt (w_sc w2) <> [] -> lend (w_start w2) (s_alt (w_sc w2)) <= fst opt).
  { rewrite Q1, Q3. intros Hne. destruct (HO Hne) as [O1|O1]; fold b in O1; lia. }
  destruct (pbo_safe2 n w2 opt lc (proj1 (proj1 T2)) XC2 ltac:(lia) Hord) as (w3 & r & cand & PB & XC3 & Sk3 & Fin3 & Inv3).
  rewrite PB in H. cbn [bind] in H.
  destruct (JP_pbo n w2 opt lc w3 r cand (proj1 T2) ltac:(lia) Hord PB) as (P3 & F3 & BE3 & LE3 & C3 & L3).
  destruct (pbo_kind _ _ _ _ _ _ PB) as (K1 & K2 & K3).
  destruct F3 as (F3c & _ & F3s & _ & F3r & _ & F3b & F3v & F3best).
  rewrite Q2 in F3b. rewrite Q5 in F3v. rewrite Q4 in F3best. rewrite Q3 in F3s, LE3. rewrite Q1 in LE3. rewrite Q6 in BE3.
  rewrite Rn2 in F3r. rewrite St2 in Sk3.
  assert (HB3 : has_best w3 = has_best w) by (apply has_best_same; exact F3best).
  assert (Mw : Bk n (mark_word_unused b1)) by (apply Bk_mark_word; [exact Bb1|rewrite S1; exact HW|rewrite S1, S2; exact HU]).
  rewrite Q1, Q3 in Hord. rewrite Q3 in C3.
  assert (Hsv : r <> BreakInvalid -> lend (w_start w3) (s_save (w_sc w3)) <= fst opt).
  { intros Hr. destruct (C3 Hr) as (C31 & _). rewrite F3v, F3s. destruct (s_alt (w_sc w)) eqn:A; [unfold lend; cbn; lia|].
    apply Hord. congruence. }
  assert (HK3 : SK w3).
  { destruct HK as (K1' & K2' & K3'). split; [rewrite Sk3; exact K1'|]. split; [rewrite F3r; exact K2'|]. rewrite F3b. rewrite S5. exact K3'. }
  (* the best line does not shrink: its end is at or before the option just read *)
  assert (Hmono : r <> BreakInvalid -> best_end w <= fst opt + 1).
  { intros Hr. destruct (C3 Hr) as (C31 & _). destruct (has_best w) eqn:HBw.
    - fold b in OB. destruct (OB eq_refl) as [O|O]; lia.
    - rewrite (best_end_no_best w HBw). lia. }
  assert (Best1 : r <> BreakInvalid -> XI n (mark_best w3 [cand]) /\ JT n (mark_best w3 [cand])
                   /\ best_end (mark_best w3 [cand]) = fst opt + 1).
  { intros Hr. destruct (C3 Hr) as (C31 & C32 & C33). destruct (Fin3 Hr) as [FP FC].
    destruct (JT_mark_best n w3 cand (fst opt + 1) P3 C33 C32 ltac:(specialize (Hsv Hr); lia) ltac:(lia)) as [T4 BE4].
    split; [eapply XI_mark_best1; eauto|split; [exact T4|exact BE4]]. }
  destruct (mark_best_proj w3 [cand]) as (M1 & M2 & M3 & M4).
  destruct (restore_proj w3) as (R1 & R2 & R3 & R4).
  assert (HBr : has_best (restore w3) = has_best w) by (apply has_best_same; rewrite R4; exact F3best).
  destruct r.
  - (* BreakInvalid *)
    apply (IH (restore w3) wopt lc w' d); [apply JT_restore; exact P3| | | | |apply XI_restore; exact XC3| | | | | | | |exact H].
    + unfold OrdI. rewrite R1, R2, R3, F3v, F3s, F3b. intros Hne. destruct (HO Hne) as [O|O]; fold b in O; [left; rewrite S3; exact O|right; lia].
    + rewrite R2, F3b, S1. exact HW.
    + rewrite R2, F3b, S1, S2. exact HU.
    + rewrite R2, F3b, S1. exact HWo.
    + destruct HK3 as (K1' & K2' & K3'). split; [destruct w3; exact K1'|]. split; [destruct w3; exact K2'|]. rewrite R2. exact K3'.
    + rewrite best_end_restore, BE3, R2, F3b, S1. exact Ki.
    + rewrite HBr, best_end_restore, BE3, R2, F3b, S3. intros Hh. fold b in OB. destruct (OB Hh) as [O|O]; [left; exact O|right; lia].
    + rewrite R2, F3b, S4, HBr. exact Fi.
    + rewrite HBr, R3, F3s. exact Vw.
    + (* the rejected grapheme option was not a valid boundary *)
      rewrite best_end_restore, BE3, R2, F3b. intros q Hq Hv. destruct (GUx q Hq Hv) as [Qc|[_ Qc]]; [exfalso|exact Qc].
      destruct (Inv3 eq_refl) as [I|I]; [rewrite Q3 in I; lia|]. apply I. replace (fst opt + 1) with q by lia.
      rewrite St2, Rn2. apply SK_CB; [exact HK|exact (proj2 Hv)].
    + rewrite best_end_restore, BE3, R2, F3b, S3. exact Pp.
  - (* EndLine *) cbv beta iota zeta in H. injection H as <- <-. intros Q; discriminate Q.
  - (* Truncated *) cbv beta iota zeta in H. injection H as <- <-. intros Q; discriminate Q.
  - (* NewLineBeforeBreak *)
    cbv beta iota zeta in H. rewrite R2, F3b in H. injection H as <- <-.
    destruct (set_br_proj (restore w3) (mark_grapheme_unused (mark_word_unused b1))) as (U1 & U2 & U3 & U4 & U5).
    intros _ _. split.
    + rewrite (has_best_same (restore w3) _ U4), HBr, <- HB3. apply K1. reflexivity.
    + split.
      * intros p Hp Hv. rewrite best_end_set_br, best_end_restore, BE3 in Hp. rewrite U2.
        apply U_intro; [cbn; rewrite S1; apply Ki; assumption|reflexivity].
      * rewrite best_end_set_br, best_end_restore, BE3, U2. split; [|split].
        -- intros q Hq Hv. unfold UG. cbn. destruct (GUx q Hq Hv) as [Qc|[Qc Qd]]; [right; split; [lia|reflexivity]|left; lia].
        -- cbn. rewrite S3. exact Pp.
        -- cbn. intros Q; discriminate Q.
  - (* Fits *)
    destruct (Best1 ltac:(discriminate)) as (B1x & T4 & BE4). rewrite F3b in H.
    pose proof (JT_set_br n _ _ T4 Mw) as T5.
    destruct (set_br_proj (mark_best w3 [cand]) (mark_word_unused b1)) as (U1 & U2 & U3 & U4 & U5).
    destruct (C3 ltac:(discriminate)) as (C31 & C32 & C33).
    destruct (chain_app_lend _ _ _ _ C33 C32) as [CL _].
    assert (HB5 : has_best (set_br (mark_best w3 [cand]) (mark_word_unused b1)) = true).
    { rewrite (has_best_same (mark_best w3 [cand]) _ U4). apply has_best_mark. }
    apply (IH (set_br (mark_best w3 [cand]) (mark_word_unused b1)) wopt lc w' d); [exact T5| | | | |apply XI_set_br; exact B1x| | | | | | | |exact H].
    + unfold OrdI. rewrite U1, U2, U3, M1, M3. cbn. intros _. right. lia.
    + rewrite U2; cbn. rewrite S1; exact HW.
    + rewrite U2; cbn. rewrite S1, S2; exact HU.
    + rewrite U2; cbn. rewrite S1; exact HWo.
    + destruct HK3 as (K1' & K2' & K3'). split; [destruct w3; exact K1'|]. split; [destruct w3; exact K2'|]. rewrite U2. cbn. rewrite S5.
      destruct HK as (_ & _ & K4). exact K4.
    + rewrite best_end_set_br, BE4, U2. cbn. rewrite S1. intros p Hp Hv. apply Ki; [|exact Hv].
      specialize (Hmono ltac:(discriminate)). lia.
    + intros _. right. rewrite best_end_set_br, BE4, U2. cbn. lia.
    + left. rewrite U2. reflexivity.
    + intros _ Q. rewrite HB5 in Q. discriminate Q.
    + rewrite best_end_set_br, BE4, U2. intros q Hq Hv. specialize (Hmono ltac:(discriminate)).
      destruct (GUx q ltac:(lia) Hv) as [Qc|[_ Qc]]; [lia|]. unfold UG in *. cbn. exact Qc.
    + rewrite best_end_set_br, BE4, U2. cbn. rewrite S3. lia.
  - (* CannotFit *)
    destruct (lc_truncating lc) eqn:Hlc.
    + cbv beta iota zeta in H. injection H as <- <-. intros Q; discriminate Q.
    + rewrite F3b in H. cbv beta iota zeta in H. injection H as <- <-.
      destruct (Best1 ltac:(discriminate)) as (B1x & T4 & BE4).
      destruct (set_br_proj (mark_best w3 [cand]) (mark_word_unused b1)) as (U1 & U2 & U3 & U4 & U5).
      intros _ _. split.
      * rewrite (has_best_same (mark_best w3 [cand]) _ U4). apply has_best_mark.
      * specialize (Hmono ltac:(discriminate)). split.
        -- intros p Hp Hv. rewrite best_end_set_br, BE4 in Hp. rewrite U2.
           apply U_intro; [cbn; rewrite S1; apply Ki; [|exact Hv]|reflexivity]. lia.
        -- rewrite best_end_set_br, BE4, U2. split; [|split].
           ++ intros q Hq Hv. destruct (GUx q ltac:(lia) Hv) as [Qc|[_ Qc]]; [lia|]. unfold UG in *. cbn. exact Qc.
           ++ cbn. rewrite S3. lia.
           ++ cbn. intros Q; discriminate Q.
Qed.

Lemma outer_V : forall fuel w lc w' d,
  JT n w -> OrdO w -> XI n w -> SK w ->
  (forall p, best_end w < p -> lbV p -> U (w_br w) p) ->
  (has_best w = true -> best_end w <= fst (b_unusedW (w_br w)) + 1 /\ b_isUnusedW (w_br w) = false) ->
  GP (best_end w) (w_br w) ->
  outer_loop fuel w lc = Ok (w', d) -> PostV lc w' d.
Proof.
  induction fuel as [|fuel IH]; intros w lc w' d HT HO HX HK Ko OB Gp H; cbn [outer_loop] in H; [discriminate|].
  destruct (JT_checkpoint n w HT) as (T1 & Csv & Calt & Cbe & Cbr & Cbest).
  pose proof (best_end_ge n w (proj1 HT)) as BG.
  pose proof (XI_checkpoint n w HX) as XC1.
  assert (St1 : w_st (checkpoint w) = w_st w) by (destruct w; reflexivity).
  assert (Rn1 : w_runs (checkpoint w) = w_runs w) by (destruct w; reflexivity).
  set (w1 := checkpoint w) in *.
  destruct (next_word_break (w_br w1)) as [b1 ro] eqn:NW.
  pose proof T1 as ((_ & B1 & _) & _).
  destruct (nwb_spec n _ _ _ B1 NW) as (Bb1 & SG & FW & UW & X). rewrite Cbr in SG, UW, X, B1, NW.
  destruct SG as (S1 & S2 & S3 & S5).
  pose proof (JT_set_br n w1 b1 T1 Bb1) as T2.
  destruct (set_br_proj w1 b1) as (Q1 & Q2 & Q3 & Q4 & Q5).
  assert (Q6 : best_end (set_br w1 b1) = best_end w) by (rewrite best_end_set_br; exact Cbe).
  assert (Q7 : w_start w1 = w_start w) by (destruct w; reflexivity).
  pose proof (XI_set_br n w1 b1 XC1) as XC2.
  assert (St2 : w_st (set_br w1 b1) = w_st w) by (rewrite <- St1; destruct w1; reflexivity).
  assert (Rn2 : w_runs (set_br w1 b1) = w_runs w) by (rewrite <- Rn1; destruct w1; reflexivity).
  set (w2 := set_br w1 b1) in *.
  rewrite Calt in Q1. rewrite Csv in Q5. rewrite Cbest in Q4. rewrite Q7 in Q3.
  destruct (Bk_ug_n n _ Bb1) as (G1 & G2 & G3).
  set (b := w_br w) in *.
  destruct ro as [opt|].
  2:{ cbv beta iota zeta in H. injection H as <- <-. intros Q; discriminate Q. }
  destruct X as (X1 & X3 & X6 & X7 & X8 & X9 & X10).
  assert (X1' : fst opt = fst (b_unusedW b1)) by (rewrite X1; reflexivity).
  destruct (nwb_gap b b1 opt ltac:(destruct B1 as (_ & B1 & _); exact B1) NW) as (Wle & Gap).
  destruct HK as (HK1 & HK2 & HK3). fold b in HK3. rewrite HK3 in Gap.
  (* every valid boundary beyond the best line lies at or after the option just read *)
  assert (P0 : forall p, best_end w < p -> lbV p -> b_wpos b1 <= p).
  { intros p Hp Hv. apply Gap; [apply Ko; assumption|exact (proj1 Hv)]. }
  assert (Hord : s_alt (w_sc w2) <> [] -> lend (w_start w2) (s_alt (w_sc w2)) <= fst opt).
  { rewrite Q1, Q3. intros Hne. destruct (HO Hne) as [O1 O2]; fold b in O1; lia. }
  destruct (pbo_safe2 n w2 opt lc (proj1 (proj1 T2)) XC2 ltac:(lia) Hord) as (w3 & r & cand & PB & XC3 & Sk3 & Fin3 & Inv3).
  rewrite PB in H. cbn [bind] in H.
  destruct (JP_pbo n w2 opt lc w3 r cand (proj1 T2) ltac:(lia) Hord PB) as (P3 & F3 & BE3 & LE3 & C3 & L3).
  destruct (pbo_kind _ _ _ _ _ _ PB) as (K1 & K2 & K3).
  destruct F3 as (F3c & _ & F3s & _ & F3r & _ & F3b & F3v & F3best).
  rewrite Q2 in F3b. rewrite Q5 in F3v. rewrite Q4 in F3best. rewrite Q3 in F3s, LE3. rewrite Q1 in LE3. rewrite Q6 in BE3.
  rewrite Rn2 in F3r. rewrite Q3, St2, Rn2 in Inv3. rewrite St2 in Sk3.
  assert (HB3 : has_best w3 = has_best w) by (apply has_best_same; exact F3best).
  assert (Mw : Bk n (mark_word_unused b1)) by (apply Bk_mark_word; [exact Bb1|lia|lia]).
  rewrite Q1, Q3 in Hord. rewrite Q3 in C3.
  assert (Hsv : r <> BreakInvalid -> lend (w_start w3) (s_save (w_sc w3)) <= fst opt).
  { intros Hr. destruct (C3 Hr) as (C31 & _). rewrite F3v, F3s. destruct (s_alt (w_sc w)) eqn:A; [unfold lend; cbn; lia|].
    apply Hord. congruence. }
  assert (HK3' : SK w3).
  { split; [rewrite Sk3; exact HK1|]. split; [rewrite F3r; exact HK2|]. rewrite F3b. rewrite S5. exact HK3. }
  (* the grapheme side after this read of the line iterator *)
  pose proof Bb1 as (_ & _ & _ & Hpw1 & _).
  destruct Gp as (Gg & Pp & Pu). fold b in Gg, Pp, Pu.
  assert (Gg1 : forall q, best_end w < q <= n -> gbV q -> UG b1 q).
  { intros q Hq Hv. specialize (Gg q Hq Hv). unfold UG in *. rewrite S1, S3. exact Gg. }
  assert (Pp1 : fst (b_prevW b1) + 1 <= best_end w \/ fst (b_prevW b1) <= 0).
  { destruct (b_isUnusedW b) eqn:FB.
    - rewrite (nwb_prev_reissue _ _ _ NW FB). exact Pp.
    - rewrite (X9 eq_refl). exact (Pu eq_refl). }
  assert (Hmono : r <> BreakInvalid -> best_end w <= fst opt + 1).
  { intros Hr. destruct (C3 Hr) as (C31 & _). destruct (has_best w) eqn:HBw.
    - fold b in OB. destruct (OB eq_refl) as [O _]. lia.
    - rewrite (best_end_no_best w HBw). lia. }
  (* recording alt ++ [cand] at this option, the breaker keeping the grapheme registers and previousWordBreak of b1 *)
  assert (GPm : r <> BreakInvalid -> forall bx, b_gpos bx = b_gpos b1 -> b_isUnusedG bx = b_isUnusedG b1 -> b_prevW bx = b_prevW b1 ->
            b_unusedW bx = b_unusedW b1 -> GP (fst opt + 1) bx).
  { intros Hr bx E1 E2 E3 E4. specialize (Hmono Hr). split; [|split].
    - intros q Hq Hv. pose proof (Gg1 q ltac:(lia) Hv) as Q. unfold UG in *. rewrite E1, E2. exact Q.
    - rewrite E3. lia.
    - intros _. rewrite E4. lia. }
  destruct (mark_best_proj w3 [cand]) as (M1 & M2 & M3 & M4).
  destruct (restore_proj w3) as (R1 & R2 & R3 & R4).
  assert (HBr : has_best (restore w3) = has_best w) by (apply has_best_same; rewrite R4; exact F3best).
  assert (Best1 : r <> BreakInvalid -> XI n (mark_best w3 [cand]) /\ JT n (mark_best w3 [cand])
                   /\ best_end (mark_best w3 [cand]) = fst opt + 1).
  { intros Hr. destruct (C3 Hr) as (C31 & C32 & C33). destruct (Fin3 Hr) as [FP FC].
    destruct (JT_mark_best n w3 cand (fst opt + 1) P3 C33 C32 ltac:(specialize (Hsv Hr); lia) ltac:(lia)) as [T4 BE4].
    split; [eapply XI_mark_best1; eauto|split; [exact T4|exact BE4]]. }
  (* the grapheme loop entered from a state that carries the checkpoint of this iteration *)
  assert (G : forall wx, JP n wx -> s_save (w_sc wx) = s_alt (w_sc w) -> w_start wx = w_start w ->
              b_prevW (w_br wx) = b_prevW b1 -> b_wpos (w_br wx) = b_wpos b1 -> b_unusedW (w_br wx) = b_unusedW b1 ->
              b_gpos (w_br wx) = b_gpos b1 -> b_isUnusedG (w_br wx) = b_isUnusedG b1 ->
              XI n wx -> SK wx -> best_end wx = best_end w -> has_best wx = has_best w ->
              (b_isUnusedW (w_br wx) = true \/ has_best wx = false \/ lc_truncating lc = true) ->
              (lc_truncating lc = false -> has_best wx = false -> CBall st0 rs (fst opt + 1) /\ w_start wx <= fst opt) ->
              inner_loop (br_fuel wx) (restore wx) opt lc = Ok (w', d) -> PostV lc w' d).
  { intros wx Px Sx Stx Pwx Wx Ux Gpx Gfx Xx Kx Bx Hbx Fx Vx Hx. destruct (restore_proj wx) as (Rx1 & Rx2 & Rx3 & Rx4).
    assert (Hbr : has_best (restore wx) = has_best w) by (rewrite (has_best_same wx (restore wx) Rx4); exact Hbx).
    apply (inner_V (br_fuel wx) (restore wx) opt lc w' d); [apply JT_restore; exact Px| | | | |apply XI_restore; exact Xx| | | | | | | |exact Hx].
    - unfold OrdI. rewrite Rx1, Rx2, Rx3, Sx, Stx, Pwx. intros Hne. left. destruct (HO Hne) as [O1 O2]. fold b in O1, O2.
      destruct (b_isUnusedW b) eqn:FB; [cbn in O2; lia|]. rewrite (X9 eq_refl). exact O1.
    - rewrite Rx2, Wx. lia.
    - rewrite Rx2, Wx, Ux. lia.
    - rewrite Rx2, Wx. lia.
    - destruct Kx as (K1' & K2' & K3'). split; [destruct wx; exact K1'|]. split; [destruct wx; exact K2'|]. rewrite Rx2. exact K3'.
    - rewrite best_end_restore, Bx, Rx2, Wx. exact P0.
    - rewrite Hbr, best_end_restore, Bx, Rx2, Pwx. intros Hh. left. fold b in OB. destruct (OB Hh) as [O1 O2].
      rewrite (X9 O2). exact O1.
    - rewrite Rx2, (has_best_same wx (restore wx) Rx4). exact Fx.
    - rewrite (has_best_same wx (restore wx) Rx4), Rx3. exact Vx.
    - rewrite best_end_restore, Bx, Rx2. intros q Hq Hv. pose proof (Gg1 q Hq Hv) as Q. unfold UG in *. rewrite Gpx, Gfx. exact Q.
    - rewrite best_end_restore, Bx, Rx2, Pwx. exact Pp1. }
  destruct r.
  - (* BreakInvalid: the option is discarded *)
    cbv beta iota zeta in H. rewrite R2, F3b in H.
    destruct (set_br_proj (restore w3) (discard_word b1)) as (D1 & D2 & D3 & D4 & D5).
    assert (HBd : has_best (set_br (restore w3) (discard_word b1)) = has_best w).
    { rewrite (has_best_same (restore w3) _ D4). exact HBr. }
    apply (IH (set_br (restore w3) (discard_word b1)) lc w' d);
      [apply JT_set_br; [apply JT_restore; exact P3|apply Bk_discard; assumption]| |apply XI_set_br; apply XI_restore; exact XC3| | | | |exact H].
    + unfold OrdO. rewrite D1, D2, D3, R1, R3, F3v, F3s. cbn [discard_word b_unusedW b_isUnusedW]. rewrite FW.
      intros Hne. destruct (HO Hne) as [O1 O2]. fold b in O1, O2.
      destruct (b_isUnusedW b) eqn:FB; [cbn in O2; lia|]. rewrite (X9 eq_refl). split; [exact O1|reflexivity].
    + destruct HK3' as (K1' & K2' & K3'). split; [destruct w3; exact K1'|]. split; [destruct w3; exact K2'|]. rewrite D2. cbn. rewrite <- F3b. exact K3'.
    + intros p Hp Hv. rewrite best_end_set_br, best_end_restore, BE3 in Hp. rewrite D2. unfold U. cbn [discard_word b_wpos b_isUnusedW].
      pose proof (P0 p Hp Hv) as Pq.
      left. destruct (Z.eq_dec p (b_wpos b1)) as [E|E]; [exfalso|lia].
      destruct (Inv3 eq_refl) as [I|I]; [lia|]. apply I. replace (fst opt + 1) with p by lia.
      rewrite HK2. apply (CBall_sk st0); [symmetry; exact HK1|exact (proj2 Hv)].
    + rewrite HBd, best_end_set_br, best_end_restore, BE3, D2. cbn [discard_word b_unusedW b_isUnusedW]. rewrite FW.
      intros Hh. fold b in OB. destruct (OB Hh) as [O1 O2]. rewrite (X9 O2). split; [exact O1|reflexivity].
    + rewrite best_end_set_br, best_end_restore, BE3, D2. split; [|split].
      * intros q Hq Hv. pose proof (Gg1 q Hq Hv) as Q. unfold UG in *. cbn. exact Q.
      * cbn. exact Pp1.
      * cbn. intros _. exact Pp1.
  - (* EndLine *) cbv beta iota zeta in H. injection H as <- <-. intros Q; discriminate Q.
  - (* Truncated: the truncating line *)
    assert (Ht : lc_truncating lc = true) by (apply K3; right; reflexivity).
    intros _ Q. congruence.
  - (* NewLineBeforeBreak *)
    cbv beta iota zeta in H. rewrite R2, F3b in H.
    pose proof (JT_set_br n _ _ (JT_restore n w3 P3) Mw) as T5.
    destruct (set_br_proj (restore w3) (mark_word_unused b1)) as (U1 & U2 & U3 & U4 & U5).
    assert (BE5 : best_end (set_br (restore w3) (mark_word_unused b1)) = best_end w) by (rewrite best_end_set_br, best_end_restore; exact BE3).
    assert (HB5 : has_best (set_br (restore w3) (mark_word_unused b1)) = has_best w).
    { rewrite (has_best_same (restore w3) _ U4). exact HBr. }
    assert (Hhb : has_best w = true) by (rewrite <- HB3; apply K1; reflexivity).
    destruct (_ || _).
    + injection H as <- <-. intros _ _. split; [rewrite HB5; exact Hhb|]. split.
      * intros p Hp Hv. rewrite BE5 in Hp. rewrite U2. apply U_intro; [cbn; apply P0; assumption|reflexivity].
      * rewrite BE5, U2. split; [|split].
        -- intros q Hq Hv. pose proof (Gg1 q Hq Hv) as Q. unfold UG in *. cbn. exact Q.
        -- cbn. exact Pp1.
        -- cbn. intros Q; discriminate Q.
    + apply (G (set_br (restore w3) (mark_word_unused b1)) (proj1 T5));
        [rewrite U5; destruct w3; cbn in *; exact F3v|rewrite U3, R3; exact F3s|rewrite U2; reflexivity|rewrite U2; reflexivity
        |rewrite U2; reflexivity|rewrite U2; reflexivity|rewrite U2; reflexivity|apply XI_set_br; apply XI_restore; exact XC3| |exact BE5|exact HB5|left; rewrite U2; reflexivity| |exact H].
      * destruct HK3' as (K1' & K2' & K3'). split; [destruct w3; exact K1'|]. split; [destruct w3; exact K2'|]. rewrite U2. cbn. rewrite S5. exact HK3.
      * intros _ Q. rewrite HB5, Hhb in Q. discriminate Q.
  - (* Fits *)
    destruct (Best1 ltac:(discriminate)) as (B1x & T4 & BE4).
    cbv beta iota zeta in H. destruct (snd opt) eqn:SO.
    + injection H as <- <-. intros _ _. split; [apply has_best_mark|]. split.
      * intros p Hp Hv. rewrite BE4 in Hp. rewrite M2, F3b. left. lia.
      * rewrite BE4, M2, F3b. apply GPm; [discriminate|reflexivity|reflexivity|reflexivity|reflexivity].
    + apply (IH (mark_best w3 [cand]) lc w' d); [exact T4| |exact B1x| | | | |exact H].
      * unfold OrdO. rewrite M1, M2, M3, F3b, FW. destruct (C3 ltac:(discriminate)) as (C31 & C32 & C33).
        destruct (chain_app_lend _ _ _ _ C33 C32) as [CL _]. intros _. split; [lia|reflexivity].
      * destruct HK3' as (K1' & K2' & K3'). split; [destruct w3; exact K1'|]. split; [destruct w3; exact K2'|]. rewrite M2. exact K3'.
      * intros p Hp Hv. rewrite BE4 in Hp. rewrite M2, F3b. left. lia.
      * intros _. rewrite BE4, M2, F3b, FW. split; [lia|reflexivity].
      * rewrite BE4, M2, F3b. apply GPm; [discriminate|reflexivity|reflexivity|reflexivity|reflexivity].
  - (* CannotFit *)
    assert (Hhb : has_best w3 = false) by (apply K2; reflexivity).
    cbv beta iota zeta in H. destruct (policy_never w3).
    + destruct (lc_truncating lc) eqn:Hlc.
      * injection H as <- <-. intros Q; discriminate Q.
      * injection H as <- <-. destruct (Best1 ltac:(discriminate)) as (_ & _ & BE4). intros _ _. split; [apply has_best_mark|]. split.
        -- intros p Hp Hv. rewrite BE4 in Hp. rewrite M2, F3b. left. lia.
        -- rewrite BE4, M2, F3b. apply GPm; [discriminate|reflexivity|reflexivity|reflexivity|reflexivity].
    + apply (G w3 P3); auto; try (rewrite F3b; reflexivity).
      * intros _ _. destruct (Fin3 ltac:(discriminate)) as [_ FC]. destruct (C3 ltac:(discriminate)) as (C31 & _).
        split; [eapply SK_CB'; [exact HK3'|exact FC]|lia].
Qed.

(* ---- one WrapNextLine call ------------------------------------------------------------------------------------ *)

(* the invariant between calls: every valid boundary beyond the line start is ahead of the line iterator or pending *)
Definition KoV (w : W) : Prop := forall p, w_start w < p -> lbV p -> U (w_br w) p.
(* ... and the grapheme side, relative to the line start *)
Definition KoG (w : W) : Prop := GP (w_start w) (w_br w).

Lemma wnl_V : forall w mw w' wl d,
  CI n attrs w -> XB n w -> w_more w = true -> sk (w_st w) = sk st0 -> w_runs w = rs -> KoV w -> KoG w ->
  wrap_next_line w mw = Ok (w', wl, d) ->
  d = false -> wl_line wl <> None /\ KoV w' /\ KoG w'.
Proof.
  intros w mw w' wl d HC HB Hm Hsk Hruns Ko Kg H. unfold wrap_next_line in H. rewrite Hm in H. cbn [negb] in H.
  destruct (CI_peek n attrs w HC) as (ci & run & PK). rewrite PK in H. cbn [negb] in H.
  destruct (CI_start_line n attrs w HC) as (T0 & O0 & A0 & N0 & Acc0).
  pose proof HC as (HR & HP & HS & HM & HBk & HA & Hst & HT & HF).
  set (lc := mkLC _ _ _) in H.
  destruct (outer_loop _ (start_line w) lc) as [[w2 d2]| | |] eqn:OL; cbn [bind] in H; try discriminate.
  destruct (outer_loop_ok n _ _ _ _ _ (proj1 (proj1 T0)) OL) as [_ O2].
  destruct (outer_loop_J n (phi n (w_br w)) attrs _ _ _ _ _ T0 O0 (N0 lc) A0 (fun _ => Acc0) OL) as (P2 & N2 & A2 & Post2 & Acc2).
  assert (PV : PostV lc w2 d2).
  { eapply outer_V; [exact T0|exact O0|apply XI_start_line; exact HB| | | | |exact OL].
    - split; [destruct w; exact Hsk|]. split; [destruct w; exact Hruns|exact A0].
    - intros p Hp Hv. replace (w_br (start_line w)) with (w_br w) by (destruct w; reflexivity). apply Ko; [|exact Hv].
      replace (best_end (start_line w)) with (w_start w) in Hp by (destruct w; reflexivity). exact Hp.
    - intros Q. destruct w; discriminate Q.
    - replace (w_br (start_line w)) with (w_br w) by (destruct w; reflexivity).
      replace (best_end (start_line w)) with (w_start w) by (destruct w; reflexivity). exact Kg. }
  destruct O2 as (Oc & Ot & Os & Om & Or & On & Oa).
  replace (w_cfg (start_line w)) with (w_cfg w) in * by (destruct w; reflexivity).
  replace (w_truncating (start_line w)) with (w_truncating w) in * by (destruct w; reflexivity).
  replace (w_start (start_line w)) with (w_start w) in * by (destruct w; reflexivity).
  replace (w_more (start_line w)) with (w_more w) in * by (destruct w; reflexivity).
  replace (w_runs (start_line w)) with (w_runs w) in * by (destruct w; reflexivity).
  cbv beta iota zeta in H. injection H as PP. rewrite post_process_split in PP.
  destruct (pp_first w2 (s_best (w_sc w2))) as [w1 l1] eqn:PF.
  pose proof P2 as (I2 & B2 & S2 & St2 & BP2 & _ & BN2).
  assert (HL : forall l, s_best (w_sc w2) = Some l -> chain (w_start w2) l (lend (w_start w2) l)).
  { intros l Hl. destruct I2 as (_ & _ & _ & _ & HBo). destruct (HBo l Hl) as [e He]. rewrite (lend_chain _ _ _ He). exact He. }
  destruct (pp_first_spec _ _ _ _ HL PF) as (F1 & F2 & F3 & F4 & F5 & F6 & F7 & F8 & F9 & F10).
  fold (best_end w2) in F9.
  rewrite <- F1 in PP.
  destruct (pp_tail_spec n w1 l1 d2 w' wl d ltac:(rewrite F8; exact (proj1 B2)) ltac:(rewrite F9; exact BN2) PP)
    as (G1 & G2 & G3 & G4 & G5 & G6 & G7 & G8 & G9 & G10 & G11 & G12 & G13 & G14 & G15 & G16).
  assert (TF : tfinal w1 = lc_truncating lc).
  { unfold tfinal, lc. cbn. rewrite F2, F1, Ot, Oc, HT.
    destruct (c_trunc (w_cfg w) =? 1) eqn:E1.
    - apply Z.eqb_eq in E1. rewrite E1. reflexivity.
    - apply Z.eqb_neq in E1. destruct (0 <? c_trunc (w_cfg w)); [|reflexivity]. cbn. apply Z.eqb_neq. lia. }
  intros ->. destruct (G11 eq_refl) as (D1 & D2 & D3 & D4 & D5).
  assert (Hlc : lc_truncating lc = false) by (rewrite <- TF; exact D4).
  destruct (G15 D4) as (Tl & _).
  destruct (PV D2 Hlc) as (Hhb & PK' & PG').
  split; [|split].
  - rewrite Tl. unfold has_best in Hhb. destruct (s_best (w_sc w2)) as [lb|]; [|discriminate].
    destruct F10 as (l' & -> & _). discriminate.
  - unfold KoV. rewrite G7, F9, G5, F8. exact PK'.
  - unfold KoG. rewrite G7, F9, G5, F8. exact PG'.
Qed.

(* ---- any number of calls ------------------------------------------------------------------------------------------ *)

Lemma run_calls_V : forall widths w (live : bool) w' rs',
  (match live return Prop with
   | true => CI n attrs w /\ w_more w = true /\ XB n w /\ sk (w_st w) = sk st0 /\ w_runs w = rs /\ KoV w /\ KoG w
   | false => w_more w = false end) ->
  run_calls w widths = Ok (w', rs') ->
  no_live_nil rs' = true
  /\ (w_more w' = true -> CI n attrs w' /\ XB n w' /\ sk (w_st w') = sk st0 /\ w_runs w' = rs /\ KoV w' /\ KoG w').
Proof.
  induction widths as [|mw rest IH]; intros w live w' rs' HS H; cbn [run_calls] in H.
  { inversion H; subst. split; [reflexivity|]. intros Hm. destruct live; [|congruence].
    destruct HS as (A & _ & B & C & D & E & F). auto 7. }
  destruct (wrap_next_line w mw) as [[[w1 wl] d]| | |] eqn:WN; cbn [bind] in H; try discriminate.
  destruct (run_calls w1 rest) as [[w2 rs2]| | |] eqn:RC; cbn [bind fst snd] in H; try discriminate.
  inversion H; subst w' rs'; clear H. unfold no_live_nil. cbn [forallb fst snd]. destruct live.
  - destruct HS as (HC & Hm & HB & Hsk & Hruns & Ko & Kg).
    pose proof (wnl_V w mw w1 wl d HC HB Hm Hsk Hruns Ko Kg WN) as V.
    destruct (wrap_next_line_J n attrs w mw w1 wl d HC Hm WN) as (_ & L2 & _ & L4 & L5).
    pose proof (wrap_next_line_safe n attrs w mw HC HB) as WS. rewrite WN in WS. destruct WS as (XB1 & S1 & R1 & _).
    destruct d.
    + destruct (IH w1 false w2 rs2 (proj1 (L5 eq_refl)) RC) as [NL K]. split; [|exact K].
      apply andb_true_intro. split; [destruct (wl_line wl); reflexivity|exact NL].
    + destruct (V eq_refl) as (V1 & V2 & V3). destruct (L4 eq_refl) as (A & B & _).
      assert (Sk1 : sk (w_st w1) = sk st0) by (rewrite S1; exact Hsk).
      assert (Rn1 : w_runs w1 = rs) by (rewrite R1; exact Hruns).
      destruct (IH w1 true w2 rs2 (conj A (conj B (conj XB1 (conj Sk1 (conj Rn1 (conj V2 V3)))))) RC) as [NL K].
      split; [|exact K]. apply andb_true_intro. split; [destruct (wl_line wl); [reflexivity|congruence]|exact NL].
  - unfold wrap_next_line in WN. rewrite HS in WN. cbn in WN. inversion WN; subst w1 wl d; clear WN. cbn [andb].
    destruct (IH w false w2 rs2 HS RC) as [NL K]. split; [exact NL|exact K].
Qed.

End Valid.

Lemma KoV_prepare : forall attrs st0 rs w cfg, KoV attrs st0 rs (prepare w cfg attrs rs 0 0).
Proof. intros attrs st0 rs w cfg p Hp Hv. left. cbn in *. lia. Qed.
Lemma KoG_prepare : forall n attrs st0 rs w cfg, KoG n attrs st0 rs (prepare w cfg attrs rs 0 0).
Proof. intros n attrs st0 rs w cfg. unfold KoG, GP, UG; cbn. split; [intros q Hq _; left; lia|]. split; [right; lia|intros _; right; lia]. Qed.

Lemma prepare_state_V : forall n w cfg attrs runs, wf_runs (w_st w) runs n = true -> zlen attrs - 1 = n -> 1 <= n ->
  let w0 := prepare w cfg attrs runs 0 0 in
  CI n attrs w0 /\ w_more w0 = true /\ XB n w0 /\ sk (w_st w0) = sk (w_st w) /\ w_runs w0 = runs
  /\ KoV attrs (w_st w) runs w0 /\ KoG n attrs (w_st w) runs w0.
Proof.
  intros n w cfg attrs runs HW Hn H1. cbv zeta.
  split; [apply CI_prepare; auto; eapply wf_runs_ok; eauto|]. split; [reflexivity|].
  split; [apply XB_prepare; exact HW|]. split; [reflexivity|]. split; [reflexivity|]. split; [apply KoV_prepare|apply KoG_prepare].
Qed.

(* after Prepare on well-formed runs, for every policy: no call returns a nil line while the wrapper stays live, and WI
   and GI hold at every live state reached *)
Lemma calls_valid : forall n w cfg attrs runs widths w' rs,
  wf_runs (w_st w) runs n = true -> zlen attrs - 1 = n -> 1 <= n ->
  run_calls (prepare w cfg attrs runs 0 0) widths = Ok (w', rs) ->
  no_live_nil rs = true /\ (w_more w' = true -> WI attrs w' /\ GI n attrs w').
Proof.
  intros n w cfg attrs runs widths w' rs HW Hn H1 H.
  destruct (run_calls_V n attrs (w_st w) runs widths (prepare w cfg attrs runs 0 0) true w' rs
              (prepare_state_V n w cfg attrs runs HW Hn H1) H) as [NL K].
  split; [exact NL|]. intros Hm. destruct (K Hm) as (_ & _ & Ks & Kr & Kv & Kg).
  assert (CB : forall p, CBall (w_st w') (w_runs w') p -> CBall (w_st w) runs p).
  { intros p Hc. rewrite Kr in Hc. apply (CBall_sk (w_st w')); [exact Ks|exact Hc]. }
  split.
  - intros p Hp Hl Hc. apply Kv; [exact Hp|]. split; [exact Hl|apply CB; exact Hc].
  - destruct Kg as (Kg1 & Kg2 & Kg3). split; [|split; assumption].
    intros q Hq Hg Hc. apply Kg1; [exact Hq|]. split; [exact Hg|apply CB; exact Hc].
Qed.

(* C03 mandatory_break_ends_line, full, every policy: Prepare on well-formed runs, ANY number of WrapNextLine calls with ANY
   widths: no call returns a nil line while the wrapper stays live, and no returned line has a valid mandatory break
   strictly inside it *)
Lemma mandatory_lines_full : forall n w cfg attrs runs widths w' rs,
  wf_runs (w_st w) runs n = true -> zlen attrs - 1 = n -> 1 <= n ->
  run_calls (prepare w cfg attrs runs 0 0) widths = Ok (w', rs) ->
  no_live_nil rs = true /\ mand_ok (valid_mandatory attrs (w_st w) runs) 0 rs.
Proof.
  intros n w cfg attrs runs widths w' rs HW Hn H1 H.
  destruct (calls_valid n w cfg attrs runs widths w' rs HW Hn H1 H) as [NL _].
  split; [exact NL|]. eapply mandatory_lines_all; eauto.
Qed.

(* C04 width_bound without iterator hypotheses (WI, GI) and without the guard on the input runs' Advance, every policy *)
Lemma width_bound_calls_all : forall n w cfg attrs runs widths wk rs mw w' wl d line,
  wf_runs (w_st w) runs n = true -> zlen attrs - 1 = n -> 1 <= n ->
  run_calls (prepare w cfg attrs runs 0 0) widths = Ok (wk, rs) -> w_more wk = true ->
  zlen runs <= o_src (c_truncator (w_cfg wk)) ->
  nonneg_adv (w_st wk) = true ->
  wrap_next_line wk mw = Ok (w', wl, d) -> wl_line wl = Some line ->
  width_bound_stmt attrs n runs (w_st wk) (w_st w') (o_src (c_truncator (w_cfg wk))) (c_dir (w_cfg wk))
                   (o_adv (c_truncator (w_cfg wk))) (c_policy (w_cfg wk)) (w_start wk) (wl_next wl) mw line.
Proof.
  intros n w cfg attrs runs widths wk rs mw w' wl d line HW Ha Hn RC Hk Hts Hnn WN Hl.
  destruct (calls_valid n w cfg attrs runs widths wk rs HW Ha Hn RC) as [_ HI]. destruct (HI Hk) as [HWI HGI].
  eapply width_bound_calls; eauto.
Qed.

(* a live call returns a line: the result of one more call from any live state reached after Prepare *)
Lemma live_call_line : forall n w cfg attrs runs widths wk rs mw w' wl,
  wf_runs (w_st w) runs n = true -> zlen attrs - 1 = n -> 1 <= n ->
  run_calls (prepare w cfg attrs runs 0 0) widths = Ok (wk, rs) ->
  wrap_next_line wk mw = Ok (w', wl, false) -> exists line, wl_line wl = Some line.
Proof.
  intros n w cfg attrs runs widths wk rs mw w' wl HW Ha Hn RC WN.
  destruct (w_more wk) eqn:Hm.
  2:{ unfold wrap_next_line in WN. rewrite Hm in WN. cbn in WN. discriminate. }
  destruct (run_calls_V n attrs (w_st w) runs widths (prepare w cfg attrs runs 0 0) true wk rs
              (prepare_state_V n w cfg attrs runs HW Ha Hn) RC) as [_ K].
  destruct (K Hm) as (KC & KB & Ks & Kr & Kv & Kg).
  destruct (wnl_V n attrs (w_st w) runs wk mw w' wl false KC KB Hm Ks Kr Kv Kg WN eq_refl) as [V1 _].
  destruct (wl_line wl) as [l|]; [eauto|congruence].
Qed.
