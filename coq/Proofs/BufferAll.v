(* Every modelled buffer operation, and every sequence of them, preserves WF and does not panic (C01 part 2).
   The per-operation lemmas are in Proofs/Buffer.v, BufferOps.v (26 operations) and BufferNewOps.v (AddRune, AddRunes, sort,
   reverseGraphemes). *)
From TV Require Import Model.Buffer Spec.Buffer Proofs.ShapeGlue Proofs.Buffer Proofs.BufferOps Proofs.BufferNewOps.

(* ---------- every operation, every sequence of operations ---------- *)

Lemma op_step lo hi o b : (level b =? 2) = false -> WF lo hi b = true -> pre o b = true -> op_rng lo hi o = true ->
  exists b', run_op o b = Ok b' /\ WF lo hi b' = true /\ (level b' =? 2) = false.
Proof.
  intros Hl Hw Hp Hrng.
  assert (G : forall r : res buffer, okwf lo hi b r -> exists b', r = Ok b' /\ WF lo hi b' = true /\ (level b' =? 2) = false).
  { intros r (b' & E & W & L). exists b'. rewrite L. auto. }
  destruct (WF_parts lo hi b Hl Hw) as (I0 & I1 & _).
  pose proof (flag_ops_same_cl o b Hl I0 I1 Hp) as FS.
  destruct o; cbn [run_op]; apply G; try (apply flag_setter_wf; assumption).
  - apply next_glyph_wf; assumption.
  - apply next_glyphs_wf; assumption.
  - apply skip_glyph_wf; assumption.
  - apply copy_glyph_wf; assumption.
  - apply replace_glyph_index_wf; assumption.
  - apply replace_glyphs_wf; assumption.
  - apply delete_glyph_wf; assumption.
  - apply delete_glyphs_inplace_wf; assumption.
  - apply merge_clusters_wf; assumption.
  - apply merge_out_clusters_wf; assumption.
  - apply move_to_wf; assumption.
  - apply shift_forward_wf; assumption.
  - apply swap_buffers_wf; assumption.
  - apply clear_output_wf; assumption.
  - apply remove_output_wf; assumption.
  - apply clear_positions_wf; assumption.
  - apply reverse_range_wf; assumption.
  - apply reverse_wf; assumption.
  - apply reverse_clusters_wf; assumption.
  - apply propagate_wf; assumption.
  - apply add_rune_wf; assumption.
  - apply add_runes_wf; assumption.
  - apply sort_wf; assumption.
  - apply reverse_graphemes_wf; assumption.
Qed.

(* the preconditions hold along the run *)
Fixpoint pres_hold (os : list op) (b : buffer) : Prop :=
  match os with
  | [] => True
  | o :: r => pre o b = true /\ forall b', run_op o b = Ok b' -> pres_hold r b'
  end.

Lemma run_ops_cons o r b x : run_op o b = Ok x -> run_ops (o :: r) b = run_ops r x.
Proof. intros E. unfold run_ops. cbn [fold_left bind]. rewrite E. reflexivity. Qed.

(* the cluster values brought in by AddRune / AddRunes lie in [lo, hi) *)
Definition ops_rng (lo hi : Z) (os : list op) : Prop := Forall (fun o => op_rng lo hi o = true) os.

Lemma buffer_ops_preserve_wf_lemma lo hi : forall os b,
  (level b =? 2) = false -> WF lo hi b = true -> pres_hold os b -> ops_rng lo hi os ->
  exists b', run_ops os b = Ok b' /\ WF lo hi b' = true.
Proof.
  induction os as [|o r IH]; intros b Hl Hw Hp Hr.
  - exists b. split; [reflexivity|exact Hw].
  - destruct Hp as [Hpo Hpr]. inversion Hr as [|? ? Hro Hrr]; subst.
    destruct (op_step lo hi o b Hl Hw Hpo Hro) as (b1 & E & W1 & L1).
    destruct (IH b1 L1 W1 (Hpr b1 E) Hrr) as (b2 & E2 & W2).
    exists b2. rewrite (run_ops_cons o r b b1 E). auto.
Qed.

(* no operation panics (or runs out of fuel) under WF and its precondition *)
Lemma buffer_ops_no_panic_lemma lo hi o b : (level b =? 2) = false -> WF lo hi b = true -> pre o b = true -> op_rng lo hi o = true -> total (run_op o b).
Proof. intros Hl Hw Hp Hr. destruct (op_step lo hi o b Hl Hw Hp Hr) as (b' & E & _). rewrite E. exact I. Qed.

(* ... nor does any sequence of operations whose preconditions hold along the run *)
Lemma buffer_run_no_panic_lemma lo hi os b : (level b =? 2) = false -> WF lo hi b = true -> pres_hold os b -> ops_rng lo hi os -> total (run_ops os b).
Proof. intros Hl Hw Hp Hr. destruct (buffer_ops_preserve_wf_lemma lo hi os b Hl Hw Hp Hr) as (b' & E & _). rewrite E. exact I. Qed.

(* executable form of pres_hold (for examples) *)
Fixpoint pres_ok (os : list op) (b : buffer) : bool :=
  match os with
  | [] => true
  | o :: r => pre o b && match run_op o b with Ok b' => pres_ok r b' | _ => false end
  end.
Lemma pres_ok_sound : forall os b, pres_ok os b = true -> pres_hold os b.
Proof.
  induction os as [|o r IH]; intros b H; [exact I|]. cbn [pres_ok] in H. apply andb_prop in H. destruct H as [H1 H2].
  split; [exact H1|]. intros b' E. rewrite E in H2. apply IH. exact H2.
Qed.

(* executable form of ops_rng *)
Lemma ops_rng_b lo hi os : forallb (op_rng lo hi) os = true -> ops_rng lo hi os.
Proof. intros H. apply Forall_forall. intros o Ho. rewrite forallb_forall in H. exact (H o Ho). Qed.
