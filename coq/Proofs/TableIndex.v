(* Proofs for C09, second batch (Model/TableIndex.v): name records, hhea/hmtx, cmap formats 6, 10, 12, 13:
   no slice / index expression out of range and no make() with a negative size for ALL byte strings, and the
   sizes of what is allocated are bounded by the length of the table. *)
From TV Require Import Model.Glyf Model.TableIndex Proofs.Glyf.
From Coq Require Import ZifyBool.
Ltac Zify.zify_post_hook ::= Z.div_mod_to_equations.

(* ---------- generalities ---------- *)

Lemma ti_bytes_ok_skipn n l : bytes_ok l -> bytes_ok (skipn n l).
Proof.
  unfold bytes_ok. revert l; induction n as [|n IH]; intros l H; simpl; [exact H|].
  destruct l; [constructor|]. inversion H; auto.
Qed.
Lemma ti_bytes_ok_zskipn n l : bytes_ok l -> bytes_ok (zskipn n l).
Proof. apply ti_bytes_ok_skipn. Qed.
Lemma ti_get16_range l : bytes_ok l -> 0 <= get16 l < 65536.
Proof.
  unfold get16. destruct l as [|a [|b r]]; intros H; try lia.
  inversion H as [|? ? Ha T]; inversion T as [|? ? Hb _]. unfold byte_ok in *; lia.
Qed.

Lemma slice_from_ok {A} (l : list A) a : 0 <= a <= zlen l -> slice_from l a = Ok (zskipn a l).
Proof. intros. unfold slice_from. replace ((0 <=? a) && (a <=? zlen l)) with true by lia. reflexivity. Qed.
Lemma index_checked_ok {A} (d : A) l i : 0 <= i < zlen l -> index_checked d l i = Ok (znth d l i).
Proof. intros. unfold index_checked. replace ((0 <=? i) && (i <? zlen l)) with true by lia. reflexivity. Qed.
Lemma slice_from_inv {A} (l : list A) a s : slice_from l a = Ok s -> 0 <= a <= zlen l /\ s = zskipn a l.
Proof. unfold slice_from. destruct (_ && _) eqn:E; intros H; inversion H; subst. split; [lia|reflexivity]. Qed.

(* ---------- name ---------- *)

Lemma np_name_recs src n : forall i, 0 <= i -> 6 + (i + Z.of_nat n) * 12 <= zlen src -> no_panic (name_recs src i n).
Proof.
  induction n as [|n IH]; intros i Hi Hl; cbn [name_recs]; [exact I|].
  rewrite slice_from_ok by lia. cbn [bind].
  unfold name_rec_must_parse. rewrite zlen_zskipn by lia.
  replace (zlen src - (6 + i * 12) <? 12) with false by lia. cbn [bind].
  apply np_bind; [apply IH; lia|]. intros; exact I.
Qed.

Lemma name_recs_len src n : forall i rs, name_recs src i n = Ok rs -> length rs = n.
Proof.
  induction n as [|n IH]; intros i rs; cbn [name_recs]. { intros H; inversion H; reflexivity. }
  destruct (slice_from src (6 + i * 12)); cbn [bind]; try discriminate.
  destruct (name_rec_must_parse a); cbn [bind]; try discriminate.
  destruct (name_recs src (i + 1) n) eqn:E; cbn [bind]; try discriminate.
  intros H; inversion H; subst. simpl. f_equal. eapply IH; eauto.
Qed.

Definition rec_ok (r : name_rec) : Prop := 0 <= nr_length r < 65536 /\ 0 <= nr_offset r < 65536.

Lemma name_rec_must_parse_ok b r : bytes_ok b -> name_rec_must_parse b = Ok r -> rec_ok r.
Proof.
  intros Hb. unfold name_rec_must_parse. destruct (_ <? 12); [discriminate|].
  intros H. injection H as <-. unfold rec_ok; cbn [nr_length nr_offset].
  split; [exact (ti_get16_range _ (ti_bytes_ok_skipn 8 b Hb))|exact (ti_get16_range _ (ti_bytes_ok_skipn 10 b Hb))].
Qed.

Lemma name_recs_ok src n : bytes_ok src -> forall i rs, name_recs src i n = Ok rs -> Forall rec_ok rs.
Proof.
  intros Hb. induction n as [|n IH]; intros i rs; cbn [name_recs]. { intros H; injection H as <-; constructor. }
  destruct (slice_from src (6 + i * 12)) eqn:ES; cbn [bind]; try discriminate.
  apply slice_from_inv in ES as [_ ->].
  destruct (name_rec_must_parse (zskipn (6 + i * 12) src)) eqn:EP; cbn [bind]; try discriminate.
  apply name_rec_must_parse_ok in EP; [|apply ti_bytes_ok_zskipn; exact Hb].
  destruct (name_recs src (i + 1) n) eqn:E; cbn [bind]; try discriminate.
  intros H; injection H as <-. constructor; [exact EP|eapply IH; eauto].
Qed.

Lemma np_parse_name src : bytes_ok src -> no_panic (parse_name src).
Proof.
  intros Hb. unfold parse_name.
  destruct (zlen src <? 6) eqn:E6; [exact I|].
  pose proof (ti_get16_range (skipn 2 src) (ti_bytes_ok_skipn 2 src Hb)) as Hc.
  pose proof (ti_get16_range (skipn 4 src) (ti_bytes_ok_skipn 4 src Hb)) as Ho.
  set (count := get16 (skipn 2 src)) in *. set (off := get16 (skipn 4 src)) in *.
  destruct (off =? 0) eqn:E0; cbn [bind].
  - destruct (zlen src <? 6 + count * 12) eqn:EC; [exact I|].
    apply np_bind; [apply np_name_recs; lia|]. intros; exact I.
  - destruct (zlen src <? off) eqn:EO; cbn [bind]; [exact I|].
    rewrite slice_from_ok by lia. cbn [bind].
    destruct (zlen src <? 6 + count * 12) eqn:EC; [exact I|].
    apply np_bind; [apply np_name_recs; lia|]. intros; exact I.
Qed.

Lemma parse_name_inv src t : bytes_ok src -> parse_name src = Ok t ->
  Forall rec_ok (n_records t) /\ 6 + 12 * zlen (n_records t) <= zlen src /\ zlen (n_string_data t) <= zlen src.
Proof.
  intros Hb. unfold parse_name.
  destruct (zlen src <? 6) eqn:E6; [discriminate|].
  pose proof (ti_get16_range (skipn 2 src) (ti_bytes_ok_skipn 2 src Hb)) as Hc.
  pose proof (ti_get16_range (skipn 4 src) (ti_bytes_ok_skipn 4 src Hb)) as Ho.
  set (count := get16 (skipn 2 src)) in *. set (off := get16 (skipn 4 src)) in *.
  assert (K : forall sd, zlen sd <= zlen src ->
     (if zlen src <? 6 + count * 12 then Err e_name else do recs <- name_recs src 0 (Z.to_nat count); Ok (mkName sd recs)) = Ok t ->
     Forall rec_ok (n_records t) /\ 6 + 12 * zlen (n_records t) <= zlen src /\ zlen (n_string_data t) <= zlen src).
  { intros sd Hsd. destruct (zlen src <? 6 + count * 12) eqn:EC; [discriminate|].
    destruct (name_recs src 0 (Z.to_nat count)) eqn:ER; cbn [bind]; try discriminate.
    intros H; inversion H; subst; cbn [n_records n_string_data].
    split; [eapply name_recs_ok; eauto|]. apply name_recs_len in ER. unfold zlen at 1. rewrite ER. split; [lia|exact Hsd]. }
  destruct (off =? 0) eqn:E0; cbn [bind].
  - apply K. rewrite zlen_nil. lia.
  - destruct (zlen src <? off) eqn:EO; cbn [bind]; [discriminate|].
    rewrite slice_from_ok by lia. cbn [bind]. apply K. rewrite zlen_zskipn by lia. lia.
Qed.

Lemma np_record_bytes t r : rec_ok r -> no_panic (name_record_bytes t r).
Proof.
  intros [? ?]. unfold name_record_bytes. destruct (_ <? _) eqn:E; [exact I|].
  unfold slice_checked. destruct (_ && _) eqn:E2; [exact I|lia].
Qed.
Lemma record_bytes_len t r v : rec_ok r -> name_record_bytes t r = Ok v -> zlen v <= zlen (n_string_data t).
Proof.
  intros [Hl Ho]. unfold name_record_bytes. destruct (_ <? _) eqn:E.
  - intros Hv; injection Hv as <-. rewrite zlen_nil. apply zlen_nonneg.
  - unfold slice_checked. destruct (_ && _) eqn:E2; intros Hv; [|discriminate]. injection Hv as <-.
    rewrite zlen_zfirstn; [lia|]. rewrite zlen_zskipn by lia. lia.
Qed.

Lemma np_utf16_units b n : forall i, 0 <= i -> 2 * (i + Z.of_nat n) <= zlen b -> no_panic (utf16_units b i n).
Proof.
  induction n as [|n IH]; intros i Hi Hl; cbn [utf16_units]; [exact I|].
  rewrite u16_at_ok by lia. cbn [bind]. apply np_bind; [apply IH; lia|]. intros; exact I.
Qed.
Lemma np_decode_utf16 b : no_panic (decode_utf16_units b).
Proof.
  unfold decode_utf16_units. pose proof (zlen_nonneg b). apply np_utf16_units; [lia|].
  rewrite Z2Nat.id by (apply Z.div_pos; lia). lia.
Qed.
Lemma utf16_units_len b n : forall i us, utf16_units b i n = Ok us -> length us = n.
Proof.
  induction n as [|n IH]; intros i us; cbn [utf16_units]. { intros H; inversion H; reflexivity. }
  destruct (u16_at b (2 * i)); cbn [bind]; try discriminate.
  destruct (utf16_units b (i + 1) n) eqn:E; cbn [bind]; try discriminate.
  intros H; inversion H; subst. simpl. f_equal. eapply IH; eauto.
Qed.

Lemma np_record_units t r : rec_ok r -> no_panic (name_record_units t r).
Proof.
  intros Hr. unfold name_record_units. apply np_bind; [apply np_record_bytes; exact Hr|].
  intros v _. destruct (_ =? 0); [apply np_decode_utf16|exact I].
Qed.
Lemma record_units_len t r us : rec_ok r -> name_record_units t r = Ok us -> zlen us <= zlen (n_string_data t).
Proof.
  intros Hr. unfold name_record_units.
  destruct (name_record_bytes t r) eqn:EB; cbn [bind]; try discriminate.
  apply record_bytes_len in EB; [|exact Hr].
  destruct (_ =? 0).
  - unfold decode_utf16_units. intros H. apply utf16_units_len in H. unfold zlen at 1. rewrite H.
    pose proof (zlen_nonneg a). rewrite Z2Nat.id by (apply Z.div_pos; lia). lia.
  - intros H; inversion H; subst. exact EB.
Qed.

Lemma np_all_units t rs : Forall rec_ok rs -> no_panic (name_all_units t rs).
Proof.
  induction 1 as [|r rs Hr Hrs IH]; cbn [name_all_units]; [exact I|].
  apply np_bind; [apply np_record_units; exact Hr|]. intros u _. apply np_bind; [exact IH|]. intros; exact I.
Qed.

Lemma name_total_lemma : forall src, bytes_ok src -> total (name_load_and_decode src).
Proof.
  intros src Hb. apply no_panic_total. unfold name_load_and_decode.
  apply np_bind; [apply np_parse_name; exact Hb|]. intros t Ht.
  apply parse_name_inv in Ht as [Hr _]; [|exact Hb].
  apply np_bind; [apply np_all_units; exact Hr|]. intros; exact I.
Qed.

Lemma name_alloc_bounded_lemma : forall src t, bytes_ok src -> parse_name src = Ok t ->
  12 * zlen (n_records t) <= zlen src /\
  forall r us, In r (n_records t) -> name_record_units t r = Ok us -> zlen us <= zlen src.
Proof.
  intros src t Hb Ht. apply parse_name_inv in Ht as (Hr & Hn & Hs); [|exact Hb]. split; [lia|].
  intros r us Hin Hu. rewrite Forall_forall in Hr. apply record_units_len in Hu; [lia|]. apply Hr; exact Hin.
Qed.

(* ---------- hhea / hmtx ---------- *)

Lemma np_long_metrics src n : forall i, 0 <= i -> (i + Z.of_nat n) * 4 <= zlen src -> no_panic (long_metrics src i n).
Proof.
  induction n as [|n IH]; intros i Hi Hl; cbn [long_metrics]; [exact I|].
  rewrite slice_from_ok by lia. cbn [bind].
  unfold long_metric_must_parse. rewrite zlen_zskipn by lia.
  replace (zlen src - i * 4 <? 4) with false by lia. cbn [bind].
  apply np_bind; [apply IH; lia|]. intros; exact I.
Qed.
Lemma long_metrics_len src n : forall i ms, long_metrics src i n = Ok ms -> length ms = n.
Proof.
  induction n as [|n IH]; intros i ms; cbn [long_metrics]. { intros H; inversion H; reflexivity. }
  destruct (slice_from src (i * 4)); cbn [bind]; try discriminate.
  destruct (long_metric_must_parse a); cbn [bind]; try discriminate.
  destruct (long_metrics src (i + 1) n) eqn:E; cbn [bind]; try discriminate.
  intros H; inversion H; subst. simpl. f_equal. eapply IH; eauto.
Qed.
Lemma np_side_bearings src base n : 0 <= base -> forall i, 0 <= i -> base + (i + Z.of_nat n) * 2 <= zlen src ->
  no_panic (side_bearings src base i n).
Proof.
  intros Hbase. induction n as [|n IH]; intros i Hi Hl; cbn [side_bearings]; [exact I|].
  rewrite u16_at_ok by lia. cbn [bind]. apply np_bind; [apply IH; lia|]. intros; exact I.
Qed.
Lemma side_bearings_len src base n : forall i ls, side_bearings src base i n = Ok ls -> length ls = n.
Proof.
  induction n as [|n IH]; intros i ls; cbn [side_bearings]. { intros H; inversion H; reflexivity. }
  destruct (u16_at src (base + i * 2)); cbn [bind]; try discriminate.
  destruct (side_bearings src base (i + 1) n) eqn:E; cbn [bind]; try discriminate.
  intros H; inversion H; subst. simpl. f_equal. eapply IH; eauto.
Qed.

Lemma np_parse_hmtx src m l : 0 <= m -> 0 <= l -> no_panic (parse_hmtx src m l).
Proof.
  intros Hm Hl. unfold parse_hmtx.
  destruct (zlen src <? m * 4) eqn:E1; [exact I|]. replace (m <? 0) with false by lia.
  apply np_bind; [apply np_long_metrics; lia|]. intros ms _.
  destruct (zlen src <? m * 4 + l * 2) eqn:E2; [exact I|]. replace (l <? 0) with false by lia.
  apply np_bind; [apply np_side_bearings; lia|]. intros; exact I.
Qed.
Lemma parse_hmtx_len src m l h : 0 <= m -> 0 <= l -> parse_hmtx src m l = Ok h ->
  zlen (hm_metrics h) = m /\ zlen (hm_lsb h) = l /\ 4 * m + 2 * l <= zlen src.
Proof.
  intros Hm Hl. unfold parse_hmtx.
  destruct (zlen src <? m * 4) eqn:E1; [discriminate|]. replace (m <? 0) with false by lia.
  destruct (long_metrics src 0 (Z.to_nat m)) eqn:EM; cbn [bind]; try discriminate.
  destruct (zlen src <? m * 4 + l * 2) eqn:E2; [discriminate|]. replace (l <? 0) with false by lia.
  destruct (side_bearings src (m * 4) 0 (Z.to_nat l)) eqn:EL; cbn [bind]; try discriminate.
  intros H; inversion H; subst; cbn [hm_metrics hm_lsb].
  apply long_metrics_len in EM. apply side_bearings_len in EL. unfold zlen at 1 2. rewrite EM, EL. lia.
Qed.

Lemma np_load_hvmtx hhea src ng : bytes_ok hhea -> no_panic (load_hvmtx hhea src ng).
Proof.
  intros Hb. unfold load_hvmtx. destruct (zlen hhea <? 36); [exact I|].
  pose proof (ti_get16_range (skipn 34 hhea) (ti_bytes_ok_skipn 34 hhea Hb)).
  apply np_parse_hmtx; [lia|]. destruct (_ <? 0) eqn:E; lia.
Qed.

Lemma np_hmtx_advance h gid : 0 <= gid -> no_panic (hmtx_advance h gid).
Proof.
  intros Hg. unfold hmtx_advance. pose proof (zlen_nonneg (hm_metrics h)). pose proof (zlen_nonneg (hm_lsb h)).
  destruct (gid <? zlen (hm_metrics h)) eqn:E1.
  - rewrite index_checked_ok by lia. exact I.
  - destruct (negb (zlen (hm_metrics h) =? 0) && (gid <? zlen (hm_lsb h) + zlen (hm_metrics h))) eqn:E2; [|exact I].
    rewrite index_checked_ok by lia. exact I.
Qed.
Lemma np_hmtx_side_bearing h gid : 0 <= gid -> no_panic (hmtx_side_bearing h gid).
Proof.
  intros Hg. unfold hmtx_side_bearing. pose proof (zlen_nonneg (hm_metrics h)). pose proof (zlen_nonneg (hm_lsb h)).
  destruct (gid <? zlen (hm_metrics h)) eqn:E1.
  - rewrite index_checked_ok by lia. exact I.
  - destruct (gid <? zlen (hm_lsb h) + zlen (hm_metrics h)) eqn:E2; [|exact I].
    rewrite index_checked_ok by lia. exact I.
Qed.

Lemma hmtx_total_lemma : forall hhea src num_glyphs gid, bytes_ok hhea -> 0 <= gid ->
  total (hmtx_query hhea src num_glyphs gid).
Proof.
  intros hhea src ng gid Hb Hg. apply no_panic_total. unfold hmtx_query.
  apply np_bind; [apply np_load_hvmtx; exact Hb|]. intros h _.
  apply np_bind; [apply np_hmtx_advance; exact Hg|]. intros a _.
  apply np_bind; [apply np_hmtx_side_bearing; exact Hg|]. intros; exact I.
Qed.

Lemma hmtx_alloc_bounded_lemma : forall hhea src num_glyphs h, bytes_ok hhea ->
  load_hvmtx hhea src num_glyphs = Ok h -> 4 * zlen (hm_metrics h) + 2 * zlen (hm_lsb h) <= zlen src.
Proof.
  intros hhea src ng h Hb. unfold load_hvmtx. destruct (zlen hhea <? 36); [discriminate|].
  pose proof (ti_get16_range (skipn 34 hhea) (ti_bytes_ok_skipn 34 hhea Hb)).
  intros H1. apply parse_hmtx_len in H1; [lia|lia|]. destruct (_ <? 0) eqn:E; lia.
Qed.

(* ---------- cmap 6 / 10 / 12 / 13 ---------- *)

Lemma np_u16_array src base n : 0 <= base -> forall i, 0 <= i -> base + (i + Z.of_nat n) * 2 <= zlen src ->
  no_panic (u16_array src base i n).
Proof.
  intros Hbase. induction n as [|n IH]; intros i Hi Hl; cbn [u16_array]; [exact I|].
  rewrite u16_at_ok by lia. cbn [bind]. apply np_bind; [apply IH; lia|]. intros; exact I.
Qed.
Lemma u16_array_len src base n : forall i es, u16_array src base i n = Ok es -> length es = n.
Proof.
  induction n as [|n IH]; intros i es; cbn [u16_array]. { intros H; inversion H; reflexivity. }
  destruct (u16_at src (base + i * 2)); cbn [bind]; try discriminate.
  destruct (u16_array src base (i + 1) n) eqn:E; cbn [bind]; try discriminate.
  intros H; inversion H; subst. simpl. f_equal. eapply IH; eauto.
Qed.

Lemma np_parse_cmap6 src : bytes_ok src -> no_panic (parse_cmap6 src).
Proof.
  intros Hb. unfold parse_cmap6. destruct (zlen src <? 10); [exact I|].
  pose proof (ti_get16_range (skipn 8 src) (ti_bytes_ok_skipn 8 src Hb)).
  destruct (zlen src <? 10 + get16 (skipn 8 src) * 2) eqn:E; [exact I|].
  apply np_bind; [apply np_u16_array; lia|]. intros; exact I.
Qed.
Lemma clamp10_len first es : zlen (clamp10 first es) <= zlen es.
Proof.
  unfold clamp10. destruct (1114111 <? first); [rewrite zlen_nil; apply zlen_nonneg|].
  unfold zfirstn, zlen. rewrite firstn_length. lia.
Qed.
Lemma np_parse_cmap10 src : bytes_ok src -> no_panic (parse_cmap10 src).
Proof.
  intros Hb. unfold parse_cmap10. destruct (zlen src <? 20); [exact I|].
  pose proof (get32_range (skipn 16 src) (ti_bytes_ok_skipn 16 src Hb)).
  destruct (zlen src <? 20 + get32 (skipn 16 src) * 2) eqn:E; [exact I|].
  apply np_bind; [apply np_u16_array; lia|]. intros; exact I.
Qed.
Lemma np_lookup610 c r : no_panic (lookup610 c r).
Proof.
  unfold lookup610. destruct (r <? c6_first c); [exact I|].
  destruct ((r - c6_first c <? 0) || (zlen (c6_entries c) <=? r - c6_first c)) eqn:E; [exact I|].
  rewrite index_checked_ok by lia. exact I.
Qed.

Lemma np_groups_from src n : forall i, 0 <= i -> 16 + (i + Z.of_nat n) * 12 <= zlen src -> no_panic (groups_from src i n).
Proof.
  induction n as [|n IH]; intros i Hi Hl; cbn [groups_from]; [exact I|].
  rewrite slice_from_ok by lia. cbn [bind].
  unfold group_must_parse. rewrite zlen_zskipn by lia.
  replace (zlen src - (16 + i * 12) <? 12) with false by lia. cbn [bind].
  apply np_bind; [apply IH; lia|]. intros; exact I.
Qed.
Lemma groups_from_len src n : forall i gs, groups_from src i n = Ok gs -> length gs = n.
Proof.
  induction n as [|n IH]; intros i gs; cbn [groups_from]. { intros H; inversion H; reflexivity. }
  destruct (slice_from src (16 + i * 12)); cbn [bind]; try discriminate.
  destruct (group_must_parse a); cbn [bind]; try discriminate.
  destruct (groups_from src (i + 1) n) eqn:E; cbn [bind]; try discriminate.
  intros H; inversion H; subst. simpl. f_equal. eapply IH; eauto.
Qed.
Lemma np_parse_cmap_groups src : bytes_ok src -> no_panic (parse_cmap_groups src).
Proof.
  intros Hb. unfold parse_cmap_groups. destruct (zlen src <? 16); [exact I|].
  pose proof (get32_range (skipn 12 src) (ti_bytes_ok_skipn 12 src Hb)).
  destruct (zlen src <? 16 + get32 (skipn 12 src) * 12) eqn:E; [exact I|].
  apply np_groups_from; lia.
Qed.

Lemma np_lookup_groups_loop is13 s c : forall fuel i j, 0 <= i -> j <= zlen s -> j - i < Z.of_nat fuel ->
  no_panic (lookup_groups_loop is13 s c i j fuel).
Proof.
  induction fuel as [|fuel IH]; intros i j Hi Hj Hf.
  - cbn [lookup_groups_loop]. replace (negb (i <? j)) with true by lia. exact I.
  - cbn [lookup_groups_loop]. destruct (negb (i <? j)) eqn:E; [exact I|].
    assert (Hh : i <= i + (j - i) / 2 < j) by lia.
    rewrite index_checked_ok by lia. cbn [bind].
    destruct (c <? _); [apply IH; lia|].
    destruct (_ <? c); [apply IH; lia|]. exact I.
Qed.
Lemma np_lookup_groups is13 s r : no_panic (lookup_groups is13 s r).
Proof. unfold lookup_groups. apply np_lookup_groups_loop; unfold zlen; lia. Qed.

Lemma np_cmap_sub_parse src : bytes_ok src -> no_panic (cmap_sub_parse src).
Proof.
  intros Hb. unfold cmap_sub_parse. destruct (zlen src <? 2); [exact I|].
  destruct (get16 src =? 6). { apply np_bind; [apply np_parse_cmap6; exact Hb|]. intros; exact I. }
  destruct (get16 src =? 10). { apply np_bind; [apply np_parse_cmap10; exact Hb|]. intros; exact I. }
  destruct (get16 src =? 12). { apply np_bind; [apply np_parse_cmap_groups; exact Hb|]. intros; exact I. }
  destruct (get16 src =? 13). { apply np_bind; [apply np_parse_cmap_groups; exact Hb|]. intros; exact I. }
  exact I.
Qed.
Lemma np_cmap_val_lookup v r : no_panic (cmap_val_lookup v r).
Proof. destruct v; cbn [cmap_val_lookup]; [apply np_lookup610|apply np_lookup_groups]. Qed.

Lemma cmap_sub_lookup_total_lemma : forall src r, bytes_ok src -> total (cmap_sub_lookup src r).
Proof.
  intros src r Hb. apply no_panic_total. unfold cmap_sub_lookup.
  apply np_bind; [apply np_cmap_sub_parse; exact Hb|]. intros; apply np_cmap_val_lookup.
Qed.

Lemma sanitize_acc_len gs : forall acc, zlen (sanitize_groups_acc gs acc) <= zlen gs + zlen acc.
Proof.
  induction gs as [|g gs IH]; intros acc; cbn [sanitize_groups_acc].
  - unfold zlen. rewrite rev_length. simpl. lia.
  - rewrite zlen_cons. destruct (_ || _).
    + specialize (IH acc). lia.
    + specialize (IH (mkGroup (g_start g) (if max_rune <? g_end g then max_rune else g_end g) (g_glyph g) :: acc)).
      rewrite zlen_cons in IH. lia.
Qed.

Lemma cmap_alloc_bounded_lemma : forall src, bytes_ok src ->
  (forall c, parse_cmap6 src = Ok c -> 10 + 2 * zlen (c6_entries c) <= zlen src) /\
  (forall c, parse_cmap10 src = Ok c -> 20 + 2 * zlen (c6_entries c) <= zlen src) /\
  (forall gs, parse_cmap_groups src = Ok gs ->
     16 + 12 * zlen gs <= zlen src /\ zlen (sanitize_groups gs) <= zlen gs).
Proof.
  intros src Hb. repeat split.
  - intros c. unfold parse_cmap6. destruct (zlen src <? 10); [discriminate|].
    pose proof (ti_get16_range (skipn 8 src) (ti_bytes_ok_skipn 8 src Hb)).
    destruct (zlen src <? _) eqn:E; [discriminate|].
    destruct (u16_array src 10 0 _) eqn:EA; cbn [bind]; try discriminate.
    intros H1; inversion H1; subst; cbn [c6_entries]. apply u16_array_len in EA. unfold zlen at 1. rewrite EA. lia.
  - intros c. unfold parse_cmap10. destruct (zlen src <? 20); [discriminate|].
    pose proof (get32_range (skipn 16 src) (ti_bytes_ok_skipn 16 src Hb)).
    destruct (zlen src <? _) eqn:E; [discriminate|].
    destruct (u16_array src 20 0 _) eqn:EA; cbn [bind]; try discriminate.
    intros H1; inversion H1; subst; cbn [c6_entries]. apply u16_array_len in EA.
    match goal with |- context[clamp10 ?f a] => pose proof (clamp10_len f a) as Hle end.
    assert (Ha : zlen a = get32 (skipn 16 src)) by (unfold zlen; rewrite EA; lia).
    apply Z.ltb_ge in E. lia.
  - revert H. unfold parse_cmap_groups. destruct (zlen src <? 16); [discriminate|].
    pose proof (get32_range (skipn 12 src) (ti_bytes_ok_skipn 12 src Hb)).
    destruct (zlen src <? _) eqn:E; [discriminate|].
    intros EA. apply groups_from_len in EA. unfold zlen at 1. rewrite EA. lia.
  - pose proof (sanitize_acc_len gs []). rewrite zlen_nil in *. unfold sanitize_groups. lia.
Qed.

Lemma cmap_size_bounded_lemma : forall src v, bytes_ok src -> cmap_sub_parse src = Ok v -> 2 * cmap_val_size v <= zlen src.
Proof.
  intros src v Hb. destruct (cmap_alloc_bounded_lemma src Hb) as (H6 & H10 & HG).
  unfold cmap_sub_parse. destruct (zlen src <? 2); [discriminate|].
  assert (KG : forall is13, (do gs <- parse_cmap_groups src; Ok (CGroups is13 (sanitize_groups gs))) = Ok v -> 2 * cmap_val_size v <= zlen src).
  { intros is13. destruct (parse_cmap_groups src) eqn:E; cbn [bind]; try discriminate.
    intros Hv; injection Hv as <-. cbn [cmap_val_size]. destruct (HG _ eq_refl) as [A B]. pose proof (zlen_nonneg a). lia. }
  destruct (get16 src =? 6).
  { destruct (parse_cmap6 src) eqn:E; cbn [bind]; try discriminate. intros Hv; injection Hv as <-.
    cbn [cmap_val_size]. specialize (H6 _ eq_refl). lia. }
  destruct (get16 src =? 10).
  { destruct (parse_cmap10 src) eqn:E; cbn [bind]; try discriminate. intros Hv; injection Hv as <-.
    cbn [cmap_val_size]. specialize (H10 _ eq_refl). lia. }
  destruct (get16 src =? 12); [apply KG|]. destruct (get16 src =? 13); [apply KG|]. discriminate.
Qed.
