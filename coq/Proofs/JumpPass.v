(* Cursor jumps (C18).  The lookups of the library move the cursor over glyphs their iterator skipped (legacy kerning and
   PairPos: `buffer.idx = skippyIter.idx`), the passes of the cut theorem advance glyph by glyph.  When every glyph that is
   jumped over is INERT for the glyph-by-glyph step (it is stepped over without a change), the two loops compute the
   same. *)
From Coq Require Import List Lia.
Import ListNotations.

Section Jump.
Context {A : Type}.

Fixpoint zloop (s : list A -> list A -> list A * list A) (fuel : nat) (d t : list A) : list A :=
  match fuel with
  | O => d ++ t
  | S f => match t with
           | [] => d
           | _ => zloop s f (fst (s d t)) (snd (s d t))
           end
  end.

Variables su sf : list A -> list A -> list A * list A.
Variable inert : A -> Prop.
Variable Q : list A -> Prop.

Hypothesis prog_u : forall d t, t <> [] -> (length (snd (su d t)) < length t)%nat.
Hypothesis inert_step : forall z d t, inert z -> su d (z :: t) = (d ++ [z], t).
Hypothesis Q_tail : forall z t, Q (z :: t) -> Q t.
Hypothesis rel : forall d t, t <> [] -> Q t ->
  exists du sk tf, su d t = (du, sk ++ tf) /\ sf d t = (du ++ sk, tf) /\ Forall inert sk /\ Q (sk ++ tf).

Lemma zloop_nil s f d : zloop s f d [] = d.
Proof. destruct f; cbn; [apply app_nil_r|reflexivity]. Qed.

Lemma zloop_fuel : forall f1 f2 d t, (length t <= f1)%nat -> (length t <= f2)%nat -> zloop su f1 d t = zloop su f2 d t.
Proof.
  induction f1 as [|f1 IH]; intros f2 d t H1 H2.
  - destruct t; [|cbn in H1; lia]. rewrite !zloop_nil. reflexivity.
  - destruct t as [|x t]; [rewrite !zloop_nil; reflexivity|].
    destruct f2 as [|f2]; [cbn in H2; lia|]. cbn [zloop].
    pose proof (prog_u d (x :: t) ltac:(discriminate)) as Hp. apply IH; cbn [length] in *; lia.
Qed.

Lemma Q_skip : forall sk t, Q (sk ++ t) -> Q t.
Proof. induction sk as [|z sk IH]; intros t H; [exact H|]. apply IH. apply (Q_tail z). exact H. Qed.

Lemma zloop_skip : forall sk f d t, Forall inert sk -> (length (sk ++ t) <= f)%nat ->
  zloop su f d (sk ++ t) = zloop su (f - length sk) (d ++ sk) t.
Proof.
  induction sk as [|z sk IH]; intros f d t Hs Hf.
  - cbn. rewrite app_nil_r, PeanoNat.Nat.sub_0_r. reflexivity.
  - inversion Hs as [|? ? Hz Hs']; subst. destruct f as [|f]; [cbn in Hf; lia|].
    cbn [app zloop]. rewrite (inert_step z d (sk ++ t) Hz). cbn [fst snd].
    rewrite IH; [|exact Hs'|cbn in Hf; lia]. cbn [length]. rewrite <- app_assoc. reflexivity.
Qed.

Theorem jump_eq : forall n f d t, (length t <= n)%nat -> (length t <= f)%nat -> Q t -> zloop sf f d t = zloop su f d t.
Proof.
  induction n as [|n IH]; intros f d t Hn Hf HQ.
  - destruct t; [|cbn in Hn; lia]. rewrite !zloop_nil. reflexivity.
  - destruct t as [|x rest]; [rewrite !zloop_nil; reflexivity|].
    destruct f as [|f]; [cbn in Hf; lia|].
    destruct (rel d (x :: rest) ltac:(discriminate) HQ) as (du & sk & tf & Eu & Ef & Hi & HQ').
    pose proof (prog_u d (x :: rest) ltac:(discriminate)) as Hp. rewrite Eu in Hp. cbn [snd] in Hp.
    rewrite app_length in Hp. cbn [length] in Hn, Hf, Hp.
    cbn [zloop]. rewrite Eu, Ef. cbn [fst snd].
    rewrite IH; [|lia|lia|apply (Q_skip sk); exact HQ'].
    rewrite zloop_skip; [|exact Hi|rewrite app_length; lia].
    apply zloop_fuel; lia.
Qed.

End Jump.
