(* Lemmas for C08: visual order of the runs of a line. *)
From Coq Require Import Permutation.
From TV Require Import Lib.GoNum Model.BidiOrder Spec.L2.

(* ---- lists indexed by Z ------------------------------------------------------------------- *)
Lemma zfirstn_app_l {A} n (l1 l2 : list A) : zlen l1 = n -> zfirstn n (l1 ++ l2) = l1.
Proof. intros <-. apply zfirstn_app_exact. Qed.
Lemma zskipn_app_l {A} n (l1 l2 : list A) : zlen l1 = n -> zskipn n (l1 ++ l2) = l2.
Proof. intros <-. apply zskipn_app_exact. Qed.
Lemma zfirstn_all {A} n (l : list A) : zlen l <= n -> zfirstn n l = l.
Proof. unfold zfirstn, zlen. intros. apply firstn_all2. lia. Qed.
Lemma zskipn_all {A} n (l : list A) : zlen l <= n -> zskipn n l = [].
Proof. unfold zskipn, zlen. intros. apply skipn_all2. lia. Qed.

Lemma set_nth_app {A} (l1 l2 : list A) i x y : zlen l1 = i -> set_nth (l1 ++ y :: l2) i x = l1 ++ x :: l2.
Proof.
  intros H. unfold set_nth. rewrite zfirstn_app_l by assumption.
  replace (l1 ++ y :: l2) with ((l1 ++ [y]) ++ l2) by (rewrite <- app_assoc; reflexivity).
  rewrite zskipn_app_l; [reflexivity|]. rewrite zlen_app, zlen_cons, zlen_nil. lia.
Qed.

Lemma split_at {A} (l : list A) i : 0 <= i < zlen l ->
  exists l1 y l2, l = l1 ++ y :: l2 /\ zlen l1 = i.
Proof.
  intros H. exists (zfirstn i l).
  destruct (zskipn i l) as [|y l2] eqn:E.
  - assert (zlen (zskipn i l) = zlen l - i) by (apply zlen_zskipn; lia). rewrite E, zlen_nil in H0. lia.
  - exists y, l2. split.
    + rewrite <- E. unfold zfirstn, zskipn. symmetry. apply firstn_skipn.
    + apply zlen_zfirstn. lia.
Qed.

Lemma znth_app_mid {A} (d : A) l1 y l2 i : zlen l1 = i -> znth d (l1 ++ y :: l2) i = y.
Proof.
  intros H. unfold znth. pose proof (zlen_nonneg l1).
  destruct (i <? 0) eqn:E; [lia|].
  rewrite app_nth2 by (unfold zlen in *; lia).
  replace (Z.to_nat i - length l1)%nat with O by (unfold zlen in *; lia). reflexivity.
Qed.

Lemma zlen_set_nth {A} (l : list A) i x : 0 <= i < zlen l -> zlen (set_nth l i x) = zlen l.
Proof.
  intros H. destruct (split_at l i H) as (l1 & y & l2 & -> & Hl).
  rewrite (set_nth_app l1 l2 i x y Hl). rewrite !zlen_app, !zlen_cons. lia.
Qed.

Lemma znth_set_nth {A} (d : A) (l : list A) i x k : 0 <= i < zlen l ->
  znth d (set_nth l i x) k = if k =? i then x else znth d l k.
Proof.
  intros H. destruct (split_at l i H) as (l1 & y & l2 & -> & Hl).
  rewrite (set_nth_app l1 l2 i x y Hl).
  destruct (k =? i) eqn:E.
  - apply Z.eqb_eq in E. subst k. apply znth_app_mid; assumption.
  - apply Z.eqb_neq in E. unfold znth. destruct (k <? 0) eqn:Ek; [reflexivity|].
    assert (length l1 = Z.to_nat i) by (unfold zlen in Hl; lia).
    destruct (Nat.lt_ge_cases (Z.to_nat k) (length l1)).
    + rewrite !app_nth1 by assumption. reflexivity.
    + rewrite !app_nth2 by assumption.
      destruct (Z.to_nat k - length l1)%nat eqn:E2; [lia|]. reflexivity.
Qed.

Lemma list_eq_znth {A} (d : A) (a b : list A) :
  zlen a = zlen b -> (forall k, 0 <= k < zlen a -> znth d a k = znth d b k) -> a = b.
Proof.
  intros Hl H. apply (nth_ext a b d d). { unfold zlen in Hl. lia. }
  intros n Hn. specialize (H (Z.of_nat n)). unfold znth in H.
  destruct (Z.of_nat n <? 0) eqn:E; [lia|]. rewrite Nat2Z.id in H. apply H. unfold zlen. lia.
Qed.

Lemma znth_rev {A} (d : A) (l : list A) k : 0 <= k < zlen l -> znth d (rev l) k = znth d l (zlen l - 1 - k).
Proof.
  intros H. unfold znth. destruct (k <? 0) eqn:E; [lia|]. destruct (zlen l - 1 - k <? 0) eqn:E2; [lia|].
  rewrite rev_nth by (unfold zlen in H; lia). f_equal. unfold zlen in *. lia.
Qed.

(* ---- swapVisualOrder reverses ------------------------------------------------------------- *)
Lemma swap_loop_spec cnt : forall i v, 0 <= i -> 2 * (i + Z.of_nat cnt) <= zlen v ->
  zlen (swap_loop cnt i (zlen v) v) = zlen v /\
  forall k, 0 <= k < zlen v ->
    znth 0 (swap_loop cnt i (zlen v) v) k =
    if ((i <=? k) && (k <? i + Z.of_nat cnt)) || ((i <=? zlen v - 1 - k) && (zlen v - 1 - k <? i + Z.of_nat cnt))
    then znth 0 v (zlen v - 1 - k) else znth 0 v k.
Proof.
  induction cnt as [|c IH]; intros i v Hi Hc.
  - cbn [swap_loop]. split; [reflexivity|]. intros k Hk.
    replace (i + Z.of_nat 0) with i by lia.
    destruct ((i <=? k) && (k <? i)) eqn:E1; [lia|].
    destruct ((i <=? zlen v - 1 - k) && (zlen v - 1 - k <? i)) eqn:E2; [lia|]. reflexivity.
  - cbn [swap_loop]. set (L := zlen v). set (j := L - i - 1).
    set (v' := set_nth (set_nth v i (znth 0 v j)) j (znth 0 v i)).
    assert (Hj : i < j < L) by (unfold j, L; lia).
    assert (L1 : zlen (set_nth v i (znth 0 v j)) = L) by (apply zlen_set_nth; unfold L in *; lia).
    assert (L2 : zlen v' = L) by (unfold v'; rewrite zlen_set_nth; lia).
    specialize (IH (i + 1) v' ltac:(lia) ltac:(rewrite L2; unfold L; lia)).
    rewrite L2 in IH. destruct IH as [IH1 IH2]. split; [exact IH1|].
    intros k Hk. rewrite IH2 by exact Hk.
    assert (Hv' : forall q, znth 0 v' q = if q =? j then znth 0 v i else if q =? i then znth 0 v j else znth 0 v q).
    { intros q. unfold v'. rewrite znth_set_nth by lia. destruct (q =? j); [reflexivity|].
      rewrite znth_set_nth by (unfold L in *; lia). reflexivity. }
    rewrite !Hv'. fold L.
    replace (i + Z.of_nat (S c)) with (i + 1 + Z.of_nat c) by lia.
    assert (Hc' : 2 * (i + 1 + Z.of_nat c) <= L) by (unfold L; lia).
    destruct (Z.eq_dec k i) as [->|N1].
    { rewrite Z.eqb_refl. replace (i =? j) with false by lia.
      replace (L - 1 - i =? j) with true by (unfold j; lia).
      replace ((i + 1 <=? i) && (i <? i + 1 + Z.of_nat c)) with false by lia.
      replace ((i + 1 <=? L - 1 - i) && (L - 1 - i <? i + 1 + Z.of_nat c)) with false by lia.
      replace ((i <=? i) && (i <? i + 1 + Z.of_nat c)) with true by lia. cbn [orb].
      f_equal. unfold j. lia. }
    destruct (Z.eq_dec k j) as [->|N2].
    { rewrite Z.eqb_refl.
      replace (L - 1 - j =? j) with false by (unfold j; lia).
      replace (L - 1 - j =? i) with true by (unfold j; lia).
      replace ((i + 1 <=? j) && (j <? i + 1 + Z.of_nat c)) with false by (unfold j; lia).
      replace ((i + 1 <=? L - 1 - j) && (L - 1 - j <? i + 1 + Z.of_nat c)) with false by (unfold j; lia).
      replace ((i <=? L - 1 - j) && (L - 1 - j <? i + 1 + Z.of_nat c)) with true by (unfold j; lia).
      rewrite orb_true_r. cbn [orb]. replace (L - 1 - j) with i by (unfold j; lia). reflexivity. }
    replace (k =? j) with false by lia. replace (k =? i) with false by lia.
    replace (L - 1 - k =? j) with false by (unfold j; lia).
    replace (L - 1 - k =? i) with false by (unfold j in *; lia).
    replace ((i <=? k) && (k <? i + 1 + Z.of_nat c)) with ((i + 1 <=? k) && (k <? i + 1 + Z.of_nat c)) by lia.
    replace ((i <=? L - 1 - k) && (L - 1 - k <? i + 1 + Z.of_nat c))
      with ((i + 1 <=? L - 1 - k) && (L - 1 - k <? i + 1 + Z.of_nat c)) by (unfold j in *; lia).
    reflexivity.
Qed.

Lemma swap_visual_order_rev v : swap_visual_order v = rev v.
Proof.
  unfold swap_visual_order.
  assert (H0 : 0 <= zlen v) by apply zlen_nonneg.
  assert (Hd : 2 * (zlen v / 2) <= zlen v) by (apply Z.mul_div_le; lia).
  assert (Hd2 : zlen v < 2 * (zlen v / 2) + 2).
  { pose proof (Z.div_mod (zlen v) 2 ltac:(lia)). pose proof (Z.mod_pos_bound (zlen v) 2 ltac:(lia)). lia. }
  assert (Hp : 0 <= zlen v / 2) by (apply Z.div_pos; lia).
  destruct (swap_loop_spec (Z.to_nat (zlen v / 2)) 0 v ltac:(lia) ltac:(rewrite Z2Nat.id by lia; lia)) as [H1 H2].
  apply (list_eq_znth 0).
  - rewrite H1. unfold zlen. rewrite rev_length. reflexivity.
  - rewrite H1. intros k Hk. rewrite H2 by exact Hk. rewrite znth_rev by exact Hk.
    rewrite Z2Nat.id by lia.
    destruct (((0 <=? k) && (k <? 0 + zlen v / 2)) || ((0 <=? zlen v - 1 - k) && (zlen v - 1 - k <? 0 + zlen v / 2))) eqn:E.
    + reflexivity.
    + f_equal. lia.
Qed.

(* ---- computeBidiOrdering: closed form ------------------------------------------------------ *)
Definition basef (pdir n i : Z) : Z := if toward pdir then n - 1 - i else i.

(* G idx dirs pv: the final visual indices of the runs from the start of the pending opposite-direction
   sequence on; pv = base positions of that sequence, last first *)
Fixpoint G (pdir n idx : Z) (dirs : list Z) (pv : list Z) : list Z :=
  match dirs with
  | [] => pv
  | d :: r => if Bool.eqb (toward d) (toward pdir)
              then pv ++ basef pdir n idx :: G pdir n (idx + 1) r []
              else G pdir n (idx + 1) r (basef pdir n idx :: pv)
  end.

Definition cbo_fin (n : Z) (p : list Z * Z) : list Z :=
  let '(v', bs) := p in if negb (bs =? -1) then swap_range v' bs n else v'.

Lemma cbo_unfold pdir dirs v : cbo pdir dirs v = cbo_fin (zlen dirs) (cbo_loop pdir (zlen dirs) 0 dirs v (-1)).
Proof. reflexivity. Qed.

Lemma swap_range_mid (done mid tail : list Z) a b :
  zlen done = a -> zlen mid = b - a -> swap_range (done ++ mid ++ tail) a b = done ++ rev mid ++ tail.
Proof.
  intros Ha Hb. unfold swap_range.
  assert (E : zskipn b (done ++ mid ++ tail) = tail).
  { rewrite app_assoc. apply zskipn_app_l. rewrite zlen_app. lia. }
  rewrite E.
  rewrite zfirstn_app_l by assumption. rewrite zskipn_app_l by assumption.
  rewrite zfirstn_app_l by assumption. rewrite swap_visual_order_rev. reflexivity.
Qed.

Lemma zlen_rev {A} (l : list A) : zlen (rev l) = zlen l.
Proof. unfold zlen. rewrite rev_length. reflexivity. Qed.

Lemma zlen_0_nil {A} (l : list A) : zlen l = 0 -> l = [].
Proof. destruct l; [reflexivity|]. rewrite zlen_cons. pose proof (zlen_nonneg l). lia. Qed.

Lemma cbo_loop_G pdir n : forall rest idx done pv stale bs N,
  zlen done = idx - zlen pv -> zlen stale = zlen rest ->
  bs = (if zlen pv =? 0 then -1 else idx - zlen pv) -> N = idx + zlen rest ->
  cbo_fin N (cbo_loop pdir n idx rest (done ++ rev pv ++ stale) bs) = done ++ G pdir n idx rest pv.
Proof.
  induction rest as [|d rest IH]; intros idx done pv stale bs N Hd Hs Hb HN.
  - apply zlen_0_nil in Hs. subst stale. cbn [cbo_loop cbo_fin G]. rewrite zlen_nil in HN.
    destruct pv as [|x pv].
    + rewrite zlen_nil in Hb. cbn in Hb. subst bs. cbn. rewrite app_nil_r. reflexivity.
    + pose proof (zlen_nonneg done). pose proof (zlen_nonneg pv). rewrite zlen_cons in *.
      replace (1 + zlen pv =? 0) with false in Hb by lia. subst bs.
      replace (negb (idx - (1 + zlen pv) =? -1)) with true by lia.
      rewrite swap_range_mid; [rewrite rev_involutive, app_nil_r; reflexivity | lia | rewrite zlen_rev, zlen_cons; lia].
  - destruct stale as [|x stale]; [rewrite zlen_nil, zlen_cons in Hs; pose proof (zlen_nonneg rest); lia|].
    rewrite !zlen_cons in *. cbn [cbo_loop G]. fold (basef pdir n idx).
    assert (Hv1 : set_nth (done ++ rev pv ++ x :: stale) idx (basef pdir n idx) = done ++ rev pv ++ basef pdir n idx :: stale).
    { rewrite !app_assoc. apply set_nth_app. rewrite zlen_app, zlen_rev. lia. }
    rewrite Hv1. pose proof (zlen_nonneg done).
    destruct (Bool.eqb (toward d) (toward pdir)).
    + destruct pv as [|y pv].
      * rewrite zlen_nil in *. cbn in Hb. subst bs. rewrite Z.eqb_refl. cbn [negb rev app].
        replace (done ++ basef pdir n idx :: stale) with ((done ++ [basef pdir n idx]) ++ rev [] ++ stale)
          by (rewrite <- app_assoc; reflexivity).
        rewrite (IH (idx + 1) (done ++ [basef pdir n idx]) [] stale (-1) N); try reflexivity; try lia.
        -- rewrite <- app_assoc. reflexivity.
        -- rewrite zlen_app, zlen_cons, !zlen_nil. lia.
      * pose proof (zlen_nonneg pv). rewrite zlen_cons in *.
        replace (1 + zlen pv =? 0) with false in Hb by lia. subst bs.
        replace (negb (idx - (1 + zlen pv) =? -1)) with true by lia.
        rewrite swap_range_mid; [| lia | rewrite zlen_rev, zlen_cons; lia]. rewrite rev_involutive.
        replace (done ++ (y :: pv) ++ basef pdir n idx :: stale)
          with ((done ++ (y :: pv) ++ [basef pdir n idx]) ++ rev [] ++ stale)
          by (rewrite <- !app_assoc; reflexivity).
        rewrite (IH (idx + 1) (done ++ (y :: pv) ++ [basef pdir n idx]) [] stale (-1) N); try reflexivity; try lia.
        -- rewrite <- !app_assoc. reflexivity.
        -- rewrite !zlen_app, !zlen_cons, !zlen_nil. lia.
    + destruct pv as [|y pv].
      * rewrite zlen_nil in *. cbn in Hb. subst bs. rewrite Z.eqb_refl. cbn [rev app].
        replace (done ++ basef pdir n idx :: stale) with (done ++ rev [basef pdir n idx] ++ stale) by reflexivity.
        apply IH; try lia.
        -- rewrite zlen_cons, zlen_nil. lia.
        -- rewrite zlen_cons, zlen_nil. cbn. lia.
      * pose proof (zlen_nonneg pv). rewrite zlen_cons in *.
        replace (1 + zlen pv =? 0) with false in Hb by lia. subst bs.
        replace (idx - (1 + zlen pv) =? -1) with false by lia.
        replace (done ++ rev (y :: pv) ++ basef pdir n idx :: stale)
          with (done ++ rev (basef pdir n idx :: y :: pv) ++ stale)
          by (cbn [rev]; rewrite <- !app_assoc; reflexivity).
        apply IH; try lia.
        -- rewrite !zlen_cons. lia.
        -- rewrite !zlen_cons. replace (1 + (1 + zlen pv) =? 0) with false by lia. lia.
Qed.

Lemma cbo_closed pdir dirs v : zlen v = zlen dirs -> cbo pdir dirs v = G pdir (zlen dirs) 0 dirs [].
Proof.
  intros H. rewrite cbo_unfold.
  change v with ([] ++ rev [] ++ v).
  rewrite (cbo_loop_G pdir (zlen dirs) dirs 0 [] [] v (-1) (zlen dirs)); try reflexivity; try lia.
Qed.

(* ---- integer sequences --------------------------------------------------------------------- *)
Fixpoint zseq (s : Z) (m : nat) : list Z := match m with O => [] | S m' => s :: zseq (s + 1) m' end.

Lemma zseq_snoc m : forall s, zseq s (S m) = zseq s m ++ [s + Z.of_nat m].
Proof.
  induction m as [|m IH]; intros s.
  - cbn. f_equal. lia.
  - change (zseq s (S (S m))) with (s :: zseq (s + 1) (S m)). rewrite IH. cbn [zseq app]. do 3 f_equal. lia.
Qed.
Lemma ziota_zseq_gen m : forall a, map Z.of_nat (seq a m) = zseq (Z.of_nat a) m.
Proof.
  induction m as [|m IH]; intros a; [reflexivity|]. cbn [seq map zseq]. f_equal.
  rewrite IH. f_equal. lia.
Qed.
Lemma ziota_zseq m : ziota m = zseq 0 m.
Proof. apply (ziota_zseq_gen m 0%nat). Qed.
Lemma zseq_length s m : length (zseq s m) = m.
Proof. revert s; induction m; intros; cbn; [reflexivity|]. f_equal. apply IHm. Qed.

Lemma map_sub_zseq c m : forall s, map (fun i => c - i) (zseq s m) = rev (zseq (c - s - Z.of_nat m + 1) m).
Proof.
  induction m as [|m IH]; intros s; [reflexivity|].
  rewrite (zseq_snoc m (c - s - Z.of_nat (S m) + 1)), rev_app_distr. cbn [zseq map rev app]. f_equal; [lia|].
  rewrite IH. do 2 f_equal. lia.
Qed.

Lemma basef_iota pdir m :
  map (basef pdir (Z.of_nat m)) (zseq 0 m) = if toward pdir then rev (zseq 0 m) else zseq 0 m.
Proof.
  unfold basef. destruct (toward pdir).
  - rewrite (map_sub_zseq (Z.of_nat m - 1) m 0). do 2 f_equal. lia.
  - apply map_id.
Qed.

(* ---- permutation --------------------------------------------------------------------------- *)
Lemma G_perm pdir n : forall dirs idx pv,
  Permutation (G pdir n idx dirs pv) (pv ++ map (basef pdir n) (zseq idx (length dirs))).
Proof.
  induction dirs as [|d r IH]; intros idx pv.
  - cbn. rewrite app_nil_r. apply Permutation_refl.
  - cbn [G length zseq map]. destruct (Bool.eqb (toward d) (toward pdir)).
    + apply Permutation_app_head. apply perm_skip. apply (IH (idx + 1) []).
    + eapply Permutation_trans; [apply IH|]. cbn [app]. apply Permutation_middle.
Qed.

Lemma set_vis_all_vis : forall line v, length v = length line -> map r_vis (set_vis_all line v) = v.
Proof.
  induction line as [|r line IH]; intros [|x v] H; try discriminate; [reflexivity|].
  cbn. f_equal. apply IH. cbn in H. lia.
Qed.
Lemma set_vis_all_length : forall line v, length (set_vis_all line v) = length line.
Proof.
  induction line as [|r line IH]; intros [|x v]; cbn; try reflexivity. f_equal. apply IH.
Qed.

Lemma G_length pdir n : forall dirs idx pv, length (G pdir n idx dirs pv) = (length pv + length dirs)%nat.
Proof.
  intros. rewrite (Permutation_length (G_perm pdir n dirs idx pv)).
  rewrite app_length, map_length, zseq_length. reflexivity.
Qed.

Lemma cbo_vis pdir line :
  map r_vis (compute_bidi_ordering pdir line) = G pdir (zlen line) 0 (map r_dir line) [].
Proof.
  unfold compute_bidi_ordering.
  rewrite cbo_closed by (unfold zlen; rewrite !map_length; reflexivity).
  replace (zlen (map r_dir line)) with (zlen line) by (unfold zlen; rewrite map_length; reflexivity).
  apply set_vis_all_vis. rewrite G_length, map_length. reflexivity.
Qed.

Lemma permutation_lemma pdir line :
  Permutation (map r_vis (compute_bidi_ordering pdir line)) (ziota (length line)).
Proof.
  rewrite cbo_vis. eapply Permutation_trans; [apply G_perm|]. cbn [app].
  rewrite map_length, ziota_zseq. unfold zlen. rewrite basef_iota.
  destruct (toward pdir); [symmetry; apply Permutation_rev | apply Permutation_refl].
Qed.

(* the result does not depend on the VisualIndex values found in the runs *)
Lemma cbo_vis_dirs pdir line line' : map r_dir line = map r_dir line' ->
  map r_vis (compute_bidi_ordering pdir line) = map r_vis (compute_bidi_ordering pdir line').
Proof.
  intros H. rewrite !cbo_vis, H.
  replace (zlen line) with (zlen line'); [reflexivity|].
  unfold zlen. f_equal. rewrite <- (map_length r_dir line), <- (map_length r_dir line'), H. reflexivity.
Qed.

(* ---- rule L2: one pass ---------------------------------------------------------------------- *)
Section RevPass.
Context {A : Type}.
Implicit Types (items pend xs ys : list (nat * A)).

Lemma rev_pass_ge t xs : forall ys pend, Forall (fun x => (t <= fst x)%nat) xs ->
  rev_pass t (xs ++ ys) pend = rev_pass t ys (rev xs ++ pend).
Proof.
  induction xs as [|x xs IH]; intros ys pend H; [reflexivity|].
  inversion H as [|? ? Hx Hxs]; subst. cbn [app rev_pass].
  replace (t <=? fst x)%nat with true by (symmetry; apply Nat.leb_le; exact Hx).
  rewrite IH by assumption. cbn [rev]. rewrite <- app_assoc. reflexivity.
Qed.
Lemma rev_pass_all_ge t xs : Forall (fun x => (t <= fst x)%nat) xs -> rev_pass t xs [] = rev xs.
Proof.
  intros H. rewrite <- (app_nil_r xs) at 1. rewrite rev_pass_ge by assumption. cbn. apply app_nil_r.
Qed.
Lemma rev_pass_all_lt t xs : Forall (fun x => (fst x < t)%nat) xs -> rev_pass t xs [] = xs.
Proof.
  induction xs as [|x xs IH]; intros H; [reflexivity|].
  inversion H as [|? ? Hx Hxs]; subst. cbn [rev_pass].
  replace (t <=? fst x)%nat with false by (symmetry; apply Nat.leb_gt; exact Hx).
  cbn [app]. f_equal. apply IH. assumption.
Qed.
Lemma rev_pass_invol t : forall items pend, Forall (fun x => (t <= fst x)%nat) pend ->
  rev_pass t (rev_pass t items pend) [] = rev pend ++ items.
Proof.
  induction items as [|x r IH]; intros pend H.
  - cbn [rev_pass]. rewrite rev_pass_all_ge by assumption. rewrite app_nil_r. reflexivity.
  - cbn [rev_pass]. destruct (t <=? fst x)%nat eqn:E.
    + rewrite IH by (constructor; [apply Nat.leb_le; exact E | assumption]).
      cbn [rev]. rewrite <- app_assoc. reflexivity.
    + rewrite rev_pass_ge by assumption. cbn [rev_pass]. rewrite E.
      rewrite app_nil_r. f_equal. f_equal. apply (IH []). constructor.
Qed.

Lemma all_eq_snoc (t : nat) (l : list nat) : Forall (fun x => x = t) l -> t :: l = l ++ [t].
Proof. induction 1 as [|x l Hx _ IH]; [reflexivity|]. subst x. cbn. f_equal. exact IH. Qed.

Lemma rev_pass_fst t : forall items pend,
  Forall (fun x => fst x = t) pend -> Forall (fun x => (fst x <= t)%nat) items ->
  map fst (rev_pass t items pend) = map fst pend ++ map fst items.
Proof.
  induction items as [|x r IH]; intros pend Hp Hi.
  - cbn. rewrite app_nil_r. reflexivity.
  - inversion Hi as [|? ? Hx Hr]; subst. cbn [rev_pass]. destruct (t <=? fst x)%nat eqn:E.
    + apply Nat.leb_le in E. assert (fst x = t) by lia.
      rewrite IH; [| constructor; assumption | assumption].
      cbn [map]. rewrite H.
      rewrite all_eq_snoc by (apply Forall_map; exact Hp).
      rewrite <- app_assoc. reflexivity.
    + rewrite map_app. cbn [map]. rewrite (IH [] ltac:(constructor) Hr). reflexivity.
Qed.
End RevPass.

Lemma G_rev_pass pdir n t : forall dirs lv, 
  Forall2 (fun d l => Bool.eqb (toward d) (toward pdir) = negb (t <=? l)%nat) dirs lv ->
  forall idx (pend : list (nat * Z)),
  G pdir n idx dirs (map snd pend) = map snd (rev_pass t (combine lv (map (basef pdir n) (zseq idx (length dirs)))) pend).
Proof.
  induction 1 as [|d l dirs lv Hd _ IH]; intros idx pend; [reflexivity|].
  cbn [G length zseq map combine rev_pass fst]. rewrite Hd.
  destruct (t <=? l)%nat; cbn [negb].
  - rewrite <- IH. reflexivity.
  - rewrite map_app. cbn [map snd]. rewrite <- IH. reflexivity.
Qed.

Lemma combine_fst_snd {A B} (l : list (A * B)) : combine (map fst l) (map snd l) = l.
Proof. induction l as [|[a b] l IH]; [reflexivity|]. cbn. f_equal. exact IH. Qed.
Lemma map_fst_combine {A B} : forall (a : list A) (b : list B), length a = length b -> map fst (combine a b) = a.
Proof. induction a; intros [|y b] H; try discriminate; [reflexivity|]. cbn. f_equal. apply IHa. cbn in H; lia. Qed.
Lemma map_snd_combine {A B} : forall (a : list A) (b : list B), length a = length b -> map snd (combine a b) = b.
Proof. induction a; intros [|y b] H; try discriminate; [reflexivity|]. cbn. f_equal. apply IHa. cbn in H; lia. Qed.
Lemma Forall_combine_fst {A B} (P : A -> Prop) : forall (a : list A) (b : list B),
  Forall P a -> Forall (fun x => P (fst x)) (combine a b).
Proof.
  induction a; intros [|y b] H; cbn; try constructor.
  - inversion H; assumption.
  - apply IHa. inversion H; assumption.
Qed.

(* shape of the levels when the line nests at most one level above the paragraph level *)
Lemma levels_p0 levels : Forall (fun l => l = 0 \/ l = 1)%nat levels ->
  (lowest_odd levels = None /\ Forall (fun l => l = 0%nat) levels)
  \/ (lowest_odd levels = Some 1%nat /\ max_level levels = 1%nat).
Proof.
  induction 1 as [|l ls Hl _ IH]; [left; split; [reflexivity|constructor]|].
  cbn [lowest_odd max_level fold_right]. fold (lowest_odd ls). fold (max_level ls).
  destruct Hl as [->| ->]; cbn [Nat.odd Nat.even negb].
  - destruct IH as [[E F]|[E M]]; [left; split; [exact E | constructor; [reflexivity|exact F]] | right; split; [exact E| rewrite M; reflexivity]].
  - right. destruct IH as [[E F]|[E M]]; rewrite E.
    + split; [reflexivity|]. clear E. induction F as [|x xs Hx _ IHF]; [reflexivity|]. subst x. cbn in *. exact IHF.
    + split; [reflexivity|]. rewrite M. reflexivity.
Qed.

Lemma max_level_all t ls : Forall (fun l => l = t) ls -> ls <> [] -> max_level ls = t.
Proof.
  induction 1 as [|x xs Hx F IH]; intros N; [congruence|]. subst x.
  cbn [max_level fold_right]. fold (max_level xs). destruct xs as [|y ys].
  - cbn. apply Nat.max_0_r.
  - rewrite IH by discriminate. apply Nat.max_id.
Qed.

Lemma levels_p1 levels : Forall (fun l => l = 1 \/ l = 2)%nat levels ->
  (lowest_odd levels = None /\ Forall (fun l => l = 2%nat) levels)
  \/ (lowest_odd levels = Some 1%nat /\
      ((max_level levels = 1%nat /\ Forall (fun l => l = 1%nat) levels) \/ max_level levels = 2%nat)).
Proof.
  induction 1 as [|l ls Hl _ IH]; [left; split; [reflexivity|constructor]|].
  cbn [lowest_odd max_level fold_right]. fold (lowest_odd ls). fold (max_level ls).
  destruct Hl as [->| ->]; cbn [Nat.odd Nat.even negb].
  - right. destruct IH as [[E F]|[E [[M F]|M]]]; rewrite E.
    + split; [reflexivity|]. destruct ls as [|x xs].
      * left. split; [reflexivity|repeat constructor].
      * right. rewrite (max_level_all 2%nat (x :: xs) F) by discriminate. reflexivity.
    + split; [reflexivity|]. left. rewrite M. split; [reflexivity|constructor; [reflexivity|exact F]].
    + split; [reflexivity|]. right. rewrite M. reflexivity.
  - destruct IH as [[E F]|[E [[M F]|M]]].
    + left. split; [exact E|constructor; [reflexivity|exact F]].
    + right. split; [exact E|]. right. rewrite M. reflexivity.
    + right. split; [exact E|]. right. rewrite M. reflexivity.
Qed.

Lemma Forall2_len {A B} (R : A -> B -> Prop) l1 l2 : Forall2 R l1 l2 -> length l1 = length l2.
Proof. induction 1; cbn; congruence. Qed.

Lemma l2_lemma (p : nat) (pdir : Z) (levels : list nat) (line : list run) :
  (p <= 1)%nat -> toward pdir = Nat.odd p ->
  Forall2 (fun r l => toward (r_dir r) = Nat.odd l) line levels ->
  Forall (fun l => l = p \/ l = S p) levels ->
  l2_reorder levels (map r_vis (compute_bidi_ordering pdir line)) = ziota (length line).
Proof.
  intros Hp Hpd Hdir Hlv.
  assert (Hlen : length levels = length line) by (symmetry; eapply Forall2_len; exact Hdir).
  set (n' := length line).
  set (base := map (basef pdir (Z.of_nat n')) (zseq 0 n')).
  assert (Hbl : length levels = length base) by (unfold base; rewrite map_length, zseq_length; exact Hlen).
  set (items := combine levels base).
  set (X := rev_pass (S p) items []).
  assert (Hvis : map r_vis (compute_bidi_ordering pdir line) = map snd X).
  { assert (HF : Forall2 (fun d l => Bool.eqb (toward d) (toward pdir) = negb (S p <=? l)%nat) (map r_dir line) levels).
    { clear - Hp Hpd Hdir Hlv. induction Hdir as [|r l line levels Hr _ IH]; [constructor|].
      inversion Hlv as [|? ? Hl Hls]; subst. cbn [map]. constructor; [|apply IH; assumption].
      rewrite Hr, Hpd. destruct Hl as [->| ->].
      - replace (S p <=? p)%nat with false by (symmetry; apply Nat.leb_gt; lia). destruct (Nat.odd p); reflexivity.
      - rewrite Nat.leb_refl. rewrite Nat.odd_succ, <- Nat.negb_odd. destruct (Nat.odd p); reflexivity. }
    pose proof (G_rev_pass pdir (Z.of_nat n') (S p) (map r_dir line) levels HF 0 []) as HG.
    rewrite map_length in HG. cbn [map] in HG.
    rewrite cbo_vis. unfold zlen. exact HG. }
  assert (HfX : map fst X = levels).
  { unfold X. rewrite rev_pass_fst; [apply map_fst_combine; exact Hbl | constructor |].
    unfold items. apply (Forall_combine_fst (fun l => (l <= S p)%nat)).
    eapply Forall_impl; [|exact Hlv]. cbn. intros a [->| ->]; lia. }
  assert (HcX : combine levels (map snd X) = X) by (rewrite <- HfX at 1; apply combine_fst_snd).
  assert (Hsi : map snd items = base) by (apply map_snd_combine; exact Hbl).
  assert (Hbase : base = if toward pdir then rev (ziota n') else ziota n').
  { unfold base. rewrite basef_iota, ziota_zseq. reflexivity. }
  unfold l2_reorder. rewrite Hvis, HcX. fold n'.
  destruct p as [|[|p]]; [| |lia].
  - (* LTR paragraph: levels 0 and 1 *)
    change (Nat.odd 0) with false in Hpd. rewrite Hpd in Hbase.
    destruct (levels_p0 levels Hlv) as [[E F]|[E M]]; rewrite E.
    + unfold X. rewrite rev_pass_all_lt; [rewrite Hsi; exact Hbase|].
      unfold items. apply (Forall_combine_fst (fun l => (l < 1)%nat)).
      eapply Forall_impl; [|exact F]. cbn. intros; lia.
    + rewrite M. cbn [levels_down seq rev app fold_left Nat.sub]. unfold reverse_at_level, X.
      rewrite rev_pass_invol by constructor. cbn [rev app]. rewrite Hsi. exact Hbase.
  - (* RTL paragraph: levels 1 and 2 *)
    change (Nat.odd 1) with true in Hpd. rewrite Hpd in Hbase.
    assert (Hge1 : Forall (fun x : nat * Z => (1 <= fst x)%nat) items).
    { unfold items. apply (Forall_combine_fst (fun l => (1 <= l)%nat)).
      eapply Forall_impl; [|exact Hlv]. cbn. intros a [->| ->]; lia. }
    assert (Hrev : map snd (rev items) = ziota n').
    { rewrite map_rev, Hsi, Hbase. apply rev_involutive. }
    destruct (levels_p1 levels Hlv) as [[E F]|[E [[M F]|M]]]; rewrite E.
    + unfold X. rewrite rev_pass_all_ge; [exact Hrev|].
      unfold items. apply (Forall_combine_fst (fun l => (2 <= l)%nat)).
      eapply Forall_impl; [|exact F]. cbn. intros; lia.
    + rewrite M. cbn [levels_down seq rev app fold_left Nat.sub]. unfold reverse_at_level.
      assert (HX : X = items).
      { unfold X. apply rev_pass_all_lt. unfold items. apply (Forall_combine_fst (fun l => (l < 2)%nat)).
        eapply Forall_impl; [|exact F]. cbn. intros; lia. }
      rewrite HX, rev_pass_all_ge by exact Hge1. exact Hrev.
    + rewrite M. cbn [levels_down seq rev app fold_left Nat.sub]. unfold reverse_at_level, X.
      rewrite rev_pass_invol by constructor. cbn [rev app].
      rewrite rev_pass_all_ge by exact Hge1. exact Hrev.
Qed.

(* ---- the trimmed glyph is in the visually last run ------------------------------------------ *)
Lemma In_ziota x n : In x (ziota n) <-> 0 <= x < Z.of_nat n.
Proof.
  unfold ziota. rewrite in_map_iff. split.
  - intros (k & <- & Hk). apply in_seq in Hk. lia.
  - intros H. exists (Z.to_nat x). split; [lia|]. apply in_seq. lia.
Qed.

Lemma find_vis_spec goal : forall line idx, In goal (map r_vis line) ->
  exists i, find_vis goal idx line = Some (idx + i) /\ 0 <= i < zlen line /\ r_vis (znth dummy_run line i) = goal.
Proof.
  induction line as [|r line IH]; intros idx H; [destruct H|].
  cbn [find_vis]. destruct (r_vis r =? goal) eqn:E.
  - exists 0. rewrite zlen_cons. pose proof (zlen_nonneg line). apply Z.eqb_eq in E.
    split; [f_equal; lia|]. split; [lia|]. exact E.
  - destruct H as [H|H]; [apply Z.eqb_neq in E; contradiction|].
    destruct (IH (idx + 1) H) as (i & E1 & Hi & Hv). exists (i + 1).
    rewrite zlen_cons. split; [rewrite E1; f_equal; lia|]. split; [lia|].
    rewrite <- Hv. unfold znth. destruct (i + 1 <? 0) eqn:E2; [lia|]. destruct (i <? 0) eqn:E3; [lia|].
    replace (Z.to_nat (i + 1)) with (S (Z.to_nat i)) by lia. reflexivity.
Qed.

Definition goal_index (pdir : Z) (n : Z) : Z := if toward pdir then 0 else n - 1.

Lemma cbo_length pdir line : length (compute_bidi_ordering pdir line) = length line.
Proof. unfold compute_bidi_ordering. apply set_vis_all_length. Qed.

Lemma trim_target_lemma pdir line : line <> [] ->
  let l0 := compute_bidi_ordering pdir line in
  let t := trim_target pdir l0 in
  0 <= t < zlen l0
  /\ r_vis (znth dummy_run l0 t) = goal_index pdir (zlen line)
  /\ Forall (fun r => 0 <= r_vis r <= zlen line - 1) l0.
Proof.
  intros Hne l0 t.
  assert (Hl : zlen l0 = zlen line) by (unfold zlen, l0; rewrite cbo_length; reflexivity).
  assert (Hpos : 0 < zlen line).
  { destruct line; [congruence|]. rewrite zlen_cons. pose proof (zlen_nonneg line). lia. }
  pose proof (permutation_lemma pdir line) as HP. fold l0 in HP.
  assert (Hin : In (goal_index pdir (zlen line)) (map r_vis l0)).
  { eapply Permutation_in; [symmetry; exact HP|]. apply In_ziota. unfold goal_index, zlen in *.
    destruct (toward pdir); lia. }
  destruct (find_vis_spec _ l0 0 Hin) as (i & E & Hi & Hv).
  assert (Ht : t = i).
  { unfold t, trim_target. rewrite Hl. fold (goal_index pdir (zlen line)). rewrite E. lia. }
  rewrite Ht. split; [exact Hi|]. split; [exact Hv|].
  apply Forall_forall. intros r Hr.
  assert (In (r_vis r) (ziota (length line))) by (eapply Permutation_in; [exact HP|]; apply in_map; exact Hr).
  apply In_ziota in H. unfold zlen. lia.
Qed.

Lemma map_set_nth {A B} (f : A -> B) (l : list A) i x : 0 <= i < zlen l ->
  map f (set_nth l i x) = set_nth (map f l) i (f x).
Proof.
  intros H. destruct (split_at l i H) as (l1 & y & l2 & -> & Hl).
  rewrite (set_nth_app l1 l2 i x y Hl). rewrite !map_app. cbn [map].
  rewrite (set_nth_app (map f l1) (map f l2) i (f x) (f y)); [reflexivity|].
  unfold zlen in *. rewrite map_length. exact Hl.
Qed.
Lemma set_nth_same {A} (d : A) (l : list A) i : 0 <= i < zlen l -> set_nth l i (znth d l i) = l.
Proof.
  intros H. destruct (split_at l i H) as (l1 & y & l2 & -> & Hl).
  rewrite (znth_app_mid d l1 y l2 i Hl). apply set_nth_app. exact Hl.
Qed.
Lemma znth_map {A B} (f : A -> B) d (l : list A) i : znth (f d) (map f l) i = f (znth d l i).
Proof. unfold znth. destruct (i <? 0); [reflexivity|]. apply map_nth. Qed.

Lemma trim_run_vis pdir r : r_vis (trim_run pdir r) = r_vis r /\ r_dir (trim_run pdir r) = r_dir r.
Proof. unfold trim_run. destruct (r_glyphs r); split; reflexivity. Qed.

Lemma order_and_trim_ne pdir disable line : line <> [] ->
  order_and_trim pdir disable line =
  if disable then compute_bidi_ordering pdir line
  else set_nth (compute_bidi_ordering pdir line) (trim_target pdir (compute_bidi_ordering pdir line))
         (trim_run pdir (znth dummy_run (compute_bidi_ordering pdir line) (trim_target pdir (compute_bidi_ordering pdir line)))).
Proof. destruct line; [congruence|reflexivity]. Qed.

Lemma order_and_trim_vis pdir disable line :
  map r_vis (order_and_trim pdir disable line) = map r_vis (compute_bidi_ordering pdir line)
  /\ map r_dir (order_and_trim pdir disable line) = map r_dir line
  /\ length (order_and_trim pdir disable line) = length line.
Proof.
  assert (Hd0 : map r_dir (compute_bidi_ordering pdir line) = map r_dir line).
  { unfold compute_bidi_ordering. generalize (cbo pdir (map r_dir line) (map r_vis line)).
    induction line as [|r line IH]; intros [|x v]; cbn; try reflexivity. f_equal. apply IH. }
  destruct (list_eq_dec Z.eq_dec (map r_vis line) []) as [EL|EL].
  { destruct line; [repeat split; reflexivity|discriminate]. }
  assert (Hne : line <> []) by (intros ->; apply EL; reflexivity).
  rewrite order_and_trim_ne by exact Hne.
  destruct disable; [split; [reflexivity|split; [exact Hd0|apply cbo_length]]|].
  destruct (trim_target_lemma pdir line Hne) as (Ht & _ & _).
  set (l0 := compute_bidi_ordering pdir line) in *. set (t := trim_target pdir l0) in *.
  destruct (trim_run_vis pdir (znth dummy_run l0 t)) as [E1 E2].
  split; [|split].
  - rewrite map_set_nth by exact Ht. rewrite E1.
    rewrite <- (znth_map r_vis dummy_run l0 t). apply set_nth_same. unfold zlen in *. rewrite map_length. exact Ht.
  - rewrite map_set_nth by exact Ht. rewrite E2, <- Hd0.
    rewrite <- (znth_map r_dir dummy_run l0 t). apply set_nth_same. unfold zlen in *. rewrite map_length. exact Ht.
  - pose proof (zlen_set_nth l0 t (trim_run pdir (znth dummy_run l0 t)) Ht) as HL.
    unfold zlen in HL. apply Nat2Z.inj in HL. rewrite HL. apply cbo_length.
Qed.

Lemma truncator_lemma w line done :
  let r := post_process_line w line done in
  Permutation (map r_vis (pp_line r)) (ziota (length (pp_line r)))
  /\ map r_vis (pp_line r) = map r_vis (compute_bidi_ordering (w_dir w) (pp_line r)).
Proof.
  cbv zeta. unfold post_process_line. cbn [pp_line].
  destruct (order_and_trim_vis (w_dir w) (w_disable_trim w) line) as (E1 & E2 & E3).
  set (line1 := order_and_trim (w_dir w) (w_disable_trim w) line) in *.
  match goal with |- context [if ?c then compute_bidi_ordering _ ?l else _] => set (ins := c); set (lt := l) end.
  destruct ins.
  - split; [rewrite cbo_length; apply permutation_lemma|].
    apply cbo_vis_dirs. unfold compute_bidi_ordering.
    generalize (cbo (w_dir w) (map r_dir lt) (map r_vis lt)). generalize lt.
    induction lt0 as [|r l IH]; intros [|x v]; cbn; try reflexivity. f_equal. apply IH.
  - split.
    + rewrite E1, E3. apply permutation_lemma.
    + rewrite E1. apply cbo_vis_dirs. symmetry. exact E2.
Qed.

Lemma set_vis_all_proj {B} (f : run -> B) : (forall r x, f (set_vis r x) = f r) ->
  forall l v, map f (set_vis_all l v) = map f l.
Proof.
  intros Hf. induction l as [|r l IH]; intros [|x v]; cbn; try reflexivity. rewrite Hf. f_equal. apply IH.
Qed.

(* what postProcessLine does to the glyphs and advances: those of order_and_trim, the truncator's behind *)
Lemma pp_glyphs_lemma w line done :
  let r := post_process_line w line done in
  exists tail, map (fun x => (r_adv x, r_glyphs x)) (pp_line r)
               = map (fun x => (r_adv x, r_glyphs x)) (order_and_trim (w_dir w) (w_disable_trim w) line) ++ tail
               /\ (tail = [] \/ tail = [(r_adv (w_truncator w), r_glyphs (w_truncator w))]).
Proof.
  cbv zeta. unfold post_process_line. cbn [pp_line].
  match goal with |- context [if ?c then _ else _] => destruct c end.
  - eexists. split; [|right; reflexivity]. unfold compute_bidi_ordering.
    rewrite set_vis_all_proj by reflexivity. rewrite map_app. reflexivity.
  - exists []. split; [rewrite app_nil_r; reflexivity|left; reflexivity].
Qed.

Lemma trim_lemma pdir line : line <> [] ->
  let l0 := compute_bidi_ordering pdir line in
  let t := trim_target pdir l0 in
  let r := znth dummy_run l0 t in
  (* the run chosen is the visually last one in paragraph direction *)
  0 <= t < zlen line
  /\ r_vis r = goal_index pdir (zlen line)
  /\ Forall (fun x => 0 <= r_vis x <= zlen line - 1) l0
  (* only that run is edited *)
  /\ order_and_trim pdir false line = set_nth l0 t (trim_run pdir r)
  (* and in it only the glyph that is visually last in paragraph direction; Advance is recomputed *)
  /\ (r_glyphs r = [] -> trim_run pdir r = r)
  /\ (r_glyphs r <> [] ->
      let i := if toward pdir then 0 else zlen (r_glyphs r) - 1 in
      let g := znth (mkGlyph 0 0 0 0) (r_glyphs r) i in
      r_glyphs (trim_run pdir r) = set_nth (r_glyphs r) i (trim_glyph (is_vertical (r_dir r)) g)
      /\ r_adv (trim_run pdir r) = sum_adv (is_vertical (r_dir r)) (r_glyphs (trim_run pdir r))
      /\ r_dir (trim_run pdir r) = r_dir r /\ r_vis (trim_run pdir r) = r_vis r
      /\ r_off (trim_run pdir r) = r_off r /\ r_cnt (trim_run pdir r) = r_cnt r).
Proof.
  intros Hne l0 t r.
  destruct (trim_target_lemma pdir line Hne) as (Ht & Hv & Hall).
  assert (Hl : zlen l0 = zlen line) by (unfold zlen, l0; rewrite cbo_length; reflexivity).
  split; [rewrite <- Hl; exact Ht|]. split; [exact Hv|]. split; [exact Hall|].
  split; [rewrite order_and_trim_ne by exact Hne; reflexivity|].
  split.
  - intros E. unfold trim_run. rewrite E. reflexivity.
  - intros E. cbv zeta. unfold trim_run, trim_glyph_index. destruct (r_glyphs r) as [|g0 gs] eqn:EG; [congruence|].
    cbn [r_glyphs r_adv r_dir r_vis r_off r_cnt recompute_advance].
    assert (Hi : 0 <= (if toward pdir then 0 else zlen (g0 :: gs) - 1) < zlen (g0 :: gs)).
    { rewrite zlen_cons. pose proof (zlen_nonneg gs). destruct (toward pdir); lia. }
    assert (Hz : forall d1 d2, znth d1 (g0 :: gs) (if toward pdir then 0 else zlen (g0 :: gs) - 1)
                             = znth d2 (g0 :: gs) (if toward pdir then 0 else zlen (g0 :: gs) - 1)).
    { intros d1 d2. unfold znth. destruct (_ <? 0) eqn:E0; [lia|]. apply nth_indep. unfold zlen in *. lia. }
    rewrite (Hz g0 (mkGlyph 0 0 0 0)). repeat split; reflexivity.
Qed.
