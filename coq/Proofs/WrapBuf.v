(* Storage of the line wrapper (Model/WrapBuf.v): for EVERY sequence of lines and operations the bookkeeping never panics,
   lineUsed stays within the array, the lines returned as views of the array lie one after the other, and no later
   operation of the paragraph writes into a line that was already returned. *)
From Coq Require Import List ZArith Bool Lia.
From TV Require Import Model.WrapBuf Spec.WrapBuf.
Import ListNotations.

(* ---- lists ---------------------------------------------------------------------------------------------------- *)

Lemma write_length : forall l off new, off + length new <= length l -> length (write l off new) = length l.
Proof.
  intros l off new H. unfold write. rewrite !app_length, firstn_length, skipn_length. lia.
Qed.
Lemma write_firstn : forall l off new k, k <= off -> off <= length l -> firstn k (write l off new) = firstn k l.
Proof.
  intros l off new k Hk Hl. unfold write. rewrite firstn_app, firstn_firstn. rewrite firstn_length.
  replace (Nat.min k off) with k by lia. replace (k - Nat.min off (length l)) with 0 by lia. cbn. apply app_nil_r.
Qed.
Lemma write_slice : forall l off new, off + length new <= length l -> slice (write l off new) off (length new) = new.
Proof.
  intros l off new H. unfold slice, write.
  rewrite skipn_app, firstn_length. replace (Nat.min off (length l)) with off by lia.
  rewrite skipn_all2 by (rewrite firstn_length; lia). replace (off - off) with 0 by lia. cbn [skipn app].
  rewrite firstn_app. replace (length new - length new) with 0 by lia. cbn [firstn]. rewrite firstn_all. apply app_nil_r.
Qed.
Lemma slice_stable : forall l l' o n k, o + n <= k -> firstn k l' = firstn k l -> slice l' o n = slice l o n.
Proof.
  intros l l' o n k H E. unfold slice.
  assert (Q : forall x : list Z, firstn n (skipn o x) = firstn n (skipn o (firstn k x))).
  { intros x. rewrite skipn_firstn_comm, firstn_firstn. replace (Nat.min n (k - o)) with n by lia. reflexivity. }
  rewrite (Q l), (Q l'), E. reflexivity.
Qed.
Lemma zlist_eqb_refl : forall l, zlist_eqb l l = true.
Proof. induction l; cbn; [reflexivity|]. rewrite Z.eqb_refl. exact IHl. Qed.
Lemma zlist_eqb_eq : forall a b, zlist_eqb a b = true -> a = b.
Proof.
  induction a; destruct b; cbn; intros H; try discriminate; [reflexivity|].
  apply andb_prop in H. destruct H as [H1 H2]. apply Z.eqb_eq in H1. rewrite (IHa _ H2). congruence.
Qed.

(* ---- the invariant ---------------------------------------------------------------------------------------------- *)

Definition BI (b : buf) : Prop :=
  bf_used b <= length (bf_line b)
  /\ match bf_best b with
     | BLine o n => o = bf_used b /\ o + n <= length (bf_line b) /\ bf_inline b = true
     | _ => bf_inline b = false
     end.

(* what operations inside a line leave alone: the array below lineUsed, lineUsed, the capacity *)
Definition keeps (b b' : buf) : Prop :=
  bf_used b' = bf_used b /\ length (bf_line b') = length (bf_line b)
  /\ firstn (bf_used b) (bf_line b') = firstn (bf_used b) (bf_line b).
Lemma keeps_refl : forall b, keeps b b.
Proof. intros; unfold keeps; auto. Qed.
Lemma keeps_trans : forall a b c, keeps a b -> keeps b c -> keeps a c.
Proof. unfold keeps. intros a b c (A1 & A2 & A3) (B1 & B2 & B3). rewrite A1 in B3. repeat split; congruence. Qed.

Lemma BI_reset : forall b newcap, BI (b_reset b newcap).
Proof. intros. unfold BI, b_reset; cbn. split; [lia|reflexivity]. Qed.
Definition UB (b : buf) : Prop := bf_used b <= length (bf_line b).
Lemma BI_start : forall b, UB b -> BI (b_start b) /\ keeps b (b_start b).
Proof. intros b H. split; [split; [exact H|reflexivity]|unfold keeps; cbn; auto]. Qed.

(* markCandidateBest never panics from a state satisfying the invariant *)
Lemma mark_ok : forall b sfx, BI b -> exists b', b_mark b sfx = Ok b' /\ BI b' /\ keeps b b'.
Proof.
  intros b sfx [H _]. unfold b_mark.
  destruct (length (bf_line b) <? bf_used b) eqn:E; [apply Nat.ltb_lt in E; lia|].
  destruct (length (bf_line b) - bf_used b <? length (bf_alt b ++ sfx)) eqn:F.
  - eexists. split; [reflexivity|]. split; [split; [exact H|reflexivity]|unfold keeps; cbn; auto].
  - apply Nat.ltb_ge in F. eexists. split; [reflexivity|].
    assert (L : length (write (bf_line b) (bf_used b) (bf_alt b ++ sfx)) = length (bf_line b)) by (apply write_length; lia).
    split.
    + unfold BI; cbn. rewrite L. split; [exact H|]. split; [reflexivity|]. split; [lia|reflexivity].
    + unfold keeps; cbn. split; [reflexivity|]. split; [exact L|]. apply write_firstn; lia.
Qed.

Lemma run_ops_ok : forall ops b, BI b -> exists b', run_ops b ops = Ok b' /\ BI b' /\ keeps b b'.
Proof.
  induction ops as [|op ops IH]; intros b HB; cbn [run_ops].
  - exists b. split; [reflexivity|]. split; [exact HB|apply keeps_refl].
  - destruct op as [t|s| |].
    + destruct (IH (b_append b t) HB) as (b' & R & B' & K). exists b'. split; [exact R|]. split; [exact B'|exact K].
    + destruct (mark_ok b s HB) as (b1 & M & B1 & K1). rewrite M. cbn [bind].
      destruct (IH b1 B1) as (b' & R & B' & K). exists b'. split; [exact R|]. split; [exact B'|eapply keeps_trans; eauto].
    + destruct (IH (b_save b) HB) as (b' & R & B' & K). exists b'. split; [exact R|]. split; [exact B'|exact K].
    + destruct (IH (b_restore b) HB) as (b' & R & B' & K). exists b'. split; [exact R|]. split; [exact B'|exact K].
Qed.

(* one line: no panic; the array below the old lineUsed is untouched; a returned view starts at the old lineUsed, ends at
   the new one and reads the returned content *)
Definition line_post (b b' : buf) (r : lres) : Prop :=
  UB b' /\ bf_used b <= bf_used b' /\ lr_used r = bf_used b' /\ length (bf_line b') = length (bf_line b)
  /\ firstn (bf_used b) (bf_line b') = firstn (bf_used b) (bf_line b)
  /\ match lr_view r with
     | Some (o, n) => o = bf_used b /\ o + n = bf_used b' /\ lr_line r = Some (slice (bf_line b') o n)
     | None => bf_used b' = bf_used b
     end.

Lemma run_line_ok : forall b ops, UB b -> exists b' r, run_line b ops = Ok (b', r) /\ line_post b b' r.
Proof.
  intros b ops HB. unfold run_line. destruct (BI_start b HB) as [B0 K0].
  destruct (run_ops_ok ops (b_start b) B0) as (b1 & R & B1 & K1). rewrite R. cbn [bind].
  pose proof (keeps_trans _ _ _ K0 K1) as (Ku & Kl & Kf). destruct B1 as [U1 Bb].
  eexists _, _. split; [reflexivity|]. unfold b_finalize, line_post, UB; cbn.
  destruct (bf_best b1) as [|o n|c] eqn:EB.
  - rewrite Bb. cbn. repeat split; auto; lia.
  - destruct Bb as (Bo & Bn & Bi). rewrite Bi. cbn.
    split; [lia|]. split; [lia|]. split; [reflexivity|]. split; [exact Kl|]. split; [exact Kf|]. split; [lia|]. split; [lia|reflexivity].
  - rewrite Bb. cbn. repeat split; auto; lia.
Qed.

(* ---- a whole paragraph ------------------------------------------------------------------------------------------ *)

Definition view_reads (line : list Z) (r : lres) : Prop :=
  match lr_view r, lr_line r with Some (o, n), Some c => slice line o n = c | _, _ => True end.

Lemma run_lines_ok : forall lines b, UB b ->
  exists b' rs, run_lines b lines = Ok (b', rs) /\ UB b' /\ bf_used b <= bf_used b'
    /\ length (bf_line b') = length (bf_line b)
    /\ firstn (bf_used b) (bf_line b') = firstn (bf_used b) (bf_line b)
    /\ Forall (view_reads (bf_line b')) rs
    /\ views_ordered (bf_used b) rs (bf_used b') = true
    /\ length rs = length lines.
Proof.
  induction lines as [|ops rest IH]; intros b HB; cbn [run_lines].
  - exists b, []. split; [reflexivity|]. split; [exact HB|]. repeat split; auto. cbn. apply Nat.leb_le. lia.
  - destruct (run_line_ok b ops HB) as (b1 & r & RL & (B1 & U1 & Ur & L1 & F1 & V1)). rewrite RL. cbn [bind fst snd].
    destruct (IH b1 B1) as (b2 & rs & R2 & B2 & U2 & L2 & F2 & V2 & O2 & N2). rewrite R2. cbn [bind fst snd].
    exists b2, (r :: rs). split; [reflexivity|]. split; [exact B2|]. split; [lia|]. split; [congruence|].
    split.
    { rewrite <- F1. assert (Q : forall x : list Z, firstn (bf_used b) x = firstn (bf_used b) (firstn (bf_used b1) x)).
      { intros x. rewrite firstn_firstn. replace (Nat.min (bf_used b) (bf_used b1)) with (bf_used b) by lia. reflexivity. }
      rewrite (Q (bf_line b2)), (Q (bf_line b1)), F2. reflexivity. }
    split.
    { constructor; [|exact V2]. unfold view_reads. destruct (lr_view r) as [[o n]|] eqn:EV; [|exact I].
      destruct V1 as (Vo & Vn & Vl). rewrite Vl. apply (slice_stable _ _ o n (bf_used b1)); [lia|exact F2]. }
    split; [|cbn; congruence].
    cbn [views_ordered]. destruct (lr_view r) as [[o n]|].
    + destruct V1 as (Vo & Vn & _). apply andb_true_intro. split; [apply Nat.leb_le; lia|]. rewrite Vn. exact O2.
    + rewrite <- V1. exact O2.
Qed.

(* the statements used by Props/C02.v *)
Lemma para_no_panic : forall b newcap lines, exists b' rs, run_para b newcap lines = Ok (b', rs) /\ length rs = length lines.
Proof.
  intros b newcap lines. unfold run_para. destruct (run_lines_ok lines (b_reset b newcap) (proj1 (BI_reset b newcap))) as (b' & rs & R & _ & _ & _ & _ & _ & _ & N).
  eauto.
Qed.

Lemma para_views_intact : forall b newcap lines b' rs, run_para b newcap lines = Ok (b', rs) ->
  views_intact (bf_line b') rs = true /\ views_ordered 0 rs (bf_used b') = true /\ used_ok b' = true
  /\ length (bf_line b') = newcap.
Proof.
  intros b newcap lines b' rs H. unfold run_para in H.
  destruct (run_lines_ok lines (b_reset b newcap) (proj1 (BI_reset b newcap))) as (b2 & rs2 & R & B & U & L & F & V & O & N).
  rewrite R in H. injection H as <- <-. split.
  - unfold views_intact. apply forallb_forall. intros r Hr. rewrite Forall_forall in V. specialize (V r Hr). unfold view_reads in V.
    destruct (lr_view r) as [[o n]|]; [|reflexivity]. destruct (lr_line r); [|reflexivity]. rewrite V. apply zlist_eqb_refl.
  - split; [exact O|]. split; [unfold used_ok; apply Nat.leb_le; exact B|].
    rewrite L. cbn. apply repeat_length.
Qed.
