(* Lemmas for the bidi step of C07 from the raw text (Model/ItemizeBidi.v, Spec/ItemizeBidi.v). *)
From TV Require Import Model.Itemize Spec.Itemize Proofs.Itemize Model.ItemizeBidi Spec.ItemizeBidi.
Open Scope Z_scope.

(* ---- paragraphs ------------------------------------------------------------------------------- *)
Section Para.
  Variable runes : list Z.

  Lemma scan_para_spec : forall n k e, k <= e -> (Z.to_nat (e - k) <= n)%nat ->
    k <= scan_para runes n k e <= e
    /\ (forall j, k <= j < scan_para runes n k e -> is_para_sep (znth 0 runes (j - 1)) = false)
    /\ (scan_para runes n k e = e \/ is_para_sep (znth 0 runes (scan_para runes n k e - 1)) = true).
  Proof.
    induction n as [|n IH]; intros k e Hk Hn; cbn [scan_para].
    - assert (k = e) by lia. subst. split; [lia|]. split; [intros; lia|auto].
    - destruct (k <? e) eqn:Hlt; cbn [andb].
      + apply Z.ltb_lt in Hlt.
        destruct (is_para_sep (znth 0 runes (k - 1))) eqn:Hs; cbn [negb].
        * split; [lia|]. split; [intros; lia|auto].
        * destruct (IH (k + 1) e) as (H1 & H2 & H3); [lia|lia|].
          split; [lia|]. split; auto.
          intros j Hj. destruct (Z.eq_dec j k) as [->|]; auto. apply H2. lia.
      + apply Z.ltb_ge in Hlt. assert (k = e) by lia. subst. split; [lia|]. split; [intros; lia|auto].
  Qed.

  (* the paragraph starting at a < e is [a, b): not empty, no separator before its last rune, and it ends at e or
     behind a separator *)
  Lemma para_end_spec a e : a < e ->
    a < para_end runes a e <= e
    /\ (forall j, a <= j < para_end runes a e - 1 -> is_para_sep (znth 0 runes j) = false)
    /\ (para_end runes a e = e \/ is_para_sep (znth 0 runes (para_end runes a e - 1)) = true).
  Proof.
    intros Ha. unfold para_end.
    destruct (scan_para_spec (Z.to_nat (e - (a + 1))) (a + 1) e) as (H1 & H2 & H3); [lia|lia|].
    split; [lia|]. split; auto.
    intros j Hj. replace j with (j + 1 - 1) by lia. apply H2. lia.
  Qed.

  Fixpoint pchain (a e : Z) (l : list (Z * Z)) : Prop :=
    match l with
    | [] => a = e
    | ab :: r => fst ab = a /\ a < snd ab /\ pchain (snd ab) e r
    end.

  Definition para_shape (e : Z) (ab : Z * Z) : Prop :=
    (forall j, fst ab <= j < snd ab - 1 -> is_para_sep (znth 0 runes j) = false)
    /\ (snd ab = e \/ is_para_sep (znth 0 runes (snd ab - 1)) = true).

  Lemma paragraphs_chain : forall n a e, a <= e -> (Z.to_nat (e - a) <= n)%nat ->
    pchain a e (paragraphs runes n a e) /\ Forall (para_shape e) (paragraphs runes n a e).
  Proof.
    induction n as [|n IH]; intros a e Ha Hn; cbn [paragraphs].
    - cbn. split; [lia|constructor].
    - destruct (a <? e) eqn:Hlt.
      + apply Z.ltb_lt in Hlt. destruct (para_end_spec a e Hlt) as (H1 & H2 & H3).
        destruct (IH (para_end runes a e) e) as (Hc & Hf); [lia|lia|].
        split; [cbn; repeat split; auto; lia|]. constructor; auto. split; auto.
      + apply Z.ltb_ge in Hlt. cbn. split; [lia|constructor].
  Qed.

  Lemma pchain_in a e l ab : pchain a e l -> In ab l -> a <= fst ab /\ fst ab < snd ab /\ snd ab <= e.
  Proof.
    revert a; induction l as [|p l IH]; intros a; cbn; [tauto|].
    intros (H1 & H2 & H3) [->|Hin].
    - assert (snd ab <= e); [|lia]. clear -H3. revert H3. generalize (snd ab). induction l as [|q l IH]; cbn; intros z; [lia|].
      intros (? & ? & H). apply IH in H. lia.
    - destruct (IH _ H3 Hin). lia.
  Qed.

  (* a position of the range lies in one paragraph *)
  Lemma pchain_cover a e l pos : pchain a e l -> a <= pos < e -> exists ab, In ab l /\ fst ab <= pos < snd ab.
  Proof.
    revert a; induction l as [|p l IH]; intros a; cbn; [lia|].
    intros (H1 & H2 & H3) Hp.
    destruct (Z_lt_dec pos (snd p)).
    - exists p. split; auto. lia.
    - destruct (IH _ H3) as (r & Hin & Hr); [lia|]. exists r. auto.
  Qed.
End Para.

(* ---- the paragraph loop -------------------------------------------------------------------------- *)
Section Loop.
  Variable xbidi : list Z -> bool -> option (list (Z * bool)).
  Variable runes : list Z.

  (* paragraph.RunStart, paragraph.RunEnd = a, b *)
  Definition para_in (x : input) (ab : Z * Z) : input := set_end (set_start x (fst ab)) (snd ab).
  (* everything appendBidiRun receives during one splitByBidi, in order *)
  Definition raw_of (x : input) (def : bool) (ps : list (Z * Z)) : list input :=
    concat (map (fun ab => para_runs xbidi runes def (para_in x ab)) ps).

  Lemma para_loop_spec : forall n x def a acc, a <= i_end x -> (Z.to_nat (i_end x - a) <= n)%nat ->
    para_loop xbidi runes n x def a acc
    = Ok (fold_left append_bidi_run (raw_of x def (paragraphs runes n a (i_end x))) acc).
  Proof.
    induction n as [|n IH]; intros x def a acc Ha Hn.
    - cbn [para_loop paragraphs]. replace (a <? i_end x) with false by (symmetry; apply Z.ltb_ge; lia). reflexivity.
    - cbn [para_loop paragraphs]. destruct (a <? i_end x) eqn:Hlt; [|reflexivity].
      apply Z.ltb_lt in Hlt. destruct (para_end_spec runes a (i_end x) Hlt) as (H1 & _).
      rewrite IH by lia. unfold raw_of. cbn [map concat]. rewrite fold_left_app. reflexivity.
  Qed.
End Loop.

(* ---- the runs handed to appendBidiRun ------------------------------------------------------------- *)
Definition shaped (x r : input) : Prop := exists iv, r = mk_bidi_run x iv.
Definition iv_of (r : input) : Z * Z * bool := (i_start r, i_end r, d_prog (i_dir r)).

Lemma mk_iv_of x iv : iv_of (mk_bidi_run x iv) = iv.
Proof. destruct iv as ((s, e), p). destruct x as [? ? ? [] ? ? ? ? ?]. reflexivity. Qed.

Lemma shaped_iv x r : shaped x r -> mk_bidi_run x (iv_of r) = r.
Proof. intros (iv & ->). now rewrite mk_iv_of. Qed.

Lemma shaped_set_end x r v : shaped x r -> shaped x (set_end r v).
Proof. intros (iv & ->). destruct iv as ((s, e), p). exists (s, v, p). destruct x as [? ? ? [] ? ? ? ? ?]. reflexivity. Qed.

Lemma mk_para_in x ab iv : mk_bidi_run (para_in x ab) iv = mk_bidi_run x iv.
Proof. destruct iv as ((s, e), p). destruct x as [? ? ? [] ? ? ? ? ?]. reflexivity. Qed.

Lemma chain_app_inv a c l1 l2 : chain a c (l1 ++ l2) -> exists b, chain a b l1 /\ chain b c l2.
Proof.
  revert a; induction l1 as [|r l IH]; intros a; cbn.
  - intros H. exists a. auto.
  - intros (H1 & H2 & H3). destruct (IH _ H3) as (b & Hb1 & Hb2). exists b. auto.
Qed.

Section Runs.
  Variable xbidi : list Z -> bool -> option (list (Z * bool)).
  Variable runes : list Z.

  Lemma para_runs_ok x def a b : a < b -> bidi_wf (b - a) (xbidi (para_string runes a b) def) = true ->
    chain a b (para_runs xbidi runes def (para_in x (a, b)))
    /\ Forall (shaped x) (para_runs xbidi runes def (para_in x (a, b))).
  Proof.
    intros Hab Hwf. unfold para_runs, para_string in *. cbn [para_in fst snd i_start i_end set_start set_end].
    assert (Hone : chain a b [para_in x (a, b)] /\ Forall (shaped x) [para_in x (a, b)]).
    { split; [cbn; auto|]. constructor; [|constructor]. exists (a, b, d_prog (i_dir x)).
      destruct x as [? ? ? [] ? ? ? ? ?]. reflexivity. }
    destruct (xbidi (map norm_rune (slice runes a b)) def) as [[|r rs]|]; auto.
    unfold bidi_wf in Hwf. apply andb_true_iff in Hwf. destruct Hwf as (Hinc & Hlast). apply Z.eqb_eq in Hlast.
    rewrite bidi_loop_spec. cbn [para_in fst snd i_start set_start set_end].
    rewrite (map_ext _ _ (mk_para_in x (a, b))).
    split.
    - pose proof (bidi_intervals_chain x a (r :: rs) a) as Hc.
      replace (a - a - 1) with (-1) in Hc by lia. specialize (Hc Hinc). cbv beta iota in Hc. rewrite Hlast in Hc.
      replace (b - a - 1 + a + 1) with b in Hc by lia. exact Hc.
    - apply Forall_forall. intros q Hq. apply in_map_iff in Hq. destruct Hq as (iv & <- & _). now exists iv.
  Qed.

  Lemma raw_ok x def : forall ps a e, pchain a e ps ->
    (forall ab, In ab ps -> bidi_wf (snd ab - fst ab) (xbidi (para_string runes (fst ab) (snd ab)) def) = true) ->
    chain a e (raw_of xbidi runes x def ps) /\ Forall (shaped x) (raw_of xbidi runes x def ps).
  Proof.
    induction ps as [|(a0, b0) ps IH]; intros a e Hc Hwf; unfold raw_of; cbn [map concat].
    - cbn in Hc. split; [exact Hc|constructor].
    - cbn [pchain fst snd] in Hc. destruct Hc as (-> & Hab & Hc).
      destruct (para_runs_ok x def a b0 Hab) as (H1 & H2); [apply (Hwf (a, b0)); now left|].
      destruct (IH b0 e Hc) as (H3 & H4); [intros; apply Hwf; now right|].
      split; [eapply chain_app; eauto|]. apply Forall_app. auto.
  Qed.

  (* ---- appendBidiRun --------------------------------------------------------------------------- *)
  (* q lies inside a run of l that reports q's direction *)
  Definition covered (l : list input) (q : input) : Prop :=
    exists m, In m l /\ i_start m <= i_start q /\ i_end q <= i_end m /\ d_prog (i_dir m) = d_prog (i_dir q).

  Lemma dir_eqb_prog a b : dir_eqb a b = true -> d_prog a = d_prog b.
  Proof. unfold dir_eqb. rewrite !andb_true_iff. intros (((H & _) & _) & _). now apply eqb_prop. Qed.

  Lemma append_step x s a acc r : chain s a (rev acc) -> Forall (shaped x) acc -> shaped x r -> i_start r = a -> a < i_end r ->
    chain s (i_end r) (rev (append_bidi_run acc r)) /\ Forall (shaped x) (append_bidi_run acc r)
    /\ (forall q, covered acc q -> covered (append_bidi_run acc r) q) /\ covered (append_bidi_run acc r) r.
  Proof.
    intros Hc Hsh Hr Hs He. destruct acc as [|lst pre]; cbn [append_bidi_run].
    - cbn in Hc. subst s. split; [cbn; auto|]. split; [auto|]. split.
      + intros q (m & [] & _).
      + exists r. cbn. repeat split; auto; lia.
    - cbn [rev] in Hc. apply chain_app_inv in Hc. destruct Hc as (m & Hc1 & Hc2). cbn in Hc2. destruct Hc2 as (Hm1 & Hm2 & Hm3).
      inversion Hsh as [|? ? Hl Hp]; subst.
      destruct (dir_eqb (i_dir lst) (i_dir r)) eqn:Hd.
      + apply dir_eqb_prog in Hd. split; [|split; [|split]].
        * cbn [rev]. eapply chain_app; [exact Hc1|]. cbn. repeat split; auto. lia.
        * constructor; auto. now apply shaped_set_end.
        * intros q (m0 & [<-|Hin] & H1 & H2 & H3).
          -- exists (set_end lst (i_end r)). cbn. repeat split; auto. lia.
          -- exists m0. cbn. auto.
        * exists (set_end lst (i_end r)). cbn. repeat split; auto; lia.
      + split; [|split; [|split]].
        * cbn [rev]. eapply chain_snoc; [eapply chain_app; [exact Hc1|]; cbn; repeat split; eauto|lia|lia].
        * constructor; auto.
        * intros q (m0 & Hin & H). exists m0. split; [now right|auto].
        * exists r. split; [now left|]. repeat split; auto; lia.
  Qed.

  Lemma merge_inv x s : forall raw a e acc, chain a e raw -> Forall (shaped x) raw -> chain s a (rev acc) -> Forall (shaped x) acc ->
    chain s e (rev (fold_left append_bidi_run raw acc)) /\ Forall (shaped x) (fold_left append_bidi_run raw acc)
    /\ (forall q, covered acc q -> covered (fold_left append_bidi_run raw acc) q)
    /\ (forall q, In q raw -> covered (fold_left append_bidi_run raw acc) q).
  Proof.
    induction raw as [|r raw IH]; intros a e acc Hc Hsh Hca Hsa; cbn [fold_left].
    - cbn in Hc. subst. split; auto. split; auto. split; auto. intros q [].
    - cbn in Hc. destruct Hc as (H1 & H2 & H3). inversion Hsh; subst.
      destruct (append_step x s (i_start r) acc r) as (A1 & A2 & A3 & A4); auto.
      destruct (IH (i_end r) e (append_bidi_run acc r)) as (B1 & B2 & B3 & B4); auto.
      split; auto. split; auto. split; [auto|]. intros q [<-|Hq]; auto.
  Qed.

  (* ---- splitByBidi ------------------------------------------------------------------------------- *)
  Definition bidi_out (x : input) : list input :=
    rev (fold_left append_bidi_run (raw_of xbidi runes x (d_prog (i_dir x)) (paragraphs_of runes x)) []).

  Lemma split_by_bidi_text_spec x : 0 <= i_start x -> i_start x < i_end x -> i_end x <= zlen runes ->
    split_by_bidi_text xbidi runes x = Ok (bidi_out x).
  Proof.
    intros H0 H1 H2. unfold split_by_bidi_text.
    replace (i_end x <=? i_start x) with false by (symmetry; apply Z.leb_gt; lia).
    replace ((0 <=? i_start x) && (i_end x <=? zlen runes)) with true
      by (symmetry; apply andb_true_iff; split; apply Z.leb_le; lia).
    cbn [negb]. rewrite para_loop_spec by lia. reflexivity.
  Qed.

  Lemma xbidi_wf_in x ab : xbidi_wf xbidi runes x = true -> In ab (paragraphs_of runes x) ->
    bidi_wf (snd ab - fst ab) (xbidi (para_string runes (fst ab) (snd ab)) (d_prog (i_dir x))) = true.
  Proof. unfold xbidi_wf. rewrite forallb_forall. auto. Qed.

  Lemma paragraphs_of_chain x : i_start x <= i_end x ->
    pchain (i_start x) (i_end x) (paragraphs_of runes x) /\ Forall (para_shape runes (i_end x)) (paragraphs_of runes x).
  Proof. intros. apply paragraphs_chain; lia. Qed.

  Lemma bidi_out_ok x : i_start x <= i_end x -> xbidi_wf xbidi runes x = true ->
    chain (i_start x) (i_end x) (bidi_out x) /\ Forall (shaped x) (bidi_out x)
    /\ (forall q, In q (raw_of xbidi runes x (d_prog (i_dir x)) (paragraphs_of runes x)) -> covered (bidi_out x) q).
  Proof.
    intros Hle Hwf. destruct (paragraphs_of_chain x Hle) as (Hpc & _).
    destruct (raw_ok x (d_prog (i_dir x)) _ _ _ Hpc) as (Hrc & Hrs); [intros; now apply xbidi_wf_in|].
    destruct (merge_inv x (i_start x) _ _ _ [] Hrc Hrs) as (M1 & M2 & _ & M4); [cbn; auto|constructor|].
    unfold bidi_out. split; auto. split; [now apply Forall_rev|].
    intros q Hq. destruct (M4 q Hq) as (m & Hm & H). exists m. split; [now apply in_rev in Hm|auto].
  Qed.
End Runs.

(* ---- the run list in the format of Model/Itemize.v ------------------------------------------------ *)
Lemma flat_intervals x : forall l a e, chain a e l -> bidi_intervals a (i_start x) (flat_of x l) = map iv_of l.
Proof.
  induction l as [|r l IH]; intros a e Hc; cbn [flat_of map bidi_intervals]; auto.
  cbn in Hc. destruct Hc as (H1 & H2 & H3).
  replace (i_end r - i_start x - 1 + i_start x + 1) with (i_end r) by lia.
  fold (flat_of x l). rewrite (IH _ _ H3). unfold iv_of at 2. now rewrite H1.
Qed.

Lemma flat_increasing x : forall l a e, chain a e l ->
  ends_increasing (a - i_start x - 1) (flat_of x l) = true
  /\ (l <> [] -> fst (last (flat_of x l) (0, false)) = e - i_start x - 1).
Proof.
  induction l as [|r l IH]; intros a e Hc; cbn [flat_of map ends_increasing].
  - split; auto. congruence.
  - cbn in Hc. destruct Hc as (H1 & H2 & H3). fold (flat_of x l). destruct (IH _ _ H3) as (I1 & I2).
    split.
    + rewrite I1. replace (a - i_start x - 1 <? i_end r - i_start x - 1) with true by (symmetry; apply Z.ltb_lt; lia). reflexivity.
    + intros _. destruct l as [|r2 l].
      * cbn in *. lia.
      * cbn [flat_of map last] in *. apply I2. congruence.
Qed.

Lemma map_mk_iv_of x l : Forall (shaped x) l -> map (mk_bidi_run x) (map iv_of l) = l.
Proof.
  induction 1 as [|r l Hr _ IH]; cbn [map]; auto. now rewrite IH, (shaped_iv x r Hr).
Qed.

Section Bridge.
  Variable te : tenv.
  Variable x : input.
  Hypothesis Hrange : trange_ok te x = true.
  Hypothesis Hwf : xbidi_wf (t_xbidi te) (t_runes te) x = true.

  Let xb := t_xbidi te.
  Let rn := t_runes te.

  Lemma trange_inv : 0 <= i_start x /\ i_start x < i_end x /\ i_end x <= zlen rn /\ range_ok (t_env te) x = true.
  Proof.
    unfold trange_ok in Hrange. apply andb_true_iff in Hrange. destruct Hrange as (H1 & H2). apply Z.eqb_eq in H2.
    pose proof (range_ok_inv _ _ H1). subst rn. rewrite H2. tauto.
  Qed.

  Lemma text_bidi_eq : text_bidi xb rn x = Some (flat_of x (bidi_out xb rn x)).
  Proof.
    destruct trange_inv as (H0 & H1 & H2 & _). unfold text_bidi.
    replace (i_end x <=? i_start x) with false by (symmetry; apply Z.leb_gt; lia).
    now rewrite split_by_bidi_text_spec.
  Qed.

  Lemma bidi_out_facts : chain (i_start x) (i_end x) (bidi_out xb rn x) /\ Forall (shaped x) (bidi_out xb rn x)
    /\ bidi_out xb rn x <> [].
  Proof.
    destruct trange_inv as (H0 & H1 & H2 & _). destruct (bidi_out_ok xb rn x) as (A & B & _); [lia|exact Hwf|].
    split; auto. split; auto. eapply chain_not_nil; eauto.
  Qed.

  Lemma intervals_text : intervals_of (text_bidi xb rn x) x = map iv_of (bidi_out xb rn x).
  Proof.
    destruct bidi_out_facts as (Hc & Hs & Hn). rewrite text_bidi_eq. unfold intervals_of.
    destruct (bidi_out xb rn x) as [|r l] eqn:E; [congruence|].
    cbn [flat_of map]. fold (flat_of x l). change ((i_end r - i_start x - 1, d_prog (i_dir r)) :: flat_of x l) with (flat_of x (r :: l)).
    eapply flat_intervals; eauto.
  Qed.

  Lemma pre_text : pre (env_of_text te x) x.
  Proof.
    destruct trange_inv as (H0 & H1 & H2 & Hr). destruct bidi_out_facts as (Hc & Hs & Hn). split.
    - exact Hr.
    - cbn [env_of_text e_bidi]. fold xb rn. rewrite text_bidi_eq. unfold bidi_wf.
      destruct (flat_increasing x _ _ _ Hc) as (I1 & I2).
      destruct (bidi_out xb rn x) as [|r l] eqn:E; [congruence|].
      cbn [flat_of map]. fold (flat_of x l). change ((i_end r - i_start x - 1, d_prog (i_dir r)) :: flat_of x l) with (flat_of x (r :: l)).
      replace (i_start x - i_start x - 1) with (-1) in I1 by lia. rewrite I1, I2 by congruence.
      cbn [andb]. apply Z.eqb_eq. lia.
  Qed.

  (* splitByBidi on the text = splitByBidi of Model/Itemize.v on the run list it defines *)
  Lemma bidi_stage_eq :
    split_by_bidi_text xb rn x = split_by_bidi (zlen (e_text (env_of_text te x))) (e_bidi (env_of_text te x)) x.
  Proof.
    destruct trange_inv as (H0 & H1 & H2 & Hr). destruct bidi_out_facts as (Hc & Hs & Hn).
    rewrite split_by_bidi_text_spec by auto.
    rewrite split_by_bidi_spec by exact Hr.
    cbn [env_of_text e_bidi]. fold xb rn. rewrite intervals_text, map_mk_iv_of; auto.
  Qed.

  Lemma split_text_eq s : split_text te s x = split (env_of_text te x) s x.
  Proof. unfold split_text, split. fold xb rn. rewrite bidi_stage_eq. reflexivity. Qed.

  Lemma split_text_runs_eq s : split_text_runs te s x = split_runs (env_of_text te x) s x.
  Proof. unfold split_text_runs, split_runs. now rewrite split_text_eq. Qed.
End Bridge.

(* ---- the direction of a rune ----------------------------------------------------------------------- *)
Section Dir.
  Variable xbidi : list Z -> bool -> option (list (Z * bool)).
  Variable runes : list Z.

  Lemma bidi_loop_dir a def : forall rs inp i, rs <> [] -> ends_increasing (i_start inp - a - 1) rs = true ->
    i_start inp <= i -> i - a <= fst (last rs (0, false)) ->
    exists r, In r (bidi_loop rs a inp) /\ i_start r <= i < i_end r /\ d_prog (i_dir r) = xdir_at rs (i - a) def.
  Proof.
    induction rs as [|(e1, rtl) rs IH]; intros inp i Hne Hinc Hlo Hhi; [congruence|].
    cbn [bidi_loop xdir_at]. cbn [ends_increasing] in Hinc. apply andb_true_iff in Hinc. destruct Hinc as (H1 & H2). apply Z.ltb_lt in H1.
    destruct (i - a <=? e1) eqn:Hle.
    - apply Z.leb_le in Hle. eexists. split; [now left|]. cbn. split; [lia|reflexivity].
    - apply Z.leb_gt in Hle. destruct rs as [|r2 rs]; [cbn in Hhi; lia|].
      destruct (IH (set_start inp (e1 + a + 1)) i) as (r & Hin & Hr & Hd).
      + congruence.
      + cbn [i_start set_start]. replace (e1 + a + 1 - a - 1) with e1 by lia. exact H2.
      + cbn. lia.
      + exact Hhi.
      + exists r. split; [right; exact Hin|auto].
  Qed.

  (* every rune of a paragraph lies in a run handed to appendBidiRun that has the direction x/text gave to the rune *)
  Lemma para_runs_dir x a b i : a <= i < b ->
    bidi_wf (b - a) (xbidi (para_string runes a b) (d_prog (i_dir x))) = true ->
    exists r, In r (para_runs xbidi runes (d_prog (i_dir x)) (para_in x (a, b))) /\ i_start r <= i < i_end r
              /\ d_prog (i_dir r) = para_dir xbidi runes (d_prog (i_dir x)) a b i.
  Proof.
    intros Hi Hwf. unfold para_runs, para_dir, para_string in *. cbn [para_in fst snd i_start i_end set_start set_end].
    assert (Hone : exists r, In r [para_in x (a, b)] /\ i_start r <= i < i_end r /\ d_prog (i_dir r) = d_prog (i_dir x)).
    { eexists. split; [now left|]. cbn. split; [lia|reflexivity]. }
    destruct (xbidi (map norm_rune (slice runes a b)) (d_prog (i_dir x))) as [[|r rs]|]; auto.
    unfold bidi_wf in Hwf. apply andb_true_iff in Hwf. destruct Hwf as (Hinc & Hlast). apply Z.eqb_eq in Hlast.
    apply bidi_loop_dir; [congruence| | |].
    - cbn. replace (a - a - 1) with (-1) by lia. exact Hinc.
    - cbn. lia.
    - rewrite Hlast. lia.
  Qed.

  Lemma in_raw_of x def ps ab r : In ab ps -> In r (para_runs xbidi runes def (para_in x ab)) -> In r (raw_of xbidi runes x def ps).
  Proof. intros Hab Hr. unfold raw_of. apply in_concat. eexists. split; [|exact Hr]. apply in_map_iff. eauto. Qed.
End Dir.

Lemma parity_text_lemma te x out : trange_ok te x = true -> xbidi_wf (t_xbidi te) (t_runes te) x = true ->
  partition_ok x out = true -> bidi_ok (e_bidi (env_of_text te x)) x out = true ->
  parity_text_ok (t_xbidi te) (t_runes te) x out = true.
Proof.
  intros Hr Hwf Hpart Hbidi.
  destruct (trange_inv te x Hr) as (H0 & H1 & H2 & _).
  destruct (bidi_out_ok (t_xbidi te) (t_runes te) x) as (Hco & Hso & Hcov); [lia|exact Hwf|].
  destruct (paragraphs_of_chain (t_runes te) x) as (Hpc & _); [lia|].
  unfold partition_ok in Hpart. apply andb_true_iff in Hpart. destruct Hpart as (Hch & _). apply chainb_iff in Hch.
  unfold parity_text_ok. apply forallb_forall. intros (a, b) Hab. apply forallb_forall. intros i Hi.
  apply in_zrange in Hi. cbn [fst snd] in *.
  destruct (pchain_in _ _ _ _ Hpc Hab) as (Ha & Hlt & Hb). cbn [fst snd] in *.
  destruct (chain_cover _ _ _ i Hch) as (f & Hf & Hfi); [lia|].
  rewrite (run_at_chain _ _ _ _ _ Hch Hf Hfi).
  (* the final run f lies in a run m of splitByBidi with its direction *)
  unfold bidi_ok in Hbidi. rewrite forallb_forall in Hbidi. specialize (Hbidi f Hf).
  apply existsb_exists in Hbidi. destruct Hbidi as (iv & Hiv & Hin).
  cbn [env_of_text e_bidi] in Hiv. rewrite (intervals_text te x Hr Hwf) in Hiv.
  apply in_map_iff in Hiv. destruct Hiv as (m & <- & Hm).
  apply andb_true_iff in Hin. destruct Hin as (Hii & Hdir). unfold iv_of, in_interval in Hii.
  apply andb_true_iff in Hii. destruct Hii as (Hi1 & Hi2). apply Z.leb_le in Hi1, Hi2. cbn [snd iv_of] in Hdir. apply eqb_prop in Hdir.
  (* the rune lies in a raw run r of its paragraph, covered by a run m' of splitByBidi *)
  destruct (para_runs_dir (t_xbidi te) (t_runes te) x a b i) as (r & Hrin & Hri & Hrd); [lia|apply (xbidi_wf_in _ _ _ (a, b) Hwf Hab)|].
  destruct (Hcov r) as (m' & Hm' & Hs' & He' & Hd'); [eapply in_raw_of; eauto|].
  assert (Hmm : Some m = Some m').
  { rewrite <- (run_at_chain _ _ _ m i Hco Hm) by lia. apply (run_at_chain _ _ _ m' i Hco Hm'). lia. }
  injection Hmm as <-. apply eqb_true_iff. congruence.
Qed.

(* ---- statements used by Props/C07.v ------------------------------------------------------------------- *)
(* 0 <= RunStart < RunEnd <= len(Text), one observation record per rune, x/text well-formed on the paragraphs *)
Definition tpre (te : tenv) (x : input) : Prop :=
  trange_ok te x = true /\ xbidi_wf (t_xbidi te) (t_runes te) x = true.

Lemma bidi_runs_wf_lemma te x : tpre te x ->
  exists b, split_by_bidi_text (t_xbidi te) (t_runes te) x = Ok b /\ chainb (i_start x) (i_end x) b = true
            /\ text_bidi (t_xbidi te) (t_runes te) x = Some (flat_of x b)
            /\ bidi_wf (i_end x - i_start x) (Some (flat_of x b)) = true.
Proof.
  intros (Hr & Hwf). destruct (trange_inv te x Hr) as (H0 & H1 & H2 & _).
  exists (bidi_out (t_xbidi te) (t_runes te) x). split; [now apply split_by_bidi_text_spec|].
  destruct (bidi_out_facts te x Hr Hwf) as (Hc & _). split; [now apply chainb_iff|].
  pose proof (text_bidi_eq te x Hr) as He. split; auto.
  destruct (pre_text te x Hr Hwf) as (_ & Hb). cbn [env_of_text e_bidi] in Hb. now rewrite He in Hb.
Qed.

Lemma sound_text_lemma te s x : tpre te x ->
  exists runs, split_text_runs te s x = Ok runs /\ check_itemization (env_of_text te x) x runs = true
               /\ parity_text_ok (t_xbidi te) (t_runes te) x runs = true.
Proof.
  intros (Hr & Hwf). destruct (all_lemma (env_of_text te x) s x (pre_text te x Hr Hwf)) as (runs & Hs & Hc).
  exists runs. rewrite (split_text_runs_eq te x Hr Hwf). split; auto. split; auto.
  unfold check_itemization in Hc. rewrite !andb_true_iff in Hc. destruct Hc as (((((Hp & Hb) & _) & _) & _) & _).
  now apply parity_text_lemma.
Qed.

(* the slice returned by Split does not depend on the Segmenter it is called on: no hypothesis at all *)
Definition rest_pure (e : env) (x : input) (b : list input) : res (list input) :=
  do r <- split_by_script (e_text e) [] b;
  do l <- enforce_languages (e_langid e) (e_use e) (e_stl e) (snd r);
  do v <- (if resolve_orientation x then split_by_vert (e_text e) l else Ok l);
  split_by_face (e_text e) (e_hint e) v.

Local Opaque buf_appends split_by_script split_by_vert split_by_face enforce_languages.
Lemma rest_pure_eq e s x b : (do s' <- split_rest e (reset s) x b; Ok (live (s_out s'))) = rest_pure e x b.
Proof.
  unfold split_rest, rest_pure, resolve_orientation. cbn.
  rewrite live_appends. cbn.
  destruct (split_by_script (e_text e) [] b) as [(stk, sc)| | |]; cbn; auto.
  rewrite live_appends. cbn.
  destruct (enforce_languages (e_langid e) (e_use e) (e_stl e) sc) as [l| | |]; cbn; auto.
  destruct (d_vert (i_dir x) && negb (d_oset (i_dir x))); cbn.
  - destruct (split_by_vert (e_text e) l) as [v| | |]; cbn; auto.
    rewrite live_appends. cbn.
    destruct (split_by_face (e_text e) (e_hint e) v) as [f| | |]; cbn; auto.
    rewrite live_appends. cbn. auto.
  - destruct (split_by_face (e_text e) (e_hint e) l) as [f| | |]; cbn; auto.
    rewrite live_appends. cbn. auto.
Qed.
Local Transparent buf_appends split_by_script split_by_vert split_by_face enforce_languages.

Lemma rest_state_independent e s1 s2 x b :
  (do s' <- split_rest e (reset s1) x b; Ok (live (s_out s'))) = (do s' <- split_rest e (reset s2) x b; Ok (live (s_out s'))).
Proof. now rewrite !rest_pure_eq. Qed.

Lemma text_state_independent_lemma te s x : split_text_runs te s x = split_text_runs te seg_zero x.
Proof.
  unfold split_text_runs, split_text.
  destruct (split_by_bidi_text (t_xbidi te) (t_runes te) x) as [b| | |]; cbn [bind]; auto.
  apply rest_state_independent.
Qed.

Lemma text_history_lemma : forall h te x s, run_history_text h seg_zero = Ok s -> split_text_runs te s x = split_text_runs te seg_zero x.
Proof. intros. apply text_state_independent_lemma. Qed.

(* ---- empty range, histories ------------------------------------------------------------------------- *)
Lemma split_text_empty te s x : i_end x <= i_start x -> split_text te s x = split (t_env te) s x.
Proof.
  intros H. unfold split_text, split, split_by_bidi_text, split_by_bidi.
  replace (i_end x <=? i_start x) with true by (symmetry; apply Z.leb_le; lia). reflexivity.
Qed.

Lemma text_empty_range_lemma te s x : i_end x <= i_start x ->
  exists runs, split_text_runs te s x = Ok runs /\ empty_ok (t_env te) x runs = true.
Proof.
  intros H. destruct (empty_range_lemma (t_env te) s x H) as (runs & Hr & He). exists runs. split; auto.
  unfold split_text_runs. rewrite split_text_empty by auto. exact Hr.
Qed.

Lemma split_text_total te s x : tpre te x \/ i_end x <= i_start x -> exists s', split_text te s x = Ok s'.
Proof.
  intros [Hp|He].
  - destruct (sound_text_lemma te s x Hp) as (runs & Hr & _). unfold split_text_runs in Hr.
    destruct (split_text te s x); cbn in Hr; try discriminate. eauto.
  - destruct (text_empty_range_lemma te s x He) as (runs & Hr & _). unfold split_text_runs in Hr.
    destruct (split_text te s x); cbn in Hr; try discriminate. eauto.
Qed.

Lemma text_history_total_lemma h : (forall te x, In (te, x) h -> tpre te x \/ i_end x <= i_start x) ->
  exists s, run_history_text h seg_zero = Ok s.
Proof.
  generalize seg_zero. induction h as [|(te, x) h IH]; intros s Hall; cbn; eauto.
  destruct (split_text_total te s x) as (s' & ->); [apply Hall; now left|]. cbn. apply IH. intros. apply Hall. now right.
Qed.

(* ---- paragraphs are analysed independently ------------------------------------------------------------ *)
Definition dir_at (out : list input) (i : Z) : option bool := option_map (fun r => d_prog (i_dir r)) (run_at out i).

Lemma parity_at xb rn x out a b i : parity_text_ok xb rn x out = true -> In (a, b) (paragraphs_of rn x) -> a <= i < b ->
  dir_at out i = Some (para_dir xb rn (d_prog (i_dir x)) a b i).
Proof.
  unfold parity_text_ok. rewrite forallb_forall. intros H Hab Hi. specialize (H _ Hab). rewrite forallb_forall in H.
  specialize (H i). cbn [fst snd] in H. unfold dir_at.
  destruct (run_at out i) as [r|]; [|now (discriminate H; apply in_zrange)].
  cbn. f_equal. apply eqb_prop. apply H. now apply in_zrange.
Qed.

Lemma para_dir_indep xb rn1 rn2 def a1 b1 a2 b2 j : para_string rn1 a1 b1 = para_string rn2 a2 b2 ->
  para_dir xb rn1 def a1 b1 (a1 + j) = para_dir xb rn2 def a2 b2 (a2 + j).
Proof.
  intros H. unfold para_dir. rewrite H. replace (a1 + j - a1) with j by lia. replace (a2 + j - a2) with j by lia. reflexivity.
Qed.

Lemma paragraphs_independent_lemma xb e1 e2 rn1 rn2 s1 s2 x1 x2 out1 out2 a1 b1 a2 b2 j :
  tpre (mkTenv xb rn1 e1) x1 -> tpre (mkTenv xb rn2 e2) x2 -> d_prog (i_dir x1) = d_prog (i_dir x2) ->
  split_text_runs (mkTenv xb rn1 e1) s1 x1 = Ok out1 -> split_text_runs (mkTenv xb rn2 e2) s2 x2 = Ok out2 ->
  In (a1, b1) (paragraphs_of rn1 x1) -> In (a2, b2) (paragraphs_of rn2 x2) ->
  para_string rn1 a1 b1 = para_string rn2 a2 b2 ->
  0 <= j < b1 - a1 -> 0 <= j < b2 - a2 ->
  dir_at out1 (a1 + j) = dir_at out2 (a2 + j) /\ dir_at out1 (a1 + j) <> None.
Proof.
  intros P1 P2 Hd R1 R2 I1 I2 Hs J1 J2.
  destruct (sound_text_lemma _ s1 x1 P1) as (o1 & Q1 & _ & T1). rewrite R1 in Q1. injection Q1 as <-.
  destruct (sound_text_lemma _ s2 x2 P2) as (o2 & Q2 & _ & T2). rewrite R2 in Q2. injection Q2 as <-.
  cbn [t_xbidi t_runes] in *.
  rewrite (parity_at _ _ _ _ _ _ _ T1 I1) by lia. rewrite (parity_at _ _ _ _ _ _ _ T2 I2) by lia.
  rewrite Hd. split; [f_equal; now apply para_dir_indep|discriminate].
Qed.

(* ---- neighbours in the output of splitByBidi differ in direction ------------------------------------------ *)
Fixpoint altp (l : list input) : Prop :=
  match l with
  | a :: (b :: _) as r => d_prog (i_dir a) <> d_prog (i_dir b) /\ altp r
  | _ => True
  end.

Lemma altp_snoc : forall l a b, altp (l ++ [a]) -> d_prog (i_dir a) <> d_prog (i_dir b) -> altp (l ++ [a; b]).
Proof.
  induction l as [|c l IH]; intros a b H Hab; cbn in *; auto.
  destruct l as [|d l]; cbn in *.
  - destruct H. auto.
  - destruct H as (H1 & H2). split; auto. apply IH; auto.
Qed.

Lemma altp_rev : forall l, altp l -> altp (rev l).
Proof.
  induction l as [|a l IH]; intros H; auto.
  destruct l as [|b l]; [cbn; auto|].
  cbn [altp] in H. destruct H as (H1 & H2). specialize (IH H2).
  cbn [rev] in *. rewrite <- app_assoc. cbn [app]. apply altp_snoc; auto.
Qed.

Lemma alternating_iff l : alternating l = true <-> altp l.
Proof.
  induction l as [|a l IH]; cbn; [tauto|]. destruct l as [|b l]; [tauto|].
  rewrite andb_true_iff, IH, negb_true_iff. split; intros (H1 & H2); split; auto.
  - intros E. rewrite E, eqb_reflx in H1. discriminate.
  - destruct (Bool.eqb (d_prog (i_dir a)) (d_prog (i_dir b))) eqn:E; auto. apply eqb_prop in E. contradiction.
Qed.

Lemma shaped_dir_neq x a b : shaped x a -> shaped x b -> dir_eqb (i_dir a) (i_dir b) = false -> d_prog (i_dir a) <> d_prog (i_dir b).
Proof.
  intros (iva & ->) (ivb & ->). destruct iva as ((s1, e1), p1), ivb as ((s2, e2), p2). destruct x as [? ? ? [] ? ? ? ? ?].
  cbn. unfold dir_eqb. cbn. rewrite !eqb_reflx, !andb_true_r. intros H E. subst. now rewrite eqb_reflx in H.
Qed.

Lemma append_altp x acc r : Forall (shaped x) acc -> shaped x r -> altp acc -> altp (append_bidi_run acc r).
Proof.
  intros Hs Hr Ha. destruct acc as [|lst pre]; cbn [append_bidi_run]; [cbn; auto|].
  inversion Hs; subst. destruct (dir_eqb (i_dir lst) (i_dir r)) eqn:E.
  - destruct pre as [|p pre]; cbn in *; auto.
  - cbn [altp]. split; auto. apply not_eq_sym. eapply shaped_dir_neq; eauto.
Qed.

Lemma fold_altp x : forall raw acc, Forall (shaped x) raw -> Forall (shaped x) acc -> altp acc ->
  Forall (shaped x) (fold_left append_bidi_run raw acc) /\ altp (fold_left append_bidi_run raw acc).
Proof.
  induction raw as [|r raw IH]; intros acc Hr Ha Hp; cbn [fold_left]; auto.
  inversion Hr; subst. apply IH; auto.
  - destruct acc as [|lst pre]; cbn [append_bidi_run]; [auto|]. inversion Ha; subst.
    destruct (dir_eqb (i_dir lst) (i_dir r)); [constructor; auto; now apply shaped_set_end|constructor; auto].
  - eapply append_altp; eauto.
Qed.

Lemma bidi_alternate_lemma te x : tpre te x ->
  exists b, split_by_bidi_text (t_xbidi te) (t_runes te) x = Ok b /\ alternating b = true.
Proof.
  intros (Hr & Hwf). destruct (trange_inv te x Hr) as (H0 & H1 & H2 & _).
  exists (bidi_out (t_xbidi te) (t_runes te) x). split; [now apply split_by_bidi_text_spec|].
  apply alternating_iff. unfold bidi_out. apply altp_rev.
  destruct (paragraphs_of_chain (t_runes te) x) as (Hpc & _); [lia|].
  destruct (raw_ok (t_xbidi te) (t_runes te) x (d_prog (i_dir x)) _ _ _ Hpc) as (_ & Hrs); [intros; now apply xbidi_wf_in|].
  eapply fold_altp; eauto. cbn. auto.
Qed.

Lemma paragraph_boundaries_lemma rn x : i_start x <= i_end x ->
  pchain (i_start x) (i_end x) (paragraphs_of rn x) /\ Forall (para_shape rn (i_end x)) (paragraphs_of rn x).
Proof. apply paragraphs_of_chain. Qed.

Lemma split_text_refines_lemma te s x : tpre te x ->
  pre (env_of_text te x) x /\ split_text te s x = split (env_of_text te x) s x.
Proof. intros (Hr & Hwf). split; [now apply pre_text|now apply split_text_eq]. Qed.

(* ---- which (a, b) are paragraphs ------------------------------------------------------------------------- *)
Lemma paragraphs_mem rn : forall n a0 e a b, a0 <= e -> (Z.to_nat (e - a0) <= n)%nat ->
  (In (a, b) (paragraphs rn n a0 e) <->
   a0 <= a < e /\ (a = a0 \/ is_para_sep (znth 0 rn (a - 1)) = true) /\ b = para_end rn a e).
Proof.
  induction n as [|n IH]; intros a0 e a b Hle Hn; cbn [paragraphs].
  - split; [intros []|]. intros (H & _). lia.
  - destruct (a0 <? e) eqn:Hlt.
    + apply Z.ltb_lt in Hlt. destruct (para_end_spec rn a0 e Hlt) as (H1 & H2 & H3).
      cbn [In]. rewrite (IH (para_end rn a0 e) e a b) by lia. split.
      * intros [E|(Ha & Hs & Hb)].
        -- injection E as <- <-. split; [lia|]. split; auto.
        -- split; [lia|]. split; auto. destruct Hs as [->|Hs]; auto. right. destruct H3 as [H3|H3]; [lia|exact H3].
      * intros (Ha & Hs & Hb). destruct (Z.eq_dec a a0) as [->|Hne]; [left; now subst|]. right.
        destruct Hs as [Hs|Hs]; [contradiction|].
        assert (para_end rn a0 e <= a).
        { destruct (Z_le_gt_dec (para_end rn a0 e) a); auto. rewrite H2 in Hs by lia. discriminate. }
        split; [lia|]. split; auto.
    + apply Z.ltb_ge in Hlt. split; [intros []|]. intros (H & _). lia.
Qed.

(* [a, b) is a paragraph of the range iff a is RunStart or follows a separator, and b is where the scan from a stops *)
Lemma paragraph_membership_lemma rn x a b : i_start x <= i_end x ->
  (In (a, b) (paragraphs_of rn x) <->
   i_start x <= a < i_end x /\ (a = i_start x \/ is_para_sep (znth 0 rn (a - 1)) = true) /\ b = para_end rn a (i_end x)).
Proof. intros H. unfold paragraphs_of. apply paragraphs_mem; lia. Qed.
