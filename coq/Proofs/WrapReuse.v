(* C13: the LineWrapper never leaks state between paragraphs.  Prepare resets every field of the wrapper except the
   rune -> glyph mapping buffer (runMapper.mapping is reused, only its valid flag is cleared).  Two wrapper states that
   differ only in the mapper, with equal valid flags and, when valid, the same run index and the same mapping prefix,
   are indistinguishable: every function of the model returns the same result and related states (a simulation through
   mapRun, fillUntil, processBreakOption, both loops of wrapNextLine, postProcessLine, WrapNextLine, WrapParagraph).
   The only place the stale buffer could show is mapRunesToClusterIndices3, which on a well-formed run overwrites every
   entry it returns (map3_correct: the result does not depend on the initial buffer). *)
From TV Require Import Model.Wrap Spec.Wrap Spec.WrapCut Proofs.Wrap Proofs.WrapCut Proofs.WrapLines Proofs.WrapStore.

Definition Rm (a b : mapper) : Prop :=
  m_valid a = m_valid b /\ (m_valid a = true -> m_run a = m_run b /\ mapping_of a = mapping_of b).
Lemma Rm_refl : forall a, Rm a a.
Proof. intros a. split; auto. Qed.

(* ---- set_mp commutes with everything that does not read the mapper ------------------------------------------------ *)

Lemma smp_cfg : forall w m, w_cfg (set_mp w m) = w_cfg w. Proof. destruct w; reflexivity. Qed.
Lemma smp_truncating : forall w m, w_truncating (set_mp w m) = w_truncating w. Proof. destruct w; reflexivity. Qed.
Lemma smp_start : forall w m, w_start (set_mp w m) = w_start w. Proof. destruct w; reflexivity. Qed.
Lemma smp_more : forall w m, w_more (set_mp w m) = w_more w. Proof. destruct w; reflexivity. Qed.
Lemma smp_runs : forall w m, w_runs (set_mp w m) = w_runs w. Proof. destruct w; reflexivity. Qed.
Lemma smp_idx : forall w m, w_idx (set_mp w m) = w_idx w. Proof. destruct w; reflexivity. Qed.
Lemma smp_saved : forall w m, w_saved (set_mp w m) = w_saved w. Proof. destruct w; reflexivity. Qed.
Lemma smp_br : forall w m, w_br (set_mp w m) = w_br w. Proof. destruct w; reflexivity. Qed.
Lemma smp_sc : forall w m, w_sc (set_mp w m) = w_sc w. Proof. destruct w; reflexivity. Qed.
Lemma smp_st : forall w m, w_st (set_mp w m) = w_st w. Proof. destruct w; reflexivity. Qed.
Lemma smp_mp : forall w m, w_mp (set_mp w m) = m. Proof. destruct w; reflexivity. Qed.
Lemma smp_smp : forall w a b, set_mp (set_mp w a) b = set_mp w b. Proof. destruct w; reflexivity. Qed.
Lemma smp_id : forall w, set_mp w (w_mp w) = w. Proof. destruct w; reflexivity. Qed.
Lemma smp_checkpoint : forall w m, checkpoint (set_mp w m) = set_mp (checkpoint w) m. Proof. destruct w; reflexivity. Qed.
Lemma smp_restore : forall w m, restore (set_mp w m) = set_mp (restore w) m. Proof. destruct w; reflexivity. Qed.
Lemma smp_set_br : forall w m b, set_br (set_mp w m) b = set_mp (set_br w b) m. Proof. destruct w; reflexivity. Qed.
Lemma smp_mark_best : forall w m s, mark_best (set_mp w m) s = set_mp (mark_best w s) m. Proof. destruct w; reflexivity. Qed.
Lemma smp_iter_advance : forall w m, iter_advance (set_mp w m) = set_mp (iter_advance w) m. Proof. destruct w; reflexivity. Qed.
Lemma smp_cand_append : forall w m r, cand_append (set_mp w m) r = set_mp (cand_append w r) m. Proof. destruct w; reflexivity. Qed.
Lemma smp_set_st : forall w m s, set_st (set_mp w m) s = set_mp (set_st w s) m. Proof. destruct w; reflexivity. Qed.
Lemma smp_start_line : forall w m, start_line (set_mp w m) = set_mp (start_line w) m. Proof. destruct w; reflexivity. Qed.
Lemma smp_peek : forall w m, peek (set_mp w m) = peek w. Proof. destruct w; reflexivity. Qed.
Lemma smp_has_best : forall w m, has_best (set_mp w m) = has_best w. Proof. destruct w; reflexivity. Qed.
Lemma smp_alt_empty : forall w m, alt_empty (set_mp w m) = alt_empty w. Proof. destruct w; reflexivity. Qed.
Lemma smp_policy_never : forall w m, policy_never (set_mp w m) = policy_never w. Proof. destruct w; reflexivity. Qed.
Lemma smp_policy_wn : forall w m, policy_when_necessary (set_mp w m) = policy_when_necessary w. Proof. destruct w; reflexivity. Qed.
Lemma smp_br_fuel : forall w m, br_fuel (set_mp w m) = br_fuel w. Proof. destruct w; reflexivity. Qed.
Lemma smp_loop_fuel : forall w m, loop_fuel (set_mp w m) = loop_fuel w. Proof. destruct w; reflexivity. Qed.
(* the mapper is untouched by the scratch operations *)
Lemma mp_checkpoint : forall w, w_mp (checkpoint w) = w_mp w. Proof. destruct w; reflexivity. Qed.
Lemma mp_restore : forall w, w_mp (restore w) = w_mp w. Proof. destruct w; reflexivity. Qed.
Lemma mp_set_br : forall w b, w_mp (set_br w b) = w_mp w. Proof. destruct w; reflexivity. Qed.
Lemma mp_mark_best : forall w s, w_mp (mark_best w s) = w_mp w. Proof. destruct w; reflexivity. Qed.
Lemma mp_iter_advance : forall w, w_mp (iter_advance w) = w_mp w. Proof. destruct w; reflexivity. Qed.
Lemma mp_cand_append : forall w r, w_mp (cand_append w r) = w_mp w. Proof. destruct w; reflexivity. Qed.
Lemma mp_set_st : forall w s, w_mp (set_st w s) = w_mp w. Proof. destruct w; reflexivity. Qed.
Lemma mp_start_line : forall w, w_mp (start_line w) = w_mp w. Proof. destruct w; reflexivity. Qed.
(* store and runs under the scratch operations *)
Lemma st_checkpoint : forall w, w_st (checkpoint w) = w_st w. Proof. destruct w; reflexivity. Qed.
Lemma st_restore : forall w, w_st (restore w) = w_st w. Proof. destruct w; reflexivity. Qed.
Lemma st_set_br : forall w b, w_st (set_br w b) = w_st w. Proof. destruct w; reflexivity. Qed.
Lemma st_mark_best : forall w s, w_st (mark_best w s) = w_st w. Proof. destruct w; reflexivity. Qed.
Lemma st_iter_advance : forall w, w_st (iter_advance w) = w_st w. Proof. destruct w; reflexivity. Qed.
Lemma st_cand_append : forall w r, w_st (cand_append w r) = w_st w. Proof. destruct w; reflexivity. Qed.
Lemma st_set_st : forall w s, w_st (set_st w s) = s. Proof. destruct w; reflexivity. Qed.
Lemma st_start_line : forall w, w_st (start_line w) = w_st w. Proof. destruct w; reflexivity. Qed.
Lemma rs_checkpoint : forall w, w_runs (checkpoint w) = w_runs w. Proof. destruct w; reflexivity. Qed.
Lemma rs_restore : forall w, w_runs (restore w) = w_runs w. Proof. destruct w; reflexivity. Qed.
Lemma rs_set_br : forall w b, w_runs (set_br w b) = w_runs w. Proof. destruct w; reflexivity. Qed.
Lemma rs_mark_best : forall w s, w_runs (mark_best w s) = w_runs w. Proof. destruct w; reflexivity. Qed.
Lemma rs_iter_advance : forall w, w_runs (iter_advance w) = w_runs w. Proof. destruct w; reflexivity. Qed.
Lemma rs_cand_append : forall w r, w_runs (cand_append w r) = w_runs w. Proof. destruct w; reflexivity. Qed.
Lemma rs_set_st : forall w s, w_runs (set_st w s) = w_runs w. Proof. destruct w; reflexivity. Qed.
Lemma rs_start_line : forall w, w_runs (start_line w) = w_runs w. Proof. destruct w; reflexivity. Qed.

Global Hint Rewrite smp_cfg smp_truncating smp_start smp_more smp_runs smp_idx smp_saved smp_br smp_sc smp_st smp_mp smp_smp
  smp_checkpoint smp_restore smp_set_br smp_mark_best smp_iter_advance smp_cand_append smp_set_st smp_start_line smp_peek
  smp_has_best smp_alt_empty smp_policy_never smp_policy_wn smp_br_fuel
  mp_checkpoint mp_restore mp_set_br mp_mark_best mp_iter_advance mp_cand_append mp_set_st mp_start_line
  st_checkpoint st_restore st_set_br st_mark_best st_iter_advance st_cand_append st_set_st st_start_line
  rs_checkpoint rs_restore rs_set_br rs_mark_best rs_iter_advance rs_cand_append rs_set_st rs_start_line : smp.

(* ---- the simulation relations on results --------------------------------------------------------------------------- *)

Definition SK := list (list (Z * Z * Z * Z * Z)).
Definition relW (s0 : SK) (rs0 : list out) (a b : W) : Prop :=
  b = set_mp a (w_mp b) /\ Rm (w_mp a) (w_mp b) /\ sk (w_st a) = s0 /\ w_runs a = rs0.

Definition simW (s0 : SK) (rs0 : list out) (r1 r2 : res W) : Prop :=
  match r1, r2 with
  | Ok a, Ok b => relW s0 rs0 a b
  | Err e1, Err e2 => e1 = e2
  | Panic p1, Panic p2 => p1 = p2
  | OutOfFuel, OutOfFuel => True
  | _, _ => False
  end.
Definition sim2 {X} (s0 : SK) (rs0 : list out) (r1 r2 : res (W * X)) : Prop :=
  match r1, r2 with
  | Ok (a, x), Ok (b, y) => relW s0 rs0 a b /\ x = y
  | Err e1, Err e2 => e1 = e2
  | Panic p1, Panic p2 => p1 = p2
  | OutOfFuel, OutOfFuel => True
  | _, _ => False
  end.
Definition sim3 {X Y} (s0 : SK) (rs0 : list out) (r1 r2 : res (W * X * Y)) : Prop :=
  match r1, r2 with
  | Ok (a, x, c), Ok (b, y, d) => relW s0 rs0 a b /\ x = y /\ c = d
  | Err e1, Err e2 => e1 = e2
  | Panic p1, Panic p2 => p1 = p2
  | OutOfFuel, OutOfFuel => True
  | _, _ => False
  end.

Lemma relW_intro : forall w mp, Rm (w_mp w) mp -> relW (sk (w_st w)) (w_runs w) w (set_mp w mp).
Proof. intros w mp H. unfold relW. rewrite smp_mp. auto. Qed.

Lemma peek_cases : forall w ci run more, peek w = (ci, run, more) ->
  (0 <= ci < zlen (w_runs w) /\ run = znth out_zero (w_runs w) ci) \/ o_cnt run <= 0.
Proof.
  intros w ci run more H. unfold peek in H. destruct (zlen (w_runs w) <=? w_idx w) eqn:E; inversion H; subst; [right; cbn; lia|].
  apply Z.leb_gt in E. destruct (Z_lt_dec (w_idx w) 0) as [A|A].
  - right. unfold znth. replace (w_idx w <? 0) with true by (symmetry; apply Z.ltb_lt; lia). cbn. lia.
  - left. split; [lia|reflexivity].
Qed.

(* ---- mapRun ----------------------------------------------------------------------------------------------------- *)

Lemma map_run_sim : forall n w mp ci run, Rm (w_mp w) mp -> wf_runs (w_st w) (w_runs w) n = true ->
  (0 <= ci < zlen (w_runs w) /\ run = znth out_zero (w_runs w) ci) \/ o_cnt run <= 0 ->
  exists m1 m2, map_run w ci run = Ok (set_mp w m1) /\ map_run (set_mp w mp) ci run = Ok (set_mp w m2)
    /\ Rm m1 m2 /\ m_valid m1 = true.
Proof.
  intros n w mp ci run (RV & RR) HW Hc. unfold map_run. rewrite smp_mp, smp_st.
  assert (EC : negb (m_run mp =? ci) || negb (m_valid mp) = negb (m_run (w_mp w) =? ci) || negb (m_valid (w_mp w))).
  { rewrite <- RV. destruct (m_valid (w_mp w)); [|rewrite !orb_true_r; reflexivity]. destruct (RR eq_refl) as [-> _]. reflexivity. }
  rewrite EC. destruct (negb (m_run (w_mp w) =? ci) || negb (m_valid (w_mp w))) eqn:E.
  - destruct (o_cnt run <=? 0) eqn:C.
    + exists (mkMapper true ci [] 0), (mkMapper true ci [] 0). rewrite smp_smp.
      split; [reflexivity|split; [reflexivity|split; [apply Rm_refl|reflexivity]]].
    + apply Z.leb_gt in C. destruct Hc as [[Hci Hrun]|Hc]; [|lia].
      destruct (wf_runs_nth _ _ _ HW ci Hci) as (G0 & G1 & G2 & G3 & G4 & G5 & G6 & G7). rewrite <- Hrun in *.
      set (spec := map3_spec (src_array (w_st w) ci) (o_off run) (o_cnt run)).
      assert (RC : forall bk, let back := if o_cnt run <=? zlen bk then bk else repeat 0 (Z.to_nat (o_cnt run)) in
                map3 (o_dir run) (o_off run) (out_glyphs (w_st w) run) (zfirstn (o_cnt run) back) = Ok spec
                /\ mapping_of (mkMapper true ci (spec ++ zskipn (o_cnt run) back) (o_cnt run)) = spec).
      { intros bk back.
        assert (Hb : o_cnt run <= zlen back).
        { unfold back. destruct (o_cnt run <=? zlen bk) eqn:L; [apply Z.leb_le in L; lia|]. unfold zlen. rewrite repeat_length. lia. }
        split.
        - rewrite (map3_correct (o_dir run) (o_off run) (out_glyphs (w_st w) run) (zfirstn (o_cnt run) back) (o_cnt run));
            [rewrite G7; reflexivity|rewrite G7; exact G5|apply zlen_zfirstn; lia].
        - unfold mapping_of; cbn. assert (L : zlen spec = o_cnt run) by (apply map3_spec_len; lia). rewrite <- L. apply zfirstn_app_exact. }
      destruct (RC (m_back (w_mp w))) as [R1 R2]. destruct (RC (m_back mp)) as [R3 R4]. cbv zeta in R1, R3.
      rewrite R1, R3. cbn [bind]. rewrite smp_smp. do 2 eexists. split; [reflexivity|]. split; [reflexivity|].
      split; [|reflexivity]. split; [reflexivity|]. intros _. split; [reflexivity|]. rewrite R2, R4. reflexivity.
  - apply orb_false_elim in E. destruct E as [E1 E2]. apply negb_false_iff in E2.
    exists (w_mp w), mp. rewrite smp_id. split; [reflexivity|split; [reflexivity|split; [split; [exact RV|exact RR]|exact E2]]].
Qed.

Lemma wf_transport : forall n w a, wf_runs (w_st w) (w_runs w) n = true -> sk (w_st a) = sk (w_st w) -> w_runs a = w_runs w ->
  wf_runs (w_st a) (w_runs a) n = true.
Proof. intros n w a H H0 H1. rewrite H1. rewrite (sk_wf_runs _ _ _ _ H0). exact H. Qed.

Lemma relW_smp : forall s0 rs0 X m1 m2, Rm m1 m2 -> sk (w_st X) = s0 -> w_runs X = rs0 -> relW s0 rs0 (set_mp X m1) (set_mp X m2).
Proof. intros. unfold relW. rewrite !smp_mp, smp_smp, smp_st, smp_runs. auto. Qed.

(* ---- fillUntil, processBreakOption --------------------------------------------------------------------------------- *)

Lemma fill_until_sim : forall n fuel w mp b, Rm (w_mp w) mp -> wf_runs (w_st w) (w_runs w) n = true ->
  simW (sk (w_st w)) (w_runs w) (fill_until fuel w b) (fill_until fuel (set_mp w mp) b).
Proof.
  intros n. induction fuel as [|fuel IH]; intros w mp b HR HW; cbn [fill_until]; [exact I|].
  rewrite smp_peek, smp_start. destruct (peek w) as [[ci run] more] eqn:PK.
  destruct (more && (o_cnt run + o_off run <=? b)) eqn:C; [|exact (relW_intro w mp HR)].
  destruct (o_off run + o_cnt run <=? w_start w).
  - rewrite smp_iter_advance.
    specialize (IH (iter_advance w) mp b). autorewrite with smp in IH. apply IH; assumption.
  - destruct (o_off run <? w_start w).
    + destruct (map_run_sim n w mp ci run HR HW (peek_cases _ _ _ _ PK)) as (m1 & m2 & M1 & M2 & RM & V1).
      rewrite M1, M2. cbn [bind]. autorewrite with smp.
      replace (mapping_of m2) with (mapping_of m1) by (apply (proj2 (proj2 RM V1))).
      destruct (cut_run (w_st w) run (mapping_of m1) (w_start w) (o_cnt run + o_off run) (alt_empty w)) as [[st' rc]| | |] eqn:CR;
        cbn [bind fst snd]; try exact I; try reflexivity.
      autorewrite with smp.
      destruct (cut_run_bounds _ _ _ _ _ _ _ _ CR) as (_ & _ & _ & SK').
      specialize (IH (set_mp (iter_advance (cand_append (set_st w st') rc)) m1) m2 b). autorewrite with smp in IH.
      rewrite SK' in IH. apply IH; [exact RM|]. rewrite (sk_wf_runs _ _ (w_runs w) n SK'). exact HW.
    + cbn [bind fst snd]. autorewrite with smp.
      specialize (IH (iter_advance (cand_append w (recompute_advance (w_st w) run))) mp b). autorewrite with smp in IH. apply IH; assumption.
Qed.

Lemma pbo_sim : forall n w mp opt lc, Rm (w_mp w) mp -> wf_runs (w_st w) (w_runs w) n = true ->
  sim3 (sk (w_st w)) (w_runs w) (process_break_option w opt lc) (process_break_option (set_mp w mp) opt lc).
Proof.
  intros n w mp opt lc HR HW. unfold process_break_option. rewrite smp_start, smp_runs.
  destruct (fst opt <? w_start w); [cbn; split; [exact (relW_intro w mp HR)|auto]|].
  pose proof (fill_until_sim n (S (length (w_runs w))) w mp (fst opt) HR HW) as FS.
  destruct (fill_until _ w (fst opt)) as [a| | |]; destruct (fill_until _ (set_mp w mp) (fst opt)) as [b| | |];
    cbn in FS; try contradiction; cbn [bind]; try exact FS; try exact I.
  destruct FS as (Eb & RM & Sa & Ra). rewrite Eb. rewrite smp_peek.
  destruct (peek a) as [[ci run] more] eqn:PK.
  pose proof (wf_transport n w a HW Sa Ra) as HWa.
  destruct (map_run_sim n a (w_mp b) ci run RM HWa (peek_cases _ _ _ _ PK)) as (m1 & m2 & M1 & M2 & RM2 & V1).
  rewrite M1, M2. cbn [bind]. autorewrite with smp.
  replace (mapping_of m2) with (mapping_of m1) by (apply (proj2 (proj2 RM2 V1))).
  destruct (is_valid (w_st a) (fst opt) (mapping_of m1) run) as [v| | |]; cbn [bind]; try exact I; try reflexivity.
  destruct v; cbn [negb].
  2:{ cbn. split; [apply relW_smp; assumption|auto]. }
  destruct (cut_run (w_st a) run (mapping_of m1) (w_start a) (fst opt) (alt_empty a)) as [[st' rc]| | |] eqn:CR;
    cbn [bind fst snd]; try exact I; try reflexivity.
  destruct (cut_run_bounds _ _ _ _ _ _ _ _ CR) as (_ & _ & _ & SK').
  cbv zeta. autorewrite with smp.
  assert (RW : relW (sk (w_st w)) (w_runs w) (set_mp (set_st a st') m1) (set_mp (set_st a st') m2)).
  { apply relW_smp; [exact RM2|rewrite st_set_st, SK'; exact Sa|rewrite rs_set_st; exact Ra]. }
  repeat match goal with |- context [if ?c then _ else _] => destruct c end; cbn; (split; [exact RW|auto]).
Qed.

(* ---- the two loops of wrapNextLine ------------------------------------------------------------------------------------ *)

Lemma relW_intro' : forall s0 rs0 Y mb, Rm (w_mp Y) mb -> sk (w_st Y) = s0 -> w_runs Y = rs0 -> relW s0 rs0 Y (set_mp Y mb).
Proof. intros s0 rs0 Y mb H <- <-. apply relW_intro. exact H. Qed.

Ltac fin := cbn; split; [apply relW_intro'; autorewrite with smp; assumption|reflexivity].
Ltac ifs := repeat (match goal with |- context [if ?c then _ else _] => destruct c end; autorewrite with smp).

Lemma fallback_sim : forall n w mp wopt lc s0 rs0,
  Rm (w_mp w) mp -> wf_runs (w_st w) (w_runs w) n = true -> sk (w_st w) = s0 -> w_runs w = rs0 ->
  sim2 s0 rs0 (word_fallback w wopt lc) (word_fallback (set_mp w mp) wopt lc).
Proof.
  intros n w mp wopt lc s0 rs0 HR HW Hs Hr. unfold word_fallback. autorewrite with smp.
  destruct (negb (lc_truncating lc) && negb (has_best w)); [|fin].
  pose proof (pbo_sim n (restore w) mp wopt lc) as PS. autorewrite with smp in PS. specialize (PS HR HW).
  rewrite Hs, Hr in PS.
  destruct (process_break_option (restore w) wopt lc) as [[[a r] c]| | |];
    destruct (process_break_option (set_mp (restore w) mp) wopt lc) as [[[b r'] c']| | |];
    cbn in PS; try contradiction; cbn [bind]; try exact PS; try exact I.
  destruct PS as ((Eb & RM & Sa & Ra) & <- & <-). rewrite Eb.
  destruct r; cbv zeta; autorewrite with smp; fin.
Qed.

Lemma inner_sim : forall n fuel w mp wopt lc s0 rs0,
  Rm (w_mp w) mp -> wf_runs (w_st w) (w_runs w) n = true -> sk (w_st w) = s0 -> w_runs w = rs0 ->
  sim2 s0 rs0 (inner_loop fuel w wopt lc) (inner_loop fuel (set_mp w mp) wopt lc).
Proof.
  intros n. induction fuel as [|fuel IH]; intros w mp wopt lc s0 rs0 HR HW Hs Hr; cbn [inner_loop]; [exact I|].
  autorewrite with smp.
  destruct (next_grapheme_break _ _) as [[b1 ro]| | |]; cbn [bind fst snd]; try exact I; try reflexivity.
  autorewrite with smp.
  destruct ro as [opt|]; [|apply (fallback_sim n); autorewrite with smp; assumption].
  pose proof (pbo_sim n (set_br (checkpoint w) b1) mp opt lc) as PS. autorewrite with smp in PS. specialize (PS HR HW).
  rewrite Hs, Hr in PS.
  destruct (process_break_option (set_br (checkpoint w) b1) opt lc) as [[[a r] c]| | |];
    destruct (process_break_option (set_mp (set_br (checkpoint w) b1) mp) opt lc) as [[[b r'] c']| | |];
    cbn in PS; try contradiction; cbn [bind]; try exact PS; try exact I.
  destruct PS as ((Eb & RM & Sa & Ra) & <- & <-). rewrite Eb.
  assert (HWa : wf_runs (w_st a) (w_runs a) n = true).
  { subst s0 rs0. eapply wf_transport; eauto. }
  destruct r; cbv zeta; autorewrite with smp; ifs;
    first [fin | (apply IH; autorewrite with smp; assumption)].
Qed.

Lemma outer_sim : forall n fuel w mp lc s0 rs0,
  Rm (w_mp w) mp -> wf_runs (w_st w) (w_runs w) n = true -> sk (w_st w) = s0 -> w_runs w = rs0 ->
  sim2 s0 rs0 (outer_loop fuel w lc) (outer_loop fuel (set_mp w mp) lc).
Proof.
  intros n. induction fuel as [|fuel IH]; intros w mp lc s0 rs0 HR HW Hs Hr; cbn [outer_loop]; [exact I|].
  autorewrite with smp.
  destruct (next_word_break _) as [b1 ro]. autorewrite with smp.
  destruct ro as [opt|]; [|fin].
  pose proof (pbo_sim n (set_br (checkpoint w) b1) mp opt lc) as PS. autorewrite with smp in PS. specialize (PS HR HW).
  rewrite Hs, Hr in PS.
  destruct (process_break_option (set_br (checkpoint w) b1) opt lc) as [[[a r] c]| | |];
    destruct (process_break_option (set_mp (set_br (checkpoint w) b1) mp) opt lc) as [[[b r'] c']| | |];
    cbn in PS; try contradiction; cbn [bind]; try exact PS; try exact I.
  destruct PS as ((Eb & RM & Sa & Ra) & <- & <-). rewrite Eb.
  assert (HWa : wf_runs (w_st a) (w_runs a) n = true).
  { subst s0 rs0. eapply wf_transport; eauto. }
  destruct r; cbv zeta; autorewrite with smp; destruct (has_best a); autorewrite with smp; ifs;
    first [fin | (apply IH; autorewrite with smp; assumption) | (apply (inner_sim n); autorewrite with smp; assumption)].
Qed.

(* ---- postProcessLine, WrapNextLine ------------------------------------------------------------------------------------ *)

Lemma smp_set_start : forall w m x, set_start (set_mp w m) x = set_mp (set_start w x) m. Proof. destruct w; reflexivity. Qed.
Lemma smp_set_cfg : forall w m x, set_cfg (set_mp w m) x = set_mp (set_cfg w x) m. Proof. destruct w; reflexivity. Qed.
Lemma smp_set_more : forall w m x, set_more (set_mp w m) x = set_mp (set_more w x) m. Proof. destruct w; reflexivity. Qed.
Lemma start_set_cfg' : forall w x, w_start (set_cfg w x) = w_start w. Proof. destruct w; reflexivity. Qed.

Lemma pp_first_smp : forall w mp line, pp_first (set_mp w mp) line = (let '(w1, l1) := pp_first w line in (set_mp w1 mp, l1)).
Proof.
  intros w mp line. unfold pp_first. destruct line as [[|a fl]|]; try reflexivity.
  cbv zeta. rewrite !smp_cfg, !smp_st.
  destruct (c_notrim (w_cfg w)); [rewrite smp_set_start; reflexivity|].
  match goal with |- context [if ?c then _ else _] => destruct c end; rewrite ?smp_set_st, ?smp_set_start; reflexivity.
Qed.
Lemma pp_tail_smp : forall cfg w mp line done,
  pp_tail cfg (set_mp w mp) line done = (let '(w', wl, d) := pp_tail cfg w line done in (set_mp w' mp, wl, d)).
Proof.
  intros cfg w mp line done. unfold pp_tail. rewrite !smp_br, !smp_start, !smp_truncating, !smp_set_cfg, !smp_start.
  repeat match goal with |- context [if ?c then _ else _] => destruct c end; rewrite ?smp_set_more, ?smp_start; reflexivity.
Qed.
Lemma post_process_smp : forall w mp line done,
  post_process (set_mp w mp) line done = (let '(w', wl, d) := post_process w line done in (set_mp w' mp, wl, d)).
Proof.
  intros w mp line done. rewrite !post_process_split, pp_first_smp, smp_cfg. destruct (pp_first w line) as [w1 l1].
  apply pp_tail_smp.
Qed.

Lemma post_process_frame : forall w line done w' wl d, post_process w line done = (w', wl, d) ->
  sk (w_st w') = sk (w_st w) /\ w_runs w' = w_runs w /\ w_mp w' = w_mp w.
Proof.
  intros w line done w' wl d H. rewrite post_process_split in H.
  destruct (pp_first w line) as [w1 l1] eqn:PF.
  assert (K : sk (w_st w1) = sk (w_st w) /\ w_runs w1 = w_runs w /\ w_mp w1 = w_mp w).
  { unfold pp_first in PF. destruct line as [[|a fl]|]; try (inversion PF; subst; auto).
    cbv zeta in PF. destruct (c_notrim (w_cfg w)); [inversion PF; subst; destruct w; auto|].
    match type of PF with context [if ?c then _ else _] => destruct c end; inversion PF; subst; destruct w; cbn; auto.
    split; [apply sk_update; apply gskel_zero|auto]. }
  destruct K as (K1 & K2 & K3).
  assert (T : w_st w' = w_st w1 /\ w_runs w' = w_runs w1 /\ w_mp w' = w_mp w1).
  { unfold pp_tail in H. repeat match type of H with context [if ?c then _ else _] => destruct c end; inversion H; subst; repeat split; first [reflexivity|destruct w1; reflexivity]. }
  destruct T as (T1 & T2 & T3). rewrite T1, T2, T3. auto.
Qed.

Lemma wnl_sim : forall n w mp mw s0 rs0,
  Rm (w_mp w) mp -> wf_runs (w_st w) (w_runs w) n = true -> sk (w_st w) = s0 -> w_runs w = rs0 ->
  sim3 s0 rs0 (wrap_next_line w mw) (wrap_next_line (set_mp w mp) mw).
Proof.
  intros n w mp mw s0 rs0 HR HW Hs Hr. unfold wrap_next_line. autorewrite with smp.
  destruct (w_more w); cbn [negb].
  2:{ cbn. split; [apply relW_intro'; assumption|auto]. }
  destruct (peek w) as [[ci run] hasFirst]. destruct hasFirst; cbn [negb].
  2:{ rewrite post_process_smp. destruct (post_process w None true) as [[w' wl] d] eqn:PP.
      destruct (post_process_frame _ _ _ _ _ _ PP) as (F1 & F2 & F3). cbn. split; [|auto].
      apply relW_intro'; [rewrite F3; exact HR|rewrite F1; exact Hs|rewrite F2; exact Hr]. }
  try rewrite smp_loop_fuel. try change (br_fuel (start_line w)) with (loop_fuel (start_line w)).
  set (lc := mkLC _ _ _).
  pose proof (outer_sim n (loop_fuel (start_line w)) (start_line w) mp lc s0 rs0) as OS. autorewrite with smp in OS.
  specialize (OS HR HW Hs Hr).
  destruct (outer_loop _ (start_line w) lc) as [[a d]| | |]; destruct (outer_loop _ (set_mp (start_line w) mp) lc) as [[b d']| | |];
    cbn in OS; try contradiction; cbn [bind]; try exact OS; try exact I.
  destruct OS as ((Eb & RM & Sa & Ra) & <-). rewrite Eb. autorewrite with smp. rewrite post_process_smp.
  destruct (post_process a (s_best (w_sc a)) d) as [[w' wl] d2] eqn:PP.
  destruct (post_process_frame _ _ _ _ _ _ PP) as (F1 & F2 & F3). cbn. split; [|auto].
  apply relW_intro'; [rewrite F3; exact RM|rewrite F1; exact Sa|rewrite F2; exact Ra].
Qed.

(* ---- any number of calls, WrapParagraph ---------------------------------------------------------------------------- *)

Lemma run_calls_sim : forall n widths w mp s0 rs0,
  Rm (w_mp w) mp -> wf_runs (w_st w) (w_runs w) n = true -> sk (w_st w) = s0 -> w_runs w = rs0 ->
  sim2 s0 rs0 (run_calls w widths) (run_calls (set_mp w mp) widths).
Proof.
  intros n. induction widths as [|mw rest IH]; intros w mp s0 rs0 HR HW Hs Hr; cbn [run_calls].
  { cbn. split; [apply relW_intro'; assumption|reflexivity]. }
  pose proof (wnl_sim n w mp mw s0 rs0 HR HW Hs Hr) as WS.
  destruct (wrap_next_line w mw) as [[[a wl] d]| | |]; destruct (wrap_next_line (set_mp w mp) mw) as [[[b wl'] d']| | |];
    cbn in WS; try contradiction; cbn [bind]; try exact WS; try exact I.
  destruct WS as ((Eb & RM & Sa & Ra) & <- & <-). rewrite Eb.
  assert (HWa : wf_runs (w_st a) (w_runs a) n = true) by (subst s0 rs0; eapply wf_transport; eauto).
  specialize (IH a (w_mp b) s0 rs0 RM HWa Sa Ra).
  destruct (run_calls a rest) as [[a2 r2]| | |]; destruct (run_calls (set_mp a (w_mp b)) rest) as [[b2 r2']| | |];
    cbn in IH; try contradiction; cbn [bind fst snd]; try exact IH; try exact I.
  destruct IH as (RW & <-). split; [exact RW|reflexivity].
Qed.

Lemma paragraph_loop_sim : forall n fuel w mp mw acc s0 rs0,
  Rm (w_mp w) mp -> wf_runs (w_st w) (w_runs w) n = true -> sk (w_st w) = s0 -> w_runs w = rs0 ->
  sim3 s0 rs0 (paragraph_loop fuel w mw acc) (paragraph_loop fuel (set_mp w mp) mw acc).
Proof.
  intros n. induction fuel as [|fuel IH]; intros w mp mw acc s0 rs0 HR HW Hs Hr; cbn [paragraph_loop]; [exact I|].
  pose proof (wnl_sim n w mp mw s0 rs0 HR HW Hs Hr) as WS.
  destruct (wrap_next_line w mw) as [[[a wl] d]| | |]; destruct (wrap_next_line (set_mp w mp) mw) as [[[b wl'] d']| | |];
    cbn in WS; try contradiction; cbn [bind]; try exact WS; try exact I.
  destruct WS as ((Eb & RM & Sa & Ra) & <- & <-). rewrite Eb.
  assert (HWa : wf_runs (w_st a) (w_runs a) n = true) by (subst s0 rs0; eapply wf_transport; eauto).
  destruct d.
  - cbn. split; [apply relW_intro'; assumption|auto].
  - apply IH; assumption.
Qed.

(* what a caller observes: the returned lines / per-call results and the glyph store *)
Definition obs_calls (r : res (W * list (wrapped * bool))) : res (store * list (wrapped * bool)) :=
  match r with Ok (w, rs) => Ok (w_st w, rs) | Err e => Err e | Panic p => Panic p | OutOfFuel => OutOfFuel end.
Definition obs_paragraph (r : res (W * list (list out) * Z)) : res (store * list (list out) * Z) :=
  match r with Ok (w, ls, t) => Ok (w_st w, ls, t) | Err e => Err e | Panic p => Panic p | OutOfFuel => OutOfFuel end.

Lemma prepare_as_smp : forall w cfg attrs runs,
  prepare w cfg attrs runs 0 0
  = set_mp (prepare (w_zero (w_st w)) cfg attrs runs 0 0) (mkMapper false (m_run (w_mp w)) (m_back (w_mp w)) (m_len (w_mp w))).
Proof. reflexivity. Qed.

(* wrap_history_independent: whatever the state of the LineWrapper (every state reachable by any history of calls on other
   paragraphs included), Prepare followed by any sequence of WrapNextLine calls observes exactly what the zero LineWrapper
   observes on the same store: same per-call results, same final store, same failure if any *)
Lemma history_independent_calls : forall n w cfg attrs runs widths,
  wf_runs (w_st w) runs n = true ->
  obs_calls (run_calls (prepare w cfg attrs runs 0 0) widths)
  = obs_calls (run_calls (prepare (w_zero (w_st w)) cfg attrs runs 0 0) widths).
Proof.
  intros n w cfg attrs runs widths HW. rewrite prepare_as_smp.
  set (z := prepare (w_zero (w_st w)) cfg attrs runs 0 0). set (mp := mkMapper false _ _ _).
  pose proof (run_calls_sim n widths z mp (sk (w_st z)) (w_runs z) ltac:(split; [reflexivity|intros V; discriminate]) HW eq_refl eq_refl) as S.
  destruct (run_calls z widths) as [[a r1]| | |]; destruct (run_calls (set_mp z mp) widths) as [[b r2]| | |]; cbn in S; try contradiction; cbn.
  - destruct S as ((Eb & _) & <-). rewrite Eb, smp_st. reflexivity.
  - rewrite S. reflexivity.
  - rewrite S. reflexivity.
  - reflexivity.
Qed.

Lemma history_independent_paragraph : forall n w cfg attrs runs mw,
  wf_runs (w_st w) runs n = true ->
  obs_paragraph (wrap_paragraph w cfg mw attrs runs)
  = obs_paragraph (wrap_paragraph (w_zero (w_st w)) cfg mw attrs runs).
Proof.
  intros n w cfg attrs runs mw HW. unfold wrap_paragraph.
  change (w_st (w_zero (w_st w))) with (w_st w).
  match goal with |- context [match ?f with Some _ => _ | None => _ end] => destruct f end.
  { cbn. destruct w; reflexivity. }
  rewrite prepare_as_smp.
  set (z := prepare (w_zero (w_st w)) cfg attrs runs 0 0). set (mp := mkMapper false _ _ _).
  pose proof (paragraph_loop_sim n (para_fuel attrs) z mp mw [] (sk (w_st z)) (w_runs z) ltac:(split; [reflexivity|intros V; discriminate]) HW eq_refl eq_refl) as S.
  destruct (paragraph_loop _ z mw []) as [[[a l1] t1]| | |]; destruct (paragraph_loop _ (set_mp z mp) mw []) as [[[b l2] t2]| | |]; cbn in S; try contradiction; cbn.
  - destruct S as ((Eb & _) & <- & <-). rewrite Eb, smp_st. reflexivity.
  - rewrite S. reflexivity.
  - rewrite S. reflexivity.
  - reflexivity.
Qed.
