(* Lemmas for C20 (unicodedata / script lookups). *)
From Coq Require Import Sorting.Sorted Sorting.Permutation Sorting.Mergesort Orders.
From TV Require Import Lib.GoNum Lib.Res Model.Unicode Model.Lang Spec.Unicode.

Local Ltac zify_divmod := Z.div_mod_to_equations.
Ltac Zify.zify_post_hook ::= Z.div_mod_to_equations.

(* ============================================================================================== *)
(* 1. generic bisection *)

Section Bisect.
  Variable mid : Z -> Z -> Z.
  Variable probe : Z -> comparison.
  Variable n : Z.
  Hypothesis mid_ok : forall i j, i < j -> i <= mid i j < j.
  (* entries are sorted: when the key is not above entry a it is below every later entry *)
  Hypothesis sorted : forall a b, 0 <= a -> a < b -> b < n -> probe a <> Gt -> probe b = Lt.

  Lemma bisect3_correct : forall fuel i j,
    (Z.to_nat (j - i) < fuel)%nat -> 0 <= i -> j <= n ->
    match bisect3 fuel mid probe i j with
    | Ok (Some h) => i <= h < j /\ probe h = Eq
    | Ok None => forall k, i <= k < j -> probe k <> Eq
    | _ => False
    end.
  Proof.
    induction fuel as [|f IH]; intros i j Hf Hi Hj; [lia|].
    cbn [bisect3]. destruct (i <? j) eqn:Hij; [|intros k Hk; lia].
    apply Z.ltb_lt in Hij. pose proof (mid_ok i j Hij) as Hm. set (h := mid i j) in *.
    destruct (probe h) eqn:Hp.
    - split; [lia|exact Hp].
    - specialize (IH i h). lapply IH; [clear IH; intro IH|lia]. specialize (IH Hi ltac:(lia)).
      destruct (bisect3 f mid probe i h) as [[x|]| | |]; try exact IH.
      + destruct IH; split; [lia|assumption].
      + intros k Hk. destruct (Z_lt_dec k h) as [Hlt|Hge]; [apply IH; lia|].
        destruct (Z.eq_dec k h) as [->|Hne]; [congruence|].
        rewrite (sorted h k); [discriminate|lia|lia|lia|congruence].
    - specialize (IH (h + 1) j). lapply IH; [clear IH; intro IH|lia]. specialize (IH ltac:(lia) Hj).
      destruct (bisect3 f mid probe (h + 1) j) as [[x|]| | |]; try exact IH.
      + destruct IH; split; [lia|assumption].
      + intros k Hk. destruct (Z_lt_dec h k) as [Hlt|Hge]; [apply IH; lia|].
        destruct (Z.eq_dec k h) as [->|Hne]; [congruence|].
        intro Hk'. assert (probe h = Lt) by (apply (sorted k h); [lia|lia|lia|congruence]). congruence.
  Qed.
End Bisect.

Lemma mid_half_ok i j : i < j -> i <= mid_half i j < j.
Proof. unfold mid_half; intros; lia. Qed.
Lemma mid_avg_ok i j : i < j -> i <= mid_avg i j < j.
Proof. unfold mid_avg; intros; lia. Qed.

(* ============================================================================================== *)
(* 2. sorted tables of (lo, hi, x) entries and the covering entry *)

Definition covers (e : Z * Z * Z) (r : Z) : bool := (e_lo e <=? r) && (r <=? e_hi e).
Definition range_find (t : list (Z * Z * Z)) (r : Z) : option (Z * Z * Z) := find (fun e => covers e r) t.

(* lo <= hi for each entry, and each entry ends before the next begins *)
Fixpoint sorted_disjoint (t : list (Z * Z * Z)) : bool :=
  match t with
  | [] => true
  | e1 :: rest =>
    (e_lo e1 <=? e_hi e1)
    && match rest with [] => true | e2 :: _ => e_hi e1 <? e_lo e2 end
    && sorted_disjoint rest
  end.

Definition before (e1 e2 : Z * Z * Z) : Prop := e_hi e1 < e_lo e2.
Definition sorted_tab (t : list (Z * Z * Z)) : Prop :=
  StronglySorted before t /\ Forall (fun e => e_lo e <= e_hi e) t.

Lemma sorted_disjoint_sound t : sorted_disjoint t = true -> sorted_tab t.
Proof.
  induction t as [|e1 rest IH]; intro H; [split; constructor|].
  cbn [sorted_disjoint] in H. apply andb_prop in H as [H H3]. apply andb_prop in H as [H1 H2].
  apply Z.leb_le in H1. destruct (IH H3) as [S F]. split; [|constructor; assumption].
  constructor; [assumption|].
  destruct rest as [|e2 rest']; [constructor|]. apply Z.ltb_lt in H2.
  inversion S as [|? ? S' F']; subst. inversion F as [|? ? Fe2 _]; subst.
  constructor; [exact H2|]. eapply Forall_impl; [|exact F']. unfold before; intros; lia.
Qed.

Lemma sorted_tab_tail e t : sorted_tab (e :: t) -> sorted_tab t.
Proof. intros [S F]; inversion S; inversion F; split; assumption. Qed.

Lemma sorted_tab_filter p t : sorted_tab t -> sorted_tab (filter p t).
Proof.
  induction t as [|e t IH]; intro H; [exact H|].
  pose proof (IH (sorted_tab_tail _ _ H)) as [S' F']. destruct H as [S F].
  inversion S as [|? ? St Fb]; subst. inversion F; subst. cbn [filter]. destruct (p e); [|split; assumption].
  split; constructor; try assumption.
  rewrite Forall_forall in *. intros x Hx. apply filter_In in Hx as [Hx _]. auto.
Qed.

Lemma znth_nth {A} (d : A) l i : 0 <= i -> znth d l i = nth (Z.to_nat i) l d.
Proof. intro H; unfold znth. destruct (i <? 0) eqn:E; [apply Z.ltb_lt in E; lia|reflexivity]. Qed.

Lemma sorted_nth d t : sorted_tab t -> forall a b, (a < b < length t)%nat -> before (nth a t d) (nth b t d).
Proof.
  intros [S _]. induction S as [|e t S IH F]; intros a b H; [cbn in H; lia|].
  destruct b as [|b]; [lia|]. destruct a as [|a].
  - cbn [nth]. rewrite Forall_forall in F. apply F. apply nth_In. cbn in H; lia.
  - cbn [nth]. apply IH. cbn in H; lia.
Qed.

Lemma sorted_znth d t : sorted_tab t -> forall a b, 0 <= a -> a < b -> b < zlen t -> before (znth d t a) (znth d t b).
Proof.
  intros S a b Ha Hab Hb. rewrite !znth_nth by lia. apply sorted_nth; [assumption|]. unfold zlen in Hb. lia.
Qed.

Lemma find_nth {A} (f : A -> bool) d l : forall m, (m < length l)%nat -> f (nth m l d) = true ->
  (forall k, (k < m)%nat -> f (nth k l d) = false) -> find f l = Some (nth m l d).
Proof.
  induction l as [|x l IH]; intros m Hm Hf Hk; [cbn in Hm; lia|].
  destruct m as [|m].
  - cbn in *. rewrite Hf. reflexivity.
  - cbn [find]. pose proof (Hk 0%nat ltac:(lia)) as H0. cbn [nth] in H0. rewrite H0. cbn [nth]. apply IH; [cbn in Hm; lia|exact Hf|].
    intros k Hlt. apply (Hk (S k)). lia.
Qed.
Lemma find_none_nth {A} (f : A -> bool) d l : (forall k, (k < length l)%nat -> f (nth k l d) = false) -> find f l = None.
Proof.
  induction l as [|x l IH]; intro H; [reflexivity|].
  cbn [find]. pose proof (H 0%nat ltac:(cbn; lia)) as H0. cbn [nth] in H0. rewrite H0. apply IH. intros k Hk. apply (H (S k)). cbn; lia.
Qed.

(* the three-way probes of LookupScript and of unicode.is16/is32 are sorted in the sense of bisect3_correct *)
Lemma probe_script_sorted t r : sorted_tab t ->
  forall a b, 0 <= a -> a < b -> b < zlen t -> probe_script t r a <> Gt -> probe_script t r b = Lt.
Proof.
  intros S a b Ha Hab Hb. pose proof (sorted_znth (0, 0, 0) t S a b Ha Hab Hb) as Hbef. unfold before in Hbef.
  unfold probe_script. intros H.
  destruct (r <? e_lo (znth (0, 0, 0) t b)) eqn:E; [reflexivity|]. apply Z.ltb_ge in E.
  exfalso. apply H.
  destruct (r <? e_lo (znth (0, 0, 0) t a)) eqn:E1; [apply Z.ltb_lt in E1|].
  - destruct S as [_ F]. rewrite Forall_forall in F.
    assert (In (znth (0, 0, 0) t a) t) by (rewrite znth_nth by lia; apply nth_In; unfold zlen in Hb; lia).
    specialize (F _ H0). lia.
  - destruct (e_hi (znth (0, 0, 0) t a) <? r) eqn:E2; [reflexivity|]. apply Z.ltb_ge in E2. lia.
Qed.

Lemma probe_range_sorted t r : sorted_tab t ->
  forall a b, 0 <= a -> a < b -> b < zlen t -> probe_range t r a <> Gt -> probe_range t r b = Lt.
Proof.
  intros S a b Ha Hab Hb. pose proof (sorted_znth (0, 0, 1) t S a b Ha Hab Hb) as Hbef. unfold before in Hbef.
  unfold probe_range. intros H.
  assert (Hin : forall k, 0 <= k < zlen t -> e_lo (znth (0, 0, 1) t k) <= e_hi (znth (0, 0, 1) t k)).
  { intros k Hk. destruct S as [_ F]. rewrite Forall_forall in F. apply F.
    rewrite znth_nth by lia; apply nth_In; unfold zlen in Hk; lia. }
  pose proof (Hin a ltac:(lia)). pose proof (Hin b ltac:(lia)).
  destruct ((e_lo (znth (0, 0, 1) t a) <=? r) && (r <=? e_hi (znth (0, 0, 1) t a))) eqn:Ea.
  - apply andb_prop in Ea as [E1 E2]. apply Z.leb_le in E1, E2.
    replace (e_lo (znth (0, 0, 1) t b) <=? r) with false by (symmetry; apply Z.leb_gt; lia). cbn.
    replace (r <? e_lo (znth (0, 0, 1) t b)) with true by (symmetry; apply Z.ltb_lt; lia). reflexivity.
  - destruct (r <? e_lo (znth (0, 0, 1) t a)) eqn:E3; [|congruence]. apply Z.ltb_lt in E3.
    replace (e_lo (znth (0, 0, 1) t b) <=? r) with false by (symmetry; apply Z.leb_gt; lia). cbn.
    replace (r <? e_lo (znth (0, 0, 1) t b)) with true by (symmetry; apply Z.ltb_lt; lia). reflexivity.
Qed.

(* a bisection hit is the covering entry of the linear scan; a miss means no entry covers r *)
Lemma covering_unique d t r m : sorted_tab t -> 0 <= m < zlen t -> covers (znth d t m) r = true ->
  range_find t r = Some (znth d t m).
Proof.
  intros S Hm Hc. unfold range_find. rewrite znth_nth in * by lia.
  apply find_nth; [unfold zlen in Hm; lia|exact Hc|].
  intros k Hk. pose proof (sorted_nth d t S k (Z.to_nat m) ltac:(unfold zlen in Hm; lia)) as Hb.
  unfold before in Hb. unfold covers in *. apply andb_prop in Hc as [H1 H2]. apply Z.leb_le in H1, H2.
  apply andb_false_iff. right. apply Z.leb_gt. lia.
Qed.
Lemma covering_none d t r : (forall k, 0 <= k < zlen t -> covers (znth d t k) r = false) -> range_find t r = None.
Proof.
  intro H. unfold range_find. apply find_none_nth with (d := d). intros k Hk.
  specialize (H (Z.of_nat k) ltac:(unfold zlen; lia)). rewrite znth_nth in H by lia. rewrite Nat2Z.id in H. exact H.
Qed.

(* ============================================================================================== *)
(* 3. LookupScript = linear scan, for every Z *)

Lemma probe_script_eq t r h : probe_script t r h = Eq <-> covers (znth (0, 0, 0) t h) r = true.
Proof.
  unfold probe_script, covers.
  destruct (r <? e_lo (znth (0, 0, 0) t h)) eqn:E1; destruct (e_hi (znth (0, 0, 0) t h) <? r) eqn:E2;
  destruct (e_lo (znth (0, 0, 0) t h) <=? r) eqn:E3; destruct (r <=? e_hi (znth (0, 0, 0) t h)) eqn:E4; cbn;
  try (split; congruence);
  try apply Z.ltb_lt in E1; try apply Z.ltb_ge in E1; try apply Z.ltb_lt in E2; try apply Z.ltb_ge in E2;
  try apply Z.leb_le in E3; try apply Z.leb_gt in E3; try apply Z.leb_le in E4; try apply Z.leb_gt in E4; lia.
Qed.

Lemma script_scan_range_find t r :
  script_scan t r = match range_find t r with Some e => snd e | None => script_Unknown end.
Proof. reflexivity. Qed.

Lemma lookup_script_in_scan t r : sorted_disjoint t = true -> lookup_script_in t r = Ok (script_scan t r).
Proof.
  intro Hs. apply sorted_disjoint_sound in Hs. unfold lookup_script_in.
  pose proof (bisect3_correct mid_half (probe_script t r) (zlen t) mid_half_ok (probe_script_sorted t r Hs)
               (S (length t)) 0 (zlen t)) as H.
  lapply H; [clear H; intro H|unfold zlen; lia]. specialize (H ltac:(lia) ltac:(lia)).
  destruct (bisect3 (S (length t)) mid_half (probe_script t r) 0 (zlen t)) as [[h|]| | |]; try contradiction; cbn [bind].
  - destruct H as [Hh Hp]. apply probe_script_eq in Hp.
    rewrite script_scan_range_find, (covering_unique (0, 0, 0) t r h Hs Hh Hp). reflexivity.
  - rewrite script_scan_range_find, (covering_none (0, 0, 0) t r); [reflexivity|].
    intros k Hk. specialize (H k Hk). destruct (covers (znth (0, 0, 0) t k) r) eqn:E; [|reflexivity].
    apply probe_script_eq in E. contradiction.
Qed.

Lemma script_ranges_sorted : sorted_disjoint ScriptRanges = true.
Proof. vm_compute. reflexivity. Qed.

Lemma lookup_script_eq_linear_scan_lemma : forall r, lookup_script r = Ok (script_scan ScriptRanges r).
Proof. intro r. apply lookup_script_in_scan. exact script_ranges_sorted. Qed.

(* ============================================================================================== *)
(* 4. unicode.Is = membership (linear scan with strides), for sorted tables and every rune *)

(* side conditions computed on each table: sorted and disjoint, strides >= 1, bounds within the rune range,
   and the R16/R32 split recoverable (an entry above 0xFFFF starts above 0xFFFF) *)
Definition entry_ok (e : Z * Z * Z) : bool :=
  (1 <=? e_stride e) && (0 <=? e_lo e) && (e_hi e <? 2147483648) && ((e_hi e <=? 65535) || (65535 <? e_lo e)).
Definition table_ok (t : rtab) : bool := sorted_disjoint t && forallb entry_ok t.

Lemma in_entry_covers e r : in_entry e r = covers e r && ((r - e_lo e) mod e_stride e =? 0).
Proof. unfold in_entry, covers. destruct (e_lo e <=? r); destruct (r <=? e_hi e); reflexivity. Qed.

Lemma stride_ok_mod e r : 1 <= e_stride e -> stride_ok e r = ((r - e_lo e) mod e_stride e =? 0).
Proof.
  intro H. unfold stride_ok. destruct (e_stride e =? 1) eqn:E; [|reflexivity].
  apply Z.eqb_eq in E. rewrite E, Z.mod_1_r. reflexivity.
Qed.

Definition strides_ok (t : rtab) : Prop := Forall (fun e => 1 <= e_stride e) t.

(* membership through the covering entry *)
Lemma mem_range_find t r : sorted_tab t -> strides_ok t ->
  mem t r = match range_find t r with Some e => stride_ok e r | None => false end.
Proof.
  induction t as [|e t IH]; intros S F; [reflexivity|].
  unfold mem, range_find in *. cbn [existsb find]. rewrite in_entry_covers.
  inversion F as [|? ? Fe Ft]; subst.
  destruct (covers e r) eqn:Ec; cbn [andb].
  - rewrite (stride_ok_mod e r Fe).
    replace (existsb (fun e0 => in_entry e0 r) t) with false; [apply orb_false_r|].
    symmetry. apply not_true_is_false. intro Hex. apply existsb_exists in Hex as [x [Hx Hin]].
    destruct S as [S _]. inversion S as [|? ? _ Fb]; subst. rewrite Forall_forall in Fb. specialize (Fb x Hx).
    unfold before in Fb. rewrite in_entry_covers in Hin. apply andb_prop in Hin as [Hin _].
    unfold covers in *. apply andb_prop in Ec as [_ E2]. apply andb_prop in Hin as [E3 _].
    apply Z.leb_le in E2, E3. lia.
  - cbn [orb]. apply IH; [eapply sorted_tab_tail; exact S|exact Ft].
Qed.

Lemma is_linear_range_find t r : sorted_tab t ->
  is_linear t r = match range_find t r with Some e => stride_ok e r | None => false end.
Proof.
  induction t as [|e t IH]; intro S; [reflexivity|].
  cbn [is_linear]. unfold range_find in *. cbn [find]. unfold covers at 1.
  destruct (r <? e_lo e) eqn:E1.
  - apply Z.ltb_lt in E1. replace (e_lo e <=? r) with false by (symmetry; apply Z.leb_gt; lia). cbn [andb].
    rewrite (find_none_nth _ (0, 0, 1)); [reflexivity|].
    intros k Hk. destruct S as [S Fl]. inversion S as [|? ? _ Fb]; subst. rewrite Forall_forall in Fb.
    specialize (Fb (nth k t (0, 0, 1)) (nth_In _ _ Hk)). unfold before in Fb.
    inversion Fl as [|? ? Fe _]; subst.
    unfold covers. apply andb_false_iff. left. apply Z.leb_gt. lia.
  - apply Z.ltb_ge in E1. replace (e_lo e <=? r) with true by (symmetry; apply Z.leb_le; lia). cbn [andb].
    destruct (r <=? e_hi e); [reflexivity|]. apply IH. eapply sorted_tab_tail; exact S.
Qed.

Lemma probe_range_eq t r m : probe_range t r m = Eq <-> covers (znth (0, 0, 1) t m) r = true.
Proof.
  unfold probe_range, covers.
  destruct ((e_lo (znth (0, 0, 1) t m) <=? r) && (r <=? e_hi (znth (0, 0, 1) t m))); [tauto|].
  destruct (r <? e_lo (znth (0, 0, 1) t m)); split; congruence.
Qed.

Lemma is_binary_range_find t r : sorted_tab t ->
  is_binary t r = Ok (match range_find t r with Some e => stride_ok e r | None => false end).
Proof.
  intro Hs. unfold is_binary.
  pose proof (bisect3_correct mid_avg (probe_range t r) (zlen t) mid_avg_ok (probe_range_sorted t r Hs)
               (S (length t)) 0 (zlen t)) as H.
  lapply H; [clear H; intro H|unfold zlen; lia]. specialize (H ltac:(lia) ltac:(lia)).
  destruct (bisect3 (S (length t)) mid_avg (probe_range t r) 0 (zlen t)) as [[h|]| | |]; try contradiction; cbn [bind].
  - destruct H as [Hh Hp]. apply probe_range_eq in Hp.
    rewrite (covering_unique (0, 0, 1) t r h Hs Hh Hp). reflexivity.
  - rewrite (covering_none (0, 0, 1) t r); [reflexivity|].
    intros k Hk. specialize (H k Hk). destruct (covers (znth (0, 0, 1) t k) r) eqn:E; [|reflexivity].
    apply probe_range_eq in E. contradiction.
Qed.

Lemma is16_mem t r : sorted_tab t -> strides_ok t -> is16 t r = Ok (mem t r).
Proof.
  intros S F. unfold is16. rewrite (mem_range_find t r S F).
  destruct ((zlen t <=? linearMax) || (r <=? MaxLatin1)).
  - rewrite (is_linear_range_find t r S). reflexivity.
  - apply is_binary_range_find; assumption.
Qed.
Lemma is32_mem t r : sorted_tab t -> strides_ok t -> is32 t r = Ok (mem t r).
Proof.
  intros S F. unfold is32. rewrite (mem_range_find t r S F).
  destruct (zlen t <=? linearMax).
  - rewrite (is_linear_range_find t r S). reflexivity.
  - apply is_binary_range_find; assumption.
Qed.

Lemma existsb_filter_split {A} (f p q : A -> bool) l : (forall x, q x = negb (p x)) ->
  existsb f l = existsb f (filter p l) || existsb f (filter q l).
Proof.
  intro H. induction l as [|x l IH]; [reflexivity|].
  cbn [existsb filter]. rewrite H. destruct (p x); cbn [negb existsb]; rewrite IH.
  - rewrite orb_assoc. reflexivity.
  - rewrite !orb_assoc. f_equal. apply orb_comm.
Qed.

Lemma mem_false_above t r : (forall e, In e t -> e_hi e < r) -> mem t r = false.
Proof.
  intro H. apply not_true_is_false. intro Hm. apply existsb_exists in Hm as [e [Hin He]].
  specialize (H e Hin). rewrite in_entry_covers in He. apply andb_prop in He as [He _]. unfold covers in He.
  apply andb_prop in He as [_ He]. apply Z.leb_le in He. lia.
Qed.
Lemma mem_false_below t r : (forall e, In e t -> r < e_lo e) -> mem t r = false.
Proof.
  intro H. apply not_true_is_false. intro Hm. apply existsb_exists in Hm as [e [Hin He]].
  specialize (H e Hin). rewrite in_entry_covers in He. apply andb_prop in He as [He _]. unfold covers in He.
  apply andb_prop in He as [He _]. apply Z.leb_le in He. lia.
Qed.

Lemma sorted_hd_min d t : sorted_tab t -> forall e, In e t -> e_lo (hd d t) <= e_lo e.
Proof.
  intros [S F] e Hin. destruct t as [|x t]; [contradiction|]. cbn [hd]. destruct Hin as [->|Hin]; [lia|].
  inversion S as [|? ? _ Fb]; subst. rewrite Forall_forall in Fb. specialize (Fb e Hin). unfold before in Fb.
  inversion F; subst. lia.
Qed.
Lemma sorted_last_max d t : sorted_tab t -> forall e, In e t -> e_hi e <= e_hi (last t d).
Proof.
  induction t as [|x t IH]; intros S e Hin; [contradiction|].
  destruct t as [|y t'].
  - destruct Hin as [->|[]]. cbn. lia.
  - change (last (x :: y :: t') d) with (last (y :: t') d).
    pose proof (IH (sorted_tab_tail _ _ S)) as IH'.
    destruct Hin as [->|Hin]; [|apply IH'; exact Hin].
    destruct S as [S F]. inversion S as [|? ? _ Fb]; subst. inversion Fb as [|? ? Hxy _]; subst. unfold before in Hxy.
    specialize (IH' y (or_introl eq_refl)). inversion F as [|? ? _ F']; subst. inversion F'; subst. lia.
Qed.

Lemma table_ok_sound t : table_ok t = true ->
  sorted_tab t /\ strides_ok t /\ Forall (fun e => 0 <= e_lo e /\ e_hi e < 2147483648 /\ (e_hi e <= 65535 \/ 65535 < e_lo e)) t.
Proof.
  unfold table_ok. intro H. apply andb_prop in H as [H1 H2]. split; [apply sorted_disjoint_sound; exact H1|].
  rewrite forallb_forall in H2. unfold strides_ok. rewrite !Forall_forall.
  split; intros e Hin; specialize (H2 e Hin); unfold entry_ok in H2;
  apply andb_prop in H2 as [H2 H5]; apply andb_prop in H2 as [H2 H4]; apply andb_prop in H2 as [H2 H3];
  apply Z.leb_le in H2, H3; apply Z.ltb_lt in H4.
  - exact H2.
  - split; [exact H3|]. split; [exact H4|]. apply orb_prop in H5 as [H5|H5]; [left; apply Z.leb_le in H5|right; apply Z.ltb_lt in H5]; exact H5.
Qed.

Lemma strides_ok_filter p t : strides_ok t -> strides_ok (filter p t).
Proof.
  unfold strides_ok. rewrite !Forall_forall. intros H e Hin. apply filter_In in Hin as [Hin _]. auto.
Qed.

Lemma zlen_pos_nonempty {A} (l : list A) : (0 <? zlen l) = true -> l <> [].
Proof. intros H ->. cbn in H. discriminate. Qed.

Lemma unicode_is_mem t r : table_ok t = true -> is_rune r -> unicode_is t r = Ok (mem t r).
Proof.
  intros Hok Hr. apply table_ok_sound in Hok as [S [F B]]. unfold is_rune in Hr.
  unfold unicode_is, split_tab, unicode_is_split.
  assert (Hmem : mem t r = mem (r16_of t) r || mem (r32_of t) r).
  { unfold mem, r16_of, r32_of. apply existsb_filter_split. intro x. rewrite Z.ltb_antisym. reflexivity. }
  pose proof (sorted_tab_filter (fun e => e_hi e <=? 65535) t S) as S16. fold (r16_of t) in S16.
  pose proof (sorted_tab_filter (fun e => 65535 <? e_hi e) t S) as S32. fold (r32_of t) in S32.
  pose proof (strides_ok_filter (fun e => e_hi e <=? 65535) t F) as F16. fold (r16_of t) in F16.
  pose proof (strides_ok_filter (fun e => 65535 <? e_hi e) t F) as F32. fold (r32_of t) in F32.
  rewrite Forall_forall in B.
  assert (B16 : forall e, In e (r16_of t) -> 0 <= e_lo e /\ e_hi e <= 65535).
  { intros e Hin. apply filter_In in Hin as [Hin Hp]. apply Z.leb_le in Hp. specialize (B e Hin). lia. }
  assert (B32 : forall e, In e (r32_of t) -> 65535 < e_lo e /\ e_hi e < 2147483648).
  { intros e Hin. apply filter_In in Hin as [Hin Hp]. apply Z.ltb_lt in Hp. specialize (B e Hin). lia. }
  rewrite Hmem.
  destruct ((0 <? zlen (r16_of t)) && (wrap32 r <=? e_hi (last (r16_of t) (0, 0, 1)))) eqn:C1.
  - apply andb_prop in C1 as [N1 C1]. apply Z.leb_le in C1. apply zlen_pos_nonempty in N1.
    assert (Hl : In (last (r16_of t) (0, 0, 1)) (r16_of t)).
    { destruct (exists_last N1) as [l' [a ->]]. rewrite last_last. apply in_or_app. right. left. reflexivity. }
    destruct (B16 _ Hl) as [_ Hhi].
    assert (0 <= r <= 65535) by (unfold wrap32 in C1; lia).
    replace (wrap16 r) with r by (unfold wrap16; symmetry; apply Z.mod_small; lia).
    rewrite (is16_mem _ r S16 F16). f_equal.
    rewrite (mem_false_below (r32_of t) r); [rewrite orb_false_r; reflexivity|].
    intros e Hin. destruct (B32 e Hin). lia.
  - destruct ((0 <? zlen (r32_of t)) && (e_lo (hd (0, 0, 1) (r32_of t)) <=? r)) eqn:C2.
    + apply andb_prop in C2 as [N2 C2]. apply Z.leb_le in C2. apply zlen_pos_nonempty in N2.
      assert (Hh : In (hd (0, 0, 1) (r32_of t)) (r32_of t)) by (destruct (r32_of t); [congruence|left; reflexivity]).
      destruct (B32 _ Hh) as [Hlo _].
      replace (wrap32 r) with r by (unfold wrap32; symmetry; apply Z.mod_small; lia).
      rewrite (is32_mem _ r S32 F32). f_equal.
      rewrite (mem_false_above (r16_of t) r); [reflexivity|].
      intros e Hin. destruct (B16 e Hin). lia.
    + f_equal. symmetry. apply orb_false_iff. split.
      * destruct (r16_of t) as [|x l] eqn:E16; [reflexivity|]. rewrite <- E16 in *.
        assert (N1 : (0 <? zlen (r16_of t)) = true) by (rewrite E16; unfold zlen; cbn [length]; apply Z.ltb_lt; lia).
        rewrite N1 in C1. cbn [andb] in C1. apply Z.leb_gt in C1.
        destruct (Z_lt_dec r 0) as [Hneg|Hpos].
        -- apply mem_false_below. intros e Hin. destruct (B16 e Hin). lia.
        -- apply mem_false_above. intros e Hin. pose proof (sorted_last_max (0, 0, 1) _ S16 e Hin).
           unfold wrap32 in C1. rewrite Z.mod_small in C1 by lia. lia.
      * destruct (r32_of t) as [|x l] eqn:E32; [reflexivity|]. rewrite <- E32 in *.
        assert (N2 : (0 <? zlen (r32_of t)) = true) by (rewrite E32; unfold zlen; cbn [length]; apply Z.ltb_lt; lia).
        rewrite N2 in C2. cbn [andb] in C2. apply Z.leb_gt in C2.
        apply mem_false_below. intros e Hin. pose proof (sorted_hd_min (0, 0, 1) _ S32 e Hin). lia.
Qed.

(* ============================================================================================== *)
(* 5. class lookups = linear scan of the class list *)

Definition order_ok (o : list (nat * rtab)) : bool := forallb (fun p => table_ok (snd p)) o.

Lemma lookup_first_scan o r : order_ok o = true -> is_rune r ->
  lookup_first (split_order o) r = Ok (scan_classes o r).
Proof.
  intros Hok Hr. induction o as [|[id t] o IH]; [reflexivity|].
  cbn [order_ok forallb snd] in Hok. apply andb_prop in Hok as [Ht Ho].
  cbn [split_order map lookup_first scan_classes fst snd].
  change (unicode_is_split (split_tab t) r) with (unicode_is t r).
  rewrite (unicode_is_mem t r Ht Hr). cbn [bind]. destruct (mem t r); [reflexivity|]. apply IH. exact Ho.
Qed.

(* ============================================================================================== *)
(* 6. classes of a family are pairwise disjoint: decided on the ranges, lifted to every code point *)

Fixpoint expand_strided (lo st : Z) (n : nat) : list (Z * Z) :=
  match n with O => [] | S k => (lo, lo) :: expand_strided (lo + st) st k end.
Definition expand_entry (e : Z * Z * Z) : list (Z * Z) :=
  if e_stride e =? 1 then [(e_lo e, e_hi e)]
  else expand_strided (e_lo e) (e_stride e) (Z.to_nat ((e_hi e - e_lo e) / e_stride e + 1)).
Definition intervals_of (t : rtab) : list (Z * Z) := flat_map expand_entry t.
Definition in_iv (iv : Z * Z) (r : Z) : bool := (fst iv <=? r) && (r <=? snd iv).

Lemma expand_strided_complete st r : 1 <= st -> forall n lo,
  lo <= r -> (r - lo) mod st = 0 -> (r - lo) / st < Z.of_nat n -> In (r, r) (expand_strided lo st n).
Proof.
  intros Hst. induction n as [|k IH]; intros lo Hlo Hmod Hdiv.
  - exfalso. assert (0 <= (r - lo) / st) by (apply Z.div_pos; lia). lia.
  - cbn [expand_strided]. destruct (Z.eq_dec r lo) as [->|Hne]; [left; reflexivity|right].
    assert (Hex : r - lo = st * ((r - lo) / st)) by (apply Z_div_exact_full_2; lia).
    set (q := (r - lo) / st) in *.
    assert (Hq : 1 <= q) by nia.
    assert (Hr' : r - (lo + st) = (q - 1) * st) by lia.
    apply IH.
    + nia.
    + rewrite Hr'. apply Z.mod_mul. lia.
    + rewrite Hr'. rewrite Z.div_mul by lia. lia.
Qed.

Lemma expand_strided_sound st : 1 <= st -> forall n lo x y, In (x, y) (expand_strided lo st n) ->
  x = y /\ exists k, 0 <= k < Z.of_nat n /\ x = lo + k * st.
Proof.
  intros Hst. induction n as [|n IH]; intros lo x y Hin; [contradiction|].
  cbn [expand_strided] in Hin. destruct Hin as [Heq|Hin].
  - inversion Heq; subst. split; [reflexivity|]. exists 0. lia.
  - destruct (IH _ _ _ Hin) as [-> [k [Hk ->]]]. split; [reflexivity|]. exists (k + 1). lia.
Qed.

Lemma mem_intervals t r : strides_ok t -> mem t r = true -> exists iv, In iv (intervals_of t) /\ in_iv iv r = true.
Proof.
  intros F Hm. apply existsb_exists in Hm as [e [Hin He]].
  unfold strides_ok in F. rewrite Forall_forall in F. specialize (F e Hin).
  rewrite in_entry_covers in He. apply andb_prop in He as [Hc Hmod]. unfold covers in Hc.
  apply andb_prop in Hc as [H1 H2]. apply Z.leb_le in H1, H2. apply Z.eqb_eq in Hmod.
  unfold intervals_of. destruct (e_stride e =? 1) eqn:E.
  - exists (e_lo e, e_hi e). split.
    + apply in_flat_map. exists e. split; [exact Hin|]. unfold expand_entry. rewrite E. left; reflexivity.
    + unfold in_iv; cbn [fst snd]. apply andb_true_intro; split; apply Z.leb_le; lia.
  - exists (r, r). split.
    + apply in_flat_map. exists e. split; [exact Hin|]. unfold expand_entry. rewrite E.
      apply expand_strided_complete; [exact F|exact H1|exact Hmod|].
      assert ((r - e_lo e) / e_stride e <= (e_hi e - e_lo e) / e_stride e) by (apply Z.div_le_mono; lia).
      assert (0 <= (e_hi e - e_lo e) / e_stride e) by (apply Z.div_pos; lia).
      lia.
    + unfold in_iv; cbn [fst snd]. apply andb_true_intro; split; apply Z.leb_le; lia.
Qed.

Lemma intervals_mem t r iv : strides_ok t -> In iv (intervals_of t) -> in_iv iv r = true -> mem t r = true.
Proof.
  intros F Hin Hr. unfold intervals_of in Hin. apply in_flat_map in Hin as [e [He Hiv]].
  unfold strides_ok in F. rewrite Forall_forall in F. specialize (F e He).
  apply existsb_exists. exists e. split; [exact He|].
  unfold in_iv in Hr. apply andb_prop in Hr as [H1 H2]. apply Z.leb_le in H1, H2.
  rewrite in_entry_covers. unfold covers. unfold expand_entry in Hiv. destruct (e_stride e =? 1) eqn:E.
  - apply Z.eqb_eq in E. destruct Hiv as [<-|[]]. cbn [fst snd] in *. rewrite E, Z.mod_1_r.
    apply andb_true_intro; split; [apply andb_true_intro; split; apply Z.leb_le; lia|reflexivity].
  - destruct iv as [x y]. cbn [fst snd] in *.
    destruct (expand_strided_sound _ F _ _ _ _ Hiv) as [<- [k [Hk Hx]]].
    assert (r = x) by lia. subst r.
    assert (Hle : e_stride e * ((e_hi e - e_lo e) / e_stride e) <= e_hi e - e_lo e) by (apply Z.mul_div_le; lia).
    remember ((e_hi e - e_lo e) / e_stride e) as d eqn:Ed. clear Ed.
    assert (k * e_stride e <= e_hi e - e_lo e) by nia.
    apply andb_true_intro; split; [apply andb_true_intro; split; apply Z.leb_le; nia|].
    apply Z.eqb_eq. replace (x - e_lo e) with (k * e_stride e) by lia. apply Z.mod_mul. lia.
Qed.

(* all intervals of all classes, tagged with the class id, sorted by lower bound *)
Definition tagged (o : list (nat * rtab)) : list (Z * Z * Z) :=
  flat_map (fun p => map (fun iv => (fst iv, snd iv, Z.of_nat (fst p))) (intervals_of (snd p))) o.

Module LoOrder <: TotalLeBool.
  Definition t := (Z * Z * Z)%type.
  Definition leb (x y : t) : bool := e_lo x <=? e_lo y.
  Theorem leb_total : forall a1 a2, leb a1 a2 = true \/ leb a2 a1 = true.
  Proof. intros a1 a2. unfold leb. destruct (e_lo a1 <=? e_lo a2) eqn:E; [left; reflexivity|right]. apply Z.leb_gt in E. apply Z.leb_le. lia. Qed.
End LoOrder.
Module LoSort := Sort LoOrder.

Definition classes_disjoint (o : list (nat * rtab)) : bool := sorted_disjoint (LoSort.sort (tagged o)).
Definition family_ok (o : list (nat * rtab)) : bool := order_ok o && classes_disjoint o.

Lemma sorted_cover_unique l r : sorted_tab l -> forall x y, In x l -> In y l -> covers x r = true -> covers y r = true -> x = y.
Proof.
  intros [S _]. induction S as [|e t S IH Fb]; intros x y Hx Hy Cx Cy; [contradiction|].
  rewrite Forall_forall in Fb. unfold covers, before in *.
  apply andb_prop in Cx as [X1 X2]. apply andb_prop in Cy as [Y1 Y2]. apply Z.leb_le in X1, X2, Y1, Y2.
  destruct Hx as [->|Hx]; destruct Hy as [->|Hy].
  - reflexivity.
  - specialize (Fb y Hy). lia.
  - specialize (Fb x Hx). lia.
  - apply IH; try assumption; apply andb_true_intro; split; apply Z.leb_le; assumption.
Qed.

Lemma order_ok_strides o : order_ok o = true -> forall p, In p o -> strides_ok (snd p).
Proof.
  unfold order_ok. rewrite forallb_forall. intros H p Hp. specialize (H p Hp).
  apply table_ok_sound in H. tauto.
Qed.

Lemma class_unique o r : family_ok o = true ->
  forall p1 p2, In p1 o -> In p2 o -> mem (snd p1) r = true -> mem (snd p2) r = true -> fst p1 = fst p2.
Proof.
  unfold family_ok. intro H. apply andb_prop in H as [Hok Hd]. unfold classes_disjoint in Hd.
  apply sorted_disjoint_sound in Hd.
  assert (Hin : forall p, In p o -> mem (snd p) r = true ->
           exists x, In x (LoSort.sort (tagged o)) /\ covers x r = true /\ snd x = Z.of_nat (fst p)).
  { intros p Hp Hm. destruct (mem_intervals _ r (order_ok_strides o Hok p Hp) Hm) as [iv [Hiv Hr]].
    exists (fst iv, snd iv, Z.of_nat (fst p)). split; [|split; [exact Hr|reflexivity]].
    eapply Permutation_in; [apply LoSort.Permuted_sort|].
    unfold tagged. apply in_flat_map. exists p. split; [exact Hp|].
    apply in_map_iff. exists iv. split; [reflexivity|exact Hiv]. }
  intros p1 p2 H1 H2 M1 M2.
  destruct (Hin p1 H1 M1) as [x1 [I1 [C1 T1]]]. destruct (Hin p2 H2 M2) as [x2 [I2 [C2 T2]]].
  pose proof (sorted_cover_unique _ r Hd x1 x2 I1 I2 C1 C2) as Heq. subst x2.
  rewrite T1 in T2. apply Nat2Z.inj in T2. exact T2.
Qed.

Lemma scan_some o r i : scan_classes o r = Some i -> exists p, In p o /\ fst p = i /\ mem (snd p) r = true.
Proof.
  induction o as [|[id t] o IH]; [discriminate|]. cbn [scan_classes]. destruct (mem t r) eqn:E.
  - intro H; inversion H; subst. exists (i, t). split; [left; reflexivity|split; [reflexivity|exact E]].
  - intro H. destruct (IH H) as [p [Hp Hq]]. exists p. split; [right; exact Hp|exact Hq].
Qed.
Lemma scan_none o r : scan_classes o r = None -> forall p, In p o -> mem (snd p) r = false.
Proof.
  induction o as [|[id t] o IH]; [contradiction|]. cbn [scan_classes]. destruct (mem t r) eqn:E; [discriminate|].
  intros H p [<-|Hp]; [exact E|apply IH; assumption].
Qed.

(* the value found does not depend on the order in which the classes are scanned *)
Lemma scan_order_independent o r : family_ok o = true ->
  forall o', Permutation o o' -> scan_classes o' r = scan_classes o r.
Proof.
  intros Hf o' HP.
  destruct (scan_classes o r) as [i|] eqn:E1; destruct (scan_classes o' r) as [j|] eqn:E2; try reflexivity.
  - destruct (scan_some _ _ _ E1) as [p [Hp [<- Mp]]]. destruct (scan_some _ _ _ E2) as [q [Hq [<- Mq]]].
    f_equal. apply (class_unique o r Hf); try assumption. eapply Permutation_in; [apply Permutation_sym; exact HP|exact Hq].
  - destruct (scan_some _ _ _ E1) as [p [Hp [_ Mp]]].
    pose proof (scan_none _ _ E2 p (Permutation_in _ HP Hp)). congruence.
  - destruct (scan_some _ _ _ E2) as [q [Hq [_ Mq]]].
    pose proof (scan_none _ _ E1 q (Permutation_in _ (Permutation_sym HP) Hq)). congruence.
Qed.

(* ============================================================================================== *)
(* 7. the prefilter tables graphemeBreakAll / wordBreakAll contain every class of their family *)

Fixpoint merge_acc (cur : Z * Z) (rest : list (Z * Z)) : list (Z * Z) :=
  match rest with
  | [] => [cur]
  | iv :: rest' =>
    if fst iv <=? snd cur + 1 then merge_acc (fst cur, Z.max (snd cur) (snd iv)) rest'
    else cur :: merge_acc iv rest'
  end.
Definition merge_ivs (l : list (Z * Z)) : list (Z * Z) := match l with [] => [] | iv :: rest => merge_acc iv rest end.

Lemma merge_acc_sound r : forall rest cur m, In m (merge_acc cur rest) -> in_iv m r = true ->
  in_iv cur r = true \/ exists iv, In iv rest /\ in_iv iv r = true.
Proof.
  induction rest as [|iv rest IH]; intros cur m Hin Hr.
  - destruct Hin as [<-|[]]. left; exact Hr.
  - cbn [merge_acc] in Hin. destruct (fst iv <=? snd cur + 1) eqn:E.
    + apply Z.leb_le in E. destruct (IH _ _ Hin Hr) as [H|[iv' [H1 H2]]].
      * unfold in_iv in *. cbn [fst snd] in H. apply andb_prop in H as [A B]. apply Z.leb_le in A, B.
        destruct (Z_le_dec r (snd cur)).
        -- left. apply andb_true_intro; split; apply Z.leb_le; lia.
        -- right. exists iv. split; [left; reflexivity|]. apply andb_true_intro; split; apply Z.leb_le; lia.
      * right. exists iv'. split; [right; exact H1|exact H2].
    + destruct Hin as [<-|Hin]; [left; exact Hr|].
      destruct (IH _ _ Hin Hr) as [H|[iv' [H1 H2]]].
      * right. exists iv. split; [left; reflexivity|exact H].
      * right. exists iv'. split; [right; exact H1|exact H2].
Qed.
Lemma merge_ivs_sound l r m : In m (merge_ivs l) -> in_iv m r = true -> exists iv, In iv l /\ in_iv iv r = true.
Proof.
  destruct l as [|iv rest]; [contradiction|]. cbn [merge_ivs]. intros Hin Hr.
  destruct (merge_acc_sound r _ _ _ Hin Hr) as [H|[iv' [H1 H2]]].
  - exists iv. split; [left; reflexivity|exact H].
  - exists iv'. split; [right; exact H1|exact H2].
Qed.

Definition iv_within (iv a : Z * Z) : bool := (fst a <=? fst iv) && (snd iv <=? snd a).
Definition prefilter_covers (all : rtab) (o : list (nat * rtab)) : bool :=
  forallb (fun iv => existsb (iv_within iv) (merge_ivs (intervals_of all))) (flat_map (fun p => intervals_of (snd p)) o).

Lemma prefilter_sound all o r : prefilter_covers all o = true -> table_ok all = true -> order_ok o = true ->
  forall p, In p o -> mem (snd p) r = true -> mem all r = true.
Proof.
  intros Hc Hall Ho p Hp Hm.
  destruct (mem_intervals _ r (order_ok_strides o Ho p Hp) Hm) as [iv [Hiv Hr]].
  unfold prefilter_covers in Hc. rewrite forallb_forall in Hc.
  specialize (Hc iv ltac:(apply in_flat_map; exists p; split; assumption)).
  apply existsb_exists in Hc as [a [Ha Hw]].
  assert (Har : in_iv a r = true).
  { unfold iv_within, in_iv in *. apply andb_prop in Hw as [W1 W2]. apply andb_prop in Hr as [R1 R2].
    apply Z.leb_le in W1, W2, R1, R2. apply andb_true_intro; split; apply Z.leb_le; lia. }
  destruct (merge_ivs_sound _ r a Ha Har) as [iv' [H1 H2]].
  apply table_ok_sound in Hall as [_ [F _]].
  exact (intervals_mem all r iv' F H1 H2).
Qed.

(* ============================================================================================== *)
(* 8. the five lookups of unicodedata: table facts (computed) and the resulting statements *)

Lemma categories_family_ok : family_ok categories_order = true. Proof. vm_compute. reflexivity. Qed.
Lemma combining_family_ok : family_ok combiningClasses_order = true. Proof. vm_compute. reflexivity. Qed.
Lemma lineBreaks_family_ok : family_ok lineBreaks_order = true. Proof. vm_compute. reflexivity. Qed.
Lemma graphemeBreaks_family_ok : family_ok graphemeBreaks_order = true. Proof. vm_compute. reflexivity. Qed.
Lemma wordBreaks_family_ok : family_ok wordBreaks_order = true. Proof. vm_compute. reflexivity. Qed.
Lemma gb_All_ok : table_ok gb_All = true. Proof. vm_compute. reflexivity. Qed.
Lemma wb_All_ok : table_ok wb_All = true. Proof. vm_compute. reflexivity. Qed.
Lemma gb_prefilter_ok : prefilter_covers gb_All graphemeBreaks_order = true. Proof. vm_compute. reflexivity. Qed.
Lemma wb_prefilter_ok : prefilter_covers wb_All wordBreaks_order = true. Proof. vm_compute. reflexivity. Qed.

Lemma categories_tabs_eq : categories_tabs = split_order categories_order. Proof. vm_compute. reflexivity. Qed.
Lemma combining_tabs_eq : combining_tabs = split_order combiningClasses_order. Proof. vm_compute. reflexivity. Qed.
Lemma lineBreaks_tabs_eq : lineBreaks_tabs = split_order lineBreaks_order. Proof. vm_compute. reflexivity. Qed.
Lemma graphemeBreaks_tabs_eq : graphemeBreaks_tabs = split_order graphemeBreaks_order. Proof. vm_compute. reflexivity. Qed.
Lemma wordBreaks_tabs_eq : wordBreaks_tabs = split_order wordBreaks_order. Proof. vm_compute. reflexivity. Qed.
Lemma gb_All_tab_eq : gb_All_tab = split_tab gb_All. Proof. vm_compute. reflexivity. Qed.
Lemma wb_All_tab_eq : wb_All_tab = split_tab wb_All. Proof. vm_compute. reflexivity. Qed.

Lemma family_order_ok o : family_ok o = true -> order_ok o = true.
Proof. unfold family_ok. intro H. apply andb_prop in H. tauto. Qed.

Lemma lookup_type_scan r : is_rune r -> lookup_type r = Ok (scan_classes categories_order r).
Proof.
  intro Hr. unfold lookup_type. rewrite categories_tabs_eq.
  apply lookup_first_scan; [apply family_order_ok, categories_family_ok|exact Hr].
Qed.
Lemma lookup_combining_class_scan r : is_rune r ->
  lookup_combining_class r = Ok (match scan_classes combiningClasses_order r with Some i => Z.of_nat i | None => 0 end).
Proof.
  intro Hr. unfold lookup_combining_class. rewrite combining_tabs_eq.
  rewrite lookup_first_scan; [reflexivity|apply family_order_ok, combining_family_ok|exact Hr].
Qed.
Lemma lookup_line_break_scan r : is_rune r ->
  lookup_line_break r = Ok (match scan_classes lineBreaks_order r with Some i => i | None => lineBreaks_default end).
Proof.
  intro Hr. unfold lookup_line_break. rewrite lineBreaks_tabs_eq.
  rewrite lookup_first_scan; [reflexivity|apply family_order_ok, lineBreaks_family_ok|exact Hr].
Qed.

Lemma prefiltered_scan all o r : prefilter_covers all o = true -> table_ok all = true -> family_ok o = true -> is_rune r ->
  (do b <- unicode_is_split (split_tab all) r; if negb b then Ok None else lookup_first (split_order o) r)
  = Ok (scan_classes o r).
Proof.
  intros Hc Hall Hf Hr. change (unicode_is_split (split_tab all) r) with (unicode_is all r).
  rewrite (unicode_is_mem all r Hall Hr). cbn [bind].
  destruct (mem all r) eqn:E; cbn [negb].
  - apply lookup_first_scan; [apply family_order_ok; exact Hf|exact Hr].
  - destruct (scan_classes o r) as [i|] eqn:Es; [|reflexivity].
    destruct (scan_some _ _ _ Es) as [p [Hp [_ Hm]]].
    pose proof (prefilter_sound all o r Hc Hall (family_order_ok o Hf) p Hp Hm). congruence.
Qed.

Lemma lookup_grapheme_break_scan r : is_rune r -> lookup_grapheme_break r = Ok (scan_classes graphemeBreaks_order r).
Proof.
  intro Hr. unfold lookup_grapheme_break. rewrite graphemeBreaks_tabs_eq, gb_All_tab_eq.
  apply prefiltered_scan; [exact gb_prefilter_ok|exact gb_All_ok|exact graphemeBreaks_family_ok|exact Hr].
Qed.
Lemma lookup_word_break_scan r : is_rune r -> lookup_word_break r = Ok (scan_classes wordBreaks_order r).
Proof.
  intro Hr. unfold lookup_word_break. rewrite wordBreaks_tabs_eq, wb_All_tab_eq.
  apply prefiltered_scan; [exact wb_prefilter_ok|exact wb_All_ok|exact wordBreaks_family_ok|exact Hr].
Qed.

(* the statement shared by the five families *)
Definition partition_statement (o : list (nat * rtab)) : Prop :=
  forall r : Z,
    (forall p1 p2, In p1 o -> In p2 o -> mem (snd p1) r = true -> mem (snd p2) r = true -> fst p1 = fst p2)
    /\ (forall o', Permutation o o' -> scan_classes o' r = scan_classes o r).
Lemma partition_of_family o : family_ok o = true -> partition_statement o.
Proof. intros H r. split; [apply class_unique; exact H|apply scan_order_independent; exact H]. Qed.


(* ============================================================================================== *)
(* 9. converse inclusion: the prefilter tables contain nothing but the classes of their family *)

Definition ivs_of_tagged (l : list (Z * Z * Z)) : list (Z * Z) := map (fun x => (e_lo x, e_hi x)) l.
Definition prefilter_within (all : rtab) (o : list (nat * rtab)) : bool :=
  forallb (fun iv => existsb (iv_within iv) (merge_ivs (ivs_of_tagged (LoSort.sort (tagged o))))) (intervals_of all).

Lemma prefilter_within_sound all o r : prefilter_within all o = true -> table_ok all = true -> order_ok o = true ->
  mem all r = true -> exists p, In p o /\ mem (snd p) r = true.
Proof.
  intros Hc Hall Ho Hm. apply table_ok_sound in Hall as [_ [F _]].
  destruct (mem_intervals all r F Hm) as [iv [Hiv Hr]].
  unfold prefilter_within in Hc. rewrite forallb_forall in Hc. specialize (Hc iv Hiv).
  apply existsb_exists in Hc as [a [Ha Hw]].
  assert (Har : in_iv a r = true).
  { unfold iv_within, in_iv in *. apply andb_prop in Hw as [W1 W2]. apply andb_prop in Hr as [R1 R2].
    apply Z.leb_le in W1, W2, R1, R2. apply andb_true_intro; split; apply Z.leb_le; lia. }
  destruct (merge_ivs_sound _ r a Ha Har) as [iv' [H1 H2]].
  unfold ivs_of_tagged in H1. apply in_map_iff in H1 as [x [Hx Hin]].
  apply (Permutation_in _ (Permutation_sym (LoSort.Permuted_sort (tagged o)))) in Hin.
  unfold tagged in Hin. apply in_flat_map in Hin as [p [Hp Hin]]. apply in_map_iff in Hin as [iv'' [Hx' Hiv'']].
  exists p. split; [exact Hp|].
  apply (intervals_mem (snd p) r iv'' (order_ok_strides o Ho p Hp) Hiv'').
  subst x iv'. unfold e_lo, e_hi in H2. cbn [fst snd] in H2. unfold in_iv in *. cbn [fst snd] in H2. exact H2.
Qed.

Lemma gb_within_ok : prefilter_within gb_All graphemeBreaks_order = true. Proof. vm_compute. reflexivity. Qed.
Lemma wb_within_ok : prefilter_within wb_All wordBreaks_order = true. Proof. vm_compute. reflexivity. Qed.

Lemma prefilter_is_union_lemma : forall r : Z,
  (mem gb_All r = true <-> exists p, In p graphemeBreaks_order /\ mem (snd p) r = true)
  /\ (mem wb_All r = true <-> exists p, In p wordBreaks_order /\ mem (snd p) r = true).
Proof.
  intro r. split; split.
  - apply prefilter_within_sound; [exact gb_within_ok|exact gb_All_ok|apply family_order_ok, graphemeBreaks_family_ok].
  - intros [p [Hp Hm]]. exact (prefilter_sound _ _ r gb_prefilter_ok gb_All_ok (family_order_ok _ graphemeBreaks_family_ok) p Hp Hm).
  - apply prefilter_within_sound; [exact wb_within_ok|exact wb_All_ok|apply family_order_ok, wordBreaks_family_ok].
  - intros [p [Hp Hm]]. exact (prefilter_sound _ _ r wb_prefilter_ok wb_All_ok (family_order_ok _ wordBreaks_family_ok) p Hp Hm).
Qed.
